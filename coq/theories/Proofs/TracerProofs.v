(* C09 / C10 - proofs about the tracer model (Tracer.v). *)
From BS Require Import Model.Base Gen.Tracer.
From BS Require Import Model.Tracer.
From Coq Require Import Lia.
Open Scope N_scope.

Ltac inv H := inversion H; subst.

(* ===================================================================================== *)
(* A. thread-table lemmas                                                                  *)
(* ===================================================================================== *)
Lemma tget_tset : forall l x v y,
  tget (tset l x v) y = if x =? y then match tget l x with Some _ => Some v | None => None end else tget l y.
Proof.
  induction l as [|[z s] l IH]; intros x v y; cbn [tset tget alist_get].
  - destruct (x =? y); reflexivity.
  - destruct (x =? z) eqn:Exz; cbn [tget alist_get].
    + apply N.eqb_eq in Exz; subst z. rewrite (N.eqb_sym y x). destruct (x =? y); reflexivity.
    + unfold tget in IH. rewrite IH. destruct (x =? y) eqn:Exy.
      * apply N.eqb_eq in Exy; subst y. rewrite Exz. reflexivity.
      * reflexivity.
Qed.

Lemma tget_app : forall l x v y, tget l x = None -> tget (l ++ [(x, v)]) y = if x =? y then Some v else tget l y.
Proof.
  induction l as [|[z s] l IH]; intros x v y H; cbn [app tget alist_get] in *.
  - rewrite (N.eqb_sym y x). destruct (x =? y); reflexivity.
  - destruct (x =? z) eqn:Exz; [discriminate|]. unfold tget in IH. rewrite IH by exact H.
    destruct (y =? z) eqn:Eyz; [|reflexivity].
    apply N.eqb_eq in Eyz; subst z. rewrite Exz. reflexivity.
Qed.

Lemma tget_tadd : forall l x y, tget (tadd l x) y = if x =? y then Some (TStopped StInterrupt) else tget l y.
Proof.
  intros l x y. unfold tadd. destruct (tget l x) eqn:E.
  - rewrite tget_tset, E. reflexivity.
  - apply tget_app; exact E.
Qed.

Lemma tget_tremove : forall l x y, tget (tremove l x) y = if x =? y then None else tget l y.
Proof.
  induction l as [|[z s] l IH]; intros x y; cbn [tremove filter tget alist_get fst].
  - destruct (x =? y); reflexivity.
  - destruct (z =? x) eqn:Ezx; cbn [negb tget alist_get].
    + apply N.eqb_eq in Ezx; subst z. unfold tremove, tget in IH. rewrite IH.
      rewrite (N.eqb_sym y x). destruct (x =? y); reflexivity.
    + unfold tremove, tget in IH. rewrite IH. destruct (y =? z) eqn:Eyz; [|reflexivity].
      apply N.eqb_eq in Eyz; subst z. rewrite (N.eqb_sym x y), Ezx. reflexivity.
Qed.

Definition st_of (t : tracer) (x : N) := tget (t_threads t) x.
Definition allstopped (t : tracer) : Prop := forall x, st_of t x <> Some TRunning.

(* ---- the thread table never holds a thread id twice ---------------------------------- *)
Definition keys_ok (t : tracer) : Prop := NoDup (map fst (t_threads t)).

Lemma tset_keys : forall l x v, map fst (tset l x v) = map fst l.
Proof.
  induction l as [|[z s] l IH]; intros x v; cbn [tset map fst]; [reflexivity|].
  destruct (x =? z); cbn [map fst]; [reflexivity | rewrite IH; reflexivity].
Qed.
Lemma tget_none_notin : forall l x, tget l x = None -> ~ In x (map fst l).
Proof.
  induction l as [|[z s] l IH]; intros x H; cbn [tget alist_get map fst In] in *; [tauto|].
  destruct (x =? z) eqn:E; [discriminate|]. apply N.eqb_neq in E. intros [H1|H1]; [congruence | eapply IH; eauto].
Qed.
Lemma nodup_snoc : forall (l : list N) x, NoDup l -> ~ In x l -> NoDup (l ++ [x]).
Proof.
  induction l as [|a l IH]; intros x H Hn; cbn [app].
  - constructor; [intros []|constructor].
  - inv H. constructor.
    + rewrite in_app_iff. intros [Hi|[Hi|[]]]; [contradiction|]. apply Hn. left. auto.
    + apply IH; auto. intros Hin. apply Hn. right. exact Hin.
Qed.
Lemma nodup_filter_keys : forall (g : N * tstatus -> bool) l, NoDup (map fst l) -> NoDup (map fst (filter g l)).
Proof.
  induction l as [|a l IH]; intros H; cbn [filter map]; [constructor|].
  cbn [map] in H. inv H. destruct (g a); cbn [map]; auto. constructor; auto.
  intros Hin. apply H2. apply in_map_iff in Hin. destruct Hin as [b [Hb1 Hb2]].
  apply filter_In in Hb2. apply in_map_iff. exists b. tauto.
Qed.
Lemma keys_set : forall t x v, keys_ok t -> keys_ok (t_set t x v).
Proof. intros t x v H. unfold keys_ok, t_set; cbn [t_threads with_threads]. rewrite tset_keys. exact H. Qed.
Lemma keys_add : forall t x, keys_ok t -> keys_ok (t_add t x).
Proof.
  intros t x H. unfold keys_ok, t_add, tadd; cbn [t_threads with_threads].
  destruct (tget (t_threads t) x) eqn:E.
  - rewrite tset_keys. exact H.
  - rewrite map_app. cbn [map fst]. apply nodup_snoc; auto. apply tget_none_notin; exact E.
Qed.
Lemma keys_remove : forall t x, keys_ok t -> keys_ok (t_remove t x).
Proof. intros t x H. unfold keys_ok, t_remove, tremove; cbn [t_threads with_threads]. apply nodup_filter_keys. exact H. Qed.
Lemma keys_ensure : forall t x st t', ensure_stop t x st = Ok t' -> keys_ok t -> keys_ok t'.
Proof. intros t x st t' H K. unfold ensure_stop in H. destruct (tget (t_threads t) x); inv H. apply keys_set; exact K. Qed.
Lemma keys_queue : forall t q, keys_ok t -> keys_ok (with_queue t q).
Proof. intros t q H. exact H. Qed.
Lemma keys_guard : forall t g, keys_ok t -> keys_ok (with_guard t g).
Proof. intros t g H. exact H. Qed.


(* ===================================================================================== *)
(* B. All-stop, for ANY world obeying two laws                                             *)
(* ===================================================================================== *)
Definition resumes (r : preq) : option N :=
  match r with PCont x _ | PStep x _ | PSyscall x => Some x | _ => None end.

Section LAWS.
Variable dq : bool.                 (* the single_step dequeue switch: everything here holds for both *)
Variable W : Type.
Variable w_wait : W -> option N -> res (wstatus * W).
Variable w_req : W -> preq -> bool * W.
Variable w_pc : W -> N -> N.
Variable running : W -> N -> Prop.       (* the thread executes debuggee code *)
Variable exitstop : W -> N -> Prop.      (* the thread stands in a reported PTRACE_EVENT_EXIT stop *)

(* waiting never starts a thread; the thread whose status is returned is not running *)
Hypothesis wait_law : forall w tg s w', w_wait w tg = Ok (s, w') ->
  (forall x, running w' x -> running w x) /\ ~ running w' (ws_tid s)
  /\ (forall y, tg = Some y -> ws_tid s = y) /\ (forall p, s = WEvent p EvExit -> exitstop w' p).
(* a request starts at most the thread it resumes, and not one that is exiting *)
Hypothesis req_law : forall w r ok w', w_req w r = (ok, w') ->
  forall x, running w' x -> running w x \/ (ok = true /\ resumes r = Some x /\ ~ exitstop w x).

(* PTRACE_INTERRUPT fails (ESRCH) only for a thread that is not running any more *)
Hypothesis intr_law : forall w x w', w_req w (PInterrupt x) = (false, w') -> ~ running w' x.

Notation ans := (ans dq W w_wait w_req w_pc).
Notation gsi := (gsi dq W w_wait w_req w_pc).
Notation gsi_round := (gsi_round dq W w_wait w_req w_pc).
Notation gsi_while := (gsi_while dq W w_wait w_req w_pc).
Notation sstep := (sstep dq W w_wait w_req w_pc).
Notation sstep_loop := (sstep_loop dq W w_wait w_req w_pc).
Notation sstep_drain := (sstep_drain dq W w_wait w_req w_pc).
Notation resume := (resume dq W w_wait w_req w_pc).
Notation cont_list := (cont_list W w_req).
Notation cont_stopped_ex := (cont_stopped_ex W w_req).

(* the coupling invariant: a thread that runs is one the tracer believes to be running *)
Definition Inv (t : tracer) (w : W) : Prop := forall x, running w x -> st_of t x = Some TRunning.

Record good (t : tracer) (w : W) (t' : tracer) (w' : W) : Prop := mk_good {
  g_mono : forall x, running w' x -> running w x;
  g_chg : forall x, st_of t x = Some TRunning -> st_of t' x <> Some TRunning -> ~ running w' x;
  g_nr : forall x, st_of t x <> Some TRunning -> st_of t' x <> Some TRunning;
  g_keys : keys_ok t -> keys_ok t' }.

Lemma good_refl : forall t w, good t w t w.
Proof. intros; constructor; auto; intros x H H'; contradiction. Qed.

Lemma good_trans : forall t w t1 w1 t2 w2, good t w t1 w1 -> good t1 w1 t2 w2 -> good t w t2 w2.
Proof.
  intros t w t1 w1 t2 w2 [m1 c1 n1 k1] [m2 c2 n2 k2]. constructor; [| | |auto].
  - auto.
  - intros x Hr Hn Hrun.
    destruct (st_of t1 x) as [[|]|] eqn:E.
    + apply (c1 x Hr); [rewrite E; discriminate | auto].
    + apply (c2 x E Hn Hrun).
    + apply (c1 x Hr); [rewrite E; discriminate | auto].
  - auto.
Qed.

Lemma good_inv : forall t w t' w', good t w t' w' -> Inv t w -> Inv t' w'.
Proof.
  intros t w t' w' [m c n k] I x Hr.
  destruct (st_of t' x) as [[|]|] eqn:E; auto; exfalso;
  apply (c x (I x (m x Hr))); try (rewrite E; discriminate); auto.
Qed.

Lemma good_allstopped : forall t w t' w', good t w t' w' -> allstopped t -> allstopped t'.
Proof. intros t w t' w' [m c n k] A x. apply n, A. Qed.

(* tracer-only updates of one entry *)
Lemma good_upd : forall t w t' x,
  (forall y, y <> x -> st_of t' y = st_of t y) -> st_of t' x <> Some TRunning ->
  (st_of t x = Some TRunning -> ~ running w x) -> (keys_ok t -> keys_ok t') -> good t w t' w.
Proof.
  intros t w t' x Hy Hx Hr Hk. constructor; auto.
  - intros y Hy1 Hy2. destruct (N.eq_dec y x) as [->|Ne]; auto. rewrite (Hy y Ne) in Hy2. contradiction.
  - intros y Hy1. destruct (N.eq_dec y x) as [->|Ne]; auto. rewrite (Hy y Ne). auto.
Qed.

Lemma good_same : forall t w t', (forall y, st_of t' y = st_of t y) -> (keys_ok t -> keys_ok t') -> good t w t' w.
Proof.
  intros t w t' H Hk. constructor; auto.
  - intros x H1 H2. rewrite H in H2. contradiction.
  - intros x H1. rewrite H. auto.
Qed.

Lemma good_set : forall t w x st, ~ running w x -> good t w (t_set t x (TStopped st)) w.
Proof.
  intros t w x st Hr. apply good_upd with (x := x); auto; [| |apply keys_set].
  - intros y Ne. unfold st_of, t_set; cbn [t_threads with_threads]. rewrite tget_tset.
    destruct (x =? y) eqn:E; auto. apply N.eqb_eq in E; subst; contradiction.
  - unfold st_of, t_set; cbn [t_threads with_threads]. rewrite tget_tset, N.eqb_refl.
    destruct (tget (t_threads t) x); discriminate.
Qed.

Lemma good_add : forall t w x, (st_of t x = Some TRunning -> ~ running w x) -> good t w (t_add t x) w.
Proof.
  intros t w x Hr. apply good_upd with (x := x); auto; [| |apply keys_add].
  - intros y Ne. unfold st_of, t_add; cbn [t_threads with_threads]. rewrite tget_tadd.
    destruct (x =? y) eqn:E; auto. apply N.eqb_eq in E; subst; contradiction.
  - unfold st_of, t_add; cbn [t_threads with_threads]. rewrite tget_tadd, N.eqb_refl. discriminate.
Qed.

Lemma good_remove : forall t w x, (st_of t x = Some TRunning -> ~ running w x) -> good t w (t_remove t x) w.
Proof.
  intros t w x Hr. apply good_upd with (x := x); auto; [| |apply keys_remove].
  - intros y Ne. unfold st_of, t_remove; cbn [t_threads with_threads]. rewrite tget_tremove.
    destruct (x =? y) eqn:E; auto. apply N.eqb_eq in E; subst; contradiction.
  - unfold st_of, t_remove; cbn [t_threads with_threads]. rewrite tget_tremove, N.eqb_refl. discriminate.
Qed.

Lemma good_ensure : forall t w x st t', ensure_stop t x st = Ok t' -> ~ running w x -> good t w t' w /\ t_guard t' = t_guard t.
Proof.
  intros t w x st t' H Hr. unfold ensure_stop in H. destruct (tget (t_threads t) x); inversion H; subst.
  split; [apply good_set; auto | reflexivity].
Qed.

Lemma ensure_st : forall t x st t', ensure_stop t x st = Ok t' -> st_of t' x = Some (TStopped st).
Proof.
  intros t x st t' H. unfold ensure_stop in H. destruct (tget (t_threads t) x) eqn:E; inv H.
  unfold st_of, t_set; cbn [t_threads with_threads]. rewrite tget_tset, N.eqb_refl, E. reflexivity.
Qed.

Lemma good_world : forall t w w', (forall x, running w' x -> running w x) -> good t w t w'.
Proof. intros t w w' H. constructor; auto; intros x H1 H2; contradiction. Qed.

Lemma good_wait : forall t w tg s w', w_wait w tg = Ok (s, w') -> good t w t w'.
Proof. intros t w tg s w' H. apply good_world. apply (wait_law _ _ _ _ H). Qed.

Lemma good_req_quiet : forall t w r ok w', w_req w r = (ok, w') -> resumes r = None -> good t w t w'.
Proof.
  intros t w r ok w' H Hn. apply good_world. intros x Hr.
  destruct (req_law _ _ _ _ H x Hr) as [|[_ [E _]]]; auto. rewrite Hn in E; discriminate.
Qed.

(* a world step that may start [pid], followed by something that ends with [pid] stopped *)
Lemma step_then : forall t w w1 t' w' pid,
  (forall x, running w1 x -> running w x \/ x = pid) -> good t w1 t' w' -> ~ running w' pid -> good t w t' w'.
Proof.
  intros t w w1 t' w' pid Hs [m c n k] Hp. constructor; auto.
  intros x Hr. destruct (Hs x (m x Hr)) as [ H0 | H0 ]; auto. subst x. contradiction.
Qed.

Lemma req_starts : forall w r ok w' pid, w_req w r = (ok, w') -> resumes r = Some pid ->
  forall x, running w' x -> running w x \/ x = pid.
Proof.
  intros w r ok w' pid H Hp x Hr. destruct (req_law _ _ _ _ H x Hr) as [|[_ [E _]]]; auto.
  rewrite Hp in E; inversion E; auto.
Qed.

Definition real_stop (r : option stop_reason) : bool :=
  match r with
  | Some (SRBreakpoint _ _) | Some (SRWatchpoint _ _) => true
  | Some (SRSignal _ s) => negb (quiet s)
  | _ => false end.

Lemma good_nr : forall t w t' w' x, good t w t' w' -> ~ running w x -> ~ running w' x.
Proof. intros t w t' w' x [m _ _ _] H Hr. apply H, m, Hr. Qed.

Definition P_ans f := forall bps t w s t' w' r,
  ~ running w (ws_tid s) -> (forall p, s = WEvent p EvExit -> exitstop w p) ->
  ans f bps t w s = Ok (t', w', r) ->
  good t w t' w' /\ t_guard t' = t_guard t /\ (t_guard t = false -> real_stop r = true -> allstopped t').
Definition P_gsi f := forall bps t w i t' w', gsi f bps t w i = Ok (t', w') ->
  good t w t' w' /\ t_guard t' = t_guard t /\
  (t_guard t = false -> (forall x, i = Some x -> st_of t x <> Some TRunning) -> allstopped t').
Definition P_round f := forall bps t w tids t' w', t_guard t = true -> gsi_round f bps t w tids = Ok (t', w') ->
  good t w t' w' /\ t_guard t' = true /\ (forall x, In x tids -> st_of t' x <> Some TRunning).
Definition P_while f := forall bps t w x wait t' w', t_guard t = true ->
  ~ running w (ws_tid wait) -> (forall p, wait = WEvent p EvExit -> exitstop w p) ->
  gsi_while f bps t w x wait = Ok (t', w') -> good t w t' w' /\ t_guard t' = true.
Definition P_sstep f := forall bps t w pid t' w' r, ~ running w pid ->
  sstep f bps t w pid = Ok (t', w', r) -> good t w t' w' /\ t_guard t' = t_guard t.
Definition P_loop f := forall bps t w pid pc0 t' w' r,
  sstep_loop f bps t w pid pc0 = Ok (t', w', r) -> good t w t' w' /\ ~ running w' pid /\ t_guard t' = t_guard t.
Definition P_drain f := forall bps t w pid t' w', ~ running w pid ->
  sstep_drain f bps t w pid = Ok (t', w') -> good t w t' w' /\ t_guard t' = t_guard t.

Definition P_all f := P_ans f /\ P_gsi f /\ P_round f /\ P_while f /\ P_sstep f /\ P_loop f /\ P_drain f.

Ltac bindH H :=
  match type of H with
  | bind ?r _ = Ok _ => let E := fresh "E" in destruct r as [?|?|?|] eqn:E; cbn [bind] in H; try discriminate H
  end.

Ltac pairH H :=
  match type of H with
  | (let '(_, _) := ?p in _) = Ok _ => let a := fresh "a" in let b := fresh "w" in destruct p as [a b] eqn:?
  end.

Ltac bindN H a E :=
  match type of H with
  | bind ?r _ = Ok _ => destruct r as [a|?|?|] eqn:E; cbn [bind] in H; try discriminate H
  end.

Lemma ans_step : forall f, P_all f -> P_ans (S f).
Proof.
  intros f (IHans & IHgsi & IHround & IHwhile & IHsstep & IHloop & IHdrain).
  intros bps t w s t' w' r Hnr Hex H.
  cbn [Tracer.ans] in H.
  destruct s as [p code | p e | p sg code pc | p sg | p]; cbn [ws_tid] in Hnr.
  - (* Exited *) inv H. split; [apply good_remove; auto|]. split; [reflexivity|].
    intros _ Hu. destruct (p =? t_proc t); discriminate.
  - destruct e as [ | c | | | ].
    + inv H. split; [apply good_add; auto|]. split; [reflexivity|]. intros _ Hu; discriminate.
    + bindH H. destruct (good_ensure _ w _ _ _ E Hnr) as [G1 Gd1].
      destruct (tget (t_threads a) c) eqn:Ec.
      * inv H. split; [exact G1|]. split; [exact Gd1 | intros _ Hu; discriminate].
      * bindH H. destruct a0 as [ns w1].
        assert (Gadd : good a w (t_add a c) w).
        { apply good_add. unfold st_of. rewrite Ec. discriminate. }
        assert (Gw : good (t_add a c) w (t_add a c) w1) by (eapply good_wait; eauto).
        assert (G2 : good t w (t_add a c) w1) by (eapply good_trans; [eapply good_trans|]; eauto).
        destruct ns as [? ? | c' e' | | | ]; try discriminate.
        -- inv H. split; [|split; [exact Gd1 | intros _ Hu; discriminate]].
           eapply good_trans; [exact G2|]. apply good_remove.
           unfold st_of, t_add; cbn [t_threads with_threads]. rewrite tget_tadd, N.eqb_refl. discriminate.
        -- destruct e'; try discriminate. destruct (c' =? c); try discriminate. inv H.
           split; [exact G2|]. split; [exact Gd1 | intros _ Hu; discriminate].
    + destruct (tget (t_threads t) p); inv H.
      * split; [apply good_set; auto|]. split; [reflexivity | intros _ Hu; discriminate].
      * split; [apply good_add; auto|]. split; [reflexivity | intros _ Hu; discriminate].
    + destruct (tget (t_threads t) p).
      * destruct (w_req w (PCont p 0)) as [ok w1] eqn:Er. inv H.
        assert (M : forall x, running w' x -> running w x).
        { intros x Hr. destruct (req_law _ _ _ _ Er x Hr) as [|[_ [E1 E2]]]; auto.
          cbn in E1. inv E1. exfalso. apply E2. apply Hex. reflexivity. }
        split; [|split; [reflexivity | intros _ Hu; discriminate]].
        eapply good_trans; [apply good_world; exact M|]. apply good_remove. intros _ Hr. apply Hnr, M, Hr.
      * inv H. split; [apply good_refl|]. split; [reflexivity | intros _ Hu; discriminate].
    + inv H. split; [apply good_refl|]. split; [reflexivity | intros _ Hu; discriminate].
  - (* Stopped *)
    destruct (sg =? SIGTRAP) eqn:Esg.
    + destruct ((code =? TRAP_TRACE)%Z); [discriminate|].
      destruct ((code =? TRAP_BRKPT)%Z || (code =? SI_KERNEL)%Z).
      * destruct (tget (t_threads t) p) eqn:Ep; [|discriminate].
        destruct (pc =? 0); [discriminate|].
        destruct (w_req w (PSetPc p (pc - 1))) as [ok w1] eqn:Er.
        destruct (negb ok); [discriminate|].
        assert (G0 : good t w t w1) by (eapply good_req_quiet; eauto).
        assert (Hnr1 : ~ running w1 p) by (eapply good_nr; eauto).
        destruct (find_bp bps (pc - 1)) as [b|];
          [| (* the breakpoint is not in the table anymore: the trap is consumed, the tracee marked stopped *)
             bindH H; destruct (good_ensure _ w1 _ _ _ E Hnr1) as [G1 Gd1]; inv H;
             split; [eapply good_trans; [exact G0 | exact G1] |];
             split; [exact Gd1 | intros _ Hu; discriminate] ].
        match type of H with (if ?c then _ else _) = _ => destruct c end.
        -- (* swallowed *)
           bindH H. destruct a as [t5 w5]. bindH H. inv H.
           assert (Gsw : good t w1 t5 w' /\ t_guard t5 = t_guard t).
           { destruct (b_enabled b).
             - destruct (w_req w1 (PBpDisable (pc - 1))) as [ok2 w2] eqn:Er2.
               bindN E q E1. destruct q as [t3 w3].
               destruct (w_req w3 (PBpEnable (pc - 1))) as [ok4 w4] eqn:Er4. inv E.
               assert (G2 : good t w1 t w2) by (eapply good_req_quiet; eauto).
               destruct (IHdrain _ _ _ _ _ _ (good_nr _ _ _ _ _ G2 Hnr1) E1) as [G3 Gd3].
               split; [|exact Gd3].
               eapply good_trans; [exact G2|]. eapply good_trans; [exact G3|]. eapply good_req_quiet; eauto.
             - inv E. split; [apply good_refl | reflexivity]. }
           destruct Gsw as [Gsw Gdsw].
           destruct (good_ensure _ w' _ _ _ E0 (good_nr _ _ _ _ _ Gsw Hnr1)) as [G9 Gd9].
           split; [|split; [congruence | intros _ Hu; discriminate]].
           eapply good_trans; [exact G0|]. eapply good_trans; eauto.
        -- bindH H. destruct (good_ensure _ w1 _ _ _ E Hnr1) as [G1 Gd1].
           bindH H. destruct a0 as [t3 w3]. inv H.
           destruct (IHgsi _ _ _ _ _ _ E0) as (G2 & Gd2 & A2).
           split; [|split].
           ++ eapply good_trans; [exact G0|]. eapply good_trans; eauto.
           ++ congruence.
           ++ intros Hg _. apply A2; [congruence|]. intros y Hy; inv Hy. rewrite (ensure_st _ _ _ _ E). discriminate.
      * destruct ((code =? TRAP_HWBKPT)%Z).
        -- bindH H. destruct (good_ensure _ w _ _ _ E Hnr) as [G1 Gd1].
           bindH H. destruct a0 as [t3 w3]. inv H.
           destruct (IHgsi _ _ _ _ _ _ E0) as (G2 & Gd2 & A2).
           split; [|split].
           ++ eapply good_trans; eauto.
           ++ congruence.
           ++ intros Hg _. apply A2; [congruence|]. intros y Hy; inv Hy. rewrite (ensure_st _ _ _ _ E). discriminate.
        -- inv H. split; [apply good_refl|]. split; [reflexivity | intros _ Hu; discriminate].
    + set (t1 := if transparent sg then t else with_queue t (t_queue t ++ [(p, sg)])) in H.
      assert (G0 : good t w t1 w /\ t_guard t1 = t_guard t).
      { unfold t1. destruct (transparent sg); split; try reflexivity; try apply good_refl. apply good_same; [reflexivity | exact (fun K => K)]. }
      destruct G0 as [G0 Gd0].
      bindH H. destruct (good_ensure _ w _ _ _ E Hnr) as [G1 Gd1].
      bindH H. destruct a0 as [t3 w3]. inv H.
      destruct (quiet sg) eqn:Eq.
      * inv E0. split; [eapply good_trans; eauto|]. split; [congruence|].
        intros _ Hu. cbn [real_stop] in Hu. rewrite Eq in Hu. discriminate.
      * destruct (IHgsi _ _ _ _ _ _ E0) as (G2 & Gd2 & A2).
        split; [|split].
        ++ eapply good_trans; [exact G0|]. eapply good_trans; eauto.
        ++ congruence.
        ++ intros Hg _. apply A2; [congruence|]. intros y Hy; inv Hy. rewrite (ensure_st _ _ _ _ E). discriminate.
  - inv H. split; [apply good_refl|]. split; [reflexivity | intros _ Hu; discriminate].
  - inv H. split; [apply good_refl|]. split; [reflexivity | intros _ Hu; discriminate].
Qed.

Lemma tget_in : forall l x v, tget l x = Some v -> In x (map fst l).
Proof.
  induction l as [|[z s] l IH]; intros x v H; cbn [tget alist_get] in H; [discriminate|].
  cbn [map fst In]. destruct (x =? z) eqn:E.
  - apply N.eqb_eq in E. auto.
  - right. eapply IH. exact H.
Qed.

Lemma existsb_false_tget : forall (g : N * tstatus -> bool) l x v,
  existsb g l = false -> tget l x = Some v -> exists v', g (x, v') = false.
Proof.
  induction l as [|[z s] l IH]; intros x v He H; cbn [tget alist_get] in H; [discriminate|].
  cbn [existsb] in He. apply orb_false_iff in He. destruct He as [H1 H2].
  destruct (x =? z) eqn:E.
  - apply N.eqb_eq in E; subst z. eauto.
  - eapply IH; eauto.
Qed.

Lemma st_of_guard : forall t g y, st_of (with_guard t g) y = st_of t y.
Proof. reflexivity. Qed.

Lemma gsi_step : forall f, P_all f -> P_gsi (S f).
Proof.
  intros f (IHans & IHgsi & IHround & IHwhile & IHsstep & IHloop & IHdrain).
  intros bps t w i t' w' H. cbn [Tracer.gsi] in H.
  destruct (t_guard t) eqn:Eg.
  - inv H. split; [apply good_refl|]. split; [congruence | intros Hf; congruence].
  - match type of H with (if ?c then _ else _) = _ => destruct c eqn:Ex end.
    + inv H. split; [apply good_same; [reflexivity | exact (fun K => K)]|]. split; [cbn; congruence|].
      intros _ Hi x. rewrite st_of_guard, st_of_guard.
      destruct (st_of t x) as [v|] eqn:Ev; [|discriminate].
      apply negb_true_iff in Ex. cbn [t_threads with_guard] in Ex.
      destruct (existsb_false_tget _ _ _ _ Ex Ev) as [v' Hv]. cbn [fst] in Hv.
      apply negb_false_iff in Hv. destruct i as [y|]; cbn [opt_tid_eqb] in Hv; [|discriminate].
      apply N.eqb_eq in Hv; subst y. rewrite <- Ev. apply Hi. reflexivity.
    + bindN H q1 E1. destruct q1 as [t1 w1]. bindN H q2 E2. destruct q2 as [t2 w2]. inv H.
      destruct (IHround _ _ _ _ _ _ (eq_refl : t_guard (with_guard t true) = true) E1) as (G1 & Gd1 & A1).
      destruct (IHround _ _ _ _ _ _ Gd1 E2) as (G2 & Gd2 & A2).
      assert (AS1 : allstopped t1).
      { intros x. destruct (st_of (with_guard t true) x) as [v|] eqn:Ev.
        - apply A1. eapply tget_in. exact Ev.
        - apply (g_nr _ _ _ _ G1). rewrite Ev. discriminate. }
      split; [|split; [cbn; congruence|]].
      * eapply good_trans; [apply good_same with (t' := with_guard t true); [reflexivity | exact (fun K => K)]|].
        eapply good_trans; [exact G1|]. eapply good_trans; [exact G2|]. apply good_same; [reflexivity | exact (fun K => K)].
      * intros _ _ x. rewrite st_of_guard. apply (good_allstopped _ _ _ _ G2 AS1).
Qed.

Lemma round_step : forall f, P_all f -> P_round (S f).
Proof.
  intros f (IHans & IHgsi & IHround & IHwhile & IHsstep & IHloop & IHdrain).
  intros bps t w tids t' w' Hg H. cbn [Tracer.gsi_round] in H.
  destruct tids as [|x rest].
  - inv H. split; [apply good_refl|]. split; [exact Hg | intros x []].
  - assert (SKIP : st_of t x <> Some TRunning -> gsi_round f bps t w rest = Ok (t', w') ->
       good t w t' w' /\ t_guard t' = true /\ (forall y, In y (x :: rest) -> st_of t' y <> Some TRunning)).
    { intros Hx H'. destruct (IHround _ _ _ _ _ _ Hg H') as (G & Gd & A).
      split; [exact G|]. split; [exact Gd|]. intros y [<-|Hin]; [apply (g_nr _ _ _ _ G), Hx | apply A, Hin]. }
    destruct (tget (t_threads t) x) as [[st|]|] eqn:Ex.
    + apply SKIP; auto. unfold st_of; rewrite Ex; discriminate.
    + destruct (w_req w (PInterrupt x)) as [ok w1] eqn:Er.
      assert (G0 : good t w t w1) by (eapply good_req_quiet; eauto).
      destruct ok; cbn [negb] in H.
      * bindN H q1 E1. destruct q1 as [wait w2]. bindN H q2 E2. destruct q2 as [t3 w3].
        destruct (wait_law _ _ _ _ E1) as (M1 & N1 & T1 & X1).
        specialize (T1 x eq_refl).
        destruct (IHwhile _ _ _ _ _ _ _ Hg N1 X1 E2) as (G3 & Gd3).
        assert (N3 : ~ running w3 x) by (eapply good_nr; [exact G3|]; rewrite <- T1; exact N1).
        set (t4 := if is_running (tget (t_threads t3) x) then t_set t3 x (TStopped StInterrupt) else t3) in H.
        assert (G4 : good t3 w3 t4 w3 /\ t_guard t4 = true /\ st_of t4 x <> Some TRunning).
        { unfold t4. destruct (tget (t_threads t3) x) as [[|]|] eqn:E4; cbn [is_running].
          - split; [apply good_refl|]. split; [exact Gd3|]. unfold st_of; rewrite E4; discriminate.
          - split; [apply good_set; exact N3|]. split; [exact Gd3|].
            unfold st_of, t_set; cbn [t_threads with_threads]. rewrite tget_tset, N.eqb_refl, E4. discriminate.
          - split; [apply good_refl|]. split; [exact Gd3|]. unfold st_of; rewrite E4; discriminate. }
        destruct G4 as (G4 & Gd4 & S4).
        destruct (IHround _ _ _ _ _ _ Gd4 H) as (G5 & Gd5 & A5).
        split; [|split; [exact Gd5|]].
        -- eapply good_trans; [exact G0|]. eapply good_trans; [eapply good_wait; eauto|].
           eapply good_trans; [exact G3|]. eapply good_trans; eauto.
        -- intros y [<-|Hin]; [apply (g_nr _ _ _ _ G5), S4 | apply A5, Hin].
      * assert (N1 : ~ running w1 x) by (eapply intr_law; eauto).
        destruct (IHround _ _ _ _ _ _ (Hg : t_guard (t_set t x (TStopped StInterrupt)) = true) H) as (G5 & Gd5 & A5).
        split; [|split; [exact Gd5|]].
        -- eapply good_trans; [exact G0|]. eapply good_trans; [apply good_set; exact N1 | exact G5].
        -- intros y [<-|Hin]; [|apply A5, Hin]. apply (g_nr _ _ _ _ G5).
           unfold st_of, t_set; cbn [t_threads with_threads]. rewrite tget_tset, N.eqb_refl, Ex. discriminate.
    + apply SKIP; auto. unfold st_of; rewrite Ex; discriminate.
Qed.

Lemma while_step : forall f, P_all f -> P_while (S f).
Proof.
  intros f (IHans & IHgsi & IHround & IHwhile & IHsstep & IHloop & IHdrain).
  intros bps t w x wait t' w' Hg Hnr Hex H. cbn [Tracer.gsi_while] in H.
  destruct (is_event_stop wait).
  - inv H. split; [apply good_refl | exact Hg].
  - bindN H q E1. destruct q as [[t1 w1] stop].
    destruct (IHans _ _ _ _ _ _ _ Hnr Hex E1) as (G1 & Gd1 & _).
    assert (Hg1 : t_guard t1 = true) by congruence.
    bindN H b Eb. destruct b.
    + inv H. split; auto.
    + destruct (tget (t_threads t1) x) as [[[|sg]|]|].
      * inv H. split; auto.
      * bindN H q2 E2. destruct q2 as [wait' w2].
        destruct (wait_law _ _ _ _ E2) as (M2 & N2 & T2 & X2).
        destruct (IHwhile _ _ _ _ _ _ _ Hg1 N2 X2 H) as (G3 & Gd3).
        split; [|exact Gd3]. eapply good_trans; [exact G1|]. eapply good_trans; [eapply good_wait; eauto | exact G3].
      * bindN H q2 E2. destruct q2 as [wait' w2].
        destruct (wait_law _ _ _ _ E2) as (M2 & N2 & T2 & X2).
        destruct (IHwhile _ _ _ _ _ _ _ Hg1 N2 X2 H) as (G3 & Gd3).
        split; [|exact Gd3]. eapply good_trans; [exact G1|]. eapply good_trans; [eapply good_wait; eauto | exact G3].
      * inv H. split; auto.
Qed.

Lemma sstep_step : forall f, P_all f -> P_sstep (S f).
Proof.
  intros f (IHans & IHgsi & IHround & IHwhile & IHsstep & IHloop & IHdrain).
  intros bps t w pid t' w' r Hnr H. cbn [Tracer.sstep] in H.
  destruct (tget (t_threads t) pid); [|discriminate].
  destruct (w_req w (PStep pid 0)) as [ok w1] eqn:Er.
  destruct (negb ok); [discriminate|].
  destruct (IHloop _ _ _ _ _ _ _ _ H) as (G & N & Gd).
  split; [|exact Gd]. eapply step_then; [|exact G|exact N].
  eapply req_starts; [exact Er | reflexivity].
Qed.

Lemma drain_step : forall f, P_all f -> P_drain (S f).
Proof.
  intros f (IHans & IHgsi & IHround & IHwhile & IHsstep & IHloop & IHdrain).
  intros bps t w pid t' w' Hnr H. cbn [Tracer.sstep_drain] in H.
  bindN H q E1. destruct q as [[t1 w1] stop].
  destruct (IHsstep _ _ _ _ _ _ _ Hnr E1) as (G1 & Gd1).
  destruct stop.
  - destruct (IHdrain _ _ _ _ _ _ (good_nr _ _ _ _ _ G1 Hnr) H) as (G2 & Gd2).
    split; [eapply good_trans; eauto | congruence].
  - inv H. split; auto.
Qed.

Lemma loop_step : forall f, P_all f -> P_loop (S f).
Proof.
  intros f (IHans & IHgsi & IHround & IHwhile & IHsstep & IHloop & IHdrain).
  intros bps t w pid pc0 t' w' r H. cbn [Tracer.sstep_loop] in H.
  destruct (tget (t_threads t) pid); [|discriminate].
  bindN H q Ew. destruct q as [status w1].
  destruct (wait_law _ _ _ _ Ew) as (M1 & N1 & T1 & X1). specialize (T1 pid eq_refl).
  assert (Gw : good t w t w1) by (eapply good_wait; eauto).
  assert (Np : ~ running w1 pid) by (rewrite <- T1; exact N1).
  (* one more PTRACE_SINGLESTEP, then the loop again *)
  assert (AGAIN : forall t2 w2 d ok w3 t9 w9 r9, good t w t2 w2 -> t_guard t2 = t_guard t ->
            w_req w2 (PStep pid d) = (ok, w3) -> sstep_loop f bps t2 w3 pid pc0 = Ok (t9, w9, r9) ->
            good t w t9 w9 /\ ~ running w9 pid /\ t_guard t9 = t_guard t).
  { intros t2 w2 d ok w3 t9 w9 r9 G2 Gd2 Er Hl.
    destruct (IHloop _ _ _ _ _ _ _ _ Hl) as (G & N & Gd).
    split; [|split; [exact N | congruence]].
    eapply good_trans; [exact G2|]. eapply step_then; [|exact G|exact N].
    eapply req_starts; [exact Er | reflexivity]. }
  (* the fall-through to apply_new_status *)
  assert (FT : forall t9 w9 r9,
    (r <- ans f bps t w1 status ;;
     let '(t2, w2, stop) := r in
     match stop with
     | None => sstep_loop f bps t2 w2 pid pc0
     | Some (SRBreakpoint _ _) | Some (SRWatchpoint _ _) => Panic 3
     | Some (SRExit _) => Err 3
     | Some SRStart => Panic 4
     | Some (SRSignal _ sg) =>
         if quiet sg then
           let t2 := if dq then with_queue t2 (remove_last_pair (t_queue t2) (pid, sg)) else t2 in
           match tget (t_threads t2) pid with None => Panic 1 | Some _ =>
           let '(ok, w3) := w_req w2 (PStep pid sg) in
           if negb ok then Err 2 else sstep_loop f bps t2 w3 pid pc0 end
         else Ok (t2, w2, stop)
     | Some (SRNoSuchProcess _) => Ok (t2, w2, None)
     end) = Ok (t9, w9, r9) ->
    good t w t9 w9 /\ ~ running w9 pid /\ t_guard t9 = t_guard t).
  { intros t9 w9 r9 Hf. bindN Hf q Ea. destruct q as [[t2 w2] stop].
    destruct (IHans _ _ _ _ _ _ _ N1 X1 Ea) as (G2 & Gd2 & _).
    assert (G02 : good t w t2 w2) by (eapply good_trans; eauto).
    assert (N2 : ~ running w2 pid) by exact (good_nr _ _ _ _ _ G2 Np).
    destruct stop as [[c| |p a|p a|p sg|p]|]; try discriminate.
    - destruct (quiet sg).
      + cbv zeta in Hf.
        set (t2' := if dq then with_queue t2 (remove_last_pair (t_queue t2) (pid, sg)) else t2) in Hf.
        assert (G2' : good t w t2' w2 /\ t_guard t2' = t_guard t).
        { unfold t2'. destruct dq; [|auto]. split; [|exact Gd2].
          eapply good_trans; [exact G02|]. apply good_same; [reflexivity | exact (fun K => K)]. }
        destruct G2' as (G2' & Gd2').
        destruct (tget (t_threads t2') pid); [|discriminate].
        destruct (w_req w2 (PStep pid sg)) as [ok w3] eqn:Er.
        destruct (negb ok); [discriminate|]. eapply AGAIN; eauto.
      + inv Hf. auto.
    - inv Hf. auto.
    - destruct (IHloop _ _ _ _ _ _ _ _ Hf) as (G & N & Gd).
      split; [eapply good_trans; eauto|]. split; [exact N | congruence]. }
  destruct status as [p code | p e | p sg code pc | p sg | p]; try discriminate.
  - destruct e; try (exact (FT _ _ _ H)).
    destruct (p =? pid); [|exact (FT _ _ _ H)]. inv H. auto.
  - destruct ((sg =? SIGTRAP) && trap_like code).
    + destruct (pc =? pc0).
      * destruct (w_req w1 (PStep pid 0)) as [ok w2] eqn:Er.
        destruct (negb ok); [discriminate|]. eapply AGAIN; eauto.
      * destruct (find_bp bps pc) as [b|]; [destruct (bkind_eqb (b_kind b) BCompanion)|]; inv H; auto.
    + destruct ((sg =? SIGTRAP) && (code =? TRAP_UNK)%Z); [|exact (FT _ _ _ H)].
      destruct (w_req w1 (PSyscall pid)) as [ok w2] eqn:Er.
      destruct (negb ok); [discriminate|].
      bindN H q2 Ew2. destruct q2 as [st2 w3].
      destruct (wait_law _ _ _ _ Ew2) as (M3 & N3 & T3 & X3). specialize (T3 pid eq_refl).
      destruct st2 as [ | | p2 s2 c2 pc2 | | ]; try discriminate.
      destruct (s2 =? SIGTRAP); [|discriminate].
      destruct (w_req w3 (PStep pid 0)) as [ok4 w4] eqn:Er4.
      destruct (negb ok4); [discriminate|].
      destruct (IHloop _ _ _ _ _ _ _ _ H) as (G & N & Gd).
      split; [|split; [exact N | exact Gd]].
      eapply good_trans; [exact Gw|].
      eapply step_then; [eapply req_starts; [exact Er | reflexivity] | | exact N].
      eapply good_trans; [eapply good_wait; eauto|].
      eapply step_then; [eapply req_starts; [exact Er4 | reflexivity] | exact G | exact N].
Qed.

Theorem all_steps : forall f, P_all f.
Proof.
  induction f as [|f IH].
  - unfold P_all, P_ans, P_gsi, P_round, P_while, P_sstep, P_loop, P_drain.
    split; [|split; [|split; [|split; [|split; [|split]]]]]; intros; discriminate.
  - split; [apply ans_step; exact IH|]. split; [apply gsi_step; exact IH|].
    split; [apply round_step; exact IH|]. split; [apply while_step; exact IH|].
    split; [apply sstep_step; exact IH|]. split; [apply loop_step; exact IH|].
    apply drain_step; exact IH.
Qed.


(* ---- continuing the stopped threads keeps the coupling invariant ---------------------- *)
Lemma cont_list_inv : forall l w inj ex l' w', NoDup (map fst l) -> cont_list l w inj ex = (l', w') ->
  map fst l' = map fst l /\
  (forall x, tget l x = Some TRunning -> tget l' x = Some TRunning) /\
  (forall x, running w' x -> running w x \/ tget l' x = Some TRunning) /\
  (forall x, ~ In x (map fst l) -> running w' x -> running w x).
Proof.
  induction l as [|[x0 st] r IH]; intros w inj ex l' w' ND H; cbn [Tracer.cont_list] in H.
  - inv H. repeat split; auto.
  - cbn [map fst] in ND. inversion ND as [|? ? Hnin ND']; subst.
    assert (KEEP : forall r' w'', cont_list r w inj ex = (r', w'') -> l' = (x0, st) :: r' -> w' = w'' ->
       map fst l' = map fst ((x0, st) :: r) /\
       (forall x, tget ((x0, st) :: r) x = Some TRunning -> tget l' x = Some TRunning) /\
       (forall x, running w' x -> running w x \/ tget l' x = Some TRunning) /\
       (forall x, ~ In x (map fst ((x0, st) :: r)) -> running w' x -> running w x)).
    { intros r' w'' Hc -> ->. destruct (IH _ _ _ _ _ ND' Hc) as (K1 & K2 & K3 & K4).
      split; [cbn [map fst]; congruence|]. split; [|split].
      - intros x Hx. cbn [tget alist_get] in *. destruct (x =? x0); auto.
      - intros x Hr. destruct (K3 x Hr) as [|Ht]; auto. right. cbn [tget alist_get].
        destruct (x =? x0) eqn:E; [|exact Ht]. apply N.eqb_eq in E; subst x.
        exfalso. apply Hnin. rewrite <- K1. eapply tget_in; eauto.
      - intros x Hn Hr. apply K4; auto. intros Hin. apply Hn. right. exact Hin. }
    destruct (mem x0 ex).
    + destruct (cont_list r w inj ex) as [r' w''] eqn:Hc. inv H. eapply KEEP; eauto.
    + destruct st as [sty|].
      * set (data := match inj with Some (p, s) => if p =? x0 then s else 0 | None => 0 end) in H.
        destruct (w_req w (PCont x0 data)) as [ok w1] eqn:Er.
        destruct (cont_list r w1 inj ex) as [r' w''] eqn:Hc. inv H.
        destruct (IH _ _ _ _ _ ND' Hc) as (K1 & K2 & K3 & K4).
        assert (RS : forall x, running w1 x -> running w x \/ (ok = true /\ x = x0)).
        { intros x Hr. destruct (req_law _ _ _ _ Er x Hr) as [|[Hok [E _]]]; auto. cbn in E. inv E. auto. }
        split; [cbn [map fst]; congruence|]. split; [|split].
        -- intros x Hx. cbn [tget alist_get] in *. destruct (x =? x0); [discriminate|]. apply K2, Hx.
        -- intros x Hr. destruct (K3 x Hr) as [Hr1|Ht].
           ++ destruct (RS x Hr1) as [|[-> ->]]; auto. right. cbn [tget alist_get]. rewrite N.eqb_refl. reflexivity.
           ++ right. cbn [tget alist_get]. destruct (x =? x0) eqn:E; [|exact Ht].
              apply N.eqb_eq in E; subst x. exfalso. apply Hnin. rewrite <- K1. eapply tget_in; eauto.
        -- intros x Hn Hr. cbn [map fst In] in Hn.
           assert (Hr1 : running w1 x) by (apply K4; auto).
           destruct (RS x Hr1) as [|[_ ->]]; auto. exfalso. apply Hn. left. reflexivity.
      * destruct (cont_list r w inj ex) as [r' w''] eqn:Hc. inv H. eapply KEEP; eauto.
Qed.

Lemma cont_inv : forall t w inj ex t' w', Inv t w -> keys_ok t -> cont_stopped_ex t w inj ex = (t', w') ->
  Inv t' w' /\ keys_ok t' /\ t_guard t' = t_guard t /\ t_queue t' = t_queue t.
Proof.
  intros t w inj ex t' w' I K H. unfold Tracer.cont_stopped_ex in H.
  destruct (cont_list (t_threads t) w inj ex) as [l' w''] eqn:Hc. inv H.
  destruct (cont_list_inv _ _ _ _ _ _ K Hc) as (K1 & K2 & K3 & K4).
  split; [|split; [|split; reflexivity]].
  - intros x Hr. unfold st_of; cbn [t_threads with_threads]. destruct (K3 x Hr) as [Hr0|]; auto. apply K2, I, Hr0.
  - unfold keys_ok; cbn [t_threads with_threads]. rewrite K1. exact K.
Qed.

Definition tinv (t : tracer) (w : W) : Prop := Inv t w /\ keys_ok t /\ t_guard t = false.

Lemma ans_top : forall f bps t w s t' w' r, tinv t w ->
  ~ running w (ws_tid s) -> (forall p, s = WEvent p EvExit -> exitstop w p) ->
  ans f bps t w s = Ok (t', w', r) -> tinv t' w' /\ (real_stop r = true -> allstopped t').
Proof.
  intros f bps t w s t' w' r (I & K & G) Hn Hx H.
  destruct (all_steps f) as (Pa & _). destruct (Pa _ _ _ _ _ _ _ Hn Hx H) as (Gd & Gg & A).
  split; [split; [eapply good_inv; eauto | split; [apply (g_keys _ _ _ _ Gd K) | congruence]] | auto].
Qed.

Lemma gsi_top : forall f bps t w t' w', tinv t w -> gsi f bps t w None = Ok (t', w') -> tinv t' w' /\ allstopped t'.
Proof.
  intros f bps t w t' w' (I & K & G) H.
  destruct (all_steps f) as (_ & Pg & _). destruct (Pg _ _ _ _ _ _ H) as (Gd & Gg & A).
  split; [split; [eapply good_inv; eauto | split; [apply (g_keys _ _ _ _ Gd K) | congruence]]|].
  apply A; auto. intros x Hx; discriminate.
Qed.

(* C09, tracer against any lawful world: Tracer::resume keeps the coupling invariant, and when it
   reports a breakpoint, a watchpoint or a (non-quiet) signal, no thread is running *)
Theorem resume_all_stop : forall f bps t w t' w' sr, tinv t w ->
  resume f bps t w = Ok (t', w', sr) ->
  tinv t' w' /\ (real_stop (Some sr) = true -> allstopped t' /\ forall x, ~ running w' x).
Proof.
  induction f as [|f IH]; intros bps t w t' w' sr TI H; [discriminate|].
  cbn [Tracer.resume] in H.
  assert (FIN : forall t9 w9, tinv t9 w9 -> (real_stop (Some sr) = true -> allstopped t9) ->
            tinv t9 w9 /\ (real_stop (Some sr) = true -> allstopped t9 /\ forall x, ~ running w9 x)).
  { intros t9 w9 T9 A9. split; auto. intros Hs. split; auto. intros x Hr.
    destruct T9 as (I9 & _). apply (A9 Hs x). apply I9, Hr. }
  assert (WP : forall t1 w1, tinv t1 w1 ->
    match w_wait w1 None with
    | Err 10 => Ok (t1, w1, SRNoSuchProcess (t_proc t1))
    | Err e => Err e
    | Panic s => Panic s
    | OutOfFuel => OutOfFuel
    | Ok (status, w2) =>
        r <- ans f bps t1 w2 status ;;
        let '(t2, w3, stop) := r in
        match stop with
        | None => resume f bps t2 w3
        | Some (SRSignal p sg) => if quiet sg then resume f bps t2 w3 else Ok (t2, w3, SRSignal p sg)
        | Some sr => Ok (t2, w3, sr)
        end
    end = Ok (t', w', sr) ->
    tinv t' w' /\ (real_stop (Some sr) = true -> allstopped t' /\ forall x, ~ running w' x)).
  { intros t1 w1 T1 Hw. destruct (w_wait w1 None) as [[status w2]|e| |] eqn:Ew; try discriminate.
    - destruct (wait_law _ _ _ _ Ew) as (M1 & N1 & _ & X1).
      assert (T2 : tinv t1 w2).
      { destruct T1 as (I1 & K1 & G1). split; auto. intros x Hr. apply I1, M1, Hr. }
      bindN Hw q Ea. destruct q as [[t2 w3] stop].
      destruct (ans_top _ _ _ _ _ _ _ _ T2 N1 X1 Ea) as (T3 & A3).
      destruct stop as [[c| |p a|p a|p sg|p]|].
      + inv Hw. apply FIN; auto.
      + inv Hw. apply FIN; auto.
      + inv Hw. apply FIN; auto.
      + inv Hw. apply FIN; auto.
      + destruct (quiet sg) eqn:Eq.
        * eapply IH; eauto.
        * inv Hw. apply FIN; auto.
      + inv Hw. apply FIN; auto.
      + eapply IH; eauto.
    - destruct e as [|e]; [discriminate|].
      repeat (destruct e as [e|e|]; try discriminate).
      inv Hw. apply FIN; auto. intros Hs; discriminate. }
  destruct TI as (I & K & G).
  destruct (t_queue t) as [|[x sg] rest] eqn:Eq.
  - destruct (cont_stopped_ex t w None []) as [t1 w1] eqn:Ec.
    destruct (cont_inv _ _ _ _ _ _ I K Ec) as (I1 & K1 & G1 & _).
    apply (WP t1 w1); [split; [auto | split; [auto | congruence]] | exact H].
  - destruct (cont_stopped_ex (with_queue t rest) w (Some (x, sg)) (map fst rest)) as [t1 w1] eqn:Ec.
    destruct (cont_inv _ _ _ _ _ _ (I : Inv (with_queue t rest) w) (K : keys_ok (with_queue t rest)) Ec) as (I1 & K1 & G1 & _).
    assert (T1 : tinv t1 w1) by (split; [auto | split; [auto | cbn in G1; congruence]]).
    destruct rest as [|[y s2] rest'].
    + apply (WP t1 w1 T1 H).
    + bindN H q Eg. destruct q as [t2 w2]. inv H.
      destruct (gsi_top _ _ _ _ _ _ T1 Eg) as (T2 & A2). apply FIN; auto.
Qed.

(* Tracer::single_step of a thread the tracer holds stopped keeps the invariant and starts nobody *)
Theorem sstep_keeps : forall f bps t w pid t' w' r, tinv t w -> is_stopped (st_of t pid) = true ->
  sstep f bps t w pid = Ok (t', w', r) ->
  tinv t' w' /\ (allstopped t -> allstopped t' /\ forall x, ~ running w' x).
Proof.
  intros f bps t w pid t' w' r (I & K & G) Hs H.
  assert (Hn : ~ running w pid).
  { intros Hr. rewrite (I pid Hr) in Hs. discriminate. }
  destruct (all_steps f) as (_ & _ & _ & _ & Ps & _). destruct (Ps _ _ _ _ _ _ _ Hn H) as (Gd & Gg).
  assert (I' : Inv t' w') by (eapply good_inv; eauto).
  split; [split; [auto | split; [apply (g_keys _ _ _ _ Gd K) | congruence]]|].
  intros A. assert (A' : allstopped t') by (eapply good_allstopped; eauto).
  split; auto. intros x Hr. apply (A' x), I', Hr.
Qed.
End LAWS.

(* ===================================================================================== *)
(* C. Witnesses on the kernel model (closed by computation)                                *)
(* ===================================================================================== *)
Definition run_summary (r : res (dbg * kworld * list (option stop_reason))) :=
  match r with
  | Ok (d, (k, _), srs) => Some (srs, k_sent k, k_deliv k, t_queue (d_tr d), k_exec k)
  | _ => None end.

(* --- C10, code BEFORE the repair (dequeue = false): a quiet signal that arrives inside
   single_step is delivered twice ------------------------------------------------------- *)
(* one thread (tid 1, pc 100) stopped; SIGALRM is sent; `stepi`; `continue` (runs to exit) *)
Definition w_quiet_in_step_old :=
  k_api_run_gen false 50 [] (mkD (tinit [(1, 100)]) 1 100) (kinit [(1, 100)] [] [], [CSend 1 SIGALRM]) [OStepi; OCont].

Theorem C10_quiet_in_step_refuted_old :
  exists sch ops d k srs,
    k_api_run_gen false 50 [] (mkD (tinit [(1, 100)]) 1 100) (kinit [(1, 100)] [] [], sch) ops = Ok (d, (k, []), srs)
    /\ k_sent k = [(1, SIGALRM)] /\ k_deliv k = [(1, SIGALRM); (1, SIGALRM)]
    /\ k_threads k = [] /\ spec_delivery (k_sent k) (k_deliv k) = false.
Proof.
  exists [CSend 1 SIGALRM], [OStepi; OCont].
  destruct w_quiet_in_step_old as [[[d [k sch]] srs]| | |] eqn:E; try (vm_compute in E; discriminate).
  exists d, k, srs. vm_compute in E. inv E. vm_compute. repeat split; reflexivity.
Qed.

(* two SIGALRMs inside two steps, then continue: 3 deliveries for 2 signals (one queue entry is
   dropped because its thread is also in the exclude set, tracee.rs:242) and a spurious stop
   SignalStop(1, SIGALRM) reported for a quiet signal *)
Theorem C10_quiet_burst_refuted_old :
  run_summary (k_api_run_gen false 50 [] (mkD (tinit [(1, 100)]) 1 100)
     (kinit [(1, 100)] [] [], [CSend 1 SIGALRM; CRun 1; CSend 1 SIGALRM]) [OStepi; OStepi; OCont; OCont])
  = Some ([None; None; Some (SRSignal 1 SIGALRM); Some (SRExit 0)],
          [(1, SIGALRM); (1, SIGALRM)], [(1, SIGALRM); (1, SIGALRM); (1, SIGALRM)], [], [(1, 100); (1, 101)]).
Proof. vm_compute. reflexivity. Qed.

(* --- C10, CURRENT code (Gen.Tracer.STEP_QUIET_DEQUEUES): the same scenarios are exact ---- *)
Theorem C10_quiet_in_step_now :
  exists d k srs,
    k_api_run 50 [] (mkD (tinit [(1, 100)]) 1 100) (kinit [(1, 100)] [] [], [CSend 1 SIGALRM]) [OStepi; OCont]
      = Ok (d, (k, []), srs)
    /\ srs = [None; Some (SRExit 0)] /\ sig_reports srs = []
    /\ k_sent k = [(1, SIGALRM)] /\ k_deliv k = [(1, SIGALRM)] /\ t_queue (d_tr d) = []
    /\ spec_delivery (k_sent k) (k_deliv k) = true /\ spec_reported (k_sent k) (sig_reports srs) = true.
Proof.
  destruct (k_api_run 50 [] (mkD (tinit [(1, 100)]) 1 100) (kinit [(1, 100)] [] [], [CSend 1 SIGALRM]) [OStepi; OCont])
    as [[[d [k sch]] srs]| | |] eqn:E; try (vm_compute in E; discriminate).
  exists d, k, srs. vm_compute in E. inv E. vm_compute. repeat split; reflexivity.
Qed.

Theorem C10_quiet_burst_now :
  run_summary (k_api_run 50 [] (mkD (tinit [(1, 100)]) 1 100)
     (kinit [(1, 100)] [] [], [CSend 1 SIGALRM; CRun 1; CSend 1 SIGALRM]) [OStepi; OStepi; OCont])
  = Some ([None; None; Some (SRExit 0)],
          [(1, SIGALRM); (1, SIGALRM)], [(1, SIGALRM); (1, SIGALRM)], [], [(1, 100); (1, 101)]).
Proof. vm_compute. reflexivity. Qed.

(* --- C10: a non-quiet signal reported by a step is held back by further steps ----------- *)
(* SIGUSR1 sent; stepi reports SignalStop(1, SIGUSR1); the next stepi resumes with data 0: the
   thread executes an instruction, the handler has not run, nothing is pending in the kernel any
   more, the only trace of the signal is the tracer's queue.  It is injected by the next
   `continue` only. *)
Theorem C10_step_suppresses_refuted :
  run_summary (k_api_run 50 [] (mkD (tinit [(1, 100)]) 1 100)
     (kinit [(1, 100)] [] [], [CSend 1 SIGUSR1]) [OStepi; OStepi])
  = Some ([Some (SRSignal 1 SIGUSR1); None], [(1, SIGUSR1)], [], [(1, SIGUSR1)], [(1, 100)]).
Proof. vm_compute. reflexivity. Qed.

Theorem C10_step_defers_to_continue :
  run_summary (k_api_run 50 [] (mkD (tinit [(1, 100)]) 1 100)
     (kinit [(1, 100)] [] [], [CSend 1 SIGUSR1]) [OStepi; OStepi; OCont])
  = Some ([Some (SRSignal 1 SIGUSR1); None; Some (SRExit 0)], [(1, SIGUSR1)], [(1, SIGUSR1)], [], [(1, 100)]).
Proof. vm_compute. reflexivity. Qed.

(* --- C10: a signal absorbed during a group stop can be lost (Continue only) ------------- *)
(* threads 1 (pc 100) and 2 (standing on the user breakpoint at 200).  SIGUSR1 -> 1, SIGUSR2 -> 2.
   continue: 1's signal is reported, 2 is interrupted while already in its signal stop (absorbed,
   interrupt still pending).  continue: SIGUSR1 injected, SignalStop(2, SIGUSR2) reported, focus
   on 2.  continue: step_over_breakpoint single-steps 2 with data 0 (signal suppressed), the
   pending interrupt ends the step in PTRACE_EVENT_STOP, then PTRACE_CONT(2, SIGUSR2) from an
   event stop injects nothing. *)
Theorem C10_signal_lost_refuted :
  run_summary (k_api_run 80 [mk_bp 200 BUser 1 true] (mkD (tinit [(1, 100); (2, 200)]) 1 100)
     (kinit [(1, 100); (2, 200)] [200] [], [CSend 1 SIGUSR1; CSend 2 SIGUSR2; CSig 1; CSig 2])
     [OCont; OCont; OCont])
  = Some ([Some (SRSignal 1 SIGUSR1); Some (SRSignal 2 SIGUSR2); Some (SRExit 0)],
          [(1, SIGUSR1); (2, SIGUSR2)], [(1, SIGUSR1)], [], []).
Proof. vm_compute. reflexivity. Qed.

(* --- C09: an arrival at a user breakpoint is swallowed while a temporary breakpoint exists *)
(* thread 1 (focus) runs towards its temporary breakpoint at 15 (step over / step out),
   thread 2 reaches the user breakpoint at 22: tracer.rs:436-449 steps it over silently *)
Definition w_swallow :=
  k_api_run 80 [mk_bp 22 BUser 1 true; mk_bp 15 BTemp 1 true] (mkD (tinit [(1, 10); (2, 20)]) 1 10)
    (kinit [(1, 10); (2, 20)] [22; 15] [],
     [CRun 2; CRun 2; CRun 2; CRun 2; CRun 1; CRun 1; CRun 1; CRun 1; CRun 1; CRun 1]) [OCont].

Theorem C09_arrival_swallowed_refuted :
  exists d k sch srs, w_swallow = Ok (d, (k, sch), srs)
    /\ srs = [Some (SRBreakpoint 1 15)]
    /\ In (2, 22) (k_arrivals k) /\ In (2, 22) (k_exec k)
    /\ spec_exactly_once [22] srs k = false.
Proof.
  destruct w_swallow as [[[d [k sch]] srs]| | |] eqn:E; try (vm_compute in E; discriminate).
  exists d, k, sch, srs. vm_compute in E. inv E. vm_compute. repeat split; auto.
Qed.

(* --- C09: a hit absorbed during another thread's group stop is rewound and re-trapped --- *)
Example C09_absorbed_hit_reported_later :
  let r := k_api_run 80 [mk_bp 22 BUser 1 true] (mkD (tinit [(1, 20); (2, 20)]) 1 20)
    (kinit [(1, 20); (2, 20)] [22] [], [CRun 2; CRun 2; CRun 1; CRun 1; CRun 2; CRun 1; CRun 2; CIntr 1; CRun 1]) [OCont; OCont] in
  match r with
  | Ok (d, (k, _), srs) =>
      srs = [Some (SRBreakpoint 2 22); Some (SRBreakpoint 1 22)]
      /\ k_arrivals k = [(2, 22); (1, 22); (1, 22)]
      /\ spec_exactly_once [22] srs k = true /\ spec_no_skip k = true /\ spec_all_stop (d_tr d) k = true
  | _ => False end.
Proof. vm_compute. repeat split; reflexivity. Qed.

(* ===================================================================================== *)
(* D. The kernel model obeys the laws: all-stop for every schedule                         *)
(* ===================================================================================== *)
Lemma kget_kset : forall k x v y,
  kget (kset k x v) y = if x =? y then match kget k x with Some _ => Some v | None => None end else kget k y.
Proof.
  intros k x v y. unfold kget, kset, kwith; cbn [k_threads].
  induction (k_threads k) as [|[z s] l IH]; cbn [kset_l alist_get].
  - destruct (x =? y); reflexivity.
  - destruct (x =? z) eqn:Exz; cbn [alist_get].
    + apply N.eqb_eq in Exz; subst z. rewrite (N.eqb_sym y x). destruct (x =? y); reflexivity.
    + rewrite IH. destruct (x =? y) eqn:Exy.
      * apply N.eqb_eq in Exy; subst y. rewrite Exz. reflexivity.
      * reflexivity.
Qed.

Lemma kget_filter : forall l x y,
  alist_get N.eqb (filter (fun p : N * kthread => negb (fst p =? x)) l) y = if x =? y then None else alist_get N.eqb l y.
Proof.
  induction l as [|[z s] l IH]; intros x y; cbn [filter alist_get fst].
  - destruct (x =? y); reflexivity.
  - destruct (z =? x) eqn:Ezx; cbn [negb alist_get].
    + apply N.eqb_eq in Ezx; subst z. rewrite IH. rewrite (N.eqb_sym y x). destruct (x =? y); reflexivity.
    + rewrite IH. destruct (y =? z) eqn:Eyz; [|reflexivity].
      apply N.eqb_eq in Eyz; subst z. rewrite (N.eqb_sym x y), Ezx. reflexivity.
Qed.

Lemma kget_snoc : forall (l : list (N * kthread)) x v y, alist_get N.eqb l x = None ->
  alist_get N.eqb (l ++ [(x, v)]) y = if x =? y then Some v else alist_get N.eqb l y.
Proof.
  induction l as [|[z s] l IH]; intros x v y H; cbn [app alist_get] in *.
  - rewrite (N.eqb_sym y x). destruct (x =? y); reflexivity.
  - destruct (x =? z) eqn:Exz; [discriminate|]. rewrite IH by exact H.
    destruct (y =? z) eqn:Eyz; [|reflexivity].
    apply N.eqb_eq in Eyz; subst z. rewrite Exz. reflexivity.
Qed.

(* running after an update of one thread *)
Lemma krunning_kset : forall k x v y, krunning (kset k x v) y = true ->
  (x = y /\ kst_running (k_st v) = true /\ kget k x <> None) \/ (x <> y /\ krunning k y = true).
Proof.
  intros k x v y H. unfold krunning in H. rewrite kget_kset in H.
  destruct (x =? y) eqn:E.
  - apply N.eqb_eq in E. left. destruct (kget k x); [|discriminate]. repeat split; auto. discriminate.
  - apply N.eqb_neq in E. right. auto.
Qed.

Lemma krunning_logs : forall l a b c d e f y,
  krunning (mkKer l a b c d e f) y = match alist_get N.eqb l y with Some th => kst_running (k_st th) | None => false end.
Proof. reflexivity. Qed.

Lemma krunning_def : forall k y,
  krunning k y = match kget k y with Some th => kst_running (k_st th) | None => false end.
Proof. reflexivity. Qed.

Ltac kset_case H :=
  apply krunning_kset in H; cbn [k_st kst_running stop_th] in H;
  destruct H as [(-> & H & _)|(_ & H)]; try discriminate H; auto.

Lemma kenv_mono : forall k c x, krunning (kenv k c) x = true -> krunning k x = true.
Proof.
  intros k c x H. destruct c as [y s|y|y|y|y c|y|y]; cbn [kenv] in H; auto.
  - destruct (kget k y) as [th|] eqn:E; auto. destruct (k_st th) eqn:Es; auto;
    change (krunning (kset k y (mkK (k_st th) (k_rep th) (k_intr th) (k_pend th ++ [s]) (k_pc th) (k_tf th))) x = true) in H
    || idtac; try (rewrite Es in H);
    (apply krunning_kset in H; cbn [k_st] in H; destruct H as [(-> & H & _)|(_ & H)]; auto;
     rewrite krunning_def, E, Es; exact H).
  - destruct (kget k y) as [th|] eqn:E; auto. destruct (k_st th) eqn:Es; auto.
    destruct (k_pend th); auto. kset_case H.
  - destruct (kget k y) as [th|] eqn:E; auto. destruct (k_st th) eqn:Es; auto.
    destruct (k_intr th); auto. kset_case H.
  - destruct (kget k y) as [th|] eqn:E; auto. destruct (k_st th) eqn:Es; auto.
    destruct (mem (k_pc th) (k_int3 k)).
    + change (krunning (kset k y (mkK (KTrap TRAP_BRKPT) false (k_intr th) (k_pend th) (k_pc th + 1) false)) x = true) in H.
      kset_case H.
    + match type of H with krunning (mkKer (k_threads (kset k y ?v)) _ _ _ _ _ _) x = true =>
        change (krunning (kset k y v) x = true) in H end.
      apply krunning_kset in H. destruct H as [(-> & H & _)|(_ & H)]; auto.
      rewrite krunning_def, E, Es. reflexivity.
  - destruct (kget k y) as [th|] eqn:E; auto. destruct (kget k c) eqn:Ec; auto.
    destruct (k_st th) eqn:Es; auto.
    unfold krunning, kget, kwith in H; cbn [k_threads] in H.
    rewrite kget_snoc in H.
    + destruct (c =? x); [discriminate|].
      change (krunning (kset k y (stop_th th (KEv (EvClone c)))) x = true) in H. kset_case H.
    + change (kget (kset k y (stop_th th (KEv (EvClone c)))) c = None).
      rewrite kget_kset. destruct (y =? c) eqn:Eyc; auto. apply N.eqb_eq in Eyc; subst c. congruence.
  - destruct (kget k y) as [th|] eqn:E; auto. destruct (k_st th) eqn:Es; auto. kset_case H.
Qed.

Definition krun (w : kworld) (x : N) : Prop := krunning (fst w) x = true.
Definition kexit (w : kworld) (p : N) : Prop := exists th, kget (fst w) p = Some th /\ k_st th = KEv EvExit.

Lemma first_reportable_spec : forall k keys tg x s, first_reportable k keys tg = Some (x, s) ->
  exists th, kget k x = Some th /\ kstatus x th = Some s /\ (forall y, tg = Some y -> x = y).
Proof.
  induction keys as [|z r IH]; intros tg x s H; cbn [first_reportable] in H; [discriminate|].
  destruct (match tg with Some y => z =? y | None => true end) eqn:Em; [|eauto].
  destruct (kget k z) as [th|] eqn:Ez; [|eauto].
  destruct (kstatus z th) as [s'|] eqn:Es; [|eauto].
  inv H. exists th. repeat split; auto. intros y ->. apply N.eqb_eq in Em. exact Em.
Qed.

Lemma kstatus_spec : forall x th s, kstatus x th = Some s ->
  ws_tid s = x /\ kst_running (k_st th) = false /\ (forall p, s = WEvent p EvExit -> k_st th = KEv EvExit).
Proof.
  intros x th s H. unfold kstatus in H. destruct (k_rep th); [discriminate|].
  destruct (k_st th) eqn:E; inv H; cbn [ws_tid kst_running]; repeat split; auto; intros p Hp; inv Hp; reflexivity.
Qed.

Lemma kconsume_spec : forall k x th s, kget k x = Some th -> kstatus x th = Some s ->
  (forall y, krunning (kconsume k x) y = true -> krunning k y = true) /\ krunning (kconsume k x) x = false
  /\ (forall p, s = WEvent p EvExit -> exists th', kget (kconsume k x) x = Some th' /\ k_st th' = KEv EvExit).
Proof.
  intros k x th s Hg Hs. destruct (kstatus_spec _ _ _ Hs) as (T & R & X).
  unfold kconsume. rewrite Hg.
  assert (CASE2 : forall v, k_st v = k_st th ->
     (forall y, krunning (kset k x v) y = true -> krunning k y = true) /\ krunning (kset k x v) x = false
     /\ (forall p, s = WEvent p EvExit -> exists th', kget (kset k x v) x = Some th' /\ k_st th' = KEv EvExit)).
  { intros v Hv. split; [|split].
    - intros y H. apply krunning_kset in H. destruct H as [(-> & H & _)|(_ & H)]; auto.
      rewrite Hv, R in H. discriminate.
    - rewrite krunning_def, kget_kset, N.eqb_refl, Hg, Hv. exact R.
    - intros p Hp. exists v. rewrite kget_kset, N.eqb_refl, Hg. split; auto. rewrite Hv. eauto. }
  destruct (k_st th) eqn:Es; try (apply CASE2; cbn [k_st]; auto).
  split; [|split].
  - intros y H. unfold krunning, kget, kwith in *; cbn [k_threads] in *. rewrite kget_filter in H.
    destruct (x =? y); [discriminate | exact H].
  - unfold krunning, kget, kwith; cbn [k_threads]. rewrite kget_filter, N.eqb_refl. reflexivity.
  - intros p Hp. specialize (X p Hp). discriminate.
Qed.

Lemma kwait_law : forall fuel k sch tg s k' sch', kwait fuel k sch tg = Ok (s, (k', sch')) ->
  (forall x, krunning k' x = true -> krunning k x = true) /\ krunning k' (ws_tid s) = false
  /\ (forall y, tg = Some y -> ws_tid s = y)
  /\ (forall p, s = WEvent p EvExit -> exists th, kget k' p = Some th /\ k_st th = KEv EvExit).
Proof.
  induction fuel as [|fuel IH]; intros k sch tg s k' sch' H; [discriminate|].
  cbn [kwait] in H.
  match type of H with (if negb ?c then _ else _) = _ => destruct c; cbn [negb] in H; [|discriminate] end.
  assert (REP : forall x0 s0 tg0, first_reportable k (map fst (k_threads k)) tg0 = Some (x0, s0) ->
     (tg0 = tg \/ (tg = None)) -> s = s0 -> k' = kconsume k x0 ->
     (forall x, krunning k' x = true -> krunning k x = true) /\ krunning k' (ws_tid s) = false
     /\ (forall y, tg = Some y -> ws_tid s = y)
     /\ (forall p, s = WEvent p EvExit -> exists th, kget k' p = Some th /\ k_st th = KEv EvExit)).
  { intros x0 s0 tg0 Hf Htg -> ->. destruct (first_reportable_spec _ _ _ _ _ Hf) as (th & Hg & Hs & Ht).
    destruct (kconsume_spec _ _ _ _ Hg Hs) as (C1 & C2 & C3).
    destruct (kstatus_spec _ _ _ Hs) as (T & _ & _).
    split; [exact C1|]. split; [rewrite T; exact C2|]. split.
    - intros y Hy. rewrite T. destruct Htg as [Htg|Htg]; subst; [apply Ht; reflexivity | discriminate].
    - intros p Hp. assert (p = x0) by (subst s0; cbn [ws_tid] in T; exact T). subst p. eapply C3; eauto. }
  assert (STEP : forall c sch1, kwait fuel (kenv k c) sch1 tg = Ok (s, (k', sch')) ->
     (forall x, krunning k' x = true -> krunning k x = true) /\ krunning k' (ws_tid s) = false
     /\ (forall y, tg = Some y -> ws_tid s = y)
     /\ (forall p, s = WEvent p EvExit -> exists th, kget k' p = Some th /\ k_st th = KEv EvExit)).
  { intros c sch1 Hk. destruct (IH _ _ _ _ _ _ Hk) as (A & B & C & D).
    split; [|auto]. intros x Hx. eapply kenv_mono. apply A. exact Hx. }
  assert (NORMAL : forall sch0,
     match first_reportable k (map fst (k_threads k)) tg with
     | Some (x, s) => Ok (s, (kconsume k x, sch0))
     | None =>
         match sch0 with
         | c :: sch1 => kwait fuel (kenv k c) sch1 tg
         | [] => match kdefault k with Some c => kwait fuel (kenv k c) [] tg | None => OutOfFuel end
         end
     end = Ok (s, (k', sch')) ->
     (forall x, krunning k' x = true -> krunning k x = true) /\ krunning k' (ws_tid s) = false
     /\ (forall y, tg = Some y -> ws_tid s = y)
     /\ (forall p, s = WEvent p EvExit -> exists th, kget k' p = Some th /\ k_st th = KEv EvExit)).
  { intros sch0 Hn. destruct (first_reportable k (map fst (k_threads k)) tg) as [[x0 s0]|] eqn:Hf.
    - inv Hn. eapply REP; eauto.
    - destruct sch0 as [|c sch1].
      + destruct (kdefault k) as [c|]; [|discriminate]. eapply STEP; eauto.
      + eapply STEP; eauto. }
  destruct sch as [|c sch1]; [apply (NORMAL [] H)|].
  destruct c as [a b|a|a|a|a b|a|t];
    [ exact (NORMAL (CSend a b :: sch1) H) | exact (NORMAL (CSig a :: sch1) H) | exact (NORMAL (CIntr a :: sch1) H)
    | exact (NORMAL (CRun a :: sch1) H) | exact (NORMAL (CClone a b :: sch1) H) | exact (NORMAL (CExit a :: sch1) H) | ].
  destruct tg as [y0|]; [exact (NORMAL (CPick t :: sch1) H)|].
  destruct (first_reportable k (map fst (k_threads k)) (Some t)) as [[x0 s0]|] eqn:Hf.
  - inv H. destruct (first_reportable_spec _ _ _ _ _ Hf) as (th & Hg & Hs & Ht).
    specialize (Ht t eq_refl). subst x0. eapply REP; eauto.
  - destruct (IH _ _ _ _ _ _ H) as (A & B & C & D). auto.
Qed.

Lemma kwait_law_w : forall fuel (w : kworld) tg s (w' : kworld), kwait fuel (fst w) (snd w) tg = Ok (s, w') ->
  (forall x, krun w' x -> krun w x) /\ ~ krun w' (ws_tid s)
  /\ (forall y, tg = Some y -> ws_tid s = y) /\ (forall p, s = WEvent p EvExit -> kexit w' p).
Proof.
  intros fuel [k sch] tg s [k' sch'] H. cbn [fst snd] in H.
  destruct (kwait_law _ _ _ _ _ _ _ H) as (A & B & C & D).
  unfold krun, kexit; cbn [fst]. split; [exact A|]. split; [congruence|]. split; auto.
Qed.

(* conversion must unfold kw_wait, never run kwait on its 2000 units of fuel *)
Strategy 100 [kwait].

Lemma kw_wait_law : forall w tg s w', kw_wait w tg = Ok (s, w') ->
  (forall x, krun w' x -> krun w x) /\ ~ krun w' (ws_tid s)
  /\ (forall y, tg = Some y -> ws_tid s = y) /\ (forall p, s = WEvent p EvExit -> kexit w' p).
Proof. intros w tg s w' H. unfold kw_wait in H. exact (kwait_law_w _ _ _ _ _ H). Qed.

Lemma kresume_law : forall k x0 d tf ok k', kresume k x0 d tf = (ok, k') ->
  forall x, krunning k' x = true -> krunning k x = true \/ (ok = true /\ x0 = x /\ ~ kexit (k, @nil choice) x).
Proof.
  intros k x0 d tf ok k' H x Hr. unfold kresume in H.
  destruct (kget k x0) as [th|] eqn:E; [|inv H; auto].
  destruct (kst_stopped_reported th); [|inv H; auto].
  inv H.
  match type of Hr with context [kset_l (k_threads k) x0 ?v] =>
    assert (Hr' : krunning (kset k x0 v) x = true) by exact Hr; clear Hr; rename Hr' into Hr end.
  apply krunning_kset in Hr. cbn [k_st] in Hr. destruct Hr as [(-> & Hr & _)|(_ & Hr)]; auto.
  right. repeat split; auto. intros (th' & Hg & Hs). cbn [fst] in Hg. rewrite E in Hg. inv Hg.
  rewrite Hs in Hr. discriminate.
Qed.

Lemma kw_req_law : forall w r ok w', kw_req w r = (ok, w') ->
  forall x, krun w' x -> krun w x \/ (ok = true /\ resumes r = Some x /\ ~ kexit w x).
Proof.
  intros [k sch] r ok [k' sch'] H x Hr. unfold kw_req in H; cbn [fst snd] in H.
  destruct (kreq k r) as [ok0 k0] eqn:Er. inv H. unfold krun in *; cbn [fst] in *.
  assert (EX : forall y, kexit (k, @nil choice) y <-> kexit (k, sch') y) by (intros y; reflexivity).
  destruct r as [y d|y d|y|y|y pc|a|a]; cbn [kreq resumes] in *.
  - destruct (kresume_law _ _ _ _ _ _ Er x Hr) as [|(A & B & C)]; subst; auto.
  - destruct (kresume_law _ _ _ _ _ _ Er x Hr) as [|(A & B & C)]; subst; auto.
  - destruct (kresume_law _ _ _ _ _ _ Er x Hr) as [|(A & B & C)]; subst; auto.
  - left. destruct (kget k y) as [th|] eqn:E; [|inv Er; auto].
    destruct (k_st th) eqn:Es; inv Er; auto;
    (apply krunning_kset in Hr; cbn [k_st] in Hr; destruct Hr as [(-> & Hr & _)|(_ & Hr)]; auto;
     rewrite krunning_def, E, Es; exact Hr).
  - left. destruct (kget k y) as [th|] eqn:E; [|inv Er; auto].
    destruct (kst_stopped_reported th); inv Er; auto.
    apply krunning_kset in Hr; cbn [k_st] in Hr; destruct Hr as [(-> & Hr & _)|(_ & Hr)]; auto.
    rewrite krunning_def, E; exact Hr.
  - left. inv Er. exact Hr.
  - left. inv Er. exact Hr.
Qed.

Lemma kw_intr_law : forall w x w', kw_req w (PInterrupt x) = (false, w') -> ~ krun w' x.
Proof.
  intros [k sch] x [k' sch'] H. unfold kw_req in H; cbn [fst snd kreq] in H. unfold krun; cbn [fst].
  destruct (kget k x) as [th|] eqn:E.
  - destruct (k_st th) eqn:Es; inv H. rewrite krunning_def, E, Es. discriminate.
  - inv H. rewrite krunning_def, E. discriminate.
Qed.

Definition ktinv (t : tracer) (w : kworld) : Prop := tinv kworld krun t w.

(* C09 all-stop, for every schedule of the kernel model, any number of threads, any breakpoint
   table: Tracer::resume keeps the invariant and, when it reports a stop to the user, no thread
   of the debuggee is running; a stopped thread cannot start by itself (kenv_mono). *)
Theorem all_stop_resume : forall f bps t w t' w' sr, ktinv t w ->
  k_resume f bps t w = Ok (t', w', sr) ->
  ktinv t' w' /\ (real_stop (Some sr) = true -> allstopped t' /\ all_stopped_k (fst w')).
Proof.
  intros f bps t w t' w' sr TI H.
  destruct (resume_all_stop STEP_QUIET_DEQUEUES kworld kw_wait kw_req kw_pc krun kexit kw_wait_law kw_req_law kw_intr_law
              _ _ _ _ _ _ _ TI H) as (T' & A).
  split; [exact T'|]. intros Hs. destruct (A Hs) as (A1 & A2). split; [exact A1|].
  intros x. specialize (A2 x). unfold krun in A2. destruct (krunning (fst w') x); [exfalso; auto | reflexivity].
Qed.

Theorem all_stop_single_step : forall f bps t w pid t' w' r, ktinv t w -> is_stopped (st_of t pid) = true ->
  k_sstep f bps t w pid = Ok (t', w', r) ->
  ktinv t' w' /\ (allstopped t -> allstopped t' /\ all_stopped_k (fst w')).
Proof.
  intros f bps t w pid t' w' r TI Hs H.
  destruct (sstep_keeps STEP_QUIET_DEQUEUES kworld kw_wait kw_req kw_pc krun kexit kw_wait_law kw_req_law kw_intr_law
              _ _ _ _ _ _ _ _ TI Hs H) as (T' & A).
  split; [exact T'|]. intros Ha. destruct (A Ha) as (A1 & A2). split; [exact A1|].
  intros x. specialize (A2 x). unfold krun in A2. destruct (krunning (fst w') x); [exfalso; auto | reflexivity].
Qed.

(* the initial state (every thread stopped, as after the entry breakpoint) satisfies the invariant *)
Lemma ktinv_init : forall threads sch, NoDup (map fst threads) -> ktinv (tinit threads) (kinit threads [] [], sch).
Proof.
  intros threads sch ND. split; [|split; [|reflexivity]].
  - intros x Hr. exfalso. unfold krun, krunning, kget, kinit in Hr; cbn [fst k_threads] in Hr.
    induction threads as [|[y pc] l IH]; cbn [map alist_get fst snd] in Hr; [discriminate|].
    destruct (x =? y); [discriminate|]. apply IH; auto. cbn [map fst] in ND. inv ND. auto.
  - unfold keys_ok, tinit; cbn [t_threads]. rewrite map_map. cbn [fst]. exact ND.
Qed.

(* any sequence of resume calls, by induction *)
Theorem C09_all_stop_runs : forall n f bps t w t' w' srs, ktinv t w ->
  k_resume_run f bps t w n = Ok (t', w', srs) ->
  ktinv t' w' /\ (forall sr, last srs SRStart = sr -> real_stop (Some sr) = true -> all_stopped_k (fst w')).
Proof.
  unfold k_resume_run.
  induction n as [|n IH]; intros f bps t w t' w' srs TI H; cbn [resume_run] in H.
  - inv H. split; auto. intros sr <- Hs. discriminate.
  - destruct (resume STEP_QUIET_DEQUEUES kworld kw_wait kw_req kw_pc f bps t w) as [[[t1 w1] sr1]| | |] eqn:E1; cbn [bind] in H; try discriminate.
    destruct (all_stop_resume _ _ _ _ _ _ _ TI E1) as (T1 & A1).
    destruct (resume_run STEP_QUIET_DEQUEUES kworld kw_wait kw_req kw_pc f bps t1 w1 n) as [[[t2 w2] srs2]| | |] eqn:E2; cbn [bind] in H; try discriminate.
    inv H. destruct (IH _ _ _ _ _ _ _ T1 E2) as (T2 & A2). split; [exact T2|].
    intros sr Hl Hs. destruct srs2 as [|s2 rest2].
    + cbn [last] in Hl. subst sr. destruct n as [|n'].
      * cbn [resume_run] in E2. inv E2. apply A1; auto.
      * cbn [resume_run] in E2.
        destruct (resume STEP_QUIET_DEQUEUES kworld kw_wait kw_req kw_pc f bps t1 w1) as [[[? ?] ?]| | |]; cbn [bind] in E2; try discriminate.
        destruct (resume_run STEP_QUIET_DEQUEUES kworld kw_wait kw_req kw_pc f bps t0 k n') as [[[? ?] ?]| | |]; cbn [bind] in E2; discriminate.
    + apply (A2 sr); auto.
Qed.

(* ===================================================================================== *)
(* E. C10: what the continue phase of Tracer::resume hands to the debuggee                 *)
(* ===================================================================================== *)
(* thread x stands in a reported signal-delivery-stop (signal stop or SIGTRAP trap stop) *)
Definition sigstop_ready (k : kernel) (x : N) : bool :=
  match kget k x with
  | Some th => kst_stopped_reported th && match k_st th with KSig _ | KTrap _ => true | _ => false end
  | None => false end.

Lemma tget_notin : forall l x, ~ In x (map fst l) -> tget l x = None.
Proof. intros l x H. destruct (tget l x) eqn:E; auto. exfalso. apply H. eapply tget_in; eauto. Qed.

Lemma kresume_deliv : forall k y d tf ok k', kresume k y d tf = (ok, k') ->
  k_deliv k' = k_deliv k ++ (if sigstop_ready k y && negb (d =? 0) then [(y, d)] else [])
  /\ forall x, x <> y -> kget k' x = kget k x.
Proof.
  intros k y d tf ok k' H. unfold kresume in H. unfold sigstop_ready.
  destruct (kget k y) as [th|] eqn:E.
  - destruct (kst_stopped_reported th) eqn:Er.
    + inv H. cbn [k_deliv andb]. split.
      * destruct (k_st th); cbn [andb]; try (rewrite app_nil_r; reflexivity);
        destruct (negb (d =? 0)); try rewrite app_nil_r; reflexivity.
      * intros x Hx.
        match goal with |- context [kset_l (k_threads k) y ?v] => change (kget (kset k y v) x = kget k x) end.
        rewrite kget_kset. destruct (y =? x) eqn:Eyx; auto. apply N.eqb_eq in Eyx. congruence.
    + inv H. cbn [andb]. rewrite app_nil_r. auto.
  - inv H. rewrite app_nil_r. auto.
Qed.

Lemma cont_deliv : forall l k sch x sg ex l' w', NoDup (map fst l) ->
  cont_list kworld kw_req l (k, sch) (Some (x, sg)) ex = (l', w') ->
  k_deliv (fst w') = k_deliv k ++
    (if is_stopped (tget l x) && negb (mem x ex) && sigstop_ready k x && negb (sg =? 0) then [(x, sg)] else []).
Proof.
  induction l as [|[y st] r IH]; intros k sch x sg ex l' w' ND H; cbn [Tracer.cont_list] in H.
  - inv H. cbn. rewrite app_nil_r. reflexivity.
  - cbn [map fst] in ND. inversion ND as [|? ? Hnin ND']; subst.
    assert (SKIP : forall r' w'', cont_list kworld kw_req r (k, sch) (Some (x, sg)) ex = (r', w'') ->
              (x = y -> is_stopped (Some st) && negb (mem x ex) = false) ->
              k_deliv (fst w'') = k_deliv k ++
                (if is_stopped (tget ((y, st) :: r) x) && negb (mem x ex) && sigstop_ready k x && negb (sg =? 0) then [(x, sg)] else [])).
    { intros r' w'' Hc Hxy. rewrite (IH _ _ _ _ _ _ _ ND' Hc). cbn [tget alist_get].
      destruct (x =? y) eqn:E; [|reflexivity]. apply N.eqb_eq in E. subst y.
      rewrite (Hxy eq_refl). fold (tget r x). rewrite (tget_notin _ _ Hnin). reflexivity. }
    destruct (mem y ex) eqn:Em.
    + destruct (cont_list kworld kw_req r (k, sch) (Some (x, sg)) ex) as [r' w''] eqn:Hc. inv H.
      apply (SKIP _ _ eq_refl). intros ->. rewrite Em. apply andb_false_r.
    + destruct st as [sty|].
      * unfold kw_req at 1 in H. cbn [fst snd kreq] in H.
        destruct (kresume k y (if x =? y then sg else 0) false) as [ok k1] eqn:Er.
        destruct (cont_list kworld kw_req r (k1, sch) (Some (x, sg)) ex) as [r' w''] eqn:Hc. inv H.
        destruct (kresume_deliv _ _ _ _ _ _ Er) as (D1 & F1).
        rewrite (IH _ _ _ _ _ _ _ ND' Hc), D1. cbn [tget alist_get].
        destruct (x =? y) eqn:E.
        -- apply N.eqb_eq in E. subst y. fold (tget r x). rewrite (tget_notin _ _ Hnin). cbn [is_stopped andb].
           rewrite Em. cbn [negb andb]. rewrite app_nil_r. reflexivity.
        -- cbn [N.eqb]. replace (negb (0 =? 0)) with false by reflexivity. rewrite andb_false_r, app_nil_r.
           assert (S1 : sigstop_ready k1 x = sigstop_ready k x).
           { unfold sigstop_ready. rewrite F1; auto. apply N.eqb_neq in E. exact E. }
           rewrite S1. reflexivity.
      * destruct (cont_list kworld kw_req r (k, sch) (Some (x, sg)) ex) as [r' w''] eqn:Hc. inv H.
        apply (SKIP _ _ eq_refl). intros _. reflexivity.
Qed.

(* C10, one queue entry: when Tracer::resume pops (x, sg), its continue phase hands exactly that
   signal to thread x, once, and nothing to any other thread - PROVIDED x is not queued again
   behind it, the tracer holds x stopped and x stands in a signal-delivery-stop.  Otherwise the
   popped signal is dropped (see C10_quiet_burst_refuted, C10_signal_lost_refuted). *)
Definition inject_ok (t : tracer) (k : kernel) : bool :=
  match t_queue t with
  | (x, sg) :: rest => is_stopped (st_of t x) && negb (mem x (map fst rest)) && sigstop_ready k x && negb (sg =? 0)
  | [] => false end.

Theorem inject_front_partial : forall t k sch x sg rest t1 w1, keys_ok t -> t_queue t = (x, sg) :: rest ->
  inject_ok t k = true ->
  cont_stopped_ex kworld kw_req (with_queue t rest) (k, sch) (Some (x, sg)) (map fst rest) = (t1, w1) ->
  k_deliv (fst w1) = k_deliv k ++ [(x, sg)] /\ t_queue t1 = rest.
Proof.
  intros t k sch x sg rest t1 w1 K Q Hok H. unfold Tracer.cont_stopped_ex in H.
  destruct (cont_list kworld kw_req (t_threads (with_queue t rest)) (k, sch) (Some (x, sg)) (map fst rest)) as [l' w'] eqn:Hc.
  inv H. split; [|reflexivity].
  rewrite (cont_deliv _ _ _ _ _ _ _ _ K Hc). unfold inject_ok in Hok. rewrite Q in Hok.
  unfold st_of in Hok. cbn [t_threads with_queue]. rewrite Hok. reflexivity.
Qed.

(* and in every case nothing but the popped entry can be delivered, at most once *)
Theorem inject_nothing_else : forall t k sch x sg rest t1 w1, keys_ok t ->
  cont_stopped_ex kworld kw_req (with_queue t rest) (k, sch) (Some (x, sg)) (map fst rest) = (t1, w1) ->
  k_deliv (fst w1) = k_deliv k \/ k_deliv (fst w1) = k_deliv k ++ [(x, sg)].
Proof.
  intros t k sch x sg rest t1 w1 K H. unfold Tracer.cont_stopped_ex in H.
  destruct (cont_list kworld kw_req (t_threads (with_queue t rest)) (k, sch) (Some (x, sg)) (map fst rest)) as [l' w'] eqn:Hc.
  inv H. rewrite (cont_deliv _ _ _ _ _ _ _ _ K Hc).
  match goal with |- context [if ?c then _ else _] => destruct c end; [right | left; rewrite app_nil_r]; reflexivity.
Qed.

Example inject_ok_nontrivial :
  inject_ok (mkT 1 [(1, TStopped (StSignal 10)); (2, TStopped (StSignal 12))] [(1, 10); (2, 12)] false)
            (mkKer [(1, mkK (KSig 10) true false [] 5 false); (2, mkK (KSig 12) true true [] 7 false)] [] [] [] [] [] []) = true.
Proof. reflexivity. Qed.

(* ===================================================================================== *)
(* F. C10, current code: a quiet signal that arrives inside single_step                    *)
(* ===================================================================================== *)
Lemma pair_eqb_refl : forall p, pair_eqb p p = true.
Proof. intros [a b]. unfold pair_eqb; cbn [fst snd]. rewrite !N.eqb_refl. reflexivity. Qed.

(* taking back the entry that has just been pushed restores the queue *)
Lemma remove_last_pushed : forall q p, remove_last_pair (q ++ [p]) p = q.
Proof.
  intros q p. unfold remove_last_pair. rewrite rev_unit. cbn [remove_first_pair].
  rewrite pair_eqb_refl. apply rev_involutive.
Qed.

Lemma quiet_facts : forall sg, quiet sg = true -> (sg =? SIGTRAP) = false /\ transparent sg = false /\ (sg =? 0) = false.
Proof.
  intros sg H. unfold quiet, mem, QUIET_SIGNALS in H. cbn [existsb] in H.
  repeat (apply orb_true_iff in H; destruct H as [H|H]); try discriminate;
  apply N.eqb_eq in H; subst sg; repeat split; reflexivity.
Qed.

(* For EVERY tracer state, breakpoint table, kernel state and schedule: when the wait inside
   single_step returns a quiet signal stop of the stepped thread, (1) apply_new_status queues it
   and reports SignalStop without any group stop, (2) the dequeue of the repaired single_step
   leaves the queue exactly as it was before the step, (3) the PTRACE_SINGLESTEP that follows
   hands the signal to the thread exactly once. *)
Theorem quiet_in_step_once : forall f bps t k sch pid sg code pc st,
  quiet sg = true -> tget (t_threads t) pid = Some st -> sigstop_ready k pid = true ->
  exists t2,
    k_ans_gen true (S f) bps t (k, sch) (WStopped pid sg code pc) = Ok (t2, (k, sch), Some (SRSignal pid sg))
    /\ t_queue t2 = t_queue t ++ [(pid, sg)]
    /\ t_queue (with_queue t2 (remove_last_pair (t_queue t2) (pid, sg))) = t_queue t
    /\ forall ok w3, kw_req (k, sch) (PStep pid sg) = (ok, w3) -> k_deliv (fst w3) = k_deliv k ++ [(pid, sg)].
Proof.
  intros f bps t k sch pid sg code pc st Hq Ht Hr.
  destruct (quiet_facts _ Hq) as (Q1 & Q2 & Q3).
  exists (t_set (with_queue t (t_queue t ++ [(pid, sg)])) pid (TStopped (StSignal sg))).
  split; [|split; [reflexivity|split]].
  - unfold k_ans_gen. cbn [Tracer.ans]. rewrite Q1, Q2. unfold ensure_stop. cbn [t_threads with_queue].
    rewrite Ht. cbn [bind]. rewrite Hq. cbn [bind]. reflexivity.
  - cbn [t_queue with_queue t_set with_threads]. apply remove_last_pushed.
  - intros ok w3 H. unfold kw_req in H. cbn [fst snd kreq] in H.
    destruct (kresume k pid sg true) as [ok' k'] eqn:E. inv H. cbn [fst].
    destruct (kresume_deliv _ _ _ _ _ _ E) as (D & _). rewrite D, Hr, Q3. reflexivity.
Qed.
