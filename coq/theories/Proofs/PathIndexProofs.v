From BS Require Import Model.Base Model.PathIndex.
From Coq Require Import Lia.

Lemma list_eqb_N_spec (a b : list N) : list_eqb N.eqb a b = true <-> a = b.
Proof.
  revert b; induction a as [|x xs IH]; intros [|y ys]; cbn [list_eqb]; try (split; congruence).
  rewrite andb_true_iff, N.eqb_eq, IH. split; [intros [-> ->]; reflexivity | intros H; inversion H; auto].
Qed.

Lemma sym_eqb_spec (a b : sym) : sym_eqb a b = true <-> a = b.
Proof. apply list_eqb_N_spec. Qed.

Lemma sym_eqb_refl a : sym_eqb a a = true.
Proof. apply sym_eqb_spec; reflexivity. Qed.

Lemma sym_eqb_neq a b : a <> b -> sym_eqb a b = false.
Proof. intros H; destruct (sym_eqb a b) eqn:E; auto. apply sym_eqb_spec in E; contradiction. Qed.

Lemma list_eqb_sym_spec (a b : list sym) : list_eqb sym_eqb a b = true <-> a = b.
Proof.
  revert b; induction a as [|x xs IH]; intros [|y ys]; cbn [list_eqb]; try (split; congruence).
  rewrite andb_true_iff, sym_eqb_spec, IH. split; [intros [-> ->]; reflexivity | intros H; inversion H; auto].
Qed.

Lemma ends_with_spec (l s : list sym) : ends_with l s = true <-> is_suffix s l.
Proof.
  unfold ends_with, is_suffix. rewrite andb_true_iff, Nat.leb_le, list_eqb_sym_spec. split.
  - intros [Hle Heq]. exists (firstn (length l - length s) l).
    rewrite <- Heq at 2. symmetry; apply firstn_skipn.
  - intros [pre ->]. rewrite app_length. split; [lia|].
    replace (length pre + length s - length s) with (length pre) by lia.
    rewrite skipn_app, skipn_all, Nat.sub_diag. reflexivity.
Qed.

Lemma is_suffix_snoc (s l : list sym) (a b : sym) :
  is_suffix (s ++ [a]) (l ++ [b]) <-> a = b /\ is_suffix s l.
Proof.
  unfold is_suffix. split.
  - intros [pre H]. rewrite app_assoc in H. apply app_inj_tail in H. destruct H as [H ->].
    split; [reflexivity | exists pre; exact H].
  - intros [-> [pre ->]]. exists pre. rewrite app_assoc. reflexivity.
Qed.

Lemma ends_with_snoc (s l : list sym) (a b : sym) :
  ends_with (l ++ [b]) (s ++ [a]) = sym_eqb b a && ends_with l s.
Proof.
  apply eq_true_iff_eq. rewrite andb_true_iff, !ends_with_spec, is_suffix_snoc, sym_eqb_spec.
  intuition congruence.
Qed.

Section Inv.
Context {T : Type}.
Notation entry := (entry T).
Definition e_tail (e : entry) := fst (fst e).
Definition e_head (e : entry) := snd (fst e).
Definition ins (ix : pindex T) (e : entry) := insert_w_head ix (e_tail e) (e_head e) (e_val e).

Fixpoint positions (h : sym) (es : list entry) (off : nat) : list nat :=
  match es with
  | [] => []
  | e :: t => if sym_eqb (e_head e) h then off :: positions h t (S off) else positions h t (S off)
  end.

Lemma positions_app h es1 es2 off :
  positions h (es1 ++ es2) off = positions h es1 off ++ positions h es2 (off + length es1).
Proof.
  revert off; induction es1 as [|e t IH]; intros off; cbn [positions app length].
  - rewrite Nat.add_0_r; reflexivity.
  - rewrite IH. replace (S off + length t) with (off + S (length t)) by lia.
    destruct (sym_eqb (e_head e) h); reflexivity.
Qed.

Lemma positions_bound h es off i : In i (positions h es off) -> off <= i < off + length es.
Proof.
  revert off; induction es as [|e t IH]; intros off; cbn [positions length]; [intros []|].
  destruct (sym_eqb (e_head e) h); cbn [In]; intros H.
  - destruct H as [<-|H]; [lia | apply IH in H; lia].
  - apply IH in H; lia.
Qed.

Definition hget (ix : pindex T) h := alist_get sym_eqb (heads ix) h.
Definition dget (ix : pindex T) k := alist_get key_eqb (data ix) k.

Record Inv (es : list entry) (ix : pindex T) : Prop := {
  inv_tails : tails ix = map e_tail es;
  inv_heads : forall h,
      match positions h es 0 with
      | [] => hget ix h = None
      | ps => exists n, hget ix h = Some (ps, n) /\ (n < next_nonce ix)%N
      end;
  inv_nonce : forall h h' p p' n, hget ix h = Some (p, n) -> hget ix h' = Some (p', n) -> h = h';
  inv_data : forall h p n i, hget ix h = Some (p, n) -> In i p ->
                             dget ix (n, i) = option_map e_val (nth_error es i)
}.

Lemma inv_empty : Inv [] pi_empty.
Proof. split; cbn; try reflexivity; intros; discriminate. Qed.

Lemma hget_some_positions es ix h p n :
  Inv es ix -> hget ix h = Some (p, n) -> p = positions h es 0 /\ (n < next_nonce ix)%N.
Proof.
  intros I H. pose proof (inv_heads _ _ I h) as Hh.
  destruct (positions h es 0) as [|a l]; [congruence|].
  destruct Hh as [n' [E L]]. rewrite H in E. inversion E; subst. auto.
Qed.

Lemma key_eqb_spec a b : key_eqb a b = true <-> a = b.
Proof.
  destruct a as [a1 a2], b as [b1 b2]. unfold key_eqb; cbn [fst snd].
  rewrite andb_true_iff, N.eqb_eq, Nat.eqb_eq. split; [intros [-> ->]; reflexivity | intros H; inversion H; auto].
Qed.

Lemma inv_step es ix e : Inv es ix -> Inv (es ++ [e]) (ins ix e).
Proof.
  intros I.
  assert (Hlen : length (tails ix ++ [e_tail e]) - 1 = length es).
  { rewrite app_length, (inv_tails _ _ I), map_length. cbn. lia. }
  assert (Hpos : forall h, positions h (es ++ [e]) 0 =
            positions h es 0 ++ (if sym_eqb (e_head e) h then [length es] else [])).
  { intros h. rewrite positions_app. cbn [positions Nat.add]. destruct (sym_eqb (e_head e) h); reflexivity. }
  unfold ins, insert_w_head. fold (hget ix (e_head e)). rewrite Hlen.
  destruct (hget ix (e_head e)) as [[idxs nonce]|] eqn:Hh.
  - (* existing head *)
    destruct (hget_some_positions _ _ _ _ _ I Hh) as [-> Hn].
    split; cbn [tails heads data next_nonce].
    + rewrite (inv_tails _ _ I), map_app. reflexivity.
    + intros h. rewrite Hpos. unfold hget; cbn [heads alist_set alist_get].
      destruct (sym_eqb h (e_head e)) eqn:E.
      * apply sym_eqb_spec in E; subst h. rewrite sym_eqb_refl.
        destruct (positions (e_head e) es 0 ++ [length es]) eqn:E2; [destruct (positions (e_head e) es 0); discriminate|].
        rewrite <- E2. exists nonce; auto.
      * assert (sym_eqb (e_head e) h = false) as ->.
        { destruct (sym_eqb (e_head e) h) eqn:E3; auto. apply sym_eqb_spec in E3; subst.
          rewrite sym_eqb_refl in E; discriminate. }
        rewrite app_nil_r. apply (inv_heads _ _ I h).
    + intros h h' p p' n. unfold hget; cbn [heads alist_set alist_get].
      destruct (sym_eqb h (e_head e)) eqn:E1, (sym_eqb h' (e_head e)) eqn:E2; intros H1 H2.
      * apply sym_eqb_spec in E1, E2; congruence.
      * inversion H1; subst. apply sym_eqb_spec in E1; subst.
        symmetry. eapply (inv_nonce _ _ I); [exact H2 | exact Hh].
      * inversion H2; subst. apply sym_eqb_spec in E2; subst.
        eapply (inv_nonce _ _ I); [exact H1 | exact Hh].
      * eapply (inv_nonce _ _ I); eassumption.
    + intros h p n i. unfold hget, dget; cbn [heads data alist_set alist_get].
      destruct (sym_eqb h (e_head e)) eqn:E1.
      * intros H Hin. inversion H; subst p n. apply in_app_or in Hin.
        destruct Hin as [Hin|[<-|[]]].
        -- pose proof (positions_bound _ _ _ _ Hin) as Hb.
           assert (key_eqb (nonce, i) (nonce, length es) = false) as ->.
           { destruct (key_eqb _ _) eqn:K; auto. apply key_eqb_spec in K. inversion K; lia. }
           rewrite nth_error_app1 by lia. eapply (inv_data _ _ I); eassumption.
        -- assert (key_eqb (nonce, length es) (nonce, length es) = true) as -> by (apply key_eqb_spec; reflexivity).
           rewrite nth_error_app2, Nat.sub_diag by lia. reflexivity.
      * intros H Hin. destruct (hget_some_positions _ _ _ _ _ I H) as [-> _].
        pose proof (positions_bound _ _ _ _ Hin) as Hb.
        assert (key_eqb (n, i) (nonce, length es) = false) as ->.
        { destruct (key_eqb _ _) eqn:K; auto. apply key_eqb_spec in K. inversion K; lia. }
        rewrite nth_error_app1 by lia. eapply (inv_data _ _ I); eassumption.
  - (* fresh head *)
    assert (Hnone : positions (e_head e) es 0 = []).
    { pose proof (inv_heads _ _ I (e_head e)) as Hx.
      destruct (positions (e_head e) es 0) as [|a0 l0]; [reflexivity|]. destruct Hx as [n [Hx _]]. congruence. }
    split; cbn [tails heads data next_nonce].
    + rewrite (inv_tails _ _ I), map_app. reflexivity.
    + intros h. rewrite Hpos. unfold hget; cbn [heads alist_set alist_get].
      destruct (sym_eqb h (e_head e)) eqn:E.
      * apply sym_eqb_spec in E; subst h. rewrite sym_eqb_refl, Hnone. cbn [app].
        exists (next_nonce ix). split; [reflexivity | lia].
      * assert (sym_eqb (e_head e) h = false) as ->.
        { destruct (sym_eqb (e_head e) h) eqn:E3; auto. apply sym_eqb_spec in E3; subst.
          rewrite sym_eqb_refl in E; discriminate. }
        rewrite app_nil_r. pose proof (inv_heads _ _ I h) as Hx.
        destruct (positions h es 0) as [|a0 l0]; [exact Hx|]. destruct Hx as [n [Hx Hl]]. exists n. split; [exact Hx|lia].
    + intros h h' p p' n. unfold hget; cbn [heads alist_set alist_get].
      destruct (sym_eqb h (e_head e)) eqn:E1, (sym_eqb h' (e_head e)) eqn:E2; intros H1 H2.
      * apply sym_eqb_spec in E1, E2; congruence.
      * inversion H1; subst. destruct (hget_some_positions _ _ _ _ _ I H2) as [_ L]. lia.
      * inversion H2; subst. destruct (hget_some_positions _ _ _ _ _ I H1) as [_ L]. lia.
      * eapply (inv_nonce _ _ I); eassumption.
    + intros h p n i. unfold hget, dget; cbn [heads data alist_set alist_get].
      destruct (sym_eqb h (e_head e)) eqn:E1.
      * intros H Hin. inversion H; subst p n. destruct Hin as [<-|[]].
        assert (key_eqb (next_nonce ix, length es) (next_nonce ix, length es) = true) as -> by (apply key_eqb_spec; reflexivity).
        rewrite nth_error_app2, Nat.sub_diag by lia. reflexivity.
      * intros H Hin. destruct (hget_some_positions _ _ _ _ _ I H) as [-> L].
        pose proof (positions_bound _ _ _ _ Hin) as Hb.
        assert (key_eqb (n, i) (next_nonce ix, length es) = false) as ->.
        { destruct (key_eqb _ _) eqn:K; auto. apply key_eqb_spec in K. inversion K; lia. }
        rewrite nth_error_app1 by lia. eapply (inv_data _ _ I); eassumption.
Qed.

Lemma build_inv_gen es0 ix es : Inv es0 ix -> Inv (es0 ++ es) (fold_left ins es ix).
Proof.
  revert es0 ix; induction es as [|e t IH]; intros es0 ix I; cbn [fold_left].
  - rewrite app_nil_r; exact I.
  - replace (es0 ++ e :: t) with ((es0 ++ [e]) ++ t) by (rewrite <- app_assoc; reflexivity).
    apply IH, inv_step, I.
Qed.

Lemma build_inv es : Inv es (build es).
Proof. apply (build_inv_gen [] pi_empty es), inv_empty. Qed.

(* the loop of get() over the stored tail indexes *)
Lemma get_loop_ok es ix h exp p n idxs :
  Inv es ix -> hget ix h = Some (p, n) -> incl idxs p ->
  get_loop ix exp n idxs =
  Ok (filter_map (fun i => match nth_error es i with
                           | Some e => if ends_with (e_tail e) exp then Some (e_val e) else None
                           | None => None end) idxs).
Proof.
  intros I Hh. induction idxs as [|i rest IH]; intros Hincl; cbn [get_loop filter_map]; [reflexivity|].
  assert (Hin : In i p) by (apply Hincl; left; reflexivity).
  destruct (hget_some_positions _ _ _ _ _ I Hh) as [Hp _].
  assert (Hb : i < length es) by (subst p; apply positions_bound in Hin; lia).
  rewrite (inv_tails _ _ I), nth_error_map.
  destruct (nth_error es i) as [e|] eqn:En; [|apply nth_error_None in En; lia].
  cbn [option_map]. rewrite IH by (intros x Hx; apply Hincl; right; exact Hx). cbn [bind].
  fold (dget ix (n, i)). rewrite (inv_data _ _ I _ _ _ _ Hh Hin), En. cbn [option_map].
  destruct (ends_with (e_tail e) exp); reflexivity.
Qed.

Lemma filter_positions h exp (pre es : list entry) :
  filter_map (fun i => match nth_error (pre ++ es) i with
                       | Some e => if ends_with (e_tail e) exp then Some (e_val e) else None
                       | None => None end) (positions h es (length pre))
  = map e_val (filter (fun e => is_suffixb (exp ++ [h]) (e_path e)) es).
Proof.
  revert pre; induction es as [|e t IH]; intros pre; cbn [positions filter map filter_map]; [reflexivity|].
  unfold is_suffixb, e_path. rewrite ends_with_snoc. fold (e_head e) (e_tail e).
  specialize (IH (pre ++ [e])). rewrite <- app_assoc, app_length in IH. cbn [app length] in IH.
  replace (length pre + 1) with (S (length pre)) in IH by lia.
  destruct (sym_eqb (e_head e) h) eqn:E; cbn [andb filter_map].
  - rewrite nth_error_app2, Nat.sub_diag by lia. cbn [nth_error].
    destruct (ends_with (e_tail e) exp); cbn [map]; rewrite IH; reflexivity.
  - exact IH.
Qed.

Theorem get_comps_refines (es : list entry) comps : get_comps (build es) comps = Ok (spec_get es comps).
Proof.
  pose proof (build_inv es) as I. unfold get_comps, spec_get.
  destruct (rev comps) as [|h rt] eqn:Er.
  - apply (f_equal (@rev _)) in Er. rewrite rev_involutive in Er. subst; reflexivity.
  - assert (Hc : comps = rev rt ++ [h]).
    { apply (f_equal (@rev _)) in Er. rewrite rev_involutive in Er. exact Er. }
    fold (hget (build es) h). pose proof (inv_heads _ _ I h) as Hh.
    destruct comps as [|c0 cs]; [destruct (rev rt); discriminate|]. rewrite Hc.
    pose proof (filter_positions h (rev rt) [] es) as F. cbn [app length] in F.
    destruct (positions h es 0) as [|a l] eqn:Ep.
    + rewrite Hh. rewrite <- F. reflexivity.
    + destruct Hh as [n [Hh _]]. rewrite Hh.
      rewrite (get_loop_ok es (build es) h (rev rt) _ n (a :: l) I Hh) by (apply incl_refl).
      rewrite F. reflexivity.
Qed.

End Inv.

(* the boolean filter of the spec is the mathematical suffix relation *)
Lemma is_suffixb_spec s l : is_suffixb s l = true <-> is_suffix s l.
Proof. apply ends_with_spec. Qed.

Theorem get_refines {T} (d : bstr) (es : list (entry T)) (needle : bstr) :
  get d (build es) needle = Ok (spec_get es (needle_comps d needle)).
Proof. apply get_comps_refines. Qed.

(* corollaries in the words of the property *)
Corollary get_sound {T} d (es : list (entry T)) needle r v :
  get d (build es) needle = Ok r -> In v r ->
  exists e, In e es /\ e_val e = v /\ is_suffix (needle_comps d needle) (e_path e).
Proof.
  rewrite get_refines. intros H; inversion H; subst r; clear H. unfold spec_get.
  destruct (needle_comps d needle) as [|c cs] eqn:E; [intros []|].
  rewrite in_map_iff. intros [e [<- Hin]]. apply filter_In in Hin. destruct Hin as [Hin Hs].
  exists e. split; [exact Hin|]. split; [reflexivity|]. apply is_suffixb_spec; exact Hs.
Qed.

Corollary get_complete {T} d (es : list (entry T)) needle e :
  In e es -> needle_comps d needle <> [] -> is_suffix (needle_comps d needle) (e_path e) ->
  exists r, get d (build es) needle = Ok r /\ In (e_val e) r.
Proof.
  intros Hin Hne Hs. rewrite get_refines. eexists; split; [reflexivity|]. unfold spec_get.
  destruct (needle_comps d needle) as [|c cs] eqn:E; [congruence|].
  apply in_map. apply filter_In. split; [exact Hin|]. apply is_suffixb_spec; exact Hs.
Qed.
