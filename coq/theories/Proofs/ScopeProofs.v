(* C19 - proofs about Scope.v *)
From Coq Require Import Lia.
From BS Require Import Model.Base.
From BS Require Import Model.Scope.
Local Open Scope N_scope.

(* ------------------------------------------------------------------ *)
(** * Sizes and fuel                                                    *)

Fixpoint sizes (l : list die) : nat :=
  match l with [] => O | x :: t => (size x + sizes t)%nat end.

Lemma size_eq : forall d, size d = S (sizes (d_children d)).
Proof.
  intros [o k n r l cs]. reflexivity.
Qed.

Lemma sizes_app : forall a b, sizes (a ++ b) = (sizes a + sizes b)%nat.
Proof. induction a as [|x t IH]; intros b; cbn [app sizes]; [reflexivity|]. rewrite IH. lia. Qed.

Definition size_q (q : list vnode) : nat := sizes (map v_die q).

Lemma size_q_app : forall a b, size_q (a ++ b) = (size_q a + size_q b)%nat.
Proof. intros a b. unfold size_q. rewrite map_app. apply sizes_app. Qed.

Lemma size_q_child_nodes : forall sc n, size_q (child_nodes sc n) = sizes (d_children (v_die n)).
Proof.
  intros sc n. unfold size_q, child_nodes. rewrite map_map. cbn [v_die]. rewrite map_id. reflexivity.
Qed.

Lemma in_child_nodes : forall sc n v,
  In v (child_nodes sc n) <->
  exists x, In x (d_children (v_die n)) /\
            v = mk_vnode (S (v_depth n)) (child_ctx sc (v_ctx n) (v_die n)) x.
Proof.
  intros sc n v. unfold child_nodes. rewrite in_map_iff. split.
  - intros [x [E I]]. exists x. split; [exact I|]. symmetry. exact E.
  - intros [x [I E]]. exists x. split; [symmetry; exact E|exact I].
Qed.

Lemma desc_inv : forall sc k c d v,
  desc sc k c d v ->
  (exists x, In x (d_children d) /\ v = mk_vnode (S k) (child_ctx sc c d) x) \/
  (exists x, In x (d_children d) /\ desc sc (S k) (child_ctx sc c d) x v).
Proof.
  intros sc k c d v H. inversion H; subst.
  - left. eexists. split; [eassumption|reflexivity].
  - right. eexists. split; eassumption.
Qed.

(* ------------------------------------------------------------------ *)
(** * The traversal visits exactly the proper descendants               *)

Lemma bfs_ok : forall sc fuel q,
  (size_q q <= fuel)%nat ->
  exists l, bfs sc fuel q = Ok l /\
    forall v, In v l <-> exists n, In n q /\ desc sc (v_depth n) (v_ctx n) (v_die n) v.
Proof.
  intros sc fuel. induction fuel as [|f IH]; intros q Hsz.
  - destruct q as [|n q].
    + exists []. split; [reflexivity|]. intros v. split; [intros []|intros [n [[] _]]].
    + exfalso. unfold size_q in Hsz. cbn [map sizes] in Hsz. rewrite size_eq in Hsz. lia.
  - destruct q as [|n q].
    + exists []. split; [reflexivity|]. intros v. split; [intros []|intros [n [[] _]]].
    + cbn [bfs].
      destruct (IH (q ++ child_nodes sc n)) as [r [Hr Hin]].
      { rewrite size_q_app, size_q_child_nodes. unfold size_q in Hsz |- *.
        cbn [map sizes] in Hsz. rewrite size_eq in Hsz. lia. }
      rewrite Hr. cbn [bind]. eexists. split; [reflexivity|].
      intros v. rewrite in_app_iff, Hin. split.
      * intros [Hc | [m [Hm Hd]]].
        -- apply in_child_nodes in Hc. destruct Hc as [x [Hx E]]. subst v.
           exists n. split; [left; reflexivity|]. apply desc_child. exact Hx.
        -- apply in_app_iff in Hm. destruct Hm as [Hm | Hm].
           ++ exists m. split; [right; exact Hm|exact Hd].
           ++ apply in_child_nodes in Hm. destruct Hm as [x [Hx E]]. subst m.
              cbn [v_depth v_ctx v_die] in Hd.
              exists n. split; [left; reflexivity|]. eapply desc_deep; eassumption.
      * intros [m [[E | Hm] Hd]].
        -- subst m. apply desc_inv in Hd. destruct Hd as [[x [Hx E]] | [x [Hx Hd]]].
           ++ left. apply in_child_nodes. exists x. split; assumption.
           ++ right. exists (mk_vnode (S (v_depth n)) (child_ctx sc (v_ctx n) (v_die n)) x).
              split; [|exact Hd]. apply in_app_iff. right. apply in_child_nodes.
              exists x. split; [exact Hx|reflexivity].
        -- right. exists m. split; [apply in_app_iff; left; exact Hm|exact Hd].
Qed.

(* the traversal never runs out of fuel and sees exactly the descendants of the function *)
Theorem visit_desc : forall sc root,
  exists l, visit sc root = Ok l /\ forall v, In v l <-> desc sc O None root v.
Proof.
  intros sc root. unfold visit.
  destruct (bfs_ok sc (size root) [mk_vnode O None root]) as [l [Hl Hin]].
  { unfold size_q. cbn [map sizes v_die]. lia. }
  exists l. split; [exact Hl|]. intros v. rewrite Hin. split.
  - intros [n [[E | []] Hd]]. subst n. exact Hd.
  - intros Hd. exists (mk_vnode O None root). split; [left; reflexivity|exact Hd].
Qed.

(* ------------------------------------------------------------------ *)
(** * `var locals`                                                      *)

(* what the code lists: variable DIEs below the function whose nearest enclosing
   lexical_block / subprogram covers pc *)
Theorem local_variables_desc : forall root pc,
  exists l, local_variables root pc = Ok l /\
    forall v, In v l <-> (desc is_scope_model O None root v /\
                          is_var (v_die v) = true /\ valid_at (v_ctx v) pc = true).
Proof.
  intros root pc. unfold local_variables.
  destruct (visit_desc is_scope_model root) as [l [Hl Hin]].
  rewrite Hl. cbn [bind]. eexists. split; [reflexivity|].
  intros v. rewrite filter_In, Hin. unfold listed. rewrite andb_true_iff. tauto.
Qed.

(* the specification is computed by spec_locals *)
Theorem spec_locals_in_scope : forall root pc,
  exists l, spec_locals root pc = Ok l /\ forall v, In v l <-> in_scope root pc v.
Proof.
  intros root pc. unfold spec_locals, in_scope.
  destruct (visit_desc is_scope_spec root) as [l [Hl Hin]].
  rewrite Hl. cbn [bind]. eexists. split; [reflexivity|].
  intros v. rewrite filter_In, Hin. unfold listed. rewrite andb_true_iff. tauto.
Qed.

(* no DW_TAG_inlined_subroutine anywhere in the function's subtree *)
Fixpoint no_inlined (d : die) : bool :=
  match d with
  | Die _ k _ _ _ cs => match k with KInlined => false | _ => true end && forallb no_inlined cs
  end.

Lemma no_inlined_inv : forall d, no_inlined d = true ->
  d_kind d <> KInlined /\ forallb no_inlined (d_children d) = true.
Proof.
  intros [o k n r l cs] H. cbn [no_inlined] in H. apply andb_true_iff in H. destruct H as [Hk Hc].
  cbn [d_kind d_children]. split; [|exact Hc]. intros E. subst k. discriminate.
Qed.

Lemma child_ctx_same : forall c d, d_kind d <> KInlined ->
  child_ctx is_scope_model c d = child_ctx is_scope_spec c d.
Proof. intros c d H. unfold child_ctx. destruct (d_kind d); try reflexivity. congruence. Qed.

Lemma bfs_same : forall fuel q,
  forallb (fun n => no_inlined (v_die n)) q = true ->
  bfs is_scope_model fuel q = bfs is_scope_spec fuel q.
Proof.
  induction fuel as [|f IH]; intros q Hq; destruct q as [|n q]; try reflexivity.
  cbn [bfs]. cbn [forallb] in Hq. apply andb_true_iff in Hq. destruct Hq as [Hn Hq].
  apply no_inlined_inv in Hn. destruct Hn as [Hk Hc].
  assert (E : child_nodes is_scope_model n = child_nodes is_scope_spec n).
  { unfold child_nodes. rewrite (child_ctx_same _ _ Hk). reflexivity. }
  rewrite E. rewrite IH; [reflexivity|].
  rewrite forallb_app, Hq. cbn [andb]. unfold child_nodes. rewrite forallb_forall.
  intros v Hv. apply in_map_iff in Hv. destruct Hv as [x [Ev Hx]]. subst v. cbn [v_die].
  rewrite forallb_forall in Hc. apply Hc. exact Hx.
Qed.

Lemma visit_same : forall root, no_inlined root = true ->
  visit is_scope_model root = visit is_scope_spec root.
Proof.
  intros root H. unfold visit. apply bfs_same. cbn [forallb v_die]. rewrite H. reflexivity.
Qed.

(* FULL STATEMENT (false, see scope_refuted):
     forall root pc, exists l, local_variables root pc = Ok l /\
       forall d, (exists v, In v l /\ v_die v = d) <-> (exists v, in_scope root pc v /\ v_die v = d).
   PROVED under [no_inlined root]: the listing is exactly the in-scope set. *)
Theorem scope_partial : forall root pc, no_inlined root = true ->
  exists l, local_variables root pc = Ok l /\ forall v, In v l <-> in_scope root pc v.
Proof.
  intros root pc H. destruct (spec_locals_in_scope root pc) as [l [Hl Hin]].
  exists l. split; [|exact Hin].
  unfold local_variables. rewrite (visit_same root H). exact Hl.
Qed.

Definition tree_inlined : die :=
  Die 1 KSubprogram (Some 100) [(4096, 4352)] LocNone
    [Die 2 KInlined None [(4112, 4128)] LocNone
       [Die 3 KVar (Some 7) [] (LocExpr 1) []]].

(* a variable that belongs to an inlined call is listed at every pc of the caller *)
Theorem scope_refuted : exists root pc l v,
  local_variables root pc = Ok l /\ In v l /\
  ~ exists v', in_scope root pc v' /\ v_die v' = v_die v.
Proof.
  exists tree_inlined, 4176.
  eexists. eexists. split; [vm_compute; reflexivity|]. split; [left; reflexivity|].
  intros [v' [Hs _]].
  destruct (spec_locals_in_scope tree_inlined 4176) as [l [Hl Hin]].
  vm_compute in Hl. inversion Hl; subst l. apply Hin in Hs. exact Hs.
Qed.

Example scope_partial_applies :
  no_inlined
    (Die 1 KSubprogram (Some 100) [(4096, 4352)] LocNone
       [Die 2 KParam (Some 5) [] (LocExpr 9) [];
        Die 3 KBlock None [(4112, 4200)] LocNone [Die 4 KVar (Some 7) [] (LocExpr 1) []];
        Die 5 KBlock None [(4200, 4300)] LocNone [Die 6 KVar (Some 8) [] (LocExpr 2) []]]) = true.
Proof. reflexivity. Qed.

(* What block ranges cannot express: two variables declared in the same DIE share its ranges,
   so one declared later in the same block is listed exactly when the earlier one is. *)
Lemma desc_step : forall sc k c d v x,
  desc sc k c d v -> In x (d_children (v_die v)) ->
  desc sc k c d (mk_vnode (S (v_depth v)) (child_ctx sc (v_ctx v) (v_die v)) x).
Proof.
  intros sc k c d v x H. induction H as [k c d x0 Hx0 | k c d x0 v Hx0 Hd IH]; intros Hx.
  - cbn [v_depth v_ctx v_die] in *. eapply desc_deep; [exact Hx0|]. apply desc_child. exact Hx.
  - eapply desc_deep; [exact Hx0|]. apply IH. exact Hx.
Qed.

Theorem same_block_same_listing : forall root pc l p x y,
  local_variables root pc = Ok l ->
  (p = mk_vnode O None root \/ desc is_scope_model O None root p) ->
  In x (d_children (v_die p)) -> In y (d_children (v_die p)) ->
  is_var x = true -> is_var y = true ->
  let c := child_ctx is_scope_model (v_ctx p) (v_die p) in
  (In (mk_vnode (S (v_depth p)) c x) l <-> In (mk_vnode (S (v_depth p)) c y) l).
Proof.
  intros root pc l p x y Hl Hp Hx Hy Vx Vy c.
  destruct (local_variables_desc root pc) as [l' [Hl' Hin]].
  rewrite Hl in Hl'. inversion Hl'; subst l'. rewrite !Hin. cbn [v_die v_ctx].
  assert (D : forall z, In z (d_children (v_die p)) ->
                        desc is_scope_model O None root (mk_vnode (S (v_depth p)) c z)).
  { intros z Hz. destruct Hp as [E | Hd].
    - subst p. cbn [v_die v_depth v_ctx] in *. apply desc_child. exact Hz.
    - apply desc_step; assumption. }
  split; intros [_ [_ Hv]]; (split; [apply D; assumption|split; assumption]).
Qed.

(* ------------------------------------------------------------------ *)
(** * `arg all`                                                         *)

Theorem params_exact : forall root p,
  In p (parameters root) <-> In p (d_children root) /\ d_kind p = KParam.
Proof.
  intros root p. unfold parameters. rewrite filter_In. unfold is_param.
  destruct (d_kind p); split; intros [H1 H2]; (split; [exact H1|]); try reflexivity; discriminate.
Qed.

(* ------------------------------------------------------------------ *)
(** * `var NAME` and shadowing                                          *)

Lemma find_filter : forall {A} (p : A -> bool) l, find p l = hd_error (filter p l).
Proof.
  intros A p. induction l as [|x t IH]; [reflexivity|]. cbn [find filter].
  destruct (p x); [reflexivity|exact IH].
Qed.

(* the variable returned is a live binding of that name; nothing is returned only if there
   is none *)
Theorem local_variable_sound : forall root pc name,
  exists r, local_variable root pc name = Ok r /\
    match r with
    | Some v => desc is_scope_model O None root v /\ candidate pc name v = true
    | None => forall v, desc is_scope_model O None root v -> candidate pc name v = false
    end.
Proof.
  intros root pc name. unfold local_variable.
  destruct (visit_desc is_scope_model root) as [l [Hl Hin]]. rewrite Hl. cbn [bind].
  eexists. split; [reflexivity|].
  destruct (find (candidate pc name) l) as [v|] eqn:F.
  - apply find_some in F. destruct F as [Iv Cv]. split; [apply Hin; exact Iv|exact Cv].
  - intros v Hd. apply Hin in Hd. apply (find_none _ _ F) in Hd. exact Hd.
Qed.

(* exactly one live binding of the name *)
Definition single_candidate (root : die) (pc name : N) : bool :=
  match visit is_scope_model root with
  | Ok vs => Nat.eqb (length (filter (candidate pc name) vs)) 1
  | _ => false
  end.

(* FULL STATEMENT (false, see shadow_refuted):
     forall root pc name v, local_variable root pc name = Ok (Some v) -> innermost root pc name v.
   PROVED when the name has a single live binding (no shadowing in effect at pc). *)
Theorem shadow_partial : forall root pc name,
  no_inlined root = true -> single_candidate root pc name = true ->
  exists v, local_variable root pc name = Ok (Some v) /\ innermost root pc name v.
Proof.
  intros root pc name Hni Hs. unfold single_candidate in Hs. unfold local_variable.
  destruct (visit_desc is_scope_spec root) as [l [Hl Hin]].
  rewrite (visit_same root Hni) in Hs |- *. rewrite Hl in Hs |- *. cbn [bind].
  rewrite find_filter.
  destruct (filter (candidate pc name) l) as [|v [|w t]] eqn:F; cbn [length] in Hs; try discriminate.
  exists v. split; [reflexivity|].
  assert (Iv : In v (filter (candidate pc name) l)) by (rewrite F; left; reflexivity).
  apply filter_In in Iv. destruct Iv as [Iv Cv]. unfold candidate in Cv.
  apply andb_true_iff in Cv. destruct Cv as [Cv Cval]. apply andb_true_iff in Cv. destruct Cv as [Cvar Cname].
  split; [|split].
  - unfold in_scope. split; [apply Hin; exact Iv|split; assumption].
  - exact Cname.
  - intros v' [Hd [Hvar Hval]] Hname.
    assert (Iv' : In v' (filter (candidate pc name) l)).
    { apply filter_In. split; [apply Hin; exact Hd|]. unfold candidate. rewrite Hvar, Hname, Hval. reflexivity. }
    rewrite F in Iv'. destruct Iv' as [E | []]. subst v'. lia.
Qed.

(* fn f() { let x = ..; { let x = ..; <pc> } }  (rustc opens a lexical block at every `let`) *)
Definition tree_shadow : die :=
  Die 1 KSubprogram (Some 100) [(4096, 4352)] LocNone
    [Die 2 KBlock None [(4112, 4336)] LocNone
       [Die 3 KVar (Some 7) [] (LocExpr 1) [];
        Die 4 KBlock None [(4128, 4320)] LocNone
          [Die 5 KVar (Some 7) [] (LocExpr 2) []]]].

Example shadow_partial_applies :
  no_inlined tree_shadow = true /\ single_candidate tree_shadow 4120 7 = true.
Proof. split; reflexivity. Qed.

(* with both bindings live the OUTER one is returned: the traversal is breadth first, the
   first live match is the shallowest *)
Theorem shadow_refuted : exists root pc name v,
  no_inlined root = true /\ local_variable root pc name = Ok (Some v) /\
  d_off (v_die v) = 3 /\ ~ innermost root pc name v.
Proof.
  exists tree_shadow, 4144, 7. eexists.
  split; [reflexivity|]. split; [vm_compute; reflexivity|]. split; [reflexivity|].
  intros [_ [_ Hmax]].
  destruct (spec_locals_in_scope tree_shadow 4144) as [l [Hl Hin]].
  vm_compute in Hl. inversion Hl; subst l.
  specialize (Hmax (mk_vnode 3 (Some [(4128, 4320)]) (Die 5 KVar (Some 7) [] (LocExpr 2) []))).
  cbn [v_depth] in Hmax.
  assert (3 <= 2)%nat; [|lia]. apply Hmax; [|reflexivity].
  apply Hin. right. left. reflexivity.
Qed.

(* ------------------------------------------------------------------ *)
(** * Location lists                                                    *)

(* no entry ends exactly at pc, no undecodable entry *)
Definition no_end_at (pc : N) (l : list lentry) : bool :=
  forallb (fun e => match e with LEntry _ en _ => negb (en =? pc) | LBad => false end) l.

(* FULL STATEMENT (false, see loclist_refuted):
     forall pc l, loclist_select pc l = spec_loclist_select pc l.
   PROVED when pc is not the (exclusive) end of any entry. *)
Theorem loclist_partial : forall pc l, no_end_at pc l = true ->
  loclist_select pc l = spec_loclist_select pc l.
Proof.
  intros pc l H. unfold loclist_select, spec_loclist_select.
  assert (E : find (lentry_match pc) l = find (lentry_in pc) l).
  { induction l as [|e t IH]; [reflexivity|]. cbn [no_end_at forallb] in H.
    apply andb_true_iff in H. destruct H as [He Ht]. cbn [find].
    destruct e as [b en d|]; [|discriminate]. cbn [lentry_match lentry_in].
    apply negb_true_iff, N.eqb_neq in He.
    assert (Q : (pc <=? en) = (pc <? en)).
    { destruct (N.leb_spec pc en), (N.ltb_spec pc en); try reflexivity; lia. }
    rewrite Q. destruct ((b <=? pc) && (pc <? en)); [reflexivity|]. apply IH. exact Ht. }
  rewrite E. destruct (find (lentry_in pc) l) as [[b en d|]|]; reflexivity.
Qed.

Theorem loc_select_partial : forall pc loc,
  match loc with LocList l => no_end_at pc l = true | _ => True end ->
  loc_select pc loc = spec_loc_select pc loc.
Proof. intros pc [| e | l |] H; try reflexivity. cbn [loc_select spec_loc_select]. apply loclist_partial. exact H. Qed.

Example loclist_partial_applies : no_end_at 40 [LEntry 16 32 1; LEntry 32 48 2] = true.
Proof. reflexivity. Qed.

(* x lives in register 1 over [16,32) and in register 2 over [32,48): at pc = 32 the
   first (stale) entry is chosen *)
Theorem loclist_refuted : exists pc l,
  loclist_select pc l = Some 1 /\ spec_loclist_select pc l = Some 2.
Proof. exists 32, [LEntry 16 32 1; LEntry 32 48 2]. split; reflexivity. Qed.

(* one past the end of the last entry a location is still produced *)
Theorem loclist_past_end_refuted : exists pc l,
  loclist_select pc l = Some 1 /\ spec_loclist_select pc l = None.
Proof. exists 32, [LEntry 16 32 1]. split; reflexivity. Qed.
