From BS Require Import Model.Base Model.Mem.
From Coq Require Import Lia ZifyBool.
Open Scope N_scope.

Local Ltac Zify.zify_post_hook ::= Z.to_euclidean_division_equations.

(* real mappings are page-granular, hence 8-byte-word-granular: a byte is mapped iff the
   first byte of its aligned word is *)
Definition word_granular (m : mem) : Prop := forall x, mapped m x = mapped m (x / 8 * 8).

(* ------------------------------------------------------------------ *)
(* generic list facts                                                  *)

Lemma skipn_app_len {A} (n : nat) (l1 l2 : list A) :
  length l1 = n -> skipn n (l1 ++ l2) = l2.
Proof.
  intros H; subst n. induction l1 as [|h t IH]; cbn [length skipn app]; auto.
Qed.

Lemma firstn_app_len {A} (n : nat) (l1 l2 : list A) :
  length l1 = n -> firstn n (l1 ++ l2) = l1.
Proof.
  intros H; subst n. induction l1 as [|h t IH]; cbn [length firstn app]; [reflexivity|].
  f_equal. exact IH.
Qed.

Lemma nth_firstn_lt {A} (l : list A) (c j : nat) (d : A) :
  (j < c)%nat -> nth j (firstn c l) d = nth j l d.
Proof.
  revert c j; induction l as [|h t IH]; intros c j H.
  - rewrite firstn_nil. reflexivity.
  - destruct c as [|c]; [lia|]. destruct j as [|j]; cbn [firstn nth]; [reflexivity|].
    apply IH. lia.
Qed.

Lemma nth_skipn_add {A} (l : list A) (s j : nat) (d : A) :
  nth j (skipn s l) d = nth (s + j) l d.
Proof.
  revert l; induction s as [|s IH]; intros l; [reflexivity|].
  destruct l as [|h t]; cbn [skipn Nat.add nth].
  - destruct j; reflexivity.
  - apply IH.
Qed.

Lemma nth_firstn_skipn (bs : list N) (c s j : nat) :
  (j < c)%nat -> nth j (firstn c (skipn s bs)) 0 = nth (s + j) bs 0.
Proof.
  intros H. rewrite nth_firstn_lt by exact H. apply nth_skipn_add.
Qed.

(* ------------------------------------------------------------------ *)
(* range_from / all_mapped / get_bytes                                 *)

Lemma range_from_app a j k :
  range_from a (j + k) = range_from a j ++ range_from (a + N.of_nat j) k.
Proof.
  revert a; induction j as [|j IH]; intros a; cbn [Nat.add range_from app].
  - replace (a + N.of_nat 0) with a by lia. reflexivity.
  - rewrite IH. replace (a + 1 + N.of_nat j) with (a + N.of_nat (S j)) by lia. reflexivity.
Qed.

Lemma range_from_length a k : length (range_from a k) = k.
Proof.
  revert a; induction k as [|k IH]; intros a; cbn [range_from length]; [reflexivity|].
  rewrite IH. reflexivity.
Qed.

Lemma In_range_from x a k : In x (range_from a k) <-> a <= x < a + N.of_nat k.
Proof.
  revert a; induction k as [|k IH]; intros a; cbn [range_from In].
  - lia.
  - rewrite IH. lia.
Qed.

Lemma all_mapped_true m a k :
  all_mapped m a k = true <-> forall x, a <= x < a + N.of_nat k -> mapped m x = true.
Proof.
  unfold all_mapped. rewrite forallb_forall.
  split; intros H x Hx; apply H; apply In_range_from; exact Hx.
Qed.

Lemma all_mapped_false m a k :
  all_mapped m a k = false -> exists x, a <= x < a + N.of_nat k /\ mapped m x = false.
Proof.
  unfold all_mapped. revert a; induction k as [|k IH]; intros a H; cbn [range_from forallb] in H.
  - discriminate.
  - destruct (mapped m a) eqn:Ea; cbn [andb] in H.
    + destruct (IH _ H) as (x & Hx & Hm). exists x. split; [lia|exact Hm].
    + exists a. split; [lia|exact Ea].
Qed.

Lemma all_mapped_app m a j k :
  all_mapped m a (j + k) = all_mapped m a j && all_mapped m (a + N.of_nat j) k.
Proof. unfold all_mapped. rewrite range_from_app, forallb_app. reflexivity. Qed.

Lemma get_bytes_length m a k : length (get_bytes m a k) = k.
Proof. unfold get_bytes. rewrite map_length. apply range_from_length. Qed.

Lemma get_bytes_app m a j k :
  get_bytes m a (j + k) = get_bytes m a j ++ get_bytes m (a + N.of_nat j) k.
Proof. unfold get_bytes. rewrite range_from_app, map_app. reflexivity. Qed.

Lemma nth_get_bytes m a k i :
  (i < k)%nat ->
  nth i (get_bytes m a k) 0 = match m (a + N.of_nat i) with Some b => b | None => 0 end.
Proof.
  revert a i; induction k as [|k IH]; intros a i H; [lia|].
  unfold get_bytes. cbn [range_from map]. fold (get_bytes m (a + 1) k).
  destruct i as [|i]; cbn [nth].
  - replace (a + N.of_nat 0) with a by lia. reflexivity.
  - rewrite IH by lia. replace (a + 1 + N.of_nat i) with (a + N.of_nat (S i)) by lia. reflexivity.
Qed.

Lemma firstn_skipn_get_bytes m wa s n t :
  (s + n <= t)%nat ->
  firstn n (skipn s (get_bytes m wa t)) = get_bytes m (wa + N.of_nat s) n.
Proof.
  intros H. replace t with (s + (n + (t - s - n)))%nat by lia.
  rewrite get_bytes_app, skipn_app_len by apply get_bytes_length.
  rewrite get_bytes_app, firstn_app_len by apply get_bytes_length.
  reflexivity.
Qed.

(* ------------------------------------------------------------------ *)
(* reads                                                               *)

Lemma read_words_eq m wa k :
  read_words m wa k =
  if all_mapped m wa (k * 8) then Ok (get_bytes m wa (k * 8)) else Err EIO.
Proof.
  revert wa; induction k as [|k IH]; intros wa.
  - reflexivity.
  - cbn [read_words]. change (S k * 8)%nat with (8 + k * 8)%nat.
    rewrite all_mapped_app, get_bytes_app. change (N.of_nat 8) with 8.
    unfold peek. rewrite IH.
    destruct (all_mapped m wa 8); cbn [bind andb]; [|reflexivity].
    destruct (all_mapped m (wa + 8) (k * 8)); reflexivity.
Qed.

(* T1: the aligned read returns exactly the requested bytes when all of them are mapped and
   fails with EIO otherwise (never touches anything that makes it fail spuriously) *)
Theorem read_memory_exact m a n :
  word_granular m -> n < 2 ^ 63 -> a + n <= 2 ^ 64 ->
  read_memory m a n = match spec_read m a n with Some bs => Ok bs | None => Err EIO end.
Proof.
  intros WG Hn _. unfold read_memory, spec_read.
  destruct (N.leb_spec (2 ^ 63) n) as [Hge|_]; [lia|].
  rewrite read_words_eq. unfold words_covering.
  destruct (N.eqb_spec n 0) as [->|Hn0].
  - reflexivity.
  - assert (EQ : all_mapped m (a - a mod 8) (N.to_nat ((a + n - 1) / 8 - a / 8 + 1) * 8)
                 = all_mapped m a (N.to_nat n)).
    { apply Bool.eq_iff_eq_true. rewrite !all_mapped_true. split; intros H x Hx.
      - apply H. lia.
      - rewrite WG. destruct (N.ltb_spec (x / 8 * 8) a) as [Hlt|Hle].
        + replace (x / 8 * 8) with (a / 8 * 8) by lia. rewrite <- WG. apply H. lia.
        + apply H. lia. }
    rewrite EQ. destruct (all_mapped m a (N.to_nat n)); cbn [bind]; [|reflexivity].
    f_equal. rewrite firstn_skipn_get_bytes by lia. f_equal. lia.
Qed.

(* T2: the previous, unaligned loop fails on a fully mapped request at the end of a mapping *)
Theorem read_memory_unaligned_refuted :
  exists m a n, word_granular m /\ spec_read m a n <> None /\ read_memory_unaligned m a n = Err EIO.
Proof.
  exists (fun x => if x <? 8 then Some 0 else None), 7, 1.
  split; [|split].
  - intros x. unfold mapped.
    destruct (N.ltb_spec x 8) as [H1|H1], (N.ltb_spec (x / 8 * 8) 8) as [H2|H2];
      try reflexivity; lia.
  - vm_compute. discriminate.
  - vm_compute. reflexivity.
Qed.

(* ------------------------------------------------------------------ *)
(* writes                                                              *)

Lemma put_bytes_eq m a bs x :
  put_bytes m a bs x =
  if (a <=? x) && (x <? a + N.of_nat (length bs))
  then Some (nth (N.to_nat (x - a)) bs 0) else m x.
Proof.
  revert a; induction bs as [|b t IH]; intros a; cbn [put_bytes length].
  - destruct (N.leb_spec a x) as [H1|H1], (N.ltb_spec x (a + N.of_nat 0)) as [H2|H2];
      cbn [andb]; try reflexivity; lia.
  - rewrite IH. destruct (N.eqb_spec x a) as [->|Hne].
    + replace (a - a) with 0 by lia. change (N.to_nat 0) with O. cbn [nth].
      destruct (N.leb_spec a a) as [H1|H1],
               (N.ltb_spec a (a + N.of_nat (S (length t)))) as [H2|H2];
        cbn [andb]; try reflexivity; lia.
    + destruct (N.leb_spec (a + 1) x) as [H1|H1],
               (N.ltb_spec x (a + 1 + N.of_nat (length t))) as [H2|H2],
               (N.leb_spec a x) as [H3|H3],
               (N.ltb_spec x (a + N.of_nat (S (length t)))) as [H4|H4];
        cbn [andb]; try lia; try reflexivity.
      replace (N.to_nat (x - a)) with (S (N.to_nat (x - (a + 1)))) by lia. reflexivity.
Qed.

Lemma nth_splice (w src : list N) (off i : nat) :
  (off <= length w)%nat ->
  nth i (splice w off src) 0 =
  if (i <? off)%nat then nth i w 0
  else if (i <? off + length src)%nat then nth (i - off) src 0 else nth i w 0.
Proof.
  revert w i; induction off as [|off IH]; intros w i H.
  - assert (E : splice w 0 src = src ++ skipn (length src) w) by (destruct w; reflexivity).
    rewrite E. cbn [Nat.add].
    destruct (Nat.ltb_spec i 0) as [H0|_]; [lia|].
    destruct (Nat.ltb_spec i (length src)) as [H1|H1].
    + rewrite app_nth1 by exact H1. f_equal. lia.
    + rewrite app_nth2 by lia. rewrite nth_skipn_add. f_equal. lia.
  - destruct w as [|h t]; cbn [length] in H; [lia|]. cbn [splice].
    destruct i as [|i]; cbn [nth].
    + destruct (Nat.ltb_spec 0 (S off)) as [_|H0]; [reflexivity|lia].
    + rewrite IH by lia.
      destruct (Nat.ltb_spec i off) as [H1|H1], (Nat.ltb_spec (S i) (S off)) as [H2|H2];
        try lia; reflexivity.
Qed.

Lemma splice_length_ge (w src : list N) (off : nat) :
  (off <= length w)%nat -> (length w <= length (splice w off src))%nat.
Proof.
  revert w; induction off as [|off IH]; intros w H.
  - assert (E : splice w 0 src = src ++ skipn (length src) w) by (destruct w; reflexivity).
    rewrite E, app_length, skipn_length. lia.
  - destruct w as [|h t]; cbn [length] in H; [lia|]. cbn [splice length].
    specialize (IH t). lia.
Qed.

(* one PEEK / splice / POKE round on a fully mapped aligned word *)
Lemma put_splice m ws off chunk x :
  all_mapped m ws 8 = true -> (off + length chunk <= 8)%nat ->
  put_bytes m ws (firstn 8 (splice (get_bytes m ws 8) off chunk)) x =
  if (ws + N.of_nat off <=? x) && (x <? ws + N.of_nat off + N.of_nat (length chunk))
  then Some (nth (N.to_nat (x - (ws + N.of_nat off))) chunk 0) else m x.
Proof.
  intros Hall Hlen. rewrite put_bytes_eq.
  assert (L : length (firstn 8 (splice (get_bytes m ws 8) off chunk)) = 8%nat).
  { rewrite firstn_length.
    pose proof (splice_length_ge (get_bytes m ws 8) chunk off) as G.
    rewrite get_bytes_length in G. lia. }
  rewrite L. change (N.of_nat 8) with 8.
  assert (Keep : ws <= x < ws + 8 ->
                 Some (match m x with Some b => b | None => 0 end) = m x).
  { intros Hx. rewrite all_mapped_true in Hall. specialize (Hall x). change (N.of_nat 8) with 8 in Hall.
    specialize (Hall Hx). unfold mapped in Hall. destruct (m x); [reflexivity|discriminate]. }
  destruct (N.leb_spec ws x) as [H1|H1], (N.ltb_spec x (ws + 8)) as [H2|H2];
    destruct (N.leb_spec (ws + N.of_nat off) x) as [H3|H3],
             (N.ltb_spec x (ws + N.of_nat off + N.of_nat (length chunk))) as [H4|H4];
    cbn [andb]; try lia; try reflexivity.
  - rewrite nth_firstn_lt by lia. rewrite nth_splice by (rewrite get_bytes_length; lia).
    destruct (Nat.ltb_spec (N.to_nat (x - ws)) off) as [H5|H5]; [lia|].
    destruct (Nat.ltb_spec (N.to_nat (x - ws)) (off + length chunk)) as [H6|H6]; [|lia].
    f_equal. f_equal. lia.
  - rewrite nth_firstn_lt by lia. rewrite nth_splice by (rewrite get_bytes_length; lia).
    destruct (Nat.ltb_spec (N.to_nat (x - ws)) off) as [H5|H5]; [lia|].
    destruct (Nat.ltb_spec (N.to_nat (x - ws)) (off + length chunk)) as [H6|H6]; [lia|].
    rewrite nth_get_bytes by lia.
    replace (ws + N.of_nat (N.to_nat (x - ws))) with x by lia. apply Keep. lia.
  - rewrite nth_firstn_lt by lia. rewrite nth_splice by (rewrite get_bytes_length; lia).
    destruct (Nat.ltb_spec (N.to_nat (x - ws)) off) as [H5|H5]; [|lia].
    rewrite nth_get_bytes by lia.
    replace (ws + N.of_nat (N.to_nat (x - ws))) with x by lia. apply Keep. lia.
Qed.

Lemma read_memory_word m ws :
  ws mod 8 = 0 ->
  read_memory m ws 8 = if all_mapped m ws 8 then Ok (get_bytes m ws 8) else Err EIO.
Proof.
  intros H. unfold read_memory. change (2 ^ 63 <=? 8) with false. cbv iota.
  rewrite H. replace (ws - 0) with ws by lia.
  unfold words_covering. change (8 =? 0) with false. cbv iota.
  replace (N.to_nat ((ws + 8 - 1) / 8 - ws / 8 + 1)) with 1%nat by lia.
  rewrite read_words_eq. change (1 * 8)%nat with 8%nat.
  destruct (all_mapped m ws 8); cbn [bind]; [|reflexivity].
  change (N.to_nat 0) with O. change (N.to_nat 8) with 8%nat. cbn [skipn].
  rewrite firstn_all2 by (rewrite get_bytes_length; lia). reflexivity.
Qed.

(* one iteration of the write loop on a fully mapped word *)
Lemma write_step m start bytes cur k :
  start <= cur -> cur < start + N.of_nat (length bytes) ->
  all_mapped m (cur / 8 * 8) 8 = true ->
  exists m1,
    write_loop m start (start + N.of_nat (length bytes)) cur bytes (S k)
    = write_loop m1 start (start + N.of_nat (length bytes)) (cur / 8 * 8 + 8) bytes k
    /\ (forall x, m1 x =
                  if (cur <=? x) && (x <? start + N.of_nat (length bytes)) && (x <? cur / 8 * 8 + 8)
                  then Some (nth (N.to_nat (x - start)) bytes 0) else m x)
    /\ (forall x, mapped m1 x = mapped m x).
Proof.
  intros Hsc Hce Hall.
  set (endp := start + N.of_nat (length bytes)) in *.
  set (ws := cur / 8 * 8) in *.
  assert (Hws : ws <= cur < ws + 8) by (subst ws; lia).
  assert (Hal : ws mod 8 = 0) by (subst ws; lia).
  cbn [write_loop]. fold ws.
  destruct (N.ltb_spec cur endp) as [_|Hge]; [|lia].
  rewrite read_memory_word by exact Hal. rewrite Hall. cbn [bind].
  unfold poke. rewrite Hall. cbn [bind].
  rewrite (N.max_l cur ws) by lia.
  set (ct := N.min endp (ws + 8)).
  assert (Hct : cur < ct /\ ct <= endp /\ ct <= ws + 8
                /\ (ct = endp \/ ct = ws + 8)) by (subst ct; lia).
  clearbody ct.
  set (chunk := firstn (N.to_nat (ct - cur)) (skipn (N.to_nat (cur - start)) bytes)).
  assert (Lc : length chunk = N.to_nat (ct - cur)).
  { subst chunk. rewrite firstn_length, skipn_length. subst endp. lia. }
  set (m1 := put_bytes m ws (firstn 8 (splice (get_bytes m ws 8) (N.to_nat (cur - ws)) chunk))).
  assert (Hm1 : forall x, m1 x =
                  if (cur <=? x) && (x <? endp) && (x <? ws + 8)
                  then Some (nth (N.to_nat (x - start)) bytes 0) else m x).
  { intros x. subst m1. rewrite put_splice by (try exact Hall; lia).
    rewrite Lc.
    destruct (N.leb_spec (ws + N.of_nat (N.to_nat (cur - ws))) x) as [H1|H1],
             (N.ltb_spec x (ws + N.of_nat (N.to_nat (cur - ws)) + N.of_nat (N.to_nat (ct - cur)))) as [H2|H2],
             (N.leb_spec cur x) as [H3|H3], (N.ltb_spec x endp) as [H4|H4],
             (N.ltb_spec x (ws + 8)) as [H5|H5];
      cbn [andb]; try lia; try reflexivity.
    f_equal. subst chunk. rewrite nth_firstn_skipn by lia. f_equal. lia. }
  exists m1. split; [reflexivity|]. split; [exact Hm1|].
  intros x. unfold mapped at 1. rewrite Hm1.
  destruct (N.leb_spec cur x) as [H3|H3], (N.ltb_spec x endp) as [H4|H4],
           (N.ltb_spec x (ws + 8)) as [H5|H5]; cbn [andb]; try reflexivity.
  symmetry. rewrite all_mapped_true in Hall. apply Hall. change (N.of_nat 8) with 8. lia.
Qed.

Lemma word_granular_ext m m1 :
  (forall x, mapped m1 x = mapped m x) -> word_granular m -> word_granular m1.
Proof. intros H WG x. rewrite !H. apply WG. Qed.

Lemma word_all_mapped m cur :
  word_granular m -> mapped m cur = true -> all_mapped m (cur / 8 * 8) 8 = true.
Proof.
  intros WG Hc. apply all_mapped_true. change (N.of_nat 8) with 8. intros x Hx.
  rewrite WG. replace (x / 8 * 8) with (cur / 8 * 8) by lia. rewrite <- WG. exact Hc.
Qed.

Lemma write_loop_ok start bytes :
  forall k m cur,
    start <= cur ->
    start + N.of_nat (length bytes) <= (cur / 8 + N.of_nat k) * 8 ->
    word_granular m ->
    (forall x, cur <= x < start + N.of_nat (length bytes) -> mapped m x = true) ->
    exists m', write_loop m start (start + N.of_nat (length bytes)) cur bytes k = Ok m' /\
               forall x, m' x = if (cur <=? x) && (x <? start + N.of_nat (length bytes))
                                then Some (nth (N.to_nat (x - start)) bytes 0) else m x.
Proof.
  set (endp := start + N.of_nat (length bytes)).
  induction k as [|k IH]; intros m cur Hsc Hfuel WG Hmap.
  - exists m. split; [reflexivity|]. intros x.
    destruct (N.leb_spec cur x) as [H1|H1], (N.ltb_spec x endp) as [H2|H2];
      cbn [andb]; try reflexivity; lia.
  - destruct (N.ltb_spec cur endp) as [Hlt|Hge].
    + assert (Hall : all_mapped m (cur / 8 * 8) 8 = true).
      { apply word_all_mapped; [exact WG|]. apply Hmap. lia. }
      destruct (write_step m start bytes cur k Hsc Hlt Hall) as (m1 & Estep & Hm1 & Hmp1).
      fold endp in Estep, Hm1. rewrite Estep.
      destruct (IH m1 (cur / 8 * 8 + 8)) as (m' & Em' & Hm').
      * lia.
      * lia.
      * exact (word_granular_ext _ _ Hmp1 WG).
      * intros x Hx. rewrite Hmp1. apply Hmap. lia.
      * exists m'. split; [exact Em'|]. intros x. rewrite Hm', Hm1.
        destruct (N.leb_spec (cur / 8 * 8 + 8) x) as [H1|H1], (N.ltb_spec x endp) as [H2|H2],
                 (N.leb_spec cur x) as [H3|H3], (N.ltb_spec x (cur / 8 * 8 + 8)) as [H4|H4];
          cbn [andb]; try lia; try reflexivity.
    + exists m. split.
      * cbn [write_loop]. destruct (N.ltb_spec cur endp) as [Hlt|_]; [lia|reflexivity].
      * intros x.
        destruct (N.leb_spec cur x) as [H1|H1], (N.ltb_spec x endp) as [H2|H2];
          cbn [andb]; try reflexivity; lia.
Qed.

Lemma write_loop_err start bytes :
  forall k m cur,
    start <= cur ->
    start + N.of_nat (length bytes) <= (cur / 8 + N.of_nat k) * 8 ->
    word_granular m ->
    (exists x, cur <= x < start + N.of_nat (length bytes) /\ mapped m x = false) ->
    write_loop m start (start + N.of_nat (length bytes)) cur bytes k = Err EIO.
Proof.
  set (endp := start + N.of_nat (length bytes)).
  induction k as [|k IH]; intros m cur Hsc Hfuel WG (x & Hx & Hxm).
  - lia.
  - assert (Hlt : cur < endp) by lia.
    destruct (all_mapped m (cur / 8 * 8) 8) eqn:Hall.
    + destruct (write_step m start bytes cur k Hsc Hlt Hall) as (m1 & Estep & _ & Hmp1).
      fold endp in Estep. rewrite Estep. apply IH.
      * lia.
      * lia.
      * exact (word_granular_ext _ _ Hmp1 WG).
      * exists x. split; [|rewrite Hmp1; exact Hxm].
        destruct (N.ltb_spec x (cur / 8 * 8 + 8)) as [Hin|Hout]; [|lia].
        rewrite all_mapped_true in Hall. change (N.of_nat 8) with 8 in Hall.
        rewrite Hall in Hxm by lia. discriminate.
    + cbn [write_loop]. destruct (N.ltb_spec cur endp) as [_|Hge]; [|lia].
      rewrite read_memory_word by lia. rewrite Hall. reflexivity.
Qed.

Lemma write_bytes_nonempty m a bytes :
  bytes <> [] ->
  write_bytes m a bytes =
  if 2 ^ 64 <=? a + N.of_nat (length bytes) then Panic 11
  else write_loop m a (a + N.of_nat (length bytes)) a bytes
                  (words_covering a (N.of_nat (length bytes))).
Proof. intros H. destruct bytes; [congruence|reflexivity]. Qed.

Lemma words_covering_fuel a n :
  n <> 0 -> a + n <= (a / 8 + N.of_nat (words_covering a n)) * 8.
Proof.
  intros H. unfold words_covering. destruct (N.eqb_spec n 0) as [E|_]; [contradiction|]. lia.
Qed.

(* T3: write_bytes succeeds when the target range is mapped and then changes exactly
   [a, a+|bytes|) to bytes, everything else (including the rest of the boundary words) unchanged *)
Theorem write_bytes_exact m a bytes :
  word_granular m -> a + N.of_nat (length bytes) < 2 ^ 64 ->
  all_mapped m a (length bytes) = true ->
  exists m', write_bytes m a bytes = Ok m' /\ forall x, m' x = spec_write m a bytes x.
Proof.
  intros WG Hlt Hall.
  destruct bytes as [|b t] eqn:Eb.
  - exists m. split; [reflexivity|]. intros x. unfold spec_write. cbn [length].
    destruct (N.leb_spec a x) as [H1|H1], (N.ltb_spec x (a + N.of_nat 0)) as [H2|H2];
      cbn [andb]; try reflexivity; lia.
  - rewrite <- Eb in *. assert (Hne : bytes <> []) by (rewrite Eb; discriminate).
    assert (Hn0 : N.of_nat (length bytes) <> 0) by (rewrite Eb; cbn [length]; lia).
    clear Eb. rewrite write_bytes_nonempty by exact Hne.
    destruct (N.leb_spec (2 ^ 64) (a + N.of_nat (length bytes))) as [Hge|_]; [lia|].
    destruct (write_loop_ok a bytes (words_covering a (N.of_nat (length bytes))) m a) as (m' & Em' & Hm').
    + lia.
    + apply words_covering_fuel. exact Hn0.
    + exact WG.
    + intros x Hx. rewrite all_mapped_true in Hall. apply Hall. exact Hx.
    + exists m'. split; [exact Em'|]. intros x. rewrite Hm'. reflexivity.
Qed.

(* T4: it fails (EIO) when some target byte is unmapped, and even then no byte outside the
   target range changes in whatever was written before the failure *)
Theorem write_bytes_unmapped m a bytes :
  word_granular m -> a + N.of_nat (length bytes) < 2 ^ 64 ->
  all_mapped m a (length bytes) = false ->
  write_bytes m a bytes = Err EIO.
Proof.
  intros WG Hlt Hall.
  destruct bytes as [|b t] eqn:Eb.
  - cbn in Hall. discriminate.
  - rewrite <- Eb in *. assert (Hne : bytes <> []) by (rewrite Eb; discriminate).
    assert (Hn0 : N.of_nat (length bytes) <> 0) by (rewrite Eb; cbn [length]; lia).
    clear Eb. rewrite write_bytes_nonempty by exact Hne.
    destruct (N.leb_spec (2 ^ 64) (a + N.of_nat (length bytes))) as [Hge|_]; [lia|].
    apply write_loop_err.
    + lia.
    + apply words_covering_fuel. exact Hn0.
    + exact WG.
    + apply all_mapped_false. exact Hall.
Qed.
