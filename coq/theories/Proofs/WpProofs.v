From BS Require Import Model.Base Gen.Dr Model.Dr Model.Wp Spec.DrArch Proofs.DrProofs.
From Coq Require Import Lia.
Open Scope N_scope.

Definition hw_ok (h : hw) : Prop :=
  length (h_regs h) = 4%nat /\ (forall r, valid_r r -> gbit (h_dr7 h) r = false)
  /\ le_bit (h_dr7 h) = any_local (h_dr7 h).
Definition same_view (h1 h2 : hw) : Prop := forall r, valid_r r -> slot_view h1 r = slot_view h2 r.
Definition wp_ok (w : wp) : Prop :=
  valid_cond (w_cond w) /\ valid_size (w_size w) /\ match w_reg w with Some r => valid_r r | None => True end.
Definition regs_of (l : list wp) : list N := filter_map w_reg l.

Record Inv (s : st) : Prop := {
  i_main : threads s <> [];
  i_thr : forall t h, In (t, h) (threads s) -> hw_ok h /\ same_view h (main_hw s);
  i_act : forall r, valid_r r -> slot_view (main_hw s) r = active_slot s r;
  i_wps : Forall wp_ok (wps s);
  i_uniq : NoDup (regs_of (wps s));
  i_last : match last_seen s with
           | Some h => hw_ok h /\ same_view h (main_hw s)
           | None => forall r, valid_r r -> slot_view (main_hw s) r = None
           end
}.

Definition valid_op (o : wop) : Prop :=
  match o with
  | WAddAddr _ sz c | WAddExpr _ sz c _ => valid_size sz /\ valid_cond c
  | _ => True
  end.

Lemma hw_eta h : h = mk_hw (h_regs h) (h_dr6 h) (h_dr7 h).
Proof. destruct h; reflexivity. Qed.

Lemma hw_zero_ok : hw_ok hw_zero.
Proof. split; [reflexivity|]. split; [intros r Hr; cases_r Hr; reflexivity | reflexivity]. Qed.

Lemma hw_zero_view r : valid_r r -> slot_view hw_zero r = None.
Proof. intros Hr; cases_r Hr; reflexivity. Qed.

Lemma inv_init m : Inv (st_init m).
Proof.
  split; cbn.
  - discriminate.
  - intros t h [H|[]]. inversion H; subst. split; [apply hw_zero_ok | intros r _; reflexivity].
  - intros r Hr. apply hw_zero_view, Hr.
  - constructor.
  - constructor.
  - intros r Hr. apply hw_zero_view, Hr.
Qed.

Lemma main_sync_all s h : threads s <> [] -> main_hw (sync_all s h) = h.
Proof. unfold main_hw, sync_all; cbn. destruct (threads s) as [|[t0 h0] rest]; [congruence|]. reflexivity. Qed.

Lemma in_sync_all s h t h' : In (t, h') (threads (sync_all s h)) -> h' = h.
Proof. cbn. rewrite in_map_iff. intros [[t0 h0] [E _]]. inversion E; reflexivity. Qed.

Lemma has_reg_spec r w : has_reg r w = true <-> w_reg w = Some r.
Proof.
  unfold has_reg. destruct (w_reg w) as [r'|]; [|split; discriminate].
  rewrite N.eqb_eq. split; [intros ->; reflexivity | intros H; inversion H; reflexivity].
Qed.

Lemma active_slot_none_notin s r : active_slot s r = None -> ~ In r (regs_of (wps s)).
Proof.
  unfold active_slot. intros H Hin.
  destruct (find (has_reg r) (wps s)) eqn:E; [discriminate|].
  unfold regs_of in Hin. induction (wps s) as [|w l IH]; cbn in *; [contradiction|].
  destruct (has_reg r w) eqn:Hw; [discriminate|].
  destruct (w_reg w) as [r'|] eqn:Er.
  - destruct Hin as [->|Hin]; [|auto].
    assert (has_reg r w = true) by (apply has_reg_spec; exact Er). congruence.
  - auto.
Qed.

Lemma find_app_none {A} (p : A -> bool) l1 l2 : find p l1 = None -> find p (l1 ++ l2) = find p l2.
Proof. induction l1 as [|x t IH]; cbn; [reflexivity|]. destruct (p x); [discriminate | exact IH]. Qed.

Lemma find_app_some {A} (p : A -> bool) l1 l2 x : find p l1 = Some x -> find p (l1 ++ l2) = Some x.
Proof. induction l1 as [|y t IH]; cbn; [discriminate|]. destruct (p y); [auto | exact IH]. Qed.

Lemma regs_of_app l1 l2 : regs_of (l1 ++ l2) = regs_of l1 ++ regs_of l2.
Proof.
  unfold regs_of. induction l1 as [|w t IH]; cbn; [reflexivity|].
  destruct (w_reg w); cbn; rewrite IH; reflexivity.
Qed.

Lemma NoDup_app_snoc {A} (l : list A) x : NoDup l -> ~ In x l -> NoDup (l ++ [x]).
Proof.
  induction l as [|y t IH]; cbn; intros Hn Hx; [constructor; [intros []|constructor]|].
  inversion Hn; subst. constructor.
  - rewrite in_app_iff. cbn. intros [H|[H|[]]]; [contradiction | subst; tauto].
  - apply IH; tauto.
Qed.

Lemma set_nth_length l i v : length (set_nth l i v) = length l.
Proof. revert i; induction l as [|x t IH]; intros i; [destruct i; reflexivity|]. destruct i; cbn; [reflexivity|]. rewrite IH; reflexivity. Qed.

(* ---- hardware enable ---- *)
Lemma hw_enable_spec s a sz c s1 h r :
  Inv s -> valid_size sz -> valid_cond c -> hw_enable s a sz c = Ok (s1, h, r) ->
  s1 = sync_all s h /\ hw_ok h /\ valid_r r /\ slot_view (main_hw s) r = None
  /\ slot_view h r = Some (a, c, sz)
  /\ (forall r', valid_r r' -> r' <> r -> slot_view h r' = slot_view (main_hw s) r').
Proof.
  intros I Hs Hc. unfold hw_enable.
  destruct (free_register (h_dr7 (main_hw s))) as [r0|] eqn:Ef; [|discriminate].
  remember (set_dr (configure_bp (h_dr7 (main_hw s)) r0 c sz) r0 false true) as d7' eqn:Ed.
  intros H; injection H as E1 E2 E3; subst s1 h r0. subst d7'.
  destruct (free_register_spec _ _ Ef) as [Hr Hdis].
  assert (Hm : hw_ok (main_hw s) ).
  { destruct (threads s) as [|[t0 h0] rest] eqn:Et; [destruct (i_main _ I Et)|].
    unfold main_hw; rewrite Et. apply (i_thr _ I t0 h0). rewrite Et; left; reflexivity. }
  destruct Hm as [Hl [Hg Hle]].
  split; [reflexivity|]. split.
  - split; cbn [h_regs h_dr7].
    + rewrite set_nth_length. exact Hl.
    + split.
      * intros r' Hr'. rewrite enable_gbit by assumption. apply Hg, Hr'.
      * destruct (enable_le (h_dr7 (main_hw s)) r c sz Hr Hc Hs) as [E1 E2]. rewrite E1, E2; reflexivity.
  - split; [exact Hr|]. split.
    + unfold slot_view. rewrite Hdis. reflexivity.
    + split.
      * apply enable_view_same; assumption.
      * intros r' Hr' Hne. rewrite (hw_eta (main_hw s)) at 3.
        apply enable_view_other; auto.
Qed.

Lemma active_slot_app_new (l : list wp) a sz c r cmp n r' :
  ~ In r (regs_of l) ->
  find (has_reg r') (l ++ [mk_wp n a sz c (Some r) cmp]) =
  if r =? r' then Some (mk_wp n a sz c (Some r) cmp) else find (has_reg r') l.
Proof.
  intros Hn. destruct (N.eqb_spec r r') as [<-|Hne].
  - rewrite find_app_none.
    + cbn. unfold has_reg; cbn. rewrite N.eqb_refl. reflexivity.
    + induction l as [|w t IH]; cbn; [reflexivity|].
      unfold regs_of in Hn; cbn in Hn.
      destruct (has_reg r w) eqn:Hw.
      * apply has_reg_spec in Hw. rewrite Hw in Hn. cbn in Hn. tauto.
      * apply IH. destruct (w_reg w); cbn in Hn; tauto.
  - destruct (find (has_reg r') l) eqn:E.
    + apply find_app_some; exact E.
    + rewrite find_app_none by exact E. cbn. unfold has_reg; cbn.
      destruct (N.eqb_spec r r'); [congruence|reflexivity].
Qed.

Lemma inv_after_enable s a sz c s1 h r cmp :
  Inv s -> valid_size sz -> valid_cond c -> hw_enable s a sz c = Ok (s1, h, r) ->
  Inv (with_wps s1 (wps s1 ++ [mk_wp (wp_counter s1) a sz c (Some r) cmp]) (Some h) (wp_counter s1 + 1)).
Proof.
  intros I Hs Hc He.
  destruct (hw_enable_spec _ _ _ _ _ _ _ I Hs Hc He) as [-> [Hok [Hr [Hnone [Hsame Hother]]]]].
  pose proof (i_main _ I) as Hne.
  assert (Hnotin : ~ In r (regs_of (wps s))).
  { apply active_slot_none_notin. rewrite <- (i_act _ I r Hr). exact Hnone. }
  split; cbn [threads wps last_seen with_wps sync_all].
  - intros H. apply map_eq_nil in H. contradiction.
  - intros t h' Hin. apply (in_sync_all s h) in Hin. subst h'.
    change (main_hw _) with (main_hw (sync_all s h)). rewrite main_sync_all by exact Hne.
    split; [exact Hok | intros r' _; reflexivity].
  - intros r' Hr'. change (main_hw _) with (main_hw (sync_all s h)). rewrite main_sync_all by exact Hne.
    unfold active_slot, with_wps; cbn [wps sync_all]. rewrite active_slot_app_new by exact Hnotin.
    destruct (N.eqb_spec r r') as [<-|Hd].
    + rewrite Hsame. reflexivity.
    + rewrite Hother by auto. rewrite (i_act _ I r' Hr'). reflexivity.
  - apply Forall_app. split; [apply (i_wps _ I)|]. constructor; [|constructor]. repeat split; assumption.
  - rewrite regs_of_app. cbn. apply NoDup_app_snoc; [apply (i_uniq _ I) | exact Hnotin].
  - change (main_hw _) with (main_hw (sync_all s h)). rewrite main_sync_all by exact Hne.
    split; [exact Hok | intros r' _; reflexivity].
Qed.

(* Inv does not mention the companion list nor the counters *)
Lemma inv_irrelevant s wc bc cs :
  Inv s -> Inv (mk_st (threads s) (wps s) (last_seen s) wc bc cs).
Proof. intros I. destruct I. split; assumption. Qed.

Lemma inv_add_addr s a sz c s' :
  Inv s -> valid_size sz -> valid_cond c -> add_addr s a sz c = Ok s' -> Inv s'.
Proof.
  intros I Hs Hc. unfold add_addr. destruct (already_observed s a); [discriminate|].
  destruct (hw_enable s a sz c) as [[[s1 h] r]| | |] eqn:He; cbn [bind]; try discriminate.
  intros H; injection H as <-. eapply inv_after_enable; eassumption.
Qed.

Lemma add_companion_shape s e n :
  exists bc cs, fst (add_companion s e n) = mk_st (threads s) (wps s) (last_seen s) (wp_counter s) bc cs.
Proof.
  unfold add_companion.
  match goal with |- context [find ?f ?l] => destruct (find f l) as [[[a0 n0] nums]|] end; cbn; do 2 eexists; reflexivity.
Qed.

Lemma decrease_rc_shape s b n :
  exists cs, decrease_rc s b n = mk_st (threads s) (wps s) (last_seen s) (wp_counter s) (bp_counter s) cs.
Proof.
  unfold decrease_rc.
  match goal with |- context [find ?f ?l] => destruct (find f l) as [[[a0 n0] nums]|] end.
  - eexists; reflexivity.
  - exists (comps s). destruct s; reflexivity.
Qed.

Lemma add_expr_prepare_shape s e :
  exists bc cs, fst (add_expr_prepare s e) = mk_st (threads s) (wps s) (last_seen s) (wp_counter s) bc cs.
Proof.
  unfold add_expr_prepare. destruct e as [e|].
  - destruct (add_companion_shape s e (wp_counter s)) as [bc [cs H]].
    destruct (add_companion s e (wp_counter s)) as [s' n]. cbn in *. eauto.
  - exists (bp_counter s), (comps s). destruct s; reflexivity.
Qed.

Lemma inv_add_expr s a sz c e s' :
  Inv s -> valid_size sz -> valid_cond c -> add_expr s a sz c e = Ok s' -> Inv s'.
Proof.
  intros I Hs Hc. unfold add_expr. destruct (already_observed s a); [discriminate|].
  destruct (add_expr_prepare_shape s e) as [bc [cs Hshape]].
  destruct (add_expr_prepare s e) as [s0 companion]. cbn in Hshape.
  assert (I0 : Inv s0) by (subst s0; apply inv_irrelevant, I).
  destruct (hw_enable s0 a sz c) as [[[s1 h] r]| | |] eqn:He; try discriminate.
  intros H; injection H as <-. eapply inv_after_enable; eassumption.
Qed.

(* a refused expression watchpoint changes nothing but the companion bookkeeping
   (the breakpoint number it consumed, the order of the companion list) *)
Lemma add_expr_error_frame s a sz c e :
  let s' := add_expr_state_on_error s a sz c e in
  threads s' = threads s /\ wps s' = wps s /\ last_seen s' = last_seen s /\ wp_counter s' = wp_counter s.
Proof.
  unfold add_expr_state_on_error. destruct (already_observed s a); [repeat split|].
  destruct (add_expr_prepare_shape s e) as [bc [cs Hshape]].
  destruct (add_expr_prepare s e) as [s0 companion]. cbn in Hshape. subst s0.
  unfold add_expr_rollback. destruct companion as [b|]; [|repeat split].
  match goal with |- context [decrease_rc ?x ?y ?z] => destruct (decrease_rc_shape x y z) as [cs' ->] end.
  repeat split.
Qed.

Lemma inv_add_expr_error s a sz c e : Inv s -> Inv (add_expr_state_on_error s a sz c e).
Proof.
  intros I. destruct (add_expr_error_frame s a sz c e) as [H1 [H2 [H3 H4]]].
  destruct I. split; rewrite ?H1, ?H2, ?H3; try assumption.
  - unfold main_hw in *. rewrite H1. assumption.
  - unfold main_hw, active_slot in *. rewrite H1, H2. assumption.
  - unfold main_hw in *. rewrite H1. assumption.
Qed.

(* ---- removal ---- *)
Lemma find_remove_nth {A} (p : A -> bool) l i x :
  nth_error l i = Some x -> p x = false -> find p (firstn i l ++ skipn (S i) l) = find p l.
Proof.
  revert i; induction l as [|y t IH]; intros i; [destruct i; discriminate|].
  destruct i; cbn.
  - intros H Hp; inversion H; subst. rewrite Hp. reflexivity.
  - intros H Hp. destruct (p y); [reflexivity|]. apply IH; assumption.
Qed.

Lemma regs_of_remove_nth l i w r :
  nth_error l i = Some w -> w_reg w = Some r -> NoDup (regs_of l) ->
  ~ In r (regs_of (firstn i l ++ skipn (S i) l)) /\ NoDup (regs_of (firstn i l ++ skipn (S i) l)).
Proof.
  revert i; induction l as [|y t IH]; intros i; [destruct i; discriminate|].
  unfold regs_of in *. destruct i; cbn.
  - intros H Hr Hn; inversion H; subst. rewrite Hr in Hn. inversion Hn; subst. auto.
  - intros H Hr Hn. destruct (w_reg y) as [ry|] eqn:Ey; cbn.
    + inversion Hn; subst. destruct (IH i H Hr H3) as [Hnot Hnd]. split.
      * intros [->|Hin]; [|contradiction].
        apply H2. clear -H Hr. revert i H; induction t as [|z u IHu]; intros i H; [destruct i; discriminate|].
        destruct i; cbn in *; [inversion H; subst; rewrite Hr; left; reflexivity|].
        destruct (w_reg z); [right|]; eapply IHu; eassumption.
      * constructor; [|exact Hnd]. intros Hin. apply H2.
        clear -Hin. revert i Hin; induction t as [|z u IHu]; intros i Hin; [destruct i; cbn in Hin; contradiction|].
        destruct i; cbn in *.
        -- destruct (w_reg z); [right|]; exact Hin.
        -- destruct (w_reg z); cbn in *; [destruct Hin as [->|Hin]; [left; reflexivity | right; eapply IHu; exact Hin] | eapply IHu; exact Hin].
    + apply IH; assumption.
Qed.

Lemma Forall_firstn {A} (P : A -> Prop) l i : Forall P l -> Forall P (firstn i l).
Proof. revert i; induction l as [|x t IH]; intros i H; destruct i; cbn; try constructor; inversion H; subst; auto. Qed.
Lemma Forall_skipn {A} (P : A -> Prop) l i : Forall P l -> Forall P (skipn i l).
Proof. revert i; induction l as [|x t IH]; intros i H; destruct i; cbn; auto. inversion H; subst; auto. Qed.
Lemma Forall_remove_nth {A} (P : A -> Prop) l i : Forall P l -> Forall P (firstn i l ++ skipn (S i) l).
Proof. intros H. apply Forall_app. split; [apply Forall_firstn | apply Forall_skipn]; exact H. Qed.

Lemma in_regs_of l w r : In w l -> w_reg w = Some r -> In r (regs_of l).
Proof.
  unfold regs_of. induction l as [|z u IHu]; [contradiction|]. cbn. intros [E|Hin] Hh.
  - rewrite E, Hh; left; reflexivity.
  - destruct (w_reg z); [right|]; auto.
Qed.


Lemma inv_remove_at s i s' : Inv s -> remove_at s i = Ok s' -> Inv s'.
Proof.
  intros I. unfold remove_at. destruct (nth_error (wps s) i) as [w|] eqn:En; [|discriminate].
  set (l' := firstn i (wps s) ++ skipn (S i) (wps s)).
  unfold hw_disable. destruct (w_reg w) as [r|] eqn:Er; cbn [bind]; [|discriminate].
  set (s0 := with_wps s l' (last_seen s) (wp_counter s)).
  assert (Hmain0 : main_hw s0 = main_hw s) by reflexivity. rewrite Hmain0.
  fold (disabled_d7 (h_dr7 (main_hw s)) r).
  remember (disabled_d7 (h_dr7 (main_hw s)) r) as d7' eqn:Ed.
  set (h := mk_hw (set_nth (h_regs (main_hw s)) (N.to_nat r) 0) (h_dr6 (main_hw s)) d7').
  assert (Hw : wp_ok w).
  { pose proof (i_wps _ I) as F. rewrite Forall_forall in F. apply F. eapply nth_error_In; exact En. }
  assert (Hr : valid_r r) by (destruct Hw as [_ [_ Hw]]; rewrite Er in Hw; exact Hw).
  pose proof (i_main _ I) as Hne.
  assert (Hm : hw_ok (main_hw s)).
  { destruct (threads s) as [|[t0 h0] rest] eqn:Et; [destruct (Hne eq_refl)|].
    unfold main_hw; rewrite Et. apply (i_thr _ I t0 h0). rewrite Et; left; reflexivity. }
  destruct Hm as [Hl [Hg Hle]].
  assert (Hok : hw_ok h).
  { subst h d7'. split; [cbn [h_regs]; rewrite set_nth_length; exact Hl|]. split; cbn [h_dr7].
    - intros r' Hr'. rewrite disable_gbit by assumption. apply Hg, Hr'.
    - apply disable_le; assumption. }
  assert (Hsame : slot_view h r = None) by (subst h d7'; apply disable_view_same, Hr).
  assert (Hother : forall r', valid_r r' -> r' <> r -> slot_view h r' = slot_view (main_hw s) r').
  { intros r' Hr' Hd. subst h d7'. rewrite (hw_eta (main_hw s)) at 4. apply disable_view_other; auto. }
  destruct (regs_of_remove_nth _ _ _ _ En Er (i_uniq _ I)) as [Hnotin Hnd].
  assert (Hfin : Inv (with_wps (sync_all s0 h) l' (Some h) (wp_counter s))).
  { split; cbn [threads wps last_seen with_wps sync_all s0].
    - intros H. apply map_eq_nil in H. contradiction.
    - intros t h' Hin. rewrite in_map_iff in Hin. destruct Hin as [[t0 h0] [E _]]. inversion E; subst h'.
      change (main_hw _) with (main_hw (sync_all s h)). rewrite main_sync_all by exact Hne.
      split; [exact Hok | intros r' _; reflexivity].
    - intros r' Hr'. change (main_hw _) with (main_hw (sync_all s h)). rewrite main_sync_all by exact Hne.
      unfold active_slot, with_wps; cbn [wps].
      destruct (N.eq_dec r' r) as [->|Hd].
      + rewrite Hsame. destruct (find (has_reg r) l') as [w'|] eqn:Ef; [|reflexivity].
        exfalso. apply Hnotin. apply find_some in Ef. destruct Ef as [Hin Hh]. apply has_reg_spec in Hh.
        eapply in_regs_of; eassumption.
      + rewrite Hother by assumption. rewrite (i_act _ I r' Hr'). unfold active_slot.
        unfold l'. rewrite (find_remove_nth _ _ _ _ En); [reflexivity|].
        unfold has_reg. rewrite Er. destruct (N.eqb_spec r r'); [congruence|reflexivity].
    - apply Forall_remove_nth, (i_wps _ I).
    - exact Hnd.
    - change (main_hw _) with (main_hw (sync_all s h)). rewrite main_sync_all by exact Hne.
      split; [exact Hok | intros r' _; reflexivity]. }
  destruct (w_companion w) as [b|].
  - destruct (decrease_rc_shape (sync_all s0 h) b (w_num w)) as [cs ->].
    intros H; injection H as <-. cbn [threads wps last_seen wp_counter with_wps].
    apply (inv_irrelevant _ (wp_counter s) (bp_counter s) cs) in Hfin. exact Hfin.
  - intros H; injection H as <-. exact Hfin.
Qed.

Lemma inv_new_thread s t : Inv s -> Inv (new_thread s t).
Proof.
  intros I. pose proof (i_main _ I) as Hne.
  assert (Hmain : main_hw (new_thread s t) = main_hw s).
  { unfold main_hw, new_thread; cbn [threads]. destruct (threads s); [congruence|reflexivity]. }
  split; try rewrite Hmain; cbn [threads wps last_seen new_thread].
  - intros H. apply app_eq_nil in H. destruct H; discriminate.
  - intros t' h' Hin. apply in_app_or in Hin. destruct Hin as [Hin|[E|[]]]; [apply (i_thr _ I _ _ Hin)|].
    inversion E; subst. pose proof (i_last _ I) as L. destruct (last_seen s) as [h|]; [exact L|].
    split; [apply hw_zero_ok|]. intros r Hr. rewrite hw_zero_view, L by exact Hr. reflexivity.
  - apply (i_act _ I).
  - apply (i_wps _ I).
  - apply (i_uniq _ I).
  - apply (i_last _ I).
Qed.

Lemma inv_exit_thread s t : Inv s -> Inv (exit_thread s t).
Proof.
  intros I. unfold exit_thread. destruct (threads s) as [|m rest] eqn:Et; [exact I|].
  assert (Hmain : main_hw (mk_st (m :: filter (fun th => negb (fst th =? t)) rest) (wps s) (last_seen s)
                                 (wp_counter s) (bp_counter s) (comps s)) = main_hw s).
  { unfold main_hw; cbn [threads]. rewrite Et. reflexivity. }
  split; try rewrite Hmain; cbn [threads wps last_seen].
  - discriminate.
  - intros t' h' Hin. apply (i_thr _ I t' h'). rewrite Et. destruct Hin as [E|Hin]; [left; exact E|].
    right. apply filter_In in Hin. tauto.
  - apply (i_act _ I).
  - apply (i_wps _ I).
  - apply (i_uniq _ I).
  - apply (i_last _ I).
Qed.

Lemma inv_wstep s o : Inv s -> valid_op o -> Inv (fst (wstep s o)).
Proof.
  intros I V. destruct o; cbn [wstep valid_op] in *.
  - destruct V as [Hs Hc]. destruct (add_addr s addr size cond) eqn:E; cbn [fst]; try exact I.
    eapply inv_add_addr; eassumption.
  - destruct V as [Hs Hc]. destruct (add_expr s addr size cond scope_end) eqn:E; cbn [fst];
      try (apply inv_add_expr_error; exact I). eapply inv_add_expr; eassumption.
  - unfold remove_by_num. destruct (position _ (wps s)) as [i|]; [|exact I].
    destruct (remove_at s i) eqn:E; cbn [fst]; try exact I. eapply inv_remove_at; eassumption.
  - unfold remove_by_addr. destruct (position _ (wps s)) as [i|]; [|exact I].
    destruct (remove_at s i) eqn:E; cbn [fst]; try exact I. eapply inv_remove_at; eassumption.
  - apply inv_new_thread, I.
  - apply inv_exit_thread, I.
Qed.

Theorem inv_wrun ops s : Inv s -> Forall valid_op ops -> Inv (wrun ops s).
Proof.
  revert s; induction ops as [|o t IH]; intros s I V; [exact I|].
  inversion V; subst. cbn [wrun fold_left]. apply IH; [apply inv_wstep; assumption | assumption].
Qed.

(* ---- the statements of the property ---- *)
Definition active_hwbp (s : st) (r : N) : option hwbp := option_map hwbp_of (active_slot s r).

Theorem every_thread_decodes_to_active_set ops m t h r :
  Forall valid_op ops -> In (t, h) (threads (wrun ops (st_init m))) -> valid_r r ->
  arch_slot (h_regs h) (h_dr7 h) r = active_hwbp (wrun ops (st_init m)) r.
Proof.
  intros V Hin Hr. pose proof (inv_wrun ops _ (inv_init m) V) as I.
  destruct (i_thr _ I t h Hin) as [[Hl [Hg Hle]] Hsame].
  rewrite (arch_slot_view (h_regs h) (h_dr6 h)) by auto. rewrite <- hw_eta.
  unfold active_hwbp. rewrite Hsame by exact Hr. rewrite (i_act _ I r Hr). reflexivity.
Qed.

(* at most four, one per register *)
Theorem active_regs_distinct ops m :
  Forall valid_op ops -> NoDup (regs_of (wps (wrun ops (st_init m)))) /\
  Forall valid_r (regs_of (wps (wrun ops (st_init m)))).
Proof.
  intros V. pose proof (inv_wrun ops _ (inv_init m) V) as I. split; [apply (i_uniq _ I)|].
  pose proof (i_wps _ I) as F. unfold regs_of. induction (wps (wrun ops (st_init m))) as [|w l IH]; cbn; [constructor|].
  inversion F; subst. destruct (w_reg w) as [r|] eqn:E; [constructor|]; auto.
  destruct H1 as [_ [_ H1]]. rewrite E in H1. exact H1.
Qed.

Lemma nodup_valid_le4 l : NoDup l -> Forall valid_r l -> (length l <= 4)%nat.
Proof.
  intros Hn Hv. apply (NoDup_incl_length Hn (l' := [0; 1; 2; 3])).
  intros x Hx. rewrite Forall_forall in Hv. specialize (Hv x Hx). cases_r Hv; cbn; auto.
Qed.

Theorem at_most_four ops m :
  Forall valid_op ops -> (length (regs_of (wps (wrun ops (st_init m)))) <= 4)%nat.
Proof. intros V. destruct (active_regs_distinct ops m V). apply nodup_valid_le4; assumption. Qed.

(* a fifth address watchpoint is refused and nothing changes *)
Theorem fifth_addr_refused s a sz c :
  free_register (h_dr7 (main_hw s)) = None -> wstep s (WAddAddr a sz c) = (s, 11) \/ wstep s (WAddAddr a sz c) = (s, 12).
Proof.
  intros Hf. cbn [wstep]. unfold add_addr. destruct (already_observed s a); [right; reflexivity|].
  unfold hw_enable. rewrite Hf. left; reflexivity.
Qed.

(* a second watchpoint on an address already watched is refused and nothing changes *)
Theorem same_address_refused s a sz c :
  already_observed s a = true ->
  wstep s (WAddAddr a sz c) = (s, 12) /\ forall e, wstep s (WAddExpr a sz c e) = (s, 12).
Proof.
  intros H. cbn [wstep]. unfold add_addr, add_expr, add_expr_state_on_error. rewrite H. split; [reflexivity|]. intros e. reflexivity.
Qed.

(* while fewer than four are active a new address is accepted: freed slots are reusable *)
Theorem slot_available_accepts s a sz c r :
  free_register (h_dr7 (main_hw s)) = Some r -> already_observed s a = false ->
  snd (wstep s (WAddAddr a sz c)) = 0.
Proof.
  intros Hf Ho. cbn [wstep]. unfold add_addr. rewrite Ho. unfold hw_enable. rewrite Hf. reflexivity.
Qed.

(* a refused expression watchpoint (fifth, or same address) leaves threads, registry and
   numbering untouched, and its companion breakpoint is not left behind *)
Theorem refused_expr_no_side_effects s a sz c e code :
  wstep s (WAddExpr a sz c e) = (fst (wstep s (WAddExpr a sz c e)), code) -> code <> 0 ->
  let s' := fst (wstep s (WAddExpr a sz c e)) in
  threads s' = threads s /\ wps s' = wps s /\ last_seen s' = last_seen s /\ wp_counter s' = wp_counter s.
Proof.
  cbn [wstep]. destruct (add_expr s a sz c e) eqn:E; cbn [fst snd]; intros H Hc.
  - injection H as <-. congruence.
  - apply add_expr_error_frame.
  - apply add_expr_error_frame.
  - apply add_expr_error_frame.
Qed.

(* the companion itself is gone: with no companion at that address before, none after *)
Definition fifth_expr_witness : st :=
  wrun [WAddAddr 4096 SIZE_Bytes8 COND_DataWrites; WAddAddr 4104 SIZE_Bytes8 COND_DataWrites;
        WAddAddr 4112 SIZE_Bytes8 COND_DataWrites; WAddAddr 4120 SIZE_Bytes8 COND_DataWrites] (st_init 100).
Example fifth_scoped_expr_leaves_no_companion :
  snd (wstep fifth_expr_witness (WAddExpr 8192 SIZE_Bytes4 COND_DataWrites (Some 20480))) = 11 /\
  comps (fst (wstep fifth_expr_witness (WAddExpr 8192 SIZE_Bytes4 COND_DataWrites (Some 20480)))) = [].
Proof. vm_compute. split; reflexivity. Qed.
