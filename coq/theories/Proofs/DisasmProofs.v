(* Proofs about Model/Disasm.v (C15: disassembly shows the original instructions). *)
From BS Require Import Model.Base Gen.Disasm Model.Disasm.
From Coq Require Import Lia.
Open Scope N_scope.

(* ---------- upd / set_byte ---------- *)
Lemma length_upd : forall l i x, length (upd i x l) = length l.
Proof.
  induction l as [|h t IH]; intros i x; destruct i; cbn [upd length]; auto.
Qed.

Lemma nth_upd_same : forall l i x d, (i < length l)%nat -> nth i (upd i x l) d = x.
Proof.
  induction l as [|h t IH]; intros i x d Hi; cbn [length] in Hi; [lia|].
  destruct i; cbn [upd nth]; [reflexivity|]. apply IH. lia.
Qed.

Lemma nth_upd_other : forall l i j x d, j <> i -> nth j (upd i x l) d = nth j l d.
Proof.
  induction l as [|h t IH]; intros i j x d Hne; destruct i; cbn [upd]; auto.
  - destruct j; [congruence|reflexivity].
  - destruct j; cbn [nth]; [reflexivity|]. apply IH. congruence.
Qed.

Lemma set_byte_in_range : forall i x l, (i < length l)%nat -> set_byte i x l = Ok (upd i x l).
Proof.
  intros i x l Hi. unfold set_byte. destruct (Nat.ltb_spec i (length l)); [reflexivity|lia].
Qed.

Lemma set_byte_out_of_range : forall i x l, (length l <= i)%nat -> set_byte i x l = Panic 15.
Proof.
  intros i x l Hi. unfold set_byte. destruct (Nat.ltb_spec i (length l)); [lia|reflexivity].
Qed.

Lemma mask_with_cons : forall sel base t bp bps,
  mask_with sel base t (bp :: bps) =
  match mask_step sel base (Ok t) bp with
  | Ok t' => mask_with sel base t' bps
  | other => fold_left (mask_step sel base) bps other
  end.
Proof.
  intros. unfold mask_with. cbn [fold_left]. destruct (mask_step sel base (Ok t) bp); reflexivity.
Qed.

Lemma fold_mask_not_ok : forall sel base bps (acc : res (list N)),
  is_ok acc = false -> fold_left (mask_step sel base) bps acc = acc.
Proof.
  induction bps as [|bp bps IH]; intros acc Hacc; cbn [fold_left]; [reflexivity|].
  destruct acc; cbn [is_ok] in Hacc; try discriminate; cbn [mask_step]; apply IH; reflexivity.
Qed.

(* ---------- the masking loop never panics when the selection keeps the index inside the buffer ---------- *)
Lemma mask_with_no_panic : forall sel base n,
  (forall a, sel a = true -> (N.to_nat (a - base) < n)%nat) ->
  forall bps t, length t = n -> exists t', mask_with sel base t bps = Ok t' /\ length t' = n.
Proof.
  intros sel base n Hsel. induction bps as [|[a sv] bps IH]; intros t Hlen.
  - exists t. split; [reflexivity|assumption].
  - rewrite mask_with_cons. cbn [mask_step fst snd]. destruct (sel a) eqn:Hs.
    + rewrite set_byte_in_range by (rewrite Hlen; apply Hsel; assumption).
      apply IH. rewrite length_upd. assumption.
    + apply IH. assumption.
Qed.

(* ---------- masking undoes the patches ---------- *)
Lemma mask_with_original : forall sel base image,
  (forall a, sel a = true -> (N.to_nat (a - base) < length image)%nat) ->
  forall bps t,
  length t = length image ->
  (forall a sv, In (a, sv) bps -> sel a = true -> sv = nth (N.to_nat (a - base)) image 0) ->
  (forall i, (i < length image)%nat -> nth i t 0 <> nth i image 0 ->
             exists a sv, In (a, sv) bps /\ sel a = true /\ N.to_nat (a - base) = i) ->
  mask_with sel base t bps = Ok image.
Proof.
  intros sel base image Hsel. induction bps as [|[a sv] bps IH]; intros t Hlen Hsaved Hcov.
  - unfold mask_with. cbn [fold_left]. f_equal.
    apply nth_ext with (d := 0) (d' := 0); [assumption|].
    intros i Hi. destruct (N.eq_dec (nth i t 0) (nth i image 0)) as [He|Hne]; [assumption|].
    destruct (Hcov i ltac:(lia) Hne) as (a & sv & Hin & _). destruct Hin.
  - rewrite mask_with_cons. cbn [mask_step fst snd]. destruct (sel a) eqn:Hs.
    + pose proof (Hsel a Hs) as Hidx.
      rewrite set_byte_in_range by lia.
      apply IH.
      * rewrite length_upd. assumption.
      * intros a' sv' Hin Hs'. apply Hsaved; [right; assumption|assumption].
      * intros i Hi Hne.
        destruct (Nat.eq_dec i (N.to_nat (a - base))) as [Heq|Hneq].
        -- exfalso. apply Hne. subst i. rewrite nth_upd_same by lia.
           apply Hsaved; [left; reflexivity|assumption].
        -- rewrite nth_upd_other in Hne by assumption.
           destruct (Hcov i Hi Hne) as (a' & sv' & [Hhd|Htl] & Hs' & Hi').
           ++ inversion Hhd; subst a' sv'. congruence.
           ++ exists a', sv'. auto.
    + apply IH; [assumption| |].
      * intros a' sv' Hin Hs'. apply Hsaved; [right; assumption|assumption].
      * intros i Hi Hne. destruct (Hcov i Hi Hne) as (a' & sv' & [Hhd|Htl] & Hs' & Hi').
        -- inversion Hhd; subst a' sv'. congruence.
        -- exists a', sv'. auto.
Qed.

(* ---------- the spec-side patch function ---------- *)
Lemma length_patch_one : forall base t a, length (patch_one base t a) = length t.
Proof.
  intros. unfold patch_one. destruct (_ && _); [apply length_upd|reflexivity].
Qed.

Lemma length_patched : forall base addrs image, length (patched base image addrs) = length image.
Proof.
  intros base. unfold patched. induction addrs as [|a addrs IH]; intros image; cbn [fold_left]; [reflexivity|].
  rewrite IH. apply length_patch_one.
Qed.

Lemma patched_diff : forall base addrs t i,
  nth i (fold_left (patch_one base) addrs t) 0 <> nth i t 0 ->
  exists a, In a addrs /\ base <= a /\ N.to_nat (a - base) = i /\ (i < length t)%nat.
Proof.
  intros base. induction addrs as [|a addrs IH]; intros t i Hne; cbn [fold_left] in Hne; [congruence|].
  destruct (N.eq_dec (nth i (fold_left (patch_one base) addrs (patch_one base t a)) 0) (nth i (patch_one base t a) 0)) as [He|Hd].
  - rewrite He in Hne. unfold patch_one in Hne.
    destruct ((base <=? a) && (a - base <? N.of_nat (length t))) eqn:Hc; [|congruence].
    apply andb_true_iff in Hc. destruct Hc as [H1 H2]. apply N.leb_le in H1. apply N.ltb_lt in H2.
    destruct (Nat.eq_dec i (N.to_nat (a - base))) as [Heq|Hneq].
    + exists a. repeat split; [left; reflexivity|assumption|congruence|lia].
    + rewrite nth_upd_other in Hne by assumption. congruence.
  - destruct (IH _ _ Hd) as (a' & Hin & Hb & Hi & Hl). rewrite length_patch_one in Hl.
    exists a'. repeat split; [right; assumption|assumption|assumption|assumption].
Qed.

(* ---------- disasm_function ---------- *)
Lemma bp_in_text_spec : forall a s e, bp_in_text a s e = true <-> s <= a /\ a < e.
Proof.
  intros. unfold bp_in_text. rewrite andb_true_iff, N.leb_le, N.ltb_lt. tauto.
Qed.

Lemma disasm_no_panic : forall s e text bps,
  s <= e -> length text = N.to_nat (e - s) -> exists t', mask_fn_text s e text bps = Ok t' /\ length t' = length text.
Proof.
  intros s e text bps Hse Hlen. unfold mask_fn_text, mask_fn_text_with.
  destruct (mask_with_no_panic (fun a => bp_in_text a s e) s (length text)) with (bps := bps) (t := text) as (t' & H1 & H2).
  - intros a Ha. apply bp_in_text_spec in Ha. lia.
  - reflexivity.
  - exists t'. auto.
Qed.

(* memory = image + trap bytes at [addrs]; the registry lists (at least) every patched address of the function with
   the image byte as saved byte: the text handed to the decoder is the image *)
Lemma disasm_original : forall s image addrs bps,
  (forall a sv, In (a, sv) bps -> s <= a -> a < s + N.of_nat (length image) -> sv = nth (N.to_nat (a - s)) image 0) ->
  (forall a, In a addrs -> s <= a -> a < s + N.of_nat (length image) -> exists sv, In (a, sv) bps) ->
  mask_fn_text s (s + N.of_nat (length image)) (patched s image addrs) bps = Ok image.
Proof.
  intros s image addrs bps Hsaved Hreg. unfold mask_fn_text, mask_fn_text_with.
  apply mask_with_original.
  - intros a Ha. apply bp_in_text_spec in Ha. lia.
  - apply length_patched.
  - intros a sv Hin Ha. apply bp_in_text_spec in Ha. apply Hsaved; tauto.
  - intros i Hi Hne. unfold patched in Hne.
    destruct (patched_diff _ _ _ _ Hne) as (a & Hin & Hb & Hidx & Hl).
    assert (Ha : a < s + N.of_nat (length image)) by lia.
    destruct (Hreg a Hin Hb Ha) as (sv & Hsv).
    exists a, sv. split; [assumption|]. split; [|assumption]. apply bp_in_text_spec. lia.
Qed.

Lemma disasm_end_panic_old :
  mask_fn_text_with bp_in_text_old 16 17 [INT3_BYTE] [(17, 85)] = Panic 15.
Proof. vm_compute. reflexivity. Qed.

(* ---------- read_original_code ---------- *)
Definition strip (bps : list (N * N * bool)) : list (N * N) :=
  map (fun x => (fst (fst x), snd (fst x))) (filter (fun x => snd x) bps).

Definition orig_step (addr : N) (acc : res (list N)) (bp : N * N * bool) : res (list N) :=
  match acc with
  | Ok t => let '(a, sv, en) := bp in
            if orig_in_range en a addr (N.of_nat (length t))
            then set_byte (N.to_nat (a - addr)) sv t else Ok t
  | other => other
  end.

Lemma orig_code_fold : forall addr bytes bps, orig_code addr bytes bps = fold_left (orig_step addr) bps (Ok bytes).
Proof. reflexivity. Qed.

Lemma orig_fold_is_mask : forall addr n bps (acc : res (list N)),
  (forall t, acc = Ok t -> length t = n) ->
  fold_left (orig_step addr) bps acc =
  fold_left (mask_step (fun a => (addr <=? a) && (a - addr <? N.of_nat n)) addr) (strip bps) acc.
Proof.
  intros addr n. induction bps as [|[[a sv] en] bps IH]; intros acc Hacc; [reflexivity|].
  cbn [fold_left]. unfold strip. cbn [filter snd].
  destruct acc as [t| | |].
  - pose proof (Hacc t eq_refl) as Hlen.
    cbn [orig_step]. unfold orig_in_range. rewrite Hlen.
    destruct en; cbn [andb map fold_left mask_step fst snd].
    + fold (strip bps).
      destruct ((addr <=? a) && (a - addr <? N.of_nat n)) eqn:Hc.
      * apply IH. intros t' Ht'. unfold set_byte in Ht'. destruct (Nat.ltb _ _); [|discriminate].
        inversion Ht'. rewrite length_upd. assumption.
      * apply IH. intros t' Ht'. inversion Ht'. subst t'. assumption.
    + fold (strip bps). apply IH. intros t' Ht'. inversion Ht'. subst t'. assumption.
  - cbn [orig_step]. destruct en; cbn [map fold_left mask_step]; fold (strip bps); apply IH; intros t' Ht'; discriminate.
  - cbn [orig_step]. destruct en; cbn [map fold_left mask_step]; fold (strip bps); apply IH; intros t' Ht'; discriminate.
  - cbn [orig_step]. destruct en; cbn [map fold_left mask_step]; fold (strip bps); apply IH; intros t' Ht'; discriminate.
Qed.

Lemma orig_code_is_mask : forall addr bytes bps,
  orig_code addr bytes bps =
  mask_with (fun a => (addr <=? a) && (a - addr <? N.of_nat (length bytes))) addr bytes (strip bps).
Proof.
  intros. rewrite orig_code_fold. unfold mask_with. apply orig_fold_is_mask.
  intros t Ht. inversion Ht. reflexivity.
Qed.

Lemma orig_sel_spec : forall addr n a,
  (addr <=? a) && (a - addr <? N.of_nat n) = true <-> addr <= a /\ a - addr < N.of_nat n.
Proof. intros. rewrite andb_true_iff, N.leb_le, N.ltb_lt. tauto. Qed.

Lemma read_original_no_panic : forall addr bytes bps,
  exists t', orig_code addr bytes bps = Ok t' /\ length t' = length bytes.
Proof.
  intros. rewrite orig_code_is_mask. apply mask_with_no_panic; [|reflexivity].
  intros a Ha. apply orig_sel_spec in Ha. lia.
Qed.

Lemma in_strip : forall bps a sv, In (a, sv) (strip bps) <-> In (a, sv, true) bps.
Proof.
  intros bps a sv. unfold strip. rewrite in_map_iff. split.
  - intros ([[a' sv'] en] & Heq & Hin). apply filter_In in Hin. destruct Hin as [Hin Hen].
    cbn [fst snd] in *. inversion Heq. subst. assumption.
  - intros Hin. exists (a, sv, true). split; [reflexivity|]. apply filter_In. split; [assumption|reflexivity].
Qed.

Lemma read_original_is_image : forall addr image addrs bps,
  (forall a sv, In (a, sv, true) bps -> addr <= a -> a - addr < N.of_nat (length image) -> sv = nth (N.to_nat (a - addr)) image 0) ->
  (forall a, In a addrs -> addr <= a -> a - addr < N.of_nat (length image) -> exists sv, In (a, sv, true) bps) ->
  orig_code addr (patched addr image addrs) bps = Ok image.
Proof.
  intros addr image addrs bps Hsaved Hreg. rewrite orig_code_is_mask. rewrite length_patched.
  apply mask_with_original.
  - intros a Ha. apply orig_sel_spec in Ha. lia.
  - apply length_patched.
  - intros a sv Hin Ha. apply orig_sel_spec in Ha. apply in_strip in Hin. apply Hsaved; tauto.
  - intros i Hi Hne. unfold patched in Hne.
    destruct (patched_diff _ _ _ _ Hne) as (a & Hin & Hb & Hidx & Hl).
    assert (Ha : a - addr < N.of_nat (length image)) by lia.
    destruct (Hreg a Hin Hb Ha) as (sv & Hsv).
    exists a, sv. split; [apply in_strip; assumption|]. split; [|assumption]. apply orig_sel_spec. lia.
Qed.

Lemma dap_reads_original_now : DAP_DISASM_READS_ORIGINAL = true.
Proof. reflexivity. Qed.

Lemma dap_disasm_original : forall addr image addrs bps,
  (forall a sv, In (a, sv, true) bps -> addr <= a -> a - addr < N.of_nat (length image) -> sv = nth (N.to_nat (a - addr)) image 0) ->
  (forall a, In a addrs -> addr <= a -> a - addr < N.of_nat (length image) -> exists sv, In (a, sv, true) bps) ->
  dap_disasm_text DAP_DISASM_READS_ORIGINAL addr (patched addr image addrs) bps = Ok image.
Proof.
  intros. rewrite dap_reads_original_now. cbn [dap_disasm_text]. apply read_original_is_image; assumption.
Qed.

Lemma dap_disasm_raw_old :
  exists addr image addrs bps t,
    dap_disasm_text false addr (patched addr image addrs) bps = Ok t /\ t <> image.
Proof.
  exists 4096, [85; 72; 137], [4096], [(4096, 85, true)], [INT3_BYTE; 72; 137].
  split; [vm_compute; reflexivity|]. intros H. inversion H.
Qed.

(* a non-trivial state meets the hypotheses of disasm_original / read_original_is_image *)
Example disasm_original_example :
  mask_fn_text 4096 (4096 + 3) (patched 4096 [85; 72; 137] [4096; 4098; 4099]) [(4098, 137); (4096, 85); (4099, 0); (5000, 7)]
  = Ok [85; 72; 137].
Proof. vm_compute. reflexivity. Qed.
