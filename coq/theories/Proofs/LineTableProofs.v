(* C04 - proofs about the look-ups of LineTable.v *)
From BS Require Import Model.Base.
From BS Require Import Model.LineTable.
From Coq Require Import Lia.

Local Open Scope N_scope.

Lemma half_facts : forall n, (2 <= n)%nat -> (1 <= n / 2 /\ n / 2 <= n - n / 2 /\ n / 2 < n)%nat.
Proof.
  intros n H. pose proof (Nat.div_mod n 2). pose proof (Nat.mod_upper_bound n 2).
  remember (n / 2)%nat as q. remember (n mod 2)%nat as m. lia.
Qed.

(* ------------------------------------------------------------------------------------------ *)
(* sortedness                                                                                 *)
(* ------------------------------------------------------------------------------------------ *)

Definition sorted_keys (l : list N) : Prop :=
  forall i j a b, (i <= j)%nat -> nth_error l i = Some a -> nth_error l j = Some b -> a <= b.

Fixpoint sorted_keysb (l : list N) : bool :=
  match l with
  | a :: ((b :: _) as t) => (a <=? b) && sorted_keysb t
  | _ => true
  end.

Lemma sorted_keysb_head : forall l a, sorted_keysb (a :: l) = true ->
  forall j b, nth_error l j = Some b -> a <= b.
Proof.
  induction l as [|x l IH]; intros a H j b Hj.
  - destruct j; discriminate.
  - cbn [sorted_keysb] in H. apply andb_true_iff in H. destruct H as [H1 H2].
    apply N.leb_le in H1. destruct j as [|j]; cbn [nth_error] in Hj.
    + inversion Hj; subst. exact H1.
    + specialize (IH x H2 j b Hj). lia.
Qed.

Lemma sorted_keysb_tail : forall l a, sorted_keysb (a :: l) = true -> sorted_keysb l = true.
Proof.
  intros [|x l] a H; [reflexivity|]. cbn [sorted_keysb] in H. apply andb_true_iff in H. tauto.
Qed.

Lemma sorted_keysb_ok : forall l, sorted_keysb l = true -> sorted_keys l.
Proof.
  induction l as [|x l IH]; intros H i j a b Hij Hi Hj.
  - destruct i; discriminate.
  - destruct i as [|i]; destruct j as [|j]; cbn [nth_error] in *.
    + inversion Hi; inversion Hj; subst. lia.
    + inversion Hi; subst. eapply sorted_keysb_head; eauto.
    + lia.
    + eapply (IH (sorted_keysb_tail _ _ H) i j); eauto. lia.
Qed.

(* ------------------------------------------------------------------------------------------ *)
(* binary_search_by_key                                                                       *)
(* ------------------------------------------------------------------------------------------ *)

(* what the final [base] of the halving loop is on a sorted slice: every key after it is greater
   than pc and, unless it is 0, its own key is <= pc: it is the LAST index whose key is <= pc *)
Definition base_post (keys : list N) (pc : N) (b : nat) : Prop :=
  (b < length keys)%nat /\
  (b = 0%nat \/ exists k, nth_error keys b = Some k /\ k <= pc) /\
  (forall j k, (b < j)%nat -> nth_error keys j = Some k -> pc < k).

Lemma bs_loop_ok : forall keys pc, sorted_keys keys ->
  forall fuel base size,
    (1 <= size)%nat -> (base + size <= length keys)%nat -> (size <= S fuel)%nat ->
    (base = 0%nat \/ exists k, nth_error keys base = Some k /\ k <= pc) ->
    (forall j k, (base + size <= j)%nat -> nth_error keys j = Some k -> pc < k) ->
    exists b, bs_loop fuel keys pc base size = Ok b /\ base_post keys pc b.
Proof.
  intros keys pc Hs. induction fuel as [|fuel IH]; intros base size H1 Hlen Hf Hlo Hhi.
  - assert (size = 1%nat) by lia. subst size. cbn [bs_loop Nat.leb]. exists base. split; [reflexivity|].
    repeat split; try lia; auto. intros j k Hj. apply Hhi. lia.
  - cbn [bs_loop]. destruct (Nat.leb_spec size 1) as [Hle|Hgt].
    + assert (size = 1%nat) by lia. subst size. exists base. split; [reflexivity|].
      repeat split; try lia; auto. intros j k Hj. apply Hhi. lia.
    + destruct (half_facts size) as [Hh1 [Hh2 Hh3]]; [lia|].
      remember (size / 2)%nat as half.
      destruct (nth_error keys (base + half)) as [k|] eqn:Hk.
      2:{ apply nth_error_None in Hk. lia. }
      destruct (N.ltb_spec pc k) as [Hlt|Hge].
      * apply IH; try lia; auto.
        intros j kj Hj Hkj. assert (k <= kj). { eapply (Hs (base + half)%nat j); eauto. lia. } lia.
      * apply IH; try lia.
        -- right. exists k. split; [assumption|lia].
        -- intros j kj Hj Hkj. apply (Hhi j kj); [lia|assumption].
Qed.

(* postcondition of binary_search_by_key on a sorted slice *)
Definition bs_post (keys : list N) (pc : N) (r : bsr) : Prop :=
  match r with
  | Found i => nth_error keys i = Some pc /\
               (forall j k, (i < j)%nat -> nth_error keys j = Some k -> pc < k)
  | NotFound p => (p <= length keys)%nat /\
                  (forall j k, (j < p)%nat -> nth_error keys j = Some k -> k < pc) /\
                  (forall j k, (p <= j)%nat -> nth_error keys j = Some k -> pc < k)
  end.

Lemma bsearch_nonempty : forall keys pc, keys <> [] ->
  bsearch keys pc =
  (base <- bs_loop (length keys) keys pc 0%nat (length keys) ;;
   match nth_error keys base with
   | None => Panic 1
   | Some k => if k =? pc then Ok (Found base)
               else let inc := if k <? pc then 1%nat else 0%nat in Ok (NotFound (base + inc)%nat)
   end).
Proof. intros [|k keys] pc H; [congruence|reflexivity]. Qed.

(* binary_search_by_key never panics, never runs out of fuel, and on equal keys returns the LAST *)
Theorem bsearch_ok : forall keys pc, sorted_keys keys ->
  exists r, bsearch keys pc = Ok r /\ bs_post keys pc r.
Proof.
  intros keys pc Hs. destruct keys as [|k0 keys'] eqn:Ek.
  - exists (NotFound 0). split; [reflexivity|]. cbn [bs_post length]. split; [lia|]. split.
    + intros j k Hj. exfalso. lia.
    + intros j k _ Hj. destruct j; discriminate.
  - rewrite <- Ek in *. rewrite bsearch_nonempty by (rewrite Ek; discriminate).
    destruct (bs_loop_ok keys pc Hs (length keys) 0%nat (length keys)) as [b [Hb [Hb1 [Hb2 Hb3]]]];
      try lia; auto.
    { subst keys. cbn [length]. lia. }
    { intros j k Hj Hk. assert (nth_error keys j = None) by (apply nth_error_None; lia). congruence. }
    rewrite Hb. cbn [bind].
    destruct (nth_error keys b) as [k|] eqn:Hk.
    2:{ apply nth_error_None in Hk. lia. }
    destruct (N.eqb_spec k pc) as [Heq|Hne].
    + subst k. exists (Found b). split; [reflexivity|]. split; assumption.
    + destruct (N.ltb_spec k pc) as [Hlt|Hge].
      * exists (NotFound (b + 1)). split; [reflexivity|]. cbn [bs_post]. repeat split; try lia.
        -- intros j kj Hj Hkj. assert (kj <= k). { eapply (Hs j b); eauto. lia. } lia.
        -- intros j kj Hj Hkj. apply (Hb3 j kj); [lia|assumption].
      * assert (b = 0%nat).
        { destruct Hb2 as [|[k' [Hk' Hle]]]; [assumption|]. inversion Hk'; subst. lia. }
        subst b. exists (NotFound (0 + 0)). split; [reflexivity|]. cbn [bs_post Nat.add]. repeat split; try lia.
        intros j kj _ Hkj. assert (k <= kj). { eapply (Hs 0%nat j); eauto. lia. } lia.
Qed.

(* without sortedness the search still terminates inside the slice *)
Lemma bs_loop_total : forall keys pc fuel base size,
  (1 <= size)%nat -> (base + size <= length keys)%nat -> (size <= S fuel)%nat ->
  exists b, bs_loop fuel keys pc base size = Ok b /\ (b < length keys)%nat.
Proof.
  intros keys pc. induction fuel as [|fuel IH]; intros base size H1 Hlen Hf.
  - assert (size = 1%nat) by lia. subst size. cbn [bs_loop Nat.leb]. exists base. split; [reflexivity|lia].
  - cbn [bs_loop]. destruct (Nat.leb_spec size 1) as [Hle|Hgt].
    + exists base. split; [reflexivity|lia].
    + destruct (half_facts size) as [Hh1 [Hh2 Hh3]]; [lia|].
      remember (size / 2)%nat as half.
      destruct (nth_error keys (base + half)) as [k|] eqn:Hk.
      2:{ apply nth_error_None in Hk. lia. }
      destruct (pc <? k); apply IH; lia.
Qed.

Theorem bsearch_total : forall keys pc,
  exists r, bsearch keys pc = Ok r /\
            match r with Found i => (i < length keys)%nat | NotFound p => (p <= length keys)%nat end.
Proof.
  intros keys pc. destruct keys as [|k0 keys'] eqn:Ek.
  - exists (NotFound 0). split; [reflexivity|]. cbn. lia.
  - rewrite <- Ek in *. rewrite bsearch_nonempty by (rewrite Ek; discriminate).
    destruct (bs_loop_total keys pc (length keys) 0%nat (length keys)) as [b [Hb Hb1]]; try lia.
    { subst keys. cbn [length]. lia. }
    rewrite Hb. cbn [bind]. destruct (nth_error keys b) as [k|] eqn:Hk.
    2:{ apply nth_error_None in Hk. lia. }
    destruct (k =? pc).
    + exists (Found b). split; [reflexivity|assumption].
    + eexists. split; [reflexivity|]. cbn. destruct (k <? pc); lia.
Qed.

(* ------------------------------------------------------------------------------------------ *)
(* pc -> row                                                                                  *)
(* ------------------------------------------------------------------------------------------ *)

Definition sorted_rows (rows : list row) : Prop := sorted_keys (map r_addr rows).
Definition sorted_rowsb (rows : list row) : bool := sorted_keysb (map r_addr rows).
Definition files_ok (u : unit) : Prop := forall r, In r (u_rows u) -> r_file r < u_nfiles u.
Definition files_okb (u : unit) : bool := forallb (fun r => r_file r <? u_nfiles u) (u_rows u).

Lemma sorted_rowsb_ok : forall rows, sorted_rowsb rows = true -> sorted_rows rows.
Proof. intros rows H. apply sorted_keysb_ok. exact H. Qed.

Lemma files_okb_ok : forall u, files_okb u = true -> files_ok u.
Proof.
  intros u H r Hr. unfold files_okb in H. rewrite forallb_forall in H. apply N.ltb_lt. apply H. exact Hr.
Qed.

Lemma nth_map : forall {A B} (f : A -> B) l i,
  nth_error (map f l) i = option_map f (nth_error l i).
Proof. induction l as [|x l IH]; intros [|i]; cbn; auto. Qed.

Lemma nth_map_some : forall {A B} (f : A -> B) l i b,
  nth_error (map f l) i = Some b -> exists a, nth_error l i = Some a /\ f a = b.
Proof.
  intros A B f l i b H. rewrite nth_map in H. destruct (nth_error l i) as [a|]; cbn in H; [|discriminate].
  inversion H. eauto.
Qed.

Lemma sorted_rows_le : forall rows i j a b, sorted_rows rows -> (i <= j)%nat ->
  nth_error rows i = Some a -> nth_error rows j = Some b -> r_addr a <= r_addr b.
Proof.
  intros rows i j a b Hs Hij Ha Hb. eapply (Hs i j); eauto; rewrite nth_map.
  - rewrite Ha. reflexivity.
  - rewrite Hb. reflexivity.
Qed.

Lemma row_eqb_eq : forall a b, row_eqb a b = true -> a = b.
Proof.
  intros [a1 a2 a3 a4 a5 a6 a7 a8] [b1 b2 b3 b4 b5 b6 b7 b8] H. unfold row_eqb in H. cbn in H.
  repeat (apply andb_true_iff in H; destruct H as [H ?]).
  repeat match goal with
         | E : (_ =? _) = true |- _ => apply N.eqb_eq in E
         | E : Bool.eqb _ _ = true |- _ => apply Bool.eqb_prop in E
         end.
  subst. reflexivity.
Qed.

Lemma row_eqb_refl : forall a, row_eqb a a = true.
Proof.
  intros [a1 a2 a3 a4 a5 a6 a7 a8]. unfold row_eqb. cbn.
  rewrite !N.eqb_refl, !Bool.eqb_reflx. reflexivity.
Qed.

(* the index after the binary search: the LAST row whose address is <= pc, or 0 *)
Lemma bs_pos_ok : forall rows pc, sorted_rows rows ->
  exists i, bs_pos rows pc = Ok i /\
    (forall j r, (i < j)%nat -> nth_error rows j = Some r -> pc < r_addr r) /\
    (i = 0%nat \/ exists r, nth_error rows i = Some r /\ r_addr r <= pc).
Proof.
  intros rows pc Hs. unfold bs_pos. destruct (bsearch_ok _ pc Hs) as [r [Hr Hp]]. rewrite Hr. cbn [bind].
  destruct r as [i|p]; cbn [bs_post] in Hp.
  - destruct Hp as [Hi Hafter]. exists i. split; [reflexivity|]. split.
    + intros j r Hj Hjr. apply (Hafter j (r_addr r)); [assumption|]. rewrite nth_map, Hjr. reflexivity.
    + right. apply nth_map_some in Hi. destruct Hi as [a [Ha Hpc]]. exists a. split; [assumption|lia].
  - destruct Hp as [Hlen [Hlt Hgt]]. exists (p - 1)%nat. split; [reflexivity|]. split.
    + intros j r Hj Hjr. apply (Hgt j (r_addr r)); [lia|]. rewrite nth_map, Hjr. reflexivity.
    + destruct p as [|p]; [left; reflexivity|]. right.
      replace (S p - 1)%nat with p by lia.
      destruct (nth_error (map r_addr rows) p) as [k|] eqn:Hk.
      2:{ apply nth_error_None in Hk. lia. }
      assert (k < pc) by (apply (Hlt p k); [lia|assumption]).
      apply nth_map_some in Hk. destruct Hk as [a [Ha Hk]]. exists a. split; [assumption|lia].
Qed.

Lemma bs_pos_total : forall rows pc, exists i, bs_pos rows pc = Ok i /\ (i < length rows \/ rows = [])%nat.
Proof.
  intros rows pc. unfold bs_pos. destruct (bsearch_total (map r_addr rows) pc) as [r [Hr Hb]]. rewrite Hr.
  cbn [bind]. rewrite map_length in Hb. destruct r as [i|p].
  - exists i. split; [reflexivity|left; assumption].
  - exists (p - 1)%nat. split; [reflexivity|]. destruct rows; [right; reflexivity|left]. cbn [length] in *. lia.
Qed.

Lemma find_place_by_idx_some : forall u i r, files_ok u -> nth_error (u_rows u) i = Some r ->
  find_place_by_idx u i = Ok (Some (i, r)).
Proof.
  intros u i r Hf Hr. unfold find_place_by_idx, mk_place. rewrite Hr.
  assert (r_file r < u_nfiles u) by (apply Hf; eapply nth_error_In; eauto).
  destruct (N.ltb_spec (r_file r) (u_nfiles u)); [reflexivity|lia].
Qed.

Lemma find_place_by_idx_none : forall u i, nth_error (u_rows u) i = None -> find_place_by_idx u i = Ok None.
Proof. intros u i H. unfold find_place_by_idx. rewrite H. reflexivity. Qed.

(* runs of equal addresses *)
Lemma count_run_spec : forall a l,
  (count_run a l <= length l)%nat /\
  (forall k x, (k < count_run a l)%nat -> nth_error l k = Some x -> r_addr x = a) /\
  (forall x, nth_error l (count_run a l) = Some x -> r_addr x <> a).
Proof.
  intros a. induction l as [|r t [IH1 [IH2 IH3]]]; cbn [count_run length].
  - split; [lia|]. split; [intros; lia|]. intros x H. discriminate.
  - destruct (N.eqb_spec (r_addr r) a) as [He|Hne].
    + split; [lia|]. split.
      * intros k x Hk Hx. destruct k as [|k]; cbn [nth_error] in Hx; [congruence|].
        apply (IH2 k x); [lia|assumption].
      * intros x Hx. cbn [nth_error] in Hx. auto.
    + split; [lia|]. split; [intros; lia|]. intros x Hx. cbn [nth_error] in Hx. congruence.
Qed.

Lemma count_run_ge : forall a l m, (m <= length l)%nat ->
  (forall k x, (k < m)%nat -> nth_error l k = Some x -> r_addr x = a) -> (m <= count_run a l)%nat.
Proof.
  intros a. induction l as [|r t IH]; intros m Hm H; cbn [count_run length] in *; [lia|].
  destruct m as [|m]; [lia|].
  assert (r_addr r = a) by (apply (H 0%nat r); [lia|reflexivity]).
  destruct (N.eqb_spec (r_addr r) a); [|contradiction].
  assert (m <= count_run a t)%nat; [|lia].
  apply IH; [lia|]. intros k x Hk Hx. apply (H (S k) x); [lia|exact Hx].
Qed.

Lemma nth_firstn_lt : forall {A} (l : list A) p j, (j < p)%nat -> nth_error (firstn p l) j = nth_error l j.
Proof.
  induction l as [|x l IH]; intros p j Hj; [destruct p, j; reflexivity|].
  destruct p as [|p]; [lia|]. destruct j as [|j]; cbn [firstn nth_error]; [reflexivity|]. apply IH. lia.
Qed.

Lemma nth_rev : forall {A} (l : list A) k, (k < length l)%nat ->
  nth_error (rev l) k = nth_error l (length l - 1 - k).
Proof.
  intros A. induction l as [|x l IH]; intros k Hk; cbn [length] in *; [lia|].
  cbn [rev]. destruct (Nat.eq_dec k (length l)) as [->|Hne].
  - rewrite nth_error_app2 by (rewrite rev_length; lia). rewrite rev_length, Nat.sub_diag.
    replace (S (length l) - 1 - length l)%nat with 0%nat by lia. reflexivity.
  - rewrite nth_error_app1 by (rewrite rev_length; lia). rewrite IH by lia.
    replace (S (length l) - 1 - k)%nat with (S (length l - 1 - k)) by lia. reflexivity.
Qed.

Lemma nth_rev_firstn : forall {A} (l : list A) p k, (k < p)%nat -> (p <= length l)%nat ->
  nth_error (rev (firstn p l)) k = nth_error l (p - 1 - k).
Proof.
  intros A l p k Hk Hp. rewrite nth_rev by (rewrite firstn_length_le; lia).
  rewrite firstn_length_le by lia. apply nth_firstn_lt. lia.
Qed.

Lemma nth_skipn : forall {A} (l : list A) n k, nth_error (skipn n l) k = nth_error l (n + k).
Proof.
  induction l as [|x l IH]; intros [|n] k; cbn [skipn Nat.add]; try reflexivity.
  - destruct k; reflexivity.
  - cbn [nth_error]. apply IH.
Qed.

(* the run [first..last] of rows with the address of rows[p] around p *)
Lemma run_facts : forall rows p r0, nth_error rows p = Some r0 ->
  let a := r_addr r0 in
  let first := (p - count_run a (rev (firstn p rows)))%nat in
  let last := (p + count_run a (skipn (S p) rows))%nat in
  (first <= p <= last)%nat /\ (last < length rows)%nat /\
  (forall j x, (first <= j <= last)%nat -> nth_error rows j = Some x -> r_addr x = a) /\
  (forall i, (i <= p)%nat -> (forall j x, (i <= j <= p)%nat -> nth_error rows j = Some x -> r_addr x = a) ->
             (first <= i)%nat) /\
  (forall i, (p <= i < length rows)%nat ->
             (forall j x, (p <= j <= i)%nat -> nth_error rows j = Some x -> r_addr x = a) -> (i <= last)%nat).
Proof.
  intros rows p r0 Hp a first last.
  assert (Hpl : (p < length rows)%nat) by (apply nth_error_Some; congruence).
  destruct (count_run_spec a (rev (firstn p rows))) as [B1 [B2 _]].
  destruct (count_run_spec a (skipn (S p) rows)) as [A1 [A2 _]].
  rewrite rev_length, firstn_length_le in B1 by lia. rewrite skipn_length in A1.
  split; [unfold first, last; lia|]. split; [unfold last; lia|]. split; [|split].
  - intros j x Hj Hx. destruct (Nat.lt_trichotomy j p) as [Hlt|[->|Hgt]].
    + apply (B2 (p - 1 - j)%nat x); [unfold first in Hj; lia|].
      rewrite nth_rev_firstn by lia. replace (p - 1 - (p - 1 - j))%nat with j by lia. exact Hx.
    + assert (x = r0) by congruence. subst x. reflexivity.
    + apply (A2 (j - S p)%nat x); [unfold last in Hj; lia|].
      rewrite nth_skipn. replace (S p + (j - S p))%nat with j by lia. exact Hx.
  - intros i Hi Hall.
    assert (p - i <= count_run a (rev (firstn p rows)))%nat; [|unfold first; lia].
    apply count_run_ge; [rewrite rev_length, firstn_length_le; lia|].
    intros k x Hk Hx. rewrite nth_rev_firstn in Hx by lia. apply (Hall (p - 1 - k)%nat x); [lia|exact Hx].
  - intros i Hi Hall.
    assert (i - p <= count_run a (skipn (S p) rows))%nat; [|unfold last; lia].
    apply count_run_ge; [rewrite skipn_length; lia|].
    intros k x Hk Hx. rewrite nth_skipn in Hx. apply (Hall (S p + k)%nat x); [lia|exact Hx].
Qed.

Lemma rfind_result : forall rows first n,
  (forall j, (first <= j < first + n)%nat -> nth_error rows j <> None) ->
  (rfind_non_es rows first n = Ok None /\
   forall j y, (first <= j < first + n)%nat -> nth_error rows j = Some y -> r_es y = true) \/
  (exists i x, rfind_non_es rows first n = Ok (Some i) /\ (first <= i < first + n)%nat /\
     nth_error rows i = Some x /\ r_es x = false /\
     forall j y, (i < j < first + n)%nat -> nth_error rows j = Some y -> r_es y = true).
Proof.
  intros rows first. induction n as [|n IH]; intros Hall; cbn [rfind_non_es].
  - left. split; [reflexivity|]. intros; lia.
  - destruct (nth_error rows (first + n)) as [r|] eqn:Hr.
    2:{ exfalso. apply (Hall (first + n)%nat); [lia|assumption]. }
    destruct (r_es r) eqn:Hes.
    + destruct IH as [[H1 H2]|[i [x [H1 [H2 [H3 [H4 H5]]]]]]].
      { intros j Hj. apply Hall. lia. }
      * left. split; [assumption|]. intros j y Hj Hy.
        destruct (Nat.eq_dec j (first + n)) as [->|Hne]; [congruence|]. apply (H2 j y); [lia|assumption].
      * right. exists i, x. split; [assumption|]. split; [lia|]. split; [assumption|]. split; [assumption|].
        intros j y Hj Hy. destruct (Nat.eq_dec j (first + n)) as [->|Hne]; [congruence|].
        apply (H5 j y); [lia|assumption].
    + right. exists (first + n)%nat, r. split; [reflexivity|]. split; [lia|]. split; [assumption|].
      split; [assumption|]. intros; lia.
Qed.

(* EXACT characterisation of the repaired BsUnit::find_place_by_pc on a sorted vector.  Let a be
   the greatest row address <= pc (the lowest address of the table if every row is above pc): the
   answer is the LAST non-end_sequence row of address a, or (when every row at a ends a sequence) the
   last row of address a <= pc.  Never a panic; None only for an empty table. *)
Theorem find_place_by_pc_exact : forall u pc, sorted_rows (u_rows u) -> files_ok u ->
  (u_rows u = [] /\ find_place_by_pc u pc = Ok None) \/
  exists m r, find_place_by_pc u pc = Ok (Some (m, r)) /\ nth_error (u_rows u) m = Some r /\
    (forall x, In x (u_rows u) -> r_addr x <= r_addr r \/ pc < r_addr x) /\
    (r_addr r <= pc \/ forall x, In x (u_rows u) -> pc < r_addr x) /\
    ((r_es r = false /\
      forall j y, (m < j)%nat -> nth_error (u_rows u) j = Some y -> r_addr y = r_addr r -> r_es y = true) \/
     (forall y, In y (u_rows u) -> r_addr y = r_addr r -> r_es y = true)).
Proof.
  intros u pc Hs Hf. destruct (bs_pos_ok _ pc Hs) as [p [Hp [Hafter Hat]]].
  unfold find_place_by_pc, pc_pos. rewrite Hp. cbn [bind].
  destruct (nth_error (u_rows u) p) as [r0|] eqn:Hr0.
  2:{ left. destruct Hat as [->|[r' [Hr' _]]]; [|congruence].
      destruct (u_rows u); [split; reflexivity|discriminate]. }
  right. cbn [bind].
  destruct (run_facts (u_rows u) p r0 Hr0) as [Hfpl [Hlast [Hrun [Hmin Hmax]]]].
  set (a := r_addr r0) in *.
  set (first := (p - count_run a (rev (firstn p (u_rows u))))%nat) in *.
  set (last := (p + count_run a (skipn (S p) (u_rows u)))%nat) in *.
  (* every row with address a lies in the run *)
  assert (Hin_run : forall j y, nth_error (u_rows u) j = Some y -> r_addr y = a -> (first <= j <= last)%nat).
  { intros j y Hj Hy. destruct (Nat.le_ge_cases j p) as [Hle|Hge].
    - split; [|lia]. apply Hmin; [assumption|]. intros k x Hk Hx.
      assert (r_addr y <= r_addr x) by (eapply (sorted_rows_le (u_rows u) j k); eauto; lia).
      assert (r_addr x <= r_addr r0) by (eapply (sorted_rows_le (u_rows u) k p); eauto; lia).
      unfold a in *. lia.
    - split; [lia|]. apply Hmax.
      + split; [assumption|]. apply nth_error_Some. congruence.
      + intros k x Hk Hx.
        assert (r_addr r0 <= r_addr x) by (eapply (sorted_rows_le (u_rows u) p k); eauto; lia).
        assert (r_addr x <= r_addr y) by (eapply (sorted_rows_le (u_rows u) k j); eauto; lia).
        unfold a in *. lia. }
  (* rows outside the run relative to pc *)
  assert (Hother : forall x, In x (u_rows u) -> r_addr x <= a \/ pc < r_addr x).
  { intros x Hx. apply In_nth_error in Hx. destruct Hx as [j Hj].
    destruct (Nat.le_gt_cases j p) as [Hle|Hgt].
    - left. unfold a. eapply (sorted_rows_le (u_rows u) j p); eauto.
    - right. apply (Hafter j x Hgt Hj). }
  assert (Hapc : a <= pc \/ forall x, In x (u_rows u) -> pc < r_addr x).
  { destruct Hat as [->|[r' [Hr' Hle]]].
    - destruct (N.leb_spec a pc) as [Hle|Hgt]; [left; assumption|]. right.
      intros x Hx. apply In_nth_error in Hx. destruct Hx as [j Hj].
      assert (r_addr r0 <= r_addr x) by (eapply (sorted_rows_le (u_rows u) 0%nat j); eauto; lia).
      unfold a in *. lia.
    - left. unfold a. congruence. }
  destruct (rfind_result (u_rows u) first (S (last - first))) as [[Hn Hall]|[i [x [Hi [Hir [Hix [Hes Hlater]]]]]]].
  { intros j Hj. apply nth_error_Some. lia. }
  - rewrite Hn. cbn [bind]. exists p, r0. split; [apply find_place_by_idx_some; assumption|].
    split; [assumption|]. split; [exact Hother|]. split; [exact Hapc|]. right.
    intros y Hy Hya. apply In_nth_error in Hy. destruct Hy as [j Hj].
    destruct (Hin_run j y Hj Hya). apply (Hall j y); [lia|assumption].
  - rewrite Hi. cbn [bind]. assert (Hxa : r_addr x = a) by (apply (Hrun i x); [lia|assumption]).
    exists i, x. split; [apply find_place_by_idx_some; assumption|]. split; [assumption|].
    rewrite Hxa. split; [exact Hother|]. split; [exact Hapc|]. left. split; [assumption|].
    intros j y Hj Hy Hya. destruct (Hin_run j y Hy Hya). apply (Hlater j y); [lia|assumption].
Qed.

Lemma seq_pairs_fst : forall prog r r', In (r, r') (seq_pairs prog) -> r_es r = false.
Proof.
  induction prog as [|x t IH]; intros r r' H; [destruct H|].
  destruct t as [|y t']; [destruct H|]. cbn [seq_pairs] in H. destruct (r_es x) eqn:Hx.
  - apply (IH r r' H).
  - destruct H as [H|H]; [inversion H; subst; assumption|apply (IH r r' H)].
Qed.

(* The sorted vector [rows] against the table in program order [prog]: every row r of [prog] that
   covers a non-empty interval [r.addr, r'.addr) (r' = next row of its sequence) occurs in [rows]
   at an index after which only end_sequence rows of r's address and rows at or beyond r'.addr
   follow: r is the last non-end_sequence row of its address and no row of another sequence lies
   strictly inside its interval. *)
Definition tie_ok (prog rows : list row) : Prop :=
  forall r r', In (r, r') (seq_pairs prog) -> r_addr r < r_addr r' ->
    exists i, nth_error rows i = Some r /\
      forall j y, (i < j)%nat -> nth_error rows j = Some y ->
                  (r_addr y = r_addr r /\ r_es y = true) \/ r_addr r' <= r_addr y.

Fixpoint tie_at (r r' : row) (rows : list row) : bool :=
  match rows with
  | [] => false
  | x :: t => (row_eqb x r &&
               forallb (fun y => ((r_addr y =? r_addr r) && r_es y) || (r_addr r' <=? r_addr y)) t)
              || tie_at r r' t
  end.
Definition tie_okb (prog rows : list row) : bool :=
  forallb (fun p => negb (r_addr (fst p) <? r_addr (snd p)) || tie_at (fst p) (snd p) rows) (seq_pairs prog).

Lemma tie_at_ok : forall r r' rows, tie_at r r' rows = true ->
  exists i, nth_error rows i = Some r /\
    forall j y, (i < j)%nat -> nth_error rows j = Some y ->
                (r_addr y = r_addr r /\ r_es y = true) \/ r_addr r' <= r_addr y.
Proof.
  intros r r'. induction rows as [|x t IH]; intros H; [discriminate|].
  cbn [tie_at] in H. apply orb_true_iff in H. destruct H as [H|H].
  - apply andb_true_iff in H. destruct H as [He Hall]. apply row_eqb_eq in He. subst x.
    exists 0%nat. split; [reflexivity|]. intros j y Hj Hy. destruct j as [|j]; [lia|].
    cbn [nth_error] in Hy. rewrite forallb_forall in Hall.
    specialize (Hall y (nth_error_In _ _ Hy)). apply orb_true_iff in Hall. destruct Hall as [Hc|Hc].
    + apply andb_true_iff in Hc. destruct Hc as [H1 H2]. apply N.eqb_eq in H1. left. auto.
    + apply N.leb_le in Hc. right. assumption.
  - destruct (IH H) as [i [Hi Hafter]]. exists (S i). split; [exact Hi|].
    intros j y Hj Hy. destruct j as [|j]; [lia|]. apply (Hafter j y); [lia|exact Hy].
Qed.

Lemma tie_okb_ok : forall prog rows, tie_okb prog rows = true -> tie_ok prog rows.
Proof.
  intros prog rows H r r' Hin Hlt. unfold tie_okb in H. rewrite forallb_forall in H.
  specialize (H _ Hin). cbn [fst snd] in H. apply orb_true_iff in H. destruct H as [H|H].
  - apply negb_true_iff in H. apply N.ltb_ge in H. lia.
  - apply tie_at_ok. exact H.
Qed.

(* HEADLINE pc -> row: whenever the DWARF line table (program order [prog]) says row r covers pc,
   the debugger answers r - provided r is the last non-end_sequence row of its address in the
   sorted vector and no foreign row lies inside its interval ([tie_ok], decided by [tie_okb]).
   An end_sequence row sharing r's address (witness W1 of the previous round) is now harmless. *)
Theorem find_place_by_pc_partial : forall u prog pc r,
  sorted_rows (u_rows u) -> files_ok u -> tie_ok prog (u_rows u) ->
  place_of prog pc r ->
  exists i, find_place_by_pc u pc = Ok (Some (i, r)) /\ nth_error (u_rows u) i = Some r.
Proof.
  intros u prog pc r Hs Hf Ht [r' [Hin [Hlo Hhi]]]. cbn [fst snd] in Hlo, Hhi.
  pose proof (seq_pairs_fst _ _ _ Hin) as Hres.
  destruct (Ht r r' Hin) as [i [Hi Hafter]]; [lia|].
  assert (Hrin : In r (u_rows u)) by (eapply nth_error_In; eauto).
  destruct (find_place_by_pc_exact u pc Hs Hf) as [[He _]|[m [x [Hm [Hx [Hother [Hapc Hlastne]]]]]]].
  - rewrite He in Hi. destruct i; discriminate.
  - assert (Hxa : r_addr x <= pc).
    { destruct Hapc as [H|H]; [assumption|]. specialize (H r Hrin). lia. }
    assert (Hra : r_addr r <= r_addr x) by (destruct (Hother r Hrin); [assumption|lia]).
    assert (m = i).
    { destruct (Nat.lt_trichotomy m i) as [Hlt|[Heq|Hgt]]; [|assumption|].
      - assert (r_addr x <= r_addr r) by (eapply (sorted_rows_le (u_rows u) m i); eauto; lia).
        assert (Heqa : r_addr r = r_addr x) by lia.
        destruct Hlastne as [[_ Hl]|Hl].
        + specialize (Hl i r Hlt Hi Heqa). congruence.
        + specialize (Hl r Hrin Heqa). congruence.
      - destruct (Hafter m x Hgt Hx) as [[Ha He]|Hge]; [|lia].
        destruct Hlastne as [[Hne _]|Hl]; [congruence|].
        specialize (Hl r Hrin (eq_sym Ha)). congruence. }
    subst m. exists i. rewrite Hm. split; [congruence|assumption].
Qed.

Theorem place_of_unique_partial : forall prog rows pc r1 r2,
  sorted_rows rows -> tie_ok prog rows -> place_of prog pc r1 -> place_of prog pc r2 -> r1 = r2.
Proof.
  intros prog rows pc r1 r2 Hs Ht H1 H2.
  set (u := U [] (N.succ (fold_right (fun r m => N.max (r_file r) m) 0 rows)) rows [] []).
  assert (Hf : files_ok u).
  { intros r Hr. cbn [u u_rows u_nfiles] in *. clear - Hr. induction rows as [|x t IH]; [destruct Hr|].
    cbn [fold_right]. destruct Hr as [->|Hr]; [lia|]. specialize (IH Hr). lia. }
  destruct (find_place_by_pc_partial u prog pc r1 Hs Hf Ht H1) as [i [Hi _]].
  destruct (find_place_by_pc_partial u prog pc r2 Hs Hf Ht H2) as [j [Hj _]].
  rewrite Hi in Hj. inversion Hj. reflexivity.
Qed.

(* two sequences, the one at the higher addresses first, a gap between them, a duplicate address *)
Definition ex_prog : list row :=
  [R 64 1 7 0 true false false false; R 68 1 8 5 true true false false; R 80 1 8 5 true false false true;
   R 16 1 3 0 true false false false; R 20 1 4 9 true true false false; R 20 1 4 12 false false false false;
   R 32 1 4 9 true false false true].
Example tie_okb_example :
  sorted_rowsb (stable_sort ex_prog) = true /\ tie_okb ex_prog (stable_sort ex_prog) = true.
Proof. vm_compute. split; reflexivity. Qed.

(* The witness W1 of the previous round (function B = [0x20,0x30) emitted before A = [0x10,0x20) in
   the line program; A's end_sequence row shares the address of B's first row and follows it in the
   stably sorted vector) now satisfies the hypothesis, and pc 0x20 is answered with B's row. *)
Definition wit_prog : list row :=
  [R 32 1 7 0 true false false false; R 36 1 8 5 true true false false; R 48 1 8 5 true false false true;
   R 16 1 3 0 true false false false; R 32 1 4 0 true false false true].
Definition wit_rows : list row := stable_sort wit_prog.
Definition wit_unit : unit :=
  U [(16, 48)] 2 wit_rows [(16, 32, 100); (32, 48, 200)]
    [F 100 (Some [97]) [(16, 32)]; F 200 (Some [98]) [(32, 48)]].

Example find_place_by_pc_w1_repaired :
  sorted_rowsb wit_rows = true /\ files_okb wit_unit = true /\ tie_okb wit_prog wit_rows = true /\
  nth_error wit_rows 2 = Some (R 32 1 4 0 true false false true) /\
  find_place_by_pc wit_unit 32 = Ok (Some (1%nat, R 32 1 7 0 true false false false)) /\
  place_ofb wit_prog 32 (R 32 1 7 0 true false false false) = true.
Proof. vm_compute. repeat split; reflexivity. Qed.

(* STILL REFUTED: "no row covers pc => None".  Below the first row the answer is row 0, beyond the
   end of a sequence it is the end_sequence row (callers rely on find_unit_by_pc instead). *)
Theorem find_place_by_pc_none_refuted :
  exists u pc1 pc2, sorted_rowsb (u_rows u) = true /\ tie_okb (u_rows u) (u_rows u) = true /\
    no_placeb (u_rows u) pc1 = true /\ no_placeb (u_rows u) pc2 = true /\
    find_place_by_pc u pc1 = Ok (Some (0%nat, R 16 1 3 0 true false false false)) /\
    find_place_by_pc u pc2 = Ok (Some (1%nat, R 32 1 4 0 true false false true)).
Proof.
  exists (U [] 2 [R 16 1 3 0 true false false false; R 32 1 4 0 true false false true] [] []), 5, 40.
  vm_compute. repeat split; reflexivity.
Qed.

Lemma place_ofb_ok : forall prog pc r, place_ofb prog pc r = true -> place_of prog pc r.
Proof.
  intros prog pc r H. unfold place_ofb in H. apply existsb_exists in H. destruct H as [[a b] [Hin H]].
  apply andb_true_iff in H. destruct H as [He Hc]. cbn [fst] in He. apply row_eqb_eq in He. subst a.
  exists b. split; [assumption|]. unfold coversb in Hc. apply andb_true_iff in Hc. destruct Hc as [H1 H2].
  apply N.leb_le in H1. apply N.ltb_lt in H2. split; assumption.
Qed.

(* ------------------------------------------------------------------------------------------ *)
(* find_exact_place_by_pc                                                                     *)
(* ------------------------------------------------------------------------------------------ *)

(* never a panic, whatever the vector (former witness W2) *)
Theorem find_exact_place_by_pc_no_panic : forall u pc, files_ok u ->
  exists r, find_exact_place_by_pc u pc = Ok r.
Proof.
  intros u pc Hf. unfold find_exact_place_by_pc.
  destruct (bsearch_total (map r_addr (u_rows u)) pc) as [r [Hr Hb]]. rewrite Hr. cbn [bind].
  destruct r as [p|p]; [|eexists; reflexivity].
  destruct (nth_error (u_rows u) (p - count_run pc (rev (firstn p (u_rows u))))) as [x|] eqn:Hx.
  - rewrite (find_place_by_idx_some u _ x Hf Hx). eexists; reflexivity.
  - rewrite (find_place_by_idx_none u _ Hx). eexists; reflexivity.
Qed.

(* EXACT characterisation on a sorted vector: None iff no row has address pc; otherwise the FIRST
   row with address pc (row 0 included) *)
Theorem find_exact_place_by_pc_exact : forall u pc, sorted_rows (u_rows u) -> files_ok u ->
  ((forall x, In x (u_rows u) -> r_addr x <> pc) /\ find_exact_place_by_pc u pc = Ok None) \/
  exists f rf, nth_error (u_rows u) f = Some rf /\ r_addr rf = pc /\
    (forall j x, (j < f)%nat -> nth_error (u_rows u) j = Some x -> r_addr x < pc) /\
    find_exact_place_by_pc u pc = Ok (Some (f, rf)).
Proof.
  intros u pc Hs Hf. unfold find_exact_place_by_pc.
  destruct (bsearch_ok _ pc Hs) as [r [Hr Hp]]. rewrite Hr. cbn [bind].
  destruct r as [p|p]; cbn [bs_post] in Hp.
  - right. destruct Hp as [Hp _]. apply nth_map_some in Hp. destruct Hp as [rp [Hrp Hpc]].
    destruct (run_facts (u_rows u) p rp Hrp) as [Hfpl [_ [Hrun [Hmin _]]]]. rewrite Hpc in *.
    set (f := (p - count_run pc (rev (firstn p (u_rows u))))%nat) in *.
    destruct (nth_error (u_rows u) f) as [rf|] eqn:Hrf.
    2:{ exfalso. apply nth_error_None in Hrf. assert (p < length (u_rows u))%nat by (apply nth_error_Some; congruence). lia. }
    exists f, rf. split; [exact Hrf|]. split; [apply (Hrun f rf); [lia|assumption]|]. split.
    + intros j x Hj Hx.
      assert (r_addr x <= r_addr rp) by (eapply (sorted_rows_le (u_rows u) j p); eauto; lia).
      destruct (N.eq_dec (r_addr x) pc) as [Heq|Hne]; [|lia]. exfalso.
      assert (f <= j)%nat; [|lia]. apply Hmin; [lia|]. intros k y Hk Hy.
      assert (r_addr x <= r_addr y) by (eapply (sorted_rows_le (u_rows u) j k); eauto; lia).
      assert (r_addr y <= r_addr rp) by (eapply (sorted_rows_le (u_rows u) k p); eauto; lia). lia.
    + apply find_place_by_idx_some; assumption.
  - left. destruct Hp as [_ [Hlt Hgt]]. split; [|reflexivity].
    intros x Hx. apply In_nth_error in Hx. destruct Hx as [j Hj].
    assert (Hk : nth_error (map r_addr (u_rows u)) j = Some (r_addr x)) by (rewrite nth_map, Hj; reflexivity).
    destruct (Nat.lt_ge_cases j p) as [Hjp|Hjp].
    + specialize (Hlt j _ Hjp Hk). lia.
    + specialize (Hgt j _ Hjp Hk). lia.
Qed.

(* the former panic: the exact place of the lowest address of a unit's line table is row 0 *)
Theorem find_exact_place_by_pc_row0 : forall u r0 t,
  sorted_rows (u_rows u) -> files_ok u -> u_rows u = r0 :: t ->
  find_exact_place_by_pc u (r_addr r0) = Ok (Some (0%nat, r0)).
Proof.
  intros u r0 t Hs Hf E.
  assert (H0 : nth_error (u_rows u) 0 = Some r0) by (rewrite E; reflexivity).
  destruct (find_exact_place_by_pc_exact u (r_addr r0) Hs Hf) as [[Hno _]|[f [rf [Hrf [Hpc [Hb Hres]]]]]].
  - exfalso. apply (Hno r0); [rewrite E; left; reflexivity|reflexivity].
  - destruct f as [|f]; [rewrite Hres; congruence|].
    specialize (Hb 0%nat r0 ltac:(lia) H0). lia.
Qed.

(* ------------------------------------------------------------------------------------------ *)
(* pc -> unit                                                                                 *)
(* ------------------------------------------------------------------------------------------ *)

Definition ranges_nonempty (u : unit) : Prop := forall r, In r (u_ranges u) -> fst r < snd r.
Definition ranges_nonemptyb (u : unit) : bool := forallb (fun r => fst r <? snd r) (u_ranges u).
Lemma ranges_nonemptyb_ok : forall u, ranges_nonemptyb u = true -> ranges_nonempty u.
Proof. intros u H r Hr. unfold ranges_nonemptyb in H. rewrite forallb_forall in H. apply N.ltb_lt. auto. Qed.

Lemma in_firstn_nth : forall {A} (l : list A) n x, In x (firstn n l) ->
  exists j, (j < n)%nat /\ nth_error l j = Some x.
Proof.
  induction l as [|y l IH]; intros [|n] x H; cbn [firstn] in H; try destruct H.
  - subst. exists 0%nat. split; [lia|reflexivity].
  - destruct (IH n x H) as [j [Hj Hx]]. exists (S j). split; [lia|exact Hx].
Qed.

Lemma nth_in_firstn : forall {A} (l : list A) n j x, (j < n)%nat -> nth_error l j = Some x -> In x (firstn n l).
Proof.
  induction l as [|y l IH]; intros n j x Hj Hx; [destruct j; discriminate|].
  destruct n as [|n]; [lia|]. destruct j as [|j]; cbn [nth_error firstn] in *.
  - inversion Hx. left. reflexivity.
  - right. eapply IH; eauto. lia.
Qed.

(* FULL STATEMENT (false for a range with begin >= end whose begin is pc, see unit_has_pc_refuted):
   the unit claims pc iff one of its ranges contains pc.  PROVED for non-empty ranges. *)
Theorem unit_has_pc_partial : forall u pc,
  sorted_keys (map fst (u_ranges u)) -> ranges_nonempty u ->
  exists b, unit_has_pc u pc = Ok b /\ (b = true <-> unit_covers u pc).
Proof.
  intros u pc Hs Hne. unfold unit_has_pc. destruct (bsearch_ok _ pc Hs) as [r [Hr Hp]]. rewrite Hr. cbn [bind].
  destruct r as [i|p]; cbn [bs_post] in Hp.
  - exists true. split; [reflexivity|]. split; [|reflexivity]. intros _.
    destruct Hp as [Hi _]. apply nth_map_some in Hi. destruct Hi as [rg [Hrg Hb]].
    exists rg. split; [eapply nth_error_In; eauto|].
    assert (fst rg < snd rg) by (apply Hne; eapply nth_error_In; eauto).
    unfold in_range. apply andb_true_iff. split; [apply N.leb_le|apply N.ltb_lt]; lia.
  - destruct Hp as [Hlen [Hlt Hgt]]. rewrite map_length in Hlen.
    destruct (Nat.ltb_spec (length (u_ranges u)) p) as [Hbad|_]; [exfalso; lia|].
    eexists. split; [reflexivity|]. split.
    + intros H. apply existsb_exists in H. destruct H as [rg [Hin Hr']].
      exists rg. split; [|assumption]. apply in_firstn_nth in Hin. destruct Hin as [j [_ Hj]].
      eapply nth_error_In; eauto.
    + intros [rg [Hin Hr']]. apply existsb_exists. exists rg. split; [|assumption].
      apply In_nth_error in Hin. destruct Hin as [j Hj].
      destruct (Nat.lt_ge_cases j p) as [Hjp|Hjp]; [eapply nth_in_firstn; eauto|].
      exfalso. assert (pc < fst rg). { apply (Hgt j (fst rg) Hjp). rewrite nth_map, Hj. reflexivity. }
      unfold in_range in Hr'. apply andb_true_iff in Hr'. destruct Hr' as [H1 _]. apply N.leb_le in H1. lia.
Qed.

Theorem unit_has_pc_refuted :
  exists u pc, sorted_keysb (map fst (u_ranges u)) = true /\
               unit_has_pc u pc = Ok true /\ unit_coversb u pc = false.
Proof. exists (U [(16, 16)] 1 [] [] []), 16. vm_compute. repeat split; reflexivity. Qed.

Lemma unit_coversb_ok : forall u pc, unit_coversb u pc = true <-> unit_covers u pc.
Proof.
  intros u pc. unfold unit_coversb, unit_covers. rewrite existsb_exists. tauto.
Qed.

(* find_unit_by_pc returns the FIRST unit (registry order) one of whose ranges contains pc *)
Definition units_ok (units : list unit) : Prop :=
  forall u, In u units -> sorted_keys (map fst (u_ranges u)) /\ ranges_nonempty u.

Lemma find_unit_from_ok : forall units pc i0, units_ok units ->
  (find_unit_from i0 units pc = Ok None /\ forall u, In u units -> ~ unit_covers u pc) \/
  exists k u, find_unit_from i0 units pc = Ok (Some ((i0 + k)%nat, u)) /\ nth_error units k = Some u /\
              unit_covers u pc /\ forall j v, (j < k)%nat -> nth_error units j = Some v -> ~ unit_covers v pc.
Proof.
  induction units as [|u t IH]; intros pc i0 Hok.
  - left. split; [reflexivity|]. intros u [].
  - cbn [find_unit_from].
    destruct (Hok u (or_introl eq_refl)) as [Hs Hne].
    destruct (unit_has_pc_partial u pc Hs Hne) as [b [Hb Hiff]]. rewrite Hb. cbn [bind].
    destruct b.
    + right. exists 0%nat, u. rewrite Nat.add_0_r. split; [reflexivity|]. split; [reflexivity|].
      split; [apply Hiff; reflexivity|]. intros j v Hj. lia.
    + assert (Hnc : ~ unit_covers u pc) by (intros H; apply Hiff in H; discriminate).
      destruct (IH pc (S i0)) as [[Hn Hall]|[k [v [Hk [Hv [Hc Hfirst]]]]]].
      { intros w Hw. apply Hok. right. exact Hw. }
      * left. split; [assumption|]. intros w [<-|Hw]; [assumption|auto].
      * right. exists (S k), v. replace (i0 + S k)%nat with (S i0 + k)%nat by lia.
        split; [assumption|]. split; [assumption|]. split; [assumption|].
        intros j w Hj Hw. destruct j as [|j]; cbn [nth_error] in Hw.
        -- inversion Hw; subst. assumption.
        -- apply (Hfirst j w); [lia|assumption].
Qed.

Theorem find_unit_by_pc_partial : forall units pc, units_ok units ->
  (find_unit_by_pc units pc = Ok None /\ forall u, In u units -> ~ unit_covers u pc) \/
  exists k u, find_unit_by_pc units pc = Ok (Some (k, u)) /\ nth_error units k = Some u /\
              unit_covers u pc /\ forall j v, (j < k)%nat -> nth_error units j = Some v -> ~ unit_covers v pc.
Proof. intros units pc Hok. exact (find_unit_from_ok units pc 0%nat Hok). Qed.

(* ------------------------------------------------------------------------------------------ *)
(* pc -> function                                                                             *)
(* ------------------------------------------------------------------------------------------ *)

Lemma first_some_rev_some : forall {A B} (f : A -> option B) l y,
  first_some f (rev l) = Some y ->
  exists l1 x l2, l = l1 ++ x :: l2 /\ f x = Some y /\ forall z, In z l2 -> f z = None.
Proof.
  intros A B f l. induction l as [|a l IH] using rev_ind; intros y H; [discriminate|].
  rewrite rev_unit in H. cbn [first_some] in H. destruct (f a) as [b|] eqn:Ha.
  - inversion H; subst. exists l, a, []. split; [reflexivity|]. split; [assumption|]. intros z [].
  - destruct (IH y H) as [l1 [x [l2 [E [Hx Hl2]]]]]. exists l1, x, (l2 ++ [a]).
    split; [rewrite E, <- app_assoc; reflexivity|]. split; [assumption|].
    intros z Hz. apply in_app_or in Hz. destruct Hz as [Hz|[<-|[]]]; auto.
Qed.

Lemma first_some_none : forall {A B} (f : A -> option B) l,
  first_some f l = None -> forall x, In x l -> f x = None.
Proof.
  induction l as [|a l IH]; intros H x []; cbn [first_some] in H; destruct (f a) eqn:Ha; try discriminate.
  - subst. assumption.
  - auto.
Qed.

Lemma skip_eq_bounds : forall l pc i, (i <= skip_eq l pc i <= i + length l)%nat.
Proof.
  induction l as [|d l IH]; intros pc i; cbn [skip_eq length]; [lia|].
  destruct (dr_begin d =? pc); [|lia]. specialize (IH pc (S i)). lia.
Qed.

(* position up to which the backward scan looks: every die range from there on begins after pc *)
Lemma fn_find_pos_ok : forall drs pc, sorted_keys (map dr_begin drs) ->
  exists fp, fn_find_pos drs pc = Ok fp /\ (fp <= length drs)%nat /\
    forall j d, (fp <= j)%nat -> nth_error drs j = Some d -> pc < dr_begin d.
Proof.
  intros drs pc Hs. unfold fn_find_pos. destruct (bsearch_ok _ pc Hs) as [r [Hr Hp]]. rewrite Hr. cbn [bind].
  destruct r as [i|p]; cbn [bs_post] in Hp.
  - destruct Hp as [Hi Hafter]. eexists. split; [reflexivity|].
    pose proof (skip_eq_bounds (skipn (S i) drs) pc (S i)) as Hb. rewrite skipn_length in Hb.
    assert (i < length drs)%nat.
    { assert (nth_error (map dr_begin drs) i <> None) by congruence. apply nth_error_Some in H.
      rewrite map_length in H. exact H. }
    split; [lia|]. intros j d Hj Hd. apply (Hafter j (dr_begin d)); [lia|]. rewrite nth_map, Hd. reflexivity.
  - destruct Hp as [Hlen [_ Hgt]]. rewrite map_length in Hlen. exists p. split; [reflexivity|]. split; [assumption|].
    intros j d Hj Hd. apply (Hgt j (dr_begin d) Hj). rewrite nth_map, Hd. reflexivity.
Qed.

Lemma fn_find_pos_total : forall drs pc, exists fp, fn_find_pos drs pc = Ok fp /\ (fp <= length drs)%nat.
Proof.
  intros drs pc. unfold fn_find_pos. destruct (bsearch_total (map dr_begin drs) pc) as [r [Hr Hb]].
  rewrite Hr. cbn [bind]. rewrite map_length in Hb. destruct r as [i|p].
  - eexists. split; [reflexivity|].
    pose proof (skip_eq_bounds (skipn (S i) drs) pc (S i)) as H. rewrite skipn_length in H. lia.
  - exists p. split; [reflexivity|assumption].
Qed.

Definition fn_hit_ok (u : unit) (pc : N) (d : die_range) (info : fn_info) : Prop :=
  In d (u_die_ranges u) /\ dr_contains pc d /\ fn_lookup u (dr_off d) = Some info.

Lemma fn_hit_some : forall u pc d x info, fn_hit u pc d = Some (x, info) ->
  x = d /\ dr_contains pc d /\ fn_lookup u (dr_off d) = Some info.
Proof.
  intros u pc d x info H. unfold fn_hit in H. destruct (fn_lookup u (dr_off d)) as [i|]; [|discriminate].
  destruct ((dr_begin d <=? pc) && (pc <? dr_end d)) eqn:E; [|discriminate]. inversion H; subst.
  apply andb_true_iff in E. destruct E as [E1 E2]. apply N.leb_le in E1. apply N.ltb_lt in E2.
  repeat split; assumption.
Qed.

Lemma fn_hit_complete : forall u pc d info, dr_contains pc d -> fn_lookup u (dr_off d) = Some info ->
  fn_hit u pc d = Some (d, info).
Proof.
  intros u pc d info [H1 H2] Hl. unfold fn_hit. rewrite Hl.
  apply N.leb_le in H1. apply N.ltb_lt in H2. rewrite H1, H2. reflexivity.
Qed.

(* soundness needs no sortedness: any answer is a function of the unit one of whose ranges contains pc *)
Theorem find_function_in_unit_sound : forall u pc d info,
  find_function_in_unit u pc = Ok (Some (d, info)) -> fn_hit_ok u pc d info.
Proof.
  intros u pc d info H. unfold find_function_in_unit in H.
  destruct (fn_find_pos_total (u_die_ranges u) pc) as [fp [Hfp Hle]]. rewrite Hfp in H. cbn [bind] in H.
  destruct (Nat.ltb_spec (length (u_die_ranges u)) fp); [exfalso; lia|]. inversion H as [H'].
  apply first_some_rev_some in H'. destruct H' as [l1 [x [l2 [E [Hx _]]]]].
  apply fn_hit_some in Hx. destruct Hx as [-> [Hc Hl]]. split; [|split; assumption].
  assert (In x (firstn fp (u_die_ranges u))) by (rewrite E; apply in_or_app; right; left; reflexivity).
  apply in_firstn_nth in H1. destruct H1 as [j [_ Hj]]. eapply nth_error_In; eauto.
Qed.

(* FULL THEOREM for one unit (die ranges sorted by begin, which the parser guarantees): the answer
   is None iff no function of the unit has a range containing pc; otherwise it is such a function,
   and among all candidates the one whose range begins last (innermost when ranges nest; among
   equal begins the one the unstable sort placed last). *)
Theorem find_function_in_unit_correct : forall u pc, sorted_keys (map dr_begin (u_die_ranges u)) ->
  (find_function_in_unit u pc = Ok None /\ forall d info, ~ fn_hit_ok u pc d info) \/
  exists d info, find_function_in_unit u pc = Ok (Some (d, info)) /\ fn_hit_ok u pc d info /\
                 forall d' info', fn_hit_ok u pc d' info' -> dr_begin d' <= dr_begin d.
Proof.
  intros u pc Hs. unfold find_function_in_unit.
  destruct (fn_find_pos_ok (u_die_ranges u) pc Hs) as [fp [Hfp [Hle Hgt]]]. rewrite Hfp. cbn [bind].
  destruct (Nat.ltb_spec (length (u_die_ranges u)) fp); [exfalso; lia|].
  assert (Hin : forall d info, fn_hit_ok u pc d info -> In d (firstn fp (u_die_ranges u))).
  { intros d info [Hd [[Hc _] _]]. apply In_nth_error in Hd. destruct Hd as [j Hj].
    destruct (Nat.lt_ge_cases j fp) as [Hjp|Hjp]; [eapply nth_in_firstn; eauto|].
    specialize (Hgt j d Hjp Hj). lia. }
  destruct (first_some (fn_hit u pc) (rev (firstn fp (u_die_ranges u)))) as [[d info]|] eqn:E.
  - right. exists d, info. split; [reflexivity|].
    apply first_some_rev_some in E. destruct E as [l1 [x [l2 [El [Hx Hl2]]]]].
    apply fn_hit_some in Hx. destruct Hx as [-> [Hc Hl]].
    assert (Hxin : In x (u_die_ranges u)).
    { assert (In x (firstn fp (u_die_ranges u))) by (rewrite El; apply in_or_app; right; left; reflexivity).
      apply in_firstn_nth in H0. destruct H0 as [j [_ Hj]]. eapply nth_error_In; eauto. }
    split; [split; [assumption|split; assumption]|].
    intros d' info' Hh. pose proof (Hin d' info' Hh) as Hd'. rewrite El in Hd'.
    apply in_app_or in Hd'. destruct Hd' as [Hd'|[<-|Hd']]; [|lia|].
    + (* d' is before x in the sorted vector *)
      apply In_nth_error in Hd'. destruct Hd' as [j Hj].
      assert (Hjl : (j < length l1)%nat) by (apply nth_error_Some; congruence).
      assert (Hfj : nth_error (firstn fp (u_die_ranges u)) j = Some d').
      { rewrite El. rewrite nth_error_app1 by assumption. exact Hj. }
      assert (Hfx : nth_error (firstn fp (u_die_ranges u)) (length l1) = Some x).
      { rewrite El. rewrite nth_error_app2 by lia. rewrite Nat.sub_diag. reflexivity. }
      assert (Hfirstn : forall k y, nth_error (firstn fp (u_die_ranges u)) k = Some y ->
                                   nth_error (u_die_ranges u) k = Some y).
      { intros k y Hk. assert (In y (firstn fp (u_die_ranges u))) by (eapply nth_error_In; eauto).
        clear - Hk. revert fp k Hk. induction (u_die_ranges u) as [|a l IH]; intros [|fp] [|k] Hk;
          cbn [firstn nth_error] in *; try discriminate; auto. eapply IH; eauto. }
      apply Hfirstn in Hfj. apply Hfirstn in Hfx.
      eapply (Hs j (length l1)); [lia| |]; rewrite nth_map.
      * rewrite Hfj. reflexivity.
      * rewrite Hfx. reflexivity.
    + (* d' after x would have been found first *)
      destruct Hh as [_ [Hc' Hl']]. pose proof (Hl2 d' Hd') as Hnone.
      rewrite (fn_hit_complete u pc d' info' Hc' Hl') in Hnone. discriminate.
  - left. split; [reflexivity|]. intros d info Hh.
    pose proof (Hin d info Hh) as Hd. apply in_rev in Hd.
    pose proof (first_some_none _ _ E d Hd) as Hn.
    destruct Hh as [_ [Hc Hl]]. rewrite (fn_hit_complete u pc d info Hc Hl) in Hn. discriminate.
Qed.

(* in terms of the specification [function_of] *)
Corollary find_function_in_unit_iff : forall u pc,
  sorted_keys (map dr_begin (u_die_ranges u)) ->
  (forall d, In d (u_die_ranges u) -> fn_lookup u (dr_off d) <> None) ->
  exists r, find_function_in_unit u pc = Ok r /\
    (forall d info, r = Some (d, info) -> function_of (u_die_ranges u) pc (dr_off d)) /\
    (r = None <-> forall off, ~ function_of (u_die_ranges u) pc off).
Proof.
  intros u pc Hs Hall. destruct (find_function_in_unit_correct u pc Hs) as [[Hn Hno]|[d [info [Hr [Hh _]]]]].
  - exists None. split; [assumption|]. split; [discriminate|]. split; [|reflexivity].
    intros _ off [d [Hd [Ho Hc]]]. destruct (fn_lookup u (dr_off d)) as [info|] eqn:El.
    + apply (Hno d info). split; [assumption|split; assumption].
    + apply (Hall d Hd El).
  - exists (Some (d, info)). split; [assumption|]. split.
    + intros d0 i0 E. inversion E; subst. destruct Hh as [Hd [Hc _]]. exists d0. auto.
    + split; [discriminate|]. intros Hno. exfalso. destruct Hh as [Hd [Hc _]].
      apply (Hno (dr_off d)). exists d. auto.
Qed.

Lemma bind_ok_inv : forall {A B} (r : res A) (k : A -> res B) y,
  bind r k = Ok y -> exists a, r = Ok a /\ k a = Ok y.
Proof. intros A B [a|c|s|] k y H; cbn [bind] in H; try discriminate. eauto. Qed.

Ltac inv_bind H :=
  apply bind_ok_inv in H; let a := fresh "a" in let E := fresh "E" in destruct H as [a [E H]].

Lemma find_unit_from_nth : forall units pc i0 i u,
  find_unit_from i0 units pc = Ok (Some (i, u)) -> exists k, i = (i0 + k)%nat /\ nth_error units k = Some u.
Proof.
  induction units as [|v t IH]; intros pc i0 i u H; cbn [find_unit_from] in H; [discriminate|].
  inv_bind H. destruct a.
  - inversion H; subst. exists 0%nat. split; [lia|reflexivity].
  - destruct (IH pc (S i0) i u H) as [k [Hk Hn]]. exists (S k). split; [lia|exact Hn].
Qed.

(* global look-up: whatever is answered is a function of the answered unit containing pc *)
Theorem find_function_by_pc_sound : forall units pc ui d info,
  find_function_by_pc units pc = Ok (Some (ui, d, info)) ->
  exists u, nth_error units ui = Some u /\ fn_hit_ok u pc d info.
Proof.
  intros units pc ui d info H. unfold find_function_by_pc in H. inv_bind H.
  destruct a as [[vi v]|]; [|discriminate]. inv_bind H. destruct a as [[d' info']|]; [|discriminate].
  inversion H; subst. apply find_unit_from_nth in E. destruct E as [k [-> Hk]]. cbn [Nat.add].
  exists v. split; [assumption|]. apply find_function_in_unit_sound. assumption.
Qed.

(* FULL STATEMENT: "Some iff some unit has a function containing pc" - false when the first unit
   claiming pc is not the unit holding the function (overlapping / inconsistent unit ranges).
   PROVED when the function's unit is the first unit whose ranges contain pc. *)
Theorem find_function_by_pc_partial : forall units pc k u d info,
  units_ok units -> (forall v, In v units -> sorted_keys (map dr_begin (u_die_ranges v))) ->
  nth_error units k = Some u -> fn_hit_ok u pc d info -> unit_covers u pc ->
  (forall j v, (j < k)%nat -> nth_error units j = Some v -> ~ unit_covers v pc) ->
  exists d' info', find_function_by_pc units pc = Ok (Some (k, d', info')) /\ fn_hit_ok u pc d' info' /\
                   dr_begin d <= dr_begin d'.
Proof.
  intros units pc k u d info Hok Hsd Hk Hh Hc Hfirst. unfold find_function_by_pc.
  destruct (find_unit_by_pc_partial units pc Hok) as [[_ Hno]|[k' [u' [Hr [Hk' [Hc' Hfirst']]]]]].
  - exfalso. apply (Hno u); [eapply nth_error_In; eauto|assumption].
  - assert (k' = k).
    { destruct (Nat.lt_trichotomy k' k) as [Hlt|[Heq|Hgt]]; [|assumption|].
      - exfalso. apply (Hfirst k' u' Hlt Hk' Hc').
      - exfalso. apply (Hfirst' k u Hgt Hk Hc). }
    subst k'. assert (u' = u) by congruence. subst u'. rewrite Hr. cbn [bind].
    destruct (find_function_in_unit_correct u pc (Hsd u (nth_error_In _ _ Hk))) as [[_ Hno]|[d' [info' [Hf [Hh' Hmax]]]]].
    + exfalso. apply (Hno d info Hh).
    + rewrite Hf. cbn [bind]. exists d', info'. split; [reflexivity|]. split; [assumption|]. eapply Hmax; eauto.
Qed.

(* ------------------------------------------------------------------------------------------ *)
(* function -> breakpoint address (prolog_end_place, bounded walk since 6aa083d)              *)
(* ------------------------------------------------------------------------------------------ *)

Definition in_fn (g : fn_info) (x : row) : bool := addr_in_fn g (r_addr x).

Lemma mk_place_files_ok : forall u i r, files_ok u -> In r (u_rows u) -> mk_place u i r = Ok (i, r).
Proof.
  intros u i r Hf Hr. unfold mk_place. specialize (Hf r Hr).
  destruct (N.ltb_spec (r_file r) (u_nfiles u)); [reflexivity|lia].
Qed.

(* next_in_function: either the next non-end_sequence row inside the function, all rows skipped
   being end_sequence rows inside the function, or None because the walk met the end of the table or
   a row outside the function at index s *)
Lemma next_in_fn_l_spec : forall u g, files_ok u -> forall l idx,
  (forall n, nth_error l n = nth_error (u_rows u) (idx + n)) ->
  (exists j x, next_in_fn_l u g idx l = Ok (Some (j, x)) /\ (idx <= j)%nat /\
     nth_error (u_rows u) j = Some x /\ r_es x = false /\ in_fn g x = true /\
     forall m y, (idx <= m < j)%nat -> nth_error (u_rows u) m = Some y -> r_es y = true /\ in_fn g y = true) \/
  (exists s, next_in_fn_l u g idx l = Ok None /\ (idx <= s)%nat /\
     (forall m y, (idx <= m < s)%nat -> nth_error (u_rows u) m = Some y -> r_es y = true /\ in_fn g y = true) /\
     (forall y, nth_error (u_rows u) s = Some y -> in_fn g y = false)).
Proof.
  intros u g Hf. induction l as [|r t IH]; intros idx Hl.
  - right. exists idx. split; [reflexivity|]. split; [lia|]. split; [intros; lia|].
    intros y Hy. specialize (Hl 0%nat). rewrite Nat.add_0_r in Hl. cbn in Hl. congruence.
  - assert (Hr : nth_error (u_rows u) idx = Some r).
    { specialize (Hl 0%nat). rewrite Nat.add_0_r in Hl. cbn in Hl. congruence. }
    cbn [next_in_fn_l]. rewrite (mk_place_files_ok u idx r Hf (nth_error_In _ _ Hr)). cbn [bind].
    fold (in_fn g r). destruct (r_es r) eqn:Hes; destruct (in_fn g r) eqn:Hin; cbn [andb negb].
    + destruct (IH (S idx)) as [[j [x [H1 [H2 [H3 [H4 [H5 H6]]]]]]]|[s [H1 [H2 [H3 H4]]]]].
      { intros n. specialize (Hl (S n)). cbn [nth_error] in Hl. rewrite Hl. f_equal. lia. }
      * left. exists j, x. split; [assumption|]. split; [lia|]. split; [assumption|]. split; [assumption|].
        split; [assumption|]. intros m y Hm Hy. destruct (Nat.eq_dec m idx) as [->|Hne].
        -- assert (y = r) by congruence. subst y. auto.
        -- apply (H6 m y); [lia|assumption].
      * right. exists s. split; [assumption|]. split; [lia|]. split; [|assumption].
        intros m y Hm Hy. destruct (Nat.eq_dec m idx) as [->|Hne].
        -- assert (y = r) by congruence. subst y. auto.
        -- apply (H3 m y); [lia|assumption].
    + right. exists idx. split; [reflexivity|]. split; [lia|]. split; [intros; lia|].
      intros y Hy. assert (y = r) by congruence. subst y. assumption.
    + left. exists idx, r. split; [reflexivity|]. split; [lia|]. split; [assumption|]. split; [assumption|].
      split; [assumption|]. intros; lia.
    + right. exists idx. split; [reflexivity|]. split; [lia|]. split; [intros; lia|].
      intros y Hy. assert (y = r) by congruence. subst y. assumption.
Qed.

Lemma next_in_fn_spec : forall u g, files_ok u -> forall k xk,
  (exists j x, next_in_fn u g (k, xk) = Ok (Some (j, x)) /\ (k < j)%nat /\
     nth_error (u_rows u) j = Some x /\ r_es x = false /\ in_fn g x = true /\
     forall m y, (k < m < j)%nat -> nth_error (u_rows u) m = Some y -> r_es y = true /\ in_fn g y = true) \/
  (exists s, next_in_fn u g (k, xk) = Ok None /\ (k < s)%nat /\
     (forall m y, (k < m < s)%nat -> nth_error (u_rows u) m = Some y -> r_es y = true /\ in_fn g y = true) /\
     (forall y, nth_error (u_rows u) s = Some y -> in_fn g y = false)).
Proof.
  intros u g Hf k xk. unfold next_in_fn. cbn [fst].
  destruct (next_in_fn_l_spec u g Hf (skipn (S k) (u_rows u)) (S k)) as [[j [x [H1 [H2 [H3 [H4 [H5 H6]]]]]]]|[s [H1 [H2 [H3 H4]]]]].
  { intros n. apply nth_skipn. }
  - left. exists j, x. split; [assumption|]. split; [lia|]. split; [assumption|]. split; [assumption|].
    split; [assumption|]. intros m y Hm Hy. apply (H6 m y); [lia|assumption].
  - right. exists s. split; [assumption|]. split; [lia|]. split; [|assumption].
    intros m y Hm Hy. apply (H3 m y); [lia|assumption].
Qed.

(* [reach u g i k]: from the start row i the rows up to k are all inside the function's ranges *)
Definition reach (u : unit) (g : fn_info) (i k : nat) : Prop :=
  (i <= k)%nat /\ forall m y, (i <= m <= k)%nat -> nth_error (u_rows u) m = Some y -> in_fn g y = true.

Lemma prolog_walk_ok : forall u g i ri, files_ok u ->
  nth_error (u_rows u) i = Some ri -> r_es ri = false -> in_fn g ri = true ->
  forall fuel k xk,
  nth_error (u_rows u) k = Some xk -> r_es xk = false -> reach u g i k ->
  (forall m y, (i <= m < k)%nat -> nth_error (u_rows u) m = Some y -> r_es y = false -> r_pe y = false) ->
  (length (u_rows u) - k <= fuel)%nat ->
  exists j rj, prolog_walk u g (i, ri) fuel (k, xk) = Ok (j, rj) /\
    nth_error (u_rows u) j = Some rj /\ r_es rj = false /\ reach u g i j /\
    (r_pe rj = true \/
     forall m y, reach u g i m -> nth_error (u_rows u) m = Some y -> r_es y = false -> r_pe y = false).
Proof.
  intros u g i ri Hf Hi Hies Hiin. induction fuel as [|fuel IH]; intros k xk Hk Hkes Hreach Hnope Hfuel.
  - assert (k < length (u_rows u))%nat by (apply nth_error_Some; congruence). lia.
  - assert (Hkl : (k < length (u_rows u))%nat) by (apply nth_error_Some; congruence).
    cbn [prolog_walk snd]. destruct (r_pe xk) eqn:Hpe.
    + exists k, xk. split; [reflexivity|]. split; [assumption|]. split; [assumption|]. split; [assumption|]. left. assumption.
    + destruct Hreach as [Hik Hin].
      destruct (next_in_fn_spec u g Hf k xk) as [[j [x [H1 [H2 [H3 [H4 [H5 H6]]]]]]]|[s [H1 [H2 [H3 H4]]]]].
      * rewrite H1. cbn [bind]. apply IH; try assumption; try lia.
        -- split; [lia|]. intros m y Hm Hy. destruct (Nat.le_gt_cases m k) as [Hle|Hgt]; [apply (Hin m y); [lia|assumption]|].
           destruct (Nat.eq_dec m j) as [->|Hne]; [congruence|]. apply (H6 m y); [lia|assumption].
        -- intros m y Hm Hy Hyes. destruct (Nat.lt_trichotomy m k) as [Hlt|[->|Hgt]].
           ++ apply (Hnope m y); [lia|assumption|assumption].
           ++ congruence.
           ++ destruct (H6 m y) as [He _]; [lia|assumption|]. congruence.
      * rewrite H1. cbn [bind].
        assert (Hnone : forall m y, reach u g i m -> nth_error (u_rows u) m = Some y -> r_es y = false -> r_pe y = false).
        { intros m y [Him Hmin] Hy Hyes. destruct (Nat.lt_trichotomy m k) as [Hlt|[->|Hgt]].
          - apply (Hnope m y); [lia|assumption|assumption].
          - congruence.
          - destruct (Nat.lt_ge_cases m s) as [Hms|Hms].
            + destruct (H3 m y) as [He _]; [lia|assumption|]. congruence.
            + exfalso. assert (s < length (u_rows u))%nat.
              { assert (m < length (u_rows u))%nat by (apply nth_error_Some; congruence). lia. }
              destruct (nth_error (u_rows u) s) as [ys|] eqn:Hys; [|apply nth_error_None in Hys; lia].
              specialize (H4 ys eq_refl). specialize (Hmin s ys ltac:(lia) Hys). congruence. }
        destruct (next_in_fn_spec u g Hf i ri) as [[j [x [G1 [G2 [G3 [G4 [G5 G6]]]]]]]|[s' [G1 _]]].
        -- rewrite G1. cbn [bind]. exists j, x. split; [reflexivity|]. split; [assumption|]. split; [assumption|].
           split; [|right; assumption].
           split; [lia|]. intros m y Hm Hy. destruct (Nat.eq_dec m i) as [->|Hne]; [congruence|].
           destruct (Nat.eq_dec m j) as [->|Hne']; [congruence|]. apply (G6 m y); [lia|assumption].
        -- rewrite G1. cbn [bind]. exists i, ri. split; [reflexivity|]. split; [assumption|]. split; [assumption|].
           split; [|right; assumption].
           split; [lia|]. intros m y Hm Hy. assert (m = i) by lia. subst m. congruence.
Qed.

Lemma find_place_by_pc_nth : forall u pc i r, find_place_by_pc u pc = Ok (Some (i, r)) ->
  nth_error (u_rows u) i = Some r.
Proof.
  intros u pc i r H. unfold find_place_by_pc in H. inv_bind H. destruct a as [pos|]; [|discriminate].
  unfold find_place_by_idx in H.
  destruct (nth_error (u_rows u) pos) as [x|] eqn:Hx; [|discriminate]. unfold mk_place in H.
  destruct (r_file x <? u_nfiles u); cbn [bind] in H; [|discriminate]. inversion H; subst. assumption.
Qed.

Lemma prolog_start_place_nth : forall units f ui i r, prolog_start_place units f = Ok (ui, (i, r)) ->
  exists u, nth_error units ui = Some u /\ nth_error (u_rows u) i = Some r.
Proof.
  intros units f ui i r H. unfold prolog_start_place in H. inv_bind H. inv_bind H.
  destruct a0 as [q|]; [|discriminate]. inversion H; subst. clear H.
  unfold find_place_from_pc in E0. inv_bind E0. destruct a0 as [[vi v]|]; [|discriminate]. inv_bind E0.
  destruct a0 as [[j x]|]; cbn [option_map] in E0; [|discriminate]. inversion E0; subst.
  apply find_unit_from_nth in E1. destruct E1 as [k [-> Hk]]. cbn [Nat.add].
  exists v. split; [assumption|]. eapply find_place_by_pc_nth; eauto.
Qed.

(* HEADLINE function -> address.  If the place found for the function's lowest address is a
   non-end_sequence row inside the function (true whenever the line table has a row at the function's
   low pc), then `break f` resolves to a non-end_sequence row INSIDE the function's ranges, reached from
   the start row through rows of the function only; it is a prologue_end row, or else no
   non-end_sequence row reachable that way is a prologue_end row.  Never OutOfFuel / panic.
   (Former witnesses W5, W6.) *)
Theorem prolog_end_place_inside : forall units f ui i r,
  (forall u, In u units -> files_ok u) ->
  prolog_start_place units f = Ok (ui, (i, r)) -> r_es r = false -> in_fn f r = true ->
  exists u j rj, nth_error units ui = Some u /\ nth_error (u_rows u) i = Some r /\
    prolog_end_place units f = Ok (ui, (j, rj)) /\ nth_error (u_rows u) j = Some rj /\
    r_es rj = false /\ in_fn f rj = true /\ reach u f i j /\
    (r_pe rj = true \/
     forall m y, reach u f i m -> nth_error (u_rows u) m = Some y -> r_es y = false -> r_pe y = false).
Proof.
  intros units f ui i r Hf Hs Hes Hin. destruct (prolog_start_place_nth units f ui i r Hs) as [u [Hu Hi]].
  destruct (prolog_walk_ok u f i r (Hf u (nth_error_In _ _ Hu)) Hi Hes Hin (length (u_rows u)) i r Hi Hes)
    as [j [rj [Hw [Hj [Hjes [Hreach Hpe]]]]]].
  - split; [lia|]. intros m y Hm Hy. assert (m = i) by lia. subst m. congruence.
  - intros; lia.
  - lia.
  - exists u, j, rj. split; [assumption|]. split; [assumption|]. split.
    + unfold prolog_end_place. rewrite Hs. cbn [bind fst snd]. rewrite Hu, Hw. reflexivity.
    + split; [assumption|]. split; [assumption|]. split; [|split; assumption].
      destruct Hreach as [Hij Hall]. apply (Hall j rj); [lia|assumption].
Qed.

(* decidable hypothesis under which the answer meets [fn_bp_ok]: every prologue_end row of the
   function (non-end_sequence, inside its ranges) has an index >= i and is reachable from row i
   through rows inside the function's ranges (true for a function whose rows are contiguous in the
   sorted vector) *)
Fixpoint count_in (g : fn_info) (l : list row) : nat :=
  match l with
  | x :: t => if in_fn g x then S (count_in g t) else O
  | [] => O
  end.
Fixpoint pe_idx_ok (g : fn_info) (lo hi : nat) (k : nat) (l : list row) : bool :=
  match l with
  | [] => true
  | x :: t => (negb (r_pe x && negb (r_es x) && in_fn g x) || ((lo <=? k)%nat && (k <? hi)%nat))
              && pe_idx_ok g lo hi (S k) t
  end.
Definition pe_reach_okb (u : unit) (g : fn_info) (i : nat) : bool :=
  pe_idx_ok g i (i + count_in g (skipn i (u_rows u)))%nat 0 (u_rows u).

Lemma count_in_spec : forall g l k x, (k < count_in g l)%nat -> nth_error l k = Some x -> in_fn g x = true.
Proof.
  intros g. induction l as [|r t IH]; intros k x Hk Hx; cbn [count_in] in Hk; [lia|].
  destruct (in_fn g r) eqn:Hr; [|lia]. destruct k as [|k]; cbn [nth_error] in Hx; [congruence|].
  apply (IH k x); [lia|assumption].
Qed.

Lemma pe_idx_ok_spec : forall g lo hi l k0, pe_idx_ok g lo hi k0 l = true ->
  forall n x, nth_error l n = Some x -> r_pe x = true -> r_es x = false -> in_fn g x = true ->
  (lo <= k0 + n < hi)%nat.
Proof.
  intros g lo hi. induction l as [|r t IH]; intros k0 H n x Hn Hpe Hes Hin; [destruct n; discriminate|].
  cbn [pe_idx_ok] in H. apply andb_true_iff in H. destruct H as [H1 H2]. destruct n as [|n]; cbn [nth_error] in Hn.
  - inversion Hn; subst. rewrite Hpe, Hes, Hin in H1. cbn in H1. apply andb_true_iff in H1. destruct H1 as [Ha Hb].
    apply Nat.leb_le in Ha. apply Nat.ltb_lt in Hb. lia.
  - specialize (IH (S k0) H2 n x Hn Hpe Hes Hin). lia.
Qed.

Lemma pe_reach_okb_ok : forall u g i, pe_reach_okb u g i = true ->
  forall k x, nth_error (u_rows u) k = Some x -> r_pe x = true -> r_es x = false -> in_fn g x = true -> reach u g i k.
Proof.
  intros u g i H k x Hk Hpe Hes Hin. unfold pe_reach_okb in H.
  pose proof (pe_idx_ok_spec _ _ _ _ _ H k x Hk Hpe Hes Hin) as Hb. cbn [Nat.add] in Hb.
  split; [lia|]. intros m y Hm Hy.
  apply (count_in_spec g (skipn i (u_rows u)) (m - i)%nat y); [lia|].
  rewrite nth_skipn. replace (i + (m - i))%nat with m by lia. assumption.
Qed.

(* FULL STATEMENT: the answer satisfies [fn_bp_ok] for every function - false for a function whose
   prologue_end row is separated from its first row by rows of another function (see
   fn_bp_split_ranges_refuted).  PROVED under [pe_reach_okb]. *)
Theorem fn_bp_partial : forall units f ui i r u,
  (forall v, In v units -> files_ok v) ->
  prolog_start_place units f = Ok (ui, (i, r)) -> nth_error units ui = Some u ->
  r_es r = false -> in_fn f r = true -> pe_reach_okb u f i = true ->
  exists j rj, prolog_end_place units f = Ok (ui, (j, rj)) /\ nth_error (u_rows u) j = Some rj /\
               fn_bp_ok u f rj = true.
Proof.
  intros units f ui i r u Hf Hs Hu Hes Hin Hb.
  destruct (prolog_end_place_inside units f ui i r Hf Hs Hes Hin)
    as [u' [j [rj [Hu' [Hi [Hp [Hj [Hjes [Hjin [Hreach Hpe]]]]]]]]]].
  assert (u' = u) by congruence. subst u'. exists j, rj. split; [assumption|]. split; [assumption|].
  unfold fn_bp_ok. fold (in_fn f rj). rewrite Hjin, Hjes. cbn [andb negb].
  destruct (fn_pe_rows u f) as [|x t] eqn:Hrows; [reflexivity|].
  destruct Hpe as [Hpe|Hnone]; [assumption|]. exfalso.
  assert (Hx : In x (fn_pe_rows u f)) by (rewrite Hrows; left; reflexivity).
  unfold fn_pe_rows in Hx. apply filter_In in Hx. destruct Hx as [Hxin Hx].
  apply andb_true_iff in Hx. destruct Hx as [Hx Hx3]. apply andb_true_iff in Hx. destruct Hx as [Hx1 Hx2].
  apply negb_true_iff in Hx2. apply In_nth_error in Hxin. destruct Hxin as [k Hk].
  pose proof (pe_reach_okb_ok u f i Hb k x Hk Hx1 Hx2 Hx3) as Hr.
  rewrite (Hnone k x Hr Hk Hx2) in Hx1. discriminate.
Qed.

(* the former witnesses, repaired *)
Definition gcc_unit : unit :=
  U [(16, 48)] 2
    [R 16 1 3 0 true false false false; R 20 1 4 0 true false false false;
     R 32 1 8 0 true false false false; R 36 1 9 0 true false false false; R 48 1 9 0 true false false true]
    [(16, 32, 100); (32, 48, 200)]
    [F 100 (Some [102]) [(16, 32)]; F 200 (Some [103]) [(32, 48)]].

Example fn_bp_w5_w6_repaired :
  prolog_end_place [gcc_unit] (F 100 (Some [102]) [(16, 32)]) = Ok (0%nat, (1%nat, R 20 1 4 0 true false false false)) /\
  prolog_end_place [gcc_unit] (F 200 (Some [103]) [(32, 48)]) = Ok (0%nat, (3%nat, R 36 1 9 0 true false false false)) /\
  prolog_end_place [wit_unit] (F 100 (Some [97]) [(16, 32)]) = Ok (0%nat, (0%nat, R 16 1 3 0 true false false false)) /\
  prolog_end_place [wit_unit] (F 200 (Some [98]) [(32, 48)]) = Ok (0%nat, (3%nat, R 36 1 8 5 true true false false)) /\
  pe_reach_okb wit_unit (F 200 (Some [98]) [(32, 48)]) 1 = true /\
  fn_bp_ok gcc_unit (F 100 (Some [102]) [(16, 32)]) (R 20 1 4 0 true false false false) = true.
Proof. vm_compute. repeat split; reflexivity. Qed.

(* REMAINING refutation 1 (contrived): a function with two ranges whose prologue_end row lies in
   the second one, rows of another function in between: the walk stops at the foreign row and the
   second row of the function is answered although the function has a prologue_end row. *)
Theorem fn_bp_split_ranges_refuted :
  exists u f, sorted_rowsb (u_rows u) = true /\ files_okb u = true /\ fn_lookup u (f_off f) = Some f /\
    exists j rj, prolog_end_place [u] f = Ok (0%nat, (j, rj)) /\ in_fn f rj = true /\ r_es rj = false /\
                 fn_pe_rows u f <> [] /\ r_pe rj = false /\ fn_bp_ok u f rj = false.
Proof.
  exists (U [(16, 64)] 2
            [R 16 1 3 0 true false false false; R 20 1 4 0 true false false false; R 32 1 4 0 true false false true;
             R 32 1 9 0 true false false false; R 48 1 9 0 true false false true;
             R 48 1 5 0 true true false false; R 64 1 5 0 true false false true]
            [(16, 32, 100); (32, 48, 200); (48, 64, 100)]
            [F 100 (Some [102]) [(16, 32); (48, 64)]; F 200 (Some [103]) [(32, 48)]]),
         (F 100 (Some [102]) [(16, 32); (48, 64)]).
  repeat split; try (vm_compute; reflexivity).
  exists 1%nat, (R 20 1 4 0 true false false false). repeat split; try (vm_compute; reflexivity).
  vm_compute. discriminate.
Qed.

(* REMAINING refutation 2 (unusual tables): no row at the function's low pc.  The start place is then
   the last row BEFORE the function; if that row is a prologue_end row it is answered as is. *)
Theorem fn_bp_no_row_at_low_pc_refuted :
  exists u f, sorted_rowsb (u_rows u) = true /\ files_okb u = true /\ fn_lookup u (f_off f) = Some f /\
    exists j rj, prolog_end_place [u] f = Ok (0%nat, (j, rj)) /\ in_fn f rj = false.
Proof.
  exists (U [(16, 48)] 2
            [R 16 1 3 0 true true false false; R 36 1 8 0 true false false false; R 48 1 8 0 true false false true]
            [(16, 32, 100); (32, 48, 200)]
            [F 100 (Some [102]) [(16, 32)]; F 200 (Some [103]) [(32, 48)]]),
         (F 200 (Some [103]) [(32, 48)]).
  repeat split; try (vm_compute; reflexivity).
  exists 0%nat, (R 16 1 3 0 true true false false). vm_compute. split; reflexivity.
Qed.

(* ------------------------------------------------------------------------------------------ *)
(* file:line -> places (find_closest_place, rewritten in 0bd2878)                             *)
(* ------------------------------------------------------------------------------------------ *)

Lemma file_lines_from_in : forall rows f i0 i,
  In i (file_lines_from i0 rows f) <->
  exists k r, i = (i0 + k)%nat /\ nth_error rows k = Some r /\ r_file r = f.
Proof.
  induction rows as [|x t IH]; intros f i0 i; cbn [file_lines_from].
  - split; [intros []|]. intros [k [r [_ [H _]]]]. destruct k; discriminate.
  - destruct (N.eqb_spec (r_file x) f) as [He|Hne].
    + split.
      * intros [<-|H].
        -- exists 0%nat, x. split; [lia|]. split; [reflexivity|assumption].
        -- apply IH in H. destruct H as [k [r [-> [Hk Hf]]]]. exists (S k), r. split; [lia|]. split; assumption.
      * intros [k [r [-> [Hk Hf]]]]. destruct k as [|k].
        -- left. lia.
        -- right. apply IH. exists k, r. split; [lia|]. split; assumption.
    + rewrite IH. split.
      * intros [k [r [-> [Hk Hf]]]]. exists (S k), r. split; [lia|]. split; assumption.
      * intros [k [r [-> [Hk Hf]]]]. destruct k as [|k].
        -- cbn [nth_error] in Hk. inversion Hk; subst. contradiction.
        -- exists k, r. split; [lia|]. split; assumption.
Qed.

Lemma file_lines_in : forall u f i,
  In i (file_lines u f) <-> exists r, nth_error (u_rows u) i = Some r /\ r_file r = f.
Proof.
  intros u f i. unfold file_lines. rewrite file_lines_from_in. split.
  - intros [k [r [-> H]]]. exists r. exact H.
  - intros [r H]. exists i, r. split; [reflexivity|exact H].
Qed.

Lemma line_at_ok : forall u i r, line_at u i = Ok r -> nth_error (u_rows u) i = Some r.
Proof. intros u i r H. unfold line_at in H. destruct (nth_error (u_rows u) i); inversion H; reflexivity. Qed.

Lemma mk_place_ok : forall u i r p, mk_place u i r = Ok p -> p = (i, r).
Proof. intros u i r p H. unfold mk_place in H. destruct (r_file r <? u_nfiles u); inversion H; reflexivity. Qed.

(* boolean key equality is Leibniz equality *)
Lemma list_eqb_eq : forall {A} (e : A -> A -> bool), (forall x y, e x y = true <-> x = y) ->
  forall l1 l2, list_eqb e l1 l2 = true <-> l1 = l2.
Proof.
  intros A e He. induction l1 as [|x l1 IH]; intros [|y l2]; cbn [list_eqb]; split; intros H;
    try reflexivity; try discriminate.
  - apply andb_true_iff in H. destruct H as [H1 H2]. apply He in H1. apply IH in H2. congruence.
  - inversion H; subst. apply andb_true_iff. split; [apply He; reflexivity|apply IH; reflexivity].
Qed.

Lemma fkey_eqb_eq : forall a b : option bstr * list (N * N), fkey_eqb a b = true <-> a = b.
Proof.
  intros [n1 r1] [n2 r2]. unfold fkey_eqb. cbn [fst snd]. rewrite andb_true_iff.
  assert (Hn : oname_eqb n1 n2 = true <-> n1 = n2).
  { destruct n1 as [x|], n2 as [y|]; cbn [oname_eqb]; try (split; congruence).
    unfold bstr_eqb. rewrite (list_eqb_eq N.eqb N.eqb_eq). split; congruence. }
  assert (Hr : list_eqb range_eqb r1 r2 = true <-> r1 = r2).
  { apply list_eqb_eq. intros [a b] [c d]. unfold range_eqb. cbn [fst snd]. rewrite andb_true_iff, !N.eqb_eq.
    split; [intros [-> ->]; reflexivity|intros H; inversion H; auto]. }
  rewrite Hn, Hr. split; [intros [-> ->]; reflexivity|intros H; inversion H; auto].
Qed.

Lemma existsb_fkey : forall k (l : list (option bstr * list (N * N))), existsb (fkey_eqb k) l = true <-> In k l.
Proof.
  intros k l. rewrite existsb_exists. split.
  - intros [x [Hx He]]. apply fkey_eqb_eq in He. subst. assumption.
  - intros H. exists k. split; [assumption|apply fkey_eqb_eq; reflexivity].
Qed.

(* the subprogram key find_function_by_pc gives to an address / to a place *)
Definition akey (units : list unit) (a : N) : option (option bstr * list (N * N)) :=
  match find_function_by_pc units a with
  | Ok (Some (_, _, info)) => Some (fkey_of info)
  | _ => None
  end.
Definition pkey (units : list unit) (q : nat * (nat * row)) := akey units (r_addr (snd (snd q))).

Notation keys_of acc := (filter_map fst acc).

Lemma filter_map_app : forall {A B} (f : A -> option B) l1 l2,
  filter_map f (l1 ++ l2) = filter_map f l1 ++ filter_map f l2.
Proof.
  induction l1 as [|x l1 IH]; intros l2; cbn [app filter_map]; [reflexivity|].
  destruct (f x); cbn [app]; rewrite IH; reflexivity.
Qed.

Lemma in_filter_map : forall {A B} (f : A -> option B) l y,
  In y (filter_map f l) <-> exists x, In x l /\ f x = Some y.
Proof.
  induction l as [|a l IH]; intros y; cbn [filter_map].
  - split; [intros []|intros [x [[] _]]].
  - destruct (f a) as [b|] eqn:Ha.
    + split.
      * intros [<-|H]; [exists a; split; [left; reflexivity|exact Ha]|].
        apply IH in H. destruct H as [x [Hx Hf]]. exists x. split; [right; exact Hx|exact Hf].
      * intros [x [[<-|Hx] Hf]]; [left; congruence|]. right. apply IH. exists x. split; assumption.
    + rewrite IH. split.
      * intros [x [Hx Hf]]. exists x. split; [right; exact Hx|exact Hf].
      * intros [x [[<-|Hx] Hf]]; [congruence|]. exists x. split; assumption.
Qed.

(* facts about the update of places_in_unit *)
Lemma upd_acc_spec : forall k p acc,
  (forall e, In e (upd_acc k p acc) -> In e acc \/ e = (Some k, p)) /\
  (forall e, In e acc -> fst e <> Some k -> In e (upd_acc k p acc)) /\
  (exists p', In (Some k, p') (upd_acc k p acc)) /\
  (forall k', In k' (keys_of (upd_acc k p acc)) <-> In k' (keys_of acc) \/ k' = k) /\
  (NoDup (keys_of acc) -> NoDup (keys_of (upd_acc k p acc))).
Proof.
  intros k p. induction acc as [|[ko c] t [IH1 [IH2 [IH3 [IH4 IH5]]]]]; cbn [upd_acc].
  - split; [intros e [<-|[]]; right; reflexivity|]. split; [intros e []|]. split; [exists p; left; reflexivity|].
    split; [cbn; intros k'; split; [intros [<-|[]]; right; reflexivity|intros [[] | ->]; left; reflexivity]|].
    intros _. cbn. constructor; [intros []|constructor].
  - destruct (okey_is k ko) eqn:Hk.
    + destruct ko as [k0|]; [|discriminate]. cbn [okey_is] in Hk. apply fkey_eqb_eq in Hk. subst k0. split.
      { intros e [<-|He]; [|left; right; assumption].
        destruct (r_pe (snd p) && negb (r_pe (snd c))); [right; reflexivity|left; left; reflexivity]. }
      split.
      { intros e [<-|He] Hne; [cbn in Hne; congruence|right; assumption]. }
      split; [eexists; left; reflexivity|]. split.
      { intros k'. cbn [filter_map fst In]. split; [intros H; left; exact H|intros [H | ->]; [exact H|left; reflexivity]]. }
      intros H. exact H.
    + assert (Hne : ko <> Some k).
      { intros ->. cbn [okey_is] in Hk. rewrite (proj2 (fkey_eqb_eq k k) eq_refl) in Hk. discriminate. }
      split.
      { intros e [<-|He]; [left; left; reflexivity|]. destruct (IH1 e He); [left; right; assumption|right; assumption]. }
      split.
      { intros e [<-|He] Hn; [left; reflexivity|right; apply IH2; assumption]. }
      split; [destruct IH3 as [p' Hp']; exists p'; right; assumption|]. split.
      { intros k'. destruct ko as [k0|]; cbn [filter_map fst].
        - cbn [In]. rewrite IH4. tauto.
        - apply IH4. }
      intros Hnd. destruct ko as [k0|]; cbn [filter_map fst] in *; [|apply IH5; assumption].
      inversion Hnd; subst. constructor; [|apply IH5; assumption].
      intros Hin. apply IH4 in Hin. destruct Hin as [Hin | ->]; [contradiction|congruence].
Qed.

(* candidate rows of the line in a unit: is_stmt, not end_sequence *)
Definition cand_row (needle : N) (r : row) : Prop := r_line r = needle /\ r_stmt r = true /\ r_es r = false.

Lemma cand_row_dec : forall needle r,
  (negb (r_line r =? needle) || negb (r_stmt r) || r_es r) = false <-> cand_row needle r.
Proof.
  intros needle r. unfold cand_row. rewrite !orb_false_iff, !negb_false_iff, N.eqb_eq. tauto.
Qed.

(* invariant-style specification of the per-unit loop *)
Lemma group_rows_spec : forall units u needle seen fl acc acc',
  group_rows units u needle seen acc fl = Ok acc' ->
  (* soundness of new entries *)
  (forall e, In e acc' -> In e acc \/
     exists i r, snd e = (i, r) /\ In i fl /\ nth_error (u_rows u) i = Some r /\ cand_row needle r /\
                 fst e = akey units (r_addr r) /\ (forall k, fst e = Some k -> ~ In k seen)) /\
  (* keys stay distinct *)
  (NoDup (keys_of acc) -> NoDup (keys_of acc')) /\
  (* nothing is lost *)
  (forall c, In (None, c) acc -> In (None, c) acc') /\
  (forall k p, In (Some k, p) acc -> exists p', In (Some k, p') acc') /\
  (* completeness *)
  (forall i r, In i fl -> nth_error (u_rows u) i = Some r -> cand_row needle r ->
     match akey units (r_addr r) with
     | None => In (None, (i, r)) acc'
     | Some k => In k seen \/ exists p, In (Some k, p) acc'
     end).
Proof.
  intros units u needle seen. induction fl as [|i t IH]; intros acc acc' H; cbn [group_rows] in H.
  - inversion H; subst. split; [intros e He; left; exact He|]. split; [auto|]. split; [auto|].
    split; [intros k p Hp; exists p; exact Hp|]. intros i r [].
  - inv_bind H. apply line_at_ok in E.
    destruct (negb (r_line a =? needle) || negb (r_stmt a) || r_es a) eqn:Hc.
    + destruct (IH _ _ H) as [S1 [S2 [S3 [S4 S5]]]]. split.
      { intros e He. destruct (S1 e He) as [Hl|[j [r [H1 [H2 H3]]]]]; [left; exact Hl|].
        right. exists j, r. split; [exact H1|]. split; [right; exact H2|exact H3]. }
      split; [exact S2|]. split; [exact S3|]. split; [exact S4|].
      intros j r [<-|Hj] Hr Hcand; [|apply S5; assumption].
      exfalso. assert (a = r) by congruence. subst a. apply cand_row_dec in Hcand. congruence.
    + apply cand_row_dec in Hc. inv_bind H. apply mk_place_ok in E0. subst a0. inv_bind H.
      assert (Hak : akey units (r_addr a) =
                    match a0 with Some (_, _, info) => Some (fkey_of info) | None => None end).
      { unfold akey. rewrite E0. destruct a0 as [[[? ?] ?]|]; reflexivity. }
      destruct a0 as [[[vi d] info]|].
      * destruct (existsb (fkey_eqb (fkey_of info)) seen) eqn:Hex.
        -- apply existsb_fkey in Hex. destruct (IH _ _ H) as [S1 [S2 [S3 [S4 S5]]]]. split.
           { intros e He. destruct (S1 e He) as [Hl|[j [r [H1 [H2 H3]]]]]; [left; exact Hl|].
             right. exists j, r. split; [exact H1|]. split; [right; exact H2|exact H3]. }
           split; [exact S2|]. split; [exact S3|]. split; [exact S4|].
           intros j r [<-|Hj] Hr Hcand; [|apply S5; assumption].
           assert (a = r) by congruence. subst a. rewrite Hak. left. exact Hex.
        -- assert (Hns : ~ In (fkey_of info) seen).
           { intros Hin. apply existsb_fkey in Hin. congruence. }
           destruct (upd_acc_spec (fkey_of info) (i, a) acc) as [U1 [U2 [U3 [U4 U5]]]].
           destruct (IH _ _ H) as [S1 [S2 [S3 [S4 S5]]]]. split.
           { intros e He. destruct (S1 e He) as [Hl|[j [r [H1 [H2 H3]]]]].
             - destruct (U1 e Hl) as [Hold | ->]; [left; exact Hold|].
               right. exists i, a. cbn [fst snd]. split; [reflexivity|]. split; [left; reflexivity|].
               split; [exact E|]. split; [exact Hc|]. split; [symmetry; exact Hak|].
               intros k Hk. inversion Hk; subst. exact Hns.
             - right. exists j, r. split; [exact H1|]. split; [right; exact H2|exact H3]. }
           split; [intros Hnd; apply S2; apply U5; exact Hnd|].
           split; [intros c Hc'; apply S3; apply U2; [exact Hc'|discriminate]|].
           split.
           { intros k p Hp. destruct (fkey_eqb k (fkey_of info)) eqn:Hke.
             - apply fkey_eqb_eq in Hke. subst k. destruct U3 as [p' Hp']. apply (S4 _ _ Hp').
             - apply (S4 k p). apply U2; [exact Hp|]. cbn [fst]. intros Heq. inversion Heq; subst.
               rewrite (proj2 (fkey_eqb_eq _ _) eq_refl) in Hke. discriminate. }
           intros j r [<-|Hj] Hr Hcand; [|apply S5; assumption].
           assert (a = r) by congruence. subst a. rewrite Hak. right.
           destruct U3 as [p' Hp']. apply (S4 _ _ Hp').
      * destruct (IH _ _ H) as [S1 [S2 [S3 [S4 S5]]]]. split.
        { intros e He. destruct (S1 e He) as [Hl|[j [r [H1 [H2 H3]]]]].
          - apply in_app_or in Hl. destruct Hl as [Hold|[<-|[]]]; [left; exact Hold|].
            right. exists i, a. cbn [fst snd]. split; [reflexivity|]. split; [left; reflexivity|].
            split; [exact E|]. split; [exact Hc|]. split; [symmetry; exact Hak|]. intros k Hk. discriminate.
          - right. exists j, r. split; [exact H1|]. split; [right; exact H2|exact H3]. }
        split.
        { intros Hnd. apply S2. rewrite filter_map_app. cbn [filter_map fst]. rewrite app_nil_r. exact Hnd. }
        split; [intros c Hc'; apply S3; apply in_or_app; left; exact Hc'|].
        split; [intros k p Hp; apply (S4 k p); apply in_or_app; left; exact Hp|].
        intros j r [<-|Hj] Hr Hcand; [|apply S5; assumption].
        assert (a = r) by congruence. subst a. rewrite Hak. apply S3. apply in_or_app. right. left. reflexivity.
Qed.

Lemma stmt_row_intro : forall f line r, r_file r = f -> cand_row line r -> stmt_row f line r = true.
Proof.
  intros f line r Hf [Hl [Hs He]]. unfold stmt_row. rewrite Hf, Hl, !N.eqb_refl, Hs, He. reflexivity.
Qed.

Lemma stmt_row_elim : forall f line r, stmt_row f line r = true -> r_file r = f /\ cand_row line r.
Proof.
  intros f line r H. unfold stmt_row in H. repeat (apply andb_true_iff in H; destruct H as [H ?]).
  apply N.eqb_eq in H. apply N.eqb_eq in H2. apply negb_true_iff in H0. unfold cand_row. auto.
Qed.

Lemma keys_of_places : forall units (ui : nat) (acc : list (option (option bstr * list (N * N)) * (nat * row))),
  (forall e, In e acc -> fst e = akey units (r_addr (snd (snd e)))) ->
  filter_map (pkey units) (map (fun e => (ui, snd e)) acc) = keys_of acc.
Proof.
  intros units ui. induction acc as [|e t IH]; intros H; [reflexivity|].
  cbn [map filter_map]. unfold pkey at 1. cbn [snd]. rewrite <- (H e (or_introl eq_refl)).
  destruct (fst e); rewrite IH; auto; intros e' He'; apply H; right; exact He'.
Qed.

Lemma NoDup_app_disj : forall {A} (l1 l2 : list A), NoDup l1 -> NoDup l2 ->
  (forall x, In x l1 -> ~ In x l2) -> NoDup (l1 ++ l2).
Proof.
  induction l1 as [|x l1 IH]; intros l2 H1 H2 Hd; [exact H2|]. cbn [app]. inversion H1; subst.
  constructor.
  - intros Hin. apply in_app_or in Hin. destruct Hin as [Hin|Hin]; [contradiction|]. apply (Hd x); [left; reflexivity|exact Hin].
  - apply IH; auto. intros y Hy. apply Hd. right. exact Hy.
Qed.

(* specification of one pass over the files *)
Lemma closest_units_spec : forall units needle files seen seen' out,
  closest_units units needle files seen = Ok (seen', out) ->
  (forall q, In q out -> is_line_place units files needle q /\ (forall k, pkey units q = Some k -> ~ In k seen)) /\
  NoDup (filter_map (pkey units) out) /\
  (out = [] -> seen' = seen) /\
  (forall ui f u i r, In (ui, f) files -> nth_error units ui = Some u ->
     nth_error (u_rows u) i = Some r -> stmt_row f needle r = true ->
     match akey units (r_addr r) with
     | None => In (ui, (i, r)) out
     | Some k => In k seen \/ exists q, In q out /\ pkey units q = Some k
     end).
Proof.
  intros units needle. induction files as [|[ui f] t IH]; intros seen seen' out H; cbn [closest_units] in H.
  - inversion H; subst. split; [intros q []|]. split; [constructor|]. split; [reflexivity|].
    intros ui f u i r [].
  - destruct (nth_error units ui) as [u|] eqn:Hu; [|discriminate].
    inv_bind H. inv_bind H. destruct a0 as [s2 o2]. cbn [fst snd] in H. inversion H; subst. clear H.
    destruct (group_rows_spec _ _ _ _ _ _ _ E) as [G1 [G2 [_ [_ G5]]]].
    destruct (IH _ _ _ E0) as [I1 [I2 [I3 I4]]].
    assert (Hacc : forall e, In e a -> exists i r, snd e = (i, r) /\ In i (file_lines u f) /\
               nth_error (u_rows u) i = Some r /\ cand_row needle r /\
               fst e = akey units (r_addr r) /\ (forall k, fst e = Some k -> ~ In k seen)).
    { intros e He. destruct (G1 e He) as [[]|Hx]. exact Hx. }
    assert (Hkeys : filter_map (pkey units) (map (fun e => (ui, snd e)) a) = keys_of a).
    { apply keys_of_places. intros e He. destruct (Hacc e He) as [i [r [H1 [_ [_ [_ [H5 _]]]]]]].
      rewrite H1. cbn [snd]. exact H5. }
    split.
    { intros q Hq. apply in_app_or in Hq. destruct Hq as [Hq|Hq].
      - apply in_map_iff in Hq. destruct Hq as [e [<- He]].
        destruct (Hacc e He) as [i [r [H1 [H2 [H3 [H4 [H5 H6]]]]]]]. split.
        + apply file_lines_in in H2. destruct H2 as [r' [Hr' Hf]]. assert (r' = r) by congruence. subst r'.
          exists f, u. cbn [fst snd]. rewrite H1. cbn [fst snd]. split; [left; reflexivity|].
          split; [assumption|]. split; [assumption|]. apply stmt_row_intro; assumption.
        + intros k Hk. apply H6. unfold pkey in Hk. cbn [snd] in Hk. rewrite H1 in Hk. cbn [snd] in Hk. congruence.
      - destruct (I1 q Hq) as [[f' [u' [J1 J2]]] J3]. split.
        + exists f', u'. split; [right; assumption|assumption].
        + intros k Hk Hin. apply (J3 k Hk). apply in_or_app. right. exact Hin. }
    split.
    { rewrite filter_map_app, Hkeys. apply NoDup_app_disj; [apply G2; constructor|exact I2|].
      intros k Hk Hin. apply in_filter_map in Hin. destruct Hin as [q [Hq Hqk]].
      destruct (I1 q Hq) as [_ J3]. apply (J3 k Hqk). apply in_or_app. left. exact Hk. }
    split.
    { intros Hnil. apply app_eq_nil in Hnil. destruct Hnil as [Ha Ho]. apply map_eq_nil in Ha. subst a.
      cbn [filter_map app] in *. apply I3. exact Ho. }
    intros vi g v i r [Heq|Hin] Hv Hr Hst.
    + inversion Heq; subst. assert (v = u) by congruence. subst v.
      apply stmt_row_elim in Hst. destruct Hst as [Hf Hcand].
      assert (Hi : In i (file_lines u g)) by (apply file_lines_in; exists r; auto).
      specialize (G5 i r Hi Hr Hcand). destruct (akey units (r_addr r)) as [k|].
      * destruct G5 as [Hs|[p Hp]]; [left; exact Hs|]. right. exists (vi, p). split.
        -- apply in_or_app. left. apply in_map_iff. exists (Some k, p). split; [reflexivity|exact Hp].
        -- destruct (Hacc _ Hp) as [i' [r' [H1 [_ [_ [_ [H5 _]]]]]]]. cbn [fst snd] in *.
           unfold pkey. cbn [snd]. rewrite H1. cbn [snd]. congruence.
      * apply in_or_app. left. apply in_map_iff. exists (None, (i, r)). split; [reflexivity|exact G5].
    + specialize (I4 vi g v i r Hin Hv Hr Hst). destruct (akey units (r_addr r)) as [k|].
      * destruct I4 as [Hs|[q [Hq Hqk]]].
        -- apply in_app_or in Hs. destruct Hs as [Hs|Hs]; [|left; exact Hs]. right.
           apply in_filter_map in Hs. destruct Hs as [e [He Hek]].
           exists (ui, snd e). split; [apply in_or_app; left; apply in_map_iff; exists e; auto|].
           destruct (Hacc e He) as [i' [r' [H1 [_ [_ [_ [H5 _]]]]]]].
           unfold pkey. cbn [snd]. rewrite H1. cbn [snd]. congruence.
        -- right. exists q. split; [apply in_or_app; right; exact Hq|exact Hqk].
      * apply in_or_app. right. exact I4.
Qed.

(* the line the answer is about: L if it has code in the selected files, else L+1 (saturating) *)
Definition line1_of (line : N) : N := if line =? U64_MAX then U64_MAX else line + 1.
Definition chosen_line (units : list unit) (files : list (nat * N)) (line Lc : N) : Prop :=
  (Lc = line /\ line_has_code units files line) \/ (Lc = line1_of line /\ ~ line_has_code units files line).

Lemma chosen_line_unique : forall units files line a b,
  chosen_line units files line a -> chosen_line units files line b -> a = b.
Proof. intros units files line a b [[-> Ha]|[-> Ha]] [[-> Hb]|[-> Hb]]; try reflexivity; contradiction. Qed.

Lemma is_line_place_has_code : forall units files line q,
  is_line_place units files line q -> line_has_code units files line.
Proof.
  intros units files line q [f [u [H1 [H2 [H3 H4]]]]]. exists (fst q), f, u, (snd (snd q)).
  split; [assumption|]. split; [assumption|]. split; [eapply nth_error_In; eauto|assumption].
Qed.

(* what find_closest_place returns, for the chosen line *)
Lemma find_closest_place_spec : forall ovf units files line ps,
  find_closest_place ovf units files line = Ok ps ->
  exists Lc, chosen_line units files line Lc /\
    (forall q, In q ps -> is_line_place units files Lc q) /\
    NoDup (filter_map (pkey units) ps) /\
    (forall ui f u i r, In (ui, f) files -> nth_error units ui = Some u ->
       nth_error (u_rows u) i = Some r -> stmt_row f Lc r = true ->
       match akey units (r_addr r) with
       | None => In (ui, (i, r)) ps
       | Some k => exists q, In q ps /\ pkey units q = Some k
       end).
Proof.
  intros ovf units files line ps H. unfold find_closest_place in H. fold (line1_of line) in H.
  inv_bind H. destruct a as [s1 o1]. cbn [fst snd] in H.
  destruct (closest_units_spec _ _ _ _ _ _ E) as [A1 [A2 [A3 A4]]].
  destruct o1 as [|q o1].
  - inv_bind H. destruct a as [s2 o2]. cbn [snd] in H. inversion H; subst. rewrite (A3 eq_refl) in E0.
    assert (Hno : ~ line_has_code units files line).
    { intros [ui [f [u [r [Hin [Hu [Hr Hst]]]]]]]. apply In_nth_error in Hr. destruct Hr as [i Hi].
      specialize (A4 ui f u i r Hin Hu Hi Hst). destruct (akey units (r_addr r)); [|destruct A4].
      destruct A4 as [[]|[q [[] _]]]. }
    destruct (closest_units_spec _ _ _ _ _ _ E0) as [B1 [B2 [_ B4]]].
    exists (line1_of line). split; [right; split; [reflexivity|exact Hno]|].
    split; [intros q Hq; apply (B1 q Hq)|]. split; [exact B2|].
    intros ui f u i r Hin Hu Hr Hst. specialize (B4 ui f u i r Hin Hu Hr Hst).
    destruct (akey units (r_addr r)); [|exact B4]. destruct B4 as [[]|B4]. exact B4.
  - inversion H; subst. exists line. split.
    { left. split; [reflexivity|]. apply (is_line_place_has_code units files line q). apply (A1 q). left. reflexivity. }
    split; [intros p Hp; apply (A1 p Hp)|]. split; [exact A2|].
    intros ui f u i r Hin Hu Hr Hst. specialize (A4 ui f u i r Hin Hu Hr Hst).
    destruct (akey units (r_addr r)); [|exact A4]. destruct A4 as [[]|A4]. exact A4.
Qed.

(* HEADLINE 1 (soundness of `break file:L`), every u64 line, no hypothesis on the tables: every
   address chosen is an is_stmt, non-end_sequence row of line L of one of the selected files, or of
   L+1 and then L has no such row; and if L has code the answer is not empty. *)
Theorem find_closest_place_sound : forall ovf units files line ps,
  find_closest_place ovf units files line = Ok ps ->
  line_places_ok units files line ps /\ (line_has_code units files line -> ps <> []).
Proof.
  intros ovf units files line ps H.
  destruct (find_closest_place_spec _ _ _ _ _ H) as [Lc [Hc [Hs [_ Hcomp]]]]. split.
  - destruct Hc as [[-> _]|[-> Hno]]; [left; exact Hs|].
    unfold line1_of in Hs. destruct (N.eqb_spec line U64_MAX) as [He|Hne].
    + left. rewrite He. exact Hs.
    + right. split; [exact Hno|exact Hs].
  - intros Hcode Hnil. destruct Hc as [[-> _]|[_ Hno]]; [|contradiction]. subst ps.
    destruct Hcode as [ui [f [u [r [Hin [Hu [Hr Hst]]]]]]]. apply In_nth_error in Hr. destruct Hr as [i Hi].
    specialize (Hcomp ui f u i r Hin Hu Hi Hst). destruct (akey units (r_addr r)); [|destruct Hcomp].
    destruct Hcomp as [q [[] _]].
Qed.

(* HEADLINE 2: no two answered places belong to the same (name, ranges) subprogram *)
Theorem find_closest_place_one_per_key : forall ovf units files line ps,
  find_closest_place ovf units files line = Ok ps -> NoDup (filter_map (pkey units) ps).
Proof.
  intros ovf units files line ps H. destruct (find_closest_place_spec _ _ _ _ _ H) as [Lc [_ [_ [Hn _]]]]. exact Hn.
Qed.

(* HEADLINE 3 (completeness): every is_stmt non-end_sequence row of the chosen line is represented:
   its subprogram has a place in the answer, or - no subprogram found - the row itself is answered *)
Theorem find_closest_place_complete : forall ovf units files line ps Lc,
  find_closest_place ovf units files line = Ok ps -> chosen_line units files line Lc ->
  forall ui f u i r, In (ui, f) files -> nth_error units ui = Some u ->
    nth_error (u_rows u) i = Some r -> stmt_row f Lc r = true ->
    match akey units (r_addr r) with
    | None => In (ui, (i, r)) ps
    | Some k => exists q, In q ps /\ pkey units q = Some k
    end.
Proof.
  intros ovf units files line ps Lc H Hch.
  destruct (find_closest_place_spec _ _ _ _ _ H) as [Lc' [Hc [_ [_ Hcomp]]]].
  rewrite (chosen_line_unique _ _ _ _ _ Hch Hc). exact Hcomp.
Qed.

(* [g] is resolved consistently for the rows of line Lc: a candidate row lies in g's ranges iff
   find_function_by_pc attributes its address to g's key.  (True when the ranges of distinct
   subprograms are disjoint and the function's unit is the first that claims the address -
   find_function_by_pc_partial.)  Decidable: [fn_resolvesb]. *)
Definition fn_resolves (units : list unit) (files : list (nat * N)) (Lc : N) (g : fn_info) : Prop :=
  forall ui f u r, In (ui, f) files -> nth_error units ui = Some u -> In r (u_rows u) ->
    stmt_row f Lc r = true ->
    (addr_in_fn g (r_addr r) = true <-> akey units (r_addr r) = Some (fkey_of g)).

Definition okey_eqb (a b : option (option bstr * list (N * N))) : bool :=
  match a, b with Some x, Some y => fkey_eqb x y | None, None => true | _, _ => false end.
Definition fn_resolvesb (units : list unit) (files : list (nat * N)) (Lc : N) (g : fn_info) : bool :=
  forallb (fun uf => match nth_error units (fst uf) with
                     | None => true
                     | Some u => forallb (fun r => negb (stmt_row (snd uf) Lc r) ||
                                   Bool.eqb (addr_in_fn g (r_addr r)) (okey_eqb (akey units (r_addr r)) (Some (fkey_of g))))
                                 (u_rows u)
                     end) files.

Lemma fn_resolvesb_ok : forall units files Lc g, fn_resolvesb units files Lc g = true -> fn_resolves units files Lc g.
Proof.
  intros units files Lc g H ui f u r Hin Hu Hr Hst. unfold fn_resolvesb in H. rewrite forallb_forall in H.
  specialize (H (ui, f) Hin). cbn [fst snd] in H. rewrite Hu in H. rewrite forallb_forall in H.
  specialize (H r Hr). rewrite Hst in H. cbn [negb orb] in H. apply Bool.eqb_prop in H. rewrite H.
  destruct (akey units (r_addr r)) as [k|]; cbn [okey_eqb].
  - rewrite fkey_eqb_eq. split; congruence.
  - split; discriminate.
Qed.

Lemma nodup_key_split : forall {A B} (f : A -> option B) l q k,
  NoDup (filter_map f l) -> In q l -> f q = Some k ->
  exists l1 l2, l = l1 ++ q :: l2 /\ forall x, In x (l1 ++ l2) -> f x <> Some k.
Proof.
  intros A B f. induction l as [|a l IH]; intros q k Hnd Hin Hk; [destruct Hin|].
  cbn [filter_map] in Hnd. destruct Hin as [->|Hin].
  - rewrite Hk in Hnd. inversion Hnd; subst. exists [], l. split; [reflexivity|].
    intros x Hx Hfx. apply H1. apply in_filter_map. exists x. auto.
  - destruct (f a) as [b|] eqn:Ha.
    + inversion Hnd; subst. destruct (IH q k H2 Hin Hk) as [l1 [l2 [-> Hall]]].
      exists (a :: l1), l2. split; [reflexivity|]. intros x [<-|Hx] Hfx; [|apply (Hall x Hx Hfx)].
      apply H1. apply in_filter_map. exists q. split; [apply in_or_app; right; left; reflexivity|congruence].
    + destruct (IH q k Hnd Hin Hk) as [l1 [l2 [-> Hall]]].
      exists (a :: l1), l2. split; [reflexivity|]. intros x [<-|Hx] Hfx; [congruence|apply (Hall x Hx Hfx)].
Qed.

(* HEADLINE 4 ("every function or instantiation that contains the line gets its own breakpoint",
   former witnesses W3 and W4): a function g that is resolved consistently and has an is_stmt,
   non-end_sequence row of the chosen line in its ranges gets EXACTLY ONE of the answered addresses. *)
Theorem find_closest_place_one_per_function : forall ovf units files line ps Lc g ui f u,
  find_closest_place ovf units files line = Ok ps -> chosen_line units files line Lc ->
  fn_resolves units files Lc g ->
  In (ui, f) files -> nth_error units ui = Some u -> fn_has_line u f Lc g = true ->
  exists l1 q l2, ps = l1 ++ q :: l2 /\ addr_in_fn g (r_addr (snd (snd q))) = true /\
    forall x, In x (l1 ++ l2) -> addr_in_fn g (r_addr (snd (snd x))) = false.
Proof.
  intros ovf units files line ps Lc g ui f u H Hch Hres Hin Hu Hhas.
  destruct (find_closest_place_spec _ _ _ _ _ H) as [Lc' [Hc [Hs [Hnd Hcomp]]]].
  rewrite <- (chosen_line_unique _ _ _ _ _ Hch Hc) in *. clear Hc.
  unfold fn_has_line in Hhas. apply existsb_exists in Hhas. destruct Hhas as [r [Hr Hb]].
  apply andb_true_iff in Hb. destruct Hb as [Hb Hrin]. apply andb_true_iff in Hb. destruct Hb as [Hst _].
  pose proof (proj1 (Hres ui f u r Hin Hu Hr Hst) Hrin) as Hkey.
  apply In_nth_error in Hr. destruct Hr as [i Hi].
  specialize (Hcomp ui f u i r Hin Hu Hi Hst). rewrite Hkey in Hcomp. destruct Hcomp as [q [Hq Hqk]].
  destruct (nodup_key_split (pkey units) ps q (fkey_of g) Hnd Hq Hqk) as [l1 [l2 [-> Hall]]].
  assert (Hplace : forall x, In x (l1 ++ q :: l2) ->
            (addr_in_fn g (r_addr (snd (snd x))) = true <-> pkey units x = Some (fkey_of g))).
  { intros x Hx. destruct (Hs x Hx) as [f' [u' [J1 [J2 [J3 J4]]]]].
    apply (Hres (fst x) f' u' (snd (snd x)) J1 J2 (nth_error_In _ _ J3) J4). }
  exists l1, q, l2. split; [reflexivity|]. split.
  - apply (Hplace q); [apply in_or_app; right; left; reflexivity|exact Hqk].
  - intros x Hx. destruct (addr_in_fn g (r_addr (snd (snd x)))) eqn:Hax; [|reflexivity]. exfalso.
    apply (Hall x Hx). apply (Hplace x); [|exact Hax].
    apply in_app_or in Hx. apply in_or_app. destruct Hx as [Hx|Hx]; [left; exact Hx|right; right; exact Hx].
Qed.

(* the former witnesses W3 / W4 and the generic example, on the repaired code *)
Definition two_fn_unit : unit :=
  U [(16, 32); (64, 80)] 2
    [R 16 1 5 0 true false false false; R 20 1 6 4 true true false false; R 24 1 7 5 true false false false;
     R 32 1 7 5 true false false true;
     R 64 1 7 20 true false false false; R 68 1 7 22 true true false false; R 72 1 7 22 true false false false;
     R 80 1 7 22 true false false true]
    [(16, 32, 100); (64, 80, 200)]
    [F 100 (Some [102]) [(16, 32)]; F 200 (Some [123; 99; 108; 125]) [(64, 80)]].
Definition two_fn_unit_pe : unit :=
  U [(16, 32); (64, 80)] 2
    [R 16 1 7 5 true false false false; R 20 1 7 5 true true false false; R 32 1 7 5 true false false true;
     R 64 1 20 0 true false false false; R 68 1 21 4 true true false false; R 72 1 7 5 true false false false;
     R 76 1 22 4 true false false false; R 80 1 22 4 true false false true]
    [(16, 32, 100); (64, 80, 200)]
    [F 100 (Some [102]) [(16, 32)]; F 200 (Some [103]) [(64, 80)]].

Example find_closest_place_w3_w4_repaired :
  find_closest_place true [two_fn_unit] [(0%nat, 1)] 7 =
    Ok [(0%nat, (2%nat, R 24 1 7 5 true false false false)); (0%nat, (5%nat, R 68 1 7 22 true true false false))] /\
  find_closest_place true [two_fn_unit_pe] [(0%nat, 1)] 7 =
    Ok [(0%nat, (1%nat, R 20 1 7 5 true true false false)); (0%nat, (5%nat, R 72 1 7 5 true false false false))] /\
  fn_resolvesb [two_fn_unit] [(0%nat, 1)] 7 (F 100 (Some [102]) [(16, 32)]) = true /\
  fn_resolvesb [two_fn_unit_pe] [(0%nat, 1)] 7 (F 200 (Some [103]) [(64, 80)]) = true /\
  find_closest_place true [two_fn_unit] [(0%nat, 1)] U64_MAX = Ok [] /\
  find_closest_place true [two_fn_unit] [(0%nat, 1)] 4 = Ok [(0%nat, (0%nat, R 16 1 5 0 true false false false))].
Proof. vm_compute. repeat split; reflexivity. Qed.
