(* Proofs for the extended watchpoint machine (ModelWpX.v): the invariant of
   Proofs/WpProofs.v is kept by the end-of-scope stop and by a restart; what the two
   events do to the registry, the companions and every thread's debug registers. *)
From BS Require Import Model.Base Gen.Dr Model.Dr Model.Wp Spec.DrArch Proofs.DrProofs Proofs.WpProofs.
From BS Require Import Model.WpX.
From Coq Require Import Lia.
Open Scope N_scope.

(* ------------------------------------------------------------------ *)
(* generic list facts                                                  *)
Lemma find_app {A} (p : A -> bool) l1 l2 :
  find p (l1 ++ l2) = match find p l1 with Some x => Some x | None => find p l2 end.
Proof. induction l1 as [|x t IH]; cbn; [reflexivity|]. destruct (p x); [reflexivity | exact IH]. Qed.

Lemma firstn_app_exact {A} (l1 l2 : list A) : firstn (length l1) (l1 ++ l2) = l1.
Proof. induction l1; cbn; [destruct l2; reflexivity | f_equal; assumption]. Qed.
Lemma skipn_app_exact {A} (l1 l2 : list A) : skipn (length l1) (l1 ++ l2) = l2.
Proof. induction l1; cbn; [reflexivity | assumption]. Qed.
Lemma nth_error_app_exact {A} (l1 l2 : list A) x : nth_error (l1 ++ x :: l2) (length l1) = Some x.
Proof. induction l1; cbn; [reflexivity | assumption]. Qed.
Lemma skipn_S_app_exact {A} (l1 l2 : list A) x : skipn (S (length l1)) (l1 ++ x :: l2) = l2.
Proof. induction l1; cbn; [reflexivity | assumption]. Qed.
Lemma drop_app_exact {A} (l1 l2 : list A) x :
  firstn (length l1) (l1 ++ x :: l2) ++ skipn (S (length l1)) (l1 ++ x :: l2) = l1 ++ l2.
Proof. rewrite firstn_app_exact, skipn_S_app_exact. reflexivity. Qed.
Lemma set_wp_at_exact l1 l2 x y : set_wp_at (l1 ++ x :: l2) (length l1) y = l1 ++ y :: l2.
Proof.
  unfold set_wp_at. rewrite firstn_app_exact, skipn_S_app_exact. reflexivity.
Qed.

(* ------------------------------------------------------------------ *)
(* frames of the existing operations                                   *)
Lemma decrease_rc_frame s b n :
  threads (decrease_rc s b n) = threads s /\ wps (decrease_rc s b n) = wps s /\
  last_seen (decrease_rc s b n) = last_seen s /\ wp_counter (decrease_rc s b n) = wp_counter s /\
  bp_counter (decrease_rc s b n) = bp_counter s.
Proof. destruct (decrease_rc_shape s b n) as [cs ->]. repeat split. Qed.

Lemma remove_at_wps s i s' :
  remove_at s i = Ok s' ->
  wps s' = firstn i (wps s) ++ skipn (S i) (wps s) /\ wp_counter s' = wp_counter s /\ bp_counter s' = bp_counter s.
Proof.
  unfold remove_at. destruct (nth_error (wps s) i) as [w|]; [|discriminate].
  unfold hw_disable. destruct (w_reg w) as [r|]; cbn [bind]; [|discriminate].
  destruct (w_companion w) as [b|]; intros H; injection H as <-.
  - match goal with |- context [decrease_rc ?x ?y ?z] => destruct (decrease_rc_frame x y z) as [_ [E2 [_ [E4 E5]]]] end.
    cbn [wps wp_counter bp_counter with_wps]. rewrite E2, E4, E5. repeat split.
  - repeat split.
Qed.

Lemma remove_at_not_err s i e : remove_at s i <> Err e.
Proof.
  unfold remove_at. destruct (nth_error (wps s) i) as [w|]; [|discriminate].
  unfold hw_disable. destruct (w_reg w); cbn [bind]; discriminate.
Qed.

Lemma inv_remove_by_num s n s' : Inv s -> remove_by_num s n = Ok s' -> Inv s'.
Proof.
  intros I. unfold remove_by_num. destruct (position _ (wps s)) as [i|].
  - apply inv_remove_at, I.
  - intros H; injection H as <-. exact I.
Qed.

Lemma inv_remove_all_nums nums : forall s s', Inv s -> remove_all_nums nums s = Ok s' -> Inv s'.
Proof.
  induction nums as [|n t IH]; intros s s' I; cbn [remove_all_nums].
  - intros H; injection H as <-. exact I.
  - destruct (remove_by_num s n) as [s1| | |] eqn:E; cbn [bind]; try discriminate.
    apply IH. eapply inv_remove_by_num; eassumption.
Qed.

Lemma inv_scope_end s nums s' : Inv s -> scope_end s nums = Ok s' -> Inv s'.
Proof.
  intros I. unfold scope_end. destruct (negb _); [discriminate|]. apply inv_remove_all_nums, I.
Qed.

(* ------------------------------------------------------------------ *)
(* clear_local_disable_global                                          *)
Definition unreg (w : wp) : wp := set_reg w None.
Definition globals (l : list wp) : list wp := filter (fun w => negb (scoped w)) l.

Lemma remove_at_reg s i s' w : remove_at s i = Ok s' -> nth_error (wps s) i = Some w -> w_reg w <> None.
Proof.
  unfold remove_at. intros H En. rewrite En in H. unfold hw_disable in H.
  destruct (w_reg w); [discriminate | cbn [bind] in H; discriminate].
Qed.

Lemma disable_in_place_spec s j w s' :
  disable_in_place s j w = Ok s' ->
  w_reg w <> None /\ wps s' = set_wp_at (wps s) j (unreg w) /\ wp_counter s' = wp_counter s /\
  bp_counter s' = bp_counter s.
Proof.
  unfold disable_in_place, hw_disable. destruct (w_reg w) as [r|]; cbn [bind]; [|discriminate].
  destruct (w_companion w) as [b|]; intros H; injection H as <-.
  - match goal with |- context [decrease_rc ?x ?y ?z] => destruct (decrease_rc_frame x y z) as [_ [E2 [_ [E4 E5]]]] end.
    rewrite E2, E4, E5. split; [discriminate|]. repeat split.
  - split; [discriminate|]. repeat split.
Qed.

Lemma disable_in_place_not_err s j w e : disable_in_place s j w <> Err e.
Proof.
  unfold disable_in_place, hw_disable. destruct (w_reg w); cbn [bind]; [|discriminate].
  destruct (w_companion w); discriminate.
Qed.

Lemma clear_loop_shape fuel : forall pre rest s s',
  wps s = pre ++ rest -> length rest = fuel ->
  clear_loop fuel (length pre) s = Ok s' ->
  wps s' = pre ++ map unreg (globals rest) /\ wp_counter s' = wp_counter s /\ bp_counter s' = bp_counter s
  /\ (forall w, In w rest -> w_reg w <> None).
Proof.
  induction fuel as [|f IH]; intros pre rest s s' Hw Hl; cbn [clear_loop].
  - destruct rest; [|discriminate]. intros H; injection H as <-. cbn. rewrite Hw. repeat split. intros w [].
  - destruct rest as [|w rest']; [discriminate|]. injection Hl as Hl.
    rewrite Hw, nth_error_app_exact.
    destruct (scoped w) eqn:Es.
    + destruct (remove_at s (length pre)) as [s1|e| |] eqn:Er; try discriminate.
      * destruct (remove_at_wps _ _ _ Er) as [E1 [E2 E3]].
        rewrite Hw, drop_app_exact in E1.
        intros H. destruct (IH pre rest' s1 s' E1 Hl H) as [R1 [R2 [R3 R4]]].
        unfold globals; cbn [filter]. rewrite Es; cbn [negb]. fold (globals rest').
        split; [exact R1|]. split; [congruence|]. split; [congruence|].
        intros w' [<-|Hin]; [|auto]. eapply remove_at_reg; [exact Er|]. rewrite Hw. apply nth_error_app_exact.
      * destruct (remove_at_not_err _ _ _ Er).
    + destruct (disable_in_place s (length pre) w) as [s1|e| |] eqn:Ed; try discriminate.
      * destruct (disable_in_place_spec _ _ _ _ Ed) as [D0 [D1 [D2 D3]]].
        rewrite Hw, set_wp_at_exact in D1.
        assert (D1' : wps s1 = (pre ++ [unreg w]) ++ rest') by (rewrite <- app_assoc; exact D1).
        intros H. replace (S (length pre)) with (length (pre ++ [unreg w])) in H
          by (rewrite app_length; cbn; lia).
        destruct (IH _ rest' s1 s' D1' Hl H) as [R1 [R2 [R3 R4]]].
        unfold globals; cbn [filter]. rewrite Es; cbn [negb map]. fold (globals rest').
        split; [rewrite R1, <- app_assoc; reflexivity|]. split; [congruence|]. split; [congruence|].
        intros w' [<-|Hin]; auto.
      * destruct (disable_in_place_not_err _ _ _ _ Ed).
Qed.

Lemma clear_spec s s' :
  clear_local_disable_global s = Ok s' ->
  wps s' = map unreg (globals (wps s)) /\ wp_counter s' = wp_counter s /\ bp_counter s' = bp_counter s
  /\ last_seen s' = None /\ (forall w, In w (wps s) -> w_reg w <> None).
Proof.
  unfold clear_local_disable_global.
  destruct (clear_loop (length (wps s)) 0 s) as [s1| | |] eqn:E; cbn [bind]; try discriminate.
  intros H; injection H as <-.
  destruct (clear_loop_shape _ [] (wps s) s s1 eq_refl eq_refl E) as [R1 [R2 [R3 R4]]].
  cbn [set_last_seen wps wp_counter bp_counter last_seen]. auto.
Qed.

(* with every watchpoint armed the loop cannot panic *)
Lemma clear_loop_total fuel : forall pre rest s,
  wps s = pre ++ rest -> length rest = fuel -> (forall w, In w rest -> w_reg w <> None) ->
  exists s', clear_loop fuel (length pre) s = Ok s'.
Proof.
  induction fuel as [|f IH]; intros pre rest s Hw Hl Hr; cbn [clear_loop]; [eexists; reflexivity|].
  destruct rest as [|w rest']; [discriminate|]. injection Hl as Hl.
  rewrite Hw, nth_error_app_exact.
  assert (Hwr : w_reg w <> None) by (apply Hr; left; reflexivity).
  destruct (scoped w).
  - destruct (remove_at s (length pre)) as [s1|e|p|] eqn:Er.
    + destruct (remove_at_wps _ _ _ Er) as [E1 _]. rewrite Hw, drop_app_exact in E1.
      apply (IH pre rest' s1 E1 Hl). intros w' Hin; apply Hr; right; exact Hin.
    + destruct (remove_at_not_err _ _ _ Er).
    + exfalso. unfold remove_at in Er. rewrite Hw, nth_error_app_exact in Er. unfold hw_disable in Er.
      destruct (w_reg w); [|congruence]. cbn [bind] in Er. destruct (w_companion w); discriminate.
    + exfalso. unfold remove_at in Er. rewrite Hw, nth_error_app_exact in Er. unfold hw_disable in Er.
      destruct (w_reg w); [|congruence]. cbn [bind] in Er. destruct (w_companion w); discriminate.
  - destruct (disable_in_place s (length pre) w) as [s1|e|p|] eqn:Ed.
    + destruct (disable_in_place_spec _ _ _ _ Ed) as [_ [D1 _]].
      rewrite Hw, set_wp_at_exact in D1.
      assert (D1' : wps s1 = (pre ++ [unreg w]) ++ rest') by (rewrite <- app_assoc; exact D1).
      replace (S (length pre)) with (length (pre ++ [unreg w])) by (rewrite app_length; cbn; lia).
      apply (IH _ rest' s1 D1' Hl). intros w' Hin; apply Hr; right; exact Hin.
    + destruct (disable_in_place_not_err _ _ _ _ Ed).
    + exfalso. unfold disable_in_place, hw_disable in Ed. destruct (w_reg w); [|congruence].
      cbn [bind] in Ed. destruct (w_companion w); discriminate.
    + exfalso. unfold disable_in_place, hw_disable in Ed. destruct (w_reg w); [|congruence].
      cbn [bind] in Ed. destruct (w_companion w); discriminate.
Qed.

(* ------------------------------------------------------------------ *)
(* registry facts                                                      *)
Lemma regs_of_cons w l : regs_of (w :: l) = match w_reg w with Some r => r :: regs_of l | None => regs_of l end.
Proof. unfold regs_of; cbn. destruct (w_reg w); reflexivity. Qed.

Lemma regs_of_length_le l : (length (regs_of l) <= length l)%nat.
Proof. induction l as [|w t IH]; [cbn; lia|]. rewrite regs_of_cons. destruct (w_reg w); cbn; lia. Qed.

Lemma regs_of_length_lt l w : In w l -> w_reg w = None -> (length (regs_of l) < length l)%nat.
Proof.
  induction l as [|x t IH]; [contradiction|]. intros [->|Hin] Hn; rewrite regs_of_cons.
  - rewrite Hn. pose proof (regs_of_length_le t). cbn; lia.
  - specialize (IH Hin Hn). destruct (w_reg x); cbn; lia.
Qed.

Lemma regs_of_length_all l : (forall w, In w l -> w_reg w <> None) -> length (regs_of l) = length l.
Proof.
  induction l as [|x t IH]; intros H; [reflexivity|]. rewrite regs_of_cons.
  destruct (w_reg x) eqn:E; [cbn; f_equal; apply IH; intros w Hw; apply H; right; exact Hw|].
  exfalso. apply (H x); [left; reflexivity | exact E].
Qed.

Lemma regs_of_none l : (forall w, In w l -> w_reg w = None) -> regs_of l = [].
Proof.
  induction l as [|x t IH]; intros H; [reflexivity|]. rewrite regs_of_cons, (H x) by (left; reflexivity).
  apply IH. intros w Hw; apply H; right; exact Hw.
Qed.

Lemma find_has_reg_none l r : ~ In r (regs_of l) -> find (has_reg r) l = None.
Proof.
  intros Hn. destruct (find (has_reg r) l) as [w|] eqn:E; [|reflexivity].
  apply find_some in E. destruct E as [Hin Hh]. apply has_reg_spec in Hh.
  exfalso. apply Hn. eapply in_regs_of; eassumption.
Qed.

Lemma find_has_reg_in l w r :
  NoDup (regs_of l) -> In w l -> w_reg w = Some r -> find (has_reg r) l = Some w.
Proof.
  induction l as [|x t IH]; [contradiction|]. rewrite regs_of_cons. intros Hn Hin Hr. cbn [find].
  destruct (has_reg r x) eqn:Hx.
  - apply has_reg_spec in Hx. rewrite Hx in Hn. inversion Hn; subst.
    destruct Hin as [->|Hin]; [reflexivity|]. exfalso. apply H1. eapply in_regs_of; eassumption.
  - destruct Hin as [->|Hin]; [apply has_reg_spec in Hr; congruence|].
    apply IH; [|exact Hin|exact Hr]. destruct (w_reg x); [inversion Hn; assumption | exact Hn].
Qed.

Lemma NoDup_insert {A} (l1 l2 : list A) x : NoDup (l1 ++ l2) -> ~ In x (l1 ++ l2) -> NoDup (l1 ++ x :: l2).
Proof.
  induction l1 as [|y t IH]; cbn; intros Hn Hx; [constructor; assumption|].
  inversion Hn; subst. constructor.
  - rewrite in_app_iff in *. cbn. intros [H|[H|H]]; [tauto | subst; tauto | tauto].
  - apply IH; tauto.
Qed.

Lemma main_hw_ok s : Inv s -> hw_ok (main_hw s).
Proof.
  intros I. destruct (threads s) as [|[t0 h0] rest] eqn:Et; [destruct (i_main _ I Et)|].
  unfold main_hw; rewrite Et. apply (i_thr _ I t0 h0). rewrite Et; left; reflexivity.
Qed.

(* under the invariant a registry entry holding register r is armed, with its own address,
   condition and size, in every thread *)
Lemma armed_of_inv s w r t h :
  Inv s -> In w (wps s) -> w_reg w = Some r -> In (t, h) (threads s) ->
  valid_r r /\ slot_view h r = Some (w_addr w, w_cond w, w_size w).
Proof.
  intros I Hin Hr Ht.
  assert (Hv : valid_r r).
  { pose proof (i_wps _ I) as F. rewrite Forall_forall in F. destruct (F w Hin) as [_ [_ H]].
    rewrite Hr in H. exact H. }
  split; [exact Hv|]. destruct (i_thr _ I t h Ht) as [_ Hs]. rewrite Hs by exact Hv.
  rewrite (i_act _ I r Hv). unfold active_slot. rewrite (find_has_reg_in _ w r (i_uniq _ I) Hin Hr). reflexivity.
Qed.

(* and a free slot of the registry is free in every thread *)
Lemma free_of_inv s r t h :
  Inv s -> valid_r r -> ~ In r (regs_of (wps s)) -> In (t, h) (threads s) -> slot_view h r = None.
Proof.
  intros I Hv Hn Ht. destruct (i_thr _ I t h Ht) as [_ Hs]. rewrite Hs by exact Hv.
  rewrite (i_act _ I r Hv). unfold active_slot. rewrite find_has_reg_none by exact Hn. reflexivity.
Qed.

Lemma wps_le4 s : Inv s -> (length (regs_of (wps s)) <= 4)%nat.
Proof.
  intros I. apply nodup_valid_le4; [apply (i_uniq _ I)|].
  pose proof (i_wps _ I) as F. induction (wps s) as [|w l IH]; [constructor|].
  inversion F; subst. rewrite regs_of_cons. destruct (w_reg w) as [r|] eqn:E; [constructor|]; auto.
  destruct H1 as [_ [_ H1]]. rewrite E in H1. exact H1.
Qed.

(* ------------------------------------------------------------------ *)
(* refresh                                                             *)
Lemma enable_succeeds s w a sz c :
  Inv s -> In w (wps s) -> w_reg w = None -> (length (wps s) <= 4)%nat ->
  exists s1 h r, hw_enable s a sz c = Ok (s1, h, r).
Proof.
  intros I Hin Hn Hl. unfold hw_enable.
  destruct (free_register (h_dr7 (main_hw s))) as [r|] eqn:Ef; [do 3 eexists; reflexivity|].
  exfalso. pose proof (free_register_none _ Ef) as Hall.
  assert (Hincl : incl [0; 1; 2; 3] (regs_of (wps s))).
  { intros r Hr. assert (Hv : valid_r r) by (cbn in Hr; unfold valid_r; intuition).
    destruct (in_dec N.eq_dec r (regs_of (wps s))) as [H|H]; [exact H|].
    exfalso. pose proof (i_act _ I r Hv) as Ha. unfold active_slot in Ha.
    rewrite find_has_reg_none in Ha by exact H. unfold slot_view in Ha. rewrite (Hall r Hv) in Ha. discriminate. }
  assert (Hnd : NoDup [0; 1; 2; 3]) by (repeat constructor; cbn; intuition; discriminate).
  pose proof (NoDup_incl_length Hnd Hincl) as H4. cbn [length] in H4.
  pose proof (regs_of_length_lt _ _ Hin Hn). lia.
Qed.

Lemma hw_enable_sync s a sz c s1 h r : hw_enable s a sz c = Ok (s1, h, r) -> s1 = sync_all s h.
Proof.
  unfold hw_enable. destruct (free_register _) as [r0|]; [|discriminate].
  intros H. inversion H. reflexivity.
Qed.

Lemma inv_enable_in_place s d w t s1 h r :
  Inv s -> wps s = d ++ w :: t -> w_reg w = None ->
  hw_enable s (w_addr w) (w_size w) (w_cond w) = Ok (s1, h, r) ->
  Inv (with_wps s1 (set_wp_at (wps s1) (length d) (set_reg w (Some r))) (Some h) (wp_counter s1)).
Proof.
  intros I Hw Hn He.
  assert (Hwok : wp_ok w).
  { pose proof (i_wps _ I) as F. rewrite Forall_forall in F. apply F. rewrite Hw. apply in_or_app; right; left; reflexivity. }
  destruct Hwok as [Hc [Hs _]].
  destruct (hw_enable_spec _ _ _ _ _ _ _ I Hs Hc He) as [-> [Hok [Hr [Hnone [Hsame Hother]]]]].
  pose proof (i_main _ I) as Hne.
  assert (Hnotin : ~ In r (regs_of (wps s))).
  { apply active_slot_none_notin. rewrite <- (i_act _ I r Hr). exact Hnone. }
  assert (Hregs : regs_of (wps s) = regs_of d ++ regs_of t).
  { rewrite Hw, regs_of_app, regs_of_cons, Hn. reflexivity. }
  cbn [wps sync_all]. rewrite Hw, set_wp_at_exact.
  split; cbn [threads wps last_seen with_wps sync_all].
  - intros H. apply map_eq_nil in H. contradiction.
  - intros t0 h' Hin. apply (in_sync_all s h) in Hin. subst h'.
    change (main_hw _) with (main_hw (sync_all s h)). rewrite main_sync_all by exact Hne.
    split; [exact Hok | intros r' _; reflexivity].
  - intros r' Hr'. change (main_hw _) with (main_hw (sync_all s h)). rewrite main_sync_all by exact Hne.
    unfold active_slot, with_wps; cbn [wps sync_all]. rewrite find_app. cbn [find].
    destruct (N.eq_dec r r') as [<-|Hd].
    + rewrite find_has_reg_none by (rewrite Hregs, in_app_iff in Hnotin; tauto).
      replace (has_reg r (set_reg w (Some r))) with true by (unfold has_reg; cbn; rewrite N.eqb_refl; reflexivity).
      rewrite Hsame. reflexivity.
    + rewrite Hother by auto. rewrite (i_act _ I r' Hr'). unfold active_slot. rewrite Hw, find_app. cbn [find].
      replace (has_reg r' (set_reg w (Some r))) with false
        by (unfold has_reg; cbn; destruct (N.eqb_spec r r'); [contradiction|reflexivity]).
      replace (has_reg r' w) with false by (unfold has_reg; rewrite Hn; reflexivity).
      reflexivity.
  - pose proof (i_wps _ I) as F. rewrite Hw in F. apply Forall_app in F. destruct F as [F1 F2].
    inversion F2; subst. apply Forall_app. split; [exact F1|]. constructor; [|assumption].
    repeat split; assumption.
  - rewrite regs_of_app, regs_of_cons. cbn [w_reg set_reg].
    apply NoDup_insert; rewrite <- Hregs; [apply (i_uniq _ I) | exact Hnotin].
  - change (main_hw _) with (main_hw (sync_all s h)). rewrite main_sync_all by exact Hne.
    split; [exact Hok | intros r' _; reflexivity].
Qed.

(* the same user-visible watchpoint, now holding a register *)
Definition rearmed (w w' : wp) : Prop :=
  w_num w' = w_num w /\ w_addr w' = w_addr w /\ w_size w' = w_size w /\ w_cond w' = w_cond w /\
  w_companion w' = w_companion w /\ exists r, w_reg w' = Some r.

Lemma refresh_loop_spec todo : forall d s errs,
  Inv s -> wps s = d ++ todo -> (forall w, In w todo -> w_reg w = None /\ scoped w = false) ->
  (length (wps s) <= 4)%nat ->
  exists s' todo', refresh_loop todo (length d) s errs = Ok (s', errs) /\ Inv s' /\
    map fst (threads s') = map fst (threads s) /\ wp_counter s' = wp_counter s /\
    bp_counter s' = bp_counter s /\ comps s' = comps s /\
    wps s' = d ++ todo' /\ Forall2 rearmed todo todo' /\
    (todo = [] -> last_seen s' = last_seen s).
Proof.
  induction todo as [|w t IH]; intros d s errs I Hw Hall Hl; cbn [refresh_loop].
  - exists s, []. split; [reflexivity|]. split; [exact I|]. do 4 (split; [reflexivity|]).
    split; [exact Hw|]. split; [constructor | reflexivity].
  - destruct (Hall w (or_introl eq_refl)) as [Hn Hs]. rewrite Hs.
    assert (Hin : In w (wps s)) by (rewrite Hw; apply in_or_app; right; left; reflexivity).
    destruct (enable_succeeds s w (w_addr w) (w_size w) (w_cond w) I Hin Hn Hl) as [s1 [h [r He]]].
    rewrite He.
    pose proof (inv_enable_in_place _ _ _ _ _ _ _ I Hw Hn He) as I2.
    assert (Es1 : s1 = sync_all s h) by (eapply hw_enable_sync; exact He).
    set (s2 := with_wps s1 (set_wp_at (wps s1) (length d) (set_reg w (Some r))) (Some h) (wp_counter s1)) in *.
    assert (Hw2 : wps s2 = (d ++ [set_reg w (Some r)]) ++ t).
    { unfold s2. cbn [wps with_wps]. rewrite Es1. cbn [wps sync_all]. rewrite Hw, set_wp_at_exact, <- app_assoc. reflexivity. }
    assert (Hl2 : (length (wps s2) <= 4)%nat).
    { rewrite Hw2. rewrite Hw in Hl. rewrite !app_length in *. cbn [length] in *. lia. }
    replace (S (length d)) with (length (d ++ [set_reg w (Some r)])) by (rewrite app_length; cbn; lia).
    destruct (IH _ s2 errs I2 Hw2 (fun w' H' => Hall w' (or_intror H')) Hl2)
      as [s' [todo' [R [I' [T [C1 [C2 [C3 [W [F _]]]]]]]]]].
    exists s', (set_reg w (Some r) :: todo'). split; [exact R|]. split; [exact I'|].
    split; [rewrite T; unfold s2; rewrite Es1; cbn [threads with_wps sync_all]; rewrite map_map; reflexivity|].
    split; [rewrite C1; unfold s2; rewrite Es1; reflexivity|].
    split; [rewrite C2; unfold s2; rewrite Es1; reflexivity|].
    split; [rewrite C3; unfold s2; rewrite Es1; reflexivity|].
    split; [rewrite W, <- app_assoc; reflexivity|].
    split; [|discriminate]. constructor; [|exact F]. unfold rearmed; cbn. repeat split. eexists; reflexivity.
Qed.

Lemma wp_ok_unreg w : wp_ok w -> wp_ok (unreg w).
Proof. intros [H1 [H2 _]]. repeat split; assumption. Qed.

Lemma inv_fresh t l wc bc cs :
  Forall wp_ok l -> (forall w, In w l -> w_reg w = None) -> Inv (mk_st [(t, hw_zero)] l None wc bc cs).
Proof.
  intros F Hn. split; cbn [threads wps last_seen].
  - discriminate.
  - intros t' h [H|[]]. inversion H; subst. split; [apply hw_zero_ok | intros r _; reflexivity].
  - intros r Hr. unfold main_hw, active_slot; cbn [threads wps].
    rewrite find_has_reg_none by (rewrite regs_of_none by exact Hn; intros []). apply hw_zero_view, Hr.
  - exact F.
  - rewrite regs_of_none by exact Hn. constructor.
  - intros r Hr. apply hw_zero_view, Hr.
Qed.

Lemma globals_length_le l : (length (globals l) <= length l)%nat.
Proof. unfold globals. induction l as [|x t IH]; cbn; [lia|]. destruct (negb (scoped x)); cbn; lia. Qed.

Lemma Forall2_rearmed_unreg l l' : Forall2 rearmed (map unreg l) l' -> Forall2 rearmed l l'.
Proof.
  revert l'; induction l as [|x t IH]; intros l' H; inversion H; subst; constructor; auto.
Qed.

(* the state a fresh process is refreshed from *)
Lemma refresh_fresh t l wc bc :
  Forall wp_ok l -> (forall w, In w l -> scoped w = false) -> (length l <= 4)%nat ->
  exists s', refresh (mk_st [(t, hw_zero)] (map unreg l) None wc bc []) = Ok (s', []) /\ Inv s' /\
    map fst (threads s') = [t] /\ wp_counter s' = wc /\ bp_counter s' = bc /\ comps s' = [] /\
    Forall2 rearmed l (wps s') /\ (l = [] -> last_seen s' = None).
Proof.
  intros F Hs Hl. set (s0 := mk_st [(t, hw_zero)] (map unreg l) None wc bc []).
  assert (I0 : Inv s0).
  { apply inv_fresh.
    - rewrite Forall_forall in *. intros w Hw. apply in_map_iff in Hw. destruct Hw as [w0 [<- Hw0]].
      apply wp_ok_unreg, F, Hw0.
    - intros w Hw. apply in_map_iff in Hw. destruct Hw as [w0 [<- _]]. reflexivity. }
  destruct (refresh_loop_spec (map unreg l) [] s0 [] I0 eq_refl) as [s' [todo' [R [I' [T [C1 [C2 [C3 [W [F2 L]]]]]]]]]].
  - intros w Hw. apply in_map_iff in Hw. destruct Hw as [w0 [<- Hw0]]. split; [reflexivity|]. apply (Hs w0 Hw0).
  - cbn [wps s0]. rewrite map_length. exact Hl.
  - exists s'. unfold refresh. cbn [wps s0]. split; [exact R|]. split; [exact I'|].
    split; [exact T|]. split; [exact C1|]. split; [exact C2|]. split; [exact C3|]. split.
    + cbn [app] in W. rewrite W. apply Forall2_rearmed_unreg, F2.
    + intros ->. apply L. reflexivity.
Qed.

(* ------------------------------------------------------------------ *)
(* restart                                                             *)
Definition all_armed (s : st) : Prop := forall w, In w (wps s) -> w_reg w <> None.

Lemma globals_in l w : In w (globals l) <-> In w l /\ scoped w = false.
Proof. unfold globals. rewrite filter_In, negb_true_iff. reflexivity. Qed.

Lemma restart_spec s t s' errs :
  Inv s -> restart s t = Ok (s', errs) ->
  errs = [] /\ Inv s' /\ map fst (threads s') = [t] /\ wp_counter s' = wp_counter s /\
  bp_counter s' = bp_counter s /\ comps s' = [] /\ Forall2 rearmed (globals (wps s)) (wps s') /\
  (globals (wps s) = [] -> last_seen s' = None) /\ all_armed s.
Proof.
  intros I. unfold restart.
  destruct (clear_local_disable_global s) as [s1| | |] eqn:Ec; cbn [bind]; try discriminate.
  destruct (clear_spec _ _ Ec) as [W [C1 [C2 [L A]]]].
  unfold new_process. rewrite W, L, C1, C2.
  destruct (refresh_fresh t (globals (wps s)) (wp_counter s) (bp_counter s)) as [s2 [R [I2 [T [D1 [D2 [D3 [F2 L2]]]]]]]].
  - pose proof (i_wps _ I) as F. rewrite Forall_forall in *. intros w Hw. apply F. apply globals_in in Hw. tauto.
  - intros w Hw. apply globals_in in Hw. tauto.
  - pose proof (globals_length_le (wps s)). pose proof (wps_le4 s I). rewrite (regs_of_length_all _ A) in *. lia.
  - rewrite R. intros H; injection H as <- <-.
    split; [reflexivity|]. split; [exact I2|]. split; [exact T|]. split; [exact D1|]. split; [exact D2|].
    split; [exact D3|]. split; [exact F2|]. split; [exact L2 | exact A].
Qed.

Lemma restart_total s t : Inv s -> all_armed s -> exists s', restart s t = Ok (s', []).
Proof.
  intros I A. unfold restart, clear_local_disable_global.
  destruct (clear_loop_total (length (wps s)) [] (wps s) s eq_refl eq_refl A) as [s1 E].
  cbn [length] in E. rewrite E. cbn [bind].
  destruct (clear_spec s (set_last_seen s1 None)) as [W [C1 [C2 [L _]]]].
  { unfold clear_local_disable_global. rewrite E. reflexivity. }
  unfold new_process. rewrite W, L, C1, C2.
  destruct (refresh_fresh t (globals (wps s)) (wp_counter s) (bp_counter s)) as [s2 [R _]].
  - pose proof (i_wps _ I) as F. rewrite Forall_forall in *. intros w Hw. apply F. apply globals_in in Hw. tauto.
  - intros w Hw. apply globals_in in Hw. tauto.
  - pose proof (globals_length_le (wps s)). pose proof (wps_le4 s I). rewrite (regs_of_length_all _ A) in *. lia.
  - exists s2. exact R.
Qed.

(* the exit-then-start path ends in the same state *)
Lemma clear_loop_dead_shape fuel : forall pre rest s,
  wps s = pre ++ rest -> length rest = fuel ->
  exists s', clear_loop_dead fuel (length pre) s = Ok s' /\ wps s' = pre ++ globals rest /\
    threads s' = threads s /\ wp_counter s' = wp_counter s /\ bp_counter s' = bp_counter s.
Proof.
  induction fuel as [|f IH]; intros pre rest s Hw Hl; cbn [clear_loop_dead].
  - destruct rest; [|discriminate]. exists s. rewrite Hw. repeat split.
  - destruct rest as [|w rest']; [discriminate|]. injection Hl as Hl.
    rewrite Hw, nth_error_app_exact. unfold globals; cbn [filter]. destruct (scoped w); cbn [negb].
    + destruct (IH pre rest' (drop_at s (length pre))) as [s' [E [W R]]]; [|exact Hl|].
      * unfold drop_at; cbn [wps with_wps]. rewrite Hw. apply drop_app_exact.
      * exists s'. split; [exact E|]. split; [exact W|]. exact R.
    + destruct (IH (pre ++ [w]) rest' s) as [s' [E [W R]]]; [rewrite Hw, <- app_assoc; reflexivity | exact Hl|].
      rewrite app_length in E. cbn [length] in E. replace (length pre + 1)%nat with (S (length pre)) in E by lia.
      exists s'. split; [exact E|]. split; [rewrite W, <- app_assoc; reflexivity | exact R].
Qed.

Lemma refresh_loop_errs todo : forall j s errs s' e',
  refresh_loop todo j s errs = Ok (s', e') -> exists x, e' = errs ++ x.
Proof.
  induction todo as [|w t IH]; intros j s errs s' e'; cbn [refresh_loop].
  - intros H; injection H as _ <-. exists []. rewrite app_nil_r. reflexivity.
  - destruct (scoped w); [discriminate|].
    destruct (hw_enable s (w_addr w) (w_size w) (w_cond w)) as [[[s1 h] r]|e| |]; try discriminate.
    + apply IH.
    + intros H. apply IH in H. destruct H as [x ->]. exists (e :: x). rewrite <- app_assoc. reflexivity.
Qed.

Lemma refresh_loop_irrel todo : forall th d ra rb ls wc bc cs s',
  length ra = length todo -> length rb = length todo ->
  refresh_loop (map unreg todo) (length d) (mk_st th (d ++ rb) ls wc bc cs) [] = Ok (s', []) ->
  refresh_loop todo (length d) (mk_st th (d ++ ra) ls wc bc cs) [] = Ok (s', []).
Proof.
  induction todo as [|w t IH]; intros th d ra rb ls wc bc cs s' La Lb; cbn [refresh_loop map].
  - destruct ra; [|discriminate]. destruct rb; [|discriminate]. intros H; exact H.
  - destruct ra as [|a ra']; [discriminate|]. destruct rb as [|b rb']; [discriminate|].
    injection La as La. injection Lb as Lb.
    change (scoped (unreg w)) with (scoped w). destruct (scoped w); [discriminate|].
    change (w_addr (unreg w)) with (w_addr w). change (w_size (unreg w)) with (w_size w).
    change (w_cond (unreg w)) with (w_cond w).
    unfold hw_enable. change (main_hw (mk_st th (d ++ b :: rb') ls wc bc cs)) with (main_hw (mk_st th (d ++ a :: ra') ls wc bc cs)).
    destruct (free_register (h_dr7 (main_hw (mk_st th (d ++ a :: ra') ls wc bc cs)))) as [r|].
    + cbn [sync_all with_wps threads wps last_seen wp_counter bp_counter comps].
      rewrite !set_wp_at_exact.
      change (set_reg (unreg w) (Some r)) with (set_reg w (Some r)).
      replace (S (length d)) with (length (d ++ [set_reg w (Some r)])) by (rewrite app_length; cbn; lia).
      replace (d ++ set_reg w (Some r) :: rb') with ((d ++ [set_reg w (Some r)]) ++ rb') by (rewrite <- app_assoc; reflexivity).
      replace (d ++ set_reg w (Some r) :: ra') with ((d ++ [set_reg w (Some r)]) ++ ra') by (rewrite <- app_assoc; reflexivity).
      apply IH; assumption.
    + intros H. apply refresh_loop_errs in H. destruct H as [x H]. discriminate.
Qed.

Lemma exit_then_restart_eq s t : Inv s -> all_armed s -> exit_then_restart s t = restart s t.
Proof.
  intros I A. destruct (restart_total s t I A) as [s' R]. rewrite R.
  unfold restart in R. destruct (clear_local_disable_global s) as [s1| | |] eqn:Ec; cbn [bind] in R; try discriminate.
  destruct (clear_spec _ _ Ec) as [W [C1 [C2 [L _]]]].
  unfold exit_then_restart.
  destruct (clear_loop_dead_shape (length (wps s)) [] (wps s) s eq_refl eq_refl) as [s2 [E [W2 [T2 [D1 D2]]]]].
  cbn [length] in E. rewrite E. cbn [bind].
  unfold new_process, refresh in *. cbn [set_last_seen threads wps last_seen wp_counter bp_counter comps] in *.
  rewrite W, L, C1, C2 in R. rewrite W2, D1, D2. cbn [app].
  apply (refresh_loop_irrel (globals (wps s)) [(t, hw_zero)] [] (globals (wps s)) (map unreg (globals (wps s)))).
  - reflexivity.
  - apply map_length.
  - exact R.
Qed.

(* ------------------------------------------------------------------ *)
(* every registry entry holds a register: kept by all commands          *)
Lemma in_drop_nth {A} (l : list A) i x : In x (firstn i l ++ skipn (S i) l) -> In x l.
Proof.
  intros H. apply in_app_or in H. destruct H as [H|H].
  - rewrite <- (firstn_skipn i l). apply in_or_app; left; exact H.
  - rewrite <- (firstn_skipn (S i) l). apply in_or_app; right; exact H.
Qed.

Lemma hw_enable_wps s a sz c s1 h r : hw_enable s a sz c = Ok (s1, h, r) -> wps s1 = wps s.
Proof. intros H. apply hw_enable_sync in H. subst s1. reflexivity. Qed.

Lemma armed_add_addr s a sz c s' : all_armed s -> add_addr s a sz c = Ok s' -> all_armed s'.
Proof.
  intros A. unfold add_addr. destruct (already_observed s a); [discriminate|].
  destruct (hw_enable s a sz c) as [[[s1 h] r]| | |] eqn:He; cbn [bind]; try discriminate.
  intros H; injection H as <-. pose proof (hw_enable_wps _ _ _ _ _ _ _ He) as E.
  intros w Hw. cbn [wps with_wps] in Hw. rewrite E in Hw. apply in_app_or in Hw.
  destruct Hw as [Hw|[<-|[]]]; [apply A, Hw | discriminate].
Qed.

Lemma armed_add_expr s a sz c e s' : all_armed s -> add_expr s a sz c e = Ok s' -> all_armed s'.
Proof.
  intros A. unfold add_expr. destruct (already_observed s a); [discriminate|].
  destruct (add_expr_prepare_shape s e) as [bc [cs Hshape]].
  destruct (add_expr_prepare s e) as [s0 companion]. cbn in Hshape.
  destruct (hw_enable s0 a sz c) as [[[s1 h] r]| | |] eqn:He; try discriminate.
  intros H; injection H as <-. pose proof (hw_enable_wps _ _ _ _ _ _ _ He) as E.
  intros w Hw. cbn [wps with_wps] in Hw. rewrite E, Hshape in Hw. cbn [wps] in Hw. apply in_app_or in Hw.
  destruct Hw as [Hw|[<-|[]]]; [apply A, Hw | discriminate].
Qed.

Lemma armed_remove_at s i s' : all_armed s -> remove_at s i = Ok s' -> all_armed s'.
Proof.
  intros A H. destruct (remove_at_wps _ _ _ H) as [E _]. intros w Hw. rewrite E in Hw.
  apply A. eapply in_drop_nth; exact Hw.
Qed.

Lemma armed_remove_by_num s n s' : all_armed s -> remove_by_num s n = Ok s' -> all_armed s'.
Proof.
  intros A. unfold remove_by_num. destruct (position _ (wps s)) as [i|].
  - apply armed_remove_at, A.
  - intros H; injection H as <-. exact A.
Qed.

Lemma armed_wstep s o : all_armed s -> all_armed (fst (wstep s o)).
Proof.
  intros A. destruct o; cbn [wstep].
  - destruct (add_addr s addr size cond) eqn:E; cbn [fst]; try exact A. eapply armed_add_addr; eassumption.
  - destruct (add_expr s addr size cond scope_end) eqn:E; cbn [fst].
    + eapply armed_add_expr; eassumption.
    + destruct (add_expr_error_frame s addr size cond scope_end) as [_ [H2 _]]. unfold all_armed. rewrite H2. exact A.
    + destruct (add_expr_error_frame s addr size cond scope_end) as [_ [H2 _]]. unfold all_armed. rewrite H2. exact A.
    + destruct (add_expr_error_frame s addr size cond scope_end) as [_ [H2 _]]. unfold all_armed. rewrite H2. exact A.
  - destruct (remove_by_num s n) eqn:E; cbn [fst]; try exact A. eapply armed_remove_by_num; eassumption.
  - unfold remove_by_addr. destruct (position _ (wps s)) as [i|]; [|exact A].
    destruct (remove_at s i) eqn:E; cbn [fst]; try exact A. eapply armed_remove_at; eassumption.
  - exact A.
  - unfold exit_thread. destruct (threads s); exact A.
Qed.

Lemma armed_remove_all_nums nums : forall s s', all_armed s -> remove_all_nums nums s = Ok s' -> all_armed s'.
Proof.
  induction nums as [|n t IH]; intros s s' A; cbn [remove_all_nums].
  - intros H; injection H as <-. exact A.
  - destruct (remove_by_num s n) as [s1| | |] eqn:E; cbn [bind]; try discriminate.
    apply IH. eapply armed_remove_by_num; eassumption.
Qed.

Lemma Forall2_rearmed_armed l l' : Forall2 rearmed l l' -> forall w, In w l' -> w_reg w <> None.
Proof.
  induction 1 as [|x y l l' R F IH]; intros w Hw; [contradiction|].
  destruct Hw as [<-|Hw]; [|auto]. destruct R as [_ [_ [_ [_ [_ [r Hr]]]]]]. congruence.
Qed.

(* ------------------------------------------------------------------ *)
(* the invariant over the extended machine                             *)
Definition valid_opx (o : wopx) : Prop := match o with XBase o => valid_op o | _ => True end.

Definition InvX (s : st) : Prop := Inv s /\ all_armed s.

Lemma invx_init m : InvX (st_init m).
Proof. split; [apply inv_init | intros w []]. Qed.

Lemma invx_restart_result s r : InvX s -> (exists t, r = restart s t) -> InvX (fst (fin_restart s r)).
Proof.
  intros [I A] [t ->]. destruct (restart_total s t I A) as [s' R]. rewrite R. cbn [fin_restart fst].
  destruct (restart_spec _ _ _ _ I R) as [_ [I' [_ [_ [_ [_ [F _]]]]]]].
  split; [exact I' | exact (Forall2_rearmed_armed _ _ F)].
Qed.

Lemma invx_wstepx s o : InvX s -> valid_opx o -> InvX (fst (wstepx s o)).
Proof.
  intros [I A] V. destruct o as [o|b tid|t|t]; cbn [wstepx valid_opx] in *.
  - split; [apply inv_wstep; assumption | apply armed_wstep, A].
  - destruct (companion_nums s b) as [nums|]; [|split; assumption].
    destruct (scope_end s nums) as [s'| | |] eqn:E; cbn [fst]; try (split; assumption).
    split; [eapply inv_scope_end; eassumption|].
    unfold scope_end in E. destruct (negb _); [discriminate|]. eapply armed_remove_all_nums; eassumption.
  - apply invx_restart_result; [split; assumption | eexists; reflexivity].
  - rewrite exit_then_restart_eq by assumption.
    apply invx_restart_result; [split; assumption | eexists; reflexivity].
Qed.

Theorem invx_wrunx ops : forall s, InvX s -> Forall valid_opx ops -> InvX (wrunx ops s).
Proof.
  induction ops as [|o t IH]; intros s I V; [exact I|].
  inversion V; subst. cbn [wrunx fold_left]. apply IH; [apply invx_wstepx; assumption | assumption].
Qed.

(* 1. the headline invariant over all sequences of the eight kinds of events *)
Theorem every_thread_decodes_to_active_set_x ops m t h r :
  Forall valid_opx ops -> In (t, h) (threads (wrunx ops (st_init m))) -> valid_r r ->
  arch_slot (h_regs h) (h_dr7 h) r = active_hwbp (wrunx ops (st_init m)) r.
Proof.
  intros V Hin Hr. destruct (invx_wrunx ops _ (invx_init m) V) as [I _].
  destruct (i_thr _ I t h Hin) as [[Hl [Hg Hle]] Hsame].
  rewrite (arch_slot_view (h_regs h) (h_dr6 h)) by auto. rewrite <- hw_eta.
  unfold active_hwbp. rewrite Hsame by exact Hr. rewrite (i_act _ I r Hr). reflexivity.
Qed.

Theorem at_most_four_x ops m :
  Forall valid_opx ops ->
  (length (wps (wrunx ops (st_init m))) <= 4)%nat /\ NoDup (regs_of (wps (wrunx ops (st_init m)))) /\
  forall w, In w (wps (wrunx ops (st_init m))) -> exists r, w_reg w = Some r /\ valid_r r.
Proof.
  intros V. destruct (invx_wrunx ops _ (invx_init m) V) as [I A]. split; [|split].
  - rewrite <- (regs_of_length_all _ A). apply wps_le4, I.
  - apply (i_uniq _ I).
  - intros w Hw. destruct (w_reg w) as [r|] eqn:E; [|destruct (A w Hw E)].
    exists r. split; [reflexivity|]. pose proof (i_wps _ I) as F. rewrite Forall_forall in F.
    destruct (F w Hw) as [_ [_ H]]. rewrite E in H. exact H.
Qed.

(* a thread that appears after any history decodes to the active set as well *)
Theorem late_thread_inherits_x ops m tid r :
  Forall valid_opx ops -> valid_r r ->
  let s := wrunx (ops ++ [XBase (WNewThread tid)]) (st_init m) in
  forall h, In (tid, h) (threads s) -> arch_slot (h_regs h) (h_dr7 h) r = active_hwbp s r.
Proof.
  intros V Hr s h Hin. apply (every_thread_decodes_to_active_set_x _ m tid h r); [|exact Hin|exact Hr].
  apply Forall_app. split; [exact V|]. constructor; [exact I|constructor].
Qed.

(* ------------------------------------------------------------------ *)
(* 3. restart: what is kept, what is dropped, what the new process holds *)
Lemma arch_of_view h r : hw_ok h -> valid_r r ->
  arch_slot (h_regs h) (h_dr7 h) r = option_map hwbp_of (slot_view h r).
Proof.
  intros [Hl [Hg Hle]] Hr. rewrite (arch_slot_view (h_regs h) (h_dr6 h)) by auto. rewrite <- hw_eta. reflexivity.
Qed.

Lemma Forall2_in_l {A B} (R : A -> B -> Prop) l l' x :
  Forall2 R l l' -> In x l -> exists y, In y l' /\ R x y.
Proof.
  induction 1 as [|a b l l' H F IH]; [contradiction|]. intros [<-|Hin].
  - exists b. split; [left; reflexivity | exact H].
  - destruct (IH Hin) as [y [Hy Ry]]. exists y. split; [right; exact Hy | exact Ry].
Qed.
Lemma Forall2_in_r {A B} (R : A -> B -> Prop) l l' y :
  Forall2 R l l' -> In y l' -> exists x, In x l /\ R x y.
Proof.
  induction 1 as [|a b l l' H F IH]; [contradiction|]. intros [<-|Hin].
  - exists a. split; [left; reflexivity | exact H].
  - destruct (IH Hin) as [x [Hx Rx]]. exists x. split; [right; exact Hx | exact Rx].
Qed.

(* what a thread of state s holds for registry entry w *)
Definition armed_in_all (s : st) (w : wp) : Prop :=
  exists r, w_reg w = Some r /\ valid_r r /\
    forall t h, In (t, h) (threads s) ->
      arch_slot (h_regs h) (h_dr7 h) r = Some (hwbp_of (w_addr w, w_cond w, w_size w)).
Definition free_in_all (s : st) (r : N) : Prop :=
  forall t h, In (t, h) (threads s) -> arch_slot (h_regs h) (h_dr7 h) r = None.

Lemma armed_in_all_of_inv s w : Inv s -> In w (wps s) -> w_reg w <> None -> armed_in_all s w.
Proof.
  intros I Hin Hr. destruct (w_reg w) as [r|] eqn:E; [|congruence]. exists r. split; [exact E|].
  assert (Hv : valid_r r).
  { pose proof (i_wps _ I) as F. rewrite Forall_forall in F. destruct (F w Hin) as [_ [_ H]]. rewrite E in H. exact H. }
  split; [exact Hv|]. intros t h Ht. destruct (armed_of_inv s w r t h I Hin E Ht) as [_ Hs].
  rewrite arch_of_view by (try apply (i_thr _ I t h Ht); exact Hv). rewrite Hs. reflexivity.
Qed.

Lemma free_in_all_of_inv s r : Inv s -> valid_r r -> ~ In r (regs_of (wps s)) -> free_in_all s r.
Proof.
  intros I Hv Hn t h Ht. rewrite arch_of_view by (try apply (i_thr _ I t h Ht); exact Hv).
  rewrite (free_of_inv s r t h I Hv Hn Ht). reflexivity.
Qed.

Definition restart_post (s s' : st) (t : N) : Prop :=
  map fst (threads s') = [t] /\ comps s' = [] /\ wp_counter s' = wp_counter s /\ bp_counter s' = bp_counter s /\
  (* exactly the non-scoped watchpoints, in their order, with number, address, size, condition *)
  Forall2 rearmed (globals (wps s)) (wps s') /\
  (* each of them armed in every thread of the new process *)
  (forall w', In w' (wps s') -> w_companion w' = None /\ armed_in_all s' w') /\
  (* and nothing else is enabled there *)
  (forall r, valid_r r -> ~ In r (regs_of (wps s')) -> free_in_all s' r) /\
  (globals (wps s) = [] -> last_seen s' = None).

Lemma restart_post_of s t s' : Inv s -> restart s t = Ok (s', []) -> restart_post s s' t.
Proof.
  intros I R. destruct (restart_spec _ _ _ _ I R) as [_ [I' [T [C1 [C2 [C3 [F [L _]]]]]]]].
  split; [exact T|]. split; [exact C3|]. split; [exact C1|]. split; [exact C2|]. split; [exact F|].
  split; [|split; [|exact L]].
  - intros w' Hw'. destruct (Forall2_in_r _ _ _ _ F Hw') as [w [Hw Rw]].
    apply globals_in in Hw. destruct Hw as [_ Hs]. destruct Rw as [_ [_ [_ [_ [Hc [r Hr]]]]]]. split.
    + rewrite Hc. unfold scoped in Hs. destruct (w_companion w); [discriminate | reflexivity].
    + apply armed_in_all_of_inv; [exact I' | exact Hw' | congruence].
  - intros r Hv Hn. apply free_in_all_of_inv; assumption.
Qed.

Theorem global_survives_restart ops m t :
  Forall valid_opx ops ->
  let s := wrunx ops (st_init m) in
  (snd (wstepx s (XRestart t)) = 0 /\ restart_post s (fst (wstepx s (XRestart t))) t) /\
  (snd (wstepx s (XExitRestart t)) = 0 /\ restart_post s (fst (wstepx s (XExitRestart t))) t).
Proof.
  intros V s. destruct (invx_wrunx ops _ (invx_init m) V) as [I A]. fold s in I, A.
  destruct (restart_total s t I A) as [s' R].
  cbn [wstepx]. rewrite (exit_then_restart_eq s t I A), R. cbn [fin_restart fst snd].
  pose proof (restart_post_of s t s' I R). auto.
Qed.

(* user-level reading: a non-scoped watchpoint is found again with the same number, address,
   size and condition, armed in every thread; a scoped one has no successor *)
Corollary global_kept ops m t w :
  Forall valid_opx ops -> let s := wrunx ops (st_init m) in
  In w (wps s) -> w_companion w = None ->
  exists w', In w' (wps (fst (wstepx s (XRestart t)))) /\ rearmed w w' /\
             armed_in_all (fst (wstepx s (XRestart t))) w'.
Proof.
  intros V s Hin Hc. destruct (global_survives_restart ops m t V) as [[_ P] _]. fold s in P.
  destruct P as [_ [_ [_ [_ [F [Ar _]]]]]].
  assert (Hg : In w (globals (wps s))) by (apply globals_in; split; [exact Hin | unfold scoped; rewrite Hc; reflexivity]).
  destruct (Forall2_in_l _ _ _ _ F Hg) as [w' [Hw' R]]. exists w'. split; [exact Hw'|]. split; [exact R|].
  apply Ar, Hw'.
Qed.

(* ------------------------------------------------------------------ *)
(* 2. end of scope                                                     *)
Definition in_nums (nums : list N) (w : wp) : bool := existsb (N.eqb (w_num w)) nums.

Lemma filter_all {A} (p : A -> bool) l : (forall x, In x l -> p x = true) -> filter p l = l.
Proof.
  induction l as [|y t IH]; intros H; [reflexivity|]. cbn. rewrite (H y (or_introl eq_refl)).
  f_equal. apply IH. intros x Hx; apply H; right; exact Hx.
Qed.
Lemma filter_filter {A} (p q : A -> bool) l : filter p (filter q l) = filter (fun a => q a && p a) l.
Proof.
  induction l as [|y t IH]; [reflexivity|]. cbn. destruct (q y); cbn; [destruct (p y); rewrite IH; reflexivity | exact IH].
Qed.
Lemma find_filter_neg {A} (p : A -> bool) l : find p (filter (fun a => negb (p a)) l) = None.
Proof.
  induction l as [|y t IH]; [reflexivity|]. cbn. destruct (p y) eqn:E; cbn; [exact IH | rewrite E; exact IH].
Qed.

Lemma nodup_num_inj l w1 w2 :
  NoDup (map w_num l) -> In w1 l -> In w2 l -> w_num w1 = w_num w2 -> w1 = w2.
Proof.
  induction l as [|y t IH]; [contradiction|]. cbn [map]. intros Hn H1 H2 E. inversion Hn; subst.
  destruct H1 as [<-|H1], H2 as [<-|H2]; auto.
  - exfalso. apply H3. rewrite E. apply in_map, H2.
  - exfalso. apply H3. rewrite <- E. apply in_map, H1.
Qed.

Lemma nodup_map_filter {A B} (f : A -> B) (p : A -> bool) l : NoDup (map f l) -> NoDup (map f (filter p l)).
Proof.
  induction l as [|y t IH]; [auto|]. cbn. intros Hn. inversion Hn; subst. destruct (p y); cbn; [|auto].
  constructor; [|auto]. intros H. apply H1. apply in_map_iff in H. destruct H as [x [E Hx]].
  apply filter_In in Hx. rewrite <- E. apply in_map. tauto.
Qed.

Lemma position_filter l x i :
  NoDup (map w_num l) -> position (fun w => w_num w =? x) l = Some i ->
  firstn i l ++ skipn (S i) l = filter (fun w => negb (w_num w =? x)) l /\
  exists w, nth_error l i = Some w /\ w_num w = x.
Proof.
  revert i; induction l as [|y t IH]; intros i Hn; [discriminate|]. cbn [position map] in *.
  inversion Hn; subst. destruct (N.eqb_spec (w_num y) x) as [E|E].
  - intros H; injection H as <-. cbn. destruct (N.eqb_spec (w_num y) x); [|contradiction]. cbn. split.
    + symmetry. apply filter_all. intros z Hz. apply negb_true_iff, N.eqb_neq. intros Ez.
      apply H1. rewrite E, <- Ez. apply in_map, Hz.
    + exists y. auto.
  - destruct (position _ t) as [i'|] eqn:Ep; [|discriminate]. intros H; injection H as <-.
    destruct (IH i' H2 eq_refl) as [F [w [Hw Ew]]]. cbn. destruct (N.eqb_spec (w_num y) x); [contradiction|]. cbn.
    split; [f_equal; exact F | exists w; auto].
Qed.

Lemma position_some l x : (exists w, In w l /\ w_num w = x) -> exists i, position (fun w => w_num w =? x) l = Some i.
Proof.
  induction l as [|y t IH]; intros [w [Hin E]]; [contradiction|]. cbn [position].
  destruct (N.eqb_spec (w_num y) x); [eexists; reflexivity|].
  destruct Hin as [->|Hin]; [contradiction|]. destruct IH as [i ->]; [eauto|]. eexists; reflexivity.
Qed.

Lemma remove_at_total s i w : nth_error (wps s) i = Some w -> w_reg w <> None -> exists s', remove_at s i = Ok s'.
Proof.
  intros En Hr. unfold remove_at. rewrite En. unfold hw_disable. destruct (w_reg w); [|congruence].
  cbn [bind]. eexists; reflexivity.
Qed.

Lemma remove_at_comps s i s' w :
  remove_at s i = Ok s' -> nth_error (wps s) i = Some w ->
  comps s' = match w_companion w with Some b => comps (decrease_rc s b (w_num w)) | None => comps s end
  /\ map fst (threads s') = map fst (threads s).
Proof.
  unfold remove_at. intros H En. rewrite En in H. unfold hw_disable in H.
  destruct (w_reg w) as [r|]; cbn [bind] in H; [|discriminate].
  destruct (w_companion w) as [b|]; injection H as <-.
  - split.
    + unfold decrease_rc. cbn [comps sync_all with_wps].
      destruct (find (fun c => comp_num c =? b) (comps s)) as [[[a n] nums]|]; reflexivity.
    + match goal with |- context [decrease_rc ?x ?y ?z] => destruct (decrease_rc_frame x y z) as [E1 _] end.
      cbn [threads with_wps]. rewrite E1. cbn [threads sync_all with_wps]. rewrite map_map. reflexivity.
  - split; [reflexivity|]. cbn [threads sync_all with_wps]. rewrite map_map. reflexivity.
Qed.

Lemma filter_drop_head x rest : ~ In x rest -> filter (fun z => negb (z =? x)) (x :: rest) = rest.
Proof.
  intros Hn. cbn [filter]. rewrite N.eqb_refl. cbn [negb]. apply filter_all.
  intros z Hz. apply negb_true_iff, N.eqb_neq. intros ->. contradiction.
Qed.

Lemma decrease_rc_head s b a x rest :
  ~ In x rest -> find (fun c => comp_num c =? b) (comps s) = Some (a, b, x :: rest) ->
  comps (decrease_rc s b x) =
    match rest with
    | [] => filter (fun c => negb (comp_num c =? b)) (comps s)
    | _ => (a, b, rest) :: filter (fun c => negb (comp_num c =? b)) (comps s)
    end.
Proof.
  intros Hn Hf. unfold decrease_rc. rewrite Hf. destruct rest as [|y r]; cbn [comps].
  - rewrite N.eqb_refl. reflexivity.
  - rewrite (filter_drop_head x (y :: r) Hn). reflexivity.
Qed.

Lemma scope_loop b a : forall nums s,
  NoDup nums -> nums <> [] -> NoDup (map w_num (wps s)) -> all_armed s ->
  find (fun c => comp_num c =? b) (comps s) = Some (a, b, nums) ->
  (forall x, In x nums -> exists w, In w (wps s) /\ w_num w = x /\ w_companion w = Some b) ->
  exists s', remove_all_nums nums s = Ok s' /\
    wps s' = filter (fun w => negb (in_nums nums w)) (wps s) /\
    comps s' = filter (fun c => negb (comp_num c =? b)) (comps s) /\
    map fst (threads s') = map fst (threads s) /\ wp_counter s' = wp_counter s /\ bp_counter s' = bp_counter s.
Proof.
  induction nums as [|x rest IH]; intros s Hnd Hne Hnum A Hf Hlink; [congruence|].
  inversion Hnd as [|? ? Hx Hnd']; subst.
  destruct (Hlink x (or_introl eq_refl)) as [w [Hin [Ew Hc]]].
  destruct (position_some (wps s) x) as [i Hp]; [eauto|].
  destruct (position_filter _ _ _ Hnum Hp) as [Hfil [w0 [En E0]]].
  assert (w0 = w) by (eapply nodup_num_inj; [exact Hnum | eapply nth_error_In; exact En | exact Hin | congruence]). subst w0.
  destruct (remove_at_total s i w En (A w Hin)) as [s1 R1].
  destruct (remove_at_wps _ _ _ R1) as [W1 [C1 C2]]. rewrite Hfil in W1.
  destruct (remove_at_comps _ _ _ _ R1 En) as [K1 T1]. rewrite Hc, Ew, (decrease_rc_head s b a x rest Hx Hf) in K1.
  cbn [remove_all_nums]. unfold remove_by_num. rewrite Hp, R1. cbn [bind].
  assert (Hext : forall l, filter (fun w1 => negb (w_num w1 =? x) && negb (in_nums rest w1)) l
                           = filter (fun w1 => negb (in_nums (x :: rest) w1)) l).
  { intros l. apply filter_ext. intros w1. unfold in_nums. cbn [existsb]. rewrite negb_orb. reflexivity. }
  destruct rest as [|y r].
  - cbn [remove_all_nums]. exists s1. split; [reflexivity|]. split.
    + rewrite W1. apply filter_ext. intros w1. unfold in_nums. cbn [existsb]. rewrite orb_false_r. reflexivity.
    + split; [exact K1|]. auto.
  - destruct (IH s1) as [s' [R [W [K [T [D1 D2]]]]]].
    + exact Hnd'.
    + discriminate.
    + rewrite W1. apply nodup_map_filter, Hnum.
    + eapply armed_remove_at; eassumption.
    + rewrite K1. cbn [find]. unfold comp_num at 1. cbn [fst snd]. rewrite N.eqb_refl. reflexivity.
    + intros z Hz. destruct (Hlink z (or_intror Hz)) as [wz [Hinz [Ez Hcz]]]. exists wz.
      split; [|auto]. rewrite W1. apply filter_In. split; [exact Hinz|].
      apply negb_true_iff, N.eqb_neq. rewrite Ez. intros ->. contradiction.
    + exists s'. split; [exact R|]. split; [rewrite W, W1, filter_filter; apply Hext|].
      split; [|split; [congruence | split; congruence]].
      rewrite K, K1. cbn [filter]. unfold comp_num at 1. cbn [fst snd]. rewrite N.eqb_refl. cbn [negb].
      rewrite filter_filter. apply filter_ext. intros c. apply andb_diag.
Qed.

(* the companion b and the registry agree: its list is exactly the numbers of the
   watchpoints bound to it (proved below to be decidable on a concrete state) *)
Definition scope_linked (s : st) (b : N) : Prop :=
  NoDup (map w_num (wps s)) /\
  exists a nums, find (fun c => comp_num c =? b) (comps s) = Some (a, b, nums) /\ NoDup nums /\ nums <> [] /\
    forall x, In x nums <-> exists w, In w (wps s) /\ w_num w = x /\ w_companion w = Some b.

Fixpoint nodupb (l : list N) : bool :=
  match l with [] => true | x :: t => negb (existsb (N.eqb x) t) && nodupb t end.
Lemma nodupb_sound l : nodupb l = true -> NoDup l.
Proof.
  induction l as [|x t IH]; [constructor|]. cbn. intros H. apply andb_prop in H. destruct H as [H1 H2].
  constructor; [|auto]. intros Hin. apply negb_true_iff in H1.
  assert (existsb (N.eqb x) t = true) by (apply existsb_exists; exists x; split; [exact Hin | apply N.eqb_refl]). congruence.
Qed.

Definition scope_linked_b (s : st) (b : N) : bool :=
  nodupb (map w_num (wps s)) &&
  match find (fun c => comp_num c =? b) (comps s) with
  | Some (_, _, nums) =>
      nodupb nums && negb (Nat.eqb (length nums) 0) &&
      forallb (fun x => existsb (fun w => (w_num w =? x) && bound_to b w) (wps s)) nums &&
      forallb (fun w => negb (bound_to b w) || in_nums nums w) (wps s)
  | None => false
  end.

Lemma bound_to_spec b w : bound_to b w = true <-> w_companion w = Some b.
Proof.
  unfold bound_to. destruct (w_companion w) as [b'|]; [|split; discriminate].
  rewrite N.eqb_eq. split; [intros ->; reflexivity | intros H; injection H as ->; reflexivity].
Qed.

Lemma scope_linked_b_sound s b : scope_linked_b s b = true -> scope_linked s b.
Proof.
  unfold scope_linked_b. intros H. apply andb_prop in H. destruct H as [H0 H].
  destruct (find (fun c => comp_num c =? b) (comps s)) as [[[a n] nums]|] eqn:Ef; [|discriminate].
  apply andb_prop in H. destruct H as [H H4]. apply andb_prop in H. destruct H as [H H3].
  apply andb_prop in H. destruct H as [H1 H2].
  split; [apply nodupb_sound, H0|]. exists a, nums.
  assert (n = b). { apply find_some in Ef. destruct Ef as [_ E]. apply N.eqb_eq in E. exact E. } subst n.
  split; [exact Ef|]. split; [apply nodupb_sound, H1|]. split.
  - destruct nums; [discriminate | discriminate].
  - intros x. split.
    + intros Hx. rewrite forallb_forall in H3. specialize (H3 x Hx). apply existsb_exists in H3.
      destruct H3 as [w [Hw Hb]]. apply andb_prop in Hb. destruct Hb as [E Hb]. apply N.eqb_eq in E.
      exists w. split; [exact Hw|]. split; [exact E | apply bound_to_spec, Hb].
    + intros [w [Hw [E Hc]]]. rewrite forallb_forall in H4. specialize (H4 w Hw).
      apply bound_to_spec in Hc. rewrite Hc in H4. cbn in H4. unfold in_nums in H4. apply existsb_exists in H4.
      destruct H4 as [y [Hy Ey]]. apply N.eqb_eq in Ey. congruence.
Qed.

Lemma in_filter_map_reg l r : In r (regs_of l) -> exists w, In w l /\ w_reg w = Some r.
Proof.
  induction l as [|x t IH]; [contradiction|]. rewrite regs_of_cons. destruct (w_reg x) as [rx|] eqn:E.
  - intros [<-|H]; [exists x; split; [left; reflexivity | exact E]|].
    destruct (IH H) as [w [Hw Hr]]. exists w. split; [right; exact Hw | exact Hr].
  - intros H. destruct (IH H) as [w [Hw Hr]]. exists w. split; [right; exact Hw | exact Hr].
Qed.

Definition scope_end_post (s s' : st) (b : N) : Prop :=
  (* exactly the watchpoints bound to b are gone, every other entry is untouched (register included) *)
  wps s' = filter (fun w => negb (bound_to b w)) (wps s) /\
  (* the companion breakpoint is gone, the others are untouched *)
  comps s' = filter (fun c => negb (comp_num c =? b)) (comps s) /\ companion_nums s' b = None /\
  map fst (threads s') = map fst (threads s) /\ wp_counter s' = wp_counter s /\
  (* the slots of the removed ones are free in every thread, the others still armed *)
  (forall w r, In w (wps s) -> bound_to b w = true -> w_reg w = Some r -> free_in_all s' r) /\
  (forall w, In w (wps s') -> armed_in_all s' w).

Theorem local_removed_at_scope_end_partial s b tid :
  InvX s -> scope_linked s b ->
  snd (wstepx s (XScopeEnd b tid)) = 0 /\ scope_end_post s (fst (wstepx s (XScopeEnd b tid))) b /\
  InvX (fst (wstepx s (XScopeEnd b tid))).
Proof.
  intros [I A] [Hnum [a [nums [Hf [Hnd [Hne Hlink]]]]]].
  pose proof (invx_wstepx s (XScopeEnd b tid) (conj I A) Logic.I) as IX.
  cbn [wstepx] in *. unfold companion_nums in *. rewrite Hf in *.
  destruct (scope_loop b a nums s Hnd Hne Hnum A Hf (fun x Hx => proj1 (Hlink x) Hx))
    as [s' [R [W [K [T [D1 D2]]]]]].
  assert (Hchk : length (filter_map (get_wp s) nums) = length nums).
  { clear - Hlink. assert (H : forall x, In x nums -> get_wp s x <> None).
    { intros x Hx. destruct (proj1 (Hlink x) Hx) as [w [Hw [E _]]]. unfold get_wp.
      destruct (find (fun w0 => w_num w0 =? x) (wps s)) eqn:Ef; [discriminate|].
      pose proof (find_none _ _ Ef w Hw) as Hn. cbv beta in Hn. rewrite E, N.eqb_refl in Hn. discriminate. }
    clear Hlink. induction nums as [|x t IH]; [reflexivity|]. cbn [filter_map].
    destruct (get_wp s x) eqn:E; [|destruct (H x (or_introl eq_refl) E)].
    cbn [length]. f_equal. apply IH. intros y Hy; apply H; right; exact Hy. }
  unfold scope_end in *. rewrite Hchk, Nat.eqb_refl in *. cbn [negb] in *. rewrite R in *. cbn [fst snd] in *.
  split; [reflexivity|]. split; [|exact IX]. destruct IX as [I' A'].
  assert (W' : wps s' = filter (fun w => negb (bound_to b w)) (wps s)).
  { rewrite W. apply filter_ext_in. intros w Hw. f_equal. apply eq_true_iff_eq.
    rewrite bound_to_spec. unfold in_nums. rewrite existsb_exists. split.
    - intros [y [Hy Ey]]. apply N.eqb_eq in Ey. destruct (proj1 (Hlink y) Hy) as [w2 [Hw2 [E2 Hc2]]].
      assert (w2 = w) by (eapply nodup_num_inj; [exact Hnum | exact Hw2 | exact Hw | congruence]). congruence.
    - intros Hc. exists (w_num w). split; [apply (Hlink (w_num w)); eauto | apply N.eqb_refl]. }
  split; [exact W'|]. split; [exact K|]. split; [unfold companion_nums; rewrite K, find_filter_neg; reflexivity|].
  split; [exact T|]. split; [exact D1|]. split.
  - intros w r Hw Hb Hr. apply free_in_all_of_inv; [exact I'| |].
    + pose proof (i_wps _ I) as F. rewrite Forall_forall in F. destruct (F w Hw) as [_ [_ H]]. rewrite Hr in H. exact H.
    + rewrite W'. intros Hin. apply in_filter_map_reg in Hin.
      destruct Hin as [w2 [Hw2 Hr2]]. apply filter_In in Hw2. destruct Hw2 as [Hw2 Hnb].
      pose proof (find_has_reg_in _ w r (i_uniq _ I) Hw Hr) as F1.
      pose proof (find_has_reg_in _ w2 r (i_uniq _ I) Hw2 Hr2) as F2.
      assert (w2 = w) by congruence. subst w2. rewrite Hb in Hnb. discriminate.
  - intros w Hw. apply armed_in_all_of_inv; [exact I' | exact Hw | apply A', Hw].
Qed.

(* the end-of-scope stop does the same whichever thread ran into the companion breakpoint
   (tracer.rs:493 reports EndOfScope for any pid; the pid the companion was created for is
   not compared) *)
Theorem scope_end_ignores_thread s b t1 t2 : wstepx s (XScopeEnd b t1) = wstepx s (XScopeEnd b t2).
Proof. reflexivity. Qed.

(* ------------------------------------------------------------------ *)
(* concrete histories                                                  *)
Definition hist_scope : list wopx :=
  [XBase (WAddExpr 4096 SIZE_Bytes8 COND_DataWrites (Some 20480));
   XBase (WAddAddr 8192 SIZE_Bytes4 COND_DataReadsWrites);
   XBase (WAddExpr 4104 SIZE_Bytes8 COND_DataWrites (Some 20480));
   XBase (WAddExpr 4112 SIZE_Bytes2 COND_DataWrites (Some 24576));
   XBase (WNewThread 7);
   (* a fifth, scoped, sharing the first companion: refused, its reference rolled back *)
   XBase (WAddExpr 4120 SIZE_Bytes1 COND_DataWrites (Some 20480))].

Lemma hist_scope_valid : Forall valid_opx hist_scope.
Proof. repeat constructor; cbn; unfold valid_size, valid_cond; vm_compute; tauto. Qed.

Example hist_scope_linked :
  scope_linked_b (wrunx hist_scope (st_init 5)) 1 = true /\ scope_linked_b (wrunx hist_scope (st_init 5)) 2 = true.
Proof. vm_compute. split; reflexivity. Qed.

(* a global watchpoint need not get the same debug register in the new process: registers
   are handed out again in registry order from DR0 *)
Theorem restart_keeps_register_refuted :
  exists ops m t w w',
    Forall valid_opx ops /\ In w (wps (wrunx ops (st_init m))) /\
    In w' (wps (fst (wstepx (wrunx ops (st_init m)) (XRestart t)))) /\
    w_num w' = w_num w /\ w_reg w' <> w_reg w.
Proof.
  exists [XBase (WAddAddr 4096 SIZE_Bytes8 COND_DataWrites); XBase (WAddAddr 8192 SIZE_Bytes8 COND_DataWrites);
          XBase (WRemoveNum 1)], 5, 50,
         (mk_wp 2 8192 SIZE_Bytes8 COND_DataWrites (Some 1) None), (mk_wp 2 8192 SIZE_Bytes8 COND_DataWrites (Some 0) None).
  split; [repeat constructor; cbn; unfold valid_size, valid_cond; vm_compute; tauto|].
  vm_compute. repeat split; auto. discriminate.
Qed.
