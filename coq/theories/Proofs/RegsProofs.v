From BS Require Import Model.Base Gen.Regs Model.Regs Spec.X86Dwarf.
From Coq Require Import Lia.
Open Scope N_scope.

Definition reg_eqb (a b : reg) : bool := Nat.eqb (value_field a) (value_field b).

Lemma all_regs_complete r : In r all_regs.
Proof. destruct r; cbn; auto 40. Qed.

Lemma fields_agree : forallb (fun r => Nat.eqb (value_field r) (update_field r)) all_regs = true.
Proof. vm_compute. reflexivity. Qed.

Lemma fields_in_range : forallb (fun r => Nat.ltb (value_field r) n_fields) all_regs = true.
Proof. vm_compute. reflexivity. Qed.

Lemma fields_injective :
  forallb (fun a => forallb (fun b => implb (Nat.eqb (value_field a) (value_field b))
                                            (match dwarf_of_reg a, dwarf_of_reg b with
                                             | Some x, Some y => x =? y
                                             | None, None => true
                                             | _, _ => false end)) all_regs) all_regs = true.
Proof. vm_compute. reflexivity. Qed.

Lemma value_field_inj a b : value_field a = value_field b -> a = b.
Proof. destruct a; destruct b; cbn; intros H; try reflexivity; discriminate H. Qed.

Lemma update_field_eq r : update_field r = value_field r.
Proof. destruct r; reflexivity. Qed.

Lemma nth_set_nth_same l i v : (i < length l)%nat -> nth i (set_nth_n l i v) 0 = v.
Proof. revert i; induction l as [|x t IH]; intros i H; [cbn in H; lia|]. destruct i; cbn; [reflexivity|]. apply IH. cbn in H; lia. Qed.

Lemma nth_set_nth_other l i j v : i <> j -> nth j (set_nth_n l i v) 0 = nth j l 0.
Proof.
  revert i j; induction l as [|x t IH]; intros i j H; [destruct i; reflexivity|].
  destruct i, j; cbn; try reflexivity; try congruence. apply IH. congruence.
Qed.

Theorem reg_update_value m r v :
  length m = n_fields -> rm_value (rm_update m r v) r = v.
Proof.
  intros Hl. unfold rm_value, rm_update. replace (update_field r) with (value_field r) by (symmetry; apply update_field_eq). apply nth_set_nth_same.
  rewrite Hl. pose proof fields_in_range as F. rewrite forallb_forall in F.
  specialize (F r (all_regs_complete r)). apply Nat.ltb_lt in F. exact F.
Qed.

Theorem reg_update_frame m r r' v : r <> r' -> rm_value (rm_update m r v) r' = rm_value m r'.
Proof.
  intros H. unfold rm_value, rm_update. replace (update_field r) with (value_field r) by (symmetry; apply update_field_eq). apply nth_set_nth_other.
  intros E. apply H. apply value_field_inj. exact E.
Qed.

(* the numbers in the source are the psABI's *)
Theorem dwarf_numbers_are_abi r : dwarf_of_reg r = abi_dwarf r.
Proof. destruct r; reflexivity. Qed.

(* Register -> number -> Register is the identity wherever the number -> Register map is defined *)
Theorem reg_of_dwarf_inverse r d :
  dwarf_of_reg r = Some d -> r <> R_Rip -> reg_of_dwarf (Z.of_N d) = Some r.
Proof. destruct r; cbn; intros H Hn; inversion H; subst; try reflexivity; congruence. Qed.

(* REFUTED: "number -> Register is total on the numbers the debugger itself produces": the
   return-address column 16 (Rip) is produced by dwarf_register but From<gimli::Register>
   has no arm for it (its -1 arm is unreachable from a u16) and panics *)
Theorem reg_of_dwarf_total_refuted :
  exists r d, dwarf_of_reg r = Some d /\ reg_of_dwarf (Z.of_N d) = None.
Proof. exists R_Rip, 16. split; reflexivity. Qed.

(* user_regs_struct -> RegisterMap -> user_regs_struct is the identity *)
Theorem user_roundtrip :
  forall u0 u1 u2 u3 u4 u5 u6 u7 u8 u9 u10 u11 u12 u13 u14 u15 u16 u17 u18 u19 u20 u21 u22 u23 u24 u25 u26,
  let u := [u0; u1; u2; u3; u4; u5; u6; u7; u8; u9; u10; u11; u12; u13; u14; u15; u16; u17; u18; u19; u20; u21; u22; u23; u24; u25; u26] in
  rm_to_user (rm_from_user u) = u.
Proof. intros. reflexivity. Qed.

(* DwarfRegisterMap::from puts every machine register at its DWARF number *)
Theorem dwarf_map_correct :
  forall u0 u1 u2 u3 u4 u5 u6 u7 u8 u9 u10 u11 u12 u13 u14 u15 u16 u17 u18 u19 u20 u21 u22 u23 u24 u25 u26 r d,
  let m := [u0; u1; u2; u3; u4; u5; u6; u7; u8; u9; u10; u11; u12; u13; u14; u15; u16; u17; u18; u19; u20; u21; u22; u23; u24; u25; u26] in
  dwarf_of_reg r = Some d -> dm_value (dwarf_map_of m) d = Some (rm_value m r).
Proof. intros. destruct r; cbn in H; inversion H; subst; reflexivity. Qed.

(* and nothing else: a number that is no register's number reads as absent *)
Theorem dwarf_map_nothing_else :
  forall u0 u1 u2 u3 u4 u5 u6 u7 u8 u9 u10 u11 u12 u13 u14 u15 u16 u17 u18 u19 u20 u21 u22 u23 u24 u25 u26 d,
  let m := [u0; u1; u2; u3; u4; u5; u6; u7; u8; u9; u10; u11; u12; u13; u14; u15; u16; u17; u18; u19; u20; u21; u22; u23; u24; u25; u26] in
  d < 128 -> (forall r, dwarf_of_reg r <> Some d) -> dm_value (dwarf_map_of m) d = None.
Proof.
  intros. 
  assert (Hd : In d (map N.of_nat (seq 0 128))).
  { apply in_map_iff. exists (N.to_nat d). split; [lia|]. apply in_seq. lia. }
  cbn in Hd.
  repeat (destruct Hd as [<-|Hd];
          [first [reflexivity | exfalso;
             first [apply (H0 R_Rax); reflexivity | apply (H0 R_Rdx); reflexivity | apply (H0 R_Rcx); reflexivity
                   | apply (H0 R_Rbx); reflexivity | apply (H0 R_Rsi); reflexivity | apply (H0 R_Rdi); reflexivity
                   | apply (H0 R_Rbp); reflexivity | apply (H0 R_Rsp); reflexivity | apply (H0 R_R8); reflexivity
                   | apply (H0 R_R9); reflexivity | apply (H0 R_R10); reflexivity | apply (H0 R_R11); reflexivity
                   | apply (H0 R_R12); reflexivity | apply (H0 R_R13); reflexivity | apply (H0 R_R14); reflexivity
                   | apply (H0 R_R15); reflexivity | apply (H0 R_Rip); reflexivity | apply (H0 R_Eflags); reflexivity
                   | apply (H0 R_Es); reflexivity | apply (H0 R_Cs); reflexivity | apply (H0 R_Ss); reflexivity
                   | apply (H0 R_Ds); reflexivity | apply (H0 R_Fs); reflexivity | apply (H0 R_Gs); reflexivity
                   | apply (H0 R_FsBase); reflexivity | apply (H0 R_GsBase); reflexivity]] |]).
  destruct Hd.
Qed.
