(* Proofs for C11 over the existing patch machine (Model/BpMachine.v) and the extension
   LifecycleX.v: restart keeps the user's breakpoints (numbers, addresses, enabled, memory =
   image + patches, stops = projection of the native trace), the exit code reported is the one of
   the native run, detach / drop of an attached process leaves it alive with original code, no
   breakpoint and quiet debug registers; witnesses for the clauses the faithful model violates. *)
From BS Require Import Model.Base.
From BS Require Import Gen.Dr Model.Dr Model.Wp Spec.DrArch Proofs.DrProofs Proofs.WpProofs.
From BS Require Import Model.BpMachine Proofs.BpMachineProofs.
From BS Require Import Model.LifecycleX.
From Coq Require Import Lia.
Open Scope N_scope.

Notation bst := BpMachine.st.

(* ====================================================================================== *)
(* Part A: restart                                                                         *)
(* ====================================================================================== *)
Section Restart.
Variable code : mem.
Variable tr : list N.
Variable rbrk off : N.
Variable has_place : N -> bool.
Variable exit_code : Z.
Hypothesis H_no_int3 : forall a, In a tr -> code a <> Some INT3.
Hypothesis H_mapped : forall a, In a tr -> code a <> None.
Variable entry : N.
Hypothesis H_off : off <= entry.
Hypothesis H_entry_readable : readable code entry.
Hypothesis H_rbrk_readable : readable code rbrk.
Hypothesis H_rbrk_entry : rbrk <> entry.
Hypothesis H_entry_once : forall k k', (k < length tr)%nat -> (k' < length tr)%nat ->
  pc_at tr k = entry -> pc_at tr k' = entry -> k = k'.

Local Notation WF := (WF code).
Local Notation Prompt := (Prompt code tr).
Local Notation proc_at := (proc_at tr).
Local Notation pc_at := (pc_at tr).
Local Notation Steady := (Steady tr).
Local Notation ExitedOK := (ExitedOK tr).
Local Notation exit_seen := (exit_seen exit_code).
Local Notation continue_execution := (continue_execution code tr rbrk off has_place exit_code).
Local Notation restart_debugee := (restart_debugee code tr rbrk off has_place exit_code).
Local Notation cont_loop := (cont_loop code tr rbrk off has_place exit_code).
Local Notation dis_of := (dis_of off).
Local Notation persist := (persist off).
Local Notation pendv := (pendv off).

Definition ka (u : ubp) : N := key_addr off (u_key u).
Definition eu : ubp := mk_ubp (Glob (entry - off)) 0 TEntry false.

Lemma ka_eu : ka eu = entry.
Proof. unfold ka, eu. cbn. lia. Qed.

Definition in_delbp := in_del_bp off has_place.
Definition find_bp_some' := find_bp_some off has_place.

Lemma sbm_refl : forall p, same_but_mem p p.
Proof. unfold same_but_mem. tauto. Qed.
Lemma sbm_trans : forall p q r, same_but_mem p q -> same_but_mem q r -> same_but_mem p r.
Proof. unfold same_but_mem. intros p q r (a&b&c&d) (e&f&g&h). repeat split; congruence. Qed.

Lemma rd_some : forall a, readable code a -> exists c, code a = Some c.
Proof.
  intros a R. specialize (R 0). replace (a + 0) with a in R by lia.
  destruct (code a) as [c|]; [eauto|]. exfalso. apply R; [cbn; tauto|reflexivity].
Qed.

(* an uninit user breakpoint that converts and enables when the entry point is reached: keyed by
   a relocated address (break before run) or by a global one (survivor of a restart / exit) *)
Definition GoodUX (u : ubp) : Prop :=
  u_ty u = TUser /\
  try_into_brkpt code off has_place u = Ok (mk_bp (ka u) (u_num u) 0 false TUser) /\
  readable code (ka u) /\ ka u <> entry /\ ka u <> rbrk /\ off <= ka u.

Lemma goodU_goodUX : forall u, GoodU code rbrk has_place entry u -> off <= ka u -> GoodUX u.
Proof.
  intros u G Ho. destruct (try_into_good code rbrk off has_place entry u G) as (a & Hk & Et & Hr & He & Hb).
  unfold GoodUX, ka in *. rewrite Hk in *. cbn [key_addr] in *. destruct G as (Ht & _). auto 10.
Qed.

Lemma persist_user_good : forall b, b_ty b = TUser -> readable code (b_addr b) -> b_addr b <> entry ->
  b_addr b <> rbrk -> off <= b_addr b ->
  exists u, persist b = Some u /\ GoodUX u /\ ka u = b_addr b /\ u_num u = b_num b /\ u_ty u = TUser.
Proof.
  intros b Ht Hr He Hb Ho. unfold LifecycleX.persist. rewrite Ht. eexists. split; [reflexivity|].
  assert (Hka: ka (mk_ubp (Glob (b_addr b - off)) (b_num b) TUser true) = b_addr b) by (unfold ka; cbn; lia).
  split; [|auto]. unfold GoodUX. rewrite Hka. split; [reflexivity|]. split; [|auto].
  unfold try_into_brkpt. cbn [u_key u_ty u_place u_num bind orb]. f_equal. f_equal. lia.
Qed.

(* ---------- enable_all_breakpoints on good pending breakpoints with distinct addresses ---------- *)
Definition EAX (l : list ubp) (bps bps' : list bp) : Prop :=
  (forall b, In b bps' -> (In b bps /\ ~ In (b_addr b) (map ka l)) \/
     (b_ty b = TUser /\ exists u, In u l /\ b_addr b = ka u /\ b_num b = u_num u)) /\
  (forall b, In b bps -> ~ In (b_addr b) (map ka l) -> In b bps') /\
  (forall u, In u l -> exists b, In b bps' /\ b_ty b = TUser /\ b_addr b = ka u /\ b_num b = u_num u).

Lemma enable_all_okX : forall l bps p, Forall GoodUX l -> NoDup (map ka l) -> WF bps (p_mem p) -> p_alive p = true ->
  let r := enable_all_from code off has_place l bps p in
  WF (fst r) (p_mem (snd r)) /\ same_but_mem p (snd r) /\ EAX l bps (fst r).
Proof.
  induction l as [|u t IH]; intros bps p HG ND W Hal.
  - cbn zeta. cbn [enable_all_from fst snd map]. split; [exact W|]. split; [apply sbm_refl|]. unfold EAX.
    split; [intros b Hb; left; split; [exact Hb|intros []]|]. split; [auto|intros u []].
  - inversion HG as [|? ? Gu Gt]; subst. cbn [map] in ND. inversion ND as [|? ? Hnin NDt]; subst.
    cbn [enable_all_from].
    destruct Gu as (Hty & Et & Hr & Hne & Hnb & Hoff). rewrite Et.
    destruct (rd_some _ Hr) as [c Hc].
    destruct (add_and_enable_ok code off has_place bps p (mk_bp (ka u) (u_num u) 0 false TUser) c W Hal Hr Hc)
      as (p1 & E1 & S1 & W1 & M1).
    rewrite E1. cbn [fst snd].
    set (nb := bp_set (mk_bp (ka u) (u_num u) 0 false TUser) c true) in *.
    assert (Hal1: p_alive p1 = true) by (destruct S1; congruence).
    specialize (IH (ins_bp nb bps) p1 Gt NDt W1 Hal1). cbn zeta in IH.
    destruct IH as (W' & S' & (P1 & P2 & P3)).
    split; [exact W'|]. split; [eapply sbm_trans; eauto|].
    unfold EAX. split; [|split].
    + intros b Hb. destruct (P1 b Hb) as [[Hin Hnt]|(Hty' & u' & Hu' & Ha' & Hn')].
      * destruct Hin as [Hnb'|Hin].
        -- right. subst b. split; [reflexivity|]. exists u. split; [now left|]. split; reflexivity.
        -- apply in_delbp in Hin. destruct Hin as [Hin Hd]. left. split; [exact Hin|].
           cbn [map]. intros [E|E]; [|contradiction]. apply Hd. cbn [b_addr nb bp_set]. congruence.
      * right. split; [exact Hty'|]. exists u'. split; [now right|auto].
    + intros b Hb Hno. cbn [map] in Hno. apply P2.
      * right. apply in_delbp. split; [exact Hb|]. cbn [b_addr nb bp_set]. intro E. apply Hno. left. congruence.
      * intro E. apply Hno. now right.
    + intros u' [Hu'|Hu'].
      * subst u'. exists nb. split; [|split; [reflexivity|split; reflexivity]].
        apply P2; [now left|]. cbn [b_addr nb bp_set]. exact Hnin.
      * apply P3. exact Hu'.
Qed.

(* ---------- the registry side of disable_all_breakpoints ---------- *)
Lemma disable_all_from_fst : forall l dis p, fst (disable_all_from off l dis p) = dis_of l dis.
Proof.
  induction l as [|b t IH]; intros dis p; [reflexivity|].
  cbn [disable_all_from LifecycleX.dis_of]. rewrite IH. f_equal.
  unfold LifecycleX.persist. destruct (b_ty b); reflexivity.
Qed.

Lemma disable_all_reg : forall r p,
  fst (disable_all off r p) = mk_reg [] (dis_of (r_bps r) (r_dis r)) (r_next r).
Proof. intros. unfold disable_all. cbn [fst]. now rewrite disable_all_from_fst. Qed.

Lemma dis_of_put : forall b x e l d, (forall c, In c l -> b_addr c = b_addr b -> c = b) ->
  dis_of (put_bp (bp_set b x e) l) d = dis_of l d.
Proof.
  intros b x e. induction l as [|c t IH]; intros d H; [reflexivity|].
  unfold put_bp. cbn [map LifecycleX.dis_of]. fold (put_bp (bp_set b x e) t).
  cbn [b_addr bp_set].
  destruct (b_addr c =? b_addr b) eqn:E.
  - apply N.eqb_eq in E. assert (c = b) by (apply H; [now left|exact E]). subst c.
    replace (persist (bp_set b x e)) with (persist b) by reflexivity.
    apply IH. intros c Hc. apply H. now right.
  - apply IH. intros c' Hc. apply H. now right.
Qed.

Lemma del_dis_notin : forall k d, ~ In k (map u_key d) -> del_dis k d = d.
Proof.
  intros k d H. unfold del_dis. apply filter_id. intros u Hu. apply negb_true_iff.
  destruct (address_eqb (u_key u) k) eqn:E; [|reflexivity]. exfalso. apply H.
  apply in_map_iff. exists u. split; [|exact Hu].
  destruct (u_key u), k; cbn in E; try discriminate; apply N.eqb_eq in E; now subst.
Qed.

Lemma dis_of_rev : forall l d,
  NoDup (map u_key (filter_map persist l) ++ map u_key d) ->
  dis_of l d = rev (filter_map persist l) ++ d.
Proof.
  induction l as [|b t IH]; intros d ND; [reflexivity|].
  cbn [LifecycleX.dis_of filter_map] in *. destruct (persist b) as [u|] eqn:Ep.
  - cbn [map app] in ND. inversion ND as [|? ? Hnin ND']; subst.
    unfold add_uninit. rewrite del_dis_notin by (intro H; apply Hnin, in_or_app; now right).
    rewrite IH.
    + cbn [rev]. now rewrite <- app_assoc.
    + cbn [map].
      (* move u_key u into the middle *)
      assert (Hp: forall (A : Type) (x : A) l1 l2, NoDup (x :: l1 ++ l2) -> NoDup (l1 ++ x :: l2)).
      { intros A x l1 l2 Hn. apply NoDup_Add with (a := x) (l := l1 ++ l2); [apply Add_app|].
        inversion Hn; subst. split; assumption. }
      apply Hp. constructor; assumption.
  - apply IH. exact ND.
Qed.

(* ---------- a registry from which a restart re-arms everything ---------- *)
Record GoodReg (bps : list bp) : Prop := mk_GoodReg {
  gr_entry : exists b, In b bps /\ b_ty b = TEntry /\ b_addr b = entry;
  gr_entry_only : forall b, In b bps -> b_ty b = TEntry -> b_addr b = entry;
  gr_types : forall b, In b bps -> b_ty b = TUser \/ b_ty b = TLinker \/ b_ty b = TEntry;
  gr_user : forall b, In b bps -> b_ty b = TUser ->
            readable code (b_addr b) /\ b_addr b <> entry /\ b_addr b <> rbrk /\ off <= b_addr b
}.

(* the registry between two runs: nothing active, the entry-point breakpoint and the user's
   breakpoints pending, at distinct places *)
Record Dormant (r : reg) : Prop := mk_Dormant {
  do_bps : r_bps r = [];
  do_entry : In eu (r_dis r);
  do_others : forall u, In u (r_dis r) -> u = eu \/ GoodUX u;
  do_nodup : NoDup (map ka (r_dis r))
}.

Lemma persist_ka : forall b u, persist b = Some u -> off <= b_addr b -> ka u = b_addr b /\ u_key u = Glob (b_addr b - off).
Proof.
  intros b u H Ho. unfold LifecycleX.persist in H. destruct (b_ty b); inversion H; subst; unfold ka; cbn; split; auto; lia.
Qed.

Lemma good_off : forall bps b u, GoodReg bps -> In b bps -> persist b = Some u -> off <= b_addr b.
Proof.
  intros bps b u G Hb Hp. unfold LifecycleX.persist in Hp. destruct (b_ty b) eqn:Et; try discriminate.
  - rewrite (gr_entry_only _ G b Hb Et). exact H_off.
  - apply (gr_user _ G b Hb Et).
Qed.

Lemma fm_persist_in : forall l u, In u (filter_map persist l) <-> exists b, In b l /\ persist b = Some u.
Proof.
  induction l as [|c t IH]; intros u; cbn [filter_map].
  - split; [intros []|intros (b & [] & _)].
  - destruct (persist c) as [v|] eqn:E.
    + cbn [In]. rewrite IH. split.
      * intros [->|(b & Hb & Hp)]; [exists c; split; [now left|exact E]|exists b; split; [now right|exact Hp]].
      * intros (b & [->|Hb] & Hp); [left; congruence|right; eauto].
    + rewrite IH. split.
      * intros (b & Hb & Hp); exists b; split; [now right|exact Hp].
      * intros (b & [->|Hb] & Hp); [congruence|eauto].
Qed.

Lemma nodup_fm_persist : forall l, NoDup (addrs l) -> (forall b u, In b l -> persist b = Some u -> off <= b_addr b) ->
  NoDup (map ka (filter_map persist l)) /\ NoDup (map u_key (filter_map persist l)).
Proof.
  induction l as [|c t IH]; intros ND Ho; cbn [filter_map]; [split; constructor|].
  cbn [addrs map] in ND. inversion ND as [|? ? Hnin NDt]; subst.
  assert (Ho': forall b u, In b t -> persist b = Some u -> off <= b_addr b) by (intros; eapply Ho; [right|]; eauto).
  destruct (IH NDt Ho') as [IH1 IH2].
  destruct (persist c) as [v|] eqn:E; [|auto].
  destruct (persist_ka c v E (Ho c v (or_introl eq_refl) E)) as [Hka Hkey].
  cbn [map]. split; constructor; auto.
  - intro Hin. apply in_map_iff in Hin. destruct Hin as (w & Ew & Hw). apply fm_persist_in in Hw.
    destruct Hw as (b & Hb & Hp). destruct (persist_ka b w Hp (Ho' b w Hb Hp)) as [Hkb _].
    apply Hnin. unfold addrs. apply in_map_iff. exists b. split; [congruence|exact Hb].
  - intro Hin. apply in_map_iff in Hin. destruct Hin as (w & Ew & Hw). apply fm_persist_in in Hw.
    destruct Hw as (b & Hb & Hp). destruct (persist_ka b w Hp (Ho' b w Hb Hp)) as [Hkb Hkeyb].
    apply Hnin. unfold addrs. apply in_map_iff. exists b. split; [|exact Hb].
    rewrite Hkey, Hkeyb in Ew. inversion Ew.
    pose proof (Ho' b w Hb Hp). pose proof (Ho c v (or_introl eq_refl) E). lia.
Qed.

(* what disable_all_breakpoints leaves of a good registry: dormant, same (number, address) pairs *)
Lemma dis_of_good : forall bps n, NoDup (addrs bps) -> GoodReg bps ->
  Dormant (mk_reg [] (dis_of bps []) n) /\
  (forall v, In v (pendv (mk_reg [] (dis_of bps []) n)) <-> In v (uviews bps)).
Proof.
  intros bps n ND G.
  assert (Ho: forall b u, In b bps -> persist b = Some u -> off <= b_addr b) by (intros; eapply good_off; eauto).
  destruct (nodup_fm_persist bps ND Ho) as [N1 N2].
  rewrite dis_of_rev by (cbn [map]; rewrite app_nil_r; exact N2). rewrite app_nil_r.
  assert (Hin: forall u, In u (rev (filter_map persist bps)) <-> exists b, In b bps /\ persist b = Some u).
  { intro u. rewrite <- in_rev. apply fm_persist_in. }
  split.
  - constructor; cbn [r_bps r_dis].
    + reflexivity.
    + apply Hin. destruct (gr_entry _ G) as (b & Hb & Ht & Ha). exists b. split; [exact Hb|].
      unfold LifecycleX.persist, eu. rewrite Ht, Ha. reflexivity.
    + intros u Hu. apply Hin in Hu. destruct Hu as (b & Hb & Hp).
      destruct (gr_types _ G b Hb) as [Ht|[Ht|Ht]].
      * right. destruct (gr_user _ G b Hb Ht) as (Hr & He & Hk & Hf).
        destruct (persist_user_good b Ht Hr He Hk Hf) as (u' & Hp' & Gu & _). congruence.
      * unfold LifecycleX.persist in Hp. rewrite Ht in Hp. discriminate.
      * left. unfold LifecycleX.persist in Hp. rewrite Ht, (gr_entry_only _ G b Hb Ht) in Hp. inversion Hp. reflexivity.
    + rewrite map_rev. apply NoDup_rev. exact N1.
  - intros [vn va]. unfold LifecycleX.pendv, uviews. cbn [r_dis]. rewrite !in_map_iff. split.
    + intros (u & Ev & Hu). apply filter_In in Hu. destruct Hu as [Hu Hty]. apply Hin in Hu.
      destruct Hu as (b & Hb & Hp). exists b.
      unfold LifecycleX.persist in Hp. destruct (b_ty b) eqn:Et; try discriminate; inversion Hp; subst u; cbn in Hty; try discriminate.
      pose proof (gr_user _ G b Hb Et) as (_ & _ & _ & Hf).
      split.
      * inversion Ev; subst. cbn [u_num u_key key_addr]. f_equal. lia.
      * unfold user_bps. apply filter_In. split; [exact Hb|]. now rewrite Et.
    + intros (b & Ev & Hb). unfold user_bps in Hb. apply filter_In in Hb. destruct Hb as [Hb Hty].
      assert (Et: b_ty b = TUser) by (destruct (b_ty b); try discriminate; reflexivity).
      destruct (gr_user _ G b Hb Et) as (Hr & He & Hk & Hf).
      destruct (persist_user_good b Et Hr He Hk Hf) as (u & Hp & _ & Hka & Hnum & Hut).
      exists u. split.
      * inversion Ev; subst. fold (ka u). now rewrite Hka, Hnum.
      * apply filter_In. split; [apply Hin; eauto|]. now rewrite Hut.
Qed.

(* ---------- the continue loop in the steady state, with the registry it leaves at the exit ---------- *)
Definition ExitReg (s s' : bst) : Prop :=
  s_reg s' = mk_reg [] (dis_of (r_bps (s_reg s)) (r_dis (s_reg s))) (r_next (s_reg s)) /\
  s_detached s' = s_detached s /\ s_external s' = s_external s.

Lemma exit_by_step_reg : forall s b x e p, In b (r_bps (s_reg s)) -> NoDup (addrs (r_bps (s_reg s))) ->
  ExitReg s (exit_by_step off s (put_bp (bp_set b x e) (r_bps (s_reg s))) p).
Proof.
  intros s b x e p Hb ND. unfold ExitReg, exit_by_step. cbn [s_reg s_detached s_external].
  rewrite disable_all_reg. cbn [r_bps r_dis r_next]. split; [|auto]. f_equal.
  apply dis_of_put. intros c Hc E. eapply in_addrs_unique; eauto.
Qed.

Lemma cont_steadyX : no_stutter tr -> forall fuel i m s,
  let bps := r_bps (s_reg s) in
  s_proc s = proc_at m i -> (i < length tr)%nat -> WF bps m -> Steady bps i -> (fuel > length tr - i)%nat ->
  match next_hit_from (uaddrs bps) (skipn i tr) i with
  | Some j => exists m' b, cont_loop fuel s
                           = Ok (with_bps s bps (proc_at m' j), CStop (StopBp (pc_at j) (b_num b))) /\
                find_bp (pc_at j) bps = Some b /\ b_ty b = TUser /\ WF bps m' /\ (forall x, m' x = m x)
  | None => exists s' r, cont_loop fuel s = Ok (s', r) /\ exit_seen r /\ ExitedOK s' /\ ExitReg s s'
  end.
Proof.
  intros NS fuel. induction fuel as [|f IH]; intros i m s bps Hp Hi W St Hf; [lia|].
  cbn [BpMachine.cont_loop]. rewrite Hp. unfold fuel0.
  rewrite (run_cpu_spec code tr H_no_int3 H_mapped bps m (S (length tr)) i W Hi) by lia.
  destruct (next_hit_from (addrs bps) (skipn i tr) i) as [j|] eqn:En.
  - apply next_hit_trace in En; [|lia]. destruct En as (Hj & Ej & Hbefore).
    cbn [fst snd]. rewrite trap_pc, trap_rewind.
    fold bps. apply memb_iff in Ej. destruct (find_bp_in _ _ Ej) as [b Eb]. rewrite Eb.
    destruct (find_bp_some' _ _ _ Eb) as [Hb Hab].
    rewrite (steady_no_tmp _ _ _ St). cbn [andb].
    assert (Hnu: forall k, (i <= k < j)%nat -> memb (pc_at k) (uaddrs bps) = false).
    { intros k Hk. apply not_true_is_false. intro H. apply memb_iff in H. apply uaddrs_sub in H.
      apply memb_iff in H. rewrite Hbefore in H by lia. discriminate. }
    destruct (st_types _ _ _ St b Hb) as [Et|[Et|Et]]; rewrite Et.
    + assert (Hju: memb (pc_at j) (uaddrs bps) = true) by (apply memb_iff, uaddrs_in; exists b; auto).
      rewrite (next_hit_from_here tr (uaddrs bps) i j Hj Hnu Hju).
      exists m, b. split; [reflexivity|]. split; [exact Eb|]. split; [exact Et|]. split; [exact W|reflexivity].
    + assert (Hnj: memb (pc_at j) (uaddrs bps) = false).
      { apply not_true_is_false. intro H. apply memb_iff in H. apply uaddrs_in in H.
        destruct H as [c (Hc & Htc & Hac)].
        assert (c = b) by (eapply in_addrs_unique; eauto; [apply W|congruence]). subst c. congruence. }
      assert (Hnu': forall k, (i <= k < S j)%nat -> memb (pc_at k) (uaddrs bps) = false).
      { intros k Hk. destruct (Nat.eq_dec k j) as [Ekj|Ekj]; [rewrite Ekj; exact Hnj|apply Hnu; lia]. }
      assert (Hisj: (i <= S j <= length tr)%nat) by lia.
      rewrite (next_hit_from_skip tr (uaddrs bps) i (S j) Hisj Hnu').
      unfold step_over_breakpoint. cbn [p_pc BpMachineProofs.proc_at]. rewrite Eb.
      destruct (wf_bp _ _ _ W b Hb) as (Hen & _). rewrite Hen.
      destruct (Nat.eq_dec (S j) (length tr)) as [Elast|Elast].
      * destruct (step_over_core_exit code tr off has_place H_no_int3 H_mapped bps m j b W Elast Hb Hab) as (m1 & Ec).
        rewrite Ec. cbn [bind fst snd]. rewrite Elast, skipn_all. cbn [next_hit_from].
        eexists. eexists. split; [reflexivity|]. split; [right; reflexivity|].
        split; [apply exit_by_step_ok|]. apply exit_by_step_reg; [exact Hb|apply W].
      * assert (HSj: (S j < length tr)%nat) by lia.
        destruct (step_over_core_once code tr off has_place H_no_int3 H_mapped bps m j b NS W HSj Hb Hab) as (m' & Ec & W' & Hm').
        rewrite Ec. cbn [bind fst snd]. rewrite (put_bp_same _ _ (wf_nodup _ _ _ W) Hb).
        specialize (IH (S j) m' (with_bps s bps (proc_at m' (S j)))).
        cbn [with_bps with_rp s_reg s_proc r_bps] in IH.
        assert (Hle: (i <= S j)%nat) by lia. assert (Hfu: (f > length tr - S j)%nat) by lia.
        specialize (IH eq_refl HSj W' (steady_mono _ _ _ _ St Hle) Hfu).
        destruct (next_hit_from (uaddrs bps) (skipn (S j) tr) (S j)) as [j'|].
        -- destruct IH as (m'' & b' & E & F & T & W'' & Hm''). exists m'', b'.
           split; [exact E|]. split; [exact F|]. split; [exact T|]. split; [exact W''|].
           intro x. rewrite Hm''. apply Hm'.
        -- destruct IH as (s' & r & E & Hx & Hok & Hreg). exists s', r. split; [exact E|]. split; [exact Hx|].
           split; [exact Hok|]. exact Hreg.
    + exfalso. apply (st_entry _ _ _ St b Hb Et j); [lia|]. congruence.
  - cbn [fst snd].
    assert (Hil: (i <= length tr)%nat) by lia.
    assert (Hnone: forall k, (i <= k < length tr)%nat -> memb (pc_at k) (uaddrs bps) = false).
    { intros k Hk. apply not_true_is_false. intro H. apply memb_iff in H. apply uaddrs_sub in H.
      apply memb_iff in H. rewrite (next_hit_none_trace _ _ _ Hil En k Hk) in H. discriminate. }
    rewrite (next_hit_from_none tr (uaddrs bps) i Hil Hnone).
    eexists. eexists. split; [reflexivity|]. split; [left; reflexivity|]. split; [apply exit_state_ok|].
    unfold ExitReg. cbn [s_reg s_detached s_external]. rewrite disable_all_reg. auto.
Qed.


(* continuing from a prompt with no user breakpoint ahead: the exit is reported and the registry is
   what disable_all_breakpoints makes of the prompt's registry *)
Lemma continue_exitX : no_stutter tr -> forall s i m, Prompt s i m ->
  next_hit tr (uaddrs (r_bps (s_reg s))) (S i) = None ->
  exists s' r, continue_execution s = Ok (s', r) /\ exit_seen r /\ ExitedOK s' /\ ExitReg s s'.
Proof.
  intros NS s i m [Hst Hp Hi W St] Hn. set (bps := r_bps (s_reg s)) in *.
  unfold BpMachine.continue_execution. rewrite Hst.
  unfold step_over_breakpoint. rewrite Hp. cbn [p_pc BpMachineProofs.proc_at]. fold bps.
  assert (Hloop: forall i0 m0, (i <= i0 <= S i)%nat -> (i0 < length tr)%nat -> WF bps m0 ->
            (i0 = i -> ~ In (pc_at i) (addrs bps)) ->
            exists s' r, cont_loop (loop_fuel tr) (with_bps s bps (proc_at m0 i0)) = Ok (s', r) /\
                         exit_seen r /\ ExitedOK s' /\ ExitReg s s').
  { intros i0 m0 Hi0 Hi0l W0 Hnot.
    assert (St0: Steady bps i0) by (eapply steady_mono; [exact St|lia]).
    pose proof (cont_steadyX NS (loop_fuel tr) i0 m0 (with_bps s bps (proc_at m0 i0))) as C.
    cbn [with_bps with_rp s_reg s_proc r_bps] in C.
    assert (Hfu: (loop_fuel tr > length tr - i0)%nat) by (unfold loop_fuel; lia).
    specialize (C eq_refl Hi0l W0 St0 Hfu).
    assert (Hsame: next_hit_from (uaddrs bps) (skipn i0 tr) i0 = None).
    { rewrite <- Hn. unfold next_hit. destruct (Nat.eq_dec i0 i) as [E0|E0].
      - subst i0. apply next_hit_from_skip; [lia|]. intros k Hk. assert (k = i) by lia. subst k.
        apply not_true_is_false. intro H. apply memb_iff in H. apply uaddrs_sub in H. now apply Hnot.
      - assert (i0 = S i) by lia. now subst. }
    rewrite Hsame in C. destruct C as (s' & r & E & Hx & Hok & Hreg). exists s', r.
    split; [exact E|]. split; [exact Hx|]. split; [exact Hok|]. exact Hreg. }
  destruct (find_bp (pc_at i) bps) as [b|] eqn:Eb.
  - destruct (find_bp_some' _ _ _ Eb) as [Hb Hab].
    destruct (wf_bp _ _ _ W b Hb) as (Hen & _). rewrite Hen.
    destruct (Nat.eq_dec (S i) (length tr)) as [Elast|Elast].
    + destruct (step_over_core_exit code tr off has_place H_no_int3 H_mapped bps m i b W Elast Hb Hab) as (m1 & Ec).
      rewrite Ec. cbn [bind fst snd].
      eexists. eexists. split; [reflexivity|]. split; [right; reflexivity|].
      split; [apply exit_by_step_ok|]. apply exit_by_step_reg; [exact Hb|apply W].
    + assert (HSi: (S i < length tr)%nat) by lia.
      destruct (step_over_core_once code tr off has_place H_no_int3 H_mapped bps m i b NS W HSi Hb Hab) as (m' & Ec & W' & Hm').
      rewrite Ec. cbn [bind fst snd]. rewrite (put_bp_same bps b (wf_nodup _ _ _ W) Hb).
      apply Hloop; auto; lia.
  - cbn [bind fst snd]. apply Hloop; auto; try lia. intros _. now apply find_bp_none.
Qed.

(* ---------- views ---------- *)
Definition pv (d : list ubp) : list (N * N) :=
  map (fun u => (u_num u, ka u)) (filter (fun u => bty_eqb (u_ty u) TUser) d).

Lemma pendv_pv : forall r, pendv r = pv (r_dis r).
Proof. reflexivity. Qed.

Lemma pending_addrs_pv : forall s a, In a (pending_addrs off s) <-> exists n, In (n, a) (pv (r_dis (s_reg s))).
Proof.
  intros s a. unfold pending_addrs, pv. rewrite in_map_iff. split.
  - intros (u & E & Hu). exists (u_num u). apply in_map_iff. exists u. unfold ka. split; [now rewrite E|exact Hu].
  - intros (n & H). apply in_map_iff in H. destruct H as (u & E & Hu). exists u. inversion E. split; [reflexivity|exact Hu].
Qed.

Lemma uaddrs_uviews : forall bps a, In a (uaddrs bps) <-> exists n, In (n, a) (uviews bps).
Proof.
  intros bps a. unfold uaddrs, uviews. rewrite in_map_iff. split.
  - intros (b & E & Hb). exists (b_num b). apply in_map_iff. exists b. split; [now rewrite E|exact Hb].
  - intros (n & H). apply in_map_iff in H. destruct H as (b & E & Hb). exists b. inversion E. split; [reflexivity|exact Hb].
Qed.

Lemma uviews_in : forall bps n a, In (n, a) (uviews bps) <-> exists b, In b bps /\ b_ty b = TUser /\ b_num b = n /\ b_addr b = a.
Proof.
  intros. unfold uviews, user_bps. rewrite in_map_iff. split.
  - intros (b & E & Hb). apply filter_In in Hb. destruct Hb as [Hb Ht]. exists b. inversion E.
    split; [exact Hb|]. split; [destruct (b_ty b); try discriminate; reflexivity|auto].
  - intros (b & Hb & Ht & En & Ea). exists b. split; [now rewrite En, Ea|]. apply filter_In. split; [exact Hb|now rewrite Ht].
Qed.

Lemma pv_in : forall d n a, In (n, a) (pv d) <-> exists u, In u d /\ u_ty u = TUser /\ u_num u = n /\ ka u = a.
Proof.
  intros. unfold pv. rewrite in_map_iff. split.
  - intros (u & E & Hu). apply filter_In in Hu. destruct Hu as [Hu Ht]. exists u. inversion E.
    split; [exact Hu|]. split; [destruct (u_ty u); try discriminate; reflexivity|auto].
  - intros (u & Hu & Ht & En & Ea). exists u. split; [now rewrite En, Ea|]. apply filter_In. split; [exact Hu|now rewrite Ht].
Qed.

Lemma nodup_map_filter : forall {A B} (f : A -> B) (g : A -> bool) l, NoDup (map f l) -> NoDup (map f (filter g l)).
Proof.
  intros A B f g. induction l as [|x t IH]; intros H; cbn [filter map]; [constructor|].
  cbn [map] in H. inversion H; subst. destruct (g x); cbn [map]; [|auto]. constructor; [|auto].
  intro Hin. apply H2. apply in_map_iff in Hin. destruct Hin as (y & E & Hy). apply filter_In in Hy.
  apply in_map_iff. exists y. tauto.
Qed.

Definition ExitKeeps (s s' : bst) : Prop :=
  Dormant (s_reg s') /\ (forall v, In v (pendv (s_reg s')) <-> In v (pendv (s_reg s))) /\
  r_next (s_reg s') = r_next (s_reg s) /\ s_detached s' = s_detached s /\ s_external s' = s_external s.

(* ---------- run / restart from a dormant registry ---------- *)
Theorem runX : no_stutter tr -> (0 < length tr)%nat -> forall s, s_status s = Unload -> Dormant (s_reg s) ->
  let U := pending_addrs off s in
  match next_hit tr [entry] O with
  | None => exists s' r, continue_execution s = Ok (s', r) /\ exit_seen r /\ ExitedOK s' /\ ExitKeeps s s'
  | Some e =>
      match next_hit tr U (S e) with
      | Some j => exists m' b s', continue_execution s = Ok (s', CStop (StopBp (pc_at j) (b_num b))) /\
                    Prompt s' j m' /\ r_dis (s_reg s') = [] /\ GoodReg (r_bps (s_reg s')) /\
                    find_bp (pc_at j) (r_bps (s_reg s')) = Some b /\ b_ty b = TUser /\
                    (forall v, In v (uviews (r_bps (s_reg s'))) <-> In v (pendv (s_reg s))) /\
                    r_next (s_reg s') = r_next (s_reg s) /\ s_detached s' = s_detached s /\
                    s_external s' = s_external s /\ s_fate s' = s_fate s
      | None => exists s' r, continue_execution s = Ok (s', r) /\ exit_seen r /\ ExitedOK s' /\ ExitKeeps s s'
      end
  end.
Proof.
  intros NS Hlen s Hs [Hb He Ho HND] U. unfold BpMachine.continue_execution. rewrite Hs.
  unfold enable_entry.
  destruct (find (fun u => bty_eqb (u_ty u) TEntry) (r_dis (s_reg s))) as [u0|] eqn:Ef.
  2:{ eapply find_none in Ef; [|exact He]. cbn in Ef. discriminate. }
  apply find_some in Ef. destruct Ef as [Hu0 Ht0].
  assert (u0 = eu).
  { destruct (Ho u0 Hu0) as [|[Ht _]]; [assumption|]. rewrite Ht in Ht0. discriminate. }
  subst u0. unfold try_into_brkpt. cbn [eu u_key u_ty u_num bind].
  replace (entry - off + off) with entry by lia.
  destruct (rd_some entry H_entry_readable) as [ce Hce].
  assert (Wnil: WF [] (p_mem (fresh_proc code tr))).
  { constructor; [constructor|intros b []|intro x; reflexivity]. }
  destruct (add_and_enable_ok code off has_place [] (fresh_proc code tr) (mk_bp entry 0 0 false TEntry) ce) as (p1 & E1 & S1 & W1 & M1); auto.
  rewrite Hb, E1. cbn [bind fst snd].
  set (eb := bp_set (mk_bp entry 0 0 false TEntry) ce true) in *.
  set (dis1 := del_dis (Glob (entry - off)) (r_dis (s_reg s))).
  assert (Hins: ins_bp eb [] = [eb]) by reflexivity. rewrite Hins in *.
  set (m1 := p_mem p1) in *.
  assert (Hp1: p1 = proc_at m1 0).
  { destruct p1 as [mm a1 ps1 pc1 ex1]. destruct S1 as (A&B&C&D). unfold fresh_proc in *. cbn in *. subst.
    unfold BpMachineProofs.proc_at. f_equal. symmetry. now apply Nat.ltb_lt. }
  (* the pending user breakpoints *)
  assert (Hin1: forall u, In u dis1 <-> In u (r_dis (s_reg s)) /\ u <> eu).
  { intro u. unfold dis1, del_dis. rewrite filter_In. split.
    - intros [Hu Hk]. split; [exact Hu|]. intros ->. cbn in Hk. rewrite N.eqb_refl in Hk. discriminate.
    - intros [Hu Hne]. split; [exact Hu|]. destruct (Ho u Hu) as [->|G]; [congruence|].
      destruct G as (_ & _ & _ & Hnent & _). apply negb_true_iff.
      destruct (u_key u) as [a|g] eqn:Ek; [reflexivity|]. cbn. apply N.eqb_neq. intro Eg. apply Hnent.
      unfold ka. rewrite Ek. cbn. lia. }
  assert (Hdis1: Forall GoodUX dis1).
  { apply Forall_forall. intros u Hu. apply Hin1 in Hu. destruct Hu as [Hu Hne].
    destruct (Ho u Hu) as [->|G]; [congruence|exact G]. }
  assert (ND1: NoDup (map ka dis1)) by (apply nodup_map_filter; exact HND).
  assert (Hpv1: forall v, In v (pv dis1) <-> In v (pendv (s_reg s))).
  { intros [n a]. rewrite pendv_pv, !pv_in. split.
    - intros (u & Hu & R). apply Hin1 in Hu. exists u. tauto.
    - intros (u & Hu & Ht & R). exists u. split; [|auto]. apply Hin1. split; [exact Hu|]. intros ->. discriminate. }
  assert (HU: forall a, In a U <-> exists u, In u dis1 /\ ka u = a).
  { intro a. unfold U. rewrite pending_addrs_pv. split.
    - intros (n & H). rewrite <- pendv_pv in H. apply Hpv1 in H. apply pv_in in H. destruct H as (u & Hu & _ & _ & Ea). eauto.
    - intros (u & Hu & Ea). exists (u_num u). rewrite <- pendv_pv. apply Hpv1. apply pv_in. exists u.
      rewrite Forall_forall in Hdis1. destruct (Hdis1 u Hu) as (Ht & _). auto. }
  assert (Hkey1: ~ In (Glob (entry - off)) (map u_key dis1)).
  { intro H. apply in_map_iff in H. destruct H as (u & Ek & Hu). unfold dis1, del_dis in Hu. apply filter_In in Hu.
    destruct Hu as [_ Hk]. rewrite Ek in Hk. cbn in Hk. rewrite N.eqb_refl in Hk. discriminate. }
  assert (Hent1: ~ In entry (map ka dis1)).
  { intro H. apply in_map_iff in H. destruct H as (u & Ek & Hu). rewrite Forall_forall in Hdis1.
    destruct (Hdis1 u Hu) as (_ & _ & _ & Hne & _). congruence. }
  (* the state left by an exit before the entry point is reached *)
  assert (HexitA: forall p', ExitKeeps s (let y := disable_all off (mk_reg [eb] dis1 (r_next (s_reg s))) p' in
                             BpMachine.mk_st (fst y) (snd y) Exited (s_detached s) (s_external s) FReaped)).
  { intro p'. unfold ExitKeeps. cbn zeta. cbn [s_reg s_detached s_external]. rewrite disable_all_reg. cbn [r_bps r_dis r_next].
    assert (Ed: dis_of [eb] dis1 = eu :: dis1).
    { cbn [LifecycleX.dis_of]. unfold LifecycleX.persist. cbn [b_ty eb bp_set b_addr].
      unfold add_uninit. cbn [u_key]. rewrite del_dis_notin by exact Hkey1. reflexivity. }
    rewrite Ed. split; [|split; [|auto]].
    - constructor; cbn [r_bps r_dis]; [reflexivity|now left| |].
      + intros u [<-|Hu]; [now left|]. right. rewrite Forall_forall in Hdis1. now apply Hdis1.
      + cbn [map]. rewrite ka_eu. constructor; assumption.
    - intro v. rewrite pendv_pv. cbn [r_dis]. unfold pv at 1. cbn [filter eu u_ty bty_eqb]. fold (pv dis1). apply Hpv1. }
  (* first iteration of the loop: run to the entry point *)
  unfold loop_fuel. remember (S (length tr)) as f1 eqn:Ef1. cbn [BpMachine.cont_loop s_proc]. rewrite Hp1. unfold fuel0.
  rewrite (run_cpu_spec code tr H_no_int3 H_mapped [eb] m1 (S (length tr)) 0 W1 Hlen) by lia.
  assert (Haddr: addrs [eb] = [entry]) by reflexivity. rewrite Haddr.
  unfold next_hit. change (skipn 0 tr) with tr.
  destruct (next_hit_from [entry] tr 0) as [e|] eqn:En.
  2:{ cbn [fst snd]. eexists. eexists. split; [reflexivity|]. split; [left; reflexivity|].
      split; [apply exit_state_ok|]. cbn [s_reg s_detached s_external]. fold dis1. apply HexitA. }
  pose proof (next_hit_trace tr [entry] 0 e (Nat.le_0_l _) En) as (Hel & Hee & _).
  apply memb_iff in Hee. destruct Hee as [Hee|[]].
  cbn [fst snd]. rewrite trap_pc, trap_rewind. cbn [s_reg r_bps r_dis r_next].
  rewrite <- Hee. unfold find_bp. cbn [find b_addr eb bp_set]. rewrite N.eqb_refl.
  cbn [has_tmp existsb is_temp b_ty eb bp_set bty_eqb andb orb negb].
  (* enable_all_breakpoints *)
  assert (Hal0: p_alive (proc_at m1 e) = true) by (cbn [p_alive BpMachineProofs.proc_at]; apply Nat.ltb_lt; lia).
  pose proof (enable_all_okX dis1 [eb] (proc_at m1 e) Hdis1 ND1 W1 Hal0) as EA. cbn zeta in EA.
  fold dis1.
  destruct (enable_all_from code off has_place dis1 [eb] (proc_at m1 e)) as [bps2 p2] eqn:Eea.
  cbn [fst snd] in EA |- *. destruct EA as (W2 & S2 & (P1 & P2 & P3)).
  (* the linker-map breakpoint *)
  destruct (rd_some rbrk H_rbrk_readable) as [cr Hcr].
  assert (Hal2: p_alive p2 = true) by (destruct S2 as (A&_); congruence).
  destruct (add_and_enable_ok code off has_place bps2 p2 (mk_bp rbrk 0 0 false TLinker) cr W2 Hal2 H_rbrk_readable Hcr) as (p3 & E3 & S3 & W3 & M3).
  rewrite E3. cbn [bind fst snd].
  set (lb := bp_set (mk_bp rbrk 0 0 false TLinker) cr true) in *.
  set (bps3 := ins_bp lb bps2) in *.
  assert (Hp3: p3 = proc_at (p_mem p3) e).
  { pose proof (sbm_trans _ _ _ S2 S3) as (A&B&C&D). clear - A B C D.
    destruct p3 as [mm a1 ps1 pc1 ex1]. cbn [p_alive p_pos p_pc p_exec p_mem BpMachineProofs.proc_at] in *.
    rewrite A, B, C, D. reflexivity. }
  set (m3 := p_mem p3) in *.
  (* facts about the registry after the entry-point handling *)
  assert (Heb_in: In eb bps3).
  { right. apply in_delbp. split.
    - apply P2; [now left|]. exact Hent1.
    - cbn. auto. }
  assert (Hin3: forall b, In b bps3 -> b = lb \/ b = eb \/
            (b_ty b = TUser /\ b_addr b <> rbrk /\ exists u, In u dis1 /\ b_addr b = ka u /\ b_num b = u_num u)).
  { intros b [Hb3|Hb3]; [now left|]. apply in_delbp in Hb3. destruct Hb3 as [Hb3 Hnr]. right.
    destruct (P1 b Hb3) as [[[Hbe|[]] _]|(Hty & Hex)]; [now left|]. right. cbn [b_addr lb bp_set] in Hnr. auto. }
  assert (Hv3: forall v, In v (uviews bps3) <-> In v (pendv (s_reg s))).
  { intros [n a]. rewrite <- Hpv1, uviews_in, pv_in. split.
    - intros (b & Hb3 & Hty & En' & Ea). destruct (Hin3 b Hb3) as [->|[->|(_ & _ & u & Hu & Hk & Hn)]]; try discriminate.
      exists u. rewrite Forall_forall in Hdis1. destruct (Hdis1 u Hu) as (Ht & _). split; [exact Hu|]. split; [exact Ht|]. split; congruence.
    - intros (u & Hu & Ht & En' & Ea). destruct (P3 u Hu) as (b & Hb2 & Hty & Hab & Hnb).
      exists b. split; [|split; [exact Hty|split; congruence]]. right. apply in_delbp. split; [exact Hb2|].
      cbn [b_addr lb bp_set]. rewrite Forall_forall in Hdis1.
      destruct (Hdis1 u Hu) as (_ & _ & _ & _ & Hnrb & _). congruence. }
  assert (Hua: forall a, In a (uaddrs bps3) <-> In a U).
  { intro a. rewrite uaddrs_uviews. unfold U. rewrite pending_addrs_pv. rewrite <- pendv_pv.
    split; intros (n & H); exists n; apply Hv3; exact H. }
  assert (G3: GoodReg bps3).
  { constructor.
    - exists eb. split; [exact Heb_in|]. split; reflexivity.
    - intros b Hb3 Hty. destruct (Hin3 b Hb3) as [->|[->|(Hty' & _)]]; [discriminate|reflexivity|congruence].
    - intros b Hb3. destruct (Hin3 b Hb3) as [->|[->|(Hty & _)]]; cbn; auto.
    - intros b Hb3 Hty. destruct (Hin3 b Hb3) as [->|[->|(_ & _ & u & Hu & Hk & _)]]; try discriminate.
      rewrite Forall_forall in Hdis1. destruct (Hdis1 u Hu) as (_ & _ & Hr & Hne & Hnr & Hof). rewrite Hk. auto. }
  assert (St3: Steady bps3 (S e)).
  { constructor.
    - intros b Hb3. destruct (Hin3 b Hb3) as [->|[->|(Hty & _)]]; cbn; auto.
    - intros b Hb3 Hty k Hk. destruct (Hin3 b Hb3) as [->|[->|(Hty' & _)]]; [discriminate| |congruence].
      cbn [b_addr eb bp_set]. intro E. assert (k = e) by (apply H_entry_once; auto; lia). lia. }
  (* what an exit after the entry point leaves *)
  assert (HexitB: forall s', s_reg s' = mk_reg [] (dis_of bps3 []) (r_next (s_reg s)) ->
             s_detached s' = s_detached s -> s_external s' = s_external s -> ExitKeeps s s').
  { intros s' Hr Hd Hx. unfold ExitKeeps. rewrite Hr. cbn [r_next].
    destruct (dis_of_good bps3 (r_next (s_reg s)) (wf_nodup _ _ _ W3) G3) as [D V].
    split; [exact D|]. split; [|auto]. intro v. rewrite V. apply Hv3. }
  (* step over the entry-point breakpoint *)
  unfold step_over_breakpoint. rewrite Hp3. cbn [p_pc BpMachineProofs.proc_at]. rewrite <- Hee.
  destruct (find_bp_in entry bps3) as [b0 Eb0].
  { unfold addrs. apply in_map_iff. exists eb. split; [reflexivity|exact Heb_in]. }
  rewrite Eb0. destruct (find_bp_some' _ _ _ Eb0) as [Hb0 Hab0].
  destruct (wf_bp _ _ _ W3 b0 Hb0) as (Hen0 & _). rewrite Hen0.
  assert (Hab0': b_addr b0 = pc_at e) by congruence.
  assert (Hsame: forall i0, next_hit_from (uaddrs bps3) (skipn i0 tr) i0 = next_hit_from U (skipn i0 tr) i0).
  { intro i0. apply next_hit_from_ext. intro a. apply memb_ext. exact Hua. }
  destruct (Nat.eq_dec (S e) (length tr)) as [Elast|Elast].
  - destruct (step_over_core_exit code tr off has_place H_no_int3 H_mapped bps3 m3 e b0 W3 Elast Hb0 Hab0') as (m4 & Ec).
    rewrite Ec. cbn [bind fst snd]. rewrite Elast, skipn_all. cbn [next_hit_from].
    eexists. eexists. split; [reflexivity|]. split; [right; reflexivity|]. split; [apply exit_by_step_ok|].
    apply HexitB; [|reflexivity|reflexivity].
    unfold exit_by_step. cbn [s_reg with_rp r_dis r_next]. rewrite disable_all_reg. cbn [r_bps r_dis r_next].
    f_equal. apply dis_of_put. intros c Hc E. eapply in_addrs_unique; eauto. apply W3.
  - assert (HSe: (S e < length tr)%nat) by lia.
    destruct (step_over_core_once code tr off has_place H_no_int3 H_mapped bps3 m3 e b0 NS W3 HSe Hb0 Hab0') as (m4 & Ec & W4 & Hm4).
    rewrite Ec. cbn [bind fst snd]. rewrite (put_bp_same bps3 b0 (wf_nodup _ _ _ W3) Hb0).
    match goal with |- context [BpMachine.cont_loop _ _ _ _ _ _ ?f ?s2] =>
      pose proof (cont_steadyX NS f (S e) m4 s2) as C end.
    cbn [with_rp s_reg s_proc r_bps] in C.
    assert (Hfu: (f1 > length tr - S e)%nat) by lia.
    specialize (C eq_refl HSe W4 St3 Hfu). rewrite Hsame in C.
    destruct (next_hit_from U (skipn (S e) tr) (S e)) as [j|] eqn:Enj.
    + destruct C as (m' & b & E & F & T & W' & Hm').
      apply next_hit_trace in Enj; [|lia]. destruct Enj as (Hj & _).
      exists m', b. eexists. split; [exact E|].
      split; [|split; [reflexivity|split; [exact G3|split; [exact F|split; [exact T|split; [exact Hv3|]]]]]].
      * constructor; cbn [with_bps with_rp s_status s_proc s_reg r_bps]; auto; [lia|].
        eapply steady_mono; [exact St3|lia].
      * cbn [with_bps with_rp s_reg r_next s_detached s_external s_fate]. auto.
    + destruct C as (s' & r & E & Hx & Hok & (Hr & Hd & Hxt)). exists s', r. split; [exact E|]. split; [exact Hx|].
      split; [exact Hok|]. apply HexitB; [exact Hr|exact Hd|exact Hxt].
Qed.


(* ---------- C11: restart ---------- *)
Lemma next_hit_ext_set : forall B B' k, (forall a, In a B <-> In a B') -> next_hit tr B k = next_hit tr B' k.
Proof. intros. unfold next_hit. apply next_hit_from_ext. intro a. apply memb_ext. exact H. Qed.

Lemma hits_from_ext : forall B B' l k, (forall a, In a B <-> In a B') -> hits_from B l k = hits_from B' l k.
Proof.
  intros B B' l. induction l as [|a t IH]; intros k H; [reflexivity|].
  cbn [hits_from]. rewrite (memb_ext B B' a H). now rewrite (IH _ H).
Qed.

(* what `restart` (or the first `run`) must deliver, for the user's breakpoints V = (number, address)
   pairs and U = their addresses: the new process runs the same native trace to the entry point,
   arms everything there and stops at the first later position carrying a user breakpoint -- at a
   Prompt (memory = image + patches, every breakpoint enabled, executed stream = native prefix) with
   exactly the pairs V in the registry, the reported number being the one V gives to that address; or
   the exit is reported with the program's code and the pairs V stay pending for the next run *)
Definition RestartPost (V : list (N * N)) (U : list N) (x : res (bst * cres)) : Prop :=
  let ExitCase := exists s' r, x = Ok (s', r) /\ exit_seen r /\ ExitedOK s' /\ Dormant (s_reg s') /\
                    (forall v, In v (pendv (s_reg s')) <-> In v V) in
  match next_hit tr [entry] O with
  | None => ExitCase
  | Some e =>
      match next_hit tr U (S e) with
      | Some j => exists m' b s', x = Ok (s', CStop (StopBp (pc_at j) (b_num b))) /\
                    Prompt s' j m' /\ r_dis (s_reg s') = [] /\ GoodReg (r_bps (s_reg s')) /\
                    find_bp (pc_at j) (r_bps (s_reg s')) = Some b /\ b_ty b = TUser /\
                    In (b_num b, pc_at j) V /\
                    (forall v, In v (uviews (r_bps (s_reg s'))) <-> In v V) /\
                    s_external s' = false /\ s_fate s' = FTraced
      | None => ExitCase
      end
  end.

Lemma runX_post : no_stutter tr -> (0 < length tr)%nat -> forall s, s_status s = Unload -> Dormant (s_reg s) ->
  s_external s = false -> s_fate s = FTraced ->
  forall V U, (forall v, In v (pendv (s_reg s)) <-> In v V) -> (forall a, In a (pending_addrs off s) <-> In a U) ->
  RestartPost V U (continue_execution s).
Proof.
  intros NS Hlen s Hs D Hx Hf V U HV HU. pose proof (runX NS Hlen s Hs D) as R. cbn zeta in R.
  unfold RestartPost. cbn zeta.
  destruct (next_hit tr [entry] 0) as [e|].
  - rewrite <- (next_hit_ext_set _ _ (S e) HU).
    destruct (next_hit tr (pending_addrs off s) (S e)) as [j|].
    + destruct R as (m' & b & s' & E & P & Hd & G & F & T & Hv & _ & _ & Hx' & Hf').
      exists m', b, s'. split; [exact E|]. split; [exact P|]. split; [exact Hd|]. split; [exact G|].
      split; [exact F|]. split; [exact T|].
      assert (Hvv: forall v, In v (uviews (r_bps (s_reg s'))) <-> In v V) by (intro v; rewrite Hv; apply HV).
      split; [|split; [exact Hvv|split; congruence]].
      apply Hvv. apply uviews_in. destruct (find_bp_some' _ _ _ F) as [Hb Ha]. exists b. auto.
    + destruct R as (s' & r & E & Hxs & Hok & (Dm & Hv & _)). exists s', r. split; [exact E|]. split; [exact Hxs|].
      split; [exact Hok|]. split; [exact Dm|]. intro v. rewrite Hv. apply HV.
  - destruct R as (s' & r & E & Hxs & Hok & (Dm & Hv & _)). exists s', r. split; [exact E|]. split; [exact Hxs|].
    split; [exact Hok|]. split; [exact Dm|]. intro v. rewrite Hv. apply HV.
Qed.

(* C11_restart_keeps, at a breakpoint stop *)
Theorem restart_at_prompt : no_stutter tr -> (0 < length tr)%nat ->
  forall s i m, Prompt s i m -> r_dis (s_reg s) = [] -> GoodReg (r_bps (s_reg s)) ->
  RestartPost (uviews (r_bps (s_reg s))) (uaddrs (r_bps (s_reg s))) (restart_debugee s).
Proof.
  intros NS Hlen s i m P Hd G. unfold BpMachine.restart_debugee. rewrite (pr_status _ _ _ _ _ P).
  rewrite disable_all_reg, Hd.
  destruct (dis_of_good (r_bps (s_reg s)) (r_next (s_reg s)) (wf_nodup _ _ _ (pr_wf _ _ _ _ _ P)) G) as [D V].
  apply runX_post; auto.
  intro a. rewrite pending_addrs_pv, uaddrs_uviews. cbn [s_reg]. rewrite <- pendv_pv.
  split; intros (n & H); exists n; apply V; exact H.
Qed.

(* C11_restart_keeps, after the program has exited (registry as an exit leaves it) *)
Theorem restart_after_exit : no_stutter tr -> (0 < length tr)%nat ->
  forall s, s_status s = Exited -> Dormant (s_reg s) ->
  RestartPost (pendv (s_reg s)) (pending_addrs off s) (restart_debugee s).
Proof.
  intros NS Hlen s Hs D. unfold BpMachine.restart_debugee. rewrite Hs. cbn [fst snd].
  apply runX_post; auto; intros; reflexivity.
Qed.

(* the first `run` of a launched program *)
Theorem first_run : no_stutter tr -> (0 < length tr)%nat ->
  forall s, s_status s = Unload -> Dormant (s_reg s) -> s_external s = false -> s_fate s = FTraced ->
  RestartPost (pendv (s_reg s)) (pending_addrs off s) (continue_execution s).
Proof. intros NS Hlen s Hs D Hx Hf. apply runX_post; auto; intros; reflexivity. Qed.

(* same pairs => same projection of the native trace: with C01_continue at the new prompt, the stops
   after the restart are the stops of the same breakpoints on the same trace *)
Theorem same_views_same_stops : forall bps bps',
  (forall v, In v (uviews bps') <-> In v (uviews bps)) ->
  forall i, stops tr (uaddrs bps') i = stops tr (uaddrs bps) i /\
            next_hit tr (uaddrs bps') i = next_hit tr (uaddrs bps) i.
Proof.
  intros bps bps' H i.
  assert (Ha: forall a, In a (uaddrs bps') <-> In a (uaddrs bps)).
  { intro a. rewrite !uaddrs_uviews. split; intros (n & Hn); exists n; apply H; exact Hn. }
  split; [unfold stops; now apply hits_from_ext|now apply next_hit_ext_set].
Qed.

(* the exit of a run started from a prompt keeps the pairs pending *)
Theorem exit_keeps_views : no_stutter tr -> forall s i m, Prompt s i m -> r_dis (s_reg s) = [] ->
  GoodReg (r_bps (s_reg s)) -> next_hit tr (uaddrs (r_bps (s_reg s))) (S i) = None ->
  exists s' r, continue_execution s = Ok (s', r) /\ exit_seen r /\ ExitedOK s' /\ Dormant (s_reg s') /\
               (forall v, In v (pendv (s_reg s')) <-> In v (uviews (r_bps (s_reg s)))) /\
               s_detached s' = s_detached s /\ s_external s' = s_external s.
Proof.
  intros NS s i m P Hd G Hn. destruct (continue_exitX NS s i m P Hn) as (s' & r & E & Hx & Hok & (Hr & Hdt & Hxt)).
  exists s', r. split; [exact E|]. split; [exact Hx|]. split; [exact Hok|].
  rewrite Hr, Hd.
  destruct (dis_of_good (r_bps (s_reg s)) (r_next (s_reg s)) (wf_nodup _ _ _ (pr_wf _ _ _ _ _ P)) G) as [D V]. auto.
Qed.


(* ---------- whole histories: run / break / break remove / continue / restart, any number of times ---------- *)
(* H_boundary for a `break <addr>` *)
Definition GoodA' (a : N) : Prop :=
  mapped code a = true /\ has_place a = true /\ readable code a /\ a <> entry /\ a <> rbrk /\ off <= a.

Inductive Life : bst -> Prop :=
| Life_init : Life (init_launched code tr entry off)
| Life_add_idle : forall s a, Life s -> s_status s <> InProgress -> GoodA' a ->
    ~ In a (map ka (r_dis (s_reg s))) -> Life (fst (add_at_addr code has_place s a))
| Life_add_run : forall s a, Life s -> s_status s = InProgress -> GoodA' a ->
    Life (fst (add_at_addr code has_place s a))
| Life_remove : forall s a, Life s -> s_status s = InProgress -> a <> entry ->
    Life (let x := remove_by_addr (Reloc a) (s_reg s) (s_proc s) in with_rp s (fst (fst x)) (snd (fst x)))
| Life_continue : forall s x, Life s -> continue_execution s = Ok x -> Life (fst x)
| Life_restart : forall s x, Life s -> s_status s <> Unload -> restart_debugee s = Ok x -> Life (fst x).

Inductive LifeInv (s : bst) : Prop :=
| LI_idle : s_status s = Unload -> Dormant (s_reg s) -> s_external s = false -> s_fate s = FTraced -> LifeInv s
| LI_prompt : forall i m, Prompt s i m -> r_dis (s_reg s) = [] -> GoodReg (r_bps (s_reg s)) -> LifeInv s
| LI_exited : s_status s = Exited -> ExitedOK s -> Dormant (s_reg s) -> LifeInv s.

Lemma dormant_add : forall r a n, Dormant r -> GoodA' a -> ~ In a (map ka (r_dis r)) ->
  Dormant (mk_reg (r_bps r) (add_uninit (mk_ubp (Reloc a) n TUser false) (r_dis r)) (n + 1)).
Proof.
  intros r a n [Hb He Ho HN] (Hm & Hp & Hr & Hne & Hnb & Hof) Hnin.
  assert (Hd: del_dis (Reloc a) (r_dis r) = r_dis r).
  { apply del_dis_notin. intro H. apply Hnin. apply in_map_iff in H. destruct H as (u & Ek & Hu).
    apply in_map_iff. exists u. split; [|exact Hu]. unfold ka. now rewrite Ek. }
  unfold add_uninit. cbn [u_key]. rewrite Hd. constructor; cbn [r_bps r_dis].
  - exact Hb.
  - now right.
  - intros u [<-|Hu]; [|now apply Ho]. right. unfold GoodUX, ka. cbn [u_ty u_key u_num key_addr].
    split; [reflexivity|]. split; [|auto]. unfold try_into_brkpt. cbn [u_key u_ty u_place u_num]. rewrite Hm. cbn [bind orb].
    now rewrite Hp.
  - cbn [map]. constructor; [exact Hnin|exact HN].
Qed.

Lemma goodreg_ins : forall bps a n c, GoodReg bps -> GoodA' a ->
  GoodReg (ins_bp (mk_bp a n c true TUser) bps).
Proof.
  intros bps a n c [(b & Hb & Ht & Ha) Geo Gt Gu] (Hm & Hp & Hr & Hne & Hnb & Hof). constructor.
  - exists b. split; [|auto]. right. apply in_delbp. split; [exact Hb|]. cbn [b_addr]. congruence.
  - intros c0 [<-|Hc]; [discriminate|]. apply in_delbp in Hc. apply Geo. tauto.
  - intros c0 [<-|Hc]; [cbn; auto|]. apply in_delbp in Hc. apply Gt. tauto.
  - intros c0 [<-|Hc] Hty; [cbn [b_addr]; auto|]. apply in_delbp in Hc. apply Gu; tauto.
Qed.

Lemma goodreg_del : forall bps a, GoodReg bps -> a <> entry -> GoodReg (del_bp a bps).
Proof.
  intros bps a [(b & Hb & Ht & Ha) Geo Gt Gu] Hne. constructor.
  - exists b. split; [|auto]. apply in_delbp. split; [exact Hb|congruence].
  - intros c Hc. apply in_delbp in Hc. apply Geo. tauto.
  - intros c Hc. apply in_delbp in Hc. apply Gt. tauto.
  - intros c Hc. apply in_delbp in Hc. apply Gu. tauto.
Qed.

Lemma post_life : forall V U x y, RestartPost V U x -> x = Ok y -> LifeInv (fst y).
Proof.
  intros V U x y R E. unfold RestartPost in R. cbn zeta in R.
  assert (Hexit: (exists s' r, x = Ok (s', r) /\ exit_seen r /\ ExitedOK s' /\ Dormant (s_reg s') /\
                    (forall v, In v (pendv (s_reg s')) <-> In v V)) -> LifeInv (fst y)).
  { intros (s' & r & E' & _ & Hok & D & _). rewrite E in E'. inversion E'; subst. cbn [fst].
    apply LI_exited; [apply Hok|exact Hok|exact D]. }
  destruct (next_hit tr [entry] 0) as [e|]; [|auto].
  destruct (next_hit tr U (S e)) as [j|]; [|auto].
  destruct R as (m' & b & s' & E' & P & Hd & G & _). rewrite E in E'. inversion E'; subst.
  cbn [fst]. eapply LI_prompt; eauto.
Qed.

(* every state such a history reaches satisfies the hypotheses of restart_at_prompt /
   restart_after_exit / first_run / exit_keeps_views (and of the C01 / C02 theorems at prompts) *)
Theorem life_inv : no_stutter tr -> (0 < length tr)%nat -> forall s, Life s -> LifeInv s.
Proof.
  intros NS Hlen s L. induction L as [|s a L IH Hst G Hnin|s a L IH Hst G|s a L IH Hst Hne|s x L IH E|s x L IH Hst E].
  - apply LI_idle; try reflexivity. constructor; cbn [init_launched s_reg r_bps r_dis]; [reflexivity|now left| |].
    + intros u [<-|[]]. now left.
    + cbn [map]. constructor; [intros []|constructor].
  - unfold add_at_addr. destruct IH as [Hs D Hx Hf|i m P _ _|Hs Hok D].
    + rewrite Hs. cbn [fst]. apply LI_idle; cbn [with_rp s_status s_reg s_external s_fate]; auto.
      now apply dormant_add.
    + exfalso. apply Hst. apply P.
    + rewrite Hs. cbn [fst]. apply LI_exited; cbn [with_rp s_status s_reg]; auto.
      now apply dormant_add.
  - destruct IH as [Hs _ _ _|i m P Hd Gr|Hs _ _]; try congruence.
    destruct G as (Hm & Hp & Hr & G').
    destruct (rd_some a Hr) as [c Hc].
    destruct (add_prompt code tr off has_place s i m a c P Hm Hp Hr Hc) as (s' & m' & E & P' & Hb' & _ & Hd').
    rewrite E. cbn [fst].
    eapply LI_prompt; [exact P'|congruence|].
    rewrite Hb'. apply goodreg_ins; [exact Gr|unfold GoodA'; tauto].
  - destruct IH as [Hs _ _ _|i m P Hd Gr|Hs _ _]; try congruence.
    destruct (remove_prompt code tr off has_place s i m a P Hd) as (m' & v & _ & P' & Hb' & Hd' & _).
    cbn zeta. eapply LI_prompt; [exact P'| |]; cbn [with_rp s_reg]; auto.
    rewrite Hb'. now apply goodreg_del.
  - destruct IH as [Hs D Hx Hf|i m P Hd Gr|Hs _ _].
    + eapply post_life; [apply (first_run NS Hlen s Hs D Hx Hf)|exact E].
    + pose proof (C01_continue code tr rbrk off has_place exit_code H_no_int3 H_mapped NS s i m P) as C. cbn zeta in C.
      destruct (next_hit tr (uaddrs (r_bps (s_reg s))) (S i)) as [j|] eqn:En.
      * destruct C as (m' & b & s' & E' & _ & _ & Hb' & P' & _ & Hd'). rewrite E in E'. inversion E'; subst. cbn [fst].
        eapply LI_prompt; [exact P'|congruence|rewrite Hb'; exact Gr].
      * destruct (exit_keeps_views NS s i m P Hd Gr En) as (s' & r & E' & _ & Hok & D & _).
        rewrite E in E'. inversion E'; subst. cbn [fst]. apply LI_exited; [apply Hok|exact Hok|exact D].
    + unfold BpMachine.continue_execution in E. rewrite Hs in E. discriminate.
  - destruct IH as [Hs _ _ _|i m P Hd Gr|Hs _ D]; [congruence| |].
    + eapply post_life; [apply (restart_at_prompt NS Hlen s i m P Hd Gr)|exact E].
    + eapply post_life; [apply (restart_after_exit NS Hlen s Hs D)|exact E].
Qed.

End Restart.

(* ====================================================================================== *)
(* Part B: the exit code                                                                   *)
(* ====================================================================================== *)
Section ExitCode.
Variable code : mem.
Variable tr : list N.
Variable rbrk off : N.
Variable has_place : N -> bool.
Variable exit_code : Z.

Local Notation continue_execution := (continue_execution code tr rbrk off has_place exit_code).
Local Notation restart_debugee := (restart_debugee code tr rbrk off has_place exit_code).
Local Notation cont_loop := (cont_loop code tr rbrk off has_place exit_code).
Local Notation apply_op := (apply_op code tr rbrk off has_place exit_code).
Local Notation run_ops := (run_ops code tr rbrk off has_place exit_code).

Ltac split_matches H :=
  repeat (match type of H with
          | context [match ?x with _ => _ end] =>
              match x with
              | context [match _ with _ => _ end] => fail 1
              | _ => destruct x eqn:?
              end
          end; try discriminate).

(* whatever the loop of continue_execution does, for whatever state and fuel: an exit stop carries
   the exit status of the native run *)
Lemma cont_loop_exit_code : forall fuel s s' c,
  cont_loop fuel s = Ok (s', CStop (StopExit c)) -> c = exit_code.
Proof.
  induction fuel as [|f IH]; intros s s' c H; [discriminate|].
  cbn [BpMachine.cont_loop] in H. unfold bind in H.
  split_matches H; try (inversion H; reflexivity); try (eapply IH; eassumption).
Qed.

Lemma continue_exit_code : forall s s' c,
  continue_execution s = Ok (s', CStop (StopExit c)) -> c = exit_code.
Proof.
  intros s s' c H. unfold BpMachine.continue_execution, bind in H.
  split_matches H; try (inversion H; reflexivity); try (eapply cont_loop_exit_code; eassumption).
Qed.

Lemma restart_exit_code : forall s s' c,
  restart_debugee s = Ok (s', CStop (StopExit c)) -> c = exit_code.
Proof. intros s s' c H. unfold BpMachine.restart_debugee in H. eapply continue_exit_code; eassumption. Qed.

Definition code_ok (o : outcome) : Prop :=
  match o with OStop (StopExit c) => c = exit_code | OExit c => c = exit_code | _ => True end.

Lemma lift_stop_code_ok : forall s r,
  (forall s' c, r = Ok (s', CStop (StopExit c)) -> c = exit_code) ->
  code_ok (snd (lift_stop exit_code s r)).
Proof.
  intros s r H. unfold lift_stop. destruct r as [[s' y]| | |]; cbn [snd fst]; try exact I.
  destruct y as [x| |]; cbn; try exact I; [|reflexivity]. destruct x; try exact I. eapply H. reflexivity.
Qed.

Lemma apply_op_code_ok : forall s o, code_ok (snd (apply_op s o)).
Proof.
  intros s o. unfold BpMachine.apply_op.
  destruct (s_detached s). { destruct o; exact I. }
  destruct o.
  - unfold add_at_addr. repeat match goal with |- context [match ?x with _ => _ end] => destruct x end; exact I.
  - cbn [snd]. unfold res_outcome. destruct (snd _); exact I.
  - cbn [snd]. unfold res_outcome. destruct (snd _); exact I.
  - destruct (s_status s); try exact I; apply lift_stop_code_ok; intros; eapply continue_exit_code; eassumption.
  - unfold stepi, res_outcome.
    repeat match goal with |- context [match ?x with _ => _ end] => destruct x end; cbn [snd code_ok]; auto.
  - unfold step_temps.
    destruct (s_status s); try exact I.
    destruct (snd (install_temps _ _ _ _ _)); try exact I.
    destruct (BpMachine.continue_execution _ _ _ _ _ _ _) as [[s1 y]| | |] eqn:E; try exact I.
    cbn [fst snd]. destruct y as [x| |]; try exact I; [|reflexivity].
    destruct (match inject with Some k => _ | None => false end); try exact I.
    destruct (s_status _); try exact I; destruct x; try exact I; cbn; eapply continue_exit_code; eassumption.
  - destruct (s_status s); apply lift_stop_code_ok; intros;
      first [eapply continue_exit_code; eassumption | eapply restart_exit_code; eassumption].
  - exact I.
  - exact I.
Qed.

(* C11_exit_code: over ALL command lists from ALL states, every exit the debugger reports (on_exit
   hook / StopReason::DebugeeExit / Err(ProcessExit) after the exit handling) carries the exit status
   of the native run -- also after restarts, steps over the last instruction, detach ... *)
Theorem run_ops_exit_codes : forall ops s, Forall (fun c => c = exit_code) (exit_codes (snd (run_ops s ops))).
Proof.
  induction ops as [|o t IH]; intros s; [constructor|].
  cbn [BpMachine.run_ops]. pose proof (apply_op_code_ok s o) as H.
  destruct (snd (apply_op s o)) as [| | |x|c| | |] eqn:E; cbn [snd exit_codes filter_map]; try apply IH;
    try constructor.
  - destruct x; cbn; try apply IH. constructor; [exact H|apply IH].
  - exact H.
  - apply IH.
Qed.

End ExitCode.

(* what the tracer makes of the final wait status (extension (1)): a normal exit is reported with
   its code ... *)
Theorem end_exited_reports_code : forall c, continue_at_end (WExited c) = (Some c, OStop (StopExit c)) /\
  fst (continue_at_end (WExited c)) = Some (real_status (WExited c)).
Proof. intro c. split; reflexivity. Qed.

(* ... a program killed by a signal is not reported at all: `continue` returns Err(ProcessNotStarted),
   no on_exit, no status *)
Theorem C11_exit_code_signaled_refuted : exists w,
  fst (continue_at_end w) = None /\ snd (continue_at_end w) = OErr E_NOT_STARTED /\ real_status w = 139%Z.
Proof. exists (WSignaled 11). vm_compute. auto. Qed.

(* `next` / `stepOut` during which the program ends: the core returns Err(ProcessExit(0)), the DAP
   adapter turns it into `exited` with exitCode 0, whatever the program's status (7 here) *)
Theorem C11_exit_code_step_refuted : exists tr ops,
  let x := BpMachineProofs.wrun tr ops in
  s_status (fst x) = Exited /\
  option_map dap_step_exit_code (last_error (snd x)) = Some (Some 0%Z) /\
  snd (BpMachineProofs.wrun tr [Add 20; Continue; Continue]) = [OAdded 1; OStop (StopBp 20 1); OStop (StopExit 7)].
Proof. exists [10; 20; 30; 40], [Add 20; Continue; StepTemps [77] None]. vm_compute. auto. Qed.

(* ====================================================================================== *)
(* Part C: detach / drop of an attached (external) process                                  *)
(* ====================================================================================== *)
(* every watchpoint of the registry holds a debug register (true at every prompt of a running
   process: a register is released only between an exit / restart and the next entry point) *)
Definition Armed (w : Wp.st) : Prop := Forall (fun x => w_reg x <> None) (wps w).
Definition armedb (w : Wp.st) : bool := forallb (fun x => match w_reg x with Some _ => true | None => false end) (wps w).
Lemma armedb_sound : forall w, armedb w = true -> Armed w.
Proof.
  intros w H. unfold armedb in H. rewrite forallb_forall in H. apply Forall_forall. intros x Hx E.
  specialize (H x Hx). rewrite E in H. discriminate.
Qed.

Definition tids (w : Wp.st) : list N := map fst (threads w).

Lemma remove_at_0_armed : forall w x rest, wps w = x :: rest -> w_reg x <> None ->
  exists w', remove_at w O = Ok w' /\ wps w' = rest /\ tids w' = tids w.
Proof.
  intros w x rest Hw Hr. unfold remove_at. rewrite Hw. cbn [nth_error firstn skipn app].
  destruct (w_reg x) as [r|] eqn:Er; [|congruence]. unfold hw_disable. cbn [bind].
  match goal with |- context [sync_all ?s0 ?h] => set (s1 := sync_all s0 h) end.
  assert (H1: wps s1 = rest /\ tids s1 = tids w).
  { subst s1. unfold sync_all, tids. cbn [wps threads with_wps]. split; [reflexivity|].
    rewrite map_map. cbn [fst]. reflexivity. }
  destruct (w_companion x) as [b|].
  - destruct (decrease_rc_shape s1 b (w_num x)) as [cs ->]. eexists. split; [reflexivity|].
    cbn [with_wps wps threads tids]. unfold tids in *. cbn [threads]. exact H1.
  - eexists. split; [reflexivity|]. cbn [with_wps wps]. unfold tids in *. cbn [threads]. exact H1.
Qed.

Lemma clear_n_ok : forall n w, Inv w -> Armed w -> n = length (wps w) ->
  exists w', clear_n n w = Ok w' /\ Inv w' /\ wps w' = [] /\ tids w' = tids w.
Proof.
  induction n as [|n IH]; intros w I A Hn.
  - exists w. split; [reflexivity|]. split; [exact I|]. split; [|reflexivity].
    destruct (wps w); [reflexivity|discriminate].
  - destruct (wps w) as [|x rest] eqn:Hw; [discriminate|]. unfold Armed in A. rewrite Hw in A.
    inversion A as [|? ? Hx Hrest]; subst.
    destruct (remove_at_0_armed w x rest Hw Hx) as (w1 & E1 & Hw1 & Ht1).
    cbn [clear_n]. rewrite E1.
    destruct (IH w1) as (w' & E & I' & Hw' & Ht').
    + eapply inv_remove_at; eassumption.
    + unfold Armed. rewrite Hw1. exact Hrest.
    + rewrite Hw1. cbn [length] in Hn. congruence.
    + exists w'. split; [exact E|]. split; [exact I'|]. split; [exact Hw'|congruence].
Qed.

Lemma quiet_of_inv : forall w, Inv w -> wps w = [] ->
  forall t h, In (t, h) (threads w) -> dr7_quiet (h_dr7 h) = true.
Proof.
  intros w I Hw t h Hin. destruct (i_thr _ I t h Hin) as [(_ & Hg & _) Hsame].
  assert (Hl: forall r, valid_r r -> dr_enabled (h_dr7 h) r false = false).
  { intros r Hr. specialize (Hsame r Hr). rewrite (i_act _ I r Hr) in Hsame.
    unfold active_slot in Hsame. rewrite Hw in Hsame. cbn [find] in Hsame.
    unfold slot_view in Hsame. destruct (dr_enabled (h_dr7 h) r false); [discriminate|reflexivity]. }
  assert (Hgl: forall r, valid_r r -> dr_enabled (h_dr7 h) r true = false).
  { intros r Hr. specialize (Hg r Hr). unfold gbit in Hg. cases_r Hr; exact Hg. }
  unfold dr7_quiet. cbn [forallb].
  rewrite (Hl 0), (Hl 1), (Hl 2), (Hl 3), (Hgl 0), (Hgl 1), (Hgl 2), (Hgl 3); unfold valid_r; auto 6.
Qed.

(* WatchpointRegistry::clear_all on a live process: no panic, no watchpoint left, every thread's
   DR7 has all enable bits clear, no thread lost *)
Theorem clear_all_quiet : forall w, Inv w -> Armed w ->
  exists w', clear_all w = Ok w' /\ wps w' = [] /\ last_seen w' = None /\ tids w' = tids w /\
             forall t h, In (t, h) (threads w') -> dr7_quiet (h_dr7 h) = true.
Proof.
  intros w I A. destruct (clear_n_ok (length (wps w)) w I A eq_refl) as (w1 & E & I1 & Hw1 & Ht1).
  unfold clear_all. rewrite E. cbn [bind]. eexists. split; [reflexivity|].
  cbn [with_wps wps last_seen threads]. split; [exact Hw1|]. split; [reflexivity|]. split; [exact Ht1|].
  apply (quiet_of_inv w1 I1 Hw1).
Qed.

Lemma inv_attached : forall tds, tds <> [] -> Inv (wst_attached tds) /\ Armed (wst_attached tds).
Proof.
  intros tds Hne. split; [|constructor]. unfold wst_attached. split; cbn [threads wps last_seen].
  - intro H. apply map_eq_nil in H. contradiction.
  - intros t h Hin. apply in_map_iff in Hin. destruct Hin as (t0 & E & _). inversion E; subst.
    split; [apply hw_zero_ok|]. intros r Hr. rewrite hw_zero_view by exact Hr.
    unfold main_hw. cbn [threads]. destruct tds; [contradiction|]. cbn [map]. now rewrite hw_zero_view.
  - intros r Hr. unfold main_hw, active_slot. cbn [threads wps find]. destruct tds; [contradiction|]. cbn [map].
    now apply hw_zero_view.
  - constructor.
  - constructor.
  - intros r Hr. unfold main_hw. cbn [threads]. destruct tds; [contradiction|]. cbn [map]. now apply hw_zero_view.
Qed.

Lemma armed_wstep : forall w o, Armed w -> Armed (fst (wstep w o)).
Proof.
  intros w o A. unfold Armed in *. destruct o; cbn [wstep].
  - unfold add_addr. destruct (already_observed w addr); [exact A|].
    destruct (hw_enable w addr size cond) as [[[s1 h] r]| | |] eqn:E; cbn [bind fst]; try exact A.
    unfold hw_enable in E. destruct (free_register _); [|discriminate]. inversion E; subst.
    cbn [with_wps wps sync_all]. apply Forall_app. split; [exact A|]. constructor; [discriminate|constructor].
  - destruct (add_expr w addr size cond scope_end) as [s'| | |] eqn:E; cbn [fst];
      try (destruct (add_expr_error_frame w addr size cond scope_end) as (_ & -> & _); exact A).
    unfold add_expr in E. destruct (already_observed w addr); [discriminate|].
    destruct (add_expr_prepare_shape w scope_end) as [bc [cs Hshape]].
    destruct (add_expr_prepare w scope_end) as [s0 companion]. cbn [fst] in Hshape.
    destruct (hw_enable s0 addr size cond) as [[[s1 h] r]| | |] eqn:E2; try discriminate.
    unfold hw_enable in E2. destruct (free_register _); [|discriminate]. inversion E2; subst. inversion E; subst.
    cbn [with_wps wps sync_all]. apply Forall_app. split; [exact A|]. constructor; [discriminate|constructor].
  - unfold Wp.remove_by_num. destruct (position _ (wps w)) as [i|]; [|exact A].
    destruct (remove_at w i) as [s'| | |] eqn:E; cbn [fst]; try exact A.
    unfold remove_at in E. destruct (nth_error (wps w) i) as [x|]; [|discriminate].
    unfold hw_disable in E. destruct (w_reg x); [|discriminate]. cbn [bind] in E.
    destruct (w_companion x) as [b|].
    + match type of E with context [decrease_rc ?a ?b ?c] => destruct (decrease_rc_shape a b c) as [cs Hs]; rewrite Hs in E end.
      inversion E; subst. cbn [with_wps wps sync_all]. apply Forall_app. split; [exact (Forall_firstn _ (wps w) i A)|exact (Forall_skipn _ (wps w) (S i) A)].
    + inversion E; subst. cbn [with_wps wps sync_all]. apply Forall_app. split; [exact (Forall_firstn _ (wps w) i A)|exact (Forall_skipn _ (wps w) (S i) A)].
  - unfold Wp.remove_by_addr. destruct (position _ (wps w)) as [i|]; [|exact A].
    destruct (remove_at w i) as [s'| | |] eqn:E; cbn [fst]; try exact A.
    unfold remove_at in E. destruct (nth_error (wps w) i) as [x|]; [|discriminate].
    unfold hw_disable in E. destruct (w_reg x); [|discriminate]. cbn [bind] in E.
    destruct (w_companion x) as [b|].
    + match type of E with context [decrease_rc ?a ?b ?c] => destruct (decrease_rc_shape a b c) as [cs Hs]; rewrite Hs in E end.
      inversion E; subst. cbn [with_wps wps sync_all]. apply Forall_app. split; [exact (Forall_firstn _ (wps w) i A)|exact (Forall_skipn _ (wps w) (S i) A)].
    + inversion E; subst. cbn [with_wps wps sync_all]. apply Forall_app. split; [exact (Forall_firstn _ (wps w) i A)|exact (Forall_skipn _ (wps w) (S i) A)].
  - exact A.
  - unfold exit_thread. destruct (threads w); exact A.
Qed.

(* any watchpoint / thread history of an attached process *)
Theorem attached_wrun_ok : forall ops tds, tds <> [] -> Forall valid_op ops ->
  Inv (Wp.wrun ops (wst_attached tds)) /\ Armed (Wp.wrun ops (wst_attached tds)).
Proof.
  intros ops tds Hne V. destruct (inv_attached tds Hne) as [I A]. split; [now apply inv_wrun|].
  clear I V. revert A. generalize (wst_attached tds). induction ops as [|o t IH]; intros w A; [exact A|].
  cbn [Wp.wrun fold_left]. apply IH. now apply armed_wstep.
Qed.

Section External.
Variable code : mem.
Variable tr : list N.
Variable off : N.

Local Notation WF := (WF code).
Local Notation Prompt := (Prompt code tr).

(* the released process: alive and running on its own, original code, empty breakpoint table, no
   watchpoint, quiet DR7 in every thread, every thread still there *)
Definition Survives (w : Wp.st) (x' : world) : Prop :=
  s_fate (w_bp x') = FReleased /\ p_alive (s_proc (w_bp x')) = true /\
  (forall a, p_mem (s_proc (w_bp x')) a = code a) /\ r_bps (s_reg (w_bp x')) = [] /\
  wps (w_wp x') = [] /\ tids (w_wp x') = tids w /\
  (forall t h, In (t, h) (threads (w_wp x')) -> dr7_quiet (h_dr7 h) = true).

(* a stopped, live debuggee whose memory is image + patches of its registry: every Prompt, but also a
   stop with temporaries left behind by a failed step (C02_error_paths) *)
Definition StoppedWF (s : bst) : Prop :=
  s_status s = InProgress /\ p_alive (s_proc s) = true /\ WF (r_bps (s_reg s)) (p_mem (s_proc s)).

Lemma prompt_stopped : forall s i m, Prompt s i m -> StoppedWF s.
Proof.
  intros s i m [Hst Hp Hi W St]. unfold StoppedWF. rewrite Hp. cbn [p_alive p_mem BpMachineProofs.proc_at].
  split; [exact Hst|]. split; [now apply Nat.ltb_lt|exact W].
Qed.

Lemma disable_all_alive : forall l dis p, p_alive (snd (disable_all_from off l dis p)) = p_alive p.
Proof.
  induction l as [|b t IH]; intros dis p; [reflexivity|]. cbn [disable_all_from]. rewrite IH.
  unfold bp_disable, peek, poke, bind. destruct (p_alive p) eqn:Ea; [|exact Ea].
  destruct (read_bytes (p_mem p) (b_addr b) word_offsets) as [[|lo hi]|]; cbn [fst set_mem p_alive]; exact Ea.
Qed.

(* C11_external_survives, Detach *)
Theorem detach_external_survives : forall s w, StoppedWF s -> s_detached s = false -> Inv w -> Armed w ->
  exists x', detach_w off (mk_world s w) = Ok x' /\ Survives w x' /\ s_detached (w_bp x') = true.
Proof.
  intros s w (Hst & Hal & W) Hd I A. destruct (clear_all_quiet w I A) as (w' & E & Hw & _ & Ht & Hq).
  unfold detach_w, clear_for. cbn [w_bp w_wp]. rewrite Hd, Hst, E. cbn [bind]. eexists. split; [reflexivity|].
  unfold Survives, detach. cbn [w_bp w_wp]. rewrite Hd, Hst. cbn [s_fate s_proc s_reg s_detached].
  unfold disable_all. cbn [fst snd r_bps]. rewrite disable_all_alive.
  split; [|reflexivity]. split; [reflexivity|]. split; [exact Hal|]. split; [|auto].
  intro a. eapply (disable_all_from_clean code off off (fun _ => true)); [exact Hal|exact W|reflexivity].
Qed.

(* C11_external_survives, quit / drop of the debugger *)
Theorem drop_external_survives : forall s w, StoppedWF s -> s_detached s = false -> s_external s = true ->
  Inv w -> Armed w ->
  exists x', drop_w off (mk_world s w) = Ok x' /\ Survives w x'.
Proof.
  intros s w (Hst & Hal & W) Hd Hx I A. destruct (clear_all_quiet w I A) as (w' & E & Hw & _ & Ht & Hq).
  unfold drop_w, clear_for. cbn [w_bp w_wp]. rewrite Hd, Hx, Hst, E. cbn [bind]. eexists. split; [reflexivity|].
  unfold Survives, drop. cbn [w_bp w_wp]. rewrite Hd, Hx, Hst. cbn [s_fate s_proc s_reg].
  unfold disable_all. cbn [fst snd r_bps]. rewrite disable_all_alive.
  split; [reflexivity|]. split; [exact Hal|]. split; [|auto].
  intro a. eapply (disable_all_from_clean code off off (fun _ => true)); [exact Hal|exact W|reflexivity].
Qed.

(* a launched debuggee at the same kind of stop: killed and reaped; its debug registers were
   cleared before (no panic) *)
Theorem drop_launched_reaped : forall s w, StoppedWF s -> s_detached s = false -> s_external s = false ->
  Inv w -> Armed w ->
  exists x', drop_w off (mk_world s w) = Ok x' /\ s_fate (w_bp x') = FReaped /\ wps (w_wp x') = [].
Proof.
  intros s w (Hst & Hal & W) Hd Hx I A. destruct (clear_all_quiet w I A) as (w' & E & Hw & _).
  unfold drop_w. cbn [w_bp w_wp]. rewrite Hd, Hx, Hst, E. cbn [bind]. eexists. split; [reflexivity|].
  unfold drop. cbn [w_bp w_wp]. rewrite Hd, Hx, Hst. cbn [s_fate]. auto.
Qed.

(* the other states of the history ------------------------------------------------------------ *)
(* after the attached program has exited there is nothing to release: detach and drop change neither
   the fate (reaped at the exit) nor panic, the watchpoint vector is emptied *)
Theorem detach_drop_after_exit : forall s w, s_status s = Exited -> s_detached s = false ->
  (exists x', detach_w off (mk_world s w) = Ok x' /\ s_fate (w_bp x') = s_fate s /\ wps (w_wp x') = []) /\
  (s_external s = true -> exists x', drop_w off (mk_world s w) = Ok x' /\ s_fate (w_bp x') = s_fate s /\ wps (w_wp x') = []).
Proof.
  intros s w Hst Hd. split.
  - unfold detach_w, clear_for. cbn [w_bp w_wp]. rewrite Hd, Hst. cbn [bind]. eexists. split; [reflexivity|].
    unfold detach. rewrite Hd, Hst. cbn. auto.
  - intro Hx. unfold drop_w, clear_for. cbn [w_bp w_wp]. rewrite Hd, Hx, Hst. cbn [bind]. eexists. split; [reflexivity|].
    unfold drop. rewrite Hd, Hx, Hst. cbn. auto.
Qed.

(* once detached, every later detach / quit is a no-op: the released process is not touched again *)
Theorem after_detach_noop : forall x, s_detached (w_bp x) = true ->
  detach_w off x = Ok x /\ drop_w off x = Ok x.
Proof. intros x H. unfold detach_w, drop_w. rewrite H. auto. Qed.

End External.

(* an attached process is at a prompt the moment the debugger has attached (position i of its run) *)
Theorem attached_is_prompt : forall code tr entry off i, (i < length tr)%nat ->
  Prompt code tr (init_attached code tr entry off i) i code /\
  s_external (init_attached code tr entry off i) = true /\ s_detached (init_attached code tr entry off i) = false.
Proof.
  intros code tr entry off i Hi. split; [|split; reflexivity].
  constructor; cbn [init_attached s_status s_proc s_reg r_bps]; auto.
  - constructor; [constructor|intros b []|intro x; reflexivity].
  - constructor; intros b [].
Qed.

(* a watchpoint whose register was released (program exit / restart, clear_local_disable_global) makes
   clear_all panic if it runs while a process exists: Drop / detach reach hw.disable's
   `expect("should exist")`.  Reachable only between DebugeeStart and the entry point. *)
Theorem clear_all_unarmed_panics : exists w, clear_all w = Panic 2.
Proof.
  exists (Wp.mk_st [(5, hw_zero)] [mk_wp 1 4096 SIZE_Bytes8 COND_DataWrites None None] None 2 1 []).
  vm_compute. reflexivity.
Qed.

(* ====================================================================================== *)
(* decidable forms of the hypotheses, witnesses, non-vacuity                                *)
(* ====================================================================================== *)
Definition readableb (code : mem) (a : N) : bool :=
  forallb (fun o => match code (a + o) with Some _ => true | None => false end) word_offsets.
Lemma readableb_sound : forall code a, readableb code a = true -> readable code a.
Proof.
  intros code a H o Ho. unfold readableb in H. rewrite forallb_forall in H. specialize (H o Ho).
  destruct (code (a + o)); [discriminate|discriminate H].
Qed.

(* H_boundary for `break <addr>` in the histories of [Life] *)
Definition good_ab (code : mem) (rbrk off : N) (has_place : N -> bool) (entry a : N) : bool :=
  mapped code a && has_place a && readableb code a && negb (a =? entry) && negb (a =? rbrk) && (off <=? a).
Lemma good_ab_sound : forall code rbrk off has_place entry a,
  good_ab code rbrk off has_place entry a = true -> GoodA' code rbrk off has_place entry a.
Proof.
  intros code rbrk off has_place entry a H. unfold good_ab in H.
  apply andb_true_iff in H. destruct H as [H H6]. apply andb_true_iff in H. destruct H as [H H5].
  apply andb_true_iff in H. destruct H as [H H4]. apply andb_true_iff in H. destruct H as [H H3].
  apply andb_true_iff in H. destruct H as [H1 H2].
  apply negb_true_iff, N.eqb_neq in H4. apply negb_true_iff, N.eqb_neq in H5. apply N.leb_le in H6.
  unfold GoodA'. repeat split; auto using readableb_sound.
Qed.

(* the restart theorems apply to the witness machine of BpMachineProofs (entry 10, r_brk 99, bias 0):
   the hypotheses hold for its trace and for `break 20`, `break 30`, and the model computes what
   restart_at_prompt predicts: the same pairs, the first hit after the entry point *)
Example restart_hypotheses_nonvacuous :
  trace_okb nop tr_w = true /\ no_stutterb tr_w = true /\ entry_onceb 10 tr_w = true /\
  readableb nop 10 = true /\ readableb nop 99 = true /\
  good_ab nop 99 0 (fun _ => true) 10 20 = true /\ good_ab nop 99 0 (fun _ => true) 10 30 = true /\
  (let s := fst (BpMachineProofs.wrun tr_w [Add 20; Add 30; Continue; Continue]) in
   uviews (r_bps (s_reg s)) = [(1, 20); (2, 30)] /\ p_pc (s_proc s) = 30) /\
  (let x := BpMachineProofs.wrun tr_w [Add 20; Add 30; Continue; Continue; Restart] in
   uviews (r_bps (s_reg (fst x))) = [(1, 20); (2, 30)] /\ p_pc (s_proc (fst x)) = 20 /\
   last_error (snd x) = Some (OStop (StopBp 20 1)) /\ next_hit tr_w [30; 20] 1 = Some 1%nat).
Proof. vm_compute. auto 20. Qed.

(* restart after the exit: the pairs survive as pending breakpoints and hit again *)
Example restart_after_exit_example :
  let x := BpMachineProofs.wrun tr_w [Add 30; Continue; Continue; Continue; Continue; Restart; Continue] in
  exit_codes (snd x) = [7%Z] /\ only_stops (snd x) = [StopBp 30 1; StopBp 30 1; StopExit 7; StopBp 30 1; StopBp 30 1].
Proof. vm_compute. auto. Qed.

(* C11_restart_keeps_refuted: `break remove <entry address>` (or `break remove 0` twice) takes the
   debugger's own entry-point breakpoint out; from then on no restart ever arms the user's
   breakpoints again: the program runs to its end, the breakpoint stays listed and never hits *)
Theorem restart_entry_removed_refuted : exists tr ops,
  let x := BpMachineProofs.wrun tr ops in
  only_stops (snd x) = [StopBp 30 1; StopExit 7; StopExit 7] /\ snapshot (s_reg (fst x)) = [(1, Glob 30)] /\
  only_stops (wspec tr ops) = [StopBp 30 1; StopBp 30 1; StopBp 30 1].
Proof. exists tr_w, [Add 30; Continue; RemoveAddr 10; Restart; Restart]. vm_compute. auto. Qed.

(* a `break` at the place of a breakpoint that survived an exit is listed twice; the restart keeps one
   of the two numbers only (which one: HashMap order in the code, list order in the model) *)
Theorem restart_double_listing_refuted : exists tr ops,
  snapshot (s_reg (fst (BpMachineProofs.wrun tr ops))) = [(1, Glob 50); (2, Reloc 50)] /\
  snapshot (s_reg (fst (BpMachineProofs.wrun tr (ops ++ [Restart])))) = [(1, Reloc 50)].
Proof. exists [10; 20; 50; 60], [Add 50; Continue; Continue; Add 50]. vm_compute. auto. Qed.

(* detach / drop of an attached process with watchpoints in two threads: released, quiet *)
Example external_survives_example :
  let w := Wp.wrun [WAddAddr 4096 SIZE_Bytes8 COND_DataWrites; WNewThread 7; WAddAddr 4104 SIZE_Bytes4 COND_DataReadsWrites]
                   (wst_attached [5; 6]) in
  let s := init_attached nop tr_w 10 0 3 in
  armedb w = true /\ map (fun th => dr7_quiet (h_dr7 (snd th))) (threads w) = [false; false; false] /\
  match detach_w 0 (mk_world s w) with
  | Ok x' => s_fate (w_bp x') = FReleased /\ wps (w_wp x') = [] /\ tids (w_wp x') = [5; 6; 7] /\
             map (fun th => dr7_quiet (h_dr7 (snd th))) (threads (w_wp x')) = [true; true; true]
  | _ => False
  end.
Proof. vm_compute. auto 10. Qed.

(* the life_check checker accepts what the model produces and flags a wrong exit code *)
Example life_check_example :
  life_check (mk_life_case tr_w 10 99 7%Z [Add 20; Continue; Restart; Continue; Continue; Continue; Quit]
                [7%Z] [(1, Glob 20)] 1) = 0 /\
  life_check (mk_life_case tr_w 10 99 7%Z [Add 20; Continue; Restart; Continue; Continue; Continue; Quit]
                [0%Z] [(1, Glob 20)] 1) = 2.
Proof. vm_compute. auto. Qed.

(* the two halves together: an attached process at ANY prompt of the patch machine, after ANY
   watchpoint / thread history (C14's commands), is released intact by detach and by drop *)
Theorem attached_history_survives : forall code tr off s i m ops tds,
  Prompt code tr s i m -> s_detached s = false -> tds <> [] -> Forall valid_op ops ->
  let w := Wp.wrun ops (wst_attached tds) in
  (exists x', detach_w off (mk_world s w) = Ok x' /\ Survives code w x' /\ s_detached (w_bp x') = true) /\
  (s_external s = true -> exists x', drop_w off (mk_world s w) = Ok x' /\ Survives code w x').
Proof.
  intros code tr off s i m ops tds P Hd Hne V w. destruct (attached_wrun_ok ops tds Hne V) as [I A].
  pose proof (prompt_stopped code tr s i m P) as S. split.
  - now apply detach_external_survives.
  - intro Hx. now apply drop_external_survives.
Qed.
