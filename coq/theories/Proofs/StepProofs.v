(* Proofs about the step model (C03). *)
From Coq Require Import Lia.
From BS Require Import Model.Base.
From BS Require Import Model.Step.
Open Scope N_scope.

Section StepProofs.
  Variable tr : trace.
  Variable rows : list row.
  Variable funcs : list func.
  Variable units : list (N * N).
  Variable oc : bool.
  Variable ec : N.

  Notation single_step := (single_step tr ec).
  Notation sstep := (sstep tr ec).
  Notation stepi := (stepi tr ec).
  Notation find_exact := (find_exact rows units oc).
  Notation find_func := (find_func funcs units).
  Notation find_place := (find_place rows units).
  Notation settle := (settle rows funcs units oc).
  Notation step_in_loop := (step_in_loop tr rows funcs units oc ec).
  Notation step_in := (step_in tr rows funcs units oc ec).
  Notation step_over := (step_over tr rows funcs units oc ec).
  Notation run_skip := (run_skip tr).
  Notation step_out := (step_out tr).
  Notation arrive := (arrive tr).

  (* ---------------------------------------------------------------- *)
  (* single_step                                                       *)

  Lemma single_step_spec fuel pc0 j j' sg :
    single_step fuel pc0 j = Ok (j', sg) ->
    (j <= j')%nat /\
    (forall k, (j <= k < j')%nat -> exists q, tr k = Some q /\ pc q = pc0 /\ sig q = 0) /\
    (exists q, tr j' = Some q /\
               match sg with None => pc q <> pc0 /\ sig q = 0 | Some s => sig q = s /\ s <> 0 end).
  Proof.
    revert j. induction fuel as [|f IH]; intros j H; cbn [Step.single_step] in H; [discriminate|].
    destruct (tr j) as [p|] eqn:Ep; [|discriminate].
    destruct (N.eqb_spec (sig p) 0) as [Hs|Hs]; cbn [negb] in H.
    - destruct (N.eqb_spec (pc p) pc0) as [Hp|Hp].
      + apply IH in H. destruct H as (Hle & Hmid & Hend). split; [lia|]. split; [|exact Hend].
        intros k Hk. destruct (Nat.eq_dec k j) as [->|Hne].
        * exists p. auto.
        * apply Hmid. lia.
      + inversion H; subst. split; [lia|]. split; [intros k Hk; lia|].
        exists p. auto.
    - inversion H; subst. split; [lia|]. split; [intros k Hk; lia|].
      exists p. auto.
  Qed.

  Lemma sstep_spec sf i j' :
    sstep sf i = Ok (j', None) ->
    (i < j')%nat /\ (forall k, (i < k < j')%nat -> ~ arrive k) /\
    (exists p q, tr i = Some p /\ tr j' = Some q /\ pc q <> pc p /\ sig q = 0).
  Proof.
    unfold Step.sstep. destruct (tr i) as [p|] eqn:Ep; [|discriminate].
    intros H. apply single_step_spec in H. destruct H as (Hle & Hmid & (q & Eq & Hne & Hsg)).
    split; [lia|]. split.
    - intros k Hk (a & b & Ea & Eb & Hab & Hpos).
      assert (Hb : exists q0, tr k = Some q0 /\ pc q0 = pc p /\ sig q0 = 0) by (apply Hmid; lia).
      destruct Hb as (q0 & E0 & P0 & _). rewrite Eb in E0. inversion E0; subst q0.
      destruct (Nat.eq_dec (pred k) i) as [Hi|Hi].
      + rewrite Hi, Ep in Ea. inversion Ea; subst a. congruence.
      + assert (Ha : exists q1, tr (pred k) = Some q1 /\ pc q1 = pc p /\ sig q1 = 0) by (apply Hmid; lia).
        destruct Ha as (q1 & E1 & P1 & _). rewrite Ea in E1. inversion E1; subst q1. congruence.
    - exists p, q. auto.
  Qed.

  (* stepi executes exactly one instruction when that instruction changes the pc *)
  Definition stepi_hyp (i : nat) : Prop :=
    exists p q, tr i = Some p /\ tr (S i) = Some q /\ pc q <> pc p /\ sig q = 0.

  Theorem C03_stepi_partial fuel i :
    stepi_hyp i -> stepi (S fuel) i = Ok (S i, WDone).
  Proof.
    intros (p & q & Ep & Eq & Hne & Hs).
    unfold Step.stepi, Step.sstep. rewrite Ep. cbn [Step.single_step]. rewrite Eq, Hs.
    change (0 =? 0) with true. cbn [negb].
    destruct (N.eqb_spec (pc q) (pc p)) as [H|H]; [contradiction|]. reflexivity.
  Qed.

  (* whatever stepi answers with WDone, the pc has changed and nothing in between had another pc *)
  Theorem C03_stepi_sound fuel i s :
    stepi fuel i = Ok (s, WDone) ->
    (i < s)%nat /\ (forall k, (i < k < s)%nat -> ~ arrive k) /\
    exists p q, tr i = Some p /\ tr s = Some q /\ pc q <> pc p.
  Proof.
    unfold Step.stepi. destruct (sstep fuel i) as [[j [sg|]]|c|c|] eqn:E; cbn [bind]; try discriminate.
    intros H; inversion H; subst. apply sstep_spec in E. destruct E as (A & B & (p & q & C1 & C2 & C3 & _)).
    split; [exact A|]. split; [exact B|]. exists p, q. auto.
  Qed.

  (* ---------------------------------------------------------------- *)
  (* step_in                                                           *)

  Definition first_row (a : N) : option row := find (fun r => r_addr r =? a) rows.
  (* statement boundary: the first row at exactly this address is an is_stmt row *)
  Definition stmt_at (a : N) (rw : row) : Prop := first_row a = Some rw /\ r_stmt rw = true.

  Definition candidate (sfile sline scfa : N) (j : nat) : Prop :=
    exists q rw fn, tr j = Some q /\ arrive j /\ stmt_at (pc q) rw /\ in_unit units (pc q) = true /\
      find_func (pc q) = Some fn /\
      (forall g, In g funcs -> in_prolog g (pc q) = false) /\
      (cfa q <> scfa \/ r_file rw <> sfile \/ r_line rw <> sline).

  Lemma cand_arrive a b c k : candidate a b c k -> arrive k.
  Proof. intros (q & rw & fn & _ & Ha & _). exact Ha. Qed.

  Lemma find_exact_ok a rw :
    in_unit units a = true -> first_row a = Some rw ->
    find_exact a = Ok (Some rw) \/ find_exact a = Panic 30.
  Proof.
    unfold Step.find_exact, first_row. intros -> H.
    destruct rows as [|r0 t]; [discriminate|].
    destruct (N.eqb_spec (r_addr r0) a) as [E|E].
    - cbn [find] in H. subst a. rewrite N.eqb_refl in H. inversion H; subst.
      destruct oc; auto.
    - left. f_equal. exact H.
  Qed.

  Lemma find_exact_some a rw :
    find_exact a = Ok (Some rw) -> first_row a = Some rw.
  Proof.
    unfold Step.find_exact, first_row. destruct (in_unit units a); [|discriminate].
    destruct rows as [|r0 t]; [discriminate|].
    destruct (N.eqb_spec (r_addr r0) a) as [E|E].
    - destruct oc; [discriminate|]. intros H; inversion H; subst. cbn [find].
      rewrite N.eqb_refl. reflexivity.
    - intros H; inversion H. reflexivity.
  Qed.

  Lemma find_func_in a f : find_func a = Some f -> In f funcs.
  Proof.
    unfold Step.find_func. destruct (in_unit units a); [|discriminate].
    intros H. apply find_some in H. tauto.
  Qed.

  Definition phase_ok (ph : phase) : Prop :=
    match ph with PProlog f => In f funcs | PFunc => True end.

  Lemma settle_phase_ok ph a ph' :
    phase_ok ph -> settle ph a = Ok (NeedStep ph') -> phase_ok ph'.
  Proof.
    intros Hph. unfold Step.settle, Step.settle_prolog.
    destruct ph as [|f].
    - destruct (find_func a) as [f|] eqn:Ef.
      + destruct (in_prolog f a).
        * intros H; inversion H; subst. cbn. eapply find_func_in; eauto.
        * destruct (find_exact a) as [[r|]|c|c|]; cbn [bind]; intros H; inversion H; subst; exact I.
      + intros H; inversion H; subst; exact I.
    - destruct (in_prolog f a).
      + intros H; inversion H; subst. exact Hph.
      + destruct (find_exact a) as [[r|]|c|c|]; cbn [bind]; intros H; inversion H; subst; exact I.
  Qed.

  Lemma settle_return ph a rw :
    settle ph a = Ok (Return rw) -> first_row a = Some rw.
  Proof.
    unfold Step.settle, Step.settle_prolog.
    destruct ph as [|f].
    - destruct (find_func a) as [f|]; [|discriminate].
      destruct (in_prolog f a); [discriminate|].
      destruct (find_exact a) as [[r|]|c|c|] eqn:E; cbn [bind]; try discriminate.
      intros H; inversion H; subst. apply find_exact_some; exact E.
    - destruct (in_prolog f a); [discriminate|].
      destruct (find_exact a) as [[r|]|c|c|] eqn:E; cbn [bind]; try discriminate.
      intros H; inversion H; subst. apply find_exact_some; exact E.
  Qed.

  (* at a candidate the state machine either returns that row or panics in find_exact *)
  Lemma settle_candidate ph sfile sline scfa j q :
    phase_ok ph -> candidate sfile sline scfa j -> tr j = Some q ->
    (exists rw, settle ph (pc q) = Ok (Return rw) /\ accept sfile sline scfa rw q = true) \/
    settle ph (pc q) = Panic 30.
  Proof.
    intros Hph (q' & rw & fn & Eq & _ & (Hfr & Hst) & Hu & Hf & Hpro & Hdiff) Eq'.
    rewrite Eq in Eq'. inversion Eq'; subst q'.
    assert (Hacc : accept sfile sline scfa rw q = true).
    { unfold accept. rewrite Hst. cbn [andb].
      destruct (N.eqb_spec (cfa q) scfa) as [E1|E1]; cbn [negb orb]; [|reflexivity].
      destruct (N.eqb_spec (r_file rw) sfile) as [E2|E2]; cbn [andb negb]; [|reflexivity].
      destruct (N.eqb_spec (r_line rw) sline) as [E3|E3]; cbn [negb]; [|reflexivity].
      destruct Hdiff as [H|[H|H]]; contradiction. }
    assert (Hsp : forall f, In f funcs ->
              (exists rw0, settle_prolog rows units oc f (pc q) = Ok (Return rw0) /\ accept sfile sline scfa rw0 q = true) \/
              settle_prolog rows units oc f (pc q) = Panic 30).
    { intros f Hin. unfold Step.settle_prolog. rewrite (Hpro f Hin).
      destruct (find_exact_ok (pc q) rw Hu Hfr) as [E|E]; rewrite E; cbn [bind].
      - left. exists rw. auto.
      - right. reflexivity. }
    unfold Step.settle. destruct ph as [|f].
    - rewrite Hf. apply Hsp. eapply find_func_in; eauto.
    - apply Hsp. exact Hph.
  Qed.

  Lemma step_in_loop_spec fuel sf ph sfile sline scfa j s :
    phase_ok ph ->
    step_in_loop fuel sf ph sfile sline scfa j = Ok (s, WDone) ->
    (j < s)%nat /\
    (exists q rw, tr s = Some q /\ stmt_at (pc q) rw /\
                  (cfa q <> scfa \/ r_file rw <> sfile \/ r_line rw <> sline)) /\
    (forall k, (j < k < s)%nat -> ~ candidate sfile sline scfa k).
  Proof.
    revert ph j. induction fuel as [|f IH]; intros ph j Hph H; cbn [Step.step_in_loop] in H; [discriminate|].
    destruct (sstep sf j) as [[j' [sg|]]|c|c|] eqn:Es; cbn [bind] in H; try discriminate.
    destruct (tr j') as [p|] eqn:Ep; [|discriminate].
    pose proof (sstep_spec _ _ _ Es) as (Hlt & Hmid & _).
    destruct (settle ph (pc p)) as [st|c|c|] eqn:Est; cbn [bind] in H; try discriminate.
    assert (Hcand : candidate sfile sline scfa j' ->
              exists rw, st = Return rw /\ accept sfile sline scfa rw p = true).
    { intros Hc. destruct (settle_candidate ph _ _ _ _ _ Hph Hc Ep) as [(rw & E1 & E2)|E1];
        rewrite Est in E1; [|discriminate]. inversion E1; subst. exists rw. auto. }
    destruct st as [rw|ph'].
    - destruct (accept sfile sline scfa rw p) eqn:Eacc.
      + inversion H; subst s. split; [exact Hlt|]. split.
        * exists p, rw. split; [exact Ep|]. unfold accept in Eacc.
          apply andb_prop in Eacc. destruct Eacc as [Hst Hd].
          split; [split; [eapply settle_return; eauto|exact Hst]|].
          destruct (N.eqb_spec (cfa p) scfa) as [E1|E1]; [|left; exact E1].
          destruct (N.eqb_spec (r_file rw) sfile) as [E2|E2]; [|right; left; exact E2].
          destruct (N.eqb_spec (r_line rw) sline) as [E3|E3]; [|right; right; exact E3].
          cbn in Hd. discriminate.
        * intros k Hk Hc. apply (Hmid k Hk). eapply cand_arrive; eauto.
      + apply IH in H; [|exact I]. destruct H as (A & B & C). split; [lia|]. split; [exact B|].
        intros k Hk. destruct (Nat.lt_ge_cases k j') as [Hl|Hg].
        * intros Hc. apply (Hmid k); [lia|eapply cand_arrive; eauto].
        * destruct (Nat.eq_dec k j') as [->|Hne]; [|apply C; lia].
          intros Hc. destruct (Hcand Hc) as (rw' & E1 & E2). inversion E1; subst. congruence.
    - apply IH in H; [|eapply settle_phase_ok; eauto]. destruct H as (A & B & C).
      split; [lia|]. split; [exact B|].
      intros k Hk. destruct (Nat.lt_ge_cases k j') as [Hl|Hg].
      + intros Hc. apply (Hmid k); [lia|eapply cand_arrive; eauto].
      + destruct (Nat.eq_dec k j') as [->|Hne]; [|apply C; lia].
        intros Hc. destruct (Hcand Hc) as (rw' & E1 & _). discriminate.
  Qed.

  (* `step`: from a position that has a place, a completed step is at a statement boundary on
     another line or in another activation, and no earlier such boundary (of a function with
     debug info, outside prologues) was passed -- in particular the first line of a callee with
     line information (another activation) is never skipped, and recursion does not confuse it
     because the CFA is compared *)
  Theorem C03_step_in fuel i p rw0 s :
    tr i = Some p -> find_place (pc p) = Some rw0 ->
    step_in fuel i = Ok (s, WDone) ->
    (i < s)%nat /\
    (exists q rw, tr s = Some q /\ stmt_at (pc q) rw /\
                  (cfa q <> cfa p \/ r_file rw <> r_file rw0 \/ r_line rw <> r_line rw0)) /\
    (forall k, (i < k < s)%nat -> ~ candidate (r_file rw0) (r_line rw0) (cfa p) k).
  Proof.
    intros Ep Hpl. unfold Step.step_in.
    destruct fuel as [|f]; [discriminate|].
    cbn [Step.find_start]. rewrite Ep, Hpl. cbn [bind]. rewrite Ep.
    apply step_in_loop_spec. exact I.
  Qed.

  (* a step that does not complete says why *)
  Theorem C03_step_in_interrupt_reported fuel i s w :
    step_in fuel i = Ok (s, w) -> w = WDone \/ exists sg, w = WSignal sg /\ exists q, tr s = Some q /\ sig q = sg /\ sg <> 0.
  Proof.
    assert (L : forall fuel sf ph a b c j, step_in_loop fuel sf ph a b c j = Ok (s, w) ->
                w = WDone \/ exists sg, w = WSignal sg /\ exists q, tr s = Some q /\ sig q = sg /\ sg <> 0).
    { clear fuel i. induction fuel as [|f IH]; intros sf ph a b c j H; cbn [Step.step_in_loop] in H; [discriminate|].
      destruct (sstep sf j) as [[j' [sg|]]|e|e|] eqn:Es; cbn [bind] in H; try discriminate.
      - inversion H; subst. right. exists sg. split; [reflexivity|].
        unfold Step.sstep in Es. destruct (tr j) as [p|]; [|discriminate].
        apply single_step_spec in Es. destruct Es as (_ & _ & (q & Eq & Hs & Hn)). exists q. auto.
      - destruct (tr j') as [p|]; [|discriminate].
        destruct (settle ph (pc p)) as [[rw|ph']|e|e|]; cbn [bind] in H; try discriminate.
        + destruct (accept a b c rw p); [inversion H; auto|eapply IH; eauto].
        + eapply IH; eauto. }
    unfold Step.step_in.
    destruct (find_start tr rows units ec fuel fuel i) as [[j [rw|sg]]|e|e|] eqn:Ef; cbn [bind]; try discriminate.
    - destruct (tr j); [|discriminate]. apply L.
    - intros H; inversion H; subst. right. exists sg. split; [reflexivity|].
      clear H. revert i Ef. generalize fuel at 1. intros n; induction n as [|f IH]; intros i Ef; cbn [Step.find_start] in Ef; [discriminate|].
      destruct (tr i) as [p|] eqn:Ep; [|discriminate].
      destruct (find_place (pc p)); [discriminate|].
      destruct (sstep fuel i) as [[j' [sg'|]]|e|e|] eqn:Es; cbn [bind] in Ef; try discriminate.
      + inversion Ef; subst. unfold Step.sstep in Es. rewrite Ep in Es.
        apply single_step_spec in Es. destruct Es as (_ & _ & (q & Eq & Hs & Hn)). exists q. auto.
      + eapply IH; eauto.
  Qed.


  (* ---------------------------------------------------------------- *)
  (* the process ends during a step                                    *)

  Lemma single_step_no_panic fuel pc0 j s : single_step fuel pc0 j <> Panic s.
  Proof.
    revert j. induction fuel as [|f IH]; intros j; cbn [Step.single_step]; [discriminate|].
    destruct (tr j) as [p|]; [|discriminate].
    destruct (negb (sig p =? 0)); [discriminate|].
    destruct (pc p =? pc0); [apply IH|discriminate].
  Qed.

  (* stepi never panics (before commit c0ceee6 the real single_step did, at the process end) *)
  Theorem C03_stepi_never_panics fuel i s : stepi fuel i <> Panic s.
  Proof.
    unfold Step.stepi, Step.sstep. destruct (tr i) as [p|]; [|discriminate].
    destruct (single_step fuel (pc p) (S i)) as [[j [sg|]]|c|c|] eqn:E; cbn [bind]; try discriminate.
    exfalso. eapply single_step_no_panic; eauto.
  Qed.

  (* the instruction at i ends the process: the step reports ProcessExit with the real status *)
  Theorem C03_stepi_exit fuel i p :
    tr i = Some p -> tr (S i) = None -> stepi (S fuel) i = Err (E_EXIT_CODE ec).
  Proof.
    intros Ep En. unfold Step.stepi, Step.sstep. rewrite Ep.
    cbn [Step.single_step]. rewrite En. reflexivity.
  Qed.

  Theorem C03_step_in_exit fuel i p rw0 :
    tr i = Some p -> find_place (pc p) = Some rw0 -> tr (S i) = None ->
    step_in (S fuel) i = Err (E_EXIT_CODE ec).
  Proof.
    intros Ep Hpl En. unfold Step.step_in. cbn [Step.find_start]. rewrite Ep, Hpl.
    cbn [bind]. rewrite Ep. cbn [Step.step_in_loop]. unfold Step.sstep. rewrite Ep.
    cbn [Step.single_step]. rewrite En. reflexivity.
  Qed.

  (* ---------------------------------------------------------------- *)
  (* continue_execution with the frame filter                          *)

  Definition hit (stops : N -> bool) (skip : pt -> bool) (k : nat) : Prop :=
    arrive k /\ exists q, tr k = Some q /\ stops (pc q) = true /\ skip q = false.

  Lemma run_skip_spec fuel stops skip prev j s w :
    (0 < j)%nat -> (exists p, tr (pred j) = Some p /\ pc p = prev) ->
    run_skip fuel stops skip prev j = Ok (s, w) ->
    (j <= s)%nat /\
    (forall k, (j <= k < s)%nat -> ~ hit stops skip k /\ exists q, tr k = Some q /\ sig q = 0) /\
    match w with
    | WBreakpoint => hit stops skip s /\ exists q, tr s = Some q /\ sig q = 0
    | WSignal sg => exists q, tr s = Some q /\ sig q = sg /\ sg <> 0
    | WExit => tr s = None
    | WDone => False
    end.
  Proof.
    revert prev j. induction fuel as [|f IH]; intros prev j Hpos (p0 & Ep0 & Hprev) H;
      cbn [Step.run_skip] in H; [discriminate|].
    destruct (tr j) as [p|] eqn:Ep.
    - destruct (N.eqb_spec (sig p) 0) as [Hs|Hs]; cbn [negb] in H.
      + assert (Hrec : run_skip f stops skip (pc p) (S j) = Ok (s, w) ->
                       ~ hit stops skip j ->
                       (j <= s)%nat /\
                       (forall k, (j <= k < s)%nat -> ~ hit stops skip k /\ exists q, tr k = Some q /\ sig q = 0) /\
                       match w with
                       | WBreakpoint => hit stops skip s /\ exists q, tr s = Some q /\ sig q = 0
                       | WSignal sg => exists q, tr s = Some q /\ sig q = sg /\ sg <> 0
                       | WExit => tr s = None
                       | WDone => False
                       end).
        { intros H' Hnh. apply IH in H'; [|lia|exists p; cbn [pred]; auto].
          destruct H' as (A & B & C). split; [lia|]. split; [|exact C].
          intros k Hk. destruct (Nat.eq_dec k j) as [->|Hne]; [|apply B; lia].
          split; [exact Hnh|exists p; auto]. }
        destruct (N.eqb_spec (pc p) prev) as [Hp|Hp]; cbn [negb andb] in H.
        * apply Hrec; [exact H|].
          intros ((a & b & Ea & Eb & Hab & _) & _). rewrite Ep0 in Ea. rewrite Ep in Eb.
          inversion Ea; inversion Eb; subst. congruence.
        * destruct (stops (pc p)) eqn:Est; cbn [andb] in H.
          -- destruct (skip p) eqn:Esk; cbn [negb] in H.
             ++ apply Hrec; [exact H|].
                intros (_ & (q & Eq & _ & Hq)). rewrite Ep in Eq. inversion Eq; subst. congruence.
             ++ inversion H; subst. split; [lia|]. split; [intros k Hk; lia|].
                split; [|exists p; auto]. split.
                ** exists p0, p. repeat split; auto; congruence.
                ** exists p. auto.
          -- apply Hrec; [exact H|].
             intros (_ & (q & Eq & Hq & _)). rewrite Ep in Eq. inversion Eq; subst. congruence.
      + inversion H; subst. split; [lia|]. split; [intros k Hk; lia|]. exists p. auto.
    - inversion H; subst. split; [lia|]. split; [intros k Hk; lia|]. exact Ep.
  Qed.

  Lemma run_skip_no_panic fuel stops skip prev j s : run_skip fuel stops skip prev j <> Panic s.
  Proof.
    revert prev j. induction fuel as [|f IH]; intros prev j; cbn [Step.run_skip]; [discriminate|].
    destruct (tr j) as [p|]; [|discriminate].
    destruct (negb (sig p =? 0)); [discriminate|].
    destruct (negb (pc p =? prev) && stops (pc p) && negb (skip p)); [discriminate|apply IH].
  Qed.

  (* completeness: with enough fuel the run does reach the first hit *)
  Lemma run_skip_reach stops skip n : forall fuel prev j s,
    s = (j + n)%nat -> (n < fuel)%nat -> (0 < j)%nat ->
    (exists p, tr (pred j) = Some p /\ pc p = prev) ->
    (forall k, (j <= k < s)%nat -> ~ hit stops skip k /\ exists q, tr k = Some q /\ sig q = 0) ->
    hit stops skip s -> (exists q, tr s = Some q /\ sig q = 0) ->
    run_skip fuel stops skip prev j = Ok (s, WBreakpoint).
  Proof.
    induction n as [|n IH]; intros fuel prev j s Hs Hf Hpos (p0 & Ep0 & Hprev) Hmid Hhit (qs & Eqs & Hsig).
    - replace s with j in * by lia. destruct fuel as [|f]; [lia|]. cbn [Step.run_skip].
      rewrite Eqs, Hsig. change (0 =? 0) with true. cbn [negb].
      destruct Hhit as ((a & b & Ea & Eb & Hab & _) & (q & Eq & Hst & Hsk)).
      rewrite Eqs in Eq. inversion Eq; subst q. rewrite Ep0 in Ea. rewrite Eqs in Eb.
      inversion Ea; inversion Eb; subst a b.
      destruct (N.eqb_spec (pc qs) prev) as [E|E]; [congruence|].
      rewrite Hst, Hsk. reflexivity.
    - destruct fuel as [|f]; [lia|]. cbn [Step.run_skip].
      destruct (Hmid j ltac:(lia)) as (Hnh & (q & Eq & Hq)). rewrite Eq, Hq.
      change (0 =? 0) with true. cbn [negb].
      assert (Hc : negb (pc q =? prev) && stops (pc q) && negb (skip q) = false).
      { destruct (N.eqb_spec (pc q) prev) as [E|E]; cbn [negb andb]; [reflexivity|].
        destruct (stops (pc q)) eqn:Est; cbn [andb]; [|reflexivity].
        destruct (skip q) eqn:Esk; cbn [negb]; [reflexivity|].
        exfalso. apply Hnh. split.
        - exists p0, q. repeat split; auto; congruence.
        - exists q. auto. }
      rewrite Hc. apply IH; try lia.
      + exists q. cbn [pred]. auto.
      + intros k Hk. apply Hmid. lia.
      + exact Hhit.
      + exists qs. auto.
  Qed.

  (* ---------------------------------------------------------------- *)
  (* finish                                                            *)

  (* Remaining hypotheses, all about the unwinder (C05), none about recursion:
     - [ra = Some r] and r is the pc of the return point R (Debugee::return_addr is right);
     - the CFA that get_cfa computes at the start and at every hit of the temporary is the
       trace's cfa (this is how the model reads [cfa]); with an unknown CFA the code falls back
       to the old behaviour;
     - the thread arrives at R (the `ret` is not at the return address itself);
     - r does not already carry a user breakpoint (then no temporary and no filter is used). *)
  Definition finish_pre (i R : nat) (r : N) : Prop :=
    return_point tr i R /\ arrive R /\ (exists q, tr R = Some q /\ pc q = r).

  Lemma finish_skip_facts i p R r :
    tr i = Some p -> finish_pre i R r ->
    let stops := active [r] [] in
    let skip := fun q : pt => (pc q =? r) && (cfa q <=? cfa p) in
    forall users, memN r users = false ->
    hit (active [r] users) skip R /\
    (forall k, (i < k < R)%nat -> ~ hit (active [r] users) skip k).
  Proof.
    intros Ep (HR & HaR & (qR & EqR & HpR)) stops skip users Hnu.
    destruct HR as (p' & Ep' & HiR & (q' & Eq' & Hlt) & Hbelow).
    rewrite Ep in Ep'. inversion Ep'; subst p'. rewrite EqR in Eq'. inversion Eq'; subst q'.
    split.
    - split; [exact HaR|]. exists qR. split; [exact EqR|]. split.
      + cbn. rewrite HpR, N.eqb_refl. reflexivity.
      + unfold skip. rewrite HpR, N.eqb_refl. cbn [andb].
        destruct (N.leb_spec (cfa qR) (cfa p)); [lia|reflexivity].
    - intros k Hk (_ & (q & Eq & Hst & Hsk)).
      cbn in Hst. rewrite Bool.orb_false_r in Hst. unfold skip in Hsk. rewrite Hst in Hsk.
      cbn [andb] in Hsk. apply N.leb_gt in Hsk.
      specialize (Hbelow k q Hk Eq). lia.
  Qed.

  (* C03 finish, recursion included: a completed `finish` is at the return point of the
     activation it started in *)
  Theorem C03_finish fuel i p R r users s :
    tr i = Some p -> finish_pre i R r -> memN r users = false ->
    step_out fuel (Some r) users i = Ok (s, WDone) -> s = R.
  Proof.
    intros Ep Hpre Hnu.
    destruct (finish_skip_facts i p R r Ep Hpre users Hnu) as (HhitR & Hnone).
    unfold Step.step_out. rewrite Ep, Hnu.
    cbv beta iota.
    destruct (run_skip fuel (active [r] users) (fun q => (pc q =? r) && (cfa q <=? cfa p)) (pc p) (S i))
      as [[j w]|c|c|] eqn:Er; cbn [bind]; try discriminate.
    apply run_skip_spec in Er; [|lia|exists p; auto].
    destruct w; try discriminate; intros H; inversion H; subst j;
      [destruct Er as (_ & _ & [])|].
    destruct Er as (Hle & Hmid & (Hhit & _)).
    destruct Hpre as ((p' & _ & HiR & _) & _).
    destruct (Nat.lt_trichotomy s R) as [Hlt|[Heq|Hgt]]; [|exact Heq|].
    - exfalso. apply (Hnone s); [lia|exact Hhit].
    - exfalso. destruct (Hmid R) as (Hn & _); [lia|]. contradiction.
  Qed.

  Corollary C03_finish_spec fuel i p R r users s :
    tr i = Some p -> finish_pre i R r -> memN r users = false ->
    step_out fuel (Some r) users i = Ok (s, WDone) -> finish_spec tr i (s, WDone).
  Proof.
    intros H0 H1 H2 H3. rewrite (C03_finish _ _ _ _ _ _ _ H0 H1 H2 H3). exact (proj1 H1).
  Qed.

  (* ... and with no signal and no exit on the way (and fuel), finish does complete there *)
  Theorem C03_finish_complete fuel i p R r users :
    tr i = Some p -> finish_pre i R r -> memN r users = false ->
    (forall k, (i < k <= R)%nat -> exists q, tr k = Some q /\ sig q = 0) ->
    (R - i <= fuel)%nat ->
    step_out fuel (Some r) users i = Ok (R, WDone).
  Proof.
    intros Ep Hpre Hnu Hquiet Hfuel.
    destruct (finish_skip_facts i p R r Ep Hpre users Hnu) as (HhitR & Hnone).
    assert (HiR : (i < R)%nat) by (destruct Hpre as ((p' & _ & HiR & _) & _); exact HiR).
    unfold Step.step_out. rewrite Ep, Hnu. cbv beta iota.
    rewrite (run_skip_reach _ _ (R - S i) fuel (pc p) (S i) R); try lia.
    - reflexivity.
    - exists p. auto.
    - intros k Hk. split; [apply Hnone; lia|apply Hquiet; lia].
    - exact HhitR.
    - apply Hquiet. lia.
  Qed.

  (* a finish that ends anywhere else says so; it never panics; the process ending on the way is
     reported as ProcessExit (status 0 in the error, the real one went to the on_exit hook) *)
  Theorem C03_finish_interrupt_reported fuel ra users i s w :
    step_out fuel ra users i = Ok (s, w) ->
    match w with
    | WDone => True
    | WSignal sg => exists q, tr s = Some q /\ sig q = sg /\ sg <> 0
    | WBreakpoint => exists q, tr s = Some q /\ memN (pc q) users = true
    | WExit => False
    end.
  Proof.
    unfold Step.step_out. destruct (tr i) as [p|] eqn:Ep; [|discriminate].
    destruct ra as [r|]; [|intros H; inversion H; exact I].
    match goal with |- context [run_skip fuel ?st ?sk ?pv ?j0] =>
      destruct (run_skip fuel st sk pv j0) as [[j w']|c|c|] eqn:Er end;
      cbn [bind]; try discriminate.
    apply run_skip_spec in Er; [|lia|exists p; auto]. destruct Er as (_ & _ & Hw).
    destruct w'; try discriminate.
    - destruct Hw.
    - intros H; inversion H; subst. exact Hw.
    - destruct (memN r users) eqn:Em; intros H; inversion H; subst; [|exact I].
      destruct Hw as ((_ & (q & Eq & Hq & _)) & _). exists q. split; [exact Eq|]. exact Hq.
  Qed.

  Theorem C03_finish_never_panics fuel ra users i s : step_out fuel ra users i <> Panic s.
  Proof.
    unfold Step.step_out. destruct (tr i) as [p|]; [|discriminate].
    destruct ra as [r|]; [|discriminate].
    match goal with |- context [run_skip fuel ?st ?sk ?pv ?j0] =>
      destruct (run_skip fuel st sk pv j0) as [[j w']|c|c|] eqn:Er end; cbn [bind]; try discriminate.
    - destruct w'; discriminate.
    - exfalso. eapply run_skip_no_panic; eauto.
  Qed.

  (* ---------------------------------------------------------------- *)
  (* next                                                              *)

  (* the position where the `continue` loop inside `next` stops *)
  Definition next_run (fuel : nat) (ra : option N) (users : list N) (fn : func) (i : nat) (p : pt) :=
    run_skip fuel (active (next_temps rows fn ra users) users)
             (fun q => memN (pc q) (next_temps rows fn ra users) && (cfa q <? cfa p))
             (pc p) (S i).

  (* C03 next, recursion included.  Remaining hypotheses: the CFA computed by get_cfa is the
     trace's cfa (as for finish); at least one temporary breakpoint was armed.
     The stop is not in a deeper activation, it is at an armed address, and every armed address
     the thread arrived at on the way was reached in a deeper activation (a callee) only. *)
  Theorem C03_next fuel i p fn ra users s :
    tr i = Some p ->
    next_temps rows fn ra users <> [] ->
    next_run fuel ra users fn i p = Ok (s, WBreakpoint) ->
    (i < s)%nat /\
    (exists q, tr s = Some q /\ cfa p <= cfa q /\ memN (pc q) (next_temps rows fn ra users) = true) /\
    (forall k q, (i < k < s)%nat -> tr k = Some q -> arrive k ->
                 memN (pc q) (next_temps rows fn ra users) = true -> cfa q < cfa p).
  Proof.
    intros Ep Hne Hr. unfold next_run in Hr.
    apply run_skip_spec in Hr; [|lia|exists p; auto].
    destruct Hr as (Hle & Hmid & ((Har & (q & Eq & Hq & Hsk)) & _)).
    assert (Hact : forall a, active (next_temps rows fn ra users) users a = memN a (next_temps rows fn ra users)).
    { intros a. unfold active. destruct (next_temps rows fn ra users); [contradiction|reflexivity]. }
    rewrite Hact in Hq.
    split; [lia|]. split.
    - exists q. split; [exact Eq|]. split; [|exact Hq].
      rewrite Hq in Hsk. cbn [andb] in Hsk. apply N.ltb_ge in Hsk. exact Hsk.
    - intros k qk Hk Eqk Hark Hm.
      destruct (N.ltb_spec (cfa qk) (cfa p)) as [Hlt|Hge]; [exact Hlt|].
      exfalso. destruct (Hmid k) as (Hn & _); [lia|]. apply Hn. split; [exact Hark|].
      exists qk. split; [exact Eqk|]. rewrite Hact. split; [exact Hm|].
      rewrite Hm. cbn [andb]. apply N.ltb_ge. exact Hge.
  Qed.

  (* step_over is that run, followed by the fix-up step_in when the stop is the return address
     in the middle of a line *)
  Theorem C03_next_decompose fuel i p fn ra users s w :
    tr i = Some p -> find_func (pc p) = Some fn -> rows <> [] ->
    step_over (S fuel) ra users i = Ok (s, w) ->
    exists s' w', next_run (S fuel) ra users fn i p = Ok (s', w') /\
      ((s = s' /\ ((exists sg, w' = WSignal sg /\ w = w') \/ w' = WBreakpoint)) \/
       (w' = WBreakpoint /\
        exists q r, tr s' = Some q /\ ra = Some r /\ pc q = r /\ step_in (S fuel) s' = Ok (s, w))).
  Proof.
    intros Ep Hf Hrows. unfold Step.step_over, next_run.
    cbn [Step.find_fn]. rewrite Ep, Hf. cbn [bind]. rewrite Ep.
    destruct rows as [|r0 rt] eqn:Erows; [contradiction|]. rewrite <- Erows in *.
    match goal with |- context [run_skip (S fuel) ?st ?sk ?pv ?j0] =>
      destruct (run_skip (S fuel) st sk pv j0) as [[j w']|c|c|] eqn:Er end;
      cbn [bind]; try discriminate.
    intros H. exists j, w'. split; [reflexivity|].
    destruct w'.
    - apply run_skip_spec in Er; [|lia|exists p; auto]. destruct Er as (_ & _ & []).
    - inversion H; subst. left. split; [reflexivity|]. left. eexists; eauto.
    - destruct (tr j) as [q|] eqn:Eq; [|discriminate].
      destruct ra as [r|].
      + destruct (N.eqb_spec (pc q) r) as [E|E].
        * destruct (find_place (pc q)) as [pl|]; [|discriminate].
          destruct (r_addr pl =? pc q).
          -- inversion H; subst. left. auto.
          -- right. split; [reflexivity|]. exists q, r. auto.
        * inversion H; subst. left. auto.
      + inversion H; subst. left. auto.
    - discriminate.
  Qed.

  (* next never stops inside a callee of the activation it started in -- unless the function
     returned first and the fix-up `step` (a step_in from the caller, which is allowed to enter
     the caller's next callee) took over *)
  Theorem C03_next_not_in_callee fuel i p fn ra users s :
    tr i = Some p -> find_func (pc p) = Some fn -> rows <> [] ->
    next_temps rows fn ra users <> [] ->
    step_over (S fuel) ra users i = Ok (s, WDone) ->
    not_in_callee tr i (s, WDone) \/
    (exists s' q r, tr s' = Some q /\ ra = Some r /\ pc q = r /\ cfa p <= cfa q /\
                    (i < s')%nat /\ step_in (S fuel) s' = Ok (s, WDone)).
  Proof.
    intros Ep Hf Hrows Hne H.
    destruct (C03_next_decompose _ _ _ _ _ _ _ _ Ep Hf Hrows H) as (s' & w' & Er & Hcase).
    destruct Hcase as [[Hs Hw]|[Hw' (q & r & Eq & Hra & Hpc & Hsi)]].
    - subst s'. left. destruct Hw as [(sg & Hw1 & Hd)|Hw1]; [congruence|]. subst w'.
      destruct (C03_next _ _ _ _ _ _ _ Ep Hne Er) as (_ & (q & Eq & Hc & _) & _).
      intros p1 q1 E1 E2. cbn [fst] in E2. rewrite Ep in E1. rewrite Eq in E2.
      inversion E1; inversion E2; subst. exact Hc.
    - subst w'. right. destruct (C03_next _ _ _ _ _ _ _ Ep Hne Er) as (Hlt & (q' & Eq' & Hc & _) & _).
      rewrite Eq in Eq'. inversion Eq'; subst q'.
      exists s', q, r. auto 10.
  Qed.

End StepProofs.

(* ================================================================== *)
(* boolean forms of the hypotheses, for finite traces                  *)

Definition arrive_b (l : list pt) (j : nat) : bool :=
  match j with
  | O => false
  | S j' => match nth_error l j', nth_error l j with
            | Some p, Some q => negb (pc p =? pc q)
            | _, _ => false
            end
  end.

Lemma arrive_b_ok l j : arrive_b l j = true -> arrive (trace_of_list l) j.
Proof.
  unfold arrive_b, arrive, trace_of_list. destruct j as [|j']; [discriminate|].
  cbn [pred]. destruct (nth_error l j') as [p|]; [|discriminate].
  destruct (nth_error l (S j')) as [q|]; [|discriminate].
  intros H. exists p, q. repeat split; try lia.
  intros E. rewrite E, N.eqb_refl in H. discriminate.
Qed.

Lemma arrive_b_complete l j : arrive (trace_of_list l) j -> arrive_b l j = true.
Proof.
  unfold arrive_b, arrive, trace_of_list. intros (p & q & Ep & Eq & Hne & Hpos).
  destruct j as [|j']; [lia|]. cbn [pred] in Ep. rewrite Ep, Eq.
  destruct (N.eqb_spec (pc p) (pc q)); [contradiction|reflexivity].
Qed.

Definition stepi_hyp_b (l : list pt) (i : nat) : bool :=
  match nth_error l i, nth_error l (S i) with
  | Some p, Some q => negb (pc q =? pc p) && (sig q =? 0)
  | _, _ => false
  end.

Lemma stepi_hyp_b_ok l i : stepi_hyp_b l i = true -> stepi_hyp (trace_of_list l) i.
Proof.
  unfold stepi_hyp_b, stepi_hyp, trace_of_list.
  destruct (nth_error l i) as [p|]; [|discriminate].
  destruct (nth_error l (S i)) as [q|]; [|discriminate].
  intros H. apply andb_prop in H. destruct H as [H1 H2].
  exists p, q. repeat split; auto.
  - intros E. rewrite E, N.eqb_refl in H1. discriminate.
  - apply N.eqb_eq. exact H2.
Qed.

(* finish: R is the return point of i's activation, the thread arrives there, at r *)
Definition finish_pre_b (l : list pt) (i R : nat) (r : N) : bool :=
  match nth_error l i, nth_error l R with
  | Some p, Some q =>
      Nat.ltb i R && (cfa p <? cfa q) && (pc q =? r) && arrive_b l R &&
      forallb (fun k => match nth_error l k with
                        | Some qk => cfa qk <=? cfa p
                        | None => false
                        end) (seq (S i) (R - S i))
  | _, _ => false
  end.

Lemma finish_pre_b_ok l i R r : finish_pre_b l i R r = true -> finish_pre (trace_of_list l) i R r.
Proof.
  unfold finish_pre_b, finish_pre, return_point, trace_of_list.
  destruct (nth_error l i) as [p|] eqn:Ep; [|discriminate].
  destruct (nth_error l R) as [q|] eqn:Eq; [|discriminate].
  intros H. repeat (apply andb_prop in H; destruct H as [H ?]).
  apply Nat.ltb_lt in H. rewrite forallb_forall in H0.
  assert (Hin : forall k, (i < k < R)%nat -> In k (seq (S i) (R - S i))) by (intros k Hk; apply in_seq; lia).
  split; [|split; [apply arrive_b_ok; assumption|]].
  - exists p. split; [reflexivity|]. split; [exact H|]. split.
    + exists q. split; [reflexivity|]. apply N.ltb_lt. assumption.
    + intros k qk Hk Ek. specialize (H0 k (Hin k Hk)). rewrite Ek in H0. apply N.leb_le. exact H0.
  - exists q. split; [reflexivity|]. apply N.eqb_eq. assumption.
Qed.

(* ================================================================== *)
(* refutations that remain                                             *)

(* stepi on a self-jump (`jmp .`, what `loop {}` compiles to): single_step re-steps while the
   pc has not changed, so it never returns *)
Definition spin : trace := fun _ => Some {| pc := 0x1000; cfa := 0x7000; sig := 0 |}.

Lemma spin_single_step ec : forall f j, single_step spin ec f 0x1000 j = OutOfFuel.
Proof.
  induction f as [|f IH]; intros j; cbn [single_step]; [reflexivity|].
  cbn [spin sig pc]. change (0 =? 0) with true. cbn [negb]. rewrite N.eqb_refl. apply IH.
Qed.

Theorem C03_stepi_refuted :
  exists (t : trace) (i : nat), (forall j, t j <> None) /\ forall ec fuel, stepi t ec fuel i = OutOfFuel.
Proof.
  exists spin, O. split; [intros j; discriminate|].
  intros ec fuel. unfold stepi, sstep. cbn [spin pc bind]. rewrite spin_single_step. reflexivity.
Qed.

(* the same hang for step (step_in): every fuel *)
Theorem C03_step_selfjump_refuted :
  forall ec fuel, step_in spin [] [] [] false ec fuel O = OutOfFuel.
Proof.
  intros ec fuel. unfold step_in. destruct fuel as [|f]; [reflexivity|].
  cbn [find_start spin]. unfold find_place, in_unit. cbn [existsb pc].
  unfold sstep. cbn [spin pc]. rewrite spin_single_step. reflexivity.
Qed.

(* ---- a recursive program ----
   fact at [0x1000,0x1100): prologue [0x1000,0x1008), lines 2 (if), 3 (call fact(n-1)),
   4 (r*n), 5 (closing brace / return); return address of the recursive call 0x1050 (middle of
   line 3's row at 0x1040).  main at [0x2000,0x2100), return address of fact in main 0x2010. *)
Definition R_rows : list row :=
  [ {| r_addr := 0x1000; r_file := 1; r_line := 1; r_stmt := true |};
    {| r_addr := 0x1008; r_file := 1; r_line := 2; r_stmt := true |};
    {| r_addr := 0x1020; r_file := 1; r_line := 3; r_stmt := true |};
    {| r_addr := 0x1060; r_file := 1; r_line := 4; r_stmt := true |};
    {| r_addr := 0x1080; r_file := 1; r_line := 5; r_stmt := true |};
    {| r_addr := 0x2000; r_file := 1; r_line := 8; r_stmt := true |};
    {| r_addr := 0x2008; r_file := 1; r_line := 9; r_stmt := true |};
    {| r_addr := 0x2020; r_file := 1; r_line := 10; r_stmt := true |} ].
Definition R_fact : func :=
  {| f_lo := 0x1000; f_hi := 0x1100; f_prolog_end := 0x1008; f_epilog := Some 0x1080; f_epilog_end := None;
     f_file := Some 1; f_inline := [] |}.
Definition R_main : func :=
  {| f_lo := 0x2000; f_hi := 0x2100; f_prolog_end := 0x2008; f_epilog := None; f_epilog_end := None;
     f_file := Some 1; f_inline := [] |}.
Definition R_funcs := [R_fact; R_main].
Definition R_units : list (N * N) := [(0x1000, 0x3000)].
Definition P (a c : N) : pt := {| pc := a; cfa := c; sig := 0 |}.

(* fact(2) [cfa 0x7f00, called from main] -> fact(1) [0x7e00] -> fact(0) [0x7d00] *)
Definition R_trace : list pt :=
  [ P 0x2008 0x8000;                                          (* 0  main: line 9, call fact(2) *)
    P 0x1000 0x7f00; P 0x1008 0x7f00; P 0x1020 0x7f00; P 0x1040 0x7f00;   (* 1-4  fact(2): line 3 at 3 *)
    P 0x1000 0x7e00; P 0x1008 0x7e00; P 0x1020 0x7e00; P 0x1040 0x7e00;   (* 5-8  fact(1): line 3 at 7 *)
    P 0x1000 0x7d00; P 0x1008 0x7d00; P 0x1080 0x7d00; P 0x1090 0x7d00;   (* 9-12 fact(0): base case, ret at 12 *)
    P 0x1050 0x7e00; P 0x1060 0x7e00; P 0x1080 0x7e00; P 0x1090 0x7e00;   (* 13-16 back in fact(1) *)
    P 0x1050 0x7f00; P 0x1060 0x7f00; P 0x1080 0x7f00; P 0x1090 0x7f00;   (* 17-20 back in fact(2) *)
    P 0x2010 0x8000; P 0x2020 0x8000 ].                                    (* 21-22 main *)

(* finish from fact(1) (position 7, caller = fact(2), return address 0x1050): fact(0) returns to
   0x1050 first (position 13, cfa 0x7e00 = the starting frame, not older: passed), the step ends
   at the real return point 17 in fact(2).  Before commit c5c41d3 it ended at 13. *)
Example finish_recursion_example :
  step_out (trace_of_list R_trace) 100 (Some 0x1050) [] 7 = Ok (17%nat, WDone).
Proof. vm_compute. reflexivity. Qed.

Example finish_pre_example : finish_pre_b R_trace 7 17 0x1050 = true.
Proof. vm_compute. reflexivity. Qed.

(* the general theorem applied to the recursive trace *)
Example finish_recursion_by_theorem s :
  step_out (trace_of_list R_trace) 100 (Some 0x1050) [] 7 = Ok (s, WDone) -> s = 17%nat.
Proof.
  apply (C03_finish (trace_of_list R_trace) 100 7 (P 0x1020 0x7e00) 17 0x1050 []).
  - reflexivity.
  - apply finish_pre_b_ok. vm_compute. reflexivity.
  - reflexivity.
Qed.

Example finish_complete_example :
  step_out (trace_of_list R_trace) 10 (Some 0x1050) [] 7 = Ok (17%nat, WDone).
Proof.
  apply (C03_finish_complete (trace_of_list R_trace) 10 7 (P 0x1020 0x7e00) 17 0x1050 []).
  - reflexivity.
  - apply finish_pre_b_ok. vm_compute. reflexivity.
  - reflexivity.
  - intros k Hk. assert (Hc : In k (seq 8 10)) by (apply in_seq; lia).
    cbn in Hc. repeat (destruct Hc as [<-|Hc]; [eexists; split; reflexivity|]). destruct Hc.
  - lia.
Qed.

(* next on line 3 of fact(2) (position 3, cfa 0x7f00): the statement rows hit by fact(1) and
   fact(0) are passed, the step ends on line 4 of fact(2) (position 18).  Before the fix: 6. *)
Example next_recursion_example :
  step_over (trace_of_list R_trace) R_rows R_funcs R_units false 0 100 (Some 0x2010) [] 3 = Ok (18%nat, WDone) /\
  not_in_callee (trace_of_list R_trace) 3 (18%nat, WDone).
Proof.
  split; [vm_compute; reflexivity|].
  intros p q E1 E2. unfold trace_of_list in *. cbn in E1, E2. inversion E1; inversion E2; subst.
  vm_compute. discriminate.
Qed.

(* ---- a user breakpoint on the next line ----
   straight-line function g at [0x3000,0x3100): lines 21, 22, 23; the user has a breakpoint on
   line 22 (0x3020) and gives `next` on line 21.  The row of line 22 gets no temporary
   breakpoint (one is already there), and while temporary breakpoints exist a user breakpoint
   hit is stepped over silently (tracer.rs:428-449): `next` lands on line 23. *)
Definition U_rows : list row :=
  [ {| r_addr := 0x3000; r_file := 1; r_line := 20; r_stmt := true |};
    {| r_addr := 0x3008; r_file := 1; r_line := 21; r_stmt := true |};
    {| r_addr := 0x3020; r_file := 1; r_line := 22; r_stmt := true |};
    {| r_addr := 0x3040; r_file := 1; r_line := 23; r_stmt := true |};
    {| r_addr := 0x3060; r_file := 1; r_line := 24; r_stmt := true |} ].
Definition U_g : func :=
  {| f_lo := 0x3000; f_hi := 0x3100; f_prolog_end := 0x3008; f_epilog := Some 0x3060; f_epilog_end := None;
     f_file := Some 1; f_inline := [] |}.
Definition U_trace : list pt :=
  [ P 0x3008 0x7000; P 0x3010 0x7000; P 0x3020 0x7000; P 0x3030 0x7000; P 0x3040 0x7000;
    P 0x3060 0x7000; P 0x3070 0x7000; P 0x2010 0x8000 ].

Theorem C03_next_userbp_refuted :
  exists l users i s,
    step_over (trace_of_list l) U_rows [U_g] [(0x3000, 0x3100)] false 0 100 (Some 0x2010) users i = Ok (s, WDone) /\
    (* position 2 is a statement boundary of the same activation on another line, passed *)
    (exists q rw, (i < 2 < s)%nat /\ nth_error l 2 = Some q /\ cfa q = 0x7000 /\
                  stmt_at U_rows (pc q) rw /\ r_line rw = 22 /\ arrive (trace_of_list l) 2) /\
    reported_place (trace_of_list l) U_rows [(0x3000, 0x3100)] s
      = Some {| r_addr := 0x3040; r_file := 1; r_line := 23; r_stmt := true |}.
Proof.
  exists U_trace, [0x3020], 0%nat, 4%nat. split; [vm_compute; reflexivity|]. split.
  - exists (P 0x3020 0x7000), {| r_addr := 0x3020; r_file := 1; r_line := 22; r_stmt := true |}.
    split; [lia|]. split; [reflexivity|]. split; [reflexivity|].
    split; [split; reflexivity|]. split; [reflexivity|].
    apply arrive_b_ok. vm_compute. reflexivity.
  - vm_compute. reflexivity.
Qed.

(* ---- further examples ---- *)

Example stepi_hyp_example : stepi_hyp_b R_trace 3 = true.
Proof. vm_compute. reflexivity. Qed.

(* finish from fact(0) (position 10) *)
Example finish_example :
  step_out (trace_of_list R_trace) 100 (Some 0x1050) [] 10 = Ok (13%nat, WDone).
Proof. vm_compute. reflexivity. Qed.

(* next on line 4 of fact(1) (position 14) *)
Example next_example :
  step_over (trace_of_list R_trace) R_rows R_funcs R_units false 0 100 (Some 0x1050) [] 14 = Ok (15%nat, WDone).
Proof. vm_compute. reflexivity. Qed.

(* step from line 3 of fact(2) enters fact(1) and stops on its first line after the prologue *)
Example step_in_example :
  step_in (trace_of_list R_trace) R_rows R_funcs R_units false 0 100 3 = Ok (6%nat, WDone).
Proof. vm_compute. reflexivity. Qed.

(* the process ends during the step: ProcessExit with the real status (here 3), no panic *)
Example stepi_exit_example :
  stepi (trace_of_list R_trace) 3 100 22 = Err (E_EXIT_CODE 3) /\
  step_in (trace_of_list R_trace) R_rows R_funcs R_units false 3 100 22 = Err (E_EXIT_CODE 3) /\
  step_over (trace_of_list R_trace) R_rows R_funcs R_units false 3 100 None [] 22 = Err E_EXIT /\
  step_out (trace_of_list R_trace) 100 (Some 0x9999) [] 22 = Err E_EXIT.
Proof. repeat split; vm_compute; reflexivity. Qed.

(* find_exact_place_by_pc on the first row of the unit: `p -= 1` with p = 0 *)
Example find_exact_first_row_panics :
  find_exact R_rows R_units true 0x1000 = Panic 30.
Proof. vm_compute. reflexivity. Qed.

(* the recursion case: what the repaired debugger does agrees with model and specification;
   the stop of the old code (0x1008 in the deeper frame) is a violation *)
Example case_example :
  step_check {| sc_trace := R_trace; sc_rows := R_rows; sc_funcs := R_funcs; sc_units := R_units;
                sc_start := 3; sc_kind := KNext; sc_ret := Some 0x2010; sc_users := [];
                sc_stop_pc := 0x1060; sc_stop_cfa := 0x7f00; sc_place := Some (1, 4) |} = 0 /\
  step_check {| sc_trace := R_trace; sc_rows := R_rows; sc_funcs := R_funcs; sc_units := R_units;
                sc_start := 3; sc_kind := KNext; sc_ret := Some 0x2010; sc_users := [];
                sc_stop_pc := 0x1008; sc_stop_cfa := 0x7e00; sc_place := Some (1, 2) |} = 2 /\
  step_check {| sc_trace := R_trace; sc_rows := R_rows; sc_funcs := R_funcs; sc_units := R_units;
                sc_start := 7; sc_kind := KFinish; sc_ret := Some 0x1050; sc_users := [];
                sc_stop_pc := 0x1050; sc_stop_cfa := 0x7f00; sc_place := Some (1, 3) |} = 0.
Proof. repeat split; vm_compute; reflexivity. Qed.
