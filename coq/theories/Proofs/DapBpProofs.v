(* C13 -- proofs about DapBp.v *)
From BS Require Import Model.Base.
From BS Require Import Model.DapBp.
From Coq Require Import Lia.
Open Scope N_scope.

(* ------------------------------------------------------------------------- *)
(** * Basic facts                                                              *)

Lemma addr_eqb_eq : forall x y, addr_eqb x y = true <-> x = y.
Proof.
  intros [a|a] [b|b]; cbn [addr_eqb]; split; intro H; try discriminate;
    try (apply N.eqb_eq in H; subst; reflexivity); try (inversion H; apply N.eqb_refl).
Qed.
Lemma addr_eqb_refl : forall x, addr_eqb x x = true.
Proof. intro; apply addr_eqb_eq; reflexivity. Qed.
Lemma addr_eq_dec : forall x y : addr, x = y \/ x <> y.
Proof.
  intros x y. destruct (addr_eqb x y) eqn:E.
  - left; apply addr_eqb_eq; exact E.
  - right; intro H; apply addr_eqb_eq in H; congruence.
Qed.

Lemma existsb_eqb_In : forall a l, existsb (N.eqb a) l = true <-> In a l.
Proof.
  intros a l; rewrite existsb_exists; split.
  - intros [x [Hi He]]. apply N.eqb_eq in He. subst. exact Hi.
  - intro H. exists a. split; [exact H | apply N.eqb_refl].
Qed.

Lemma nodupb_NoDup : forall l, nodupb l = true -> NoDup l.
Proof.
  induction l as [|x t IH]; cbn [nodupb]; intro H; [constructor|].
  apply andb_true_iff in H. destruct H as [H1 H2]. constructor.
  - intro Hin. apply existsb_eqb_In in Hin. rewrite Hin in H1. discriminate.
  - apply IH; exact H2.
Qed.

Lemma NoDup_app_l : forall (A : Type) (l1 l2 : list A), NoDup (l1 ++ l2) -> NoDup l1.
Proof.
  induction l1 as [|x t IH]; intros l2 H; [constructor|].
  inversion H; subst. constructor.
  - intro Hi. apply H2. apply in_or_app. left; exact Hi.
  - eapply IH; eauto.
Qed.
Lemma NoDup_app_r : forall (A : Type) (l1 l2 : list A), NoDup (l1 ++ l2) -> NoDup l2.
Proof.
  induction l1 as [|x t IH]; intros l2 H; [exact H|].
  inversion H; subst. apply IH; assumption.
Qed.
Lemma NoDup_app_disj : forall (A : Type) (l1 l2 : list A) x, NoDup (l1 ++ l2) -> In x l1 -> In x l2 -> False.
Proof.
  induction l1 as [|y t IH]; intros l2 x H H1 H2; [inversion H1|].
  inversion H; subst. destruct H1 as [->|H1].
  - apply H4. apply in_or_app. right; exact H2.
  - eapply IH; eauto.
Qed.

(* ------------------------------------------------------------------------- *)
(** * Registry key sets                                                        *)

Definition en_keys (d : dbg) : list N := map fst (d_en d).

Lemma en_remove_keys : forall a l x, In x (map fst (en_remove a l)) <-> In x (map fst l) /\ x <> a.
Proof.
  intros a l x. unfold en_remove. rewrite !in_map_iff. split.
  - intros [e [He Hi]]. apply filter_In in Hi. destruct Hi as [Hi Hn]. split.
    + exists e; split; assumption.
    + subst x. intro Heq. rewrite Heq, N.eqb_refl in Hn. discriminate.
  - intros [[e [He Hi]] Hn]. exists e. split; [exact He|]. apply filter_In. split; [exact Hi|].
    subst x. destruct (N.eqb_spec (fst e) a); [contradiction|reflexivity].
Qed.
Lemma en_insert_keys : forall a n l x, In x (map fst (en_insert a n l)) <-> x = a \/ In x (map fst l).
Proof.
  intros a n l x. unfold en_insert. cbn [map fst In]. rewrite en_remove_keys. split.
  - intros [H|[H _]]; [left; symmetry; exact H | right; exact H].
  - intros [H|H]; [left; symmetry; exact H|].
    destruct (N.eq_dec x a); [left; symmetry; assumption | right; split; assumption].
Qed.
Lemma dis_remove_keys : forall k l x, In x (map fst (dis_remove k l)) <-> In x (map fst l) /\ x <> k.
Proof.
  intros k l x. unfold dis_remove. rewrite !in_map_iff. split.
  - intros [e [He Hi]]. apply filter_In in Hi. destruct Hi as [Hi Hn]. split.
    + exists e; split; assumption.
    + subst x. intro Heq. rewrite Heq, addr_eqb_refl in Hn. discriminate.
  - intros [[e [He Hi]] Hn]. exists e. split; [exact He|]. apply filter_In. split; [exact Hi|].
    subst x. destruct (addr_eqb (fst e) k) eqn:E; [apply addr_eqb_eq in E; contradiction|reflexivity].
Qed.
Lemma dis_insert_keys : forall k n l x, In x (map fst (dis_insert k n l)) <-> x = k \/ In x (map fst l).
Proof.
  intros k n l x. unfold dis_insert. cbn [map fst In]. rewrite dis_remove_keys. split.
  - intros [H|[H _]]; [left; symmetry; exact H | right; exact H].
  - intros [H|H]; [left; symmetry; exact H|].
    destruct (addr_eq_dec x k); [left; symmetry; assumption | right; split; assumption].
Qed.

(* ------------------------------------------------------------------------- *)
(** * The debugger side while the debuggee is running                          *)
Section Inv.
  Variable rl : N -> N -> list N.
  Variable rf : N -> list N.
  Variable va : N -> bool.
  Variable wo : N -> bool.
  Variable bias : N.

  Definition IP (d : dbg) : Prop := d_phase d = InProgress /\ d_dis d = [].

  Lemma IP_in_progress : forall d, IP d -> in_progress d = true.
  Proof. intros d [H _]. unfold in_progress. rewrite H. reflexivity. Qed.

  Lemma dbg_remove_IP : forall d k, IP d ->
    IP (dbg_remove d k) /\ d_num (dbg_remove d k) = d_num d /\
    forall x, In x (en_keys (dbg_remove d k)) <-> In x (en_keys d) /\ k <> Rel x.
  Proof.
    intros d k [Hp Hd]. unfold dbg_remove. rewrite Hd. cbn [dis_has existsb].
    destruct k as [a|g].
    - split; [split; [exact Hp | exact Hd]|]. split; [reflexivity|].
      intro x. unfold en_keys, with_en. cbn [d_en]. rewrite en_remove_keys.
      split; intros [H1 H2]; split; try exact H1; intro E; apply H2; congruence.
    - split; [split; assumption|]. split; [reflexivity|]. intro x. split.
      + intro H; split; [exact H | discriminate].
      + intros [H _]; exact H.
  Qed.

  Lemma remove_addrs_IP : forall l d, IP d ->
    IP (remove_addrs l d) /\
    forall x, In x (en_keys (remove_addrs l d)) <-> In x (en_keys d) /\ ~ In (Rel x) l.
  Proof.
    unfold remove_addrs.
    induction l as [|k t IH]; intros d Hd; cbn [fold_left].
    - split; [exact Hd|]. intro x. split; [intro H; split; [exact H | intros []] | intros [H _]; exact H].
    - destruct (dbg_remove_IP d k Hd) as [H1 [_ H2]].
      destruct (IH _ H1) as [H3 H4]. split; [exact H3|].
      intro x. rewrite H4, H2. cbn [In]. split.
      + intros [[Ha Hb] Hc]. split; [exact Ha|]. intros [E|E]; [exact (Hb E) | exact (Hc E)].
      + intros [Ha Hb]. split; [split; [exact Ha|]|]; intro E; apply Hb; [left|right]; exact E.
  Qed.

  Lemma remove_records_flat : forall rs d, remove_records rs d = remove_addrs (flat_map r_addrs rs) d.
  Proof.
    unfold remove_records, remove_addrs.
    induction rs as [|r t IH]; intro d; cbn [fold_left flat_map]; [reflexivity|].
    rewrite fold_left_app. apply IH.
  Qed.

  Lemma add_place_IP : forall g d, IP d ->
    IP (add_place bias g d) /\
    forall x, In x (en_keys (add_place bias g d)) <-> x = bias + g \/ In x (en_keys d).
  Proof.
    intros g d Hd. unfold add_place. rewrite (IP_in_progress d Hd). destruct Hd as [Hp Hdis].
    split; [split; assumption|]. intro x. unfold en_keys. cbn [d_en]. apply en_insert_keys.
  Qed.

  Lemma add_places_IP : forall gs d, IP d ->
    IP (add_places bias gs d) /\
    forall x, In x (en_keys (add_places bias gs d)) <-> In x (map (N.add bias) gs) \/ In x (en_keys d).
  Proof.
    induction gs as [|g t IH]; intros d Hd; cbn [add_places map In].
    - split; [exact Hd|]. intro x; split; [intro H; right; exact H | intros [[]|H]; exact H].
    - destruct (add_place_IP g d Hd) as [H1 H2]. destruct (IH _ H1) as [H3 H4].
      split; [exact H3|]. intro x. rewrite H4, H2. split.
      + intros [H|[H|H]]; [left; right; exact H | left; left; symmetry; exact H | right; exact H].
      + intros [[H|H]|H]; [right; left; symmetry; exact H | left; exact H | right; right; exact H].
  Qed.

  Lemma view_addrs_IP : forall d gs, IP d -> view_addrs bias d gs = map Rel (map (N.add bias) gs).
  Proof.
    intros d gs Hd. unfold view_addrs. rewrite (IP_in_progress d Hd). rewrite map_map. reflexivity.
  Qed.

  Lemma first_only_single : forall l : list addr, (length l <= 1)%nat -> first_only l = l.
  Proof. intros [|x [|y t]] H; cbn in *; try reflexivity; lia. Qed.

  Lemma set_lines_IP : forall src bps d id d2 rs, IP d ->
    set_lines rl bias src bps d id = (d2, rs) ->
    IP d2 /\
    (forall x, In x (en_keys d2) <-> In x (flat_map (line_locs rl bias src) bps) \/ In x (en_keys d)) /\
    (forallb (fun b => N.of_nat (length (rl src (fst b))) <=? 1) bps = true ->
       flat_map r_addrs rs = map Rel (flat_map (line_locs rl bias src) bps)).
  Proof.
    induction bps as [|[line o] t IH]; intros d id d2 rs Hd Hs; cbn [set_lines] in Hs.
    - inversion Hs; subst. split; [exact Hd|]. split.
      + intro x; cbn [flat_map In]. split; [intro H; right; exact H | intros [[]|H]; exact H].
      + reflexivity.
    - destruct (set_lines rl bias src t (add_places bias (rl src line) d) (id + 1)) as [d3 rs3] eqn:E.
      inversion Hs; subst d2 rs. clear Hs.
      destruct (add_places_IP (rl src line) d Hd) as [H1 H2].
      destruct (IH _ _ _ _ H1 E) as [H3 [H4 H5]].
      split; [exact H3|]. split.
      + intro x. rewrite H4, H2. cbn [flat_map]. rewrite in_app_iff. unfold line_locs at 2. cbn [fst]. tauto.
      + intro Hg. cbn [forallb fst] in Hg. apply andb_true_iff in Hg. destruct Hg as [Hg1 Hg2].
        cbn [flat_map]. unfold new_rec at 1. cbn [r_addrs]. rewrite (H5 Hg2).
        rewrite map_app. f_equal. rewrite (view_addrs_IP d _ Hd).
        unfold line_locs. cbn [fst]. apply first_only_single. rewrite !map_length.
        apply N.leb_le in Hg1. lia.
  Qed.

  Lemma set_fns_IP : forall bps d id d2 rs, IP d ->
    set_fns rf bias bps d id = (d2, rs) ->
    IP d2 /\
    (forall x, In x (en_keys d2) <-> In x (flat_map (fn_locs rf bias) bps) \/ In x (en_keys d)) /\
    flat_map r_addrs rs = map Rel (flat_map (fn_locs rf bias) bps).
  Proof.
    induction bps as [|[name o] t IH]; intros d id d2 rs Hd Hs; cbn [set_fns] in Hs.
    - inversion Hs; subst. split; [exact Hd|]. split.
      + intro x; cbn [flat_map In]. split; [intro H; right; exact H | intros [[]|H]; exact H].
      + reflexivity.
    - set (gs := match name with Some f => rf f | None => [] end) in *.
      destruct (set_fns rf bias t (add_places bias gs d) (id + 1)) as [d3 rs3] eqn:E.
      inversion Hs; subst d2 rs. clear Hs.
      destruct (add_places_IP gs d Hd) as [H1 H2].
      destruct (IH _ _ _ _ H1 E) as [H3 [H4 H5]].
      assert (Hl : fn_locs rf bias (name, o) = map (N.add bias) gs).
      { unfold fn_locs, gs. cbn [fst]. destruct name; reflexivity. }
      split; [exact H3|]. split.
      + intro x. rewrite H4, H2. cbn [flat_map]. rewrite in_app_iff, Hl. tauto.
      + cbn [flat_map]. unfold new_rec at 1. cbn [r_addrs]. rewrite H5, map_app, Hl.
        f_equal. apply view_addrs_IP; exact Hd.
  Qed.

  Lemma set_instrs_IP : forall bps d id d2 rs, IP d ->
    set_instrs va bias bps d id = (d2, rs) ->
    IP d2 /\
    (forall x, In x (en_keys d2) <-> In x (flat_map (ins_locs va bias) bps) \/ In x (en_keys d)) /\
    flat_map r_addrs rs = map Rel (flat_map (ins_locs va bias) bps).
  Proof.
    induction bps as [|[ref o] t IH]; intros d id d2 rs Hd Hs; cbn [set_instrs] in Hs.
    - inversion Hs; subst. split; [exact Hd|]. split.
      + intro x; cbn [flat_map In]. split; [intro H; right; exact H | intros [[]|H]; exact H].
      + reflexivity.
    - destruct (match ref with Some a => dbg_set_addr va bias d a | None => (d, []) end) as [d1 addrs] eqn:E1.
      destruct (set_instrs va bias t d1 (id + 1)) as [d3 rs3] eqn:E.
      inversion Hs; subst d2 rs. clear Hs.
      assert (H12 : IP d1 /\ (forall x, In x (en_keys d1) <-> In x (ins_locs va bias (ref, o)) \/ In x (en_keys d))
                    /\ addrs = map Rel (ins_locs va bias (ref, o))).
      { unfold ins_locs. cbn [fst]. destruct ref as [a|].
        - unfold dbg_set_addr in E1. rewrite (IP_in_progress d Hd) in E1.
          destruct (valid va bias a); inversion E1; subst d1 addrs.
          + destruct Hd as [Hp Hdis]. split; [split; assumption|]. split; [|reflexivity].
            intro x. unfold en_keys. cbn [d_en]. rewrite en_insert_keys. cbn [In]. intuition.
          + split; [exact Hd|]. split; [|reflexivity]. intro x. cbn [In]. tauto.
        - inversion E1; subst. split; [exact Hd|]. split; [|reflexivity]. intro x. cbn [In]. tauto. }
      destruct H12 as [H1 [H2 Ha]].
      destruct (IH _ _ _ _ H1 E) as [H3 [H4 H5]].
      split; [exact H3|]. split.
      + intro x. rewrite H4, H2. cbn [flat_map]. rewrite in_app_iff. tauto.
      + cbn [flat_map]. unfold new_rec at 1. cbn [r_addrs]. rewrite H5, map_app, Ha. reflexivity.
  Qed.

  (** ** exit / restart: disable_all and enable_all *)
  Definition is_glob (k : addr) : Prop := exists g, k = Glob g.

  Lemma disable_list_keys : forall l dis k,
    In k (map fst (disable_list bias l dis)) <->
    In k (map fst dis) \/ exists a, In a (map fst l) /\ k = Glob (a - bias).
  Proof.
    induction l as [|[a n] t IH]; intros dis k; cbn [disable_list map fst In].
    - split; [intro H; left; exact H | intros [H|[a [[] _]]]; exact H].
    - rewrite IH, dis_insert_keys. split.
      + intros [[H|H]|[b [Hb Hk]]].
        * right. exists a. split; [left; reflexivity | exact H].
        * left; exact H.
        * right. exists b. split; [right; exact Hb | exact Hk].
      + intros [H|[b [[Hb|Hb] Hk]]].
        * left; right; exact H.
        * subst b. left; left; exact Hk.
        * right. exists b. split; assumption.
  Qed.

  Lemma disable_list_glob : forall l dis,
    Forall is_glob (map fst dis) -> Forall is_glob (map fst (disable_list bias l dis)).
  Proof.
    induction l as [|[a n] t IH]; intros dis H; cbn [disable_list]; [exact H|].
    apply IH. unfold dis_insert. cbn [map fst]. constructor; [eexists; reflexivity|].
    rewrite Forall_forall in *. intros k Hk. apply dis_remove_keys in Hk. apply H. tauto.
  Qed.

  Lemma enable_list_keys : forall l en x,
    Forall is_glob (map fst l) ->
    (In x (map fst (enable_list va bias l en)) <->
     In x (map fst en) \/ exists g, In (Glob g) (map fst l) /\ x = bias + g).
  Proof.
    induction l as [|[k n] t IH]; intros en x Hg.
    - cbn [enable_list map fst In]. split; [intro H; left; exact H | intros [H|[g [[] _]]]; exact H].
    - cbn [map fst] in Hg. apply Forall_cons_iff in Hg. destruct Hg as [[g0 Hk] Ht]. subst k.
      cbn [enable_list map fst In].
      rewrite (IH _ _ Ht), en_insert_keys. split.
      + intros [[H|H]|[g [Hi Hx]]].
        * right. exists g0. split; [left; reflexivity | exact H].
        * left; exact H.
        * right. exists g. split; [right; exact Hi | exact Hx].
      + intros [H|[g [[Hi|Hi] Hx]]].
        * left; right; exact H.
        * inversion Hi; subst g. left; left; exact Hx.
        * right. exists g. split; assumption.
  Qed.

  Definition regOK (d : dbg) (E : list N) : Prop :=
    match d_phase d with
    | InProgress => d_dis d = [] /\ forall x, In x (en_keys d) <-> In x E
    | Exited => d_en d = [] /\ Forall is_glob (map fst (d_dis d)) /\
                forall x, (exists g, In (Glob g) (map fst (d_dis d)) /\ x = bias + g) <-> In x E
    | Unload => d_en d = [] /\ d_dis d = [] /\ E = []
    end.

  Lemma regOK_exit : forall d E, d_phase d = InProgress -> (forall x, In x E -> bias <= x) ->
    regOK d E -> regOK (disable_all bias d Exited) E.
  Proof.
    intros d E Hp Hge H. unfold regOK in *. rewrite Hp in H. destruct H as [Hd Hk].
    cbn [disable_all d_phase d_en d_dis]. split; [reflexivity|]. rewrite Hd. split.
    - apply disable_list_glob. constructor.
    - intro x. split.
      + intros [g [Hi Hx]]. apply disable_list_keys in Hi. destruct Hi as [[]|[a [Ha Hg]]].
        inversion Hg; subst g. apply Hk in Ha. pose proof (Hge _ Ha).
        replace x with a by lia. exact Ha.
      + intro Hx. exists (x - bias). split.
        * apply disable_list_keys. right. exists x. split; [apply Hk; exact Hx | reflexivity].
        * pose proof (Hge _ Hx). lia.
  Qed.

  Lemma regOK_enable_exited : forall d E, d_phase d = Exited ->
    regOK d E -> regOK (enable_all va bias d) E.
  Proof.
    intros d E Hp H. unfold regOK in *. rewrite Hp in H. destruct H as [He [Hg Hk]].
    cbn [enable_all d_phase d_dis]. split; [reflexivity|].
    intro x. unfold en_keys. cbn [enable_all d_en]. rewrite (enable_list_keys _ _ _ Hg), He.
    cbn [map In]. rewrite <- Hk. tauto.
  Qed.

  Lemma regOK_enable_unload : forall d E, d_phase d = Unload ->
    regOK d E -> regOK (enable_all va bias d) E.
  Proof.
    intros d E Hp H. unfold regOK in *. rewrite Hp in H. destruct H as [He [Hd HE]].
    cbn [enable_all d_phase d_dis]. split; [reflexivity|].
    intro x. unfold en_keys. cbn [enable_all d_en]. rewrite Hd, He, HE. cbn. tauto.
  Qed.

  Lemma regOK_restart : forall d E, d_phase d = InProgress -> (forall x, In x E -> bias <= x) ->
    regOK d E -> regOK (enable_all va bias (disable_all bias d Unload)) E.
  Proof.
    intros d E Hp Hge H.
    pose proof (regOK_exit d E Hp Hge H) as H1.
    pose proof (regOK_enable_exited (disable_all bias d Exited) E eq_refl H1) as H2.
    exact H2.
  Qed.

  Lemma regOK_locs : forall d E, regOK d E -> forall x, In x (reg_locs bias d) <-> In x E.
  Proof.
    intros d E H x. unfold regOK in H. unfold reg_locs. rewrite in_app_iff.
    destruct (d_phase d).
    - destruct H as [He [Hd HE]]. rewrite He, Hd, HE. cbn. tauto.
    - destruct H as [Hd Hk]. rewrite Hd. cbn [map In]. rewrite <- Hk. unfold en_keys. tauto.
    - destruct H as [He [Hg Hk]]. rewrite He. cbn [map In]. rewrite <- Hk. split.
      + intros [[]|H]. apply in_map_iff in H. destruct H as [e [Hx Hi]].
        assert (Hin : In (fst e) (map fst (d_dis d))) by (apply in_map; exact Hi).
        rewrite Forall_forall in Hg. destruct (Hg _ Hin) as [g Hgk].
        exists g. split; [rewrite <- Hgk; exact Hin|]. rewrite Hgk in Hx. cbn [dis_loc] in Hx. auto.
      + intros [g [Hi Hx]]. right. apply in_map_iff in Hi. destruct Hi as [e [He' Hi]].
        apply in_map_iff. exists e. split; [|exact Hi]. rewrite He'. cbn [dis_loc]. auto.
  Qed.

  (** ** per-source bookkeeping *)
  Definition srcA (e : N * list brec) : N * list addr := (fst e, flat_map r_addrs (snd e)).
  Definition srcE (pe : N * list (N * opts)) : N * list addr :=
    (fst pe, map Rel (flat_map (line_locs rl bias (fst pe)) (snd pe))).
  Definition Fsrc (l : list (N * list (N * opts))) : list N :=
    flat_map (fun e => flat_map (line_locs rl bias (fst e)) (snd e)) l.
  Definition Gsrc (src : N) (l : list (N * list (N * opts))) : list N :=
    match alist_get N.eqb l src with Some bps => flat_map (line_locs rl bias src) bps | None => [] end.
  Definition pfilter (src : N) (l : list (N * list (N * opts))) :=
    filter (fun e => negb (fst e =? src)) l.

  Lemma src_get_corr : forall src ls lp, map srcA ls = map srcE lp ->
    flat_map r_addrs (src_get src ls) = map Rel (Gsrc src lp).
  Proof.
    unfold src_get, Gsrc.
    induction ls as [|[s0 rs0] t IH]; intros [|[s1 b1] lp] H; cbn [map] in H; try discriminate.
    - reflexivity.
    - inversion H as [[Hs Ha Ht]]. cbn [fst snd] in *. subst s1. cbn [alist_get].
      destruct (src =? s0) eqn:E.
      + apply N.eqb_eq in E. subst s0. exact Ha.
      + apply IH. exact Ht.
  Qed.

  Lemma src_remove_corr : forall src ls lp, map srcA ls = map srcE lp ->
    map srcA (src_remove src ls) = map srcE (pfilter src lp).
  Proof.
    unfold src_remove, pfilter.
    induction ls as [|[s0 rs0] t IH]; intros [|[s1 b1] lp] H; cbn [map] in H; try discriminate.
    - reflexivity.
    - inversion H as [[Hs Ha Ht]]. cbn [fst snd] in *. subst s1. cbn [filter fst].
      destruct (negb (s0 =? src)); cbn [map]; [f_equal; [unfold srcA, srcE; cbn [fst snd]; f_equal; exact Ha|]|]; apply IH; exact Ht.
  Qed.

  Lemma pfilter_notin : forall src l, ~ In src (map fst l) -> pfilter src l = l.
  Proof.
    unfold pfilter. induction l as [|[s0 b0] t IH]; intro H; cbn [filter fst]; [reflexivity|].
    cbn [map fst In] in H. destruct (N.eqb_spec s0 src); [exfalso; apply H; left; assumption|].
    cbn [negb]. f_equal. apply IH. intro Hi. apply H. right; exact Hi.
  Qed.

  Lemma Fsrc_split : forall src l x, NoDup (map fst l) ->
    (In x (Fsrc l) <-> In x (Fsrc (pfilter src l)) \/ In x (Gsrc src l)).
  Proof.
    induction l as [|[s0 b0] t IH]; intros x Hn.
    - cbn. tauto.
    - cbn [map fst] in Hn. inversion Hn as [|? ? Hni Hnt]; subst.
      unfold Gsrc. cbn [alist_get]. destruct (N.eqb_spec src s0) as [->|Hne].
      + unfold pfilter. cbn [filter fst]. rewrite N.eqb_refl. cbn [negb].
        fold (pfilter s0 t). rewrite (pfilter_notin s0 t Hni).
        unfold Fsrc at 1. cbn [flat_map fst snd]. rewrite in_app_iff. fold (Fsrc t). tauto.
      + unfold pfilter. cbn [filter fst]. destruct (N.eqb_spec s0 src); [congruence|]. cbn [negb].
        fold (pfilter src t). unfold Fsrc at 1 2. cbn [flat_map fst snd]. rewrite !in_app_iff.
        fold (Fsrc t) (Fsrc (pfilter src t)). rewrite (IH x Hnt). unfold Gsrc. tauto.
  Qed.

  Lemma Fsrc_disj : forall src l x, NoDup (map fst l) -> NoDup (Fsrc l) ->
    In x (Gsrc src l) -> In x (Fsrc (pfilter src l)) -> False.
  Proof.
    induction l as [|[s0 b0] t IH]; intros x Hn Hd Hg Hf.
    - exact Hg.
    - cbn [map fst] in Hn. inversion Hn as [|? ? Hni Hnt]; subst.
      unfold Fsrc in Hd. cbn [flat_map fst snd] in Hd. fold (Fsrc t) in Hd.
      unfold Gsrc in Hg. cbn [alist_get] in Hg. unfold pfilter in Hf. cbn [filter fst] in Hf.
      destruct (N.eqb_spec src s0) as [->|Hne].
      + rewrite N.eqb_refl in Hf. cbn [negb] in Hf. fold (pfilter s0 t) in Hf.
        rewrite (pfilter_notin s0 t Hni) in Hf. exact (NoDup_app_disj _ _ _ _ Hd Hg Hf).
      + destruct (N.eqb_spec s0 src); [congruence|]. cbn [negb] in Hf. fold (pfilter src t) in Hf.
        unfold Fsrc in Hf. cbn [flat_map fst snd] in Hf. fold (Fsrc (pfilter src t)) in Hf.
        apply in_app_iff in Hf. fold (Gsrc src t) in Hg. destruct Hf as [Hf|Hf].
        * apply (NoDup_app_disj _ _ _ _ Hd Hf). apply (Fsrc_split src t x Hnt). right; exact Hg.
        * exact (IH x Hnt (NoDup_app_r _ _ _ Hd) Hg Hf).
  Qed.

  Lemma pfilter_keys : forall src bps l, NoDup (map fst l) ->
    NoDup (map fst ((src, bps) :: pfilter src l)).
  Proof.
    intros src bps l H. cbn [map fst]. constructor.
    - intro Hi. apply in_map_iff in Hi. destruct Hi as [e [He Hi]]. unfold pfilter in Hi.
      apply filter_In in Hi. destruct Hi as [_ Hi]. rewrite He, N.eqb_refl in Hi. discriminate.
    - induction l as [|[s0 b0] t IH]; [constructor|].
      cbn [map fst] in H. inversion H; subst. unfold pfilter. cbn [filter fst].
      destruct (negb (s0 =? src)); [|apply IH; assumption].
      cbn [map fst]. constructor; [|apply IH; assumption].
      intro Hi. apply in_map_iff in Hi. destruct Hi as [e [He Hi]]. apply filter_In in Hi.
      apply H2. apply in_map_iff. exists e. tauto.
  Qed.

  (** ** the invariant *)
  Notation EXP := (expected_locs rl rf va bias).

  Record Inv (s : sess) (p : spec_st) : Prop := mk_Inv {
    i_src : map srcA (s_src s) = map srcE (p_src p);
    i_fn : flat_map r_addrs (s_fn s) = map Rel (flat_map (fn_locs rf bias) (p_fn p));
    i_ins : flat_map r_addrs (s_ins s) = map Rel (flat_map (ins_locs va bias) (p_ins p));
    i_nd : NoDup (EXP p);
    i_keys : NoDup (map fst (p_src p));
    i_reg : regOK (s_dbg s) (EXP p)
  }.

  Lemma EXP_unfold : forall p, EXP p = Fsrc (p_src p) ++ flat_map (fn_locs rf bias) (p_fn p) ++ flat_map (ins_locs va bias) (p_ins p).
  Proof. reflexivity. Qed.

  Lemma EXP_ge_bias : forall p x, In x (EXP p) -> bias <= x.
  Proof.
    intros p x H. rewrite EXP_unfold in H. rewrite !in_app_iff in H. destruct H as [H|[H|H]].
    - unfold Fsrc in H. apply in_flat_map in H. destruct H as [e [_ H]].
      apply in_flat_map in H. destruct H as [b [_ H]]. unfold line_locs in H.
      apply in_map_iff in H. destruct H as [g [Hg _]]. lia.
    - apply in_flat_map in H. destruct H as [b [_ H]]. unfold fn_locs in H.
      destruct (fst b); [|inversion H]. apply in_map_iff in H. destruct H as [g [Hg _]]. lia.
    - apply in_flat_map in H. destruct H as [b [_ H]]. unfold ins_locs in H.
      destruct (fst b) as [a|]; [|inversion H]. destruct (valid va bias a) eqn:V; [|inversion H].
      destruct H as [H|[]]. subst x. unfold valid in V. apply andb_true_iff in V. destruct V as [_ V].
      apply N.leb_le in V. exact V.
  Qed.

  Lemma In_map_Rel : forall x l, In (Rel x) (map Rel l) <-> In x l.
  Proof.
    intros x l. rewrite in_map_iff. split.
    - intros [y [Hy Hi]]. inversion Hy; subst. exact Hi.
    - intro H. exists x. split; [reflexivity | exact H].
  Qed.

  Lemma remove_prev : forall prev K d, IP d -> flat_map r_addrs prev = map Rel K ->
    IP (remove_records prev d) /\
    forall x, In x (en_keys (remove_records prev d)) <-> In x (en_keys d) /\ ~ In x K.
  Proof.
    intros prev K d Hd HK. rewrite remove_records_flat, HK.
    destruct (remove_addrs_IP (map Rel K) d Hd) as [H1 H2]. split; [exact H1|].
    intro x. rewrite H2, In_map_Rel. tauto.
  Qed.

  Lemma regOK_IP : forall d E, d_phase d = InProgress -> regOK d E -> IP d /\ forall x, In x (en_keys d) <-> In x E.
  Proof. intros d E Hp H. unfold regOK in H. rewrite Hp in H. destruct H as [H1 H2]. split; [split; assumption | exact H2]. Qed.
  Lemma IP_regOK : forall d E, IP d -> (forall x, In x (en_keys d) <-> In x E) -> regOK d E.
  Proof. intros d E [Hp Hd] H. unfold regOK. rewrite Hp. split; assumption. Qed.

  (** ** each request preserves the invariant *)
  Lemma step_src_inv : forall s p src bps s' r,
    Inv s p -> d_phase (s_dbg s) = InProgress ->
    forallb (fun b => N.of_nat (length (rl src (fst b))) <=? 1) bps = true ->
    NoDup (EXP (spec_step p (SetSource src bps))) ->
    step rl rf va wo bias s (SetSource src bps) = Ok (s', r) ->
    Inv s' (spec_step p (SetSource src bps)) /\ d_phase (s_dbg s') = InProgress.
  Proof.
    intros s p src bps s' r HI Hp Hsl Hnd Hs. destruct HI as [Is If Ii Ind Ik Ir].
    cbn [step] in Hs. destruct (i64_max <? s_next s + N.of_nat (length bps)); [discriminate|].
    destruct (set_lines rl bias src bps (remove_records (src_get src (s_src s)) (s_dbg s)) (s_next s)) as [d2 rs] eqn:E.
    inversion Hs; subst s' r. clear Hs.
    destruct (regOK_IP _ _ Hp Ir) as [Hip Hkeys].
    destruct (remove_prev _ _ _ Hip (src_get_corr src _ _ Is)) as [H1 H2].
    destruct (set_lines_IP _ _ _ _ _ _ H1 E) as [H3 [H4 H5]].
    split; [|exact (proj1 H3)].
    constructor; cbn [s_src s_fn s_ins s_dbg spec_step p_src p_fn p_ins].
    - cbn [map]. f_equal.
      + unfold srcA, srcE. cbn [fst snd]. f_equal. apply H5. exact Hsl.
      + apply src_remove_corr. exact Is.
    - exact If.
    - exact Ii.
    - exact Hnd.
    - apply pfilter_keys. exact Ik.
    - apply IP_regOK; [exact H3|]. intro x. rewrite H4, H2, Hkeys.
      rewrite !EXP_unfold. cbn [p_src p_fn p_ins]. fold (pfilter src (p_src p)).
      unfold Fsrc at 2. cbn [flat_map fst snd]. fold (Fsrc (pfilter src (p_src p))).
      rewrite EXP_unfold in Ind. rewrite !in_app_iff.
      pose proof (Fsrc_split src (p_src p) x Ik) as Hsp.
      split.
      + intros [H|[[H|H] Hn]]; [tauto| |tauto]. apply Hsp in H. tauto.
      + intros [[H|H]|H]; [tauto| |].
        * right. split; [left; apply Hsp; left; exact H|].
          intro Hg. exact (Fsrc_disj src _ x Ik (NoDup_app_l _ _ _ Ind) Hg H).
        * right. split; [right; exact H|]. intro Hg.
          apply (NoDup_app_disj _ _ _ x Ind); [apply Hsp; right; exact Hg|]. apply in_or_app. exact H.
  Qed.

  Lemma step_fn_inv : forall s p bps s' r,
    Inv s p -> d_phase (s_dbg s) = InProgress ->
    NoDup (EXP (spec_step p (SetFunction bps))) ->
    step rl rf va wo bias s (SetFunction bps) = Ok (s', r) ->
    Inv s' (spec_step p (SetFunction bps)) /\ d_phase (s_dbg s') = InProgress.
  Proof.
    intros s p bps s' r HI Hp Hnd Hs. destruct HI as [Is If Ii Ind Ik Ir].
    cbn [step] in Hs. destruct (i64_max <? s_next s + N.of_nat (length bps)); [discriminate|].
    destruct (set_fns rf bias bps (remove_records (s_fn s) (s_dbg s)) (s_next s)) as [d2 rs] eqn:E.
    inversion Hs; subst s' r. clear Hs.
    destruct (regOK_IP _ _ Hp Ir) as [Hip Hkeys].
    destruct (remove_prev _ _ _ Hip If) as [H1 H2].
    destruct (set_fns_IP _ _ _ _ _ H1 E) as [H3 [H4 H5]].
    split; [|exact (proj1 H3)].
    constructor; cbn [s_src s_fn s_ins s_dbg spec_step p_src p_fn p_ins]; try assumption.
    apply IP_regOK; [exact H3|]. intro x. rewrite H4, H2, Hkeys.
    rewrite !EXP_unfold. cbn [p_src p_fn p_ins]. rewrite EXP_unfold in Ind. rewrite !in_app_iff.
    split; [tauto|]. intros [H|[H|H]]; [|tauto|].
    - right. split; [tauto|]. intro Hf. apply (NoDup_app_disj _ _ _ x Ind H). apply in_or_app. left; exact Hf.
    - right. split; [tauto|]. intro Hf. exact (NoDup_app_disj _ _ _ x (NoDup_app_r _ _ _ Ind) Hf H).
  Qed.

  Lemma step_ins_inv : forall s p bps s' r,
    Inv s p -> d_phase (s_dbg s) = InProgress ->
    NoDup (EXP (spec_step p (SetInstruction bps))) ->
    step rl rf va wo bias s (SetInstruction bps) = Ok (s', r) ->
    Inv s' (spec_step p (SetInstruction bps)) /\ d_phase (s_dbg s') = InProgress.
  Proof.
    intros s p bps s' r HI Hp Hnd Hs. destruct HI as [Is If Ii Ind Ik Ir].
    cbn [step] in Hs. destruct (i64_max <? s_next s + N.of_nat (length bps)); [discriminate|].
    destruct (set_instrs va bias bps (remove_records (s_ins s) (s_dbg s)) (s_next s)) as [d2 rs] eqn:E.
    inversion Hs; subst s' r. clear Hs.
    destruct (regOK_IP _ _ Hp Ir) as [Hip Hkeys].
    destruct (remove_prev _ _ _ Hip Ii) as [H1 H2].
    destruct (set_instrs_IP _ _ _ _ _ H1 E) as [H3 [H4 H5]].
    split; [|exact (proj1 H3)].
    constructor; cbn [s_src s_fn s_ins s_dbg spec_step p_src p_fn p_ins]; try assumption.
    apply IP_regOK; [exact H3|]. intro x. rewrite H4, H2, Hkeys.
    rewrite !EXP_unfold. cbn [p_src p_fn p_ins]. rewrite EXP_unfold in Ind. rewrite !in_app_iff.
    split; [tauto|]. intros [H|[H|H]]; [| |tauto].
    - right. split; [tauto|]. intro Hf. apply (NoDup_app_disj _ _ _ x Ind H). apply in_or_app. right; exact Hf.
    - right. split; [tauto|]. intro Hf. exact (NoDup_app_disj _ _ _ x (NoDup_app_r _ _ _ Ind) H Hf).
  Qed.

  (* data breakpoints never touch the breakpoint registry *)
  Definition core (d : dbg) := (d_phase d, d_en d, d_dis d).
  Lemma regOK_core : forall d d' E, core d = core d' -> regOK d E -> regOK d' E.
  Proof.
    intros d d' E H. unfold core in H. inversion H as [[Hp He Hd]].
    unfold regOK, en_keys. rewrite Hp, He, Hd. tauto.
  Qed.
  Lemma remove_wps_core : forall (m : list (N * N)) d,
    core (fold_left (fun d e => dbg_remove_wp d (fst e)) m d) = core d.
  Proof. induction m as [|e t IH]; intro d; cbn [fold_left]; [reflexivity|]. rewrite IH. reflexivity. Qed.
  Lemma set_datas_core : forall bps d id m d2 m2 rsp,
    set_datas wo bps d id m = (d2, m2, rsp) -> core d2 = core d.
  Proof.
    induction bps as [|b t IH]; intros d id m d2 m2 rsp H; cbn [set_datas] in H.
    - inversion H; reflexivity.
    - destruct b as [a|].
      + destruct (dbg_set_wp wo d a) as [d1|] eqn:Ew.
        * destruct (set_datas wo t d1 (id + 1) _) as [[d3 m3] r3] eqn:E. inversion H; subst.
          rewrite (IH _ _ _ _ _ _ E). unfold dbg_set_wp in Ew.
          destruct (in_progress d && wo a && negb (existsb (N.eqb a) (d_wps d)) && (N.of_nat (length (d_wps d)) <? 4));
            inversion Ew; reflexivity.
        * destruct (set_datas wo t d (id + 1) m) as [[d3 m3] r3] eqn:E. inversion H; subst. eapply IH; eauto.
      + destruct (set_datas wo t d (id + 1) m) as [[d3 m3] r3] eqn:E. inversion H; subst. eapply IH; eauto.
  Qed.

  (* hits only change hit counters *)
  Lemma bump_first_addrs : forall k rs rs' b, bump_first k rs = Some (rs', b) -> map r_addrs rs' = map r_addrs rs.
  Proof.
    induction rs as [|r t IH]; intros rs' b H; cbn [bump_first] in H; [discriminate|].
    destruct (rec_has k r).
    - inversion H; subst. reflexivity.
    - destruct (bump_first k t) as [[t' b']|] eqn:E; [|discriminate]. inversion H; subst.
      cbn [map]. f_equal. eapply IH; eauto.
  Qed.
  Lemma flat_map_addrs : forall rs rs', map r_addrs rs' = map r_addrs rs -> flat_map r_addrs rs' = flat_map r_addrs rs.
  Proof. intros rs rs' H. rewrite !flat_map_concat_map, H. reflexivity. Qed.
  Lemma bump_src_addrs : forall k l l' b, bump_src k l = Some (l', b) -> map srcA l' = map srcA l.
  Proof.
    induction l as [|[src rs] t IH]; intros l' b H; cbn [bump_src] in H; [discriminate|].
    destruct (bump_first k rs) as [[rs' b']|] eqn:E.
    - inversion H; subst. cbn [map]. f_equal. unfold srcA. cbn [fst snd]. f_equal.
      apply flat_map_addrs. eapply bump_first_addrs; eauto.
    - destruct (bump_src k t) as [[t' b']|] eqn:E2; [|discriminate]. inversion H; subst.
      cbn [map]. f_equal. eapply IH; eauto.
  Qed.
  Lemma record_hit_inv : forall s k s' b p, record_hit s k = Some (s', b) -> Inv s p -> Inv s' p /\ s_dbg s' = s_dbg s.
  Proof.
    intros s k s' b p H [Is If Ii Ind Ik Ir]. unfold record_hit in H.
    destruct (bump_src k (s_src s)) as [[l b1]|] eqn:E1.
    { inversion H; subst. split; [|reflexivity]. constructor; cbn [s_src s_fn s_ins s_dbg]; try assumption.
      rewrite (bump_src_addrs _ _ _ _ E1). exact Is. }
    destruct (bump_first k (s_fn s)) as [[l b1]|] eqn:E2.
    { inversion H; subst. split; [|reflexivity]. constructor; cbn [s_src s_fn s_ins s_dbg]; try assumption.
      rewrite (flat_map_addrs _ _ (bump_first_addrs _ _ _ _ E2)). exact If. }
    destruct (bump_first k (s_ins s)) as [[l b1]|] eqn:E3; [|discriminate].
    inversion H; subst. split; [|reflexivity]. constructor; cbn [s_src s_fn s_ins s_dbg]; try assumption.
    rewrite (flat_map_addrs _ _ (bump_first_addrs _ _ _ _ E3)). exact Ii.
  Qed.

  Definition next_phase (q : req) (ph : phase) : phase :=
    match q, ph with
    | Start, Unload => InProgress
    | Restart, _ => InProgress
    | Exit, InProgress => Exited
    | _, _ => ph
    end.

  Lemma step_other_inv : forall s p q s' r,
    is_bp_set q = false -> Inv s p -> step rl rf va wo bias s q = Ok (s', r) ->
    Inv s' (spec_step p q) /\ d_phase (s_dbg s') = next_phase q (d_phase (s_dbg s)).
  Proof.
    intros s p q s' r Hq HI Hs. pose proof HI as [Is If Ii Ind Ik Ir].
    destruct q as [src bps|bps|bps|bps| | | |a cv]; try discriminate; cbn [spec_step next_phase].
    - (* SetData *)
      cbn [step] in Hs. destruct (i64_max <? s_next s + N.of_nat (length bps)); [discriminate|].
      destruct (set_datas wo bps _ (s_next s) []) as [[d2 m] rsp] eqn:E. inversion Hs; subst s' r.
      assert (Hc : core (s_dbg s) = core d2).
      { rewrite (set_datas_core _ _ _ _ _ _ _ E), remove_wps_core. reflexivity. }
      split.
      + constructor; cbn [s_src s_fn s_ins s_dbg]; try assumption. eapply regOK_core; eauto.
      + cbn [s_dbg]. unfold core in Hc. inversion Hc. destruct (d_phase (s_dbg s)); reflexivity.
    - (* Start *)
      cbn [step] in Hs. destruct (d_phase (s_dbg s)) eqn:Hp; inversion Hs; subst s' r.
      + split; [|reflexivity]. constructor; cbn [with_dbg s_src s_fn s_ins s_dbg]; try assumption.
        apply regOK_enable_unload; assumption.
      + split; [exact HI | exact Hp].
      + split; [exact HI | exact Hp].
    - (* Restart *)
      cbn [step] in Hs. destruct (d_phase (s_dbg s)) eqn:Hp; inversion Hs; subst s' r.
      + split; [|reflexivity]. constructor; cbn [with_dbg s_src s_fn s_ins s_dbg]; try assumption.
        apply regOK_enable_unload; assumption.
      + split; [|reflexivity]. constructor; cbn [with_dbg s_src s_fn s_ins s_dbg]; try assumption.
        apply regOK_restart; try assumption. apply EXP_ge_bias.
      + split; [|reflexivity]. constructor; cbn [with_dbg s_src s_fn s_ins s_dbg]; try assumption.
        apply regOK_enable_exited; assumption.
    - (* Exit *)
      cbn [step] in Hs. destruct (d_phase (s_dbg s)) eqn:Hp; inversion Hs; subst s' r.
      + split; [exact HI | exact Hp].
      + split; [|reflexivity]. constructor; cbn [with_dbg s_src s_fn s_ins s_dbg]; try assumption.
        apply regOK_exit; try assumption. apply EXP_ge_bias.
      + split; [exact HI | exact Hp].
    - (* Hit *)
      cbn [step] in Hs.
      assert (Hph : forall ph : phase, match ph with Unload => ph | InProgress => ph | Exited => ph end = ph)
        by (intros []; reflexivity).
      destruct (in_progress (s_dbg s) && en_has a (d_en (s_dbg s))).
      + destruct (record_hit s (Rel a)) as [[s1 b]|] eqn:E.
        * destruct (decide b cv) as [st o]. inversion Hs; subst s' r.
          destruct (record_hit_inv _ _ _ _ p E HI) as [H1 H2]. split; [exact H1|]. rewrite H2.
          destruct (d_phase (s_dbg s)); reflexivity.
        * inversion Hs; subst s' r. split; [exact HI|]. destruct (d_phase (s_dbg s)); reflexivity.
      + inversion Hs; subst s' r. split; [exact HI|]. destruct (d_phase (s_dbg s)); reflexivity.
  Qed.

  (** ** whole histories *)
  Lemma Inv_init : forall n0, Inv (sess_init n0) spec_init.
  Proof.
    intro n0. constructor.
    - reflexivity.
    - reflexivity.
    - reflexivity.
    - constructor.
    - constructor.
    - unfold regOK. cbn. auto.
  Qed.

  Lemma run_inv : forall h s p s' rs,
    Inv s p -> guard_from rl rf va bias (d_phase (s_dbg s)) p h = true ->
    run rl rf va wo bias s h = Ok (s', rs) -> Inv s' (fold_left spec_step h p).
  Proof.
    induction h as [|q t IH]; intros s p s' rs HI Hg Hr.
    - cbn in Hr. inversion Hr; subst. exact HI.
    - cbn [run] in Hr. destruct (step rl rf va wo bias s q) as [[s1 r1]| | |] eqn:Es; cbn [bind] in Hr; try discriminate.
      cbn [fst snd] in Hr.
      destruct (run rl rf va wo bias s1 t) as [[s2 r2]| | |] eqn:Er; cbn [bind] in Hr; try discriminate.
      cbn [fst snd] in Hr. inversion Hr; subst s' rs. clear Hr.
      cbn [guard_from] in Hg. apply andb_true_iff in Hg. destruct Hg as [Hg1 Hg2].
      fold (next_phase q (d_phase (s_dbg s))) in Hg2.
      cbn [fold_left].
      assert (Hstep : Inv s1 (spec_step p q) /\ d_phase (s_dbg s1) = next_phase q (d_phase (s_dbg s))).
      { destruct (is_bp_set q) eqn:Eq.
        - apply andb_true_iff in Hg1. destruct Hg1 as [Hg1 Hnd]. apply andb_true_iff in Hg1.
          destruct Hg1 as [Hph Hsl]. apply nodupb_NoDup in Hnd.
          assert (Hp : d_phase (s_dbg s) = InProgress) by (destruct (d_phase (s_dbg s)); try discriminate; reflexivity).
          destruct q; try discriminate; cbn [next_phase]; rewrite Hp.
          + eapply step_src_inv; eauto.
          + eapply step_fn_inv; eauto.
          + eapply step_ins_inv; eauto.
        - eapply step_other_inv; eauto. }
      destruct Hstep as [HI1 Hp1]. rewrite <- Hp1 in Hg2. eapply IH; eauto.
  Qed.

  (** C13_replace_partial: for every history in which all breakpoint-setting requests arrive
      while the debuggee runs, every line has at most one location and no two requested
      breakpoints share a location, the registry's locations are exactly those of the latest
      sets -- across any interleaving with restart, exit and hits. *)
  Theorem C13_replace_partial : forall n0 h s rs,
    guard rl rf va bias h = true ->
    run rl rf va wo bias (sess_init n0) h = Ok (s, rs) ->
    forall x, In x (reg_locs bias (s_dbg s)) <-> In x (EXP (spec_run h)).
  Proof.
    intros n0 h s rs Hg Hr. apply regOK_locs. apply i_reg.
    eapply run_inv; [apply Inv_init | exact Hg | exact Hr].
  Qed.

  (* under the same guard a trap at any expected location always finds a record holding it *)
  Lemma bump_first_found : forall k rs rs' b, bump_first k rs = Some (rs', b) -> In k (r_addrs b).
  Proof.
    induction rs as [|r t IH]; intros rs' b H; cbn [bump_first] in H; [discriminate|].
    destruct (rec_has k r) eqn:E.
    - inversion H; subst. unfold rec_has in E. apply existsb_exists in E. destruct E as [y [Hy He]].
      apply addr_eqb_eq in He. subst y. exact Hy.
    - destruct (bump_first k t) as [[t' b']|] eqn:E2; [|discriminate]. inversion H; subst. eapply IH; reflexivity.
  Qed.
  Lemma bump_src_found : forall k l l' b, bump_src k l = Some (l', b) -> In k (r_addrs b).
  Proof.
    induction l as [|[src rs] t IH]; intros l' b H; cbn [bump_src] in H; [discriminate|].
    destruct (bump_first k rs) as [[rs' b']|] eqn:E.
    - inversion H; subst. eapply bump_first_found; eauto.
    - destruct (bump_src k t) as [[t' b']|] eqn:E2; [|discriminate]. inversion H; subst. eapply IH; reflexivity.
  Qed.
  Lemma bump_first_some : forall k rs, In k (flat_map r_addrs rs) -> bump_first k rs <> None.
  Proof.
    induction rs as [|r t IH]; intro H; cbn [flat_map] in H; [inversion H|].
    cbn [bump_first]. destruct (rec_has k r) eqn:E; [discriminate|].
    apply in_app_iff in H. destruct H as [H|H].
    - exfalso. unfold rec_has in E. assert (existsb (addr_eqb k) (r_addrs r) = true); [|congruence].
      apply existsb_exists. exists k. split; [exact H | apply addr_eqb_refl].
    - specialize (IH H). destruct (bump_first k t) as [[? ?]|]; [discriminate | congruence].
  Qed.
  Lemma bump_src_some : forall k l, In k (flat_map snd (map srcA l)) -> bump_src k l <> None.
  Proof.
    induction l as [|[src rs] t IH]; intro H; cbn [map flat_map] in H; [inversion H|].
    cbn [bump_src]. apply in_app_iff in H. unfold srcA at 1 in H. cbn [fst snd] in H.
    destruct (bump_first k rs) as [[rs' b]|] eqn:E; [discriminate|].
    destruct H as [H|H].
    - exfalso. exact (bump_first_some k rs H E).
    - specialize (IH H). destruct (bump_src k t) as [[? ?]|]; [discriminate | congruence].
  Qed.

  Lemma Fsrc_addrs : forall lp x, In x (Fsrc lp) -> In (Rel x) (flat_map snd (map srcE lp)).
  Proof.
    induction lp as [|[s0 b0] t IH]; intros x H; [inversion H|].
    unfold Fsrc in H. cbn [flat_map fst snd] in H. fold (Fsrc t) in H. cbn [map flat_map].
    apply in_app_iff in H. apply in_or_app. destruct H as [H|H].
    - left. unfold srcE. cbn [fst snd]. apply In_map_Rel. exact H.
    - right. apply IH. exact H.
  Qed.

  Theorem C13_hit_consults_record_partial : forall n0 h s rs x,
    guard rl rf va bias h = true ->
    run rl rf va wo bias (sess_init n0) h = Ok (s, rs) ->
    In x (EXP (spec_run h)) ->
    exists s' b, record_hit s (Rel x) = Some (s', b) /\ In (Rel x) (r_addrs b).
  Proof.
    intros n0 h s rs x Hg Hr Hx.
    assert (HI : Inv s (spec_run h)) by (eapply run_inv; [apply Inv_init | exact Hg | exact Hr]).
    destruct HI as [Is If Ii _ _ _]. rewrite EXP_unfold in Hx. rewrite !in_app_iff in Hx.
    unfold record_hit.
    destruct (bump_src (Rel x) (s_src s)) as [[l b]|] eqn:E1.
    { eexists _, _. split; [reflexivity|]. eapply bump_src_found; eauto. }
    destruct Hx as [Hx|Hx].
    { exfalso. apply Fsrc_addrs in Hx. rewrite <- Is in Hx. exact (bump_src_some _ _ Hx E1). }
    destruct (bump_first (Rel x) (s_fn s)) as [[l b]|] eqn:E2.
    { eexists _, _. split; [reflexivity|]. eapply bump_first_found; eauto. }
    destruct Hx as [Hx|Hx].
    { exfalso. apply In_map_Rel in Hx. rewrite <- If in Hx. exact (bump_first_some _ _ Hx E2). }
    destruct (bump_first (Rel x) (s_ins s)) as [[l b]|] eqn:E3.
    { eexists _, _. split; [reflexivity|]. eapply bump_first_found; eauto. }
    exfalso. apply In_map_Rel in Hx. rewrite <- Ii in Hx. exact (bump_first_some _ _ Hx E3).
  Qed.

  (** ** `verified` *)
  Lemma view_addrs_nil : forall d gs, view_addrs bias d gs = [] <-> gs = [].
  Proof. intros d gs. unfold view_addrs. destruct (in_progress d); destruct gs; cbn; split; intro H; try reflexivity; discriminate. Qed.

  Definition nonempty {A} (l : list A) : bool := match l with [] => false | _ => true end.

  Lemma set_lines_verified : forall src bps d id d2 rs,
    set_lines rl bias src bps d id = (d2, rs) ->
    map fst (rsp_of rs) = map (fun b => nonempty (rl src (fst b))) bps.
  Proof.
    induction bps as [|[line o] t IH]; intros d id d2 rs H; cbn [set_lines] in H.
    - inversion H; reflexivity.
    - destruct (set_lines rl bias src t _ (id + 1)) as [d3 rs3] eqn:E. inversion H; subst.
      unfold rsp_of. cbn [map fst]. f_equal; [|eapply IH; eauto].
      unfold new_rec. cbn [r_addrs]. unfold view_addrs.
      destruct (in_progress d); destruct (rl src line); reflexivity.
  Qed.
  Lemma set_fns_verified : forall bps d id d2 rs,
    set_fns rf bias bps d id = (d2, rs) ->
    map fst (rsp_of rs) = map (fun b => nonempty (fn_locs rf bias b)) bps.
  Proof.
    induction bps as [|[name o] t IH]; intros d id d2 rs H; cbn [set_fns] in H.
    - inversion H; reflexivity.
    - destruct (set_fns rf bias t _ (id + 1)) as [d3 rs3] eqn:E. inversion H; subst.
      unfold rsp_of. cbn [map fst]. f_equal; [|eapply IH; eauto].
      unfold new_rec, fn_locs. cbn [r_addrs fst]. unfold view_addrs.
      destruct (in_progress d); destruct name as [f|]; try reflexivity; destruct (rf f); reflexivity.
  Qed.
  Lemma set_instrs_verified : forall bps d id d2 rs, in_progress d = true ->
    set_instrs va bias bps d id = (d2, rs) ->
    map fst (rsp_of rs) = map (fun b => nonempty (ins_locs va bias b)) bps.
  Proof.
    induction bps as [|[ref o] t IH]; intros d id d2 rs Hp H; cbn [set_instrs] in H.
    - inversion H; reflexivity.
    - destruct (match ref with Some a => dbg_set_addr va bias d a | None => (d, []) end) as [d1 addrs] eqn:E1.
      destruct (set_instrs va bias t d1 (id + 1)) as [d3 rs3] eqn:E. inversion H; subst.
      unfold rsp_of. cbn [map fst]. unfold ins_locs. cbn [fst].
      destruct ref as [a|].
      + unfold dbg_set_addr in E1. rewrite Hp in E1. destruct (valid va bias a); inversion E1; subst.
        * f_equal. eapply IH; [|eauto]. exact Hp.
        * f_equal. eapply IH; eauto.
      + inversion E1; subst. f_equal. eapply IH; eauto.
  Qed.

  (** `verified` is true exactly for the requested breakpoints that have a location:
      unconditionally for source and function breakpoints, and for instruction breakpoints
      set while the debuggee runs (see C13_instr_verified_refuted for the other phase). *)
  Theorem C13_verified_source : forall s src bps s' l,
    step rl rf va wo bias s (SetSource src bps) = Ok (s', RBps l) ->
    map fst l = map (fun b => nonempty (line_locs rl bias src b)) bps.
  Proof.
    intros s src bps s' l H. cbn [step] in H.
    destruct (i64_max <? s_next s + N.of_nat (length bps)); [discriminate|].
    destruct (set_lines rl bias src bps _ (s_next s)) as [d2 rs] eqn:E. inversion H; subst.
    rewrite (set_lines_verified _ _ _ _ _ _ E). apply map_ext. intro b. unfold line_locs.
    destruct (rl src (fst b)); reflexivity.
  Qed.
  Theorem C13_verified_function : forall s bps s' l,
    step rl rf va wo bias s (SetFunction bps) = Ok (s', RBps l) ->
    map fst l = map (fun b => nonempty (fn_locs rf bias b)) bps.
  Proof.
    intros s bps s' l H. cbn [step] in H.
    destruct (i64_max <? s_next s + N.of_nat (length bps)); [discriminate|].
    destruct (set_fns rf bias bps _ (s_next s)) as [d2 rs] eqn:E. inversion H; subst.
    exact (set_fns_verified _ _ _ _ _ E).
  Qed.

  Lemma remove_records_phase : forall rs d, d_phase (remove_records rs d) = d_phase d.
  Proof.
    intros rs d. rewrite remove_records_flat. unfold remove_addrs.
    generalize (flat_map r_addrs rs). intro l. revert d.
    induction l as [|k t IH]; intro d; cbn [fold_left]; [reflexivity|]. rewrite IH.
    unfold dbg_remove. destruct (dis_has k (d_dis d)); [reflexivity|]. destruct k; reflexivity.
  Qed.

  Theorem C13_verified_instruction_partial : forall s bps s' l,
    d_phase (s_dbg s) = InProgress ->
    step rl rf va wo bias s (SetInstruction bps) = Ok (s', RBps l) ->
    map fst l = map (fun b => nonempty (ins_locs va bias b)) bps.
  Proof.
    intros s bps s' l Hp H. cbn [step] in H.
    destruct (i64_max <? s_next s + N.of_nat (length bps)); [discriminate|].
    destruct (set_instrs va bias bps _ (s_next s)) as [d2 rs] eqn:E. inversion H; subst.
    refine (set_instrs_verified _ _ _ _ _ _ E). unfold in_progress.
    rewrite remove_records_phase, Hp. reflexivity.
  Qed.

  (** ** options: once the record is found, its decision is the specified one *)
  Theorem C13_options_record : forall id addrs o n cv,
    n + 1 < u64_lim -> (o_cond o = true -> cv <> None) ->
    fst (decide (bump (mk_rec id addrs (o_cond o) (parse_hit_opt (o_hit o)) (o_log o) n)) cv)
    = spec_stop o (n + 1) cv.
  Proof.
    intros id addrs o n cv Hn Hc. unfold bump. cbn [r_hits r_id r_addrs r_cond r_hit r_log].
    destruct (N.eqb_spec n (u64_lim - 1)) as [E|_]; [unfold u64_lim in *; lia|].
    unfold decide, spec_stop. cbn [r_cond r_hit r_log r_hits].
    destruct (o_cond o) eqn:Ec.
    - destruct cv as [[|]|]; [| reflexivity | exfalso; apply Hc; reflexivity].
      destruct (parse_hit_opt (o_hit o)) as [[e|e|e|e|e|raw]|]; cbn [hc_matches andb];
        try (destruct (o_log o); reflexivity);
        match goal with |- context [if ?c then _ else _] => destruct c end; cbn [andb fst]; destruct (o_log o); reflexivity.
    - destruct (parse_hit_opt (o_hit o)) as [[e|e|e|e|e|raw]|]; cbn [hc_matches andb];
        try (destruct (o_log o); reflexivity);
        match goal with |- context [if ?c then _ else _] => destruct c end; cbn [andb fst]; destruct (o_log o); reflexivity.
  Qed.

End Inv.

(* ------------------------------------------------------------------------- *)
(** * HitCondition: parse / matches against the arithmetic meaning             *)

Lemma trim_start_ws : forall w x, all_ws w -> trim_start (w ++ x) = trim_start x.
Proof.
  induction w as [|b t IH]; intros x H; [reflexivity|].
  inversion H; subst. cbn [app trim_start]. rewrite H2. apply IH. assumption.
Qed.
Lemma trim_start_id : forall b t, is_ws b = false -> trim_start (b :: t) = b :: t.
Proof. intros b t H. cbn [trim_start]. rewrite H. reflexivity. Qed.

Lemma all_ws_rev : forall w, all_ws w -> all_ws (rev w).
Proof. intros w H. unfold all_ws in *. rewrite Forall_forall in *. intros x Hx. apply H. apply in_rev. exact Hx. Qed.

Lemma trim_core : forall w1 x w3 b t b' t',
  all_ws w1 -> all_ws w3 -> x = b :: t -> is_ws b = false -> x = t' ++ [b'] -> is_ws b' = false ->
  trim (w1 ++ x ++ w3) = x.
Proof.
  intros w1 x w3 b t b' t' H1 H3 Hx Hb Hx' Hb'. unfold trim, trim_end.
  rewrite trim_start_ws by exact H1.
  rewrite Hx at 1. cbn [app]. rewrite trim_start_id by exact Hb.
  change (b :: t ++ w3) with ((b :: t) ++ w3). rewrite <- Hx.
  rewrite rev_app_distr. rewrite trim_start_ws by (apply all_ws_rev; exact H3).
  rewrite Hx'. rewrite rev_app_distr. cbn [rev app]. rewrite trim_start_id by exact Hb'.
  change (b' :: rev t') with (rev [b'] ++ rev t'). rewrite <- rev_app_distr. apply rev_involutive.
Qed.

Lemma digits_val_fold : forall s acc, all_digits s ->
  digits_val acc s = Some (fold_left (fun a b => a * 10 + (b - 48)) s acc).
Proof.
  induction s as [|b t IH]; intros acc H; [reflexivity|].
  inversion H; subst. cbn [digits_val fold_left]. rewrite H2. apply IH. assumption.
Qed.
Lemma digits_val_inv : forall s acc v, digits_val acc s = Some v ->
  all_digits s /\ v = fold_left (fun a b => a * 10 + (b - 48)) s acc.
Proof.
  induction s as [|b t IH]; intros acc v H; cbn [digits_val] in H.
  - inversion H. split; [constructor | reflexivity].
  - destruct (is_digit b) eqn:E; [|discriminate]. destruct (IH _ _ H) as [H1 H2].
    split; [constructor; assumption | exact H2].
Qed.

Lemma digit_not_ws : forall b, is_digit b = true -> is_ws b = false.
Proof.
  intros b H. unfold is_digit in H. apply andb_true_iff in H. destruct H as [H1 H2].
  apply N.leb_le in H1. apply N.leb_le in H2. unfold is_ws.
  destruct (N.eqb_spec b 32); [lia|]. destruct (N.leb_spec 9 b); destruct (N.leb_spec b 13); cbn; try reflexivity; lia.
Qed.
Lemma digit_range : forall b, is_digit b = true -> 48 <= b <= 57.
Proof.
  intros b H. unfold is_digit in H. apply andb_true_iff in H. destruct H as [H1 H2].
  apply N.leb_le in H1. apply N.leb_le in H2. lia.
Qed.
Lemma ws_range : forall b, is_ws b = true -> b = 32 \/ 9 <= b <= 13.
Proof.
  intros b H. unfold is_ws in H. apply orb_true_iff in H. destruct H as [H|H].
  - apply N.eqb_eq in H. left; exact H.
  - apply andb_true_iff in H. destruct H as [H1 H2]. apply N.leb_le in H1. apply N.leb_le in H2. right; lia.
Qed.

(* a number token: optional '+' and digits *)
Definition num_tok (x sign ds : bstr) : Prop :=
  x = sign ++ ds /\ (sign = [] \/ sign = [43]) /\ ds <> [] /\ all_digits ds.

Lemma num_tok_head : forall x sign ds, num_tok x sign ds ->
  exists b t, x = b :: t /\ is_ws b = false /\ b <> 60 /\ b <> 61 /\ b <> 62.
Proof.
  intros x sign ds [Hx [Hs [Hne Hd]]]. destruct Hs as [-> | ->].
  - destruct ds as [|b t]; [congruence|]. inversion Hd; subst. exists b, t.
    pose proof (digit_range _ H1). split; [reflexivity|]. split; [apply digit_not_ws; assumption|]. lia.
  - exists 43, ds. subst x. split; [reflexivity|]. split; [reflexivity|]. lia.
Qed.
Lemma num_tok_last : forall x sign ds, num_tok x sign ds ->
  exists t b, x = t ++ [b] /\ is_ws b = false.
Proof.
  intros x sign ds [Hx [Hs [Hne Hd]]]. destruct (exists_last Hne) as [t [b Hds]].
  exists (sign ++ t), b. subst x ds. rewrite app_assoc. split; [reflexivity|].
  apply digit_not_ws. unfold all_digits in Hd. rewrite Forall_forall in Hd. apply Hd.
  apply in_or_app. right. left. reflexivity.
Qed.
Lemma parse_u64_nonplus : forall b t, b <> 43 ->
  parse_u64 (b :: t) = match digits_val 0 (b :: t) with
                       | Some v => if v <? u64_lim then Some v else None
                       | None => None
                       end.
Proof.
  intros b t H. unfold parse_u64.
  destruct b as [|p]; [reflexivity|].
  do 6 (destruct p as [p|p|]; try reflexivity). congruence.
Qed.
Lemma num_tok_parse : forall x sign ds, num_tok x sign ds ->
  parse_u64 x = if dec_value ds <? u64_lim then Some (dec_value ds) else None.
Proof.
  intros x sign ds [Hx [Hs [Hne Hd]]]. destruct Hs as [-> | ->]; cbn [app] in Hx; subst x; [|unfold parse_u64].
  - destruct ds as [|b t]; [congruence|]. inversion Hd; subst.
    pose proof (digit_range _ H1).
    rewrite parse_u64_nonplus by lia. rewrite (digits_val_fold _ _ Hd). reflexivity.
  - destruct ds as [|b t]; [congruence|]. rewrite (digits_val_fold _ _ Hd). reflexivity.
Qed.

(* head of "<ws> number": never one of '<' '=' '>' *)
Lemma ws_num_head : forall w2 x sign ds, all_ws w2 -> num_tok x sign ds ->
  exists c r, w2 ++ x = c :: r /\ c <> 60 /\ c <> 61 /\ c <> 62.
Proof.
  intros w2 x sign ds Hw Hn. destruct w2 as [|c r].
  - destruct (num_tok_head _ _ _ Hn) as [b [t [Hx [_ H]]]]. exists b, t. cbn [app]. tauto.
  - inversion Hw; subst. exists c, (r ++ x). split; [reflexivity|].
    destruct (ws_range _ H1); lia.
Qed.

Lemma trim_ws_num : forall w2 x sign ds, all_ws w2 -> num_tok x sign ds -> trim (w2 ++ x) = x.
Proof.
  intros w2 x sign ds Hw Hn.
  destruct (num_tok_head _ _ _ Hn) as [b [t [Hx [Hb _]]]].
  destruct (num_tok_last _ _ _ Hn) as [t' [b' [Hx' Hb']]].
  rewrite <- (app_nil_r x) at 1. eapply trim_core; eauto. constructor.
Qed.

Ltac neq_head :=
  repeat match goal with
  | |- context [?a =? ?c] => destruct (N.eqb_spec a c); [congruence|]
  end.

(** Soundness: on every string of the documented syntax the parser yields the denoted
    comparison (so [matches] is its arithmetic meaning). *)
Theorem C13_hitcondition_sound : forall s o v,
  hc_denotes s o v -> hc_as_op (hc_parse s) = Some (o, v).
Proof.
  intros s o v [w1 [tok [w2 [sign [ds [w3 [Hs [H1 [H2 [H3 [Htok [Hsign [Hne [Hd [Hv Hlim]]]]]]]]]]]]]]].
  assert (Hn : num_tok (sign ++ ds) sign ds) by (split; [reflexivity | tauto]).
  set (x := sign ++ ds) in *.
  destruct (ws_num_head w2 x sign ds H2 Hn) as [c [r [Hcr [Hc0 [Hc1 Hc2]]]]].
  destruct (num_tok_last _ _ _ Hn) as [t' [b' [Hx' Hb']]].
  assert (Hp : parse_u64 x = Some v).
  { rewrite (num_tok_parse _ _ _ Hn). rewrite Hv. apply N.ltb_lt in Hlim. rewrite Hlim. reflexivity. }
  assert (Htr : trim (w2 ++ x) = x) by (eapply trim_ws_num; eauto).
  assert (Hs' : s = w1 ++ (tok ++ w2 ++ x) ++ w3).
  { rewrite Hs. unfold x. rewrite <- !app_assoc. reflexivity. }
  destruct tok as [|k0 tk].
  - (* no operator *)
    assert (Ho : o = OpEq) by (destruct o; cbn in Htok; intuition congruence). subst o.
    assert (Ht : trim s = x).
    { rewrite Hs'. cbn [app].
      replace (w1 ++ (w2 ++ x) ++ w3) with ((w1 ++ w2) ++ x ++ w3) by (rewrite <- !app_assoc; reflexivity).
      destruct (num_tok_head _ _ _ Hn) as [b [t [Hx [Hb _]]]].
      eapply trim_core; eauto. unfold all_ws in *. apply Forall_app. split; assumption. }
    unfold hc_parse. rewrite Ht.
    destruct (num_tok_head _ _ _ Hn) as [b [t [Hx [Hb [Hb0 [Hb1 Hb2]]]]]].
    rewrite Hx. cbn [strip_prefix]. neq_head. rewrite <- Hx.
    assert (Htx : trim x = x).
    { rewrite <- (app_nil_l x) at 1. eapply trim_ws_num; eauto. constructor. }
    rewrite Htx, Hp. reflexivity.
  - assert (Ht : trim s = (k0 :: tk) ++ w2 ++ x).
    { rewrite Hs'.
      apply (trim_core w1 _ w3 k0 (tk ++ w2 ++ x) b' ((k0 :: tk) ++ w2 ++ t') H1 H3).
      - reflexivity.
      - destruct o; cbn in Htok; intuition; try discriminate;
          match goal with H : _ = k0 :: tk |- _ => inversion H; reflexivity end.
      - rewrite Hx'. rewrite <- !app_assoc. reflexivity.
      - exact Hb'. }
    unfold hc_parse. rewrite Ht, Hcr.
    destruct o; cbn in Htok; intuition; try discriminate;
      match goal with H : _ = k0 :: tk |- _ => inversion H; subst k0 tk end;
      cbn [app strip_prefix]; repeat (progress (rewrite ?N.eqb_refl; neq_head)); rewrite <- ?Hcr, Htr, Hp; reflexivity.
Qed.

Theorem C13_hitcondition_matches : forall s o v n,
  hc_denotes s o v -> hc_matches (hc_parse s) n = op_eval o n v.
Proof.
  intros s o v n H. apply C13_hitcondition_sound in H.
  destruct (hc_parse s); cbn in H; inversion H; subst; reflexivity.
Qed.

(** Completeness: whenever the parser yields a comparison, the input has the documented
    syntax with that meaning; everything else is [Invalid] (which always matches). *)
Lemma trim_start_decomp : forall s, exists w, all_ws w /\ s = w ++ trim_start s.
Proof.
  induction s as [|b t IH].
  - exists []. split; [constructor | reflexivity].
  - cbn [trim_start]. destruct (is_ws b) eqn:E.
    + destruct IH as [w [Hw Ht]]. exists (b :: w). split; [constructor; assumption|].
      cbn [app]. f_equal. exact Ht.
    + exists []. split; [constructor | reflexivity].
Qed.
Lemma trim_end_decomp : forall s, exists w, all_ws w /\ s = trim_end s ++ w.
Proof.
  intro s. destruct (trim_start_decomp (rev s)) as [w [Hw Hs]]. exists (rev w).
  split; [apply all_ws_rev; exact Hw|]. unfold trim_end.
  rewrite <- rev_app_distr, <- Hs, rev_involutive. reflexivity.
Qed.
Lemma trim_decomp : forall s, exists w1 w3, all_ws w1 /\ all_ws w3 /\ s = w1 ++ trim s ++ w3.
Proof.
  intro s. destruct (trim_start_decomp s) as [w1 [H1 Hs1]].
  destruct (trim_end_decomp (trim_start s)) as [w3 [H3 Hs3]].
  exists w1, w3. split; [exact H1|]. split; [exact H3|]. unfold trim. rewrite <- Hs3. exact Hs1.
Qed.
Lemma strip_prefix_some : forall p s r, strip_prefix p s = Some r -> s = p ++ r.
Proof.
  induction p as [|x ps IH]; intros s r H; cbn [strip_prefix] in H.
  - inversion H; reflexivity.
  - destruct s as [|y ss]; [discriminate|]. destruct (N.eqb_spec x y); [|discriminate].
    subst y. cbn [app]. f_equal. apply IH. exact H.
Qed.
Lemma parse_u64_inv : forall x v, parse_u64 x = Some v ->
  exists sign ds, num_tok x sign ds /\ dec_value ds = v /\ v < u64_lim.
Proof.
  intros x v H. destruct x as [|b t]; [discriminate|].
  destruct (N.eq_dec b 43) as [->|Hb].
  - unfold parse_u64 in H. destruct t as [|c t']; [discriminate|].
    destruct (digits_val 0 (c :: t')) as [v0|] eqn:E; [|discriminate].
    destruct (N.ltb_spec v0 u64_lim); [|discriminate]. inversion H; subst v0.
    destruct (digits_val_inv _ _ _ E) as [Hd Hv].
    exists [43], (c :: t'). split; [|split; [symmetry; exact Hv | assumption]].
    split; [reflexivity|]. split; [right; reflexivity|]. split; [discriminate | exact Hd].
  - rewrite (parse_u64_nonplus b t Hb) in H.
    destruct (digits_val 0 (b :: t)) as [v0|] eqn:E; [|discriminate].
    destruct (N.ltb_spec v0 u64_lim); [|discriminate]. inversion H; subst v0.
    destruct (digits_val_inv _ _ _ E) as [Hd Hv].
    exists [], (b :: t). split; [|split; [symmetry; exact Hv | assumption]].
    split; [reflexivity|]. split; [left; reflexivity|]. split; [discriminate | exact Hd].
Qed.

Lemma num_denotes : forall s w1 w3 tok r o mk t0 o' v,
  all_ws w1 -> all_ws w3 -> s = w1 ++ (tok ++ r) ++ w3 -> In tok (op_toks o) ->
  (forall n, hc_as_op (mk n) = Some (o, n)) ->
  hc_as_op (match parse_u64 (trim r) with Some v0 => mk v0 | None => HInvalid t0 end) = Some (o', v) ->
  hc_denotes s o' v.
Proof.
  intros s w1 w3 tok r o mk t0 o' v H1 H3 Hs Htok Hmk H.
  destruct (parse_u64 (trim r)) as [v0|] eqn:E; [|discriminate].
  rewrite Hmk in H. inversion H; subst o' v0. clear H.
  destruct (parse_u64_inv _ _ E) as [sign [ds [[Hx [Hsg [Hne Hd]]] [Hv Hl]]]].
  destruct (trim_decomp r) as [wa [wb [Ha [Hb Hr]]]].
  exists w1, tok, wa, sign, ds, (wb ++ w3).
  split.
  { rewrite Hs, Hr, Hx. rewrite <- !app_assoc. reflexivity. }
  split; [exact H1|]. split; [exact Ha|]. split; [apply Forall_app; split; assumption|].
  split; [exact Htok|]. tauto.
Qed.

Theorem C13_hitcondition_complete : forall s o v,
  hc_as_op (hc_parse s) = Some (o, v) -> hc_denotes s o v.
Proof.
  intros s o v H. destruct (trim_decomp s) as [w1 [w3 [H1 [H3 Hs]]]].
  unfold hc_parse in H. set (t := trim s) in *.
  destruct (strip_prefix [62; 61] t) as [r|] eqn:E1.
  { apply strip_prefix_some in E1. rewrite E1 in Hs.
    refine (num_denotes s w1 w3 [62; 61] r OpGe HGe t o v H1 H3 Hs _ _ H); [left; reflexivity | intro; reflexivity]. }
  destruct (strip_prefix [60; 61] t) as [r|] eqn:E2.
  { apply strip_prefix_some in E2. rewrite E2 in Hs.
    refine (num_denotes s w1 w3 [60; 61] r OpLe HLe t o v H1 H3 Hs _ _ H); [left; reflexivity | intro; reflexivity]. }
  destruct (strip_prefix [61; 61] t) as [r|] eqn:E3.
  { apply strip_prefix_some in E3. rewrite E3 in Hs.
    refine (num_denotes s w1 w3 [61; 61] r OpEq HExact t o v H1 H3 Hs _ _ H); [right; right; left; reflexivity | intro; reflexivity]. }
  destruct (strip_prefix [61] t) as [r|] eqn:E4.
  { apply strip_prefix_some in E4. rewrite E4 in Hs.
    refine (num_denotes s w1 w3 [61] r OpEq HExact t o v H1 H3 Hs _ _ H); [right; left; reflexivity | intro; reflexivity]. }
  destruct (strip_prefix [62] t) as [r|] eqn:E5.
  { apply strip_prefix_some in E5. rewrite E5 in Hs.
    refine (num_denotes s w1 w3 [62] r OpGt HGt t o v H1 H3 Hs _ _ H); [left; reflexivity | intro; reflexivity]. }
  destruct (strip_prefix [60] t) as [r|] eqn:E6.
  { apply strip_prefix_some in E6. rewrite E6 in Hs.
    refine (num_denotes s w1 w3 [60] r OpLt HLt t o v H1 H3 Hs _ _ H); [left; reflexivity | intro; reflexivity]. }
  refine (num_denotes s w1 w3 [] t OpEq HExact t o v H1 H3 Hs _ _ H); [left; reflexivity | intro; reflexivity].
Qed.

(** The exact set of inputs that are rejected: [parse] never fails and never panics; it
    yields [Invalid] (which [matches] every hit, with a console message) exactly on the strings
    outside the syntax -- "%2", "0x10", "1_0", "> = 3", "2^64", "-1", "" ... *)
Theorem C13_hitcondition_invalid_iff : forall s,
  (exists raw, hc_parse s = HInvalid raw) <-> ~ exists o v, hc_denotes s o v.
Proof.
  intro s. split.
  - intros [raw H] [o [v Hd]]. apply C13_hitcondition_sound in Hd. rewrite H in Hd. discriminate.
  - intro Hn. destruct (hc_parse s) as [n|n|n|n|n|raw] eqn:E; try (eexists; reflexivity); exfalso; apply Hn.
    + exists OpEq, n. apply C13_hitcondition_complete. rewrite E. reflexivity.
    + exists OpGe, n. apply C13_hitcondition_complete. rewrite E. reflexivity.
    + exists OpGt, n. apply C13_hitcondition_complete. rewrite E. reflexivity.
    + exists OpLt, n. apply C13_hitcondition_complete. rewrite E. reflexivity.
    + exists OpLe, n. apply C13_hitcondition_complete. rewrite E. reflexivity.
Qed.

Theorem C13_hitcondition : forall s n,
  (forall o v, hc_denotes s o v -> hc_matches (hc_parse s) n = op_eval o n v) /\
  ((~ exists o v, hc_denotes s o v) -> hc_matches (hc_parse s) n = true).
Proof.
  intros s n. split.
  - intros o v H. apply C13_hitcondition_matches. exact H.
  - intro H. apply C13_hitcondition_invalid_iff in H. destruct H as [raw H]. rewrite H. reflexivity.
Qed.

(* ------------------------------------------------------------------------- *)
(** * Refutations of the full property (concrete witnesses)                    *)
(* Witness program: source file 1; line 10 has one location (global 100), line 20 belongs to
   a generic function with two instantiations (200 and 300); function name 7 starts at 100,
   function 8 at 500 and 600; load bias 4096. *)
Definition w_rl (src line : N) : list N :=
  if line =? 10 then [100] else if line =? 12 then [120] else if line =? 20 then [200; 300] else [].
Definition w_rf (f : N) : list N := if f =? 7 then [100] else if f =? 8 then [500; 600] else [].
Definition w_va (a : N) : bool := 4096 <=? a.
Definition w_bias : N := 4096.
Definition w_run := run w_rl w_rf w_va w_va w_bias (sess_init 1).
Definition w_exp (h : list req) := expected_locs w_rl w_rf w_va w_bias (spec_run h).
Definition w_locs (r : res (sess * list resp)) : option (list N) :=
  match r with Ok (s, _) => Some (reg_locs w_bias (s_dbg s)) | _ => None end.
Definition w_last (r : res (sess * list resp)) : option resp :=
  match r with Ok (_, rs) => Some (last rs RNone) | _ => None end.

Definition o_cond_only : opts := mk_opts true None false.
Definition o_log_only : opts := mk_opts false None true.
Definition o_hit2 : opts := mk_opts false (Some [50]) false.      (* hitCondition "2" *)

(** "replace" fails across the start of the program: the record made before
    configurationDone holds Address::Global(g); after the start the registry is keyed by the
    relocated address and remove_by_addr(Global g) finds nothing. *)
Theorem C13_phase_refuted :
  let h := [SetSource 1 [(10, no_opts)]; Start; SetSource 1 []] in
  w_exp h = [] /\ w_locs (w_run h) = Some [4196] /\ w_last (w_run h) = Some (RBps []).
Proof. vm_compute. repeat split. Qed.

(** options given before configurationDone (the standard client flow) are never consulted:
    the hit is looked up by Address::Relocated, the record holds Address::Global. *)
Theorem C13_phase_options_refuted :
  (* a false condition still stops *)
  w_last (w_run [SetSource 1 [(10, o_cond_only)]; Start; Hit 4196 (Some false)]) = Some (RHit true 0)
  /\ spec_stop o_cond_only 1 (Some false) = false
  (* a logpoint stops and logs nothing *)
  /\ w_last (w_run [SetSource 1 [(10, o_log_only)]; Start; Hit 4196 (Some true)]) = Some (RHit true 0)
  /\ spec_stop o_log_only 1 (Some true) = false
  (* hitCondition "2" stops at the first hit *)
  /\ w_last (w_run [SetSource 1 [(10, o_hit2)]; Start; Hit 4196 (Some true)]) = Some (RHit true 0)
  /\ spec_stop o_hit2 1 (Some true) = false
  (* the same three requests sent after the start behave as specified *)
  /\ w_last (w_run [Start; SetSource 1 [(10, o_cond_only)]; Hit 4196 (Some false)]) = Some (RHit false 0)
  /\ w_last (w_run [Start; SetSource 1 [(10, o_log_only)]; Hit 4196 (Some true)]) = Some (RHit false 1)
  /\ w_last (w_run [Start; SetSource 1 [(10, o_hit2)]; Hit 4196 (Some true)]) = Some (RHit false 0).
Proof. vm_compute. repeat split. Qed.

(** a line with two locations: both are installed, only the first is remembered; the second
    is never removed and ignores the options. *)
Theorem C13_multi_location_refuted :
  let h := [Start; SetSource 1 [(20, no_opts)]; SetSource 1 []] in
  w_exp h = [] /\ w_locs (w_run h) = Some [4396]
  /\ w_last (w_run [Start; SetSource 1 [(20, o_log_only)]; Hit 4396 (Some true)]) = Some (RHit true 0).
Proof. vm_compute. repeat split. Qed.

(** two requested breakpoints of different kinds at one address: clearing one kind removes
    the other kind's breakpoint, which stays reported as verified. *)
Theorem C13_shared_location_refuted :
  let h := [Start; SetSource 1 [(10, no_opts)]; SetFunction [(Some 7, no_opts)]; SetFunction []] in
  w_exp h = [4196] /\ w_locs (w_run h) = Some [].
Proof. vm_compute. repeat split. Qed.

(** after the debuggee exited the registry is keyed by Global addresses again while the
    records hold Relocated ones: an emptied set comes back at the next restart. *)
Theorem C13_exited_refuted :
  let h := [Start; SetSource 1 [(10, no_opts)]; Exit; SetSource 1 []; Restart] in
  w_exp h = [] /\ w_locs (w_run h) = Some [4196].
Proof. vm_compute. repeat split. Qed.

(** an instruction breakpoint set before the start is always answered verified, even at an
    address where nothing can be installed; it is dropped silently at the start. *)
Theorem C13_instr_verified_refuted :
  let h := [SetInstruction [(Some 5, no_opts)]; Start] in
  w_exp h = [] /\ w_locs (w_run h) = Some []
  /\ w_last (w_run [SetInstruction [(Some 5, no_opts)]]) = Some (RBps [(true, 1)]).
Proof. vm_compute. repeat split. Qed.

(** the guard of C13_replace_partial is satisfiable by a history with all kinds of request *)
Definition w_good : list req :=
  [Start; SetSource 1 [(10, o_cond_only); (12, o_hit2)]; SetFunction [(Some 8, o_log_only)];
   Hit 4196 (Some true); Restart; SetSource 1 [(12, no_opts)]; SetInstruction [(Some 4196, no_opts)];
   Exit; Restart; SetFunction []; Hit 4216 (Some true)].
Example guard_nonvacuous :
  guard w_rl w_rf w_va w_bias w_good = true /\ w_locs (w_run w_good) = Some [4196; 4216]
  /\ w_exp w_good = [4216; 4196].
Proof. vm_compute. repeat split. Qed.
(* the refuting histories are (and must be) rejected by the guard *)
Example guard_rejects :
  guard w_rl w_rf w_va w_bias [SetSource 1 [(10, no_opts)]; Start; SetSource 1 []] = false /\
  guard w_rl w_rf w_va w_bias [Start; SetSource 1 [(20, no_opts)]; SetSource 1 []] = false /\
  guard w_rl w_rf w_va w_bias [Start; SetSource 1 [(10, no_opts)]; SetFunction [(Some 7, no_opts)]; SetFunction []] = false.
Proof. vm_compute. repeat split. Qed.

(* HitCondition samples (bytes of the strings in the comments) *)
Example hc_samples :
  hc_parse [32; 62; 61; 32; 43; 53; 32] = HGe 5                       (* " >= +5 " *)
  /\ hc_parse [48] = HExact 0                                         (* "0": never matches, hits start at 1 *)
  /\ hc_parse [37; 50] = HInvalid [37; 50]                            (* "%2" *)
  /\ hc_parse [62; 32; 61; 51] = HInvalid [62; 32; 61; 51]            (* "> =3" *)
  /\ hc_parse [61; 62; 51] = HInvalid [61; 62; 51]                    (* "=>3" *)
  /\ hc_parse [45; 49] = HInvalid [45; 49]                            (* "-1" *)
  /\ hc_parse [49;56;52;52;54;55;52;52;48;55;51;55;48;57;53;53;49;54;49;53] = HExact 18446744073709551615
  /\ (exists r, hc_parse [49;56;52;52;54;55;52;52;48;55;51;55;48;57;53;53;49;54;49;54] = HInvalid r). (* 2^64 *)
Proof. vm_compute. repeat split. eexists; reflexivity. Qed.

(* the case checkers on hand-made observations: a run that behaves as specified and as the
   model (0), the model's own defective behaviour (2), a corrected implementation (1) *)
Definition ex_tables (steps : list (creq * resp * list (N * N * N))) : hist_case :=
  mk_hist_case [((1, 10), [100]); ((1, 20), [200; 300])] [(7, [100])] [4196] [] 4096 1 steps.
Example hist_check_examples :
  hist_check (ex_tables
    [ (CStart, RRun true, []);
      (CSetSource 1 [(10, mk_opts true None false)], RBps [(true, 1)], [(1, 0, 4196)]);
      (CHit 4196 (Some false), RHit false 0, [(1, 0, 4196)]);
      (CHit 4196 (Some true), RHit true 0, [(1, 0, 4196)]);
      (CSetSource 1 [], RBps [], []) ]) = 0
  /\ hist_check (ex_tables
    [ (CSetSource 1 [(10, mk_opts true None false)], RBps [(true, 1)], [(1, 1, 100)]);
      (CStart, RRun true, [(1, 0, 4196)]);
      (CHit 4196 (Some false), RHit true 0, [(1, 0, 4196)]);
      (CSetSource 1 [], RBps [], [(1, 0, 4196)]) ]) = 2
  /\ hist_check (ex_tables
    [ (CSetSource 1 [(10, mk_opts true None false)], RBps [(true, 1)], [(1, 1, 100)]);
      (CStart, RRun true, [(1, 0, 4196)]);
      (CHit 4196 (Some false), RHit false 0, [(1, 0, 4196)]);
      (CSetSource 1 [], RBps [], []) ]) = 1
  /\ hc_check ([32; 62; 61; 32; 43; 53; 32], 7, (1, 5), true) = 0
  /\ hc_check ([37; 50], 7, (5, 0), true) = 0.
Proof. vm_compute. repeat split. Qed.
