(* C13 -- proofs about DapBp.v *)
From BS Require Import Model.Base.
From BS Require Import Model.DapBp.
From Coq Require Import Lia Permutation.
Open Scope N_scope.

(* ------------------------------------------------------------------------- *)
(** * Basic facts                                                              *)

Lemma addr_eqb_eq : forall x y, addr_eqb x y = true <-> x = y.
Proof.
  intros [a|a] [b|b]; cbn [addr_eqb]; split; intro H; try discriminate;
    try (apply N.eqb_eq in H; subst; reflexivity); try (inversion H; apply N.eqb_refl).
Qed.
Lemma addr_eqb_refl : forall x, addr_eqb x x = true.
Proof. intro; apply addr_eqb_eq; reflexivity. Qed.
Lemma addr_eq_dec : forall x y : addr, x = y \/ x <> y.
Proof.
  intros x y. destruct (addr_eqb x y) eqn:E.
  - left; apply addr_eqb_eq; exact E.
  - right; intro H; apply addr_eqb_eq in H; congruence.
Qed.

Lemma existsb_eqb_In : forall a l, existsb (N.eqb a) l = true <-> In a l.
Proof.
  intros a l; rewrite existsb_exists; split.
  - intros [x [Hi He]]. apply N.eqb_eq in He. subst. exact Hi.
  - intro H. exists a. split; [exact H | apply N.eqb_refl].
Qed.

Lemma nodupb_NoDup : forall l, nodupb l = true -> NoDup l.
Proof.
  induction l as [|x t IH]; cbn [nodupb]; intro H; [constructor|].
  apply andb_true_iff in H. destruct H as [H1 H2]. constructor.
  - intro Hin. apply existsb_eqb_In in Hin. rewrite Hin in H1. discriminate.
  - apply IH; exact H2.
Qed.

Lemma NoDup_app_l : forall (A : Type) (l1 l2 : list A), NoDup (l1 ++ l2) -> NoDup l1.
Proof.
  induction l1 as [|x t IH]; intros l2 H; [constructor|].
  inversion H; subst. constructor.
  - intro Hi. apply H2. apply in_or_app. left; exact Hi.
  - eapply IH; eauto.
Qed.
Lemma NoDup_app_r : forall (A : Type) (l1 l2 : list A), NoDup (l1 ++ l2) -> NoDup l2.
Proof.
  induction l1 as [|x t IH]; intros l2 H; [exact H|].
  inversion H; subst. apply IH; assumption.
Qed.
Lemma NoDup_app_disj : forall (A : Type) (l1 l2 : list A) x, NoDup (l1 ++ l2) -> In x l1 -> In x l2 -> False.
Proof.
  induction l1 as [|y t IH]; intros l2 x H H1 H2; [inversion H1|].
  inversion H; subst. destruct H1 as [->|H1].
  - apply H4. apply in_or_app. right; exact H2.
  - eapply IH; eauto.
Qed.

(* ------------------------------------------------------------------------- *)
(** * Registry key sets                                                        *)

Definition en_keys (d : dbg) : list N := map fst (d_en d).

Lemma en_remove_keys : forall a l x, In x (map fst (en_remove a l)) <-> In x (map fst l) /\ x <> a.
Proof.
  intros a l x. unfold en_remove. rewrite !in_map_iff. split.
  - intros [e [He Hi]]. apply filter_In in Hi. destruct Hi as [Hi Hn]. split.
    + exists e; split; assumption.
    + subst x. intro Heq. rewrite Heq, N.eqb_refl in Hn. discriminate.
  - intros [[e [He Hi]] Hn]. exists e. split; [exact He|]. apply filter_In. split; [exact Hi|].
    subst x. destruct (N.eqb_spec (fst e) a); [contradiction|reflexivity].
Qed.
Lemma en_insert_keys : forall a n l x, In x (map fst (en_insert a n l)) <-> x = a \/ In x (map fst l).
Proof.
  intros a n l x. unfold en_insert. cbn [map fst In]. rewrite en_remove_keys. split.
  - intros [H|[H _]]; [left; symmetry; exact H | right; exact H].
  - intros [H|H]; [left; symmetry; exact H|].
    destruct (N.eq_dec x a); [left; symmetry; assumption | right; split; assumption].
Qed.
Lemma dis_remove_keys : forall k l x, In x (map fst (dis_remove k l)) <-> In x (map fst l) /\ x <> k.
Proof.
  intros k l x. unfold dis_remove. rewrite !in_map_iff. split.
  - intros [e [He Hi]]. apply filter_In in Hi. destruct Hi as [Hi Hn]. split.
    + exists e; split; assumption.
    + subst x. intro Heq. rewrite Heq, addr_eqb_refl in Hn. discriminate.
  - intros [[e [He Hi]] Hn]. exists e. split; [exact He|]. apply filter_In. split; [exact Hi|].
    subst x. destruct (addr_eqb (fst e) k) eqn:E; [apply addr_eqb_eq in E; contradiction|reflexivity].
Qed.
Lemma dis_insert_keys : forall k n l x, In x (map fst (dis_insert k n l)) <-> x = k \/ In x (map fst l).
Proof.
  intros k n l x. unfold dis_insert. cbn [map fst In]. rewrite dis_remove_keys. split.
  - intros [H|[H _]]; [left; symmetry; exact H | right; exact H].
  - intros [H|H]; [left; symmetry; exact H|].
    destruct (addr_eq_dec x k); [left; symmetry; assumption | right; split; assumption].
Qed.

(* ------------------------------------------------------------------------- *)
(** * The breakpoint registry as a set of (location, number) entries           *)
Section Inv.
  Variable rl : N -> N -> list N.
  Variable rf : N -> list N.
  Variable va : N -> bool.
  Variable wo : N -> bool.
  Variable bias : N.

  Notation loc := (dis_loc bias).
  Definition dis_ents (l : list (addr * N)) : list (N * N) := map (fun e => (loc (fst e), snd e)) l.
  Definition ents (d : dbg) : list (N * N) := d_en d ++ dis_ents (d_dis d).

  (* "a map": one value per key; "numbers identify": one key per number *)
  Definition kf {K} (l : list (K * N)) : Prop :=
    forall e e', In e l -> In e' l -> fst e = fst e' -> snd e = snd e'.
  Definition nf {K} (l : list (K * N)) : Prop :=
    forall e e', In e l -> In e' l -> snd e = snd e' -> fst e = fst e'.

  Record WF (d : dbg) : Prop := mk_WF {
    w_ip : d_phase d = InProgress -> d_dis d = [];
    w_nip : d_phase d <> InProgress -> d_en d = [];
    w_kf_en : kf (d_en d); w_nf_en : nf (d_en d);
    w_kf_dis : kf (d_dis d); w_nf_dis : nf (d_dis d);
    w_lt : forall e, In e (ents d) -> snd e < d_num d;
    w_val : forall a n, In (Rel a, n) (d_dis d) -> valid va bias a = true
  }.

  Lemma phase_dec : forall p : phase, p = InProgress \/ p <> InProgress.
  Proof. intros []; [right; discriminate | left; reflexivity | right; discriminate]. Qed.

  Lemma in_progress_true : forall d, in_progress d = true <-> d_phase d = InProgress.
  Proof. intro d. unfold in_progress. destruct (d_phase d); cbn; split; intro H; try reflexivity; discriminate. Qed.
  Lemma in_progress_false : forall d, in_progress d = false <-> d_phase d <> InProgress.
  Proof.
    intro d. unfold in_progress. destruct (d_phase d); cbn; split; intro H; try reflexivity; try discriminate.
    exfalso; apply H; reflexivity.
  Qed.

  Lemma in_dis_ents : forall l e, In e (dis_ents l) <-> exists k, In (k, snd e) l /\ fst e = loc k.
  Proof.
    intros l [x n]. unfold dis_ents. rewrite in_map_iff. cbn [fst snd]. split.
    - intros [[k m] [He Hi]]. cbn [fst snd] in He. inversion He; subst. exists k. split; [exact Hi | reflexivity].
    - intros [k [Hi Hx]]. exists (k, n). cbn [fst snd]. split; [rewrite Hx; reflexivity | exact Hi].
  Qed.

  Lemma kf_sub : forall K (l l' : list (K * N)), (forall e, In e l' -> In e l) -> kf l -> kf l'.
  Proof. intros K l l' Hs H e e' H1 H2. apply H; auto. Qed.
  Lemma nf_sub : forall K (l l' : list (K * N)), (forall e, In e l' -> In e l) -> nf l -> nf l'.
  Proof. intros K l l' Hs H e e' H1 H2. apply H; auto. Qed.

  Lemma en_remove_In : forall a l e, In e (en_remove a l) <-> In e l /\ fst e <> a.
  Proof.
    intros a l e. unfold en_remove. rewrite filter_In. split; intros [H1 H2]; split; try exact H1.
    - intro E. rewrite E, N.eqb_refl in H2. discriminate.
    - destruct (N.eqb_spec (fst e) a); [contradiction | reflexivity].
  Qed.
  Lemma dis_remove_In : forall k l e, In e (dis_remove k l) <-> In e l /\ fst e <> k.
  Proof.
    intros k l e. unfold dis_remove. rewrite filter_In. split; intros [H1 H2]; split; try exact H1.
    - intro E. rewrite E, addr_eqb_refl in H2. discriminate.
    - destruct (addr_eqb (fst e) k) eqn:E; [apply addr_eqb_eq in E; contradiction | reflexivity].
  Qed.

  Lemma find_num_some : forall K (l : list (K * N)) n e,
    find (fun e => snd e =? n) l = Some e -> In e l /\ snd e = n.
  Proof. intros K l n e H. apply find_some in H. destruct H as [H1 H2]. apply N.eqb_eq in H2. tauto. Qed.
  Lemma find_num_none : forall K (l : list (K * N)) n,
    find (fun e => snd e =? n) l = None -> forall e, In e l -> snd e <> n.
  Proof. intros K l n H e Hi E. pose proof (find_none _ _ H e Hi) as Hn. cbn in Hn. rewrite E, N.eqb_refl in Hn. discriminate. Qed.

  (** remove_breakpoint_by_number removes exactly the entries carrying that number *)
  Lemma remove_num_sem : forall d n, WF d ->
    WF (dbg_remove_num d n) /\ d_num (dbg_remove_num d n) = d_num d /\
    d_phase (dbg_remove_num d n) = d_phase d /\
    forall e, In e (ents (dbg_remove_num d n)) <-> In e (ents d) /\ snd e <> n.
  Proof.
    intros d n W. pose proof W as [Wip Wnip Wke Wne Wkd Wnd Wlt Wv].
    unfold dbg_remove_num.
    destruct (find (fun e => snd e =? n) (d_dis d)) as [e0|] eqn:Fd.
    - (* found among the disabled ones *)
      apply find_num_some in Fd. destruct Fd as [Hi0 Hn0].
      assert (Hnip : d_phase d <> InProgress) by (intro Hp; rewrite (Wip Hp) in Hi0; exact Hi0).
      pose proof (Wnip Hnip) as Hen.
      unfold dbg_remove. replace (dis_has (fst e0) (d_dis d)) with true.
      2:{ symmetry. unfold dis_has. apply existsb_exists. exists e0. split; [exact Hi0 | apply addr_eqb_refl]. }
      assert (Hsem : forall e', In e' (dis_remove (fst e0) (d_dis d)) <-> In e' (d_dis d) /\ snd e' <> n).
      { intro e'. rewrite dis_remove_In. split; intros [H1 H2]; split; try exact H1.
        - intro E. apply H2. apply Wnd; auto. congruence.
        - intro E. apply H2. rewrite <- Hn0. apply Wkd; auto. }
      split; [|split; [reflexivity|split; [reflexivity|]]].
      + constructor; unfold with_dis; cbn [d_phase d_en d_dis d_num].
        * intro Hp. contradiction.
        * intro; exact Hen.
        * exact Wke. * exact Wne.
        * eapply kf_sub; [|exact Wkd]. intros e He. apply Hsem in He. tauto.
        * eapply nf_sub; [|exact Wnd]. intros e He. apply Hsem in He. tauto.
        * intros e He. apply Wlt. unfold ents in *. cbn [d_en d_dis] in He. rewrite in_app_iff in *.
          destruct He as [He|He]; [left; exact He|]. right. apply in_dis_ents in He. destruct He as [k [Hk Hx]].
          apply in_dis_ents. exists k. split; [|exact Hx]. apply Hsem in Hk. tauto.
        * intros a m He. apply Hsem in He. eapply Wv. apply He.
      + intro e. unfold ents, with_dis. cbn [d_en d_dis]. rewrite Hen. cbn [app]. rewrite !in_dis_ents. split.
        * intros [k [Hk Hx]]. apply Hsem in Hk. destruct Hk as [Hk Hne]. split; [exists k; tauto | exact Hne].
        * intros [[k [Hk Hx]] Hne]. exists k. split; [apply Hsem; tauto | exact Hx].
    - pose proof (find_num_none _ _ _ Fd) as Hnd.
      destruct (find (fun e => snd e =? n) (d_en d)) as [e0|] eqn:Fe.
      + apply find_num_some in Fe. destruct Fe as [Hi0 Hn0].
        assert (Hp : d_phase d = InProgress).
        { destruct (phase_dec (d_phase d)) as [Hp|Hp]; [exact Hp|]. rewrite (Wnip Hp) in Hi0. destruct Hi0. }
        pose proof (Wip Hp) as Hdis.
        unfold dbg_remove. rewrite Hdis. cbn [dis_has existsb].
        assert (Hsem : forall e', In e' (en_remove (fst e0) (d_en d)) <-> In e' (d_en d) /\ snd e' <> n).
        { intro e'. rewrite en_remove_In. split; intros [H1 H2]; split; try exact H1.
          - intro E. apply H2. apply Wne; auto. congruence.
          - intro E. apply H2. rewrite <- Hn0. apply Wke; auto. }
        split; [|split; [reflexivity|split; [reflexivity|]]].
        * constructor; unfold with_en; cbn [d_phase d_en d_dis d_num].
          -- intro; exact Hdis.
          -- intro Hq. contradiction.
          -- eapply kf_sub; [|exact Wke]. intros e He. apply Hsem in He. tauto.
          -- eapply nf_sub; [|exact Wne]. intros e He. apply Hsem in He. tauto.
          -- exact Wkd. -- exact Wnd.
          -- intros e He. apply Wlt. unfold ents in *. cbn [d_en d_dis] in He. rewrite in_app_iff in *.
             destruct He as [He|He]; [left; apply Hsem in He; tauto | right; exact He].
          -- exact Wv.
        * intro e. unfold ents, with_en. cbn [d_en d_dis]. rewrite Hdis. cbn [dis_ents map]. rewrite !app_nil_r.
          apply Hsem.
      + pose proof (find_num_none _ _ _ Fe) as Hne.
        split; [exact W|]. split; [reflexivity|]. split; [reflexivity|].
        intro e. split; [|tauto]. intro He. split; [exact He|].
        unfold ents in He. apply in_app_iff in He. destruct He as [He|He]; [apply Hne; exact He|].
        apply in_dis_ents in He. destruct He as [k [Hk _]]. apply (Hnd _ Hk).
  Qed.

  Lemma remove_nums_sem : forall l d, WF d ->
    WF (remove_nums l d) /\ d_num (remove_nums l d) = d_num d /\ d_phase (remove_nums l d) = d_phase d /\
    forall e, In e (ents (remove_nums l d)) <-> In e (ents d) /\ ~ In (snd e) l.
  Proof.
    unfold remove_nums. induction l as [|n t IH]; intros d W; cbn [fold_left].
    - split; [exact W|]. split; [reflexivity|]. split; [reflexivity|]. intro e. cbn [In]. tauto.
    - destruct (remove_num_sem d n W) as [W1 [Hn1 [Hp1 Hs1]]].
      destruct (IH _ W1) as [W2 [Hn2 [Hp2 Hs2]]].
      split; [exact W2|]. split; [congruence|]. split; [congruence|].
      intro e. rewrite Hs2, Hs1. cbn [In]. split.
      + intros [[H1 H2] H3]. split; [exact H1|]. intros [E|E]; [apply H2; symmetry; exact E | exact (H3 E)].
      + intros [H1 H2]. split; [split; [exact H1|]|]; intro E; apply H2; [left; symmetry; exact E | right; exact E].
  Qed.

  Lemma remove_records_flat : forall rs d, remove_records rs d = remove_nums (flat_map r_nums rs) d.
  Proof.
    unfold remove_records, remove_nums.
    induction rs as [|r t IH]; intro d; cbn [fold_left flat_map]; [reflexivity|].
    rewrite fold_left_app. apply IH.
  Qed.

  (** ** adding breakpoints *)
  Definition lim32 : N := 4294967296.
  Lemma next_num_small : forall n, n + 1 < lim32 -> next_num n = n + 1.
  Proof. intros n H. unfold next_num. apply N.mod_small. exact H. Qed.

  (* inserting a fresh number at a fresh location (key form decided by the phase) *)
  Lemma insert_sem : forall d x k, WF d -> d_num d + 1 < lim32 ->
    (forall e, In e (ents d) -> fst e <> x) ->
    (d_phase d <> InProgress -> loc k = x) ->
    (d_phase d <> InProgress -> forall a, k = Rel a -> valid va bias a = true) ->
    let d' := if in_progress d
              then mk_dbg (d_phase d) (en_insert x (d_num d) (d_en d)) (d_dis d) (next_num (d_num d)) (d_wps d)
              else mk_dbg (d_phase d) (d_en d) (dis_insert k (d_num d) (d_dis d)) (next_num (d_num d)) (d_wps d) in
    WF d' /\ d_num d' = d_num d + 1 /\ d_phase d' = d_phase d /\
    forall e, In e (ents d') <-> e = (x, d_num d) \/ In e (ents d).
  Proof.
    intros d x k W Hlim Hfresh Hk2 Hkv. pose proof W as [Wip Wnip Wke Wne Wkd Wnd Wlt Wv].
    destruct (phase_dec (d_phase d)) as [Hp|Hp].
    - (* running: the enabled map *)
      rewrite (proj2 (in_progress_true d) Hp). cbn zeta. pose proof (Wip Hp) as Hdis.
      assert (Hrem : forall e, In e (en_remove x (d_en d)) <-> In e (d_en d)).
      { intro e. rewrite en_remove_In. split; [tauto|]. intro H. split; [exact H|].
        apply Hfresh. unfold ents. apply in_or_app. left; exact H. }
      assert (Hsem : forall e, In e (en_insert x (d_num d) (d_en d)) <-> e = (x, d_num d) \/ In e (d_en d)).
      { intro e. unfold en_insert. cbn [In]. rewrite Hrem. split; intros [H|H]; auto. }
      assert (Hltn : forall e, In e (d_en d) -> snd e < d_num d).
      { intros e He. apply Wlt. unfold ents. apply in_or_app. left; exact He. }
      split; [|split; [cbn [d_num]; apply next_num_small; exact Hlim|split; [reflexivity|]]].
      + constructor; cbn [d_phase d_en d_dis d_num].
        * intro; exact Hdis.
        * intro Hq; contradiction.
        * intros e e' H1 H2 Hf. apply Hsem in H1. apply Hsem in H2.
          destruct H1 as [->|H1]; destruct H2 as [->|H2]; cbn [fst snd] in *.
          -- reflexivity.
          -- exfalso. apply (Hfresh e'); [unfold ents; apply in_or_app; left; exact H2 | symmetry; exact Hf].
          -- exfalso. apply (Hfresh e); [unfold ents; apply in_or_app; left; exact H1 | exact Hf].
          -- apply Wke; auto.
        * intros e e' H1 H2 Hf. apply Hsem in H1. apply Hsem in H2.
          destruct H1 as [->|H1]; destruct H2 as [->|H2]; cbn [fst snd] in *.
          -- reflexivity.
          -- pose proof (Hltn _ H2). lia.
          -- pose proof (Hltn _ H1). lia.
          -- apply Wne; auto.
        * exact Wkd. * exact Wnd.
        * intros e He. rewrite next_num_small by exact Hlim. unfold ents in He. cbn [d_en d_dis] in He.
          rewrite Hdis in He. cbn [dis_ents map] in He. rewrite app_nil_r in He. apply Hsem in He.
          destruct He as [->|He]; [cbn [snd]; lia | pose proof (Hltn _ He); lia].
        * exact Wv.
      + intro e. unfold ents. cbn [d_en d_dis]. rewrite Hdis. cbn [dis_ents map]. rewrite !app_nil_r. apply Hsem.
    - (* not running: the disabled map, key k *)
      rewrite (proj2 (in_progress_false d) Hp). cbn zeta. pose proof (Wnip Hp) as Hen. specialize (Hk2 Hp).
      assert (Hin : forall e, In e (d_dis d) -> In (loc (fst e), snd e) (ents d)).
      { intros e He. unfold ents. apply in_or_app. right. apply in_dis_ents. exists (fst e). cbn [fst snd].
        split; [destruct e; exact He | reflexivity]. }
      assert (Hrem : forall e, In e (dis_remove k (d_dis d)) <-> In e (d_dis d)).
      { intro e. rewrite dis_remove_In. split; [tauto|]. intro H. split; [exact H|].
        intro E. apply (Hfresh _ (Hin _ H)). cbn [fst]. rewrite E. exact Hk2. }
      assert (Hsem : forall e, In e (dis_insert k (d_num d) (d_dis d)) <-> e = (k, d_num d) \/ In e (d_dis d)).
      { intro e. unfold dis_insert. cbn [In]. rewrite Hrem. split; intros [H|H]; auto. }
      assert (Hltn : forall e, In e (d_dis d) -> snd e < d_num d).
      { intros e He. apply (Wlt _ (Hin _ He)). }
      split; [|split; [cbn [d_num]; apply next_num_small; exact Hlim|split; [reflexivity|]]].
      + constructor; cbn [d_phase d_en d_dis d_num].
        * intro Hq; contradiction.
        * intro; exact Hen.
        * exact Wke. * exact Wne.
        * intros e e' H1 H2 Hf. apply Hsem in H1. apply Hsem in H2.
          destruct H1 as [->|H1]; destruct H2 as [->|H2]; cbn [fst snd] in *.
          -- reflexivity.
          -- exfalso. apply (Hfresh _ (Hin _ H2)). cbn [fst]. rewrite <- Hf. exact Hk2.
          -- exfalso. apply (Hfresh _ (Hin _ H1)). cbn [fst]. rewrite Hf. exact Hk2.
          -- apply Wkd; auto.
        * intros e e' H1 H2 Hf. apply Hsem in H1. apply Hsem in H2.
          destruct H1 as [->|H1]; destruct H2 as [->|H2]; cbn [fst snd] in *.
          -- reflexivity.
          -- pose proof (Hltn _ H2). lia.
          -- pose proof (Hltn _ H1). lia.
          -- apply Wnd; auto.
        * intros e He. rewrite next_num_small by exact Hlim. unfold ents in He. cbn [d_en d_dis] in He.
          rewrite Hen in He. cbn [app] in He. apply in_dis_ents in He. destruct He as [k' [Hk' _]].
          apply Hsem in Hk'. destruct Hk' as [E|Hk']; [inversion E; lia | pose proof (Hltn _ Hk') as Hl; cbn [snd] in Hl; lia].
        * intros a m He. apply Hsem in He. destruct He as [E|He]; [inversion E; subst; apply (Hkv Hp); reflexivity | eapply Wv; exact He].
      + intro e. unfold ents. cbn [d_en d_dis]. rewrite Hen. cbn [app]. rewrite !in_dis_ents. split.
        * intros [k' [Hk' Hx]]. apply Hsem in Hk'. destruct Hk' as [E|Hk'].
          -- left. inversion E; subst. destruct e as [ex en]. cbn [fst snd] in *. subst. reflexivity.
          -- right. exists k'. tauto.
        * intros [->|[k' [Hk' Hx]]].
          -- exists k. cbn [fst snd]. split; [apply Hsem; left; reflexivity | symmetry; exact Hk2].
          -- exists k'. split; [apply Hsem; right; exact Hk' | exact Hx].
  Qed.

  Lemma add_place_sem : forall g d, WF d -> d_num d + 1 < lim32 ->
    (forall e, In e (ents d) -> fst e <> bias + g) ->
    WF (add_place bias g d) /\ d_num (add_place bias g d) = d_num d + 1 /\
    d_phase (add_place bias g d) = d_phase d /\
    forall e, In e (ents (add_place bias g d)) <-> e = (bias + g, d_num d) \/ In e (ents d).
  Proof.
    intros g d W Hl Hf. unfold add_place.
    apply (insert_sem d (bias + g) (Glob g) W Hl Hf).
    - reflexivity.
    - intros _ a E. discriminate.
  Qed.

  Lemma set_addr_sem : forall a d, WF d -> d_num d + 1 < lim32 ->
    (forall e, In e (ents d) -> fst e <> a) -> valid va bias a = true ->
    WF (fst (dbg_set_addr va bias d a)) /\ d_num (fst (dbg_set_addr va bias d a)) = d_num d + 1 /\
    d_phase (fst (dbg_set_addr va bias d a)) = d_phase d /\ snd (dbg_set_addr va bias d a) = [Rel a] /\
    forall e, In e (ents (fst (dbg_set_addr va bias d a))) <-> e = (a, d_num d) \/ In e (ents d).
  Proof.
    intros a d W Hl Hf Hv. unfold dbg_set_addr. rewrite Hv.
    pose proof (insert_sem d a (Rel a) W Hl Hf (fun _ => eq_refl)) as H.
    assert (Hk : d_phase d <> InProgress -> forall a0, Rel a = Rel a0 -> valid va bias a0 = true)
      by (intros _ a0 E; inversion E; subst; exact Hv).
    specialize (H Hk). cbn zeta in H.
    destruct (in_progress d); cbn [fst snd]; destruct H as [H1 [H2 [H3 H4]]];
      (split; [exact H1 | split; [exact H2 | split; [exact H3 | split; [reflexivity | exact H4]]]]).
  Qed.

  Lemma nums_from_length : forall k n, length (nums_from n k) = k.
  Proof. induction k as [|k IH]; intro n; cbn [nums_from length]; [reflexivity | rewrite IH; reflexivity]. Qed.

  Lemma add_places_sem : forall gs d, WF d -> d_num d + N.of_nat (length gs) < lim32 ->
    NoDup (map (N.add bias) gs) ->
    (forall e, In e (ents d) -> ~ In (fst e) (map (N.add bias) gs)) ->
    WF (add_places bias gs d) /\ d_num (add_places bias gs d) = d_num d + N.of_nat (length gs) /\
    d_phase (add_places bias gs d) = d_phase d /\
    forall e, In e (ents (add_places bias gs d)) <->
              In e (combine (map (N.add bias) gs) (nums_from (d_num d) (length gs))) \/ In e (ents d).
  Proof.
    induction gs as [|g t IH]; intros d W Hl Hnd Hf; cbn [add_places map length nums_from combine].
    - split; [exact W|]. split; [cbn; lia|]. split; [reflexivity|]. intro e. cbn [In]. tauto.
    - cbn [map] in Hnd, Hf. inversion Hnd as [|? ? Hni Hnd']; subst.
      assert (Hl1 : d_num d + 1 < lim32) by (cbn [length] in Hl; lia).
      destruct (add_place_sem g d W Hl1) as [W1 [Hn1 [Hp1 Hs1]]].
      { intros e He E. apply (Hf e He). left. symmetry. exact E. }
      destruct (IH (add_place bias g d) W1) as [W2 [Hn2 [Hp2 Hs2]]].
      { rewrite Hn1. cbn [length] in Hl. lia. }
      { exact Hnd'. }
      { intros e He Hi. apply Hs1 in He. destruct He as [->|He].
        - cbn [fst] in Hi. contradiction.
        - apply (Hf e He). right. exact Hi. }
      split; [exact W2|]. split; [rewrite Hn2, Hn1; cbn [length]; lia|]. split; [congruence|].
      intro e. rewrite Hs2, Hs1, Hn1. rewrite (next_num_small _ Hl1). cbn [In]. split.
      + intros [H|[H|H]]; [left; right; exact H | left; left; symmetry; exact H | right; exact H].
      + intros [[H|H]|H]; [right; left; symmetry; exact H | left; exact H | right; right; exact H].
  Qed.

  (** ** start / exit / restart: the registry is re-keyed, its entries stay *)
  Lemma en_insert_In : forall a n l e, In e (en_insert a n l) <-> e = (a, n) \/ (In e l /\ fst e <> a).
  Proof. intros a n l e. unfold en_insert. cbn [In]. rewrite en_remove_In. split; intros [H|H]; auto. Qed.
  Lemma dis_insert_In : forall k n l e, In e (dis_insert k n l) <-> e = (k, n) \/ (In e l /\ fst e <> k).
  Proof. intros k n l e. unfold dis_insert. cbn [In]. rewrite dis_remove_In. split; intros [H|H]; auto. Qed.

  Lemma enable_list_sem : forall l en,
    (forall a n, In (Rel a, n) l -> valid va bias a = true) ->
    (forall e e', In e l -> In e' l -> loc (fst e) = loc (fst e') -> snd e = snd e') ->
    (forall e e', In e l -> In e' en -> loc (fst e) = fst e' -> snd e = snd e') ->
    forall x, In x (enable_list va bias l en) <-> In x en \/ In x (dis_ents l).
  Proof.
    induction l as [|[k n] t IH]; intros en Hv Hl Hc x.
    - cbn [enable_list dis_ents map In]. tauto.
    - assert (Hstep : enable_list va bias ((k, n) :: t) en = enable_list va bias t (en_insert (loc k) n en)).
      { cbn [enable_list]. destruct k as [a|g]; [|reflexivity]. cbn [dis_loc].
        rewrite (Hv a n (or_introl eq_refl)). reflexivity. }
      rewrite Hstep. rewrite IH.
      + cbn [dis_ents map In fst snd]. rewrite en_insert_In. split.
        * intros [[H|[H _]]|H]; [right; left; symmetry; exact H | left; exact H | right; right; exact H].
        * intros [H|[H|H]]; [|left; left; symmetry; exact H | right; exact H].
          destruct x as [xa xn]. destruct (N.eq_dec xa (loc k)) as [E|E].
          -- left. left. subst xa. f_equal. symmetry. apply (Hc (k, n) (loc k, xn)); [left; reflexivity | exact H | reflexivity].
          -- left. right. split; [exact H | exact E].
      + intros a m Hi. apply (Hv a m). right; exact Hi.
      + intros e e' H1 H2. apply Hl; right; assumption.
      + intros e e' H1 H2 E. apply en_insert_In in H2. destruct H2 as [->|[H2 _]].
        * cbn [fst snd] in *. apply (Hl e (k, n)); [right; exact H1 | left; reflexivity | exact E].
        * apply (Hc e e'); [right; exact H1 | exact H2 | exact E].
  Qed.

  Lemma enable_all_sem : forall d, WF d -> d_phase d <> InProgress -> kf (ents d) ->
    WF (enable_all va bias d) /\ d_num (enable_all va bias d) = d_num d /\
    d_phase (enable_all va bias d) = InProgress /\
    forall e, In e (ents (enable_all va bias d)) <-> In e (ents d).
  Proof.
    intros d W Hp Hk. pose proof W as [Wip Wnip Wke Wne Wkd Wnd Wlt Wv]. pose proof (Wnip Hp) as Hen.
    assert (Hents : ents d = dis_ents (d_dis d)) by (unfold ents; rewrite Hen; reflexivity).
    assert (Hin : forall e, In e (d_dis d) -> In (loc (fst e), snd e) (dis_ents (d_dis d))).
    { intros e He. apply in_dis_ents. exists (fst e). cbn [fst snd]. split; [destruct e; exact He | reflexivity]. }
    assert (Hsem : forall x, In x (enable_list va bias (d_dis d) (d_en d)) <-> In x (dis_ents (d_dis d))).
    { intro x. rewrite enable_list_sem.
      - rewrite Hen. cbn [In]. tauto.
      - exact Wv.
      - intros e e' H1 H2 E. rewrite Hents in Hk.
        apply (Hk (loc (fst e), snd e) (loc (fst e'), snd e') (Hin _ H1) (Hin _ H2) E).
      - rewrite Hen. intros e e' _ []. }
    split; [|split; [reflexivity|split; [reflexivity|]]].
    - constructor; cbn [enable_all d_phase d_en d_dis d_num].
      + reflexivity.
      + intro H; exfalso; apply H; reflexivity.
      + intros e e' H1 H2. apply Hsem in H1. apply Hsem in H2. rewrite Hents in Hk. apply Hk; assumption.
      + intros e e' H1 H2 E. apply Hsem in H1. apply Hsem in H2.
        apply in_dis_ents in H1. apply in_dis_ents in H2.
        destruct H1 as [k1 [Hk1 Hx1]]. destruct H2 as [k2 [Hk2 Hx2]].
        rewrite Hx1, Hx2. f_equal. rewrite E in Hk1. apply (Wnd (k1, snd e') (k2, snd e') Hk1 Hk2). reflexivity.
      + intros e e' [].
      + intros e e' [].
      + intros e He. apply Wlt. unfold ents in He. cbn [enable_all d_en d_dis dis_ents map] in He.
        rewrite app_nil_r in He. apply Hsem in He. rewrite Hents. exact He.
      + intros a n [].
    - intro e. unfold ents at 1. cbn [enable_all d_en d_dis dis_ents map]. rewrite app_nil_r, Hsem, Hents. tauto.
  Qed.

  Lemma disable_list_sem : forall l dis,
    (forall e e', In e l -> In e' dis -> Glob (fst e - bias) = fst e' -> snd e = snd e') ->
    (forall e e', In e l -> In e' l -> fst e - bias = fst e' - bias -> snd e = snd e') ->
    forall x, In x (disable_list bias l dis) <-> In x dis \/ exists e, In e l /\ x = (Glob (fst e - bias), snd e).
  Proof.
    induction l as [|[a n] t IH]; intros dis Hc Hl x; cbn [disable_list].
    - cbn [In]. split; [intro H; left; exact H | intros [H|[e [[] _]]]; exact H].
    - rewrite IH.
      + rewrite dis_insert_In. split.
        * intros [[H|[H _]]|[e [He Hx]]].
          -- right. exists (a, n). split; [left; reflexivity | exact H].
          -- left; exact H.
          -- right. exists e. split; [right; exact He | exact Hx].
        * intros [H|[e [[He|He] Hx]]].
          -- destruct x as [xk xn]. destruct (addr_eq_dec xk (Glob (a - bias))) as [E|E].
             ++ left. left. subst xk. f_equal. symmetry.
                apply (Hc (a, n) (Glob (a - bias), xn)); [left; reflexivity | exact H | reflexivity].
             ++ left. right. split; [exact H | exact E].
          -- subst e. left. left. exact Hx.
          -- right. exists e. split; [exact He | exact Hx].
      + intros e e' H1 H2 E. apply dis_insert_In in H2. destruct H2 as [->|[H2 _]].
        * cbn [fst snd] in *. inversion E as [E']. apply (Hl e (a, n)); [right; exact H1 | left; reflexivity | exact E'].
        * apply (Hc e e'); [right; exact H1 | exact H2 | exact E].
      + intros e e' H1 H2. apply Hl; right; assumption.
  Qed.

  Lemma disable_all_sem : forall d p, WF d -> d_phase d = InProgress -> p <> InProgress ->
    (forall e, In e (d_en d) -> bias <= fst e) ->
    WF (disable_all bias d p) /\ d_num (disable_all bias d p) = d_num d /\
    d_phase (disable_all bias d p) = p /\
    forall e, In e (ents (disable_all bias d p)) <-> In e (ents d).
  Proof.
    intros d p W Hp Hpn Hge. pose proof W as [Wip Wnip Wke Wne Wkd Wnd Wlt Wv]. pose proof (Wip Hp) as Hdis.
    assert (Hents : ents d = d_en d) by (unfold ents; rewrite Hdis; cbn [dis_ents map]; apply app_nil_r).
    assert (Hsem : forall x, In x (disable_list bias (d_en d) (d_dis d)) <->
                             exists e, In e (d_en d) /\ x = (Glob (fst e - bias), snd e)).
    { intro x. rewrite disable_list_sem.
      - rewrite Hdis. cbn [In]. tauto.
      - rewrite Hdis. intros e e' _ [].
      - intros e e' H1 H2 E. apply Wke; auto. pose proof (Hge _ H1). pose proof (Hge _ H2). lia. }
    split; [|split; [reflexivity|split; [reflexivity|]]].
    - constructor; cbn [disable_all d_phase d_en d_dis d_num].
      + intro H; contradiction.
      + reflexivity.
      + intros e e' []. + intros e e' [].
      + intros e e' H1 H2 E. apply Hsem in H1. apply Hsem in H2.
        destruct H1 as [e1 [H1 ->]]. destruct H2 as [e2 [H2 ->]]. cbn [fst snd] in *. inversion E as [E'].
        apply Wke; auto. pose proof (Hge _ H1). pose proof (Hge _ H2). lia.
      + intros e e' H1 H2 E. apply Hsem in H1. apply Hsem in H2.
        destruct H1 as [e1 [H1 ->]]. destruct H2 as [e2 [H2 ->]]. cbn [fst snd] in *.
        rewrite (Wne e1 e2 H1 H2 E). reflexivity.
      + intros e He. unfold ents in He. cbn [disable_all d_en d_dis app] in He. apply in_dis_ents in He.
        destruct He as [k [Hk _]]. apply Hsem in Hk. destruct Hk as [e1 [H1 E]]. inversion E as [[Ek En]].
        rewrite En. apply Wlt. rewrite Hents. exact H1.
      + intros a n He. apply Hsem in He. destruct He as [e1 [_ E]]. inversion E.
    - intro e. unfold ents at 1. cbn [disable_all d_en d_dis app]. rewrite in_dis_ents, Hents. split.
      + intros [k [Hk Hx]]. apply Hsem in Hk. destruct Hk as [e1 [H1 E]]. inversion E; subst k.
        pose proof (Hge _ H1). destruct e as [x n], e1 as [a m]. cbn [fst snd dis_loc] in *. subst.
        replace (bias + (a - bias)) with a by lia. exact H1.
      + intro He. exists (Glob (fst e - bias)). split.
        * apply Hsem. exists e. split; [exact He | reflexivity].
        * pose proof (Hge _ He). cbn [dis_loc]. lia.
  Qed.

  (** ** the set loops *)
  Definition optview : Type := (bool * option hitcond * bool)%type.
  Definition recview (r : brec) : list N * nat * optview :=
    (map loc (r_addrs r), length (r_nums r), (r_cond r, r_hit r, r_log r)).
  Definition itemview (locs : list N) (o : opts) : list N * nat * optview :=
    (locs, length locs, (o_cond o, parse_hit_opt (o_hit o), o_log o)).
  Definition pairs (r : brec) : list (N * N) := combine (map loc (r_addrs r)) (r_nums r).
  Definition pairs_of (rs : list brec) : list (N * N) := flat_map pairs rs.

  Lemma pairs_of_cons : forall r rs, pairs_of (r :: rs) = pairs r ++ pairs_of rs.
  Proof. reflexivity. Qed.

  Fixpoint set_places (items : list (list N * opts)) (d : dbg) (id : N) : dbg * list brec :=
    match items with
    | [] => (d, [])
    | (gs, o) :: t =>
        let r := new_rec id (view_addrs bias d gs) (nums_from (d_num d) (length gs)) o in
        let '(d2, rs) := set_places t (add_places bias gs d) (id + 1) in
        (d2, r :: rs)
    end.
  Definition fn_gs (b : option N * opts) : list N := match fst b with Some f => rf f | None => [] end.

  Lemma set_lines_places : forall src bps d id,
    set_lines rl bias src bps d id = set_places (map (fun b => (rl src (fst b), snd b)) bps) d id.
  Proof.
    induction bps as [|[line o] t IH]; intros d id; cbn [set_lines set_places map fst snd]; [reflexivity|].
    rewrite IH. reflexivity.
  Qed.
  Lemma set_fns_places : forall bps d id,
    set_fns rf bias bps d id = set_places (map (fun b => (fn_gs b, snd b)) bps) d id.
  Proof.
    induction bps as [|[name o] t IH]; intros d id; cbn [set_fns set_places map fst snd]; [reflexivity|].
    unfold fn_gs at 1 2 3. cbn [fst]. rewrite IH. reflexivity.
  Qed.

  Lemma view_locs : forall d gs, map loc (view_addrs bias d gs) = map (N.add bias) gs.
  Proof. intros d gs. unfold view_addrs. destruct (in_progress d); rewrite map_map; reflexivity. Qed.

  Definition item_locs (it : list N * opts) : list N := map (N.add bias) (fst it).

  Lemma in_combine_fst : forall (l : list N) (l' : list N) e, In e (combine l l') -> In (fst e) l.
  Proof. intros l l' [x y] H. eapply in_combine_l; eauto. Qed.

  Lemma set_places_sem : forall items d id d2 rs, WF d ->
    d_num d + N.of_nat (length (flat_map fst items)) < lim32 ->
    NoDup (flat_map item_locs items) ->
    (forall e, In e (ents d) -> ~ In (fst e) (flat_map item_locs items)) ->
    set_places items d id = (d2, rs) ->
    WF d2 /\ d_num d2 = d_num d + N.of_nat (length (flat_map fst items)) /\ d_phase d2 = d_phase d /\
    (forall e, In e (ents d2) <-> In e (pairs_of rs) \/ In e (ents d)) /\
    map recview rs = map (fun it => itemview (item_locs it) (snd it)) items.
  Proof.
    induction items as [|[gs o] t IH]; intros d id d2 rs W Hl Hnd Hf Hs; cbn [set_places] in Hs.
    - inversion Hs; subst. split; [exact W|]. split; [cbn; lia|]. split; [reflexivity|].
      split; [intro e; cbn; tauto | reflexivity].
    - destruct (set_places t (add_places bias gs d) (id + 1)) as [d3 rs3] eqn:E. inversion Hs; subst d2 rs. clear Hs.
      cbn [flat_map fst] in Hl, Hnd, Hf. unfold item_locs at 1 in Hnd. unfold item_locs at 1 in Hf. cbn [fst] in Hnd, Hf.
      rewrite app_length, Nat2N.inj_add in Hl.
      destruct (add_places_sem gs d W) as [W1 [Hn1 [Hp1 Hs1]]].
      { lia. }
      { eapply NoDup_app_l; exact Hnd. }
      { intros e He Hi. apply (Hf e He). apply in_or_app. left; exact Hi. }
      destruct (IH (add_places bias gs d) (id + 1) d3 rs3 W1) as [W2 [Hn2 [Hp2 [Hs2 Hv2]]]].
      { rewrite Hn1. lia. }
      { eapply NoDup_app_r; exact Hnd. }
      { intros e He Hi. apply Hs1 in He. destruct He as [He|He].
        - apply in_combine_fst in He. exact (NoDup_app_disj _ _ _ _ Hnd He Hi).
        - apply (Hf e He). apply in_or_app. right; exact Hi. }
      { exact E. }
      split; [exact W2|]. split; [rewrite Hn2, Hn1; cbn [flat_map fst]; rewrite app_length, Nat2N.inj_add; lia|].
      split; [congruence|]. split.
      + intro e. rewrite Hs2, Hs1. rewrite pairs_of_cons, in_app_iff.
        unfold pairs, new_rec. cbn [r_addrs r_nums]. rewrite view_locs. tauto.
      + cbn [map]. f_equal; [|exact Hv2].
        unfold recview, itemview, new_rec, item_locs. cbn [r_addrs r_nums r_cond r_hit r_log fst snd].
        rewrite view_locs, nums_from_length, map_length. reflexivity.
  Qed.

  Definition ins_pre (b : option N * opts) : bool := match fst b with Some a => valid va bias a | None => true end.

  Lemma set_instrs_sem : forall bps d id d2 rs, WF d ->
    d_num d + N.of_nat (length bps) < lim32 ->
    (d_phase d = InProgress \/ forallb ins_pre bps = true) ->
    NoDup (flat_map (ins_locs va bias) bps) ->
    (forall e, In e (ents d) -> ~ In (fst e) (flat_map (ins_locs va bias) bps)) ->
    set_instrs va bias bps d id = (d2, rs) ->
    WF d2 /\ d_num d2 <= d_num d + N.of_nat (length bps) /\ d_phase d2 = d_phase d /\
    (forall e, In e (ents d2) <-> In e (pairs_of rs) \/ In e (ents d)) /\
    map recview rs = map (fun b => itemview (ins_locs va bias b) (snd b)) bps.
  Proof.
    induction bps as [|[ref o] t IH]; intros d id d2 rs W Hl Hpre Hnd Hf Hs; cbn [set_instrs] in Hs.
    - inversion Hs; subst. split; [exact W|]. split; [cbn; lia|]. split; [reflexivity|].
      split; [intro e; cbn; tauto | reflexivity].
    - destruct (match ref with Some a => dbg_set_addr va bias d a | None => (d, []) end) as [d1 addrs] eqn:E1.
      destruct (set_instrs va bias t d1 (id + 1)) as [d3 rs3] eqn:E. inversion Hs; subst d2 rs. clear Hs.
      cbn [flat_map length] in Hl, Hnd, Hf. rewrite Nat2N.inj_succ in Hl.
      assert (Hpre_t : forall d', d_phase d' = d_phase d -> d_phase d' = InProgress \/ forallb ins_pre t = true).
      { intros d' Hd'. destruct Hpre as [Hp|Hp]; [left; congruence|right].
        cbn [forallb] in Hp. apply andb_true_iff in Hp. tauto. }
      (* what the head item did *)
      assert (Hhead : WF d1 /\ d_num d1 <= d_num d + 1 /\ d_phase d1 = d_phase d /\
                      (forall e, In e (ents d1) <-> In e (combine (ins_locs va bias (ref, o)) (match addrs with [] => [] | _ => [d_num d] end)) \/ In e (ents d)) /\
                      map loc addrs = ins_locs va bias (ref, o)).
      { unfold ins_locs. cbn [fst]. destruct ref as [a|].
        - destruct (valid va bias a) eqn:V.
          + destruct (set_addr_sem a d W) as [W1 [Hn1 [Hp1 [Ha1 Hs1]]]]; try exact V.
            { lia. }
            { intros e He E'. apply (Hf e He). apply in_or_app. left. unfold ins_locs. cbn [fst]. rewrite V. left. symmetry; exact E'. }
            rewrite E1 in *. cbn [fst snd] in *. subst addrs.
            split; [exact W1|]. split; [lia|]. split; [exact Hp1|]. split; [|reflexivity].
            intro e. rewrite Hs1. cbn [combine In].
            split; [intros [H|H]; [left; left; symmetry; exact H | right; exact H]
                   | intros [[H|[]]|H]; [left; symmetry; exact H | right; exact H]].
          + (* invalid: only possible while running, nothing is created *)
            assert (Hp : d_phase d = InProgress).
            { destruct Hpre as [Hp|Hp]; [exact Hp|]. cbn [forallb] in Hp. apply andb_true_iff in Hp.
              destruct Hp as [Hp _]. unfold ins_pre in Hp. cbn [fst] in Hp. congruence. }
            unfold dbg_set_addr in E1. rewrite (proj2 (in_progress_true d) Hp), V in E1. inversion E1; subst d1 addrs.
            split; [exact W|]. split; [lia|]. split; [reflexivity|]. split; [|reflexivity].
            intro e. cbn [combine In]. tauto.
        - inversion E1; subst d1 addrs. split; [exact W|]. split; [lia|]. split; [reflexivity|]. split; [|reflexivity].
          intro e. cbn [combine In]. tauto. }
      destruct Hhead as [W1 [Hn1 [Hp1 [Hs1 Ha1]]]].
      destruct (IH d1 (id + 1) d3 rs3 W1) as [W2 [Hn2 [Hp2 [Hs2 Hv2]]]].
      { lia. }
      { apply Hpre_t. exact Hp1. }
      { eapply NoDup_app_r; exact Hnd. }
      { intros e He Hi. apply Hs1 in He. destruct He as [He|He].
        - apply in_combine_fst in He. exact (NoDup_app_disj _ _ _ _ Hnd He Hi).
        - apply (Hf e He). apply in_or_app. right; exact Hi. }
      { exact E. }
      split; [exact W2|]. split; [cbn [length]; rewrite Nat2N.inj_succ; lia|]. split; [congruence|]. split.
      + intro e. rewrite Hs2, Hs1. rewrite pairs_of_cons, in_app_iff.
        unfold pairs, new_rec. cbn [r_addrs r_nums]. rewrite Ha1. tauto.
      + cbn [map]. f_equal; [|exact Hv2].
        unfold recview, itemview, new_rec. cbn [r_addrs r_nums r_cond r_hit r_log fst snd].
        rewrite Ha1. f_equal. f_equal. rewrite <- Ha1. destruct addrs as [|x [|y l]]; cbn; try reflexivity.
        (* more than one address never happens *)
        exfalso. assert (Hlen : (length (ins_locs va bias (ref, o)) <= 1)%nat).
        { unfold ins_locs. cbn [fst]. destruct ref; [destruct (valid va bias n)|]; cbn; lia. }
        rewrite <- Ha1 in Hlen. cbn in Hlen. lia.
  Qed.

  (** ** association lists keyed by source *)
  Section AL.
    Context {V X : Type}.
    Variable F : N -> V -> list X.
    Definition AF (l : list (N * V)) : list X := flat_map (fun e => F (fst e) (snd e)) l.
    Definition AG (src : N) (l : list (N * V)) : list X :=
      match alist_get N.eqb l src with Some v => F src v | None => [] end.
    Definition afilter (src : N) (l : list (N * V)) : list (N * V) :=
      filter (fun e => negb (fst e =? src)) l.

    Lemma afilter_notin : forall src l, ~ In src (map fst l) -> afilter src l = l.
    Proof.
      unfold afilter. induction l as [|[s0 b0] t IH]; intro H; cbn [filter fst]; [reflexivity|].
      cbn [map fst In] in H. destruct (N.eqb_spec s0 src); [exfalso; apply H; left; assumption|].
      cbn [negb]. f_equal. apply IH. intro Hi. apply H. right; exact Hi.
    Qed.

    Lemma AF_perm : forall src l, NoDup (map fst l) -> Permutation (AF l) (AG src l ++ AF (afilter src l)).
    Proof.
      induction l as [|[s0 b0] t IH]; intro Hn.
      - cbn. constructor.
      - cbn [map fst] in Hn. inversion Hn as [|? ? Hni Hnt]; subst.
        unfold AG. cbn [alist_get]. unfold afilter. cbn [filter fst].
        destruct (N.eqb_spec src s0) as [->|Hne].
        + rewrite N.eqb_refl. cbn [negb]. fold (afilter s0 t). rewrite (afilter_notin s0 t Hni).
          unfold AF. cbn [flat_map fst snd]. apply Permutation_refl.
        + destruct (N.eqb_spec s0 src); [congruence|]. cbn [negb]. fold (afilter src t).
          change (Permutation (F s0 b0 ++ AF t) (AG src t ++ F s0 b0 ++ AF (afilter src t))).
          eapply Permutation_trans; [apply Permutation_app_head; apply (IH Hnt)|].
          apply Permutation_app_swap_app.
    Qed.

    Lemma afilter_keys : forall src v l, NoDup (map fst l) -> NoDup (map fst ((src, v) :: afilter src l)).
    Proof.
      intros src v l H. cbn [map fst]. constructor.
      - intro Hi. apply in_map_iff in Hi. destruct Hi as [e [He Hi]]. unfold afilter in Hi.
        apply filter_In in Hi. destruct Hi as [_ Hi]. rewrite He, N.eqb_refl in Hi. discriminate.
      - induction l as [|[s0 b0] t IH]; [constructor|].
        cbn [map fst] in H. inversion H; subst. unfold afilter. cbn [filter fst].
        destruct (negb (s0 =? src)); [|apply IH; assumption].
        cbn [map fst]. constructor; [|apply IH; assumption].
        intro Hi. apply in_map_iff in Hi. destruct Hi as [e [He Hi]]. apply filter_In in Hi.
        apply H2. apply in_map_iff. exists e. tauto.
    Qed.
  End AL.

  (* filtering by key commutes with key-preserving views *)
  Lemma afilter_view : forall (V1 V2 W : Type) (f1 : N * V1 -> N * W) (f2 : N * V2 -> N * W) src l1 l2,
    (forall e, fst (f1 e) = fst e) -> (forall e, fst (f2 e) = fst e) ->
    map f1 l1 = map f2 l2 -> map f1 (afilter src l1) = map f2 (afilter src l2).
  Proof.
    intros V1 V2 W f1 f2 src. unfold afilter.
    induction l1 as [|e1 t1 IH]; intros [|e2 t2] H1 H2 H; cbn [map] in H; try discriminate; [reflexivity|].
    inversion H as [[He Ht]]. cbn [filter].
    assert (Hk : fst e1 = fst e2) by (rewrite <- (H1 e1), <- (H2 e2), He; reflexivity).
    rewrite Hk. destruct (negb (fst e2 =? src)); cbn [map]; [f_equal; [exact He|]|]; apply IH; assumption.
  Qed.
  Lemma alist_get_view : forall (V1 V2 W : Type) (g1 : N -> V1 -> W) (g2 : N -> V2 -> W) src l1 l2,
    map (fun e => (fst e, g1 (fst e) (snd e))) l1 = map (fun e => (fst e, g2 (fst e) (snd e))) l2 ->
    match alist_get N.eqb l1 src with Some v => Some (g1 src v) | None => None end =
    match alist_get N.eqb l2 src with Some v => Some (g2 src v) | None => None end.
  Proof.
    intros V1 V2 W g1 g2 src.
    induction l1 as [|[k1 v1] t1 IH]; intros [|[k2 v2] t2] H; cbn [map] in H; try discriminate; [reflexivity|].
    inversion H as [[Hk Hv Ht]]. cbn [fst snd] in *. subst k2. cbn [alist_get].
    destruct (N.eqb_spec src k1) as [->|_]; [rewrite Hv; reflexivity | apply IH; exact Ht].
  Qed.

  (** ** records against requested breakpoints *)
  Lemma map_fst_combine : forall (A B : Type) (l : list A) (l' : list B),
    length l = length l' -> map fst (combine l l') = l.
  Proof.
    induction l as [|x t IH]; intros [|y t'] H; cbn in *; try reflexivity; try discriminate.
    f_equal. apply IH. lia.
  Qed.
  Lemma map_snd_combine : forall (A B : Type) (l : list A) (l' : list B),
    length l = length l' -> map snd (combine l l') = l'.
  Proof.
    induction l as [|x t IH]; intros [|y t'] H; cbn in *; try reflexivity; try discriminate.
    f_equal. apply IH. lia.
  Qed.

  Lemma cons_eq_inv : forall (A : Type) (x y : A) l l', x :: l = y :: l' -> x = y /\ l = l'.
  Proof. intros A x y l l' H. inversion H. split; reflexivity. Qed.

  Lemma view_pairs : forall r locs o, recview r = itemview locs o ->
    map fst (pairs r) = locs /\ map snd (pairs r) = r_nums r.
  Proof.
    intros r locs o H. unfold recview, itemview in H. inversion H as [[Hl Hn Hc Hh Hlg]].
    unfold pairs.
    split; [apply map_fst_combine | apply map_snd_combine]; symmetry; exact Hn.
  Qed.

  Lemma views_pairs : forall (I : Type) (L : I -> list N) (O : I -> opts) rs items,
    map recview rs = map (fun it => itemview (L it) (O it)) items ->
    map fst (pairs_of rs) = flat_map L items /\ map snd (pairs_of rs) = flat_map r_nums rs.
  Proof.
    intros I L O. induction rs as [|r t IH]; intros [|it items] H; cbn [map] in H; try discriminate.
    - split; reflexivity.
    - apply cons_eq_inv in H. destruct H as [Hr Ht].
      destruct (IH _ Ht) as [H1 H2]. destruct (view_pairs _ _ _ Hr) as [H3 H4].
      rewrite pairs_of_cons, !map_app. cbn [flat_map]. rewrite H1, H2, H3, H4. split; reflexivity.
  Qed.

  Definition src_recs_view (e : N * list brec) : N * list (list N * nat * optview) :=
    (fst e, map recview (snd e)).
  Definition src_spec_view (pe : N * list (N * opts)) : N * list (list N * nat * optview) :=
    (fst pe, map (fun b => itemview (line_locs rl bias (fst pe) b) (snd b)) (snd pe)).
  Definition Psrc (l : list (N * list brec)) : list (N * N) := AF (fun _ rs => pairs_of rs) l.
  Definition Fsrc (l : list (N * list (N * opts))) : list N :=
    AF (fun src bps => flat_map (line_locs rl bias src) bps) l.
  Definition all_pairs (s : sess) : list (N * N) := Psrc (s_src s) ++ pairs_of (s_fn s) ++ pairs_of (s_ins s).

  Notation EXP := (expected_locs rl rf va bias).
  Lemma EXP_unfold : forall p, EXP p = Fsrc (p_src p) ++ flat_map (fn_locs rf bias) (p_fn p) ++ flat_map (ins_locs va bias) (p_ins p).
  Proof. reflexivity. Qed.

  Lemma src_views_locs : forall ls lp, map src_recs_view ls = map src_spec_view lp ->
    map fst (Psrc ls) = Fsrc lp.
  Proof.
    induction ls as [|[s0 rs0] t IH]; intros [|[s1 b1] lp] H; cbn [map] in H; try discriminate; [reflexivity|].
    inversion H as [[Hs Hv Ht]]. cbn [fst snd] in *. subst s1.
    unfold Psrc, Fsrc, AF. cbn [flat_map fst snd]. rewrite map_app. f_equal.
    - exact (proj1 (views_pairs _ _ _ _ _ Hv)).
    - apply IH. exact Ht.
  Qed.

  Lemma src_get_views : forall src ls lp, map src_recs_view ls = map src_spec_view lp ->
    map recview (src_get src ls) =
    map (fun b => itemview (line_locs rl bias src b) (snd b))
        (match alist_get N.eqb lp src with Some bps => bps | None => [] end).
  Proof.
    intros src ls lp H. unfold src_get.
    pose proof (alist_get_view _ _ _ (fun _ rs => map recview rs)
                  (fun s bps => map (fun b => itemview (line_locs rl bias s b) (snd b)) bps) src ls lp H) as Hg.
    destruct (alist_get N.eqb ls src); destruct (alist_get N.eqb lp src); inversion Hg; reflexivity.
  Qed.

  (** ** the invariant *)
  Record Inv (s : sess) (p : spec_st) (n : N) : Prop := mk_Inv {
    i_wf : WF (s_dbg s);
    i_num : d_num (s_dbg s) <= n;
    i_src : map src_recs_view (s_src s) = map src_spec_view (p_src p);
    i_fn : map recview (s_fn s) = map (fun b => itemview (fn_locs rf bias b) (snd b)) (p_fn p);
    i_ins : map recview (s_ins s) = map (fun b => itemview (ins_locs va bias b) (snd b)) (p_ins p);
    i_nd : NoDup (EXP p);
    i_keys : NoDup (map fst (p_src p));
    i_link : forall e, In e (ents (s_dbg s)) <-> In e (all_pairs s)
  }.

  Lemma all_pairs_locs : forall s p n, Inv s p n -> map fst (all_pairs s) = EXP p.
  Proof.
    intros s p n [_ _ Is If Ii _ _ _]. unfold all_pairs. rewrite !map_app, EXP_unfold.
    rewrite (src_views_locs _ _ Is), (proj1 (views_pairs _ _ _ _ _ If)), (proj1 (views_pairs _ _ _ _ _ Ii)).
    reflexivity.
  Qed.

  Lemma ents_nf : forall d, WF d -> nf (ents d).
  Proof.
    intros d W e e' H1 H2 E. pose proof W as [Wip Wnip Wke Wne Wkd Wnd _ _].
    destruct (phase_dec (d_phase d)) as [Hp|Hp].
    - unfold ents in *. rewrite (Wip Hp) in *. cbn [dis_ents map] in *. rewrite app_nil_r in *. apply Wne; assumption.
    - unfold ents in *. rewrite (Wnip Hp) in *. cbn [app] in *.
      apply in_dis_ents in H1. apply in_dis_ents in H2. destruct H1 as [k1 [H1 X1]]. destruct H2 as [k2 [H2 X2]].
      rewrite X1, X2. f_equal. rewrite E in H1. apply (Wnd (k1, snd e') (k2, snd e') H1 H2). reflexivity.
  Qed.

  (* removing the numbers of one group of pairs leaves exactly the other group *)
  Lemma remove_group : forall d PK PO, WF d ->
    (forall e, In e (ents d) <-> In e (PK ++ PO)) -> NoDup (map fst (PK ++ PO)) ->
    let d' := remove_nums (map snd PK) d in
    WF d' /\ d_num d' = d_num d /\ d_phase d' = d_phase d /\ forall e, In e (ents d') <-> In e PO.
  Proof.
    intros d PK PO W Hl Hnd. destruct (remove_nums_sem (map snd PK) d W) as [W1 [Hn1 [Hp1 Hs1]]].
    split; [exact W1|]. split; [exact Hn1|]. split; [exact Hp1|].
    intro e. rewrite Hs1, Hl, in_app_iff. split.
    - intros [[H|H] Hn]; [exfalso; apply Hn; apply in_map; exact H | exact H].
    - intro H. split; [right; exact H|]. intro Hn. apply in_map_iff in Hn. destruct Hn as [e' [E He']].
      assert (Hf : fst e' = fst e).
      { apply (ents_nf d W); [apply Hl; apply in_or_app; left; exact He' | apply Hl; apply in_or_app; right; exact H | exact E]. }
      rewrite map_app in Hnd. apply (NoDup_app_disj _ _ _ (fst e) Hnd); [rewrite <- Hf|]; apply in_map; assumption.
  Qed.

  (** ** each request preserves the invariant *)
  Lemma flat_map_map : forall (A B C : Type) (f : A -> B) (g : B -> list C) l,
    flat_map g (map f l) = flat_map (fun x => g (f x)) l.
  Proof. induction l as [|x t IH]; cbn [map flat_map]; [reflexivity | rewrite IH; reflexivity]. Qed.

  Lemma NoDup_fst_fun : forall (l : list (N * N)) e e', NoDup (map fst l) -> In e l -> In e' l -> fst e = fst e' -> e = e'.
  Proof.
    induction l as [|x t IH]; intros e e' Hn H1 H2 E; [inversion H1|].
    cbn [map] in Hn. inversion Hn as [|? ? Hni Hnt]; subst. destruct H1 as [->|H1]; destruct H2 as [->|H2].
    - reflexivity.
    - exfalso. apply Hni. rewrite E. apply in_map; exact H2.
    - exfalso. apply Hni. rewrite <- E. apply in_map; exact H1.
    - apply IH; assumption.
  Qed.

  Lemma EXP_ge_bias : forall p x, In x (EXP p) -> bias <= x.
  Proof.
    intros p x H. rewrite EXP_unfold in H. rewrite !in_app_iff in H. destruct H as [H|[H|H]].
    - unfold Fsrc, AF in H. apply in_flat_map in H. destruct H as [e [_ H]].
      apply in_flat_map in H. destruct H as [b [_ H]]. unfold line_locs in H.
      apply in_map_iff in H. destruct H as [g [Hg _]]. lia.
    - apply in_flat_map in H. destruct H as [b [_ H]]. unfold fn_locs in H.
      destruct (fst b); [|inversion H]. apply in_map_iff in H. destruct H as [g [Hg _]]. lia.
    - apply in_flat_map in H. destruct H as [b [_ H]]. unfold ins_locs in H.
      destruct (fst b) as [a|]; [|inversion H]. destruct (valid va bias a) eqn:V; [|inversion H].
      destruct H as [H|[]]. subst x. unfold valid in V. apply andb_true_iff in V. destruct V as [_ V].
      apply N.leb_le in V. exact V.
  Qed.

  Lemma views_keys : forall ls lp, map src_recs_view ls = map src_spec_view lp -> map fst ls = map fst lp.
  Proof.
    intros ls lp H. apply (f_equal (map fst)) in H. rewrite !map_map in H. exact H.
  Qed.

  (* what every breakpoint-setting step has in common, after the old group PK was located *)
  Lemma link_perm : forall s p n PK PO, Inv s p n -> Permutation (all_pairs s) (PK ++ PO) ->
    (forall e, In e (ents (s_dbg s)) <-> In e (PK ++ PO)) /\ NoDup (map fst (PK ++ PO)).
  Proof.
    intros s p n PK PO HI Hperm. split.
    - intro e. rewrite (i_link _ _ _ HI). split; intro H; [eapply Permutation_in; eauto | eapply Permutation_in; [apply Permutation_sym; exact Hperm | exact H]].
    - eapply Permutation_NoDup; [apply Permutation_map; exact Hperm|]. rewrite (all_pairs_locs _ _ _ HI). apply (i_nd _ _ _ HI).
  Qed.

  Lemma fn_locs_gs : forall b, fn_locs rf bias b = map (N.add bias) (fn_gs b).
  Proof. intros [[f|] o]; reflexivity. Qed.

  Lemma step_fn_inv : forall s p n bps s' r,
    Inv s p n -> NoDup (EXP (spec_step p (SetFunction bps))) ->
    n + cost rl rf (SetFunction bps) < lim32 ->
    step rl rf va wo bias s (SetFunction bps) = Ok (s', r) ->
    Inv s' (spec_step p (SetFunction bps)) (n + cost rl rf (SetFunction bps)) /\
    d_phase (s_dbg s') = d_phase (s_dbg s).
  Proof.
    intros s p n bps s' r HI Hnd Hc Hs. pose proof HI as [Iw In_ Is If Ii Ind Ik Il].
    cbn [step] in Hs. destruct (i64_max <? s_next s + N.of_nat (length bps)); [discriminate|].
    destruct (set_fns rf bias bps (remove_records (s_fn s) (s_dbg s)) (s_next s)) as [d2 rs] eqn:E.
    inversion Hs; subst s' r. clear Hs.
    set (PK := pairs_of (s_fn s)). set (PO := Psrc (s_src s) ++ pairs_of (s_ins s)).
    destruct (link_perm s p n PK PO HI) as [Hl Hn].
    { unfold all_pairs, PK, PO. apply Permutation_app_swap_app. }
    rewrite remove_records_flat, <- (proj2 (views_pairs _ _ _ _ _ If)) in E. fold PK in E.
    destruct (remove_group _ PK PO Iw Hl Hn) as [W1 [Hn1 [Hp1 Hs1]]].
    rewrite set_fns_places in E.
    cbn [spec_step] in Hnd. rewrite EXP_unfold in Hnd. cbn [p_src p_fn p_ins] in Hnd.
    cbn [cost] in Hc.
    assert (Hloc : flat_map item_locs (map (fun b => (fn_gs b, snd b)) bps) = flat_map (fn_locs rf bias) bps).
    { rewrite flat_map_map. apply flat_map_ext. intro b. unfold item_locs. cbn [fst]. symmetry. apply fn_locs_gs. }
    assert (HPO : map fst PO = Fsrc (p_src p) ++ flat_map (ins_locs va bias) (p_ins p)).
    { unfold PO. rewrite map_app, (src_views_locs _ _ Is), (proj1 (views_pairs _ _ _ _ _ Ii)). reflexivity. }
    refine (let H := set_places_sem _ _ _ _ _ W1 _ _ _ E in _).
    Unshelve.
    2:{ rewrite Hn1. rewrite flat_map_map. cbn [fst]. unfold fn_gs. lia. }
    2:{ rewrite Hloc. exact (NoDup_app_l _ _ _ (NoDup_app_r _ _ _ Hnd)). }
    2:{ rewrite Hloc. intros e He Hi. apply Hs1 in He. apply (in_map fst) in He. rewrite HPO in He.
      apply in_app_iff in He. destruct He as [He|He].
      - apply (NoDup_app_disj _ _ _ _ Hnd He). apply in_or_app. left; exact Hi.
      - exact (NoDup_app_disj _ _ _ _ (NoDup_app_r _ _ _ Hnd) Hi He). }
    destruct H as [W2 [Hn2 [Hp2 [Hs2 Hv2]]]].
    split; [|cbn [s_dbg]; congruence].
    constructor; cbn [s_dbg s_src s_fn s_ins spec_step p_src p_fn p_ins].
    - exact W2.
    - rewrite Hn2, Hn1. rewrite flat_map_map. cbn [fst cost]. unfold fn_gs. lia.
    - exact Is.
    - rewrite Hv2, map_map. apply map_ext. intro b. unfold item_locs. cbn [fst snd]. rewrite fn_locs_gs. reflexivity.
    - exact Ii.
    - rewrite EXP_unfold. exact Hnd.
    - exact Ik.
    - intro e. rewrite Hs2, Hs1. unfold all_pairs, PO. cbn [s_src s_fn s_ins]. rewrite !in_app_iff. tauto.
  Qed.

  Lemma step_ins_inv : forall s p n bps s' r,
    Inv s p n -> NoDup (EXP (spec_step p (SetInstruction bps))) ->
    ins_valid va bias (d_phase (s_dbg s)) (SetInstruction bps) = true ->
    n + cost rl rf (SetInstruction bps) < lim32 ->
    step rl rf va wo bias s (SetInstruction bps) = Ok (s', r) ->
    Inv s' (spec_step p (SetInstruction bps)) (n + cost rl rf (SetInstruction bps)) /\
    d_phase (s_dbg s') = d_phase (s_dbg s).
  Proof.
    intros s p n bps s' r HI Hnd Hiv Hc Hs. pose proof HI as [Iw In_ Is If Ii Ind Ik Il].
    cbn [step] in Hs. destruct (i64_max <? s_next s + N.of_nat (length bps)); [discriminate|].
    destruct (set_instrs va bias bps (remove_records (s_ins s) (s_dbg s)) (s_next s)) as [d2 rs] eqn:E.
    inversion Hs; subst s' r. clear Hs.
    set (PK := pairs_of (s_ins s)). set (PO := Psrc (s_src s) ++ pairs_of (s_fn s)).
    destruct (link_perm s p n PK PO HI) as [Hl Hn].
    { unfold all_pairs, PK, PO. rewrite app_assoc. apply Permutation_app_comm. }
    rewrite remove_records_flat, <- (proj2 (views_pairs _ _ _ _ _ Ii)) in E. fold PK in E.
    destruct (remove_group _ PK PO Iw Hl Hn) as [W1 [Hn1 [Hp1 Hs1]]].
    cbn [spec_step] in Hnd. rewrite EXP_unfold in Hnd. cbn [p_src p_fn p_ins] in Hnd.
    cbn [cost] in Hc.
    assert (HPO : map fst PO = Fsrc (p_src p) ++ flat_map (fn_locs rf bias) (p_fn p)).
    { unfold PO. rewrite map_app, (src_views_locs _ _ Is), (proj1 (views_pairs _ _ _ _ _ If)). reflexivity. }
    refine (let H := set_instrs_sem _ _ _ _ _ W1 _ _ _ _ E in _).
    Unshelve.
    2:{ rewrite Hn1. lia. }
    2:{ rewrite Hp1. cbn [ins_valid] in Hiv. apply orb_true_iff in Hiv. destruct Hiv as [Hv|Hv]; [left|right; exact Hv].
        destruct (d_phase (s_dbg s)); try discriminate; reflexivity. }
    2:{ exact (NoDup_app_r _ _ _ (NoDup_app_r _ _ _ Hnd)). }
    2:{ intros e He Hi. apply Hs1 in He. apply (in_map fst) in He. rewrite HPO in He. rewrite app_assoc in Hnd.
        exact (NoDup_app_disj _ _ _ _ Hnd He Hi). }
    destruct H as [W2 [Hn2 [Hp2 [Hs2 Hv2]]]].
    split; [|cbn [s_dbg]; congruence].
    constructor; cbn [s_dbg s_src s_fn s_ins spec_step p_src p_fn p_ins].
    - exact W2.
    - cbn [cost]. lia.
    - exact Is.
    - exact If.
    - exact Hv2.
    - rewrite EXP_unfold. exact Hnd.
    - exact Ik.
    - intro e. rewrite Hs2, Hs1. unfold all_pairs, PO. cbn [s_src s_fn s_ins]. rewrite !in_app_iff. tauto.
  Qed.

  Lemma src_get_pairs : forall src (l : list (N * list brec)),
    pairs_of (src_get src l) = AG (fun _ rs => pairs_of rs) src l.
  Proof. intros src l. unfold src_get, AG. destruct (alist_get N.eqb l src); reflexivity. Qed.

  Lemma step_src_inv : forall s p n src bps s' r,
    Inv s p n -> NoDup (EXP (spec_step p (SetSource src bps))) ->
    n + cost rl rf (SetSource src bps) < lim32 ->
    step rl rf va wo bias s (SetSource src bps) = Ok (s', r) ->
    Inv s' (spec_step p (SetSource src bps)) (n + cost rl rf (SetSource src bps)) /\
    d_phase (s_dbg s') = d_phase (s_dbg s).
  Proof.
    intros s p n src bps s' r HI Hnd Hc Hs. pose proof HI as [Iw In_ Is If Ii Ind Ik Il].
    cbn [step] in Hs. destruct (i64_max <? s_next s + N.of_nat (length bps)); [discriminate|].
    destruct (set_lines rl bias src bps (remove_records (src_get src (s_src s)) (s_dbg s)) (s_next s)) as [d2 rs] eqn:E.
    inversion Hs; subst s' r. clear Hs.
    set (PK := pairs_of (src_get src (s_src s))).
    set (PO := Psrc (afilter src (s_src s)) ++ pairs_of (s_fn s) ++ pairs_of (s_ins s)).
    assert (Hkeys : NoDup (map fst (s_src s))) by (rewrite (views_keys _ _ Is); exact Ik).
    destruct (link_perm s p n PK PO HI) as [Hl Hn].
    { unfold all_pairs, PK, PO. rewrite src_get_pairs.
      rewrite (app_assoc (AG (fun _ rs => pairs_of rs) src (s_src s)) (Psrc (afilter src (s_src s)))).
      apply Permutation_app_tail. apply AF_perm. exact Hkeys. }
    pose proof (src_get_views src _ _ Is) as Hgv.
    rewrite remove_records_flat, <- (proj2 (views_pairs _ _ _ _ _ Hgv)) in E. fold PK in E.
    destruct (remove_group _ PK PO Iw Hl Hn) as [W1 [Hn1 [Hp1 Hs1]]].
    rewrite set_lines_places in E.
    cbn [spec_step] in Hnd. rewrite EXP_unfold in Hnd. cbn [p_src p_fn p_ins] in Hnd.
    fold (afilter src (p_src p)) in Hnd. unfold Fsrc at 1 in Hnd. unfold AF in Hnd. cbn [flat_map fst snd] in Hnd.
    fold (AF (fun src bps => flat_map (line_locs rl bias src) bps) (afilter src (p_src p))) in Hnd.
    fold (Fsrc (afilter src (p_src p))) in Hnd. rewrite <- app_assoc in Hnd.
    cbn [cost] in Hc.
    assert (Hloc : flat_map item_locs (map (fun b => (rl src (fst b), snd b)) bps) = flat_map (line_locs rl bias src) bps).
    { rewrite flat_map_map. reflexivity. }
    assert (Hfv : map src_recs_view (afilter src (s_src s)) = map src_spec_view (afilter src (p_src p))).
    { apply afilter_view; [intro; reflexivity | intro; reflexivity | exact Is]. }
    assert (HPO : map fst PO = Fsrc (afilter src (p_src p)) ++ flat_map (fn_locs rf bias) (p_fn p) ++ flat_map (ins_locs va bias) (p_ins p)).
    { unfold PO. rewrite !map_app, (src_views_locs _ _ Hfv), (proj1 (views_pairs _ _ _ _ _ If)), (proj1 (views_pairs _ _ _ _ _ Ii)). reflexivity. }
    refine (let H := set_places_sem _ _ _ _ _ W1 _ _ _ E in _).
    Unshelve.
    2:{ rewrite Hn1. rewrite flat_map_map. cbn [fst]. lia. }
    2:{ rewrite Hloc. exact (NoDup_app_l _ _ _ Hnd). }
    2:{ rewrite Hloc. intros e He Hi. apply Hs1 in He. apply (in_map fst) in He. rewrite HPO in He.
        exact (NoDup_app_disj _ _ _ _ Hnd Hi He). }
    destruct H as [W2 [Hn2 [Hp2 [Hs2 Hv2]]]].
    split; [|cbn [s_dbg]; congruence].
    constructor; cbn [s_dbg s_src s_fn s_ins spec_step p_src p_fn p_ins].
    - exact W2.
    - rewrite Hn2, Hn1. rewrite flat_map_map. cbn [fst cost]. lia.
    - cbn [map]. f_equal.
      + unfold src_recs_view, src_spec_view. cbn [fst snd]. f_equal. rewrite Hv2, map_map. reflexivity.
      + exact Hfv.
    - exact If.
    - exact Ii.
    - rewrite EXP_unfold. cbn [p_src p_fn p_ins]. fold (afilter src (p_src p)).
      unfold Fsrc at 1. unfold AF. cbn [flat_map fst snd].
      fold (AF (fun src bps => flat_map (line_locs rl bias src) bps) (afilter src (p_src p))).
      fold (Fsrc (afilter src (p_src p))). rewrite <- app_assoc. exact Hnd.
    - apply (afilter_keys (fun (_ : N) (_ : list (N * opts)) => @nil N) src bps). exact Ik.
    - intro e. rewrite Hs2, Hs1. unfold all_pairs, PO. cbn [s_src s_fn s_ins].
      fold (afilter src (s_src s)). unfold Psrc at 2. unfold AF. cbn [flat_map fst snd].
      fold (AF (fun (_ : N) rs => pairs_of rs) (afilter src (s_src s))). fold (Psrc (afilter src (s_src s))).
      rewrite !in_app_iff. tauto.
  Qed.

  (* data breakpoints never touch the breakpoint registry *)
  Definition core (d : dbg) := (d_phase d, d_en d, d_dis d, d_num d).
  Lemma WF_core : forall d d', core d = core d' -> WF d -> WF d'.
  Proof.
    intros d d' H W. unfold core in H. inversion H as [[Hp He Hd Hn]]. destruct W as [a b c e f g h i].
    constructor; unfold ents in *; rewrite <- ?Hp, <- ?He, <- ?Hd, <- ?Hn; assumption.
  Qed.
  Lemma ents_core : forall d d', core d = core d' -> ents d = ents d'.
  Proof. intros d d' H. unfold core in H. inversion H as [[Hp He Hd Hn]]. unfold ents. rewrite He, Hd. reflexivity. Qed.
  Lemma remove_wps_core : forall (m : list (N * N)) d,
    core (fold_left (fun d e => dbg_remove_wp d (fst e)) m d) = core d.
  Proof. induction m as [|e t IH]; intro d; cbn [fold_left]; [reflexivity|]. rewrite IH. reflexivity. Qed.
  Lemma set_datas_core : forall bps d id m d2 m2 rsp,
    set_datas wo bps d id m = (d2, m2, rsp) -> core d2 = core d.
  Proof.
    induction bps as [|b t IH]; intros d id m d2 m2 rsp H; cbn [set_datas] in H.
    - inversion H; reflexivity.
    - destruct b as [a|].
      + destruct (dbg_set_wp wo d a) as [d1|] eqn:Ew.
        * destruct (set_datas wo t d1 (id + 1) _) as [[d3 m3] r3] eqn:E. inversion H; subst.
          rewrite (IH _ _ _ _ _ _ E). unfold dbg_set_wp in Ew.
          destruct (in_progress d && wo a && negb (existsb (N.eqb a) (d_wps d)) && (N.of_nat (length (d_wps d)) <? 4));
            inversion Ew; reflexivity.
        * destruct (set_datas wo t d (id + 1) m) as [[d3 m3] r3] eqn:E. inversion H; subst. eapply IH; eauto.
      + destruct (set_datas wo t d (id + 1) m) as [[d3 m3] r3] eqn:E. inversion H; subst. eapply IH; eauto.
  Qed.

  (* hits only change hit counters *)
  Definition keep (r : brec) := (recview r, pairs r).
  Lemma bump_keep : forall r, keep (bump r) = keep r.
  Proof. intro r. reflexivity. Qed.
  Lemma bump_first_keep : forall k rs rs' b, bump_first k rs = Some (rs', b) -> map keep rs' = map keep rs.
  Proof.
    induction rs as [|r t IH]; intros rs' b H; cbn [bump_first] in H; [discriminate|].
    destruct (rec_has k r).
    - inversion H; subst. reflexivity.
    - destruct (bump_first k t) as [[t' b']|] eqn:E; [|discriminate]. inversion H; subst.
      cbn [map]. f_equal. eapply IH; eauto.
  Qed.
  Lemma keep_views : forall rs rs', map keep rs' = map keep rs ->
    map recview rs' = map recview rs /\ pairs_of rs' = pairs_of rs.
  Proof.
    intros rs rs' H. split.
    - apply (f_equal (map fst)) in H. rewrite !map_map in H. exact H.
    - apply (f_equal (map snd)) in H. rewrite !map_map in H. unfold pairs_of. rewrite !flat_map_concat_map.
      unfold keep in H. cbn [snd] in H.
      replace (map pairs rs') with (map (fun x => pairs x) rs') by reflexivity. rewrite H. reflexivity.
  Qed.
  Lemma bump_src_keep : forall k l l' b, bump_src k l = Some (l', b) ->
    map src_recs_view l' = map src_recs_view l /\ Psrc l' = Psrc l.
  Proof.
    induction l as [|[src rs] t IH]; intros l' b H; cbn [bump_src] in H; [discriminate|].
    destruct (bump_first k rs) as [[rs' b']|] eqn:E.
    - inversion H; subst. destruct (keep_views _ _ (bump_first_keep _ _ _ _ E)) as [H1 H2].
      unfold Psrc, AF. cbn [map flat_map fst snd]. unfold src_recs_view at 1 3. cbn [fst snd]. rewrite H1, H2. split; reflexivity.
    - destruct (bump_src k t) as [[t' b']|] eqn:E2; [|discriminate]. inversion H; subst.
      destruct (IH _ _ eq_refl) as [H1 H2]. unfold Psrc, AF in *. cbn [map flat_map]. rewrite H1, H2. split; reflexivity.
  Qed.
  Lemma record_hit_inv : forall s k s' b p n, record_hit s k = Some (s', b) -> Inv s p n -> Inv s' p n /\ s_dbg s' = s_dbg s.
  Proof.
    intros s k s' b p n H [Iw In_ Is If Ii Ind Ik Il]. unfold record_hit in H.
    destruct (bump_src k (s_src s)) as [[l b1]|] eqn:E1.
    { inversion H; subst. split; [|reflexivity]. destruct (bump_src_keep _ _ _ _ E1) as [H1 H2].
      constructor; cbn [s_src s_fn s_ins s_dbg]; try assumption.
      - rewrite H1. exact Is.
      - intro e. rewrite Il. unfold all_pairs. cbn [s_src s_fn s_ins]. rewrite H2. tauto. }
    destruct (bump_first k (s_fn s)) as [[l b1]|] eqn:E2.
    { inversion H; subst. split; [|reflexivity]. destruct (keep_views _ _ (bump_first_keep _ _ _ _ E2)) as [H1 H2].
      constructor; cbn [s_src s_fn s_ins s_dbg]; try assumption.
      - rewrite H1. exact If.
      - intro e. rewrite Il. unfold all_pairs. cbn [s_src s_fn s_ins]. rewrite H2. tauto. }
    destruct (bump_first k (s_ins s)) as [[l b1]|] eqn:E3; [|discriminate].
    inversion H; subst. split; [|reflexivity]. destruct (keep_views _ _ (bump_first_keep _ _ _ _ E3)) as [H1 H2].
    constructor; cbn [s_src s_fn s_ins s_dbg]; try assumption.
    - rewrite H1. exact Ii.
    - intro e. rewrite Il. unfold all_pairs. cbn [s_src s_fn s_ins]. rewrite H2. tauto.
  Qed.

  Lemma Inv_ents_kf : forall s p n, Inv s p n -> kf (ents (s_dbg s)).
  Proof.
    intros s p n HI e e' H1 H2 E. apply (i_link _ _ _ HI) in H1. apply (i_link _ _ _ HI) in H2.
    rewrite (NoDup_fst_fun (all_pairs s) e e'); auto. rewrite (all_pairs_locs _ _ _ HI). apply (i_nd _ _ _ HI).
  Qed.
  Lemma Inv_ge_bias : forall s p n, Inv s p n -> forall e, In e (d_en (s_dbg s)) -> bias <= fst e.
  Proof.
    intros s p n HI e He. apply (EXP_ge_bias p). rewrite <- (all_pairs_locs _ _ _ HI). apply in_map.
    apply (i_link _ _ _ HI). unfold ents. apply in_or_app. left; exact He.
  Qed.

  Lemma Inv_dbg : forall s p n d', Inv s p n -> WF d' -> d_num d' = d_num (s_dbg s) ->
    (forall e, In e (ents d') <-> In e (ents (s_dbg s))) -> Inv (with_dbg s d') p n.
  Proof.
    intros s p n d' [Iw In_ Is If Ii Ind Ik Il] W Hn He.
    constructor; cbn [with_dbg s_dbg s_src s_fn s_ins]; try assumption.
    - rewrite Hn. exact In_.
    - intro e. rewrite He. apply Il.
  Qed.

  Lemma Inv_mono : forall s p n m, Inv s p n -> n <= m -> Inv s p m.
  Proof. intros s p n m [Iw In_ Is If Ii Ind Ik Il] H. constructor; try assumption. lia. Qed.

  Lemma step_other_inv : forall s p n q s' r,
    is_bp_set q = false -> Inv s p n -> step rl rf va wo bias s q = Ok (s', r) ->
    Inv s' (spec_step p q) n /\ d_phase (s_dbg s') = next_phase q (d_phase (s_dbg s)).
  Proof.
    intros s p n q s' r Hq HI Hs. pose proof HI as [Iw In_ Is If Ii Ind Ik Il].
    destruct q as [src bps|bps|bps|bps| | | |a cv]; try discriminate; cbn [spec_step next_phase].
    - (* SetData *)
      cbn [step] in Hs. destruct (i64_max <? s_next s + N.of_nat (length bps)); [discriminate|].
      destruct (set_datas wo bps _ (s_next s) []) as [[d2 m] rsp] eqn:E. inversion Hs; subst s' r.
      assert (Hc : core (s_dbg s) = core d2).
      { rewrite (set_datas_core _ _ _ _ _ _ _ E), remove_wps_core. reflexivity. }
      split.
      + constructor; cbn [s_src s_fn s_ins s_dbg]; try assumption.
        * eapply WF_core; eauto.
        * assert (Hn : d_num d2 = d_num (s_dbg s)) by (unfold core in Hc; congruence). lia.
        * intro e. rewrite <- (ents_core _ _ Hc). apply Il.
      + cbn [s_dbg]. unfold core in Hc. inversion Hc. destruct (d_phase (s_dbg s)); reflexivity.
    - (* Start *)
      cbn [step] in Hs. destruct (d_phase (s_dbg s)) eqn:Hp; inversion Hs; subst s' r.
      + destruct (enable_all_sem (s_dbg s) Iw) as [W1 [Hn1 [Hp1 Hs1]]]; [rewrite Hp; discriminate | eapply Inv_ents_kf; eauto|].
        split; [apply Inv_dbg; assumption | exact Hp1].
      + split; [exact HI | exact Hp].
      + split; [exact HI | exact Hp].
    - (* Restart *)
      cbn [step] in Hs. destruct (d_phase (s_dbg s)) eqn:Hp; inversion Hs; subst s' r.
      + destruct (enable_all_sem (s_dbg s) Iw) as [W1 [Hn1 [Hp1 Hs1]]]; [rewrite Hp; discriminate | eapply Inv_ents_kf; eauto|].
        split; [apply Inv_dbg; assumption | exact Hp1].
      + destruct (disable_all_sem (s_dbg s) Unload Iw Hp) as [W0 [Hn0 [Hp0 Hs0]]]; [discriminate | eapply Inv_ge_bias; eauto|].
        destruct (enable_all_sem _ W0) as [W1 [Hn1 [Hp1 Hs1]]].
        { rewrite Hp0. discriminate. }
        { intros e e' H1 H2. apply Hs0 in H1. apply Hs0 in H2. apply (Inv_ents_kf _ _ _ HI); assumption. }
        split; [|exact Hp1].
        apply Inv_dbg; [exact HI | exact W1 | congruence | intro e; rewrite Hs1; apply Hs0].
      + destruct (enable_all_sem (s_dbg s) Iw) as [W1 [Hn1 [Hp1 Hs1]]]; [rewrite Hp; discriminate | eapply Inv_ents_kf; eauto|].
        split; [apply Inv_dbg; assumption | exact Hp1].
    - (* Exit *)
      cbn [step] in Hs. destruct (d_phase (s_dbg s)) eqn:Hp; inversion Hs; subst s' r.
      + split; [exact HI | exact Hp].
      + destruct (disable_all_sem (s_dbg s) Exited Iw Hp) as [W0 [Hn0 [Hp0 Hs0]]]; [discriminate | eapply Inv_ge_bias; eauto|].
        split; [apply Inv_dbg; assumption | exact Hp0].
      + split; [exact HI | exact Hp].
    - (* Hit *)
      cbn [step] in Hs.
      assert (Hph : forall ph : phase, match ph with Unload => ph | InProgress => ph | Exited => ph end = ph)
        by (intros []; reflexivity).
      destruct (if in_progress (s_dbg s) then alist_get N.eqb (d_en (s_dbg s)) a else None) as [num|].
      + destruct (record_hit s num) as [[s1 b]|] eqn:E.
        * destruct (decide b cv) as [st o]. inversion Hs; subst s' r.
          destruct (record_hit_inv _ _ _ _ p n E HI) as [H1 H2]. split; [exact H1|]. rewrite H2.
          destruct (d_phase (s_dbg s)); reflexivity.
        * inversion Hs; subst s' r. split; [exact HI|]. destruct (d_phase (s_dbg s)); reflexivity.
      + inversion Hs; subst s' r. split; [exact HI|]. destruct (d_phase (s_dbg s)); reflexivity.
  Qed.

  (** ** whole histories *)
  Lemma Inv_init : forall n0, Inv (sess_init n0) spec_init n0.
  Proof.
    intro n0. constructor.
    - constructor; cbn; try reflexivity; try (intros e e' []); try (intros e []); try (intros a n []).
    - cbn. lia.
    - reflexivity.
    - reflexivity.
    - reflexivity.
    - constructor.
    - constructor.
    - intro e. cbn. tauto.
  Qed.

  Lemma run_inv : forall h s p n s' rs,
    Inv s p n -> guard_from rl rf va bias n (d_phase (s_dbg s)) p h = true ->
    run rl rf va wo bias s h = Ok (s', rs) -> exists m, Inv s' (fold_left spec_step h p) m.
  Proof.
    induction h as [|q t IH]; intros s p n s' rs HI Hg Hr.
    - cbn in Hr. inversion Hr; subst. exists n. exact HI.
    - cbn [run] in Hr. destruct (step rl rf va wo bias s q) as [[s1 r1]| | |] eqn:Es; cbn [bind] in Hr; try discriminate.
      cbn [fst snd] in Hr.
      destruct (run rl rf va wo bias s1 t) as [[s2 r2]| | |] eqn:Er; cbn [bind] in Hr; try discriminate.
      cbn [fst snd] in Hr. inversion Hr; subst s' rs. clear Hr.
      cbn [guard_from] in Hg. apply andb_true_iff in Hg. destruct Hg as [Hg1 Hg2].
      cbn [fold_left].
      assert (Hstep : Inv s1 (spec_step p q) (n + cost rl rf q) /\ d_phase (s_dbg s1) = next_phase q (d_phase (s_dbg s))).
      { destruct (is_bp_set q) eqn:Eq.
        - apply andb_true_iff in Hg1. destruct Hg1 as [Hg1 Hlim]. apply andb_true_iff in Hg1.
          destruct Hg1 as [Hnd Hiv]. apply nodupb_NoDup in Hnd. apply N.ltb_lt in Hlim.
          destruct q; try discriminate; cbn [next_phase].
          + eapply step_src_inv; eauto.
          + eapply step_fn_inv; eauto.
          + eapply step_ins_inv; eauto.
        - destruct (step_other_inv _ _ _ _ _ _ Eq HI Es) as [H1 H2]. split; [|exact H2].
          eapply Inv_mono; [exact H1 | lia]. }
      destruct Hstep as [HI1 Hp1]. rewrite <- Hp1 in Hg2. eapply IH; eauto.
  Qed.

  Lemma reg_locs_ents : forall d, reg_locs bias d = map fst (ents d).
  Proof. intro d. unfold reg_locs, ents, dis_ents. rewrite map_app, map_map. reflexivity. Qed.

  (** C13_replace: for every history -- breakpoint requests before the start, while running,
      after the exit, across restarts, lines with any number of locations -- in which no
      location is shared by two requested breakpoints (boolean [guard], which also carries the
      two technical clauses described at its definition), the registry's locations are exactly
      the locations of the latest sets. *)
  Theorem C13_replace : forall n0 h s rs,
    guard rl rf va bias n0 h = true ->
    run rl rf va wo bias (sess_init n0) h = Ok (s, rs) ->
    forall x, In x (reg_locs bias (s_dbg s)) <-> In x (EXP (spec_run h)).
  Proof.
    intros n0 h s rs Hg Hr x.
    destruct (run_inv h _ _ _ _ _ (Inv_init n0) Hg Hr) as [m HI].
    unfold spec_run. rewrite reg_locs_ents, <- (all_pairs_locs _ _ _ HI). rewrite !in_map_iff.
    split; intros [e [He Hi]]; exists e; (split; [exact He|]); apply (i_link _ _ _ HI); exact Hi.
  Qed.

  (** ** options are consulted whenever the breakpoint was created *)
  Lemma bump_first_found : forall k rs rs' b, bump_first k rs = Some (rs', b) -> In k (r_nums b).
  Proof.
    induction rs as [|r t IH]; intros rs' b H; cbn [bump_first] in H; [discriminate|].
    destruct (rec_has k r) eqn:E.
    - inversion H; subst. unfold rec_has in E. apply existsb_eqb_In in E. exact E.
    - destruct (bump_first k t) as [[t' b']|] eqn:E2; [|discriminate]. inversion H; subst. eapply IH; reflexivity.
  Qed.
  Lemma bump_src_found : forall k l l' b, bump_src k l = Some (l', b) -> In k (r_nums b).
  Proof.
    induction l as [|[src rs] t IH]; intros l' b H; cbn [bump_src] in H; [discriminate|].
    destruct (bump_first k rs) as [[rs' b']|] eqn:E.
    - inversion H; subst. eapply bump_first_found; eauto.
    - destruct (bump_src k t) as [[t' b']|] eqn:E2; [|discriminate]. inversion H; subst. eapply IH; reflexivity.
  Qed.
  Lemma bump_first_some : forall k rs, In k (flat_map r_nums rs) -> bump_first k rs <> None.
  Proof.
    induction rs as [|r t IH]; intro H; cbn [flat_map] in H; [inversion H|].
    cbn [bump_first]. destruct (rec_has k r) eqn:E; [discriminate|].
    apply in_app_iff in H. destruct H as [H|H].
    - exfalso. unfold rec_has in E. apply existsb_eqb_In in H. congruence.
    - specialize (IH H). destruct (bump_first k t) as [[? ?]|]; [discriminate | congruence].
  Qed.
  Lemma bump_src_some : forall k (l : list (N * list brec)),
    In k (flat_map (fun e => flat_map r_nums (snd e)) l) -> bump_src k l <> None.
  Proof.
    induction l as [|[src rs] t IH]; intro H; cbn [flat_map snd] in H; [inversion H|].
    cbn [bump_src]. apply in_app_iff in H.
    destruct (bump_first k rs) as [[rs' b]|] eqn:E; [discriminate|].
    destruct H as [H|H].
    - exfalso. exact (bump_first_some k rs H E).
    - specialize (IH H). destruct (bump_src k t) as [[? ?]|]; [discriminate | congruence].
  Qed.
  Lemma pairs_nums : forall rs e, In e (pairs_of rs) -> In (snd e) (flat_map r_nums rs).
  Proof.
    intros rs [x n] H. unfold pairs_of in H. apply in_flat_map in H. destruct H as [r [Hr H]].
    apply in_flat_map. exists r. split; [exact Hr|]. unfold pairs in H. eapply in_combine_r; eauto.
  Qed.
  Lemma Psrc_nums : forall l e, In e (Psrc l) -> In (snd e) (flat_map (fun e => flat_map r_nums (snd e)) l).
  Proof.
    intros l e H. unfold Psrc, AF in H. apply in_flat_map in H. destruct H as [x [Hx H]].
    apply in_flat_map. exists x. split; [exact Hx|]. apply pairs_nums. exact H.
  Qed.
  Lemma alist_get_in : forall (l : list (N * N)) x n, In (x, n) l -> exists n', alist_get N.eqb l x = Some n' /\ In (x, n') l.
  Proof.
    induction l as [|[k v] t IH]; intros x n H; [inversion H|]. cbn [alist_get].
    destruct (N.eqb_spec x k) as [->|Hne].
    - exists v. split; [reflexivity | left; reflexivity].
    - destruct H as [H|H]; [inversion H; congruence|]. destruct (IH _ _ H) as [n' [H1 H2]].
      exists n'. split; [exact H1 | right; exact H2].
  Qed.

  (** C13_options: under the guard, whenever the running program traps at a location of the
      latest sets, the adapter finds the record owning the breakpoint installed there -- no
      matter in which phase that record was created -- and applies [decide] to it
      (C13_options_record: [decide] is the specified option semantics). *)
  Theorem C13_options : forall n0 h s rs x,
    guard rl rf va bias n0 h = true ->
    run rl rf va wo bias (sess_init n0) h = Ok (s, rs) ->
    d_phase (s_dbg s) = InProgress ->
    In x (EXP (spec_run h)) ->
    exists num s' b, alist_get N.eqb (d_en (s_dbg s)) x = Some num /\
                     record_hit s num = Some (s', b) /\ In num (r_nums b).
  Proof.
    intros n0 h s rs x Hg Hr Hp Hx.
    destruct (run_inv h _ _ _ _ _ (Inv_init n0) Hg Hr) as [m HI].
    unfold spec_run in Hx. rewrite <- (all_pairs_locs _ _ _ HI) in Hx. apply in_map_iff in Hx.
    destruct Hx as [[x' n] [Hx He]]. cbn [fst] in Hx. subst x'.
    pose proof (proj2 (i_link _ _ _ HI _) He) as Hent.
    unfold ents in Hent. rewrite (w_ip _ (i_wf _ _ _ HI) Hp) in Hent. cbn [dis_ents map] in Hent. rewrite app_nil_r in Hent.
    destruct (alist_get_in _ _ _ Hent) as [num [Hget Hin]]. exists num.
    assert (Hall : In (x, num) (all_pairs s)).
    { apply (i_link _ _ _ HI). unfold ents. apply in_or_app. left; exact Hin. }
    unfold all_pairs in Hall. rewrite !in_app_iff in Hall. unfold record_hit.
    destruct (bump_src num (s_src s)) as [[l b]|] eqn:E1.
    { eexists _, _. split; [exact Hget|]. split; [reflexivity|]. eapply bump_src_found; eauto. }
    destruct Hall as [Hall|Hall].
    { exfalso. apply Psrc_nums in Hall. exact (bump_src_some _ _ Hall E1). }
    destruct (bump_first num (s_fn s)) as [[l b]|] eqn:E2.
    { eexists _, _. split; [exact Hget|]. split; [reflexivity|]. eapply bump_first_found; eauto. }
    destruct Hall as [Hall|Hall].
    { exfalso. apply pairs_nums in Hall. exact (bump_first_some _ _ Hall E2). }
    destruct (bump_first num (s_ins s)) as [[l b]|] eqn:E3.
    { eexists _, _. split; [exact Hget|]. split; [reflexivity|]. eapply bump_first_found; eauto. }
    exfalso. apply pairs_nums in Hall. exact (bump_first_some _ _ Hall E3).
  Qed.

  Theorem C13_options_record : forall id addrs nums o n cv,
    n + 1 < u64_lim -> (o_cond o = true -> cv <> None) ->
    fst (decide (bump (mk_rec id addrs nums (o_cond o) (parse_hit_opt (o_hit o)) (o_log o) n)) cv)
    = spec_stop o (n + 1) cv.
  Proof.
    intros id addrs nums o n cv Hn Hc. unfold bump. cbn [r_hits r_id r_addrs r_nums r_cond r_hit r_log].
    destruct (N.eqb_spec n (u64_lim - 1)) as [E|_]; [unfold u64_lim in *; lia|].
    unfold decide, spec_stop. cbn [r_cond r_hit r_log r_hits].
    destruct (o_cond o) eqn:Ec.
    - destruct cv as [[|]|]; [| reflexivity | exfalso; apply Hc; reflexivity].
      destruct (parse_hit_opt (o_hit o)) as [[e|e|e|e|e|raw]|]; cbn [hc_matches andb];
        try (destruct (o_log o); reflexivity);
        match goal with |- context [if ?c then _ else _] => destruct c end; cbn [andb fst]; destruct (o_log o); reflexivity.
    - destruct (parse_hit_opt (o_hit o)) as [[e|e|e|e|e|raw]|]; cbn [hc_matches andb];
        try (destruct (o_log o); reflexivity);
        match goal with |- context [if ?c then _ else _] => destruct c end; cbn [andb fst]; destruct (o_log o); reflexivity.
  Qed.

  (** ** `verified` *)
  Definition nonempty {A} (l : list A) : bool := match l with [] => false | _ => true end.

  Lemma set_places_verified : forall items d id d2 rs,
    set_places items d id = (d2, rs) ->
    map fst (rsp_of rs) = map (fun it => nonempty (fst it)) items.
  Proof.
    induction items as [|[gs o] t IH]; intros d id d2 rs H; cbn [set_places] in H.
    - inversion H; reflexivity.
    - destruct (set_places t _ (id + 1)) as [d3 rs3] eqn:E. inversion H; subst.
      unfold rsp_of. cbn [map fst]. f_equal; [|eapply IH; eauto].
      unfold new_rec. cbn [r_addrs]. unfold view_addrs. destruct (in_progress d); destruct gs; reflexivity.
  Qed.

  Theorem C13_verified_source : forall s src bps s' l,
    step rl rf va wo bias s (SetSource src bps) = Ok (s', RBps l) ->
    map fst l = map (fun b => nonempty (line_locs rl bias src b)) bps.
  Proof.
    intros s src bps s' l H. cbn [step] in H.
    destruct (i64_max <? s_next s + N.of_nat (length bps)); [discriminate|].
    destruct (set_lines rl bias src bps _ (s_next s)) as [d2 rs] eqn:E. inversion H; subst.
    rewrite set_lines_places in E. rewrite (set_places_verified _ _ _ _ _ E), map_map. apply map_ext. intro b.
    unfold line_locs. cbn [fst]. destruct (rl src (fst b)); reflexivity.
  Qed.
  Theorem C13_verified_function : forall s bps s' l,
    step rl rf va wo bias s (SetFunction bps) = Ok (s', RBps l) ->
    map fst l = map (fun b => nonempty (fn_locs rf bias b)) bps.
  Proof.
    intros s bps s' l H. cbn [step] in H.
    destruct (i64_max <? s_next s + N.of_nat (length bps)); [discriminate|].
    destruct (set_fns rf bias bps _ (s_next s)) as [d2 rs] eqn:E. inversion H; subst.
    rewrite set_fns_places in E. rewrite (set_places_verified _ _ _ _ _ E), map_map. apply map_ext. intro b.
    rewrite fn_locs_gs. cbn [fst]. destruct (fn_gs b); reflexivity.
  Qed.

  Lemma set_instrs_verified : forall bps d id d2 rs, in_progress d = true ->
    set_instrs va bias bps d id = (d2, rs) ->
    map fst (rsp_of rs) = map (fun b => nonempty (ins_locs va bias b)) bps.
  Proof.
    induction bps as [|[ref o] t IH]; intros d id d2 rs Hp H; cbn [set_instrs] in H.
    - inversion H; reflexivity.
    - destruct (match ref with Some a => dbg_set_addr va bias d a | None => (d, []) end) as [d1 addrs] eqn:E1.
      destruct (set_instrs va bias t d1 (id + 1)) as [d3 rs3] eqn:E. inversion H; subst.
      unfold rsp_of. cbn [map fst]. unfold ins_locs. cbn [fst].
      destruct ref as [a|].
      + unfold dbg_set_addr in E1. rewrite Hp in E1. destruct (valid va bias a); inversion E1; subst.
        * f_equal. eapply IH; [|eauto]. exact Hp.
        * f_equal. eapply IH; eauto.
      + inversion E1; subst. f_equal. eapply IH; eauto.
  Qed.
  Lemma remove_records_phase : forall rs d, d_phase (remove_records rs d) = d_phase d.
  Proof.
    intros rs d. rewrite remove_records_flat. unfold remove_nums.
    generalize (flat_map r_nums rs). intro l. revert d.
    induction l as [|k t IH]; intro d; cbn [fold_left]; [reflexivity|]. rewrite IH.
    unfold dbg_remove_num, dbg_remove.
    destruct (find (fun e => snd e =? k) (d_dis d)) as [e|].
    - destruct (dis_has (fst e) (d_dis d)); [reflexivity|]. destruct (fst e); reflexivity.
    - destruct (find (fun e => snd e =? k) (d_en d)) as [e|]; [|reflexivity].
      destruct (dis_has (Rel (fst e)) (d_dis d)); reflexivity.
  Qed.
  Theorem C13_verified_instruction_partial : forall s bps s' l,
    d_phase (s_dbg s) = InProgress ->
    step rl rf va wo bias s (SetInstruction bps) = Ok (s', RBps l) ->
    map fst l = map (fun b => nonempty (ins_locs va bias b)) bps.
  Proof.
    intros s bps s' l Hp H. cbn [step] in H.
    destruct (i64_max <? s_next s + N.of_nat (length bps)); [discriminate|].
    destruct (set_instrs va bias bps _ (s_next s)) as [d2 rs] eqn:E. inversion H; subst.
    refine (set_instrs_verified _ _ _ _ _ _ E). unfold in_progress.
    rewrite remove_records_phase, Hp. reflexivity.
  Qed.

End Inv.

(* ------------------------------------------------------------------------- *)
(** * HitCondition: parse / matches against the arithmetic meaning             *)

Lemma trim_start_ws : forall w x, all_ws w -> trim_start (w ++ x) = trim_start x.
Proof.
  induction w as [|b t IH]; intros x H; [reflexivity|].
  inversion H; subst. cbn [app trim_start]. rewrite H2. apply IH. assumption.
Qed.
Lemma trim_start_id : forall b t, is_ws b = false -> trim_start (b :: t) = b :: t.
Proof. intros b t H. cbn [trim_start]. rewrite H. reflexivity. Qed.

Lemma all_ws_rev : forall w, all_ws w -> all_ws (rev w).
Proof. intros w H. unfold all_ws in *. rewrite Forall_forall in *. intros x Hx. apply H. apply in_rev. exact Hx. Qed.

Lemma trim_core : forall w1 x w3 b t b' t',
  all_ws w1 -> all_ws w3 -> x = b :: t -> is_ws b = false -> x = t' ++ [b'] -> is_ws b' = false ->
  trim (w1 ++ x ++ w3) = x.
Proof.
  intros w1 x w3 b t b' t' H1 H3 Hx Hb Hx' Hb'. unfold trim, trim_end.
  rewrite trim_start_ws by exact H1.
  rewrite Hx at 1. cbn [app]. rewrite trim_start_id by exact Hb.
  change (b :: t ++ w3) with ((b :: t) ++ w3). rewrite <- Hx.
  rewrite rev_app_distr. rewrite trim_start_ws by (apply all_ws_rev; exact H3).
  rewrite Hx'. rewrite rev_app_distr. cbn [rev app]. rewrite trim_start_id by exact Hb'.
  change (b' :: rev t') with (rev [b'] ++ rev t'). rewrite <- rev_app_distr. apply rev_involutive.
Qed.

Lemma digits_val_fold : forall s acc, all_digits s ->
  digits_val acc s = Some (fold_left (fun a b => a * 10 + (b - 48)) s acc).
Proof.
  induction s as [|b t IH]; intros acc H; [reflexivity|].
  inversion H; subst. cbn [digits_val fold_left]. rewrite H2. apply IH. assumption.
Qed.
Lemma digits_val_inv : forall s acc v, digits_val acc s = Some v ->
  all_digits s /\ v = fold_left (fun a b => a * 10 + (b - 48)) s acc.
Proof.
  induction s as [|b t IH]; intros acc v H; cbn [digits_val] in H.
  - inversion H. split; [constructor | reflexivity].
  - destruct (is_digit b) eqn:E; [|discriminate]. destruct (IH _ _ H) as [H1 H2].
    split; [constructor; assumption | exact H2].
Qed.

Lemma digit_not_ws : forall b, is_digit b = true -> is_ws b = false.
Proof.
  intros b H. unfold is_digit in H. apply andb_true_iff in H. destruct H as [H1 H2].
  apply N.leb_le in H1. apply N.leb_le in H2. unfold is_ws.
  destruct (N.eqb_spec b 32); [lia|]. destruct (N.leb_spec 9 b); destruct (N.leb_spec b 13); cbn; try reflexivity; lia.
Qed.
Lemma digit_range : forall b, is_digit b = true -> 48 <= b <= 57.
Proof.
  intros b H. unfold is_digit in H. apply andb_true_iff in H. destruct H as [H1 H2].
  apply N.leb_le in H1. apply N.leb_le in H2. lia.
Qed.
Lemma ws_range : forall b, is_ws b = true -> b = 32 \/ 9 <= b <= 13.
Proof.
  intros b H. unfold is_ws in H. apply orb_true_iff in H. destruct H as [H|H].
  - apply N.eqb_eq in H. left; exact H.
  - apply andb_true_iff in H. destruct H as [H1 H2]. apply N.leb_le in H1. apply N.leb_le in H2. right; lia.
Qed.

(* a number token: optional '+' and digits *)
Definition num_tok (x sign ds : bstr) : Prop :=
  x = sign ++ ds /\ (sign = [] \/ sign = [43]) /\ ds <> [] /\ all_digits ds.

Lemma num_tok_head : forall x sign ds, num_tok x sign ds ->
  exists b t, x = b :: t /\ is_ws b = false /\ b <> 60 /\ b <> 61 /\ b <> 62.
Proof.
  intros x sign ds [Hx [Hs [Hne Hd]]]. destruct Hs as [-> | ->].
  - destruct ds as [|b t]; [congruence|]. inversion Hd; subst. exists b, t.
    pose proof (digit_range _ H1). split; [reflexivity|]. split; [apply digit_not_ws; assumption|]. lia.
  - exists 43, ds. subst x. split; [reflexivity|]. split; [reflexivity|]. lia.
Qed.
Lemma num_tok_last : forall x sign ds, num_tok x sign ds ->
  exists t b, x = t ++ [b] /\ is_ws b = false.
Proof.
  intros x sign ds [Hx [Hs [Hne Hd]]]. destruct (exists_last Hne) as [t [b Hds]].
  exists (sign ++ t), b. subst x ds. rewrite app_assoc. split; [reflexivity|].
  apply digit_not_ws. unfold all_digits in Hd. rewrite Forall_forall in Hd. apply Hd.
  apply in_or_app. right. left. reflexivity.
Qed.
Lemma parse_u64_nonplus : forall b t, b <> 43 ->
  parse_u64 (b :: t) = match digits_val 0 (b :: t) with
                       | Some v => if v <? u64_lim then Some v else None
                       | None => None
                       end.
Proof.
  intros b t H. unfold parse_u64.
  destruct b as [|p]; [reflexivity|].
  do 6 (destruct p as [p|p|]; try reflexivity). congruence.
Qed.
Lemma num_tok_parse : forall x sign ds, num_tok x sign ds ->
  parse_u64 x = if dec_value ds <? u64_lim then Some (dec_value ds) else None.
Proof.
  intros x sign ds [Hx [Hs [Hne Hd]]]. destruct Hs as [-> | ->]; cbn [app] in Hx; subst x; [|unfold parse_u64].
  - destruct ds as [|b t]; [congruence|]. inversion Hd; subst.
    pose proof (digit_range _ H1).
    rewrite parse_u64_nonplus by lia. rewrite (digits_val_fold _ _ Hd). reflexivity.
  - destruct ds as [|b t]; [congruence|]. rewrite (digits_val_fold _ _ Hd). reflexivity.
Qed.

(* head of "<ws> number": never one of '<' '=' '>' *)
Lemma ws_num_head : forall w2 x sign ds, all_ws w2 -> num_tok x sign ds ->
  exists c r, w2 ++ x = c :: r /\ c <> 60 /\ c <> 61 /\ c <> 62.
Proof.
  intros w2 x sign ds Hw Hn. destruct w2 as [|c r].
  - destruct (num_tok_head _ _ _ Hn) as [b [t [Hx [_ H]]]]. exists b, t. cbn [app]. tauto.
  - inversion Hw; subst. exists c, (r ++ x). split; [reflexivity|].
    destruct (ws_range _ H1); lia.
Qed.

Lemma trim_ws_num : forall w2 x sign ds, all_ws w2 -> num_tok x sign ds -> trim (w2 ++ x) = x.
Proof.
  intros w2 x sign ds Hw Hn.
  destruct (num_tok_head _ _ _ Hn) as [b [t [Hx [Hb _]]]].
  destruct (num_tok_last _ _ _ Hn) as [t' [b' [Hx' Hb']]].
  rewrite <- (app_nil_r x) at 1. eapply trim_core; eauto. constructor.
Qed.

Ltac neq_head :=
  repeat match goal with
  | |- context [?a =? ?c] => destruct (N.eqb_spec a c); [congruence|]
  end.

(** Soundness: on every string of the documented syntax the parser yields the denoted
    comparison (so [matches] is its arithmetic meaning). *)
Theorem C13_hitcondition_sound : forall s o v,
  hc_denotes s o v -> hc_as_op (hc_parse s) = Some (o, v).
Proof.
  intros s o v [w1 [tok [w2 [sign [ds [w3 [Hs [H1 [H2 [H3 [Htok [Hsign [Hne [Hd [Hv Hlim]]]]]]]]]]]]]]].
  assert (Hn : num_tok (sign ++ ds) sign ds) by (split; [reflexivity | tauto]).
  set (x := sign ++ ds) in *.
  destruct (ws_num_head w2 x sign ds H2 Hn) as [c [r [Hcr [Hc0 [Hc1 Hc2]]]]].
  destruct (num_tok_last _ _ _ Hn) as [t' [b' [Hx' Hb']]].
  assert (Hp : parse_u64 x = Some v).
  { rewrite (num_tok_parse _ _ _ Hn). rewrite Hv. apply N.ltb_lt in Hlim. rewrite Hlim. reflexivity. }
  assert (Htr : trim (w2 ++ x) = x) by (eapply trim_ws_num; eauto).
  assert (Hs' : s = w1 ++ (tok ++ w2 ++ x) ++ w3).
  { rewrite Hs. unfold x. rewrite <- !app_assoc. reflexivity. }
  destruct tok as [|k0 tk].
  - (* no operator *)
    assert (Ho : o = OpEq) by (destruct o; cbn in Htok; intuition congruence). subst o.
    assert (Ht : trim s = x).
    { rewrite Hs'. cbn [app].
      replace (w1 ++ (w2 ++ x) ++ w3) with ((w1 ++ w2) ++ x ++ w3) by (rewrite <- !app_assoc; reflexivity).
      destruct (num_tok_head _ _ _ Hn) as [b [t [Hx [Hb _]]]].
      eapply trim_core; eauto. unfold all_ws in *. apply Forall_app. split; assumption. }
    unfold hc_parse. rewrite Ht.
    destruct (num_tok_head _ _ _ Hn) as [b [t [Hx [Hb [Hb0 [Hb1 Hb2]]]]]].
    rewrite Hx. cbn [strip_prefix]. neq_head. rewrite <- Hx.
    assert (Htx : trim x = x).
    { rewrite <- (app_nil_l x) at 1. eapply trim_ws_num; eauto. constructor. }
    rewrite Htx, Hp. reflexivity.
  - assert (Ht : trim s = (k0 :: tk) ++ w2 ++ x).
    { rewrite Hs'.
      apply (trim_core w1 _ w3 k0 (tk ++ w2 ++ x) b' ((k0 :: tk) ++ w2 ++ t') H1 H3).
      - reflexivity.
      - destruct o; cbn in Htok; intuition; try discriminate;
          match goal with H : _ = k0 :: tk |- _ => inversion H; reflexivity end.
      - rewrite Hx'. rewrite <- !app_assoc. reflexivity.
      - exact Hb'. }
    unfold hc_parse. rewrite Ht, Hcr.
    destruct o; cbn in Htok; intuition; try discriminate;
      match goal with H : _ = k0 :: tk |- _ => inversion H; subst k0 tk end;
      cbn [app strip_prefix]; repeat (progress (rewrite ?N.eqb_refl; neq_head)); rewrite <- ?Hcr, Htr, Hp; reflexivity.
Qed.

Theorem C13_hitcondition_matches : forall s o v n,
  hc_denotes s o v -> hc_matches (hc_parse s) n = op_eval o n v.
Proof.
  intros s o v n H. apply C13_hitcondition_sound in H.
  destruct (hc_parse s); cbn in H; inversion H; subst; reflexivity.
Qed.

(** Completeness: whenever the parser yields a comparison, the input has the documented
    syntax with that meaning; everything else is [Invalid] (which always matches). *)
Lemma trim_start_decomp : forall s, exists w, all_ws w /\ s = w ++ trim_start s.
Proof.
  induction s as [|b t IH].
  - exists []. split; [constructor | reflexivity].
  - cbn [trim_start]. destruct (is_ws b) eqn:E.
    + destruct IH as [w [Hw Ht]]. exists (b :: w). split; [constructor; assumption|].
      cbn [app]. f_equal. exact Ht.
    + exists []. split; [constructor | reflexivity].
Qed.
Lemma trim_end_decomp : forall s, exists w, all_ws w /\ s = trim_end s ++ w.
Proof.
  intro s. destruct (trim_start_decomp (rev s)) as [w [Hw Hs]]. exists (rev w).
  split; [apply all_ws_rev; exact Hw|]. unfold trim_end.
  rewrite <- rev_app_distr, <- Hs, rev_involutive. reflexivity.
Qed.
Lemma trim_decomp : forall s, exists w1 w3, all_ws w1 /\ all_ws w3 /\ s = w1 ++ trim s ++ w3.
Proof.
  intro s. destruct (trim_start_decomp s) as [w1 [H1 Hs1]].
  destruct (trim_end_decomp (trim_start s)) as [w3 [H3 Hs3]].
  exists w1, w3. split; [exact H1|]. split; [exact H3|]. unfold trim. rewrite <- Hs3. exact Hs1.
Qed.
Lemma strip_prefix_some : forall p s r, strip_prefix p s = Some r -> s = p ++ r.
Proof.
  induction p as [|x ps IH]; intros s r H; cbn [strip_prefix] in H.
  - inversion H; reflexivity.
  - destruct s as [|y ss]; [discriminate|]. destruct (N.eqb_spec x y); [|discriminate].
    subst y. cbn [app]. f_equal. apply IH. exact H.
Qed.
Lemma parse_u64_inv : forall x v, parse_u64 x = Some v ->
  exists sign ds, num_tok x sign ds /\ dec_value ds = v /\ v < u64_lim.
Proof.
  intros x v H. destruct x as [|b t]; [discriminate|].
  destruct (N.eq_dec b 43) as [->|Hb].
  - unfold parse_u64 in H. destruct t as [|c t']; [discriminate|].
    destruct (digits_val 0 (c :: t')) as [v0|] eqn:E; [|discriminate].
    destruct (N.ltb_spec v0 u64_lim); [|discriminate]. inversion H; subst v0.
    destruct (digits_val_inv _ _ _ E) as [Hd Hv].
    exists [43], (c :: t'). split; [|split; [symmetry; exact Hv | assumption]].
    split; [reflexivity|]. split; [right; reflexivity|]. split; [discriminate | exact Hd].
  - rewrite (parse_u64_nonplus b t Hb) in H.
    destruct (digits_val 0 (b :: t)) as [v0|] eqn:E; [|discriminate].
    destruct (N.ltb_spec v0 u64_lim); [|discriminate]. inversion H; subst v0.
    destruct (digits_val_inv _ _ _ E) as [Hd Hv].
    exists [], (b :: t). split; [|split; [symmetry; exact Hv | assumption]].
    split; [reflexivity|]. split; [left; reflexivity|]. split; [discriminate | exact Hd].
Qed.

Lemma num_denotes : forall s w1 w3 tok r o mk t0 o' v,
  all_ws w1 -> all_ws w3 -> s = w1 ++ (tok ++ r) ++ w3 -> In tok (op_toks o) ->
  (forall n, hc_as_op (mk n) = Some (o, n)) ->
  hc_as_op (match parse_u64 (trim r) with Some v0 => mk v0 | None => HInvalid t0 end) = Some (o', v) ->
  hc_denotes s o' v.
Proof.
  intros s w1 w3 tok r o mk t0 o' v H1 H3 Hs Htok Hmk H.
  destruct (parse_u64 (trim r)) as [v0|] eqn:E; [|discriminate].
  rewrite Hmk in H. inversion H; subst o' v0. clear H.
  destruct (parse_u64_inv _ _ E) as [sign [ds [[Hx [Hsg [Hne Hd]]] [Hv Hl]]]].
  destruct (trim_decomp r) as [wa [wb [Ha [Hb Hr]]]].
  exists w1, tok, wa, sign, ds, (wb ++ w3).
  split.
  { rewrite Hs, Hr, Hx. rewrite <- !app_assoc. reflexivity. }
  split; [exact H1|]. split; [exact Ha|]. split; [apply Forall_app; split; assumption|].
  split; [exact Htok|]. tauto.
Qed.

Theorem C13_hitcondition_complete : forall s o v,
  hc_as_op (hc_parse s) = Some (o, v) -> hc_denotes s o v.
Proof.
  intros s o v H. destruct (trim_decomp s) as [w1 [w3 [H1 [H3 Hs]]]].
  unfold hc_parse in H. set (t := trim s) in *.
  destruct (strip_prefix [62; 61] t) as [r|] eqn:E1.
  { apply strip_prefix_some in E1. rewrite E1 in Hs.
    refine (num_denotes s w1 w3 [62; 61] r OpGe HGe t o v H1 H3 Hs _ _ H); [left; reflexivity | intro; reflexivity]. }
  destruct (strip_prefix [60; 61] t) as [r|] eqn:E2.
  { apply strip_prefix_some in E2. rewrite E2 in Hs.
    refine (num_denotes s w1 w3 [60; 61] r OpLe HLe t o v H1 H3 Hs _ _ H); [left; reflexivity | intro; reflexivity]. }
  destruct (strip_prefix [61; 61] t) as [r|] eqn:E3.
  { apply strip_prefix_some in E3. rewrite E3 in Hs.
    refine (num_denotes s w1 w3 [61; 61] r OpEq HExact t o v H1 H3 Hs _ _ H); [right; right; left; reflexivity | intro; reflexivity]. }
  destruct (strip_prefix [61] t) as [r|] eqn:E4.
  { apply strip_prefix_some in E4. rewrite E4 in Hs.
    refine (num_denotes s w1 w3 [61] r OpEq HExact t o v H1 H3 Hs _ _ H); [right; left; reflexivity | intro; reflexivity]. }
  destruct (strip_prefix [62] t) as [r|] eqn:E5.
  { apply strip_prefix_some in E5. rewrite E5 in Hs.
    refine (num_denotes s w1 w3 [62] r OpGt HGt t o v H1 H3 Hs _ _ H); [left; reflexivity | intro; reflexivity]. }
  destruct (strip_prefix [60] t) as [r|] eqn:E6.
  { apply strip_prefix_some in E6. rewrite E6 in Hs.
    refine (num_denotes s w1 w3 [60] r OpLt HLt t o v H1 H3 Hs _ _ H); [left; reflexivity | intro; reflexivity]. }
  refine (num_denotes s w1 w3 [] t OpEq HExact t o v H1 H3 Hs _ _ H); [left; reflexivity | intro; reflexivity].
Qed.

(** The exact set of inputs that are rejected: [parse] never fails and never panics; it
    yields [Invalid] (which [matches] every hit, with a console message) exactly on the strings
    outside the syntax -- "%2", "0x10", "1_0", "> = 3", "2^64", "-1", "" ... *)
Theorem C13_hitcondition_invalid_iff : forall s,
  (exists raw, hc_parse s = HInvalid raw) <-> ~ exists o v, hc_denotes s o v.
Proof.
  intro s. split.
  - intros [raw H] [o [v Hd]]. apply C13_hitcondition_sound in Hd. rewrite H in Hd. discriminate.
  - intro Hn. destruct (hc_parse s) as [n|n|n|n|n|raw] eqn:E; try (eexists; reflexivity); exfalso; apply Hn.
    + exists OpEq, n. apply C13_hitcondition_complete. rewrite E. reflexivity.
    + exists OpGe, n. apply C13_hitcondition_complete. rewrite E. reflexivity.
    + exists OpGt, n. apply C13_hitcondition_complete. rewrite E. reflexivity.
    + exists OpLt, n. apply C13_hitcondition_complete. rewrite E. reflexivity.
    + exists OpLe, n. apply C13_hitcondition_complete. rewrite E. reflexivity.
Qed.

Theorem C13_hitcondition : forall s n,
  (forall o v, hc_denotes s o v -> hc_matches (hc_parse s) n = op_eval o n v) /\
  ((~ exists o v, hc_denotes s o v) -> hc_matches (hc_parse s) n = true).
Proof.
  intros s n. split.
  - intros o v H. apply C13_hitcondition_matches. exact H.
  - intro H. apply C13_hitcondition_invalid_iff in H. destruct H as [raw H]. rewrite H. reflexivity.
Qed.

(* ------------------------------------------------------------------------- *)
(** * Witness histories                                                        *)
(* Witness program: source file 1; line 10 has one location (global 100), line 12 one (120),
   line 20 belongs to a generic function with two instantiations (200 and 300); function
   name 7 starts at 100, function 8 at 500 and 600; load bias 4096; initial counter 1. *)
Definition w_rl (src line : N) : list N :=
  if line =? 10 then [100] else if line =? 12 then [120] else if line =? 20 then [200; 300] else [].
Definition w_rf (f : N) : list N := if f =? 7 then [100] else if f =? 8 then [500; 600] else [].
Definition w_va (a : N) : bool := 4096 <=? a.
Definition w_bias : N := 4096.
Definition w_run := run w_rl w_rf w_va w_va w_bias (sess_init 1).
Definition w_exp (h : list req) := expected_locs w_rl w_rf w_va w_bias (spec_run h).
Definition w_guard := guard w_rl w_rf w_va w_bias 1.
Definition w_locs (r : res (sess * list resp)) : option (list N) :=
  match r with Ok (s, _) => Some (reg_locs w_bias (s_dbg s)) | _ => None end.
Definition w_last (r : res (sess * list resp)) : option resp :=
  match r with Ok (_, rs) => Some (last rs RNone) | _ => None end.

Definition o_cond_only : opts := mk_opts true None false.
Definition o_log_only : opts := mk_opts false None true.
Definition o_hit2 : opts := mk_opts false (Some [50]) false.      (* hitCondition "2" *)

(** STILL OPEN.  Two requested breakpoints of different kinds at one address: clearing one
    kind removes the other kind's breakpoint (the registry holds one breakpoint per address),
    which stays reported as verified. *)
Theorem C13_shared_location_refuted :
  let h := [Start; SetSource 1 [(10, no_opts)]; SetFunction [(Some 7, no_opts)]; SetFunction []] in
  w_exp h = [4196] /\ w_locs (w_run h) = Some [] /\ w_guard h = false.
Proof. vm_compute. repeat split. Qed.

(** STILL OPEN.  An instruction breakpoint set while the debuggee is not running is always
    answered verified, even at an address where nothing can be installed; it is dropped
    silently at the start. *)
Theorem C13_instr_verified_refuted :
  let h := [SetInstruction [(Some 5, no_opts)]; Start] in
  w_exp h = [] /\ w_locs (w_run h) = Some [] /\ w_guard h = false
  /\ w_last (w_run [SetInstruction [(Some 5, no_opts)]]) = Some (RBps [(true, 1)]).
Proof. vm_compute. repeat split. Qed.

(* FIXED by a630610 / 5361f91 (were C13_phase_refuted, C13_phase_options_refuted,
   C13_multi_location_refuted, C13_exited_refuted on the old model, kept in
   ProofsDapBp_old.v.bak):
     C13_phase_refuted_old          [SetSource 1 [10]; Start; SetSource 1 []]           registry [4196], expected []
     C13_phase_options_refuted_old  [SetSource 1 [10 opts]; Start; Hit 4196]            stopped regardless of condition / logpoint / hit count
     C13_multi_location_refuted_old [Start; SetSource 1 [20]; SetSource 1 []]           registry [4396], expected []
     C13_exited_refuted_old         [Start; SetSource 1 [10]; Exit; SetSource 1 []; Restart]  registry [4196], expected []
   The same histories on the current model satisfy the guard and the property: *)
Example C13_formerly_refuted_now_hold :
  (let h := [SetSource 1 [(10, no_opts)]; Start; SetSource 1 []] in
   w_guard h = true /\ w_exp h = [] /\ w_locs (w_run h) = Some [])
  /\ (let h := [Start; SetSource 1 [(20, no_opts)]; SetSource 1 []] in
      w_guard h = true /\ w_exp h = [] /\ w_locs (w_run h) = Some [])
  /\ (let h := [Start; SetSource 1 [(10, no_opts)]; Exit; SetSource 1 []; Restart] in
      w_guard h = true /\ w_exp h = [] /\ w_locs (w_run h) = Some [])
  /\ w_last (w_run [SetSource 1 [(10, o_cond_only)]; Start; Hit 4196 (Some false)]) = Some (RHit false 0)
  /\ w_last (w_run [SetSource 1 [(10, o_log_only)]; Start; Hit 4196 (Some true)]) = Some (RHit false 1)
  /\ w_last (w_run [SetSource 1 [(10, o_hit2)]; Start; Hit 4196 (Some true)]) = Some (RHit false 0)
  /\ w_last (w_run [Start; SetSource 1 [(20, o_log_only)]; Hit 4396 (Some true)]) = Some (RHit false 1).
Proof. vm_compute. repeat split. Qed.

(** the guard of C13_replace is satisfiable by a history with every kind of request in every
    phase (before the start, running, after the exit, across restarts) and a two-location line *)
Definition w_good : list req :=
  [SetSource 1 [(10, o_cond_only); (20, o_hit2)]; SetFunction [(Some 8, o_log_only)]; SetInstruction [(Some 4236, no_opts)];
   Start; Hit 4196 (Some true); Hit 4396 (Some true); SetSource 1 [(12, no_opts); (20, o_log_only)]; Restart;
   Exit; SetFunction []; SetSource 2 [(10, no_opts)]; Restart; SetInstruction []; Hit 4196 (Some true)].
Example guard_nonvacuous :
  w_guard w_good = true /\ w_locs (w_run w_good) = Some [4396; 4296; 4216; 4196]
  /\ w_exp w_good = [4196; 4216; 4296; 4396].
Proof. vm_compute. repeat split. Qed.

(* HitCondition samples (bytes of the strings in the comments) *)
Example hc_samples :
  hc_parse [32; 62; 61; 32; 43; 53; 32] = HGe 5                       (* " >= +5 " *)
  /\ hc_parse [48] = HExact 0                                         (* "0": never matches, hits start at 1 *)
  /\ hc_parse [37; 50] = HInvalid [37; 50]                            (* "%2" *)
  /\ hc_parse [62; 32; 61; 51] = HInvalid [62; 32; 61; 51]            (* "> =3" *)
  /\ hc_parse [61; 62; 51] = HInvalid [61; 62; 51]                    (* "=>3" *)
  /\ hc_parse [45; 49] = HInvalid [45; 49]                            (* "-1" *)
  /\ hc_parse [49;56;52;52;54;55;52;52;48;55;51;55;48;57;53;53;49;54;49;53] = HExact 18446744073709551615
  /\ (exists r, hc_parse [49;56;52;52;54;55;52;52;48;55;51;55;48;57;53;53;49;54;49;54] = HInvalid r). (* 2^64 *)
Proof. vm_compute. repeat split. eexists; reflexivity. Qed.

(* the case checkers on hand-made observations: the pre-fix adapter's behaviour (2), the current
   behaviour (0), a two-location line whose places share one hit counter (0) *)
Definition ex_tables (steps : list (creq * resp * list (N * N * N))) : hist_case :=
  mk_hist_case [((1, 10), [100]); ((1, 20), [200; 300])] [(7, [100])] [4196] [] 4096 1 steps.
Example hist_check_examples :
  hist_check (ex_tables
    [ (CSetSource 1 [(10, mk_opts true None false)], RBps [(true, 1)], [(1, 1, 100)]);
      (CStart, RRun true, [(1, 0, 4196)]);
      (CHit 4196 (Some false), RHit true 0, [(1, 0, 4196)]);
      (CSetSource 1 [], RBps [], [(1, 0, 4196)]) ]) = 2
  /\ hist_check (ex_tables
    [ (CSetSource 1 [(10, mk_opts true None false)], RBps [(true, 1)], [(1, 1, 100)]);
      (CStart, RRun true, [(1, 0, 4196)]);
      (CHit 4196 (Some false), RHit false 0, [(1, 0, 4196)]);
      (CSetSource 1 [], RBps [], []) ]) = 0
  /\ hist_check (ex_tables
    [ (CStart, RRun true, []);
      (CSetSource 1 [(20, mk_opts false (Some [50]) false)], RBps [(true, 1)], [(1, 0, 4296); (2, 0, 4396)]);
      (CHit 4296 (Some true), RHit false 0, [(1, 0, 4296); (2, 0, 4396)]);
      (CHit 4396 (Some true), RHit true 0, [(1, 0, 4296); (2, 0, 4396)]);
      (CSetSource 1 [], RBps [], []) ]) = 0
  /\ hc_check ([32; 62; 61; 32; 43; 53; 32], 7, (1, 5), true) = 0
  /\ hc_check ([37; 50], 7, (5, 0), true) = 0.
Proof. vm_compute. repeat split. Qed.
