Definition STEP_QUIET_DEQUEUES : bool := true.
