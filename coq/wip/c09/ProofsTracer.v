(* C09 / C10 - proofs about the tracer model (ModelTracer.v). *)
From BS Require Import Model.Base.
From W Require Import ModelTracer.
From Coq Require Import Lia.
Open Scope N_scope.

Ltac inv H := inversion H; subst.

(* ===================================================================================== *)
(* A. thread-table lemmas                                                                  *)
(* ===================================================================================== *)
Lemma tget_tset : forall l x v y,
  tget (tset l x v) y = if x =? y then match tget l x with Some _ => Some v | None => None end else tget l y.
Proof.
  induction l as [|[z s] l IH]; intros x v y; cbn [tset tget alist_get].
  - destruct (x =? y); reflexivity.
  - destruct (x =? z) eqn:Exz; cbn [tget alist_get].
    + apply N.eqb_eq in Exz; subst z. rewrite (N.eqb_sym y x). destruct (x =? y); reflexivity.
    + unfold tget in IH. rewrite IH. destruct (x =? y) eqn:Exy.
      * apply N.eqb_eq in Exy; subst y. rewrite Exz. reflexivity.
      * reflexivity.
Qed.

Lemma tget_app : forall l x v y, tget l x = None -> tget (l ++ [(x, v)]) y = if x =? y then Some v else tget l y.
Proof.
  induction l as [|[z s] l IH]; intros x v y H; cbn [app tget alist_get] in *.
  - rewrite (N.eqb_sym y x). destruct (x =? y); reflexivity.
  - destruct (x =? z) eqn:Exz; [discriminate|]. unfold tget in IH. rewrite IH by exact H.
    destruct (y =? z) eqn:Eyz; [|reflexivity].
    apply N.eqb_eq in Eyz; subst z. rewrite Exz. reflexivity.
Qed.

Lemma tget_tadd : forall l x y, tget (tadd l x) y = if x =? y then Some (TStopped StInterrupt) else tget l y.
Proof.
  intros l x y. unfold tadd. destruct (tget l x) eqn:E.
  - rewrite tget_tset, E. reflexivity.
  - apply tget_app; exact E.
Qed.

Lemma tget_tremove : forall l x y, tget (tremove l x) y = if x =? y then None else tget l y.
Proof.
  induction l as [|[z s] l IH]; intros x y; cbn [tremove filter tget alist_get fst].
  - destruct (x =? y); reflexivity.
  - destruct (z =? x) eqn:Ezx; cbn [negb tget alist_get].
    + apply N.eqb_eq in Ezx; subst z. unfold tremove, tget in IH. rewrite IH.
      rewrite (N.eqb_sym y x). destruct (x =? y); reflexivity.
    + unfold tremove, tget in IH. rewrite IH. destruct (y =? z) eqn:Eyz; [|reflexivity].
      apply N.eqb_eq in Eyz; subst z. rewrite (N.eqb_sym x y), Ezx. reflexivity.
Qed.

Definition st_of (t : tracer) (x : N) := tget (t_threads t) x.
Definition allstopped (t : tracer) : Prop := forall x, st_of t x <> Some TRunning.

(* ---- the thread table never holds a thread id twice ---------------------------------- *)
Definition keys_ok (t : tracer) : Prop := NoDup (map fst (t_threads t)).

Lemma tset_keys : forall l x v, map fst (tset l x v) = map fst l.
Proof.
  induction l as [|[z s] l IH]; intros x v; cbn [tset map fst]; [reflexivity|].
  destruct (x =? z); cbn [map fst]; [reflexivity | rewrite IH; reflexivity].
Qed.
Lemma tget_none_notin : forall l x, tget l x = None -> ~ In x (map fst l).
Proof.
  induction l as [|[z s] l IH]; intros x H; cbn [tget alist_get map fst In] in *; [tauto|].
  destruct (x =? z) eqn:E; [discriminate|]. apply N.eqb_neq in E. intros [H1|H1]; [congruence | eapply IH; eauto].
Qed.
Lemma nodup_snoc : forall (l : list N) x, NoDup l -> ~ In x l -> NoDup (l ++ [x]).
Proof.
  induction l as [|a l IH]; intros x H Hn; cbn [app].
  - constructor; [intros []|constructor].
  - inv H. constructor.
    + rewrite in_app_iff. intros [Hi|[Hi|[]]]; [contradiction|]. apply Hn. left. auto.
    + apply IH; auto. intros Hin. apply Hn. right. exact Hin.
Qed.
Lemma nodup_filter_keys : forall (g : N * tstatus -> bool) l, NoDup (map fst l) -> NoDup (map fst (filter g l)).
Proof.
  induction l as [|a l IH]; intros H; cbn [filter map]; [constructor|].
  cbn [map] in H. inv H. destruct (g a); cbn [map]; auto. constructor; auto.
  intros Hin. apply H2. apply in_map_iff in Hin. destruct Hin as [b [Hb1 Hb2]].
  apply filter_In in Hb2. apply in_map_iff. exists b. tauto.
Qed.
Lemma keys_set : forall t x v, keys_ok t -> keys_ok (t_set t x v).
Proof. intros t x v H. unfold keys_ok, t_set; cbn [t_threads with_threads]. rewrite tset_keys. exact H. Qed.
Lemma keys_add : forall t x, keys_ok t -> keys_ok (t_add t x).
Proof.
  intros t x H. unfold keys_ok, t_add, tadd; cbn [t_threads with_threads].
  destruct (tget (t_threads t) x) eqn:E.
  - rewrite tset_keys. exact H.
  - rewrite map_app. cbn [map fst]. apply nodup_snoc; auto. apply tget_none_notin; exact E.
Qed.
Lemma keys_remove : forall t x, keys_ok t -> keys_ok (t_remove t x).
Proof. intros t x H. unfold keys_ok, t_remove, tremove; cbn [t_threads with_threads]. apply nodup_filter_keys. exact H. Qed.
Lemma keys_ensure : forall t x st t', ensure_stop t x st = Ok t' -> keys_ok t -> keys_ok t'.
Proof. intros t x st t' H K. unfold ensure_stop in H. destruct (tget (t_threads t) x); inv H. apply keys_set; exact K. Qed.
Lemma keys_queue : forall t q, keys_ok t -> keys_ok (with_queue t q).
Proof. intros t q H. exact H. Qed.
Lemma keys_guard : forall t g, keys_ok t -> keys_ok (with_guard t g).
Proof. intros t g H. exact H. Qed.


(* ===================================================================================== *)
(* B. All-stop, for ANY world obeying two laws                                             *)
(* ===================================================================================== *)
Definition resumes (r : preq) : option N :=
  match r with PCont x _ | PStep x _ | PSyscall x => Some x | _ => None end.

Section LAWS.
Variable W : Type.
Variable w_wait : W -> option N -> res (wstatus * W).
Variable w_req : W -> preq -> bool * W.
Variable w_pc : W -> N -> N.
Variable running : W -> N -> Prop.       (* the thread executes debuggee code *)
Variable exitstop : W -> N -> Prop.      (* the thread stands in a reported PTRACE_EVENT_EXIT stop *)

(* waiting never starts a thread; the thread whose status is returned is not running *)
Hypothesis wait_law : forall w tg s w', w_wait w tg = Ok (s, w') ->
  (forall x, running w' x -> running w x) /\ ~ running w' (ws_tid s)
  /\ (forall y, tg = Some y -> ws_tid s = y) /\ (forall p, s = WEvent p EvExit -> exitstop w' p).
(* a request starts at most the thread it resumes, and not one that is exiting *)
Hypothesis req_law : forall w r ok w', w_req w r = (ok, w') ->
  forall x, running w' x -> running w x \/ (ok = true /\ resumes r = Some x /\ ~ exitstop w x).

(* PTRACE_INTERRUPT fails (ESRCH) only for a thread that is not running any more *)
Hypothesis intr_law : forall w x w', w_req w (PInterrupt x) = (false, w') -> ~ running w' x.

Notation ans := (ans W w_wait w_req w_pc).
Notation gsi := (gsi W w_wait w_req w_pc).
Notation gsi_round := (gsi_round W w_wait w_req w_pc).
Notation gsi_while := (gsi_while W w_wait w_req w_pc).
Notation sstep := (sstep W w_wait w_req w_pc).
Notation sstep_loop := (sstep_loop W w_wait w_req w_pc).
Notation sstep_drain := (sstep_drain W w_wait w_req w_pc).
Notation resume := (resume W w_wait w_req w_pc).
Notation cont_list := (cont_list W w_req).
Notation cont_stopped_ex := (cont_stopped_ex W w_req).

(* the coupling invariant: a thread that runs is one the tracer believes to be running *)
Definition Inv (t : tracer) (w : W) : Prop := forall x, running w x -> st_of t x = Some TRunning.

Record good (t : tracer) (w : W) (t' : tracer) (w' : W) : Prop := mk_good {
  g_mono : forall x, running w' x -> running w x;
  g_chg : forall x, st_of t x = Some TRunning -> st_of t' x <> Some TRunning -> ~ running w' x;
  g_nr : forall x, st_of t x <> Some TRunning -> st_of t' x <> Some TRunning;
  g_keys : keys_ok t -> keys_ok t' }.

Lemma good_refl : forall t w, good t w t w.
Proof. intros; constructor; auto; intros x H H'; contradiction. Qed.

Lemma good_trans : forall t w t1 w1 t2 w2, good t w t1 w1 -> good t1 w1 t2 w2 -> good t w t2 w2.
Proof.
  intros t w t1 w1 t2 w2 [m1 c1 n1 k1] [m2 c2 n2 k2]. constructor; [| | |auto].
  - auto.
  - intros x Hr Hn Hrun.
    destruct (st_of t1 x) as [[|]|] eqn:E.
    + apply (c1 x Hr); [rewrite E; discriminate | auto].
    + apply (c2 x E Hn Hrun).
    + apply (c1 x Hr); [rewrite E; discriminate | auto].
  - auto.
Qed.

Lemma good_inv : forall t w t' w', good t w t' w' -> Inv t w -> Inv t' w'.
Proof.
  intros t w t' w' [m c n k] I x Hr.
  destruct (st_of t' x) as [[|]|] eqn:E; auto; exfalso;
  apply (c x (I x (m x Hr))); try (rewrite E; discriminate); auto.
Qed.

Lemma good_allstopped : forall t w t' w', good t w t' w' -> allstopped t -> allstopped t'.
Proof. intros t w t' w' [m c n k] A x. apply n, A. Qed.

(* tracer-only updates of one entry *)
Lemma good_upd : forall t w t' x,
  (forall y, y <> x -> st_of t' y = st_of t y) -> st_of t' x <> Some TRunning ->
  (st_of t x = Some TRunning -> ~ running w x) -> (keys_ok t -> keys_ok t') -> good t w t' w.
Proof.
  intros t w t' x Hy Hx Hr Hk. constructor; auto.
  - intros y Hy1 Hy2. destruct (N.eq_dec y x) as [->|Ne]; auto. rewrite (Hy y Ne) in Hy2. contradiction.
  - intros y Hy1. destruct (N.eq_dec y x) as [->|Ne]; auto. rewrite (Hy y Ne). auto.
Qed.

Lemma good_same : forall t w t', (forall y, st_of t' y = st_of t y) -> (keys_ok t -> keys_ok t') -> good t w t' w.
Proof.
  intros t w t' H Hk. constructor; auto.
  - intros x H1 H2. rewrite H in H2. contradiction.
  - intros x H1. rewrite H. auto.
Qed.

Lemma good_set : forall t w x st, ~ running w x -> good t w (t_set t x (TStopped st)) w.
Proof.
  intros t w x st Hr. apply good_upd with (x := x); auto; [| |apply keys_set].
  - intros y Ne. unfold st_of, t_set; cbn [t_threads with_threads]. rewrite tget_tset.
    destruct (x =? y) eqn:E; auto. apply N.eqb_eq in E; subst; contradiction.
  - unfold st_of, t_set; cbn [t_threads with_threads]. rewrite tget_tset, N.eqb_refl.
    destruct (tget (t_threads t) x); discriminate.
Qed.

Lemma good_add : forall t w x, (st_of t x = Some TRunning -> ~ running w x) -> good t w (t_add t x) w.
Proof.
  intros t w x Hr. apply good_upd with (x := x); auto; [| |apply keys_add].
  - intros y Ne. unfold st_of, t_add; cbn [t_threads with_threads]. rewrite tget_tadd.
    destruct (x =? y) eqn:E; auto. apply N.eqb_eq in E; subst; contradiction.
  - unfold st_of, t_add; cbn [t_threads with_threads]. rewrite tget_tadd, N.eqb_refl. discriminate.
Qed.

Lemma good_remove : forall t w x, (st_of t x = Some TRunning -> ~ running w x) -> good t w (t_remove t x) w.
Proof.
  intros t w x Hr. apply good_upd with (x := x); auto; [| |apply keys_remove].
  - intros y Ne. unfold st_of, t_remove; cbn [t_threads with_threads]. rewrite tget_tremove.
    destruct (x =? y) eqn:E; auto. apply N.eqb_eq in E; subst; contradiction.
  - unfold st_of, t_remove; cbn [t_threads with_threads]. rewrite tget_tremove, N.eqb_refl. discriminate.
Qed.

Lemma good_ensure : forall t w x st t', ensure_stop t x st = Ok t' -> ~ running w x -> good t w t' w /\ t_guard t' = t_guard t.
Proof.
  intros t w x st t' H Hr. unfold ensure_stop in H. destruct (tget (t_threads t) x); inversion H; subst.
  split; [apply good_set; auto | reflexivity].
Qed.

Lemma ensure_st : forall t x st t', ensure_stop t x st = Ok t' -> st_of t' x = Some (TStopped st).
Proof.
  intros t x st t' H. unfold ensure_stop in H. destruct (tget (t_threads t) x) eqn:E; inv H.
  unfold st_of, t_set; cbn [t_threads with_threads]. rewrite tget_tset, N.eqb_refl, E. reflexivity.
Qed.

Lemma good_world : forall t w w', (forall x, running w' x -> running w x) -> good t w t w'.
Proof. intros t w w' H. constructor; auto; intros x H1 H2; contradiction. Qed.

Lemma good_wait : forall t w tg s w', w_wait w tg = Ok (s, w') -> good t w t w'.
Proof. intros t w tg s w' H. apply good_world. apply (wait_law _ _ _ _ H). Qed.

Lemma good_req_quiet : forall t w r ok w', w_req w r = (ok, w') -> resumes r = None -> good t w t w'.
Proof.
  intros t w r ok w' H Hn. apply good_world. intros x Hr.
  destruct (req_law _ _ _ _ H x Hr) as [|[_ [E _]]]; auto. rewrite Hn in E; discriminate.
Qed.

(* a world step that may start [pid], followed by something that ends with [pid] stopped *)
Lemma step_then : forall t w w1 t' w' pid,
  (forall x, running w1 x -> running w x \/ x = pid) -> good t w1 t' w' -> ~ running w' pid -> good t w t' w'.
Proof.
  intros t w w1 t' w' pid Hs [m c n k] Hp. constructor; auto.
  intros x Hr. destruct (Hs x (m x Hr)) as [ H0 | H0 ]; auto. subst x. contradiction.
Qed.

Lemma req_starts : forall w r ok w' pid, w_req w r = (ok, w') -> resumes r = Some pid ->
  forall x, running w' x -> running w x \/ x = pid.
Proof.
  intros w r ok w' pid H Hp x Hr. destruct (req_law _ _ _ _ H x Hr) as [|[_ [E _]]]; auto.
  rewrite Hp in E; inversion E; auto.
Qed.

Definition real_stop (r : option stop_reason) : bool :=
  match r with
  | Some (SRBreakpoint _ _) | Some (SRWatchpoint _ _) => true
  | Some (SRSignal _ s) => negb (quiet s)
  | _ => false end.

Lemma good_nr : forall t w t' w' x, good t w t' w' -> ~ running w x -> ~ running w' x.
Proof. intros t w t' w' x [m _ _ _] H Hr. apply H, m, Hr. Qed.

Definition P_ans f := forall bps t w s t' w' r,
  ~ running w (ws_tid s) -> (forall p, s = WEvent p EvExit -> exitstop w p) ->
  ans f bps t w s = Ok (t', w', r) ->
  good t w t' w' /\ t_guard t' = t_guard t /\ (t_guard t = false -> real_stop r = true -> allstopped t').
Definition P_gsi f := forall bps t w i t' w', gsi f bps t w i = Ok (t', w') ->
  good t w t' w' /\ t_guard t' = t_guard t /\
  (t_guard t = false -> (forall x, i = Some x -> st_of t x <> Some TRunning) -> allstopped t').
Definition P_round f := forall bps t w tids t' w', t_guard t = true -> gsi_round f bps t w tids = Ok (t', w') ->
  good t w t' w' /\ t_guard t' = true /\ (forall x, In x tids -> st_of t' x <> Some TRunning).
Definition P_while f := forall bps t w x wait t' w', t_guard t = true ->
  ~ running w (ws_tid wait) -> (forall p, wait = WEvent p EvExit -> exitstop w p) ->
  gsi_while f bps t w x wait = Ok (t', w') -> good t w t' w' /\ t_guard t' = true.
Definition P_sstep f := forall bps t w pid t' w' r, ~ running w pid ->
  sstep f bps t w pid = Ok (t', w', r) -> good t w t' w' /\ t_guard t' = t_guard t.
Definition P_loop f := forall bps t w pid pc0 t' w' r,
  sstep_loop f bps t w pid pc0 = Ok (t', w', r) -> good t w t' w' /\ ~ running w' pid /\ t_guard t' = t_guard t.
Definition P_drain f := forall bps t w pid t' w', ~ running w pid ->
  sstep_drain f bps t w pid = Ok (t', w') -> good t w t' w' /\ t_guard t' = t_guard t.

Definition P_all f := P_ans f /\ P_gsi f /\ P_round f /\ P_while f /\ P_sstep f /\ P_loop f /\ P_drain f.

Ltac bindH H :=
  match type of H with
  | bind ?r _ = Ok _ => let E := fresh "E" in destruct r as [?|?|?|] eqn:E; cbn [bind] in H; try discriminate H
  end.

Ltac pairH H :=
  match type of H with
  | (let '(_, _) := ?p in _) = Ok _ => let a := fresh "a" in let b := fresh "w" in destruct p as [a b] eqn:?
  end.

Ltac bindN H a E :=
  match type of H with
  | bind ?r _ = Ok _ => destruct r as [a|?|?|] eqn:E; cbn [bind] in H; try discriminate H
  end.

Lemma ans_step : forall f, P_all f -> P_ans (S f).
Proof.
  intros f (IHans & IHgsi & IHround & IHwhile & IHsstep & IHloop & IHdrain).
  intros bps t w s t' w' r Hnr Hex H.
  cbn [ModelTracer.ans] in H.
  destruct s as [p code | p e | p sg code pc | p sg | p]; cbn [ws_tid] in Hnr.
  - (* Exited *) inv H. split; [apply good_remove; auto|]. split; [reflexivity|].
    intros _ Hu. destruct (p =? t_proc t); discriminate.
  - destruct e as [ | c | | | ].
    + inv H. split; [apply good_add; auto|]. split; [reflexivity|]. intros _ Hu; discriminate.
    + bindH H. destruct (good_ensure _ w _ _ _ E Hnr) as [G1 Gd1].
      destruct (tget (t_threads a) c) eqn:Ec.
      * inv H. split; [exact G1|]. split; [exact Gd1 | intros _ Hu; discriminate].
      * bindH H. destruct a0 as [ns w1].
        assert (Gadd : good a w (t_add a c) w).
        { apply good_add. unfold st_of. rewrite Ec. discriminate. }
        assert (Gw : good (t_add a c) w (t_add a c) w1) by (eapply good_wait; eauto).
        assert (G2 : good t w (t_add a c) w1) by (eapply good_trans; [eapply good_trans|]; eauto).
        destruct ns as [? ? | c' e' | | | ]; try discriminate.
        -- inv H. split; [|split; [exact Gd1 | intros _ Hu; discriminate]].
           eapply good_trans; [exact G2|]. apply good_remove.
           unfold st_of, t_add; cbn [t_threads with_threads]. rewrite tget_tadd, N.eqb_refl. discriminate.
        -- destruct e'; try discriminate. destruct (c' =? c); try discriminate. inv H.
           split; [exact G2|]. split; [exact Gd1 | intros _ Hu; discriminate].
    + destruct (tget (t_threads t) p); inv H.
      * split; [apply good_set; auto|]. split; [reflexivity | intros _ Hu; discriminate].
      * split; [apply good_add; auto|]. split; [reflexivity | intros _ Hu; discriminate].
    + destruct (tget (t_threads t) p).
      * destruct (w_req w (PCont p 0)) as [ok w1] eqn:Er. inv H.
        assert (M : forall x, running w' x -> running w x).
        { intros x Hr. destruct (req_law _ _ _ _ Er x Hr) as [|[_ [E1 E2]]]; auto.
          cbn in E1. inv E1. exfalso. apply E2. apply Hex. reflexivity. }
        split; [|split; [reflexivity | intros _ Hu; discriminate]].
        eapply good_trans; [apply good_world; exact M|]. apply good_remove. intros _ Hr. apply Hnr, M, Hr.
      * inv H. split; [apply good_refl|]. split; [reflexivity | intros _ Hu; discriminate].
    + inv H. split; [apply good_refl|]. split; [reflexivity | intros _ Hu; discriminate].
  - (* Stopped *)
    destruct (sg =? SIGTRAP) eqn:Esg.
    + destruct ((code =? TRAP_TRACE)%Z); [discriminate|].
      destruct ((code =? TRAP_BRKPT)%Z || (code =? SI_KERNEL)%Z).
      * destruct (tget (t_threads t) p) eqn:Ep; [|discriminate].
        destruct (pc =? 0); [discriminate|].
        destruct (w_req w (PSetPc p (pc - 1))) as [ok w1] eqn:Er.
        destruct (negb ok); [discriminate|].
        assert (G0 : good t w t w1) by (eapply good_req_quiet; eauto).
        assert (Hnr1 : ~ running w1 p) by (eapply good_nr; eauto).
        destruct (find_bp bps (pc - 1)) as [b|]; [|discriminate].
        match type of H with (if ?c then _ else _) = _ => destruct c end.
        -- (* swallowed *)
           bindH H. destruct a as [t5 w5]. bindH H. inv H.
           assert (Gsw : good t w1 t5 w' /\ t_guard t5 = t_guard t).
           { destruct (b_enabled b).
             - destruct (w_req w1 (PBpDisable (pc - 1))) as [ok2 w2] eqn:Er2.
               bindN E q E1. destruct q as [t3 w3].
               destruct (w_req w3 (PBpEnable (pc - 1))) as [ok4 w4] eqn:Er4. inv E.
               assert (G2 : good t w1 t w2) by (eapply good_req_quiet; eauto).
               destruct (IHdrain _ _ _ _ _ _ (good_nr _ _ _ _ _ G2 Hnr1) E1) as [G3 Gd3].
               split; [|exact Gd3].
               eapply good_trans; [exact G2|]. eapply good_trans; [exact G3|]. eapply good_req_quiet; eauto.
             - inv E. split; [apply good_refl | reflexivity]. }
           destruct Gsw as [Gsw Gdsw].
           destruct (good_ensure _ w' _ _ _ E0 (good_nr _ _ _ _ _ Gsw Hnr1)) as [G9 Gd9].
           split; [|split; [congruence | intros _ Hu; discriminate]].
           eapply good_trans; [exact G0|]. eapply good_trans; eauto.
        -- bindH H. destruct (good_ensure _ w1 _ _ _ E Hnr1) as [G1 Gd1].
           bindH H. destruct a0 as [t3 w3]. inv H.
           destruct (IHgsi _ _ _ _ _ _ E0) as (G2 & Gd2 & A2).
           split; [|split].
           ++ eapply good_trans; [exact G0|]. eapply good_trans; eauto.
           ++ congruence.
           ++ intros Hg _. apply A2; [congruence|]. intros y Hy; inv Hy. rewrite (ensure_st _ _ _ _ E). discriminate.
      * destruct ((code =? TRAP_HWBKPT)%Z).
        -- bindH H. destruct (good_ensure _ w _ _ _ E Hnr) as [G1 Gd1].
           bindH H. destruct a0 as [t3 w3]. inv H.
           destruct (IHgsi _ _ _ _ _ _ E0) as (G2 & Gd2 & A2).
           split; [|split].
           ++ eapply good_trans; eauto.
           ++ congruence.
           ++ intros Hg _. apply A2; [congruence|]. intros y Hy; inv Hy. rewrite (ensure_st _ _ _ _ E). discriminate.
        -- inv H. split; [apply good_refl|]. split; [reflexivity | intros _ Hu; discriminate].
    + set (t1 := if transparent sg then t else with_queue t (t_queue t ++ [(p, sg)])) in H.
      assert (G0 : good t w t1 w /\ t_guard t1 = t_guard t).
      { unfold t1. destruct (transparent sg); split; try reflexivity; try apply good_refl. apply good_same; [reflexivity | exact (fun K => K)]. }
      destruct G0 as [G0 Gd0].
      bindH H. destruct (good_ensure _ w _ _ _ E Hnr) as [G1 Gd1].
      bindH H. destruct a0 as [t3 w3]. inv H.
      destruct (quiet sg) eqn:Eq.
      * inv E0. split; [eapply good_trans; eauto|]. split; [congruence|].
        intros _ Hu. cbn [real_stop] in Hu. rewrite Eq in Hu. discriminate.
      * destruct (IHgsi _ _ _ _ _ _ E0) as (G2 & Gd2 & A2).
        split; [|split].
        ++ eapply good_trans; [exact G0|]. eapply good_trans; eauto.
        ++ congruence.
        ++ intros Hg _. apply A2; [congruence|]. intros y Hy; inv Hy. rewrite (ensure_st _ _ _ _ E). discriminate.
  - inv H. split; [apply good_refl|]. split; [reflexivity | intros _ Hu; discriminate].
  - inv H. split; [apply good_refl|]. split; [reflexivity | intros _ Hu; discriminate].
Qed.

Lemma tget_in : forall l x v, tget l x = Some v -> In x (map fst l).
Proof.
  induction l as [|[z s] l IH]; intros x v H; cbn [tget alist_get] in H; [discriminate|].
  cbn [map fst In]. destruct (x =? z) eqn:E.
  - apply N.eqb_eq in E. auto.
  - right. eapply IH. exact H.
Qed.

Lemma existsb_false_tget : forall (g : N * tstatus -> bool) l x v,
  existsb g l = false -> tget l x = Some v -> exists v', g (x, v') = false.
Proof.
  induction l as [|[z s] l IH]; intros x v He H; cbn [tget alist_get] in H; [discriminate|].
  cbn [existsb] in He. apply orb_false_iff in He. destruct He as [H1 H2].
  destruct (x =? z) eqn:E.
  - apply N.eqb_eq in E; subst z. eauto.
  - eapply IH; eauto.
Qed.

Lemma st_of_guard : forall t g y, st_of (with_guard t g) y = st_of t y.
Proof. reflexivity. Qed.

Lemma gsi_step : forall f, P_all f -> P_gsi (S f).
Proof.
  intros f (IHans & IHgsi & IHround & IHwhile & IHsstep & IHloop & IHdrain).
  intros bps t w i t' w' H. cbn [ModelTracer.gsi] in H.
  destruct (t_guard t) eqn:Eg.
  - inv H. split; [apply good_refl|]. split; [congruence | intros Hf; congruence].
  - match type of H with (if ?c then _ else _) = _ => destruct c eqn:Ex end.
    + inv H. split; [apply good_same; [reflexivity | exact (fun K => K)]|]. split; [cbn; congruence|].
      intros _ Hi x. rewrite st_of_guard, st_of_guard.
      destruct (st_of t x) as [v|] eqn:Ev; [|discriminate].
      apply negb_true_iff in Ex. cbn [t_threads with_guard] in Ex.
      destruct (existsb_false_tget _ _ _ _ Ex Ev) as [v' Hv]. cbn [fst] in Hv.
      apply negb_false_iff in Hv. destruct i as [y|]; cbn [opt_tid_eqb] in Hv; [|discriminate].
      apply N.eqb_eq in Hv; subst y. rewrite <- Ev. apply Hi. reflexivity.
    + bindN H q1 E1. destruct q1 as [t1 w1]. bindN H q2 E2. destruct q2 as [t2 w2]. inv H.
      destruct (IHround _ _ _ _ _ _ (eq_refl : t_guard (with_guard t true) = true) E1) as (G1 & Gd1 & A1).
      destruct (IHround _ _ _ _ _ _ Gd1 E2) as (G2 & Gd2 & A2).
      assert (AS1 : allstopped t1).
      { intros x. destruct (st_of (with_guard t true) x) as [v|] eqn:Ev.
        - apply A1. eapply tget_in. exact Ev.
        - apply (g_nr _ _ _ _ G1). rewrite Ev. discriminate. }
      split; [|split; [cbn; congruence|]].
      * eapply good_trans; [apply good_same with (t' := with_guard t true); [reflexivity | exact (fun K => K)]|].
        eapply good_trans; [exact G1|]. eapply good_trans; [exact G2|]. apply good_same; [reflexivity | exact (fun K => K)].
      * intros _ _ x. rewrite st_of_guard. apply (good_allstopped _ _ _ _ G2 AS1).
Qed.

Lemma round_step : forall f, P_all f -> P_round (S f).
Proof.
  intros f (IHans & IHgsi & IHround & IHwhile & IHsstep & IHloop & IHdrain).
  intros bps t w tids t' w' Hg H. cbn [ModelTracer.gsi_round] in H.
  destruct tids as [|x rest].
  - inv H. split; [apply good_refl|]. split; [exact Hg | intros x []].
  - assert (SKIP : st_of t x <> Some TRunning -> gsi_round f bps t w rest = Ok (t', w') ->
       good t w t' w' /\ t_guard t' = true /\ (forall y, In y (x :: rest) -> st_of t' y <> Some TRunning)).
    { intros Hx H'. destruct (IHround _ _ _ _ _ _ Hg H') as (G & Gd & A).
      split; [exact G|]. split; [exact Gd|]. intros y [<-|Hin]; [apply (g_nr _ _ _ _ G), Hx | apply A, Hin]. }
    destruct (tget (t_threads t) x) as [[st|]|] eqn:Ex.
    + apply SKIP; auto. unfold st_of; rewrite Ex; discriminate.
    + destruct (w_req w (PInterrupt x)) as [ok w1] eqn:Er.
      assert (G0 : good t w t w1) by (eapply good_req_quiet; eauto).
      destruct ok; cbn [negb] in H.
      * bindN H q1 E1. destruct q1 as [wait w2]. bindN H q2 E2. destruct q2 as [t3 w3].
        destruct (wait_law _ _ _ _ E1) as (M1 & N1 & T1 & X1).
        specialize (T1 x eq_refl).
        destruct (IHwhile _ _ _ _ _ _ _ Hg N1 X1 E2) as (G3 & Gd3).
        assert (N3 : ~ running w3 x) by (eapply good_nr; [exact G3|]; rewrite <- T1; exact N1).
        set (t4 := if is_running (tget (t_threads t3) x) then t_set t3 x (TStopped StInterrupt) else t3) in H.
        assert (G4 : good t3 w3 t4 w3 /\ t_guard t4 = true /\ st_of t4 x <> Some TRunning).
        { unfold t4. destruct (tget (t_threads t3) x) as [[|]|] eqn:E4; cbn [is_running].
          - split; [apply good_refl|]. split; [exact Gd3|]. unfold st_of; rewrite E4; discriminate.
          - split; [apply good_set; exact N3|]. split; [exact Gd3|].
            unfold st_of, t_set; cbn [t_threads with_threads]. rewrite tget_tset, N.eqb_refl, E4. discriminate.
          - split; [apply good_refl|]. split; [exact Gd3|]. unfold st_of; rewrite E4; discriminate. }
        destruct G4 as (G4 & Gd4 & S4).
        destruct (IHround _ _ _ _ _ _ Gd4 H) as (G5 & Gd5 & A5).
        split; [|split; [exact Gd5|]].
        -- eapply good_trans; [exact G0|]. eapply good_trans; [eapply good_wait; eauto|].
           eapply good_trans; [exact G3|]. eapply good_trans; eauto.
        -- intros y [<-|Hin]; [apply (g_nr _ _ _ _ G5), S4 | apply A5, Hin].
      * assert (N1 : ~ running w1 x) by (eapply intr_law; eauto).
        destruct (IHround _ _ _ _ _ _ (Hg : t_guard (t_set t x (TStopped StInterrupt)) = true) H) as (G5 & Gd5 & A5).
        split; [|split; [exact Gd5|]].
        -- eapply good_trans; [exact G0|]. eapply good_trans; [apply good_set; exact N1 | exact G5].
        -- intros y [<-|Hin]; [|apply A5, Hin]. apply (g_nr _ _ _ _ G5).
           unfold st_of, t_set; cbn [t_threads with_threads]. rewrite tget_tset, N.eqb_refl, Ex. discriminate.
    + apply SKIP; auto. unfold st_of; rewrite Ex; discriminate.
Qed.

Lemma while_step : forall f, P_all f -> P_while (S f).
Proof.
  intros f (IHans & IHgsi & IHround & IHwhile & IHsstep & IHloop & IHdrain).
  intros bps t w x wait t' w' Hg Hnr Hex H. cbn [ModelTracer.gsi_while] in H.
  destruct (is_event_stop wait).
  - inv H. split; [apply good_refl | exact Hg].
  - bindN H q E1. destruct q as [[t1 w1] stop].
    destruct (IHans _ _ _ _ _ _ _ Hnr Hex E1) as (G1 & Gd1 & _).
    assert (Hg1 : t_guard t1 = true) by congruence.
    bindN H b Eb. destruct b.
    + inv H. split; auto.
    + destruct (tget (t_threads t1) x) as [[[|sg]|]|].
      * inv H. split; auto.
      * bindN H q2 E2. destruct q2 as [wait' w2].
        destruct (wait_law _ _ _ _ E2) as (M2 & N2 & T2 & X2).
        destruct (IHwhile _ _ _ _ _ _ _ Hg1 N2 X2 H) as (G3 & Gd3).
        split; [|exact Gd3]. eapply good_trans; [exact G1|]. eapply good_trans; [eapply good_wait; eauto | exact G3].
      * bindN H q2 E2. destruct q2 as [wait' w2].
        destruct (wait_law _ _ _ _ E2) as (M2 & N2 & T2 & X2).
        destruct (IHwhile _ _ _ _ _ _ _ Hg1 N2 X2 H) as (G3 & Gd3).
        split; [|exact Gd3]. eapply good_trans; [exact G1|]. eapply good_trans; [eapply good_wait; eauto | exact G3].
      * inv H. split; auto.
Qed.

Lemma sstep_step : forall f, P_all f -> P_sstep (S f).
Proof.
  intros f (IHans & IHgsi & IHround & IHwhile & IHsstep & IHloop & IHdrain).
  intros bps t w pid t' w' r Hnr H. cbn [ModelTracer.sstep] in H.
  destruct (tget (t_threads t) pid); [|discriminate].
  destruct (w_req w (PStep pid 0)) as [ok w1] eqn:Er.
  destruct (negb ok); [discriminate|].
  destruct (IHloop _ _ _ _ _ _ _ _ H) as (G & N & Gd).
  split; [|exact Gd]. eapply step_then; [|exact G|exact N].
  eapply req_starts; [exact Er | reflexivity].
Qed.

Lemma drain_step : forall f, P_all f -> P_drain (S f).
Proof.
  intros f (IHans & IHgsi & IHround & IHwhile & IHsstep & IHloop & IHdrain).
  intros bps t w pid t' w' Hnr H. cbn [ModelTracer.sstep_drain] in H.
  bindN H q E1. destruct q as [[t1 w1] stop].
  destruct (IHsstep _ _ _ _ _ _ _ Hnr E1) as (G1 & Gd1).
  destruct stop.
  - destruct (IHdrain _ _ _ _ _ _ (good_nr _ _ _ _ _ G1 Hnr) H) as (G2 & Gd2).
    split; [eapply good_trans; eauto | congruence].
  - inv H. split; auto.
Qed.

Lemma loop_step : forall f, P_all f -> P_loop (S f).
Proof.
  intros f (IHans & IHgsi & IHround & IHwhile & IHsstep & IHloop & IHdrain).
  intros bps t w pid pc0 t' w' r H. cbn [ModelTracer.sstep_loop] in H.
  destruct (tget (t_threads t) pid); [|discriminate].
  bindN H q Ew. destruct q as [status w1].
  destruct (wait_law _ _ _ _ Ew) as (M1 & N1 & T1 & X1). specialize (T1 pid eq_refl).
  assert (Gw : good t w t w1) by (eapply good_wait; eauto).
  assert (Np : ~ running w1 pid) by (rewrite <- T1; exact N1).
  (* one more PTRACE_SINGLESTEP, then the loop again *)
  assert (AGAIN : forall t2 w2 d ok w3 t9 w9 r9, good t w t2 w2 -> t_guard t2 = t_guard t ->
            w_req w2 (PStep pid d) = (ok, w3) -> sstep_loop f bps t2 w3 pid pc0 = Ok (t9, w9, r9) ->
            good t w t9 w9 /\ ~ running w9 pid /\ t_guard t9 = t_guard t).
  { intros t2 w2 d ok w3 t9 w9 r9 G2 Gd2 Er Hl.
    destruct (IHloop _ _ _ _ _ _ _ _ Hl) as (G & N & Gd).
    split; [|split; [exact N | congruence]].
    eapply good_trans; [exact G2|]. eapply step_then; [|exact G|exact N].
    eapply req_starts; [exact Er | reflexivity]. }
  (* the fall-through to apply_new_status *)
  assert (FT : forall t9 w9 r9,
    (r <- ans f bps t w1 status ;;
     let '(t2, w2, stop) := r in
     match stop with
     | None => sstep_loop f bps t2 w2 pid pc0
     | Some (SRBreakpoint _ _) | Some (SRWatchpoint _ _) => Panic 3
     | Some (SRExit _) => Err 3
     | Some SRStart => Panic 4
     | Some (SRSignal _ sg) =>
         if quiet sg then
           match tget (t_threads t2) pid with None => Panic 1 | Some _ =>
           let '(ok, w3) := w_req w2 (PStep pid sg) in
           if negb ok then Err 2 else sstep_loop f bps t2 w3 pid pc0 end
         else Ok (t2, w2, stop)
     | Some (SRNoSuchProcess _) => Ok (t2, w2, None)
     end) = Ok (t9, w9, r9) ->
    good t w t9 w9 /\ ~ running w9 pid /\ t_guard t9 = t_guard t).
  { intros t9 w9 r9 Hf. bindN Hf q Ea. destruct q as [[t2 w2] stop].
    destruct (IHans _ _ _ _ _ _ _ N1 X1 Ea) as (G2 & Gd2 & _).
    assert (G02 : good t w t2 w2) by (eapply good_trans; eauto).
    assert (N2 : ~ running w2 pid) by exact (good_nr _ _ _ _ _ G2 Np).
    destruct stop as [[c| |p a|p a|p sg|p]|]; try discriminate.
    - destruct (quiet sg).
      + destruct (tget (t_threads t2) pid); [|discriminate].
        destruct (w_req w2 (PStep pid sg)) as [ok w3] eqn:Er.
        destruct (negb ok); [discriminate|]. eapply AGAIN; eauto.
      + inv Hf. auto.
    - inv Hf. auto.
    - destruct (IHloop _ _ _ _ _ _ _ _ Hf) as (G & N & Gd).
      split; [eapply good_trans; eauto|]. split; [exact N | congruence]. }
  destruct status as [p code | p e | p sg code pc | p sg | p]; try discriminate.
  - destruct e; try (exact (FT _ _ _ H)).
    destruct (p =? pid); [|exact (FT _ _ _ H)]. inv H. auto.
  - destruct ((sg =? SIGTRAP) && trap_like code).
    + destruct (pc =? pc0).
      * destruct (w_req w1 (PStep pid 0)) as [ok w2] eqn:Er.
        destruct (negb ok); [discriminate|]. eapply AGAIN; eauto.
      * destruct (find_bp bps pc) as [b|]; [destruct (bkind_eqb (b_kind b) BCompanion)|]; inv H; auto.
    + destruct ((sg =? SIGTRAP) && (code =? TRAP_UNK)%Z); [|exact (FT _ _ _ H)].
      destruct (w_req w1 (PSyscall pid)) as [ok w2] eqn:Er.
      destruct (negb ok); [discriminate|].
      bindN H q2 Ew2. destruct q2 as [st2 w3].
      destruct (wait_law _ _ _ _ Ew2) as (M3 & N3 & T3 & X3). specialize (T3 pid eq_refl).
      destruct st2 as [ | | p2 s2 c2 pc2 | | ]; try discriminate.
      destruct (s2 =? SIGTRAP); [|discriminate].
      destruct (w_req w3 (PStep pid 0)) as [ok4 w4] eqn:Er4.
      destruct (negb ok4); [discriminate|].
      destruct (IHloop _ _ _ _ _ _ _ _ H) as (G & N & Gd).
      split; [|split; [exact N | exact Gd]].
      eapply good_trans; [exact Gw|].
      eapply step_then; [eapply req_starts; [exact Er | reflexivity] | | exact N].
      eapply good_trans; [eapply good_wait; eauto|].
      eapply step_then; [eapply req_starts; [exact Er4 | reflexivity] | exact G | exact N].
Qed.

Theorem all_steps : forall f, P_all f.
Proof.
  induction f as [|f IH].
  - unfold P_all, P_ans, P_gsi, P_round, P_while, P_sstep, P_loop, P_drain.
    split; [|split; [|split; [|split; [|split; [|split]]]]]; intros; discriminate.
  - split; [apply ans_step; exact IH|]. split; [apply gsi_step; exact IH|].
    split; [apply round_step; exact IH|]. split; [apply while_step; exact IH|].
    split; [apply sstep_step; exact IH|]. split; [apply loop_step; exact IH|].
    apply drain_step; exact IH.
Qed.


(* ---- continuing the stopped threads keeps the coupling invariant ---------------------- *)
Lemma cont_list_inv : forall l w inj ex l' w', NoDup (map fst l) -> cont_list l w inj ex = (l', w') ->
  map fst l' = map fst l /\
  (forall x, tget l x = Some TRunning -> tget l' x = Some TRunning) /\
  (forall x, running w' x -> running w x \/ tget l' x = Some TRunning) /\
  (forall x, ~ In x (map fst l) -> running w' x -> running w x).
Proof.
  induction l as [|[x0 st] r IH]; intros w inj ex l' w' ND H; cbn [ModelTracer.cont_list] in H.
  - inv H. repeat split; auto.
  - cbn [map fst] in ND. inversion ND as [|? ? Hnin ND']; subst.
    assert (KEEP : forall r' w'', cont_list r w inj ex = (r', w'') -> l' = (x0, st) :: r' -> w' = w'' ->
       map fst l' = map fst ((x0, st) :: r) /\
       (forall x, tget ((x0, st) :: r) x = Some TRunning -> tget l' x = Some TRunning) /\
       (forall x, running w' x -> running w x \/ tget l' x = Some TRunning) /\
       (forall x, ~ In x (map fst ((x0, st) :: r)) -> running w' x -> running w x)).
    { intros r' w'' Hc -> ->. destruct (IH _ _ _ _ _ ND' Hc) as (K1 & K2 & K3 & K4).
      split; [cbn [map fst]; congruence|]. split; [|split].
      - intros x Hx. cbn [tget alist_get] in *. destruct (x =? x0); auto. apply K2, Hx.
      - intros x Hr. destruct (K3 x Hr) as [|Ht]; auto. right. cbn [tget alist_get].
        destruct (x =? x0) eqn:E; [|exact Ht]. apply N.eqb_eq in E; subst x.
        exfalso. apply Hnin. rewrite <- K1. eapply tget_in; eauto.
      - intros x Hn Hr. apply K4; auto. intros Hin. apply Hn. right. exact Hin. }
    destruct (mem x0 ex).
    + destruct (cont_list r w inj ex) as [r' w''] eqn:Hc. inv H. eapply KEEP; eauto.
    + destruct st as [sty|].
      * set (data := match inj with Some (p, s) => if p =? x0 then s else 0 | None => 0 end) in H.
        destruct (w_req w (PCont x0 data)) as [ok w1] eqn:Er.
        destruct (cont_list r w1 inj ex) as [r' w''] eqn:Hc. inv H.
        destruct (IH _ _ _ _ _ ND' Hc) as (K1 & K2 & K3 & K4).
        assert (RS : forall x, running w1 x -> running w x \/ (ok = true /\ x = x0)).
        { intros x Hr. destruct (req_law _ _ _ _ Er x Hr) as [|[Hok [E _]]]; auto. cbn in E. inv E. auto. }
        split; [cbn [map fst]; congruence|]. split; [|split].
        -- intros x Hx. cbn [tget alist_get] in *. destruct (x =? x0); [discriminate|]. apply K2, Hx.
        -- intros x Hr. destruct (K3 x Hr) as [Hr1|Ht].
           ++ destruct (RS x Hr1) as [|[-> ->]]; auto. right. cbn [tget alist_get]. rewrite N.eqb_refl. reflexivity.
           ++ right. cbn [tget alist_get]. destruct (x =? x0) eqn:E; [|exact Ht].
              apply N.eqb_eq in E; subst x. exfalso. apply Hnin. rewrite <- K1. eapply tget_in; eauto.
        -- intros x Hn Hr. cbn [map fst In] in Hn.
           assert (Hr1 : running w1 x) by (apply K4; auto).
           destruct (RS x Hr1) as [|[_ ->]]; auto. exfalso. apply Hn. left. reflexivity.
      * destruct (cont_list r w inj ex) as [r' w''] eqn:Hc. inv H. eapply KEEP; eauto.
Qed.

Lemma cont_inv : forall t w inj ex t' w', Inv t w -> keys_ok t -> cont_stopped_ex t w inj ex = (t', w') ->
  Inv t' w' /\ keys_ok t' /\ t_guard t' = t_guard t /\ t_queue t' = t_queue t.
Proof.
  intros t w inj ex t' w' I K H. unfold ModelTracer.cont_stopped_ex in H.
  destruct (cont_list (t_threads t) w inj ex) as [l' w''] eqn:Hc. inv H.
  destruct (cont_list_inv _ _ _ _ _ _ K Hc) as (K1 & K2 & K3 & K4).
  split; [|split; [|split; reflexivity]].
  - intros x Hr. unfold st_of; cbn [t_threads with_threads]. destruct (K3 x Hr) as [Hr0|]; auto. apply K2, I, Hr0.
  - unfold keys_ok; cbn [t_threads with_threads]. rewrite K1. exact K.
Qed.

Definition tinv (t : tracer) (w : W) : Prop := Inv t w /\ keys_ok t /\ t_guard t = false.

Lemma ans_top : forall f bps t w s t' w' r, tinv t w ->
  ~ running w (ws_tid s) -> (forall p, s = WEvent p EvExit -> exitstop w p) ->
  ans f bps t w s = Ok (t', w', r) -> tinv t' w' /\ (real_stop r = true -> allstopped t').
Proof.
  intros f bps t w s t' w' r (I & K & G) Hn Hx H.
  destruct (all_steps f) as (Pa & _). destruct (Pa _ _ _ _ _ _ _ Hn Hx H) as (Gd & Gg & A).
  split; [split; [eapply good_inv; eauto | split; [apply (g_keys _ _ _ _ Gd K) | congruence]] | auto].
Qed.

Lemma gsi_top : forall f bps t w t' w', tinv t w -> gsi f bps t w None = Ok (t', w') -> tinv t' w' /\ allstopped t'.
Proof.
  intros f bps t w t' w' (I & K & G) H.
  destruct (all_steps f) as (_ & Pg & _). destruct (Pg _ _ _ _ _ _ H) as (Gd & Gg & A).
  split; [split; [eapply good_inv; eauto | split; [apply (g_keys _ _ _ _ Gd K) | congruence]]|].
  apply A; auto. intros x Hx; discriminate.
Qed.

(* C09, tracer against any lawful world: Tracer::resume keeps the coupling invariant, and when it
   reports a breakpoint, a watchpoint or a (non-quiet) signal, no thread is running *)
Theorem resume_all_stop : forall f bps t w t' w' sr, tinv t w ->
  resume f bps t w = Ok (t', w', sr) ->
  tinv t' w' /\ (real_stop (Some sr) = true -> allstopped t' /\ forall x, ~ running w' x).
Proof.
  induction f as [|f IH]; intros bps t w t' w' sr TI H; [discriminate|].
  cbn [ModelTracer.resume] in H.
  assert (FIN : forall t9 w9, tinv t9 w9 -> (real_stop (Some sr) = true -> allstopped t9) ->
            tinv t9 w9 /\ (real_stop (Some sr) = true -> allstopped t9 /\ forall x, ~ running w9 x)).
  { intros t9 w9 T9 A9. split; auto. intros Hs. split; auto. intros x Hr.
    destruct T9 as (I9 & _). apply (A9 Hs x). apply I9, Hr. }
  assert (WP : forall t1 w1, tinv t1 w1 ->
    match w_wait w1 None with
    | Err 10 => Ok (t1, w1, SRNoSuchProcess (t_proc t1))
    | Err e => Err e
    | Panic s => Panic s
    | OutOfFuel => OutOfFuel
    | Ok (status, w2) =>
        r <- ans f bps t1 w2 status ;;
        let '(t2, w3, stop) := r in
        match stop with
        | None => resume f bps t2 w3
        | Some (SRSignal p sg) => if quiet sg then resume f bps t2 w3 else Ok (t2, w3, SRSignal p sg)
        | Some sr => Ok (t2, w3, sr)
        end
    end = Ok (t', w', sr) ->
    tinv t' w' /\ (real_stop (Some sr) = true -> allstopped t' /\ forall x, ~ running w' x)).
  { intros t1 w1 T1 Hw. destruct (w_wait w1 None) as [[status w2]|e| |] eqn:Ew; try discriminate.
    - destruct (wait_law _ _ _ _ Ew) as (M1 & N1 & _ & X1).
      assert (T2 : tinv t1 w2).
      { destruct T1 as (I1 & K1 & G1). split; auto. intros x Hr. apply I1, M1, Hr. }
      bindN Hw q Ea. destruct q as [[t2 w3] stop].
      destruct (ans_top _ _ _ _ _ _ _ _ T2 N1 X1 Ea) as (T3 & A3).
      destruct stop as [[c| |p a|p a|p sg|p]|].
      + inv Hw. apply FIN; auto.
      + inv Hw. apply FIN; auto.
      + inv Hw. apply FIN; auto.
      + inv Hw. apply FIN; auto.
      + destruct (quiet sg) eqn:Eq.
        * eapply IH; eauto.
        * inv Hw. apply FIN; auto.
      + inv Hw. apply FIN; auto.
      + eapply IH; eauto.
    - destruct e as [|e]; [discriminate|].
      repeat (destruct e as [e|e|]; try discriminate).
      inv Hw. apply FIN; auto. intros Hs; discriminate. }
  destruct TI as (I & K & G).
  destruct (t_queue t) as [|[x sg] rest] eqn:Eq.
  - destruct (cont_stopped_ex t w None []) as [t1 w1] eqn:Ec.
    destruct (cont_inv _ _ _ _ _ _ I K Ec) as (I1 & K1 & G1 & _).
    apply (WP t1 w1); [split; [auto | split; [auto | congruence]] | exact H].
  - destruct (cont_stopped_ex (with_queue t rest) w (Some (x, sg)) (map fst rest)) as [t1 w1] eqn:Ec.
    destruct (cont_inv _ _ _ _ _ _ (I : Inv (with_queue t rest) w) (K : keys_ok (with_queue t rest)) Ec) as (I1 & K1 & G1 & _).
    assert (T1 : tinv t1 w1) by (split; [auto | split; [auto | cbn in G1; congruence]]).
    destruct rest as [|[y s2] rest'].
    + apply (WP t1 w1 T1 H).
    + bindN H q Eg. destruct q as [t2 w2]. inv H.
      destruct (gsi_top _ _ _ _ _ _ T1 Eg) as (T2 & A2). apply FIN; auto.
Qed.

(* Tracer::single_step of a thread the tracer holds stopped keeps the invariant and starts nobody *)
Theorem sstep_keeps : forall f bps t w pid t' w' r, tinv t w -> is_stopped (st_of t pid) = true ->
  sstep f bps t w pid = Ok (t', w', r) ->
  tinv t' w' /\ (allstopped t -> allstopped t' /\ forall x, ~ running w' x).
Proof.
  intros f bps t w pid t' w' r (I & K & G) Hs H.
  assert (Hn : ~ running w pid).
  { intros Hr. rewrite (I pid Hr) in Hs. discriminate. }
  destruct (all_steps f) as (_ & _ & _ & _ & Ps & _). destruct (Ps _ _ _ _ _ _ _ Hn H) as (Gd & Gg).
  assert (I' : Inv t' w') by (eapply good_inv; eauto).
  split; [split; [auto | split; [apply (g_keys _ _ _ _ Gd K) | congruence]]|].
  intros A. assert (A' : allstopped t') by (eapply good_allstopped; eauto).
  split; auto. intros x Hr. apply (A' x), I', Hr.
Qed.
End LAWS.
