(* Proofs about the DQE model (ModelDqe.v).  Labels: plain = proved in full, _partial = under a stated
   hypothesis (with a boolean decision procedure), _refuted = the full statement is false of the model,
   with a concrete witness.  `_old` remarks in comments record what the statement was before the repairs
   of /repo (commits 99f406a, 90a0582, 0b2cb8c, 4188407). *)
From BS Require Import Model.Base.
From W Require Import ModelDqe.
From Coq Require Import Lia.
Open Scope N_scope.

(* ================================================================================================ *)
(** * 1. Numeric conversions are total: in range -> Ok, out of range -> rejected, never a panic
    (_old: before commit 99f406a [conv_num_arg_panics] read `= Panic (num_arg_site k)`, with the bound as the
    smallest panicking value for each of the twelve sites; `-9223372036854775808` panicked in debug builds) *)

Theorem conv_num_arg_ok : forall k n, n < num_arg_bound k -> conv_num_arg k n = Ok n.
Proof.
  intros k n H. unfold conv_num_arg, conv_bits.
  destruct (n <? num_arg_bound k) eqn:E; [reflexivity|]. apply N.ltb_ge in E. lia.
Qed.

Theorem conv_num_arg_rejects : forall k n, num_arg_bound k <= n -> conv_num_arg k n = Err 0.
Proof.
  intros k n H. unfold conv_num_arg, conv_bits.
  destruct (n <? num_arg_bound k) eqn:E; [|reflexivity]. apply N.ltb_lt in E. lia.
Qed.

Theorem conv_num_arg_total : forall k n, conv_num_arg k n = Ok n \/ conv_num_arg k n = Err 0.
Proof.
  intros k n. destruct (N.lt_ge_cases n (num_arg_bound k)) as [H|H];
    [left; apply conv_num_arg_ok; exact H|right; apply conv_num_arg_rejects; exact H].
Qed.

Theorem conv_num_arg_no_panic : forall k n, is_panic (conv_num_arg k n) = false.
Proof. intros k n. destruct (conv_num_arg_total k n) as [H|H]; rewrite H; reflexivity. Qed.

Lemma conv_u64_ok : forall s n, n < P64 -> conv_u64 s n = Ok n.
Proof. intros s n H. unfold conv_u64, conv_bits. destruct (n <? P64) eqn:E; [reflexivity|]. apply N.ltb_ge in E. lia. Qed.
Lemma conv_u64_rejects : forall s n, P64 <= n -> conv_u64 s n = Err 0.
Proof. intros s n H. unfold conv_u64, conv_bits. destruct (n <? P64) eqn:E; [|reflexivity]. apply N.ltb_lt in E. lia. Qed.
Lemma conv_u64_no_panic : forall s n, is_panic (conv_u64 s n) = false.
Proof. intros s n. unfold conv_u64, conv_bits. destruct (n <? P64); reflexivity. Qed.

(* a non-negative literal below 2^63 and a negative one down to -2^63 mean what they say *)
Theorem int_literal_pos : forall n, n < P63 -> int_literal false n = Ok (Z.of_N n).
Proof.
  intros n H. unfold int_literal. rewrite conv_u64_ok by (unfold P63, P64 in *; lia).
  cbn [bind]. unfold as_i64. destruct (n <? P63) eqn:E; [reflexivity|]. apply N.ltb_ge in E. lia.
Qed.
Theorem int_literal_neg : forall n, n <= P63 -> int_literal true n = Ok (- Z.of_N n)%Z.
Proof.
  intros n H. unfold int_literal. rewrite conv_u64_ok by (unfold P63, P64 in *; lia).
  cbn [bind]. unfold as_i64, neg_i64. destruct (n <? P63) eqn:E.
  - destruct (Z.of_N n =? - Z.of_N P63)%Z eqn:E2; [|reflexivity].
    apply Z.eqb_eq in E2. unfold P63 in *. lia.
  - apply N.ltb_ge in E. assert (n = P63) by lia. subst n. reflexivity.
Qed.

(* the `int` alternative rejects exactly the numbers that do not fit u64, and never panics *)
Theorem int_literal_rejects_iff : forall neg n, int_literal neg n = Err 0 <-> P64 <= n.
Proof.
  intros neg n. unfold int_literal. destruct (N.lt_ge_cases n P64) as [Hlt|Hge].
  - rewrite conv_u64_ok by exact Hlt. cbn [bind]. split; [|lia].
    destruct neg; [unfold neg_i64; destruct (_ =? _)%Z|]; discriminate.
  - rewrite conv_u64_rejects by exact Hge. split; [intros _; exact Hge|reflexivity].
Qed.
Theorem int_literal_no_panic : forall neg n, is_panic (int_literal neg n) = false.
Proof.
  intros neg n. unfold int_literal. destruct (N.lt_ge_cases n P64) as [Hlt|Hge].
  - rewrite conv_u64_ok by exact Hlt. cbn [bind]. destruct neg; [unfold neg_i64; destruct (_ =? _)%Z|]; reflexivity.
  - rewrite conv_u64_rejects by exact Hge. reflexivity.
Qed.

(* still true, by design (u64 keys are compared `as i64`): 18446744073709551615 means -1 *)
Theorem int_literal_value_refuted :
  exists n, n < P64 /\ int_literal false n = Ok (-1)%Z /\ Z.of_N n <> (-1)%Z.
Proof. exists 18446744073709551615. split; [reflexivity|]. split; [vm_compute; reflexivity|discriminate]. Qed.

(* i64::MIN can now be written with a minus sign (wrapping negation) *)
Theorem int_literal_i64_min : int_literal true P63 = Ok (- 9223372036854775808)%Z.
Proof. vm_compute. reflexivity. Qed.

(* ================================================================================================ *)
(** * 2. Slices *)

Lemma nth_error_skipn' : forall {A} (l : list A) a i, nth_error (skipn a l) i = nth_error l (a + i)%nat.
Proof.
  induction l as [|x l IH]; intros a i.
  - destruct a; destruct i; reflexivity.
  - destruct a; [reflexivity|]. cbn [skipn]. rewrite IH. reflexivity.
Qed.
Lemma nth_error_firstn' : forall {A} (l : list A) k i, (i < k)%nat -> nth_error (firstn k l) i = nth_error l i.
Proof.
  induction l as [|x l IH]; intros k i H.
  - rewrite firstn_nil. reflexivity.
  - destruct k; [lia|]. destruct i; [reflexivity|]. cbn [firstn nth_error]. apply IH. lia.
Qed.

Lemma slice_core : forall (items : list vtree) l r,
  let l' := N.min l (N.of_nat (length items)) in
  (if r - l' <? N.of_nat (length (skipn (N.to_nat l') items))
   then firstn (N.to_nat (r - l')) (skipn (N.to_nat l') items) else skipn (N.to_nat l') items)
  = spec_slice items l r.
Proof.
  intros items l r l'. unfold spec_slice. rewrite skipn_length.
  destruct (N.of_nat (length items) <=? l) eqn:E.
  - apply N.leb_le in E. assert (l' = N.of_nat (length items)) by (subst l'; lia). rewrite H.
    rewrite Nat2N.id. rewrite skipn_all. rewrite firstn_nil. destruct (_ <? _); reflexivity.
  - apply N.leb_gt in E. assert (l' = l) by (subst l'; lia). rewrite H.
    destruct (r - l <? N.of_nat (length items - N.to_nat l)) eqn:E2.
    + apply N.ltb_lt in E2. f_equal. lia.
    + apply N.ltb_ge in E2. symmetry. apply firstn_all2. rewrite skipn_length. lia.
Qed.

(* HEADLINE: for ALL bounds, a[l..r] is elements min(l,len) .. min(r,len)-1 (empty when r <= l);
   absent bounds are 0 / len.
   (_old: before commit 90a0582 this needed l <= len and l <= r, and outside that domain the code panicked:
   `var arr[5..2]`, `var arr[5..]` on 3 elements at drain(..left), `var arr[3..2]` at right - left.) *)
Theorem array_slice_spec : forall items left right,
  array_slice items left right = spec_slice_opt items left right.
Proof.
  intros items left right. unfold array_slice, spec_slice_opt.
  set (l := match left with Some l => l | None => 0 end).
  destruct right as [r0|].
  - rewrite <- (slice_core items l r0). cbn zeta.
    destruct (r0 - N.min l (N.of_nat (length items)) <?
              N.of_nat (length (skipn (N.to_nat (N.min l (N.of_nat (length items)))) items))); reflexivity.
  - rewrite <- (slice_core items l (N.of_nat (length items))). cbn zeta. rewrite skipn_length.
    destruct (_ <? _) eqn:E; [|reflexivity]. apply N.ltb_lt in E. lia.
Qed.

Corollary array_slice_no_panic : forall items left right, is_panic (array_slice items left right) = false.
Proof. intros. rewrite array_slice_spec. reflexivity. Qed.

(* reading of the specification: which elements, and when it is empty *)
Lemma spec_slice_empty : forall items l r, r <= l -> spec_slice items l r = [].
Proof.
  intros items l r H. unfold spec_slice. destruct (_ <=? l); [reflexivity|].
  replace (N.to_nat (N.min r (N.of_nat (length items))) - N.to_nat l)%nat with O by lia. reflexivity.
Qed.
Lemma spec_slice_elements : forall items l r i,
  nth_error (spec_slice items l r) i =
  if (N.of_nat i <? N.min r (N.of_nat (length items)) - N.min l (N.of_nat (length items)))
  then nth_error items (N.to_nat (N.min l (N.of_nat (length items))) + i) else None.
Proof.
  intros items l r i. unfold spec_slice. destruct (N.of_nat (length items) <=? l) eqn:E.
  - apply N.leb_le in E. destruct (_ <? _) eqn:E2; [apply N.ltb_lt in E2; lia|]. destruct i; reflexivity.
  - apply N.leb_gt in E. destruct (_ <? _) eqn:E2.
    + apply N.ltb_lt in E2. rewrite nth_error_firstn' by lia. rewrite nth_error_skipn'. f_equal. lia.
    + apply N.ltb_ge in E2. apply nth_error_None. rewrite firstn_length, skipn_length. lia.
Qed.

Lemma spec_slice_length : forall items l r,
  l <= r -> r <= N.of_nat (length items) -> length (spec_slice items l r) = N.to_nat (r - l).
Proof.
  intros items l r H1 H2. unfold spec_slice. destruct (_ <=? l) eqn:E.
  - apply N.leb_le in E. cbn. lia.
  - apply N.leb_gt in E. rewrite firstn_length, skipn_length. lia.
Qed.

Lemma spec_slice_nth : forall items l r i,
  l <= r -> r <= N.of_nat (length items) -> i < r - l ->
  nth_error (spec_slice items l r) (N.to_nat i) = nth_error items (N.to_nat (l + i)).
Proof.
  intros items l r i H1 H2 H3. unfold spec_slice. destruct (_ <=? l) eqn:E.
  - apply N.leb_le in E. lia.
  - rewrite nth_error_firstn' by lia. rewrite nth_error_skipn'. f_equal. lia.
Qed.

Section WithEnv.
Variable mem : N -> N -> option vtree.
Variable mem_items : N -> N -> N -> option (list vtree).
Variable ty_size : N -> option N.
Variable ptr_type : list token -> option (option N).
Variable float_eq : bool -> N -> list N -> N -> bool.

Notation EVAL := (eval mem mem_items ty_size ptr_type float_eq).
Notation VINDEX := (v_index float_eq).
Notation MATCH := (match_lit float_eq).
Notation VSLICE := (v_slice mem_items ty_size array_slice).

(* a[l..r][i] = a[l+i] on arrays, for l <= r <= len and i < r - l *)
Theorem index_of_slice : forall m items l r i,
  l <= r -> r <= N.of_nat (length items) -> i < r - l ->
  exists v', VSLICE (VArray m (Some items)) (Some l) (Some r) = Ok (Some v') /\
             VINDEX v' (LInt (Z.of_N i)) = VINDEX (VArray m (Some items)) (LInt (Z.of_N (l + i))) /\
             VINDEX v' (LInt (Z.of_N i)) = nth_error items (N.to_nat (l + i)).
Proof.
  intros m items l r i H1 H2 H3. cbn [v_slice].
  rewrite (array_slice_spec items (Some l) (Some r)).
  unfold spec_slice_opt. cbn [bind]. eexists. split; [reflexivity|].
  cbn [v_index]. rewrite spec_slice_length by assumption.
  assert (Ha : ((0 <=? Z.of_N i) && (Z.of_N i <? Z.of_nat (N.to_nat (r - l))))%Z = true).
  { apply andb_true_iff. split; [apply Z.leb_le; lia|apply Z.ltb_lt; lia]. }
  assert (Hb : ((0 <=? Z.of_N (l + i)) && (Z.of_N (l + i) <? Z.of_nat (length items)))%Z = true).
  { apply andb_true_iff. split; [apply Z.leb_le; lia|apply Z.ltb_lt; lia]. }
  rewrite Ha, Hb.
  assert (Hz : forall n, Z.to_nat (Z.of_N n) = N.to_nat n) by (intros; lia).
  rewrite !Hz. rewrite spec_slice_nth by assumption. split; reflexivity.
Qed.

End WithEnv.

(* ================================================================================================ *)
(** * 3. Operators on values *)

Definition field_kind (v : vtree) : bool :=
  match v with VStruct _ _ | VRustEnum _ (Some _) | VMap _ _ _ | VVec _ _ _ => true | _ => false end.
Definition index_kind (v : vtree) : bool :=
  match v with VArray _ (Some _) | VRustEnum _ (Some _) | VVec _ _ _ | VMap _ _ _ | VSet _ _ _ => true | _ => false end.
Definition slice_kind (v : vtree) : bool :=
  match v with VArray _ _ | VPointer _ (Some _) (Some _) | VVec _ _ _ => true | _ => false end.
Definition deref_kind (v : vtree) : bool :=
  match v with VPointer _ (Some _) (Some _) | VRustEnum _ (Some _) => true | _ => false end.

Lemma find_member_sound : forall (ms : members vtree) n v,
  find_member ms n = Some v -> exists n', In (Some n', v) ms /\ bstr_eqb n' n = true.
Proof.
  induction ms as [|[[n'|] x] r IH]; intros n v H; cbn [find_member] in H.
  - discriminate.
  - destruct (bstr_eqb n' n) eqn:E.
    + injection H as H. subst x. exists n'. split; [left; reflexivity|exact E].
    + destruct (IH _ _ H) as [n2 [Hin He]]. exists n2. split; [right; exact Hin|exact He].
  - destruct (IH _ _ H) as [n2 [Hin He]]. exists n2. split; [right; exact Hin|exact He].
Qed.

Section WithEnv2.
Variable mem : N -> N -> option vtree.
Variable mem_items : N -> N -> N -> option (list vtree).
Variable ty_size : N -> option N.
Variable ptr_type : list token -> option (option N).
Variable float_eq : bool -> N -> list N -> N -> bool.

Notation EVAL := (eval mem mem_items ty_size ptr_type float_eq).
Notation SPEC_EVAL := (spec_eval mem mem_items ty_size ptr_type float_eq).
Notation VINDEX := (v_index float_eq).
Notation MATCH := (match_lit float_eq).
Notation VSLICE := (v_slice mem_items ty_size array_slice).
Notation VDEREF := (v_deref mem).

(* an operator applied to a value kind it does not apply to yields no result *)
Theorem field_wrong_kind : forall v n, field_kind v = false -> v_field v n = None.
Proof. intros v n H. destruct v as [| | | |? [[? ?]|]| | | | | | |]; try discriminate H; reflexivity. Qed.
Theorem index_wrong_kind : forall v l, index_kind v = false -> VINDEX v l = None.
Proof. intros v l H. destruct v as [| |? [?|]| |? [[? ?]|]| | | | | | |]; try discriminate H; reflexivity. Qed.
Theorem slice_wrong_kind : forall v a b, slice_kind v = false -> VSLICE v a b = Ok None.
Proof.
  intros v a b H. destruct v as [| | | | |? [?|] [?|]| | | | | |]; try discriminate H; reflexivity.
Qed.
Theorem deref_wrong_kind : forall v, deref_kind v = false -> VDEREF v = None.
Proof.
  intros v H. destruct v as [| | | |? [[? ?]|]|? [?|] [?|]| | | | | |]; try discriminate H; reflexivity.
Qed.

(* what a result is when there is one *)
Theorem struct_field_sound : forall m ms n v,
  v_field (VStruct m ms) n = Some v -> exists n', In (Some n', v) ms /\ bstr_eqb n' n = true.
Proof. intros m ms n v H. exact (find_member_sound ms n v H). Qed.

Theorem array_index_sound : forall m items l v,
  VINDEX (VArray m (Some items)) l = Some v ->
  exists z, l = LInt z /\ (0 <= z < Z.of_nat (length items))%Z /\ nth_error items (Z.to_nat z) = Some v.
Proof.
  intros m items l v H. cbn [v_index] in H. destruct l; try discriminate H.
  destruct ((0 <=? z)%Z && (z <? Z.of_nat (length items))%Z) eqn:E; [|discriminate H].
  apply andb_true_iff in E. destruct E as [E1 E2]. apply Z.leb_le in E1. apply Z.ltb_lt in E2.
  exists z. split; [reflexivity|]. split; [lia|exact H].
Qed.

Theorem array_index_in_range : forall m items i,
  (i < length items)%nat -> VINDEX (VArray m (Some items)) (LInt (Z.of_nat i)) = nth_error items i.
Proof.
  intros m items i H. cbn [v_index].
  assert (E : ((0 <=? Z.of_nat i)%Z && (Z.of_nat i <? Z.of_nat (length items))%Z) = true).
  { apply andb_true_iff. split; [apply Z.leb_le; lia|apply Z.ltb_lt; lia]. }
  rewrite E. rewrite Nat2Z.id. reflexivity.
Qed.

Theorem array_index_out_of_range : forall m items z,
  (z < 0 \/ Z.of_nat (length items) <= z)%Z -> VINDEX (VArray m (Some items)) (LInt z) = None.
Proof.
  intros m items z H. cbn [v_index].
  destruct ((0 <=? z)%Z && (z <? Z.of_nat (length items))%Z) eqn:E; [|reflexivity].
  apply andb_true_iff in E. destruct E as [E1 E2]. apply Z.leb_le in E1. apply Z.ltb_lt in E2. lia.
Qed.

(* a[key] on a map: the value under the FIRST key that matches the literal; None iff no key matches *)
Theorem map_index_spec : forall m kvs o l,
  VINDEX (VMap m kvs o) l = option_map snd (find (fun kv => MATCH (fst kv) l) kvs).
Proof. reflexivity. Qed.

Theorem map_index_some : forall m kvs o l v,
  VINDEX (VMap m kvs o) l = Some v -> exists k, In (k, v) kvs /\ MATCH k l = true.
Proof.
  intros m kvs o l v H. rewrite map_index_spec in H.
  destruct (find _ kvs) as [[k x]|] eqn:E; [|discriminate H]. injection H as H. subst x.
  apply find_some in E. destruct E as [Hin Hm]. exists k. split; [exact Hin|exact Hm].
Qed.

Theorem map_index_none : forall m kvs o l,
  VINDEX (VMap m kvs o) l = None <-> forall k v, In (k, v) kvs -> MATCH k l = false.
Proof.
  intros m kvs o l. rewrite map_index_spec. split.
  - intros H k v Hin. destruct (find _ kvs) as [kv|] eqn:E; [discriminate H|].
    exact (find_none _ _ E (k, v) Hin).
  - intros H. destruct (find _ kvs) as [[k x]|] eqn:E; [|reflexivity].
    apply find_some in E. destruct E as [Hin Hm]. cbn [fst] in Hm. rewrite (H k x Hin) in Hm. discriminate Hm.
Qed.

Theorem map_index_first : forall m pre k v post o l,
  (forall k' v', In (k', v') pre -> MATCH k' l = false) -> MATCH k l = true ->
  VINDEX (VMap m (pre ++ (k, v) :: post) o) l = Some v.
Proof.
  intros m pre k v post o l Hpre Hk. rewrite map_index_spec.
  induction pre as [|[k' v'] pre IH]; cbn [app find fst].
  - rewrite Hk. reflexivity.
  - rewrite (Hpre k' v') by (left; reflexivity). apply IH. intros k2 v2 Hin. apply (Hpre k2 v2). right. exact Hin.
Qed.

(* integer keys are compared as integers *)
Theorem match_int_key : forall m z z', MATCH (VScalar m (Some (SInt z))) (LInt z') = (z =? z')%Z.
Proof. reflexivity. Qed.

(* a[l..r] at the level of expressions *)
Theorem eval_slice_spec : forall e root m items left right,
  let l := match left with Some l => l | None => 0 end in
  let r := match right with Some r => r | None => N.of_nat (length items) end in
  EVAL e root = Ok (Some (VArray m (Some items))) ->
  EVAL (Slice e left right) root = Ok (Some (VArray m (Some (spec_slice items l r)))).
Proof.
  intros e root m items left right l r He. unfold eval in *. cbn [eval_gen]. rewrite He.
  cbn [bind v_slice]. rewrite (array_slice_spec items left right). reflexivity.
Qed.

Theorem eval_index_of_slice : forall e root m items l r i,
  EVAL e root = Ok (Some (VArray m (Some items))) ->
  l <= r -> r <= N.of_nat (length items) -> i < r - l ->
  EVAL (Index (Slice e (Some l) (Some r)) (LInt (Z.of_N i))) root = EVAL (Index e (LInt (Z.of_N (l + i)))) root.
Proof.
  intros e root m items l r i He H1 H2 H3.
  destruct (index_of_slice mem_items ty_size float_eq m items l r i H1 H2 H3) as [v' [Hs [Hi _]]].
  unfold eval in *. cbn [eval_gen]. rewrite He. cbn [bind]. rewrite Hs. cbn [bind omap]. rewrite Hi. reflexivity.
Qed.

(* *&x = x provided x has an address and a type and memory at that address, read with that type, holds x *)
Theorem deref_address : forall e root x a t,
  EVAL e root = Ok (Some x) ->
  m_addr (vmeta x) = Some a -> m_ty (vmeta x) = Some t -> mem a t = Some x ->
  EVAL (Deref (Address e)) root = Ok (Some x).
Proof.
  intros e root x a t He Ha Ht Hm. unfold eval in *. cbn [eval_gen]. rewrite He.
  cbn [bind omap]. unfold v_address. rewrite Ha, Ht. cbn [omap v_deref]. rewrite Hm. reflexivity.
Qed.

(* a value without an address has no `&`, hence no `*&` *)
Theorem address_needs_location : forall e root x,
  EVAL e root = Ok (Some x) -> m_addr (vmeta x) = None -> EVAL (Address e) root = Ok None.
Proof.
  intros e root x He Ha. unfold eval in *. cbn [eval_gen]. rewrite He. cbn [bind omap].
  unfold v_address. rewrite Ha. reflexivity.
Qed.

(* (~v).f reads field f of the underlying structure of a specialised value *)
Theorem canonic_field : forall e root m buf orig n,
  EVAL e root = Ok (Some (VVec m buf orig)) ->
  EVAL (Field (Canonic e) (FName n)) root = Ok (find_member orig n).
Proof.
  intros e root m buf orig n He. unfold eval in *. cbn [eval_gen]. rewrite He. reflexivity.
Qed.

End WithEnv2.

(* Without the memory-coherence hypothesis the law fails even when memory is coherent for the variable
   itself: a slice keeps the address and type of the WHOLE array, so `*&arr[1..3]` is all of arr. *)
Definition w_s (z : Z) : vtree := VScalar (mk_meta None (Some 1)) (Some (SInt z)).
Definition w_arr : vtree := VArray (mk_meta (Some 100) (Some 7)) (Some [w_s 10; w_s 11; w_s 12; w_s 13]).
Definition w_mem (a t : N) : option vtree := if (a =? 100) && (t =? 7) then Some w_arr else None.
Definition w_no_items (a t n : N) : option (list vtree) := None.
Definition w_no_size (t : N) : option N := None.
Definition w_no_ptr (ty : list token) : option (option N) := None.
Definition w_no_feq (neg : bool) (ip : N) (fd : list N) (b : N) : bool := false.
Definition w_eval := eval w_mem w_no_items w_no_size w_no_ptr w_no_feq.
Definition w_spec_eval := spec_eval w_mem w_no_items w_no_size w_no_ptr w_no_feq.
Definition w_var : dqe := Var (false, [[97; 114; 114]]).   (* arr *)

Theorem deref_address_refuted :
  exists e x a t,
    w_mem 100 7 = Some w_arr /\ vmeta w_arr = mk_meta (Some 100) (Some 7) /\
    w_eval e w_arr = Ok (Some x) /\ m_addr (vmeta x) = Some a /\ m_ty (vmeta x) = Some t /\
    w_eval (Deref (Address e)) w_arr = Ok (Some w_arr) /\ x <> w_arr.
Proof.
  exists (Slice w_var (Some 1) (Some 3)), (VArray (mk_meta (Some 100) (Some 7)) (Some [w_s 11; w_s 12])), 100, 7.
  repeat split; try (vm_compute; reflexivity). intros H. discriminate H.
Qed.

(* out-of-range slices are clamped
   (_old: the first three evaluations were Panic SITE_DRAIN / SITE_DRAIN / SITE_SLICE_SUB before commit 90a0582) *)
Theorem eval_slice_clamps :
  w_eval (Slice w_var (Some 5) (Some 2)) w_arr = Ok (Some (VArray (mk_meta (Some 100) (Some 7)) (Some []))) /\
  w_eval (Slice w_var (Some 5) None) w_arr = Ok (Some (VArray (mk_meta (Some 100) (Some 7)) (Some []))) /\
  w_eval (Slice w_var (Some 3) (Some 2)) w_arr = Ok (Some (VArray (mk_meta (Some 100) (Some 7)) (Some []))) /\
  w_eval (Slice w_var (Some 2) (Some 9)) w_arr = Ok (Some (VArray (mk_meta (Some 100) (Some 7)) (Some [w_s 12; w_s 13]))).
Proof. repeat split; vm_compute; reflexivity. Qed.

(* ================================================================================================ *)
(** * 4. Parsing the canonical text *)

Definition wf_path (p : path) : bool := match snd p with [] => false | _ :: _ => true end.
(* a path in literal position: the whole words `true` / `false` are the boolean literals there
   (_old: before commit 0b2cb8c every identifier STARTING with true/false was excluded: `m[trueish]` was rejected) *)
Definition lit_path_ok (p : path) : bool :=
  match p with
  | (_, []) => false
  | (true, _ :: _) => true
  | (false, s :: _) => negb (bstr_eqb s s_true) && negb (bstr_eqb s s_false)
  end.

Fixpoint wf_lit (l : lit) : bool :=
  match l with
  | LStr _ => true
  | LInt z => ((- Z.of_N P63 <=? z) && (z <? Z.of_N P63))%Z   (* all of i64 (_old: i64::MIN excluded) *)
  | LFloat _ _ fd => float_ok fd
  | LAddr n => n <? P64
  | LBool _ => true
  | LEnum p arg => lit_path_ok p && match arg with Some a => wf_lit a | None => true end
  | LArr items => forallb (fun x => match x with Some l => wf_lit l | None => true end) items
  | LAssoc kvs =>
      match kvs with [] => false | _ :: _ => true end &&
      forallb (fun kv => wf_path (fst kv) && match snd kv with Some l => wf_lit l | None => true end) kvs
  end.

Section LitInd.
Variable P : lit -> Prop.
Definition optP (o : option lit) : Prop := match o with Some a => P a | None => True end.
Hypothesis HStr : forall s, P (LStr s).
Hypothesis HInt : forall z, P (LInt z).
Hypothesis HFloat : forall n i f, P (LFloat n i f).
Hypothesis HAddr : forall n, P (LAddr n).
Hypothesis HBool : forall b, P (LBool b).
Hypothesis HEnum : forall p arg, optP arg -> P (LEnum p arg).
Hypothesis HArr : forall items, Forall optP items -> P (LArr items).
Hypothesis HAssoc : forall kvs, Forall (fun kv : path * option lit => optP (snd kv)) kvs -> P (LAssoc kvs).

Fixpoint lit_ind' (l : lit) : P l :=
  match l with
  | LStr s => HStr s
  | LInt z => HInt z
  | LFloat n i f => HFloat n i f
  | LAddr n => HAddr n
  | LBool b => HBool b
  | LEnum p arg =>
      HEnum p arg (match arg as o return optP o with Some a => lit_ind' a | None => I end)
  | LArr items =>
      HArr items
        ((fix go (xs : list (option lit)) : Forall optP xs :=
            match xs with
            | [] => Forall_nil _
            | x :: r =>
                Forall_cons x (match x as o return optP o with Some l => lit_ind' l | None => I end) (go r)
            end) items)
  | LAssoc kvs =>
      HAssoc kvs
        ((fix go (xs : list (path * option lit)) : Forall (fun kv => optP (snd kv)) xs :=
            match xs with
            | [] => Forall_nil _
            | kv :: r =>
                Forall_cons kv
                  (match snd kv as o return optP o with Some l => lit_ind' l | None => I end) (go r)
            end) kvs)
  end.
End LitInd.

(* printing equations in terms of the top-level helper functions *)
Lemma print_arr_eq : forall items,
  print_lit (LArr items) =
  TLBrace :: match items with [] => [] | x :: r => print_low x ++ print_more r end ++ [TRBrace].
Proof.
  intros [|x r]; reflexivity.
Qed.
Fixpoint pm_kv (xs : list (path * option lit)) : list token :=
  match xs with
  | [] => []
  | (k', y) :: r' => TComma :: print_path k' ++ TColon :: print_low y ++ pm_kv r'
  end.
Lemma print_assoc_eq : forall kvs,
  print_lit (LAssoc kvs) =
  TLBrace :: match kvs with [] => [] | (k, x) :: r => print_path k ++ TColon :: print_low x ++ pm_kv r end ++ [TRBrace].
Proof. intros [|[k x] r]; reflexivity. Qed.
Lemma print_enum_eq : forall p arg,
  print_lit (LEnum p arg) =
  print_path p ++ match arg with Some a => TLParen :: print_lit a ++ [TRParen] | None => [] end.
Proof. intros p [a|]; [reflexivity|]. cbn [print_lit]. rewrite app_nil_r. reflexivity. Qed.

(* paths *)
Definition no_c2 (ts : list token) : bool := match ts with TColon2 :: _ => false | _ => true end.

Lemma path_tail_print : forall segs rest, no_c2 rest = true ->
  path_tail (print_segs segs ++ rest) = (segs, rest).
Proof.
  induction segs as [|s r IH]; intros rest H.
  - cbn [print_segs app]. destruct rest as [|t rest']; [reflexivity|].
    destruct t; try reflexivity. discriminate H.
  - cbn [print_segs app path_tail]. rewrite IH by exact H. reflexivity.
Qed.

Lemma parse_path_print : forall p rest, wf_path p = true -> no_c2 rest = true ->
  parse_path (print_path p ++ rest) = Some (p, rest).
Proof.
  intros [lead [|s segs]] rest Hw Hr; [discriminate Hw|].
  destruct lead; cbn [print_path app parse_path]; rewrite path_tail_print by exact Hr; reflexivity.
Qed.

(* separated lists *)
Definition sep_tail (tl : list token) : Prop := exists r, tl = TComma :: r \/ tl = TRBrace :: r.

Lemma sep_more_ok : forall {A} (item : list token -> res (A * list token)) (pr : A -> list token) xs,
  (forall x tl, In x xs -> sep_tail tl -> item (pr x ++ tl) = Ok (x, tl)) ->
  forall f rest, (length xs < f)%nat ->
  sep_more item f (flat_map (fun x => TComma :: pr x) xs ++ TRBrace :: rest) = Ok (xs, TRBrace :: rest).
Proof.
  intros A item pr xs. induction xs as [|x r IH]; intros Hitem f rest Hf.
  - destruct f; [cbn in Hf; lia|]. reflexivity.
  - destruct f; [cbn in Hf; lia|]. cbn [flat_map app sep_more]. rewrite <- app_assoc.
    rewrite Hitem.
    + rewrite IH; [reflexivity| |cbn [length] in Hf; lia].
      intros y tl Hin Ht. apply Hitem; [right; exact Hin|exact Ht].
    + left. reflexivity.
    + destruct r as [|y r']; [exists rest; right; reflexivity|].
      cbn [flat_map app]. eexists. left. reflexivity.
Qed.

Lemma print_more_flat : forall xs, print_more xs = flat_map (fun x => TComma :: print_low x) xs.
Proof. induction xs as [|x r IH]; [reflexivity|]. cbn [print_more flat_map app]. rewrite IH. reflexivity. Qed.
Lemma pm_kv_flat : forall xs, pm_kv xs = flat_map (fun x => TComma :: print_kv x) xs.
Proof.
  induction xs as [|[k y] r IH]; [reflexivity|]. cbn [pm_kv flat_map app]. rewrite IH.
  unfold print_kv. cbn [fst snd]. rewrite <- app_assoc. reflexivity.
Qed.

Lemma flat_len_in : forall {A} (pr : A -> list token) xs x, In x xs ->
  (length (pr x) < length (flat_map (fun x => TComma :: pr x) xs))%nat.
Proof.
  intros A pr xs. induction xs as [|y r IH]; intros x Hin; [destruct Hin|].
  cbn [flat_map]. rewrite app_length. cbn [length]. destruct Hin as [->|Hin]; [lia|]. specialize (IH x Hin). lia.
Qed.
Lemma flat_len_count : forall {A} (pr : A -> list token) xs,
  (length xs <= length (flat_map (fun x => TComma :: pr x) xs))%nat.
Proof.
  intros A pr xs. induction xs as [|y r IH]; [cbn; lia|]. cbn [flat_map]. rewrite app_length. cbn [length]. lia.
Qed.

Definition lit_tail (ts : list token) : bool :=
  match ts with TColon2 :: _ | TLParen :: _ => false | _ => true end.
Lemma lit_tail_no_c2 : forall ts, lit_tail ts = true -> no_c2 ts = true.
Proof. intros [|t r] H; [reflexivity|]. destruct t; try reflexivity; discriminate H. Qed.
Lemma sep_tail_lit_tail : forall tl, sep_tail tl -> lit_tail tl = true.
Proof. intros tl [r [->| ->]]; reflexivity. Qed.

(* the enum alternative on the canonical text of a path with optional payload *)
Lemma enum_lit_print : forall (pl : lit_parser) p arg rest,
  wf_path p = true -> lit_tail rest = true ->
  match arg with Some a => pl (print_lit a ++ TRParen :: rest) = Ok (a, TRParen :: rest) | None => True end ->
  enum_lit pl (print_lit (LEnum p arg) ++ rest) = Ok (LEnum p arg, rest).
Proof.
  intros pl p arg rest Hw Ht Harg. rewrite print_enum_eq. rewrite <- app_assoc. unfold enum_lit.
  destruct arg as [a|].
  - rewrite parse_path_print; [|exact Hw|reflexivity]. cbn [app]. rewrite <- app_assoc. cbn [app].
    rewrite Harg. reflexivity.
  - cbn [app]. rewrite parse_path_print; [|exact Hw|apply lit_tail_no_c2; exact Ht].
    destruct rest as [|t r]; [reflexivity|]. destruct t; try reflexivity. discriminate Ht.
Qed.

Lemma lit_path_ok_wf : forall p, lit_path_ok p = true -> wf_path p = true.
Proof. intros [[|] [|s r]] H; try discriminate H; reflexivity. Qed.

Lemma low_print : forall (pl : lit_parser) x tl,
  match x with Some l => pl (print_lit l ++ tl) = Ok (l, tl) | None => pl (TStar :: tl) = Err 0 end ->
  low pl (print_low x ++ tl) = Ok (x, tl).
Proof. intros pl [l|] tl H; unfold low; cbn [print_low app]; rewrite H; reflexivity. Qed.

Lemma sep_more_stop : forall {A} (item : list token -> res (A * list token)) f ts,
  match ts with TComma :: _ => False | _ => True end -> sep_more item (S f) ts = Ok ([], ts).
Proof. intros A item f [|t r] H; [reflexivity|]. destruct t; try reflexivity. destruct H. Qed.

(* on `key : ...` the array alternative of `{` fails cleanly, so the assoc alternative is tried *)
Lemma arr_alt_on_key : forall f' k tl, (1 <= f')%nat -> wf_path k = true ->
  exists xs r', sep_list (low (parse_lit f')) f' (print_path k ++ TColon :: tl) = Ok (xs, r') /\
                forall r2, r' <> TRBrace :: r2.
Proof.
  intros f' k tl Hf Hw. destruct f' as [|f'']; [lia|]. destruct k as [lead [|s segs]]; [discriminate Hw|].
  assert (Henum : forall lead0, enum_lit (parse_lit f'') (print_path (lead0, s :: segs) ++ TColon :: tl)
                  = Ok (LEnum (lead0, s :: segs) None, TColon :: tl)).
  { intros lead0. apply (enum_lit_print (parse_lit f'') (lead0, s :: segs) None (TColon :: tl)); [reflexivity|reflexivity|exact I]. }
  destruct lead.
  - specialize (Henum true). cbn [print_path app] in *. unfold sep_list, low. cbn [parse_lit]. rewrite Henum.
    rewrite sep_more_stop by exact I. eexists. eexists. split; [reflexivity|]. intros r2 H. discriminate H.
  - specialize (Henum false). cbn [print_path app] in *. unfold sep_list, low. cbn [parse_lit].
    destruct (bstr_eqb s s_true).
    { rewrite sep_more_stop by (destruct segs; exact I). eexists. eexists. split; [reflexivity|].
      intros r2 H. destruct segs; discriminate H. }
    destruct (bstr_eqb s s_false).
    { rewrite sep_more_stop by (destruct segs; exact I). eexists. eexists. split; [reflexivity|].
      intros r2 H. destruct segs; discriminate H. }
    rewrite Henum. rewrite sep_more_stop by exact I. eexists. eexists. split; [reflexivity|].
    intros r2 H. discriminate H.
Qed.

Lemma first_tail_sep : forall {A} (pr : A -> list token) (r : list A) rest,
  sep_tail (flat_map (fun x => TComma :: pr x) r ++ TRBrace :: rest).
Proof.
  intros A pr [|y r'] rest; [exists rest; right; reflexivity|].
  cbn [flat_map app]. eexists. left. reflexivity.
Qed.

(* the literal grammar reads back the canonical text of every well-formed literal *)
Lemma parse_lit_print : forall l, wf_lit l = true -> forall f rest,
  (length (print_lit l) < f)%nat -> lit_tail rest = true ->
  parse_lit f (print_lit l ++ rest) = Ok (l, rest).
Proof.
  induction l as [s|z|neg ip fd|n|b|p arg IH|items IH|kvs IH] using lit_ind';
    intros Hw f rest Hf Ht; (destruct f as [|f']; [cbn in Hf; lia|]).
  - reflexivity.
  - cbn [wf_lit] in Hw. apply andb_true_iff in Hw. destruct Hw as [H1 H2].
    apply Z.leb_le in H1. apply Z.ltb_lt in H2. cbn [print_lit].
    destruct (z <? 0)%Z eqn:E.
    + apply Z.ltb_lt in E. cbn [app parse_lit].
      rewrite int_literal_neg by (unfold P63 in *; lia). cbn [bind]. rewrite Z2N.id by lia.
      rewrite Z.opp_involutive. reflexivity.
    + apply Z.ltb_ge in E. cbn [app parse_lit].
      rewrite int_literal_pos by (unfold P63 in *; lia). cbn [bind]. rewrite Z2N.id by lia. reflexivity.
  - cbn [wf_lit] in Hw. destruct neg; cbn [print_lit app parse_lit]; rewrite Hw; reflexivity.
  - cbn [wf_lit] in Hw. apply N.ltb_lt in Hw. cbn [print_lit app parse_lit].
    rewrite conv_u64_ok by exact Hw. reflexivity.
  - destruct b; reflexivity.
  - cbn [wf_lit] in Hw. apply andb_true_iff in Hw. destruct Hw as [Hp Ha].
    assert (Henum : enum_lit (parse_lit f') (print_lit (LEnum p arg) ++ rest) = Ok (LEnum p arg, rest)).
    { apply enum_lit_print; [apply lit_path_ok_wf; exact Hp|exact Ht|].
      destruct arg as [a|]; [|exact I]. apply IH; [exact Ha| |reflexivity].
      rewrite print_enum_eq in Hf. rewrite !app_length in Hf. cbn [length] in Hf. rewrite app_length in Hf. lia. }
    rewrite print_enum_eq in *. destruct p as [lead [|s segs]]; [destruct lead; discriminate Hp|].
    destruct lead; cbn [print_path app] in *.
    + cbn [parse_lit]. exact Henum.
    + cbn [lit_path_ok] in Hp. apply andb_true_iff in Hp. destruct Hp as [E1 E2].
      apply negb_true_iff in E1. apply negb_true_iff in E2.
      cbn [parse_lit]. rewrite E1, E2. exact Henum.
  - rewrite print_arr_eq in *. cbn [wf_lit] in Hw.
    pose proof (proj1 (forallb_forall _ _) Hw) as Hw'. clear Hw. rename Hw' into Hw.
    pose proof (proj1 (Forall_forall _ _) IH) as IH'. clear IH. rename IH' into IH. unfold optP in IH.
    cbn [length] in Hf. rewrite app_length in Hf. cbn [length] in Hf.
    assert (Hitem : forall x tl, In x items -> sep_tail tl ->
                    (length (print_low x) < f')%nat ->
                    low (parse_lit f') (print_low x ++ tl) = Ok (x, tl)).
    { intros x tl Hin Hst Hlen. apply low_print. destruct x as [l|].
      - apply (IH (Some l) Hin); [exact (Hw (Some l) Hin)|exact Hlen|apply sep_tail_lit_tail; exact Hst].
      - destruct f' as [|f'']; [cbn in Hlen; lia|reflexivity]. }
    cbn [app parse_lit]. destruct items as [|x r].
    + destruct f' as [|f'']; [cbn in Hf; lia|]. reflexivity.
    + rewrite <- app_assoc. rewrite <- app_assoc. cbn [app]. rewrite print_more_flat in *.
      rewrite app_length in Hf.
      unfold sep_list. rewrite Hitem; [|left; reflexivity|apply first_tail_sep|lia].
      rewrite (sep_more_ok (low (parse_lit f')) print_low r).
      * reflexivity.
      * intros y tl Hin Hst. apply Hitem; [right; exact Hin|exact Hst|].
        pose proof (flat_len_in print_low r y Hin). lia.
      * pose proof (flat_len_count print_low r). lia.
  - destruct kvs as [|[k x] r]; [discriminate Hw|]. rewrite print_assoc_eq in *.
    cbn [wf_lit andb] in Hw.
    pose proof (proj1 (forallb_forall _ _) Hw) as Hw'. clear Hw. rename Hw' into Hw.
    pose proof (proj1 (Forall_forall _ _) IH) as IH'. clear IH. rename IH' into IH. unfold optP in IH.
    cbn [length] in Hf. rewrite app_length in Hf. cbn [length] in Hf.
    assert (Hitem : forall kv tl, In kv ((k, x) :: r) -> sep_tail tl ->
                    (length (print_kv kv) < f')%nat ->
                    kv_item (parse_lit f') (print_kv kv ++ tl) = Ok (kv, tl)).
    { intros [k' y] tl Hin Hst Hlen. specialize (Hw (k', y) Hin). cbn [fst snd] in Hw.
      apply andb_true_iff in Hw. destruct Hw as [Hk Hy].
      unfold kv_item, print_kv. cbn [fst snd]. rewrite <- app_assoc. cbn [app].
      rewrite parse_path_print; [|exact Hk|reflexivity].
      unfold print_kv in Hlen. cbn [fst snd] in Hlen. rewrite app_length in Hlen. cbn [length] in Hlen.
      rewrite low_print; [reflexivity|]. destruct y as [l|].
      - cbn [print_low] in Hlen.
        apply (IH (k', Some l) Hin); [exact Hy|lia|apply sep_tail_lit_tail; exact Hst].
      - destruct f' as [|f'']; [lia|reflexivity]. }
    cbn [app parse_lit]. rewrite <- app_assoc. cbn [app]. rewrite <- app_assoc. cbn [app]. rewrite <- app_assoc.
    assert (Hk : wf_path k = true).
    { specialize (Hw (k, x) (or_introl eq_refl)). cbn [fst] in Hw. apply andb_true_iff in Hw. exact (proj1 Hw). }
    destruct (arr_alt_on_key f' k (print_low x ++ pm_kv r ++ [TRBrace] ++ rest)) as [xs [r' [Ha Hne]]];
      [rewrite !app_length in Hf; cbn [length] in Hf; lia|exact Hk|].
    cbn [app] in Ha. rewrite Ha.
    assert (Halt : forall (o : res (lit * list token)),
              orelse (match r' with TRBrace :: r2 => Ok (LArr xs, r2) | _ => Err 0 end) o = o).
    { intros o. destruct r' as [|t r2]; [reflexivity|]. destruct t; try reflexivity.
      exfalso. exact (Hne r2 eq_refl). }
    rewrite Halt. clear Halt Ha Hne xs r'.
    rewrite pm_kv_flat in *. repeat rewrite app_length in Hf. cbn [length] in Hf.
    repeat rewrite app_length in Hf.
    unfold sep_list.
    change (print_path k ++ TColon :: print_low x ++ flat_map (fun x0 => TComma :: print_kv x0) r ++ TRBrace :: rest)
      with (print_path k ++ TColon :: print_low x ++ (flat_map (fun x0 => TComma :: print_kv x0) r ++ TRBrace :: rest)).
    replace (print_path k ++ TColon :: print_low x ++ (flat_map (fun x0 => TComma :: print_kv x0) r ++ TRBrace :: rest))
      with (print_kv (k, x) ++ (flat_map (fun x0 => TComma :: print_kv x0) r ++ TRBrace :: rest))
      by (unfold print_kv; cbn [fst snd]; rewrite <- app_assoc; reflexivity).
    rewrite Hitem; [|left; reflexivity|apply first_tail_sep|unfold print_kv; cbn [fst snd]; rewrite app_length; cbn [length]; lia].
    rewrite (sep_more_ok (kv_item (parse_lit f')) print_kv r).
    + reflexivity.
    + intros y tl Hin Hst. apply Hitem; [right; exact Hin|exact Hst|].
      pose proof (flat_len_in print_kv r y Hin). lia.
    + pose proof (flat_len_count print_kv r). lia.
Qed.

(* ------------------------------------------------------------------------------------------------ *)
(** ** expressions *)

Definition bound_ok (o : option N) : bool := match o with Some n => n <? P64 | None => true end.

Fixpoint wf_dqe (e : dqe) : bool :=
  match e with
  | Var p => wf_path p
  | PtrCast ty n => match ty with [] => false | _ :: _ => true end && forallb is_ty_tok ty && (n <? P64)
  | Field e1 _ => wf_dqe e1
  | Index e1 l => wf_dqe e1 && wf_lit l
  | Slice e1 a b => wf_dqe e1 && bound_ok a && bound_ok b
  | Deref e1 | Address e1 | Canonic e1 => wf_dqe e1
  end.

Definition stop_ok (ts : list token) : bool :=
  match ts with TDot :: _ | TLBrack :: _ | TColon2 :: _ => false | _ => true end.
Definition op_head (ts : list token) : bool :=
  match ts with TDot :: _ | TLBrack :: _ => true | _ => false end.
Definition hd_not_pre (ts : list token) : bool :=
  match ts with TStar :: _ | TAmp :: _ | TTilde :: _ => false | _ => true end.
Definition tail_ok (e : dqe) (ts : list token) : bool := if is_pre e then stop_ok ts else no_c2 ts.

Lemma stop_ok_no_c2 : forall ts, stop_ok ts = true -> no_c2 ts = true.
Proof. intros [|t r] H; [reflexivity|]. destruct t; try reflexivity; discriminate H. Qed.
Lemma op_head_no_c2 : forall ts, op_head ts = true -> no_c2 ts = true.
Proof. intros [|t r] H; [reflexivity|]. destruct t; try reflexivity; discriminate H. Qed.

Lemma post_stop : forall f e ts, stop_ok ts = true -> parse_post (S f) e ts = Ok (e, ts).
Proof. intros f e [|t r] H; [reflexivity|]. destruct t; try reflexivity; discriminate H. Qed.

Lemma parse_expr_nonprefix : forall f0 ts, hd_not_pre ts = true ->
  parse_expr (S f0) ts = (ar <- parse_atom (parse_expr f0) ts ;; parse_post f0 (fst ar) (snd ar)).
Proof. intros f0 [|t r] H; [reflexivity|]. destruct t; try reflexivity; discriminate H. Qed.

Lemma print_path_ty : forall p, forallb is_ty_tok (print_path p) = true.
Proof.
  intros [lead [|s segs]]; [reflexivity|].
  assert (H : forallb is_ty_tok (print_segs segs) = true) by (induction segs; [reflexivity|exact IHsegs]).
  destruct lead; cbn [print_path app forallb is_ty_tok andb]; exact H.
Qed.

Lemma ty_span_all : forall l x r, forallb is_ty_tok l = true -> is_ty_tok x = false ->
  ty_span (l ++ x :: r) = (l, x :: r).
Proof.
  induction l as [|t l IH]; intros x r Hl Hx.
  - cbn [app ty_span]. rewrite Hx. reflexivity.
  - cbn [forallb] in Hl. apply andb_true_iff in Hl. destruct Hl as [Ht Hl].
    cbn [app ty_span]. rewrite Ht. rewrite IH by assumption. reflexivity.
Qed.

(* the tokens of an expression are either all type characters or stop being so at a token other than ")" *)
Definition span_shape (ts : list token) : Prop :=
  forallb is_ty_tok ts = true \/
  exists pre x post, ts = pre ++ x :: post /\ forallb is_ty_tok pre = true /\ is_ty_tok x = false /\ x <> TRParen.

Lemma span_shape_app : forall ts x post, span_shape ts -> is_ty_tok x = false -> x <> TRParen ->
  span_shape (ts ++ x :: post).
Proof.
  intros ts x post [Hall|[pre [y [post' [-> [Hp [Hy Hne]]]]]]] Hx Hn; right.
  - exists ts, x, post. repeat split; assumption.
  - exists pre, y, (post' ++ x :: post). rewrite <- app_assoc. repeat split; assumption.
Qed.
Lemma span_shape_cons : forall t ts, is_ty_tok t = true -> span_shape ts -> span_shape (t :: ts).
Proof.
  intros t ts Ht [Hall|[pre [y [post' [-> [Hp [Hy Hne]]]]]]].
  - left. cbn [forallb]. rewrite Ht, Hall. reflexivity.
  - right. exists (t :: pre), y, post'. repeat split; try assumption. cbn [forallb]. rewrite Ht, Hp. reflexivity.
Qed.
Lemma span_shape_stop : forall x post, is_ty_tok x = false -> x <> TRParen -> span_shape (x :: post).
Proof. intros x post Hx Hn. right. exists [], x, post. repeat split; assumption. Qed.

Lemma span_shape_post : forall e1, span_shape (print e1) -> span_shape (print_post e1).
Proof.
  intros e1 H. unfold print_post. destruct (is_pre e1); [|exact H].
  apply span_shape_stop; [reflexivity|discriminate].
Qed.

Lemma print_field_eq : forall e1 f, print (Field e1 f) = print_post e1 ++ [TDot; print_fname f].
Proof. reflexivity. Qed.
Lemma print_index_eq : forall e1 l, print (Index e1 l) = print_post e1 ++ TLBrack :: print_lit l ++ [TRBrack].
Proof. reflexivity. Qed.
Lemma print_slice_eq : forall e1 a b,
  print (Slice e1 a b) = print_post e1 ++ TLBrack :: print_bound a ++ TDotDot :: print_bound b ++ [TRBrack].
Proof. reflexivity. Qed.

Lemma print_span_shape : forall e, span_shape (print e).
Proof.
  induction e as [p|ty n|e1 IH f|e1 IH l|e1 IH a b|e1 IH|e1 IH|e1 IH].
  - left. apply print_path_ty.
  - apply span_shape_stop; [reflexivity|discriminate].
  - rewrite print_field_eq. apply span_shape_app; [apply span_shape_post; exact IH|reflexivity|discriminate].
  - rewrite print_index_eq. apply span_shape_app; [apply span_shape_post; exact IH|reflexivity|discriminate].
  - rewrite print_slice_eq. apply span_shape_app; [apply span_shape_post; exact IH|reflexivity|discriminate].
  - cbn [print]. apply span_shape_cons; [reflexivity|exact IH].
  - cbn [print]. apply span_shape_cons; [reflexivity|exact IH].
  - cbn [print]. apply span_shape_stop; [reflexivity|discriminate].
Qed.

(* "(" e ")" followed by a postfix operator is never mistaken for a pointer cast *)
Lemma ptr_cast_paren_fails : forall e X, op_head X = true -> ptr_cast (print e ++ TRParen :: X) = Err 0.
Proof.
  intros e X HX. unfold ptr_cast. destruct (print_span_shape e) as [Hall|[pre [x [post [Heq [Hp [Hx Hne]]]]]]].
  - rewrite ty_span_all by (try exact Hall; reflexivity).
    destruct X as [|t r]; [discriminate HX|]. destruct t; try discriminate HX; destruct (print e); reflexivity.
  - rewrite Heq. rewrite <- app_assoc. cbn [app]. rewrite ty_span_all by assumption.
    destruct pre; destruct x; try reflexivity; exfalso; apply Hne; reflexivity.
Qed.

Lemma int_literal_false_ok : forall n, n < P64 -> int_literal false n = Ok (as_i64 n).
Proof. intros n H. unfold int_literal. rewrite conv_u64_ok by exact H. reflexivity. Qed.

Lemma print_nonempty : forall e, wf_dqe e = true -> (1 <= length (print e))%nat.
Proof.
  intros e H. destruct e as [[lead [|s segs]]| | | | | | |]; try (cbn [print length]; lia).
  - discriminate H.
  - destruct lead; cbn; lia.
  - rewrite print_field_eq, app_length. cbn. lia.
  - rewrite print_index_eq, app_length. cbn. lia.
  - rewrite print_slice_eq, app_length. cbn. lia.
Qed.

Lemma index_op_slice_some : forall f3 n r, n < P64 ->
  index_op (parse_lit (S f3)) (TInt n :: TDotDot :: r) = Err 0.
Proof. intros f3 n r H. unfold index_op. cbn [parse_lit]. rewrite int_literal_false_ok by exact H. reflexivity. Qed.
Lemma index_op_slice_none : forall f3 r, index_op (parse_lit (S f3)) (TDotDot :: r) = Err 0.
Proof. reflexivity. Qed.

Definition expr_stmt (e : dqe) : Prop :=
  wf_dqe e = true -> forall f ts', (length (print e) < f)%nat -> tail_ok e ts' = true ->
  exists f', (f <= f' + length (print e))%nat /\ (1 <= f')%nat /\
             parse_expr f (print e ++ ts') = parse_post f' e ts'.

(* the base of a postfix operator: an atom / postfix chain as is, a prefix expression in parentheses *)
Lemma post_base : forall e1, expr_stmt e1 -> wf_dqe e1 = true -> forall f X,
  (length (print_post e1) < f)%nat -> op_head X = true ->
  exists f1, (f <= f1 + length (print_post e1))%nat /\ (1 <= f1)%nat /\
             parse_expr f (print_post e1 ++ X) = parse_post f1 e1 X.
Proof.
  intros e1 IH Hw f X Hf HX. unfold print_post in *. destruct (is_pre e1) eqn:Epre.
  - destruct f as [|f0]; [lia|]. cbn [length] in Hf. rewrite app_length in Hf. cbn [length] in Hf.
    cbn [app]. rewrite <- app_assoc. cbn [app].
    rewrite parse_expr_nonprefix by reflexivity. unfold parse_atom. cbn [parse_path].
    rewrite ptr_cast_paren_fails by exact HX. cbn [orelse].
    destruct (IH Hw f0 (TRParen :: X)) as [f1 [H1 [H2 H3]]]; [lia|unfold tail_ok; rewrite Epre; reflexivity|].
    rewrite H3. destruct f1 as [|f1']; [lia|]. rewrite post_stop by reflexivity. cbn [bind fst snd].
    exists f0. split; [cbn [length]; rewrite app_length; cbn [length]; lia|]. split; [|reflexivity].
    pose proof (print_nonempty e1 Hw). lia.
  - apply (IH Hw f X Hf). unfold tail_ok. rewrite Epre. apply op_head_no_c2. exact HX.
Qed.

Lemma parse_print_expr : forall e, expr_stmt e.
Proof.
  induction e as [p|ty n|e1 IH fn|e1 IH l|e1 IH a b|e1 IH|e1 IH|e1 IH]; intros Hw f ts' Hf Ht.
  - (* Var *)
    destruct f as [|f0]; [lia|]. cbn [wf_dqe] in Hw. cbn [print] in *.
    assert (Hh : hd_not_pre (print_path p ++ ts') = true).
    { destruct p as [lead [|s segs]]; [discriminate Hw|]. destruct lead; reflexivity. }
    rewrite parse_expr_nonprefix by exact Hh. unfold parse_atom.
    rewrite parse_path_print by (try exact Hw; exact Ht). cbn [bind fst snd].
    exists f0. split; [|split; [|reflexivity]].
    + assert (1 <= length (print_path p))%nat; [|lia].
      destruct p as [lead [|s segs]]; [discriminate Hw|]. destruct lead; cbn; lia.
    + assert (1 <= length (print_path p))%nat; [|lia].
      destruct p as [lead [|s segs]]; [discriminate Hw|]. destruct lead; cbn; lia.
  - (* PtrCast *)
    destruct f as [|f0]; [lia|]. cbn [wf_dqe] in Hw. apply andb_true_iff in Hw. destruct Hw as [Hw Hn].
    apply andb_true_iff in Hw. destruct Hw as [Hne Hty]. apply N.ltb_lt in Hn.
    cbn [print] in *. cbn [app]. rewrite <- app_assoc. cbn [app].
    rewrite parse_expr_nonprefix by reflexivity. unfold parse_atom. cbn [parse_path]. unfold ptr_cast.
    rewrite ty_span_all by (try exact Hty; reflexivity).
    destruct ty as [|t ty']; [discriminate Hne|]. rewrite conv_u64_ok by exact Hn. cbn [bind orelse fst snd].
    exists f0. cbn [length] in *. rewrite app_length in *. cbn [length] in *. split; [lia|]. split; [lia|reflexivity].
  - (* Field *)
    cbn [wf_dqe] in Hw. rewrite print_field_eq in *. rewrite <- app_assoc. cbn [app].
    rewrite app_length in Hf. cbn [length] in Hf.
    destruct (post_base e1 IH Hw f (TDot :: print_fname fn :: ts')) as [f1 [H1 [H2 H3]]]; [lia|reflexivity|].
    rewrite H3. destruct f1 as [|f2]; [lia|].
    exists f2. rewrite app_length. cbn [length]. split; [lia|]. split; [lia|]. destruct fn; reflexivity.
  - (* Index *)
    cbn [wf_dqe] in Hw. apply andb_true_iff in Hw. destruct Hw as [Hw Hl].
    rewrite print_index_eq in *. rewrite <- app_assoc. cbn [app]. rewrite <- app_assoc. cbn [app].
    rewrite app_length in Hf. cbn [length] in Hf. rewrite app_length in Hf. cbn [length] in Hf.
    destruct (post_base e1 IH Hw f (TLBrack :: print_lit l ++ TRBrack :: ts')) as [f1 [H1 [H2 H3]]]; [lia|reflexivity|].
    rewrite H3. destruct f1 as [|f2]; [lia|]. cbn [parse_post]. unfold index_op.
    rewrite parse_lit_print; [|exact Hl|lia|reflexivity].
    exists f2. rewrite app_length. cbn [length]. rewrite app_length. cbn [length].
    split; [lia|]. split; [lia|reflexivity].
  - (* Slice *)
    cbn [wf_dqe] in Hw. apply andb_true_iff in Hw. destruct Hw as [Hw Hb].
    apply andb_true_iff in Hw. destruct Hw as [Hw Ha].
    rewrite print_slice_eq in *. rewrite <- app_assoc. cbn [app]. rewrite <- app_assoc. cbn [app].
    rewrite <- app_assoc. cbn [app].
    repeat (rewrite app_length in Hf; cbn [length] in Hf).
    destruct (post_base e1 IH Hw f (TLBrack :: print_bound a ++ TDotDot :: print_bound b ++ TRBrack :: ts'))
      as [f1 [H1 [H2 H3]]]; [lia|reflexivity|].
    rewrite H3. destruct f1 as [|f2]; [lia|].
    destruct a as [na|]; destruct b as [nb|]; cbn [bound_ok] in Ha, Hb;
      try apply N.ltb_lt in Ha; try apply N.ltb_lt in Hb;
      cbn [print_bound app parse_post length] in *;
      (destruct f2 as [|f3]; [lia|]);
      exists (S f3); (split; [repeat (rewrite app_length; cbn [length]); lia|]); (split; [lia|]);
      rewrite ?index_op_slice_some by assumption; rewrite ?index_op_slice_none;
      unfold slice_op, mb_usize; cbn [bind fst snd];
      repeat (rewrite conv_u64_ok by assumption; cbn [bind fst snd]); reflexivity.
  - (* Deref *)
    destruct f as [|f0]; [lia|]. cbn [wf_dqe] in Hw. cbn [print length] in *. cbn [app parse_expr].
    unfold tail_ok in Ht. cbn [is_pre] in Ht.
    destruct (IH Hw f0 ts') as [f1 [H1 [H2 H3]]];
      [lia|unfold tail_ok; destruct (is_pre e1); [exact Ht|apply stop_ok_no_c2; exact Ht]|].
    rewrite H3. destruct f1 as [|f1']; [lia|]. rewrite post_stop by exact Ht. cbn [bind fst snd].
    exists (S f0). split; [lia|]. split; [lia|]. rewrite post_stop by exact Ht. reflexivity.
  - (* Address *)
    destruct f as [|f0]; [lia|]. cbn [wf_dqe] in Hw. cbn [print length] in *. cbn [app parse_expr].
    unfold tail_ok in Ht. cbn [is_pre] in Ht.
    destruct (IH Hw f0 ts') as [f1 [H1 [H2 H3]]];
      [lia|unfold tail_ok; destruct (is_pre e1); [exact Ht|apply stop_ok_no_c2; exact Ht]|].
    rewrite H3. destruct f1 as [|f1']; [lia|]. rewrite post_stop by exact Ht. cbn [bind fst snd].
    exists (S f0). split; [lia|]. split; [lia|]. rewrite post_stop by exact Ht. reflexivity.
  - (* Canonic *)
    destruct f as [|f0]; [lia|]. cbn [wf_dqe] in Hw. cbn [print length] in *. cbn [app parse_expr].
    unfold tail_ok in Ht. cbn [is_pre] in Ht.
    destruct (IH Hw f0 ts') as [f1 [H1 [H2 H3]]];
      [lia|unfold tail_ok; destruct (is_pre e1); [exact Ht|apply stop_ok_no_c2; exact Ht]|].
    rewrite H3. destruct f1 as [|f1']; [lia|]. rewrite post_stop by exact Ht. cbn [bind fst snd].
    exists (S f0). split; [lia|]. split; [lia|]. rewrite post_stop by exact Ht. reflexivity.
Qed.

(* HEADLINE: the canonical text of every well-formed expression parses back to that expression *)
Theorem parse_print : forall e, wf_dqe e = true -> parse (print e) = Ok e.
Proof.
  intros e Hw. unfold parse.
  destruct (parse_print_expr e Hw (S (length (print e))) []) as [f' [H1 [H2 H3]]];
    [lia|unfold tail_ok; destruct (is_pre e); reflexivity|].
  rewrite app_nil_r in H3. rewrite H3. destruct f' as [|f'']; [lia|]. rewrite post_stop by reflexivity. reflexivity.
Qed.

Corollary parse_opt_print : forall e, wf_dqe e = true -> parse_opt (print e) = Some e.
Proof. intros e Hw. unfold parse_opt. rewrite parse_print by exact Hw. reflexivity. Qed.

(* printing is injective on well-formed expressions: the text determines the expression *)
Corollary print_injective : forall e1 e2, wf_dqe e1 = true -> wf_dqe e2 = true -> print e1 = print e2 -> e1 = e2.
Proof.
  intros e1 e2 H1 H2 H. pose proof (parse_print e1 H1) as P1. rewrite H in P1.
  rewrite (parse_print e2 H2) in P1. injection P1 as P1. symmetry. exact P1.
Qed.

(* ------------------------------------------------------------------------------------------------ *)
(** ** what lies outside [wf_dqe] *)

Definition w_a : dqe := Var (false, [[109]]).                        (* m *)
Definition s_trueish : bstr := [116; 114; 117; 101; 105; 115; 104].  (* trueish *)

(* these three were the counter-examples of the unrepaired grammar; they are well-formed now and round-trip
   (_old: parse (print e1) = Err 0, parse (print e2) = Err 0, parse (print e3) = Panic SITE_EXPR_NEG) *)
Example parse_print_repaired :
  let e1 := Index w_a (LEnum (false, [s_trueish]) None) in       (* m[trueish] *)
  let e2 := Index w_a (LFloat false 1 [0; 5]) in                  (* m[1.05] *)
  let e3 := Index w_a (LInt (- 9223372036854775808)) in           (* m[-9223372036854775808] *)
  wf_dqe e1 = true /\ wf_dqe e2 = true /\ wf_dqe e3 = true /\
  parse (print e1) = Ok e1 /\ parse (print e2) = Ok e2 /\ parse (print e3) = Ok e3.
Proof. repeat split; vm_compute; reflexivity. Qed.

(* The full statement "forall e, parse (print e) = Ok e" is still false: an empty struct literal has no text
   (`{}` is the empty array literal), and the words true / false are not enum variants. *)
Theorem parse_print_unrestricted_refuted :
  let e4 := Index w_a (LAssoc []) in
  let e5 := Index w_a (LEnum (false, [s_true]) None) in
  parse (print e4) = Ok (Index w_a (LArr [])) /\ parse (print e5) = Ok (Index w_a (LBool true)).
Proof. repeat split; vm_compute; reflexivity. Qed.

(* Rust's own `Display for Literal` is not an inverse of the literal grammar *)
Theorem literal_display_reparse_refuted :
  let l1 := LAssoc [((false, [[107]]), Some (LInt 1))] in     (* prints { "k": 1 } *)
  let l2 := LFloat false 1 [0] in                              (* 1.0 prints 1 *)
  wf_lit l1 = true /\ parse_literal (display_lit l1) = Err 0 /\
  wf_lit l2 = true /\ parse_literal (display_lit l2) = Ok (LInt 1).
Proof. repeat split; vm_compute; reflexivity. Qed.

(* whereas the canonical text of a well-formed literal is *)
Theorem parse_literal_print : forall l, wf_lit l = true -> parse_literal (print_lit l) = Ok l.
Proof.
  intros l Hw. unfold parse_literal.
  pose proof (parse_lit_print l Hw (S (length (print_lit l))) []) as H. rewrite app_nil_r in H.
  rewrite H; [reflexivity|lia|reflexivity].
Qed.

(* precedence: postfix operators bind tighter than prefix operators *)
Definition w_id (c : N) : token := TId [c].
Definition w_v (c : N) : dqe := Var (false, [[c]]).
Example prec_deref_field :   (* text: star a . b *)
  parse [TStar; w_id 97; TDot; w_id 98] = Ok (Deref (Field (w_v 97) (FName [98]))).
Proof. vm_compute. reflexivity. Qed.
Example prec_deref_index :   (* text: star a [ 1 ] *)
  parse [TStar; w_id 97; TLBrack; TInt 1; TRBrack] = Ok (Deref (Index (w_v 97) (LInt 1))).
Proof. vm_compute. reflexivity. Qed.
Example prec_paren :         (* text: ( star a ) . b *)
  parse [TLParen; TStar; w_id 97; TRParen; TDot; w_id 98] = Ok (Field (Deref (w_v 97)) (FName [98])).
Proof. vm_compute. reflexivity. Qed.
Example prec_addr_slice :    (* text: & a . b [ 1 .. 2 ] *)
  parse [TAmp; w_id 97; TDot; w_id 98; TLBrack; TInt 1; TDotDot; TInt 2; TRBrack]
  = Ok (Address (Slice (Field (w_v 97) (FName [98])) (Some 1) (Some 2))).
Proof. vm_compute. reflexivity. Qed.
Example prec_canonic_deref : (* text: ~ star a *)
  parse [TTilde; TStar; w_id 97] = Ok (Canonic (Deref (w_v 97))).
Proof. vm_compute. reflexivity. Qed.
Example paren_then_hex_is_cast :   (* (a)0x10 is a pointer cast, not a parenthesised variable *)
  parse [TLParen; w_id 97; TRParen; THex 16] = Ok (PtrCast [w_id 97] 16).
Proof. vm_compute. reflexivity. Qed.

(* the five inputs that used to panic (one per unwrap) are rejected, except -2^63 which is now i64::MIN
   (_old: Panic SITE_EXPR_INT, SITE_EXPR_NEG, SITE_EXPR_USIZE, SITE_HEX, SITE_HEX) *)
Theorem parse_old_panic_witnesses :
  parse [w_id 120; TLBrack; TInt P64; TRBrack] = Err 0 /\            (* x[18446744073709551616] *)
  parse [w_id 120; TLBrack; TMinus; TInt P63; TRBrack] = Ok (Index (w_v 120) (LInt (- 9223372036854775808))) /\
  parse [w_id 120; TLBrack; TDotDot; TInt P64; TRBrack] = Err 0 /\   (* x[..18446744073709551616] *)
  parse [w_id 120; TLBrack; THex P64; TRBrack] = Err 0 /\            (* x[0x10000000000000000] *)
  parse [TLParen; w_id 120; TRParen; THex P64] = Err 0.              (* (x)0x10000000000000000 *)
Proof. repeat split; vm_compute; reflexivity. Qed.

(* ================================================================================================ *)
(** * 5. The parser never panics, on ANY token list
    (_old: before commit 99f406a this held only for token lists whose integers were < 2^63 and hex numbers < 2^64) *)

Definition np {A} (r : res A) : Prop := match r with Panic _ => False | _ => True end.

Lemma np_is_panic : forall {A} (r : res A), np r -> is_panic r = false.
Proof. intros A [a|c|s|] H; try reflexivity. destruct H. Qed.

Section SepNp.
Context {A : Type}.
Variable item : list token -> res (A * list token).
Hypothesis item_np : forall ts, np (item ts).

Lemma sep_more_np : forall f ts, np (sep_more item f ts).
Proof.
  induction f as [|f IH]; intros ts; [exact I|].
  destruct ts as [|t r]; [exact I|]. destruct t; try exact I.
  cbn [sep_more]. pose proof (item_np r) as Hi. destruct (item r) as [[x r1]| | |]; try exact Hi; try exact I.
  pose proof (IH r1) as Hm. destruct (sep_more item f r1) as [[xs r2]| | |]; try exact Hm; exact I.
Qed.

Lemma sep_list_np : forall f ts, np (sep_list item f ts).
Proof.
  intros f ts. unfold sep_list. pose proof (item_np ts) as Hi.
  destruct (item ts) as [[x r]| | |]; try exact Hi; try exact I.
  pose proof (sep_more_np f r) as Hm. destruct (sep_more item f r) as [[xs r']| | |]; try exact Hm; exact I.
Qed.
End SepNp.

Lemma low_np : forall (pl : lit_parser), (forall ts, np (pl ts)) -> forall ts, np (low pl ts).
Proof.
  intros pl Hpl ts. unfold low. pose proof (Hpl ts) as H.
  destruct (pl ts) as [[l r]| | |]; try exact H; try exact I.
  destruct ts as [|t r]; [exact I|]. destruct t; exact I.
Qed.

Lemma kv_item_np : forall (pl : lit_parser), (forall ts, np (pl ts)) -> forall ts, np (kv_item pl ts).
Proof.
  intros pl Hpl ts. unfold kv_item. destruct (parse_path ts) as [[k r]|]; [|exact I].
  destruct r as [|t r1]; [exact I|]. destruct t; try exact I.
  pose proof (low_np pl Hpl r1) as H. destruct (low pl r1) as [[v r']| | |]; try exact H; exact I.
Qed.

Lemma enum_lit_np : forall (pl : lit_parser), (forall ts, np (pl ts)) -> forall ts, np (enum_lit pl ts).
Proof.
  intros pl Hpl ts. unfold enum_lit. destruct (parse_path ts) as [[p r]|]; [|exact I].
  destruct r as [|t r1]; [exact I|]. destruct t; try exact I.
  pose proof (Hpl r1) as H. destruct (pl r1) as [[a r2]| | |]; try exact H; try exact I.
  destruct r2 as [|t2 r3]; [exact I|]. destruct t2; exact I.
Qed.

Lemma int_lit_step_np : forall neg n (r : list token),
  np (z <- int_literal neg n ;; Ok (LInt z, r)).
Proof.
  intros neg n r. pose proof (int_literal_no_panic neg n) as H.
  destruct (int_literal neg n); try exact I. discriminate H.
Qed.
Lemma hex_step_np : forall {A} s n (k : N -> A),
  np (v <- conv_u64 s n ;; Ok (k v)).
Proof.
  intros A s n k. pose proof (conv_u64_no_panic s n) as H. destruct (conv_u64 s n); try exact I. discriminate H.
Qed.

Lemma close_np : forall {X Y} (r : res (X * list token)) (g : X -> Y), np r ->
  np (match r with
      | Ok (x, TRBrace :: r2) => Ok (g x, r2)
      | Ok _ => Err 0
      | Err c => Err c
      | Panic s => Panic s
      | OutOfFuel => OutOfFuel
      end).
Proof.
  intros X Y [[x r]| | |] g H; try exact H; try exact I.
  destruct r as [|t r2]; [exact I|]. destruct t; exact I.
Qed.
Lemma orelse_np : forall {A} (a b : res A), np a -> np b -> np (orelse a b).
Proof. intros A [x|c|s|] b Ha Hb; try exact I; [exact Hb|destruct Ha]. Qed.

Lemma parse_lit_np : forall f ts, np (parse_lit f ts).
Proof.
  induction f as [|f IH]; intros ts; [exact I|].
  destruct ts as [|t r]; [exact I|]. destruct t; cbn [parse_lit]; try exact I.
  - destruct (bstr_eqb s s_true); [exact I|]. destruct (bstr_eqb s s_false); [exact I|].
    apply enum_lit_np. exact IH.
  - apply int_lit_step_np.
  - apply (hex_step_np SITE_HEX n (fun v => (LAddr v, r))).
  - destruct (float_ok fd); exact I.
  - destruct r as [|t2 r2]; [exact I|]. destruct t2; try exact I.
    + apply int_lit_step_np.
    + destruct (float_ok fd); exact I.
  - apply enum_lit_np. exact IH.
  - apply orelse_np.
    + apply (close_np (sep_list (low (parse_lit f)) f r) LArr). apply sep_list_np. apply low_np. exact IH.
    + apply (close_np (sep_list (kv_item (parse_lit f)) f r) LAssoc). apply sep_list_np. apply kv_item_np. exact IH.
Qed.

Lemma ptr_cast_np : forall ts, np (ptr_cast ts).
Proof.
  intros ts. unfold ptr_cast. destruct (ty_span ts) as [ty r].
  destruct ty as [|t0 ty']; [exact I|]. destruct r as [|t r1]; [exact I|]. destruct t; try exact I.
  destruct r1 as [|t2 r2]; [exact I|]. destruct t2; try exact I.
  apply (hex_step_np SITE_HEX n (fun v => (PtrCast (t0 :: ty') v, r2))).
Qed.

Lemma index_op_np : forall f ts, np (index_op (parse_lit f) ts).
Proof.
  intros f ts. unfold index_op. pose proof (parse_lit_np f ts) as H.
  destruct (parse_lit f ts) as [[l r]| | |]; try exact H; try exact I.
  destruct r as [|t r1]; [exact I|]. destruct t; exact I.
Qed.

Lemma mb_usize_cases : forall ts, (exists o r, mb_usize ts = Ok (o, r)) \/ mb_usize ts = Err 0.
Proof.
  intros ts. destruct ts as [|t r]; [left; eexists; eexists; reflexivity|].
  destruct t; try (left; eexists; eexists; reflexivity).
  cbn [mb_usize]. destruct (N.lt_ge_cases n P64) as [H|H].
  - rewrite conv_u64_ok by exact H. left. eexists. eexists. reflexivity.
  - rewrite conv_u64_rejects by exact H. right. reflexivity.
Qed.

Lemma slice_op_np : forall ts, np (slice_op ts).
Proof.
  intros ts. unfold slice_op. destruct (mb_usize_cases ts) as [[a [r1 E1]]|E1]; rewrite E1; [|exact I].
  cbn [bind snd fst]. destruct r1 as [|t r2]; [exact I|]. destruct t; try exact I.
  destruct (mb_usize_cases r2) as [[b [r3 E2]]|E2]; rewrite E2; [|exact I].
  cbn [bind snd fst]. destruct r3 as [|t r4]; [exact I|]. destruct t; exact I.
Qed.

Lemma parse_post_np : forall f e ts, np (parse_post f e ts).
Proof.
  induction f as [|f IH]; intros e ts; [exact I|].
  destruct ts as [|t r]; [exact I|]. destruct t; try exact I.
  - destruct r as [|t2 r2]; [exact I|]. destruct t2; try exact I; cbn [parse_post]; apply IH.
  - cbn [parse_post]. pose proof (index_op_np f r) as Hi.
    destruct (index_op (parse_lit f) r) as [[l r']| | |]; try exact Hi; try exact I.
    + apply IH.
    + pose proof (slice_op_np r) as Hsl. destruct (slice_op r) as [[[a b] r']| | |]; try exact Hsl; try exact I.
      apply IH.
Qed.

Lemma parse_atom_np : forall (pe : expr_parser), (forall ts, np (pe ts)) -> forall ts, np (parse_atom pe ts).
Proof.
  intros pe Hpe ts. unfold parse_atom. destruct (parse_path ts) as [[p r]|]; [exact I|].
  destruct ts as [|t r]; [exact I|]. destruct t; try exact I.
  apply orelse_np; [apply ptr_cast_np|].
  pose proof (Hpe r) as H. destruct (pe r) as [[e r']| | |]; try exact H; try exact I.
  destruct r' as [|t r2]; [exact I|]. destruct t; exact I.
Qed.

Lemma parse_expr_np : forall f ts, np (parse_expr f ts).
Proof.
  induction f as [|f IH]; intros ts; [exact I|].
  assert (Hatom : np (ar <- parse_atom (parse_expr f) ts ;; parse_post f (fst ar) (snd ar))).
  { pose proof (parse_atom_np (parse_expr f) IH ts) as Ha.
    destruct (parse_atom (parse_expr f) ts) as [[a r]| | |]; try exact Ha; try exact I. apply parse_post_np. }
  destruct ts as [|t r]; [exact Hatom|]. destruct t; try exact Hatom;
    cbn [parse_expr]; pose proof (IH r) as H; destruct (parse_expr f r) as [[e r']| | |]; try exact H; exact I.
Qed.

(* HEADLINE (C08, parser part): on EVERY token list the DQE parser returns an expression or a rejection *)
Theorem parse_no_panic : forall ts, is_panic (parse ts) = false.
Proof.
  intros ts. unfold parse. pose proof (parse_expr_np (S (length ts)) ts) as H.
  destruct (parse_expr (S (length ts)) ts) as [[e r]| | |]; try reflexivity; [destruct r; reflexivity|destruct H].
Qed.

Theorem parse_literal_no_panic : forall ts, is_panic (parse_literal ts) = false.
Proof.
  intros ts. unfold parse_literal. pose proof (parse_lit_np (S (length ts)) ts) as H.
  destruct (parse_lit (S (length ts)) ts) as [[e r]| | |]; try reflexivity; [destruct r; reflexivity|destruct H].
Qed.

(* ================================================================================================ *)
(** * 6. Evaluation never panics
    (_old: before commit 90a0582 [eval] panicked through the slice operator - drain(..left) with left > len,
    right - left with right < left, ptr + size * left - and the theorem was restricted to slice-free expressions) *)

Section EvalTotal.
Variable mem : N -> N -> option vtree.
Variable mem_items : N -> N -> N -> option (list vtree).
Variable ty_size : N -> option N.
Variable ptr_type : list token -> option (option N).
Variable float_eq : bool -> N -> list N -> N -> bool.

Notation EVAL := (eval mem mem_items ty_size ptr_type float_eq).
Notation SPEC_EVAL := (spec_eval mem mem_items ty_size ptr_type float_eq).

Lemma v_slice_code_is_spec : forall v a b,
  v_slice mem_items ty_size array_slice v a b = v_slice mem_items ty_size spec_slice_opt v a b.
Proof.
  intros v a b. destruct v as [| |? [?|]| | | |? buf ?| | | | |]; try reflexivity.
  - cbn [v_slice]. rewrite array_slice_spec. reflexivity.
  - cbn [v_slice]. destruct buf as [| |? [?|]| | | | | | | | |]; try reflexivity. rewrite array_slice_spec. reflexivity.
Qed.

(* HEADLINE: the code computes the documented meaning, for every expression, value and environment *)
Theorem eval_is_spec_eval : forall e root, EVAL e root = SPEC_EVAL e root.
Proof.
  intros e root. unfold eval, spec_eval.
  induction e as [p|ty n|e1 IH fn|e1 IH l|e1 IH a b|e1 IH|e1 IH|e1 IH]; cbn [eval_gen]; try rewrite IH; try reflexivity.
  destruct (eval_gen mem mem_items ty_size ptr_type float_eq spec_slice_opt e1 root) as [[v|]| | |]; try reflexivity.
  cbn [bind]. apply v_slice_code_is_spec.
Qed.

(* the only panic left in the operators is the debug assertion of VecValue::slice *)
Lemma v_slice_panic_site : forall v a b s,
  v_slice mem_items ty_size array_slice v a b = Panic s -> s = SITE_VEC_ASSERT.
Proof.
  intros v a b s H. destruct v as [| |? [?|]| | |? [?|] [?|]|? buf ?| | | | |]; cbn [v_slice] in H; try discriminate H.
  - rewrite array_slice_spec in H. discriminate H.
  - destruct b as [r|]; [|discriminate H]. destruct (ty_size n0) as [sz|]; [|discriminate H].
    destruct (_ || _); [discriminate H|]. destruct (mem_items _ _ _); discriminate H.
  - destruct buf as [| |? [?|]| | | | | | | | |]; try (injection H as H; symmetry; exact H); try discriminate H.
    rewrite array_slice_spec in H. discriminate H.
Qed.

Theorem eval_panic_site : forall e root s, EVAL e root = Panic s -> s = SITE_VEC_ASSERT.
Proof.
  intros e root. unfold eval.
  induction e as [p|ty n|e1 IH fn|e1 IH l|e1 IH a b|e1 IH|e1 IH|e1 IH]; intros s H; cbn [eval_gen] in H;
    try discriminate H;
    try (destruct (eval_gen _ _ _ _ _ _ e1 root) as [[v|]| | |]; cbn [bind] in H; try discriminate H;
         try (apply IH; exact H); fail).
  - destruct (ptr_type ty); discriminate H.
  - destruct (eval_gen _ _ _ _ _ _ e1 root) as [[v|]| | |]; cbn [bind] in H; try discriminate H.
    + exact (v_slice_panic_site v a b s H).
    + apply IH. exact H.
Qed.

(* ... and that assertion cannot fire on values built by the vector parsers (specialization/mod.rs:261,788 always put a
   Value::Array in members[0]): [vec_ok] says every vector inside a value has an array as its buffer *)
Definition mems_ok (f : vtree -> bool) (ms : members vtree) : bool := forallb (fun m => f (snd m)) ms.

Fixpoint vec_ok (v : vtree) : bool :=
  match v with
  | VScalar _ _ | VCEnum _ _ | VPointer _ _ _ | VSubroutine _ => true
  | VStruct _ ms => forallb (fun m => vec_ok (snd m)) ms
  | VArray _ None => true
  | VArray _ (Some its) => forallb vec_ok its
  | VRustEnum _ None => true
  | VRustEnum _ (Some (_, x)) => vec_ok x
  | VVec _ buf orig =>
      match buf with VArray _ _ => true | _ => false end && vec_ok buf && forallb (fun m => vec_ok (snd m)) orig
  | VMap _ kvs orig =>
      forallb (fun kv => vec_ok (fst kv) && vec_ok (snd kv)) kvs && forallb (fun m => vec_ok (snd m)) orig
  | VSet _ its orig => forallb vec_ok its && forallb (fun m => vec_ok (snd m)) orig
  | VStr _ _ orig | VSpecOther _ orig => forallb (fun m => vec_ok (snd m)) orig
  end.

Hypothesis mem_ok : forall a t v, mem a t = Some v -> vec_ok v = true.
Hypothesis mem_items_ok : forall a t n its, mem_items a t n = Some its -> forallb vec_ok its = true.

Lemma find_member_ok : forall (ms : members vtree) n v,
  forallb (fun m => vec_ok (snd m)) ms = true -> find_member ms n = Some v -> vec_ok v = true.
Proof.
  induction ms as [|[[n'|] x] r IH]; intros n v Hok H; cbn [find_member] in H; [discriminate H| |];
    cbn [forallb snd] in Hok; apply andb_true_iff in Hok; destruct Hok as [Hx Hr].
  - destruct (bstr_eqb n' n); [injection H as H; subst x; exact Hx|exact (IH n v Hr H)].
  - exact (IH n v Hr H).
Qed.

Lemma v_field_ok : forall v n x, vec_ok v = true -> v_field v n = Some x -> vec_ok x = true.
Proof.
  fix IH 1. intros v n x Hok H. destruct v as [| | | |? [[fn inner]|]| |? buf ?|? kvs ?| | | |]; cbn [v_field] in H; try discriminate H.
  - exact (find_member_ok ms n x Hok H).
  - cbn [vec_ok] in Hok. exact (IH inner n x Hok H).
  - cbn [vec_ok] in Hok. apply andb_true_iff in Hok. destruct Hok as [Hok _]. apply andb_true_iff in Hok.
    destruct (bstr_eqb n [98; 117; 102]); [|discriminate H]. injection H as H. subst x. exact (proj2 Hok).
  - cbn [vec_ok] in Hok. apply andb_true_iff in Hok. destruct Hok as [Hk _].
    destruct (find _ kvs) as [[k y]|] eqn:E; [|discriminate H]. injection H as H. subst y.
    apply find_some in E. destruct E as [Hin _]. rewrite forallb_forall in Hk. specialize (Hk _ Hin).
    cbn [fst snd] in Hk. apply andb_true_iff in Hk. exact (proj2 Hk).
Qed.

Lemma nth_error_ok : forall (its : list vtree) i x, forallb vec_ok its = true -> nth_error its i = Some x -> vec_ok x = true.
Proof. intros its i x Hok H. apply nth_error_In in H. rewrite forallb_forall in Hok. exact (Hok x H). Qed.

Lemma v_index_ok : forall v l x, vec_ok v = true -> v_index float_eq v l = Some x -> vec_ok x = true.
Proof.
  fix IH 1. intros v l x Hok H.
  destruct v as [| |? [its|]| |? [[fn inner]|]| |? buf ?|? kvs ?|? its ?| | |]; cbn [v_index] in H; try discriminate H.
  - destruct l; try discriminate H. destruct (_ && _)%bool; [|discriminate H]. exact (nth_error_ok its _ x Hok H).
  - cbn [vec_ok] in Hok. exact (IH inner l x Hok H).
  - cbn [vec_ok] in Hok. apply andb_true_iff in Hok. destruct Hok as [Hok _]. apply andb_true_iff in Hok.
    exact (IH buf l x (proj2 Hok) H).
  - cbn [vec_ok] in Hok. apply andb_true_iff in Hok. destruct Hok as [Hk _].
    destruct (find _ kvs) as [[k y]|] eqn:E; [|discriminate H]. injection H as H. subst y.
    apply find_some in E. destruct E as [Hin _]. rewrite forallb_forall in Hk. specialize (Hk _ Hin).
    cbn [fst snd] in Hk. apply andb_true_iff in Hk. exact (proj2 Hk).
  - injection H as H. subst x. reflexivity.
Qed.

Lemma forallb_firstn : forall {A} (f : A -> bool) n l, forallb f l = true -> forallb f (firstn n l) = true.
Proof.
  intros A f n l H. rewrite forallb_forall in *. intros x Hin. apply H. rewrite <- (firstn_skipn n l).
  apply in_or_app. left. exact Hin.
Qed.
Lemma forallb_skipn : forall {A} (f : A -> bool) n l, forallb f l = true -> forallb f (skipn n l) = true.
Proof.
  intros A f n l H. rewrite forallb_forall in *. intros x Hin. apply H. rewrite <- (firstn_skipn n l).
  apply in_or_app. right. exact Hin.
Qed.
Lemma spec_slice_ok : forall its l r, forallb vec_ok its = true -> forallb vec_ok (spec_slice its l r) = true.
Proof.
  intros its l r H. unfold spec_slice. destruct (_ <=? l); [reflexivity|].
  apply forallb_firstn. apply forallb_skipn. exact H.
Qed.

Definition inv (r : res (option vtree)) : Prop :=
  match r with
  | Ok (Some v) => vec_ok v = true
  | Ok None | Err _ => True
  | Panic _ | OutOfFuel => False
  end.

Lemma v_slice_ok : forall v a b, vec_ok v = true -> inv (v_slice mem_items ty_size array_slice v a b).
Proof.
  intros v a b Hok. destruct v as [| |? [its|]| | |? [p|] [t|]|? buf ?| | | | |]; try exact I; cbn [v_slice].
  - rewrite array_slice_spec. cbn [spec_slice_opt bind inv vec_ok]. apply spec_slice_ok. exact Hok.
  - exact Hok.
  - destruct b as [r|]; [|exact I]. destruct (ty_size t) as [sz|]; [|exact I].
    destruct (_ || _); [exact I|]. destruct (mem_items _ _ _) as [its|] eqn:E; [|exact I].
    cbn [inv vec_ok]. exact (mem_items_ok _ _ _ _ E).
  - cbn [vec_ok] in Hok. apply andb_true_iff in Hok. destruct Hok as [Hok Ho]. apply andb_true_iff in Hok.
    destruct Hok as [Hb Hbuf]. destruct buf as [| |bm [its|]| | | | | | | | |]; try discriminate Hb.
    + rewrite array_slice_spec. cbn [spec_slice_opt bind inv vec_ok andb]. cbn [vec_ok] in Hbuf.
      rewrite (spec_slice_ok its _ _ Hbuf). exact Ho.
    + cbn [inv vec_ok andb]. exact Ho.
Qed.

Lemma v_deref_ok : forall v x, vec_ok v = true -> v_deref mem v = Some x -> vec_ok x = true.
Proof.
  fix IH 1. intros v x Hok H. destruct v as [| | | |? [[fn inner]|]|? [p|] [t|]| | | | | |]; cbn [v_deref] in H; try discriminate H.
  - cbn [vec_ok] in Hok. exact (IH inner x Hok H).
  - exact (mem_ok _ _ _ H).
Qed.

Lemma v_canonic_ok : forall v, vec_ok v = true -> vec_ok (v_canonic v) = true.
Proof.
  intros v Hok. destruct v; cbn [v_canonic]; try exact Hok; cbn [vec_ok] in *;
    try (apply andb_true_iff in Hok; exact (proj2 Hok)).
Qed.

(* HEADLINE: for every expression, on a root and a memory whose vectors are well-built, evaluation returns a
   value, no result, or an error - never a panic - and the value returned is again well-built *)
Theorem eval_inv : forall e root, vec_ok root = true -> inv (EVAL e root).
Proof.
  intros e root Hroot. unfold eval.
  induction e as [p|ty n|e1 IH fn|e1 IH l|e1 IH a b|e1 IH|e1 IH|e1 IH]; cbn [eval_gen].
  - exact Hroot.
  - destruct (ptr_type ty); [reflexivity|exact I].
  - destruct (eval_gen _ _ _ _ _ _ e1 root) as [[v|]| | |]; try exact IH; try exact I. cbn [bind omap inv] in *.
    destruct (v_field v (fname_text fn)) as [x|] eqn:E; [|exact I]. exact (v_field_ok v _ x IH E).
  - destruct (eval_gen _ _ _ _ _ _ e1 root) as [[v|]| | |]; try exact IH; try exact I. cbn [bind omap inv] in *.
    destruct (v_index float_eq v l) as [x|] eqn:E; [|exact I]. exact (v_index_ok v _ x IH E).
  - destruct (eval_gen _ _ _ _ _ _ e1 root) as [[v|]| | |]; try exact IH; try exact I. cbn [bind inv] in *.
    apply v_slice_ok. exact IH.
  - destruct (eval_gen _ _ _ _ _ _ e1 root) as [[v|]| | |]; try exact IH; try exact I. cbn [bind omap inv] in *.
    destruct (v_deref mem v) as [x|] eqn:E; [|exact I]. exact (v_deref_ok v x IH E).
  - destruct (eval_gen _ _ _ _ _ _ e1 root) as [[v|]| | |]; try exact IH; try exact I. cbn [bind omap inv] in *.
    unfold v_address. destruct (m_addr (vmeta v)); [reflexivity|exact I].
  - destruct (eval_gen _ _ _ _ _ _ e1 root) as [[v|]| | |]; try exact IH; try exact I. cbn [bind omap inv] in *.
    apply v_canonic_ok. exact IH.
Qed.

Theorem eval_no_panic : forall e root, vec_ok root = true -> is_panic (EVAL e root) = false.
Proof.
  intros e root H. pose proof (eval_inv e root H) as Hi. destruct (EVAL e root) as [[v|]| | |]; try reflexivity. destruct Hi.
Qed.

End EvalTotal.

(* without slices there is no hypothesis at all (kept from before the repair) *)
Fixpoint has_slice (e : dqe) : bool :=
  match e with
  | Var _ | PtrCast _ _ => false
  | Slice _ _ _ => true
  | Field e1 _ | Index e1 _ | Deref e1 | Address e1 | Canonic e1 => has_slice e1
  end.

Theorem eval_no_slice_no_panic : forall mem mem_items ty_size ptr_type float_eq e root,
  has_slice e = false -> is_panic (eval mem mem_items ty_size ptr_type float_eq e root) = false.
Proof.
  intros mem mem_items ty_size ptr_type float_eq e root. unfold eval.
  induction e as [p|ty n|e1 IH fn|e1 IH l|e1 IH a b|e1 IH|e1 IH|e1 IH]; intros H; cbn [eval_gen has_slice] in *;
    try discriminate H; try reflexivity;
    try (specialize (IH H); destruct (eval_gen _ _ _ _ _ _ e1 root); try discriminate IH; reflexivity).
  destruct (ptr_type ty); reflexivity.
Qed.

(* a value without any vector is trivially well-built: arrays, structs, maps of scalars ... *)
Example vec_ok_example : vec_ok w_arr = true /\
  vec_ok (VVec no_meta (VArray no_meta (Some [w_s 1; w_s 2])) []) = true /\
  vec_ok (VVec no_meta (w_s 1) []) = false.
Proof. repeat split; reflexivity. Qed.
