(* C07 - Data query expressions mean what the documentation says, and the parser / operator part of
   C08 - No input can crash the debugger.  Statements only; proofs are in ProofsDqe.v. *)
From BS Require Import Model.Base.
From W Require Import ModelDqe ProofsDqe.
Open Scope N_scope.

(** ** Parsing is a function of the text alone *)

(* The canonical text of every well-formed expression parses back to that expression.
   [wf_dqe]: non-empty variable paths; pointer-cast type made of type characters and address < 2^64;
   slice bounds < 2^64; literals: -2^63 < int < 2^63, address < 2^64, float fraction a single digit or
   not starting with 0, enum variant names not starting with `true`/`false`, struct literals non-empty. *)
Theorem C07_parse_print_wf : forall e, wf_dqe e = true -> parse (print e) = Ok e.
Proof. exact parse_print. Qed.

Theorem C07_print_injective : forall e1 e2,
  wf_dqe e1 = true -> wf_dqe e2 = true -> print e1 = print e2 -> e1 = e2.
Proof. exact print_injective. Qed.

(* Without well-formedness the statement is false: m[trueish] and m[1.05] are rejected,
   m[-9223372036854775808] panics, m[{}] is read as the empty array literal. *)
Theorem C07_parse_print_unrestricted_refuted :
  let e1 := Index w_a (LEnum (false, [s_trueish]) None) in
  let e2 := Index w_a (LFloat false 1 [0; 5]) in
  let e3 := Index w_a (LInt (- 9223372036854775808)) in
  let e4 := Index w_a (LAssoc []) in
  parse (print e1) = Err 0 /\ parse (print e2) = Err 0 /\
  parse (print e3) = Panic SITE_EXPR_NEG /\ parse (print e4) = Ok (Index w_a (LArr [])).
Proof. exact parse_print_unrestricted_refuted. Qed.

(* `Display for Literal` (dqe.rs) cannot be parsed back: quoted struct keys, 1.0 printed as 1 *)
Theorem C07_literal_display_reparse_refuted :
  let l1 := LAssoc [((false, [[107]]), Some (LInt 1))] in
  let l2 := LFloat false 1 [0] in
  wf_lit l1 = true /\ parse_literal (display_lit l1) = Err 0 /\
  wf_lit l2 = true /\ parse_literal (display_lit l2) = Ok (LInt 1).
Proof. exact literal_display_reparse_refuted. Qed.

(* 18446744073709551615 typed as a key means -1 *)
Theorem C07_int_literal_value_refuted :
  exists n, n < P64 /\ int_literal false n = Ok (-1)%Z /\ Z.of_N n <> (-1)%Z.
Proof. exact int_literal_value_refuted. Qed.

(** ** Operators *)

(* a[l..r] is elements l .. r-1 (clamped at the end; absent bounds are 0 and len) when l <= len, l <= r *)
Theorem C07_slice : forall items left right,
  let l := match left with Some l => l | None => 0 end in
  let r := match right with Some r => r | None => N.of_nat (length items) end in
  l <= N.of_nat (length items) -> l <= r ->
  array_slice items left right = spec_slice_opt items left right.
Proof. exact array_slice_spec. Qed.

(* ... and outside exactly that domain it panics *)
Theorem C08_slice_panics_iff : forall items left right,
  let l := match left with Some l => l | None => 0 end in
  is_panic (array_slice items left right) = true <->
  (N.of_nat (length items) < l \/ exists r, right = Some r /\ r < l).
Proof. exact array_slice_panics_iff. Qed.

Theorem C08_slice_no_panic_refuted :
  w_eval (Slice w_var (Some 5) (Some 2)) w_arr = Panic SITE_DRAIN /\
  w_eval (Slice w_var (Some 5) None) w_arr = Panic SITE_DRAIN /\
  w_eval (Slice w_var (Some 3) (Some 2)) w_arr = Panic SITE_SLICE_SUB /\
  w_spec_eval (Slice w_var (Some 5) (Some 2)) w_arr = Ok (Some (VArray (mk_meta (Some 100) (Some 7)) (Some []))).
Proof. exact eval_slice_no_panic_refuted. Qed.

(* a[l..r][i] = a[l+i] *)
Theorem C07_index_of_slice : forall mem mem_items ty_size ptr_type float_eq e root m items l r i,
  eval mem mem_items ty_size ptr_type float_eq e root = Ok (Some (VArray m (Some items))) ->
  l <= r -> r <= N.of_nat (length items) -> i < r - l ->
  eval mem mem_items ty_size ptr_type float_eq (Index (Slice e (Some l) (Some r)) (LInt (Z.of_N i))) root =
  eval mem mem_items ty_size ptr_type float_eq (Index e (LInt (Z.of_N (l + i)))) root.
Proof. exact eval_index_of_slice. Qed.

(* a[i] is the i-th element; out of range or a non-integer literal gives no result *)
Theorem C07_array_index : forall float_eq m items i,
  (i < length items)%nat -> v_index float_eq (VArray m (Some items)) (LInt (Z.of_nat i)) = nth_error items i.
Proof. exact array_index_in_range. Qed.
Theorem C07_array_index_sound : forall float_eq m items l v,
  v_index float_eq (VArray m (Some items)) l = Some v ->
  exists z, l = LInt z /\ (0 <= z < Z.of_nat (length items))%Z /\ nth_error items (Z.to_nat z) = Some v.
Proof. exact array_index_sound. Qed.

(* a[key] on a map is the value under the first key matching the literal; no result iff none matches *)
Theorem C07_map_index_some : forall float_eq m kvs o l v,
  v_index float_eq (VMap m kvs o) l = Some v -> exists k, In (k, v) kvs /\ match_lit float_eq k l = true.
Proof. exact map_index_some. Qed.
Theorem C07_map_index_none : forall float_eq m kvs o l,
  v_index float_eq (VMap m kvs o) l = None <-> forall k v, In (k, v) kvs -> match_lit float_eq k l = false.
Proof. exact map_index_none. Qed.

(* *&x = x when memory at x's address, read with x's type, holds x ... *)
Theorem C07_deref_address : forall mem mem_items ty_size ptr_type float_eq e root x a t,
  eval mem mem_items ty_size ptr_type float_eq e root = Ok (Some x) ->
  m_addr (vmeta x) = Some a -> m_ty (vmeta x) = Some t -> mem a t = Some x ->
  eval mem mem_items ty_size ptr_type float_eq (Deref (Address e)) root = Ok (Some x).
Proof. exact deref_address. Qed.
(* ... which a slice does not satisfy: it keeps the address and type of the whole container *)
Theorem C07_deref_address_refuted :
  exists e x a t,
    w_mem 100 7 = Some w_arr /\ vmeta w_arr = mk_meta (Some 100) (Some 7) /\
    w_eval e w_arr = Ok (Some x) /\ m_addr (vmeta x) = Some a /\ m_ty (vmeta x) = Some t /\
    w_eval (Deref (Address e)) w_arr = Ok (Some w_arr) /\ x <> w_arr.
Proof. exact deref_address_refuted. Qed.

(* (~v).f is field f of the vector header *)
Theorem C07_canonic_field : forall mem mem_items ty_size ptr_type float_eq e root m buf orig n,
  eval mem mem_items ty_size ptr_type float_eq e root = Ok (Some (VVec m buf orig)) ->
  eval mem mem_items ty_size ptr_type float_eq (Field (Canonic e) (FName n)) root = Ok (find_member orig n).
Proof. exact canonic_field. Qed.

(* an operator applied to a kind of value it does not apply to yields no result *)
Theorem C07_field_wrong_kind : forall v n, field_kind v = false -> v_field v n = None.
Proof. exact field_wrong_kind. Qed.
Theorem C07_index_wrong_kind : forall float_eq v l, index_kind v = false -> v_index float_eq v l = None.
Proof. exact index_wrong_kind. Qed.
Theorem C07_slice_wrong_kind : forall mem_items ty_size v a b,
  slice_kind v = false -> v_slice mem_items ty_size array_slice v a b = Ok None.
Proof. exact slice_wrong_kind. Qed.
Theorem C07_deref_wrong_kind : forall mem v, deref_kind v = false -> v_deref mem v = None.
Proof. exact deref_wrong_kind. Qed.

(** ** C08: panics reachable from user text *)

(* every numeric argument of a console command: panic-free exactly below its bound *)
Theorem C08_num_arg_ok : forall k n, n < num_arg_bound k -> conv_num_arg k n = Ok n.
Proof. exact conv_num_arg_ok. Qed.
Theorem C08_num_arg_no_panic_refuted : forall k,
  exists n, conv_num_arg k n = Panic (num_arg_site k) /\ n = num_arg_bound k /\
            forall m, m < n -> conv_num_arg k m = Ok m.
Proof. exact conv_num_arg_no_panic_refuted. Qed.

Theorem C08_int_literal_panics_iff : forall neg n,
  is_panic (int_literal neg n) = true <-> (P64 <= n \/ (neg = true /\ n = P63)).
Proof. exact int_literal_panics_iff. Qed.

(* the DQE parser never panics on ANY token list whose integers are < 2^63 and hex numbers < 2^64 *)
Theorem C08_parse_no_panic : forall ts, small ts = true -> is_panic (parse ts) = false.
Proof. exact parse_no_panic. Qed.
Theorem C08_parse_no_panic_refuted :
  parse [w_id 120; TLBrack; TInt P64; TRBrack] = Panic SITE_EXPR_INT /\
  parse [w_id 120; TLBrack; TMinus; TInt P63; TRBrack] = Panic SITE_EXPR_NEG /\
  parse [w_id 120; TLBrack; TDotDot; TInt P64; TRBrack] = Panic SITE_EXPR_USIZE /\
  parse [w_id 120; TLBrack; THex P64; TRBrack] = Panic SITE_HEX /\
  parse [TLParen; w_id 120; TRParen; THex P64] = Panic SITE_HEX.
Proof. exact parse_no_panic_refuted. Qed.

(* evaluation of an expression without a slice operator never panics *)
Theorem C08_eval_no_slice_no_panic : forall mem mem_items ty_size ptr_type float_eq e root,
  has_slice e = false -> is_panic (eval mem mem_items ty_size ptr_type float_eq e root) = false.
Proof. exact eval_no_slice_no_panic. Qed.

(** ** Non-vacuity: a deep well-formed expression using every construct round-trips, and the checkers
    give verdict 0 on an agreeing case and 2 on a panicking one *)
Definition ex_e : dqe :=
  Address (Slice (Index (Field (Deref (Canonic (Var (true, [[97]; [98]])))) (FNum 0))
                        (LEnum (false, [[83]]) (Some (LAssoc [((false, [[107]]), Some (LArr [Some (LInt (-5)); None; Some (LFloat true 1 [5])]));
                                                               ((false, [[116; 114; 117; 101]]), None)]))))
                 (Some 1) None).
Example C07_example :
  wf_dqe ex_e = true /\ parse (print ex_e) = Ok ex_e /\
  wf_dqe (Field (PtrCast [TStar; TId [99]; TId [84]] 4096) (FName [120])) = true /\
  dqe_parse_check (mk_parse_case (print ex_e) (Some ex_e) (PO_ok ex_e)) = 0 /\
  dqe_parse_check (mk_parse_case [w_id 120; TLBrack; TInt P64; TRBrack] None PO_panic) = 2 /\
  dqe_eval_check (mk_eval_case w_arr (Index (Slice w_var (Some 1) (Some 3)) (LInt 0)) [] [] [] [] []
                               (EO_value (Some (w_s 11)))) = 0 /\
  dqe_eval_check (mk_eval_case w_arr (Slice w_var (Some 5) (Some 2)) [] [] [] [] [] EO_panic) = 2.
Proof. repeat split; vm_compute; reflexivity. Qed.
