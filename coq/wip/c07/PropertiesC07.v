(* C07 - Data query expressions mean what the documentation says.  Statements only; proofs are in ProofsDqe.v.
   The model (ModelDqe.v) follows /repo at HEAD (after commits 99f406a, 90a0582, 0b2cb8c, 4188407). *)
From BS Require Import Model.Base.
From W Require Import ModelDqe ProofsDqe.
Open Scope N_scope.

(** ** Parsing is a function of the text alone *)

(* The canonical text of every well-formed expression parses back to that expression.
   [wf_dqe]: non-empty variable paths; pointer-cast type made of type characters and address < 2^64;
   slice bounds < 2^64; literals: -2^63 <= int < 2^63 (all of i64), address < 2^64, float fraction non-empty,
   enum variant not the word `true` / `false`, struct literals non-empty.
   (_old: also excluded i64::MIN, fractions with a leading zero, variants starting with true/false) *)
Theorem C07_parse_print_wf : forall e, wf_dqe e = true -> parse (print e) = Ok e.
Proof. exact parse_print. Qed.

Theorem C07_print_injective : forall e1 e2,
  wf_dqe e1 = true -> wf_dqe e2 = true -> print e1 = print e2 -> e1 = e2.
Proof. exact print_injective. Qed.

Theorem C07_parse_literal_print : forall l, wf_lit l = true -> parse_literal (print_lit l) = Ok l.
Proof. exact parse_literal_print. Qed.

(* the former counter-examples m[trueish], m[1.05], m[-9223372036854775808] are well-formed and round-trip *)
Theorem C07_parse_print_repaired :
  let e1 := Index w_a (LEnum (false, [s_trueish]) None) in
  let e2 := Index w_a (LFloat false 1 [0; 5]) in
  let e3 := Index w_a (LInt (- 9223372036854775808)) in
  wf_dqe e1 = true /\ wf_dqe e2 = true /\ wf_dqe e3 = true /\
  parse (print e1) = Ok e1 /\ parse (print e2) = Ok e2 /\ parse (print e3) = Ok e3.
Proof. exact parse_print_repaired. Qed.

(* what remains outside: an empty struct literal has no text (`{}` is the empty array), and the words
   true / false are booleans, not enum variants *)
Theorem C07_parse_print_unrestricted_refuted :
  let e4 := Index w_a (LAssoc []) in
  let e5 := Index w_a (LEnum (false, [s_true]) None) in
  parse (print e4) = Ok (Index w_a (LArr [])) /\ parse (print e5) = Ok (Index w_a (LBool true)).
Proof. exact parse_print_unrestricted_refuted. Qed.

(* `Display for Literal` (dqe.rs) cannot be parsed back: quoted struct keys, 1.0 printed as 1 *)
Theorem C07_literal_display_reparse_refuted :
  let l1 := LAssoc [((false, [[107]]), Some (LInt 1))] in
  let l2 := LFloat false 1 [0] in
  wf_lit l1 = true /\ parse_literal (display_lit l1) = Err 0 /\
  wf_lit l2 = true /\ parse_literal (display_lit l2) = Ok (LInt 1).
Proof. exact literal_display_reparse_refuted. Qed.

(* integers: below 2^63 the text is the value, `-n` down to -2^63; 18446744073709551615 means -1 (by design) *)
Theorem C07_int_literal_pos : forall n, n < P63 -> int_literal false n = Ok (Z.of_N n).
Proof. exact int_literal_pos. Qed.
Theorem C07_int_literal_neg : forall n, n <= P63 -> int_literal true n = Ok (- Z.of_N n)%Z.
Proof. exact int_literal_neg. Qed.
Theorem C07_int_literal_value_refuted :
  exists n, n < P64 /\ int_literal false n = Ok (-1)%Z /\ Z.of_N n <> (-1)%Z.
Proof. exact int_literal_value_refuted. Qed.

(** ** Operators *)

(* a[l..r] is elements min(l,len) .. min(r,len)-1 for ALL bounds (absent bounds are 0 and len), empty when r <= l
   (_old: only for l <= len and l <= r; outside, a panic) *)
Theorem C07_slice : forall items left right,
  array_slice items left right = spec_slice_opt items left right.
Proof. exact array_slice_spec. Qed.
Theorem C07_slice_elements : forall items l r i,
  nth_error (spec_slice items l r) i =
  if (N.of_nat i <? N.min r (N.of_nat (length items)) - N.min l (N.of_nat (length items)))
  then nth_error items (N.to_nat (N.min l (N.of_nat (length items))) + i) else None.
Proof. exact spec_slice_elements. Qed.
Theorem C07_slice_empty : forall items l r, r <= l -> spec_slice items l r = [].
Proof. exact spec_slice_empty. Qed.

(* the evaluator computes the documented meaning: for every expression, value and environment *)
Theorem C07_eval_is_spec_eval : forall mem mem_items ty_size ptr_type float_eq e root,
  eval mem mem_items ty_size ptr_type float_eq e root = spec_eval mem mem_items ty_size ptr_type float_eq e root.
Proof. exact eval_is_spec_eval. Qed.

(* a[l..r][i] = a[l+i] *)
Theorem C07_index_of_slice : forall mem mem_items ty_size ptr_type float_eq e root m items l r i,
  eval mem mem_items ty_size ptr_type float_eq e root = Ok (Some (VArray m (Some items))) ->
  l <= r -> r <= N.of_nat (length items) -> i < r - l ->
  eval mem mem_items ty_size ptr_type float_eq (Index (Slice e (Some l) (Some r)) (LInt (Z.of_N i))) root =
  eval mem mem_items ty_size ptr_type float_eq (Index e (LInt (Z.of_N (l + i)))) root.
Proof. exact eval_index_of_slice. Qed.

(* a[i] is the i-th element; out of range or a non-integer literal gives no result *)
Theorem C07_array_index : forall float_eq m items i,
  (i < length items)%nat -> v_index float_eq (VArray m (Some items)) (LInt (Z.of_nat i)) = nth_error items i.
Proof. exact array_index_in_range. Qed.
Theorem C07_array_index_sound : forall float_eq m items l v,
  v_index float_eq (VArray m (Some items)) l = Some v ->
  exists z, l = LInt z /\ (0 <= z < Z.of_nat (length items))%Z /\ nth_error items (Z.to_nat z) = Some v.
Proof. exact array_index_sound. Qed.

(* a[key] on a map is the value under the first key matching the literal; no result iff none matches *)
Theorem C07_map_index_some : forall float_eq m kvs o l v,
  v_index float_eq (VMap m kvs o) l = Some v -> exists k, In (k, v) kvs /\ match_lit float_eq k l = true.
Proof. exact map_index_some. Qed.
Theorem C07_map_index_none : forall float_eq m kvs o l,
  v_index float_eq (VMap m kvs o) l = None <-> forall k v, In (k, v) kvs -> match_lit float_eq k l = false.
Proof. exact map_index_none. Qed.

(* *&x = x when memory at x's address, read with x's type, holds x ... *)
Theorem C07_deref_address : forall mem mem_items ty_size ptr_type float_eq e root x a t,
  eval mem mem_items ty_size ptr_type float_eq e root = Ok (Some x) ->
  m_addr (vmeta x) = Some a -> m_ty (vmeta x) = Some t -> mem a t = Some x ->
  eval mem mem_items ty_size ptr_type float_eq (Deref (Address e)) root = Ok (Some x).
Proof. exact deref_address. Qed.
(* ... which a slice does not satisfy: it keeps the address and type of the whole container (still true at HEAD) *)
Theorem C07_deref_address_refuted :
  exists e x a t,
    w_mem 100 7 = Some w_arr /\ vmeta w_arr = mk_meta (Some 100) (Some 7) /\
    w_eval e w_arr = Ok (Some x) /\ m_addr (vmeta x) = Some a /\ m_ty (vmeta x) = Some t /\
    w_eval (Deref (Address e)) w_arr = Ok (Some w_arr) /\ x <> w_arr.
Proof. exact deref_address_refuted. Qed.

(* (~v).f is field f of the vector header *)
Theorem C07_canonic_field : forall mem mem_items ty_size ptr_type float_eq e root m buf orig n,
  eval mem mem_items ty_size ptr_type float_eq e root = Ok (Some (VVec m buf orig)) ->
  eval mem mem_items ty_size ptr_type float_eq (Field (Canonic e) (FName n)) root = Ok (find_member orig n).
Proof. exact canonic_field. Qed.

(* an operator applied to a kind of value it does not apply to yields no result *)
Theorem C07_field_wrong_kind : forall v n, field_kind v = false -> v_field v n = None.
Proof. exact field_wrong_kind. Qed.
Theorem C07_index_wrong_kind : forall float_eq v l, index_kind v = false -> v_index float_eq v l = None.
Proof. exact index_wrong_kind. Qed.
Theorem C07_slice_wrong_kind : forall mem_items ty_size v a b,
  slice_kind v = false -> v_slice mem_items ty_size array_slice v a b = Ok None.
Proof. exact slice_wrong_kind. Qed.
Theorem C07_deref_wrong_kind : forall mem v, deref_kind v = false -> v_deref mem v = None.
Proof. exact deref_wrong_kind. Qed.

(** ** Non-vacuity: a deep well-formed expression using every construct (incl. a key named `trueish`, a
    fraction with a leading zero and i64::MIN) round-trips; the checkers give verdict 0 on agreeing cases
    and 2 on a panic *)
Definition ex_e : dqe :=
  Address (Slice (Index (Field (Deref (Canonic (Var (true, [[97]; [98]])))) (FNum 0))
                        (LEnum (false, [s_trueish])
                           (Some (LAssoc [((false, [[107]]), Some (LArr [Some (LInt (- 9223372036854775808)); None;
                                                                         Some (LFloat true 1 [0; 5])]));
                                          ((false, [[116; 114; 117; 101]]), None)]))))
                 (Some 1) None).
Example C07_example :
  wf_dqe ex_e = true /\ parse (print ex_e) = Ok ex_e /\
  wf_dqe (Field (PtrCast [TStar; TId [99]; TId [84]] 4096) (FName [120])) = true /\
  dqe_parse_check (mk_parse_case (print ex_e) (Some ex_e) (PO_ok ex_e)) = 0 /\
  dqe_parse_check (mk_parse_case [w_id 120; TLBrack; TInt P64; TRBrack] None PO_reject) = 0 /\
  dqe_parse_check (mk_parse_case [w_id 120; TLBrack; TInt P64; TRBrack] None PO_panic) = 2 /\
  dqe_eval_check (mk_eval_case w_arr (Index (Slice w_var (Some 1) (Some 3)) (LInt 0)) [] [] [] [] []
                               (EO_value (Some (w_s 11)))) = 0 /\
  dqe_eval_check (mk_eval_case w_arr (Slice w_var (Some 5) (Some 2)) [] [] [] [] []
                               (EO_value (Some (VArray (mk_meta (Some 100) (Some 7)) (Some []))))) = 0 /\
  dqe_eval_check (mk_eval_case w_arr (Slice w_var (Some 5) (Some 2)) [] [] [] [] [] EO_panic) = 2.
Proof. repeat split; vm_compute; reflexivity. Qed.
