(* C08 - No input can crash the debugger: the console / data-query part.  Statements only; proofs are in
   ProofsDqe.v.  The model (ModelDqe.v) follows /repo at HEAD (after commits 99f406a, 90a0582, 0b2cb8c, 4188407). *)
From BS Require Import Model.Base.
From W Require Import ModelDqe ProofsDqe.
Open Scope N_scope.

(** ** Every numeric argument of a console command is converted totally *)
(* [num_arg] enumerates them: hex addresses and values (break / watch / memory / register / pointer casts /
   address literals), break FILE:LINE, break remove N, source N, watch remove N, thread switch N,
   frame switch N, trigger b N, trigger w N, integer keys and slice bounds of expressions.
   (_old: out of range was `Panic (num_arg_site k)` at twelve unwrap sites) *)
Theorem C08_num_arg_in_range : forall k n, n < num_arg_bound k -> conv_num_arg k n = Ok n.
Proof. exact conv_num_arg_ok. Qed.
Theorem C08_num_arg_out_of_range : forall k n, num_arg_bound k <= n -> conv_num_arg k n = Err 0.
Proof. exact conv_num_arg_rejects. Qed.
Theorem C08_num_arg_no_panic : forall k n, is_panic (conv_num_arg k n) = false.
Proof. exact conv_num_arg_no_panic. Qed.

(* the integer-literal alternative: rejected exactly when the digits do not fit u64; `-` never overflows *)
Theorem C08_int_literal_rejects_iff : forall neg n, int_literal neg n = Err 0 <-> P64 <= n.
Proof. exact int_literal_rejects_iff. Qed.
Theorem C08_int_literal_no_panic : forall neg n, is_panic (int_literal neg n) = false.
Proof. exact int_literal_no_panic. Qed.

(** ** The expression parser never panics: on EVERY token list it returns an expression or a rejection *)
(* (_old: only for token lists whose integers were < 2^63 and hex numbers < 2^64) *)
Theorem C08_parse_no_panic : forall ts, is_panic (parse ts) = false.
Proof. exact parse_no_panic. Qed.
Theorem C08_parse_literal_no_panic : forall ts, is_panic (parse_literal ts) = false.
Proof. exact parse_literal_no_panic. Qed.

(* the five smallest inputs that used to panic, one per unwrap: now rejected, and -2^63 is i64::MIN *)
Theorem C08_parse_old_panic_witnesses :
  parse [w_id 120; TLBrack; TInt P64; TRBrack] = Err 0 /\
  parse [w_id 120; TLBrack; TMinus; TInt P63; TRBrack] = Ok (Index (w_v 120) (LInt (- 9223372036854775808))) /\
  parse [w_id 120; TLBrack; TDotDot; TInt P64; TRBrack] = Err 0 /\
  parse [w_id 120; TLBrack; THex P64; TRBrack] = Err 0 /\
  parse [TLParen; w_id 120; TRParen; THex P64] = Err 0.
Proof. exact parse_old_panic_witnesses. Qed.

(** ** Evaluation never panics *)

(* slices: total, for all bounds *)
Theorem C08_slice_no_panic : forall items left right, is_panic (array_slice items left right) = false.
Proof. exact array_slice_no_panic. Qed.
Theorem C08_slice_clamps :
  w_eval (Slice w_var (Some 5) (Some 2)) w_arr = Ok (Some (VArray (mk_meta (Some 100) (Some 7)) (Some []))) /\
  w_eval (Slice w_var (Some 5) None) w_arr = Ok (Some (VArray (mk_meta (Some 100) (Some 7)) (Some []))) /\
  w_eval (Slice w_var (Some 3) (Some 2)) w_arr = Ok (Some (VArray (mk_meta (Some 100) (Some 7)) (Some []))) /\
  w_eval (Slice w_var (Some 2) (Some 9)) w_arr = Ok (Some (VArray (mk_meta (Some 100) (Some 7)) (Some [w_s 12; w_s 13]))).
Proof. exact eval_slice_clamps. Qed.

(* What remains: the only panic site left in the operators is the debug assertion of VecValue::slice
   (specialization/mod.rs: members[0] must be an array) - for ANY value and environment ... *)
Theorem C08_eval_panic_site : forall mem mem_items ty_size ptr_type float_eq e root s,
  eval mem mem_items ty_size ptr_type float_eq e root = Panic s -> s = SITE_VEC_ASSERT.
Proof. exact eval_panic_site. Qed.

(* ... and it is unreachable when every vector inside the variable and inside the memory read has an array as
   its buffer ([vec_ok]; the two vector parsers always build such values): then EVERY expression evaluates to a
   value, no result, or an error *)
Theorem C08_eval_no_panic : forall mem mem_items ty_size ptr_type float_eq,
  (forall a t v, mem a t = Some v -> vec_ok v = true) ->
  (forall a t n its, mem_items a t n = Some its -> forallb vec_ok its = true) ->
  forall e root, vec_ok root = true ->
  is_panic (eval mem mem_items ty_size ptr_type float_eq e root) = false.
Proof. exact eval_no_panic. Qed.

(* without a slice operator no hypothesis is needed *)
Theorem C08_eval_no_slice_no_panic : forall mem mem_items ty_size ptr_type float_eq e root,
  has_slice e = false -> is_panic (eval mem mem_items ty_size ptr_type float_eq e root) = false.
Proof. exact eval_no_slice_no_panic. Qed.

(** ** Non-vacuity *)
Example C08_example :
  conv_num_arg NA_break_line 99999999999999999999 = Err 0 /\
  conv_num_arg NA_break_line 42 = Ok 42 /\
  conv_num_arg NA_thread_switch 4294967296 = Err 0 /\
  num_check (mk_num_case NA_break_line 99999999999999999999 false) = 0 /\
  num_check (mk_num_case NA_break_line 99999999999999999999 true) = 2 /\
  vec_ok w_arr = true /\
  vec_ok (VVec no_meta (VArray no_meta (Some [w_s 1; w_s 2])) []) = true /\
  w_eval (Slice (Slice w_var (Some 9) None) None (Some 18446744073709551615)) w_arr
    = Ok (Some (VArray (mk_meta (Some 100) (Some 7)) (Some []))).
Proof. repeat split; vm_compute; reflexivity. Qed.
