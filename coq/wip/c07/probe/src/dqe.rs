use itertools::Itertools;
use std::collections::HashMap;
use std::fmt::{Debug, Display, Formatter};

/// Literal object.
/// Using it for a searching element by key in key-value containers.
#[derive(PartialEq, Clone)]
pub enum Literal {
    String(String),
    Int(i64),
    Float(f64),
    Address(usize),
    Bool(bool),
    EnumVariant(String, Option<Box<Literal>>),
    Array(Box<[LiteralOrWildcard]>),
    AssocArray(HashMap<String, LiteralOrWildcard>),
}

impl Display for Literal {
    fn fmt(&self, f: &mut Formatter<'_>) -> std::fmt::Result {
        match self {
            Literal::String(str) => f.write_fmt(format_args!("\"{str}\"")),
            Literal::Int(i) => f.write_str(&i.to_string()),
            Literal::Float(float) => f.write_str(&float.to_string()),
            Literal::Address(addr) => f.write_fmt(format_args!("{addr:#016X}")),
            Literal::Bool(b) => f.write_fmt(format_args!("{b}")),
            Literal::EnumVariant(variant, data) => {
                if let Some(data) = data {
                    f.write_fmt(format_args!("{variant}({data})"))
                } else {
                    f.write_fmt(format_args!("{variant}"))
                }
            }
            Literal::Array(array) => {
                let body = array
                    .iter()
                    .map(|item| match item {
                        LiteralOrWildcard::Literal(lit) => lit.to_string(),
                        LiteralOrWildcard::Wildcard => "*".to_string(),
                    })
                    .join(", ");
                f.write_fmt(format_args!("{{ {body} }}"))
            }
            Literal::AssocArray(assoc_array) => {
                let body = assoc_array
                    .iter()
                    .map(|(key, value)| {
                        let value_string = match value {
                            LiteralOrWildcard::Literal(lit) => lit.to_string(),
                            LiteralOrWildcard::Wildcard => "*".to_string(),
                        };
                        format!("\"{key}\": {value_string}")
                    })
                    .join(", ");

                f.write_fmt(format_args!("{{ {body} }}"))
            }
        }
    }
}

impl Debug for Literal {
    fn fmt(&self, f: &mut Formatter<'_>) -> std::fmt::Result {
        f.write_str(&self.to_string())
    }
}

#[derive(Debug, PartialEq, Clone)]
pub enum LiteralOrWildcard {
    Literal(Literal),
    Wildcard,
}

macro_rules! impl_equal {
    ($lhs: expr, $rhs: expr, $lit: path) => {
        if let $lit(lhs) = $lhs {
            lhs == &$rhs
        } else {
            false
        }
    };
}

impl Literal {
    pub fn equal_with_string(&self, rhs: &str) -> bool {
        impl_equal!(self, rhs, Literal::String)
    }

    pub fn equal_with_address(&self, rhs: usize) -> bool {
        impl_equal!(self, rhs, Literal::Address)
    }

    pub fn equal_with_bool(&self, rhs: bool) -> bool {
        impl_equal!(self, rhs, Literal::Bool)
    }

    pub fn equal_with_int(&self, rhs: i64) -> bool {
        impl_equal!(self, rhs, Literal::Int)
    }

    pub fn equal_with_float(&self, rhs: f64) -> bool {
        const EPS: f64 = 0.0000001f64;
        if let Literal::Float(float) = self {
            let diff = (*float - rhs).abs();
            diff < EPS
        } else {
            false
        }
    }
}

#[derive(Debug, PartialEq, Clone)]
pub enum Selector {
    Name { var_name: String, local_only: bool },
    Any,
}

impl Selector {
    pub fn by_name(name: impl ToString, local_only: bool) -> Self {
        Self::Name {
            var_name: name.to_string(),
            local_only,
        }
    }
}

#[derive(Debug, PartialEq, Clone)]
pub struct PointerCast {
    pub ptr: usize,
    pub ty: String,
}

impl PointerCast {
    pub fn new(ptr: usize, ty: impl ToString) -> Self {
        Self {
            ptr,
            ty: ty.to_string(),
        }
    }
}



/// Data query expression.
/// List of operations for select variables and their properties.
///
/// Expression can be parsed from an input string like `*(*variable1.field2)[1]`
/// (see [`crate::ui::command`] module)
///
/// Supported operations are: dereference, get an element by index, get field by name, make slice from a pointer.
#[derive(Debug, PartialEq, Clone)]
pub enum Dqe {
    /// Select variables or arguments from debugee state.
    Variable(Selector),
    /// Cast raw memory address to a typed pointer.
    PtrCast(PointerCast),
    /// Get structure field (or similar, for example, values from hashmap with string keys).
    Field(Box<Dqe>, String),
    /// Get an element from array (or vector, vecdeq, etc.) by its index.
    Index(Box<Dqe>, Literal),
    /// Get array (or vector, vecdeq, etc.) slice.
    Slice(Box<Dqe>, Option<usize>, Option<usize>),
    /// Dereference pointer value.
    Deref(Box<Dqe>),
    /// Get address of value.
    Address(Box<Dqe>),
    /// Get canonic value (actual for specialized value, typically return underlying structure).
    Canonic(Box<Dqe>),
}

impl Dqe {
    /// Return boxed expression.
    pub fn boxed(self) -> Box<Self> {
        Box::new(self)
    }
}

