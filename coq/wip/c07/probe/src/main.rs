mod dqe;
mod expression;
use chumsky::prelude::*;
use chumsky::text;
type Err<'a> = extra::Err<Rich<'a, char>>;
include!("helpers.rs");

fn main() {
    let args: Vec<String> = std::env::args().skip(1).collect();
    for a in args {
        let r = std::panic::catch_unwind(|| {
            let p = expression::parser();
            match p.parse(a.as_str()).into_result() {
                Ok(d) => format!("OK {:?}", d),
                Err(e) => format!("REJECT {}", e[0]),
            }
        });
        match r {
            Ok(s) => println!("{:?} => {}", a, s),
            Err(_) => println!("{:?} => PANIC", a),
        }
    }
}
