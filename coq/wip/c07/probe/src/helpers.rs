pub fn hex<'a>() -> impl chumsky::Parser<'a, &'a str, usize, Err<'a>> + Clone {
    let prefix = just("0x").or(just("0X"));
    prefix
        .ignore_then(
            text::digits(16)
                .at_least(1)
                .to_slice()
                .map(|s: &str| usize::from_str_radix(s, 16).unwrap()),
        )
        .padded()
        .labelled("hexidecimal number")
}

pub fn rust_identifier<'a>() -> impl chumsky::Parser<'a, &'a str, &'a str, Err<'a>> + Clone {
    text::ascii::ident()
        .separated_by(just("::"))
        .allow_leading()
        .at_least(1)
        .to_slice()
        .padded()
        .labelled("rust identifier")
}
