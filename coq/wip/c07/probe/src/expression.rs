//! data query expressions parser.
use crate::dqe::{Dqe, Literal, LiteralOrWildcard, PointerCast, Selector};
use crate::{hex, rust_identifier};
use chumsky::Parser;
use chumsky::prelude::*;
use std::collections::HashMap;

type Err<'a> = extra::Err<Rich<'a, char>>;

fn ptr_cast<'a>() -> impl Parser<'a, &'a str, Dqe, Err<'a>> + Clone {
    let op = |c| just(c).padded();

    // try to interp any string between brackets as a type
    let any = any::<_, Err>()
        .filter(|c| {
            // this is a filter rule for a type identifier
            // may be it is good enough,
            // if it's not - something like `syn::parse_str` may be used
            char::is_ascii_alphanumeric(c)
                || *c == ':'
                || *c == '<'
                || *c == '>'
                || *c == ' '
                || *c == '*'
                || *c == '&'
                || *c == '_'
                || *c == ','
                || *c == '{'
                || *c == '}'
                || *c == '#'
                || *c == '\''
        })
        .repeated()
        .at_least(1)
        .to_slice();
    let type_p = any.delimited_by(op('('), op(')'));
    type_p
        .then(hex().labelled("hex address"))
        .map(|(r#type, ptr)| Dqe::PtrCast(PointerCast::new(ptr, r#type.trim())))
        .labelled("pointer cast")
}

pub fn literal<'a>() -> impl Parser<'a, &'a str, Literal, Err<'a>> + Clone {
    let op = |c| just(c).padded();

    recursive(|literal| {
        let int = just("-")
            .or_not()
            .then(text::int(10).from_str::<u64>().unwrapped())
            .map(|(sign, val)| {
                Literal::Int(if sign.is_some() {
                    -(val as i64)
                } else {
                    val as i64
                })
            });

        let float = just("-")
            .or_not()
            .then(text::int(10).then_ignore(just(".")).then(text::int(10)))
            .map(|(sign, (i, f))| {
                let sign = sign.unwrap_or_default();
                Literal::Float(format!("{sign}{i}.{f}").parse::<f64>().expect("infallible"))
            });

        fn make_string<'a, 's: 'a>(
            q: &'a str,
        ) -> impl Parser<'a, &'a str, Literal, Err<'a>> + Clone {
            one_of::<_, _, Err<'a>>(q)
                .ignore_then(none_of(q).repeated().collect::<String>())
                .then_ignore(one_of(q))
                .map(Literal::String)
        }
        let string1 = make_string("\"");
        let string2 = make_string("'");

        let bool = op("true")
            .to(Literal::Bool(true))
            .or(op("false").to(Literal::Bool(false)));

        let enum_variant = rust_identifier()
            .then(literal.clone().delimited_by(op("("), op(")")).or_not())
            .map(|(ident, lit)| Literal::EnumVariant(ident.to_string(), lit.map(Box::new)));

        let wildcard = op("*");
        let literal_or_wildcard = literal
            .clone()
            .map(LiteralOrWildcard::Literal)
            .or(wildcard.to(LiteralOrWildcard::Wildcard));

        let array = op("{")
            .ignore_then(
                literal_or_wildcard
                    .clone()
                    .separated_by(op(","))
                    .collect::<Vec<_>>()
                    .map(|literals: Vec<LiteralOrWildcard>| {
                        Literal::Array(literals.into_boxed_slice())
                    }),
            )
            .then_ignore(op("}"));

        let kv = rust_identifier()
            .then_ignore(op(":"))
            .then(literal_or_wildcard)
            .map(|(k, v)| (k.to_string(), v));
        let assoc_array = op("{")
            .ignore_then(
                kv.separated_by(op(","))
                    .collect::<HashMap<_, _>>()
                    .map(Literal::AssocArray),
            )
            .then_ignore(op("}"));

        float
            .or(bool)
            .or(hex().map(Literal::Address))
            .or(int)
            .or(enum_variant)
            .or(string1)
            .or(string2)
            .or(array)
            .or(assoc_array)
    })
}

pub fn parser<'a>() -> impl Parser<'a, &'a str, Dqe, Err<'a>> {
    let base_selector = rust_identifier()
        .padded()
        .map(|name: &str| Dqe::Variable(Selector::by_name(name, false)))
        .or(ptr_cast());

    let expr = recursive(|expr| {
        let op = |c| just(c).padded();

        let atom = base_selector
            .or(expr.delimited_by(op('('), op(')')))
            .padded();

        let field = text::ascii::ident().or(text::int(10)).labelled("field");

        let field_op = op('.')
            .ignore_then(field)
            .map(|field: &str| -> Box<dyn FnOnce(Dqe) -> Dqe> {
                Box::new(move |r| Dqe::Field(Box::new(r), field.to_string()))
            })
            .boxed();

        let index_op = literal()
            .padded()
            .labelled("index value")
            .delimited_by(op('['), op(']'))
            .map(|idx| -> Box<dyn FnOnce(Dqe) -> Dqe> {
                Box::new(move |r: Dqe| Dqe::Index(Box::new(r), idx))
            })
            .boxed();

        let mb_usize = text::int(10)
            .or_not()
            .padded()
            .map(|v: Option<&str>| v.map(|v| v.parse::<usize>().unwrap()));

        let slice_op = mb_usize
            .then_ignore(just("..").padded())
            .then(mb_usize)
            .labelled("slice range (start..end)")
            .delimited_by(op('['), op(']'))
            .map(|(from, to)| -> Box<dyn FnOnce(Dqe) -> Dqe> {
                Box::new(move |r: Dqe| Dqe::Slice(Box::new(r), from, to))
            })
            .boxed();

        let expr = atom.foldl(
            field_op.or(index_op).or(slice_op).repeated(),
            |r, expr_fn| expr_fn(r),
        );

        op('*')
            .to(Dqe::Deref as fn(_) -> _)
            .or(op('&').to(Dqe::Address as fn(_) -> _))
            .or(op('~').to(Dqe::Canonic as fn(_) -> _))
            .repeated()
            .foldr(expr, |op, rhs| op(Box::new(rhs)))
    });

    expr.then_ignore(end())
}

