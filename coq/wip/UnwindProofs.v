From BS Require Import Model.Base Gen.Unwind Model.Unwind.
From Coq Require Import Lia.
Open Scope N_scope.

(* the only numeric fact used about the generated cap *)
Lemma max_unwind_depth_pos : (0 < MAX_UNWIND_DEPTH)%nat.
Proof. unfold MAX_UNWIND_DEPTH; lia. Qed.

(* ---- guard look-ups ---- *)
Lemma key_seen_ipcfa_false visited r c :
  ~ In (r, c) visited -> key_seen GuardIpCfa visited r c = false.
Proof.
  intros Hnin. cbn [key_seen].
  destruct (existsb (fun k => (fst k =? r) && (snd k =? c)) visited) eqn:E; [|reflexivity].
  apply existsb_exists in E. destruct E as [[a b] [Hin Heq]]. cbn [fst snd] in Heq.
  apply andb_true_iff in Heq. destruct Heq as [H1 H2].
  apply N.eqb_eq in H1. apply N.eqb_eq in H2. subst a b. contradiction.
Qed.

Lemma key_seen_ip_false visited r c :
  ~ In r (map fst visited) -> key_seen GuardIp visited r c = false.
Proof.
  intros Hnin. cbn [key_seen].
  destruct (existsb (fun k => fst k =? r) visited) eqn:E; [|reflexivity].
  apply existsb_exists in E. destruct E as [x [Hin Heq]].
  apply N.eqb_eq in Heq. exfalso. apply Hnin. rewrite <- Heq. apply in_map. exact Hin.
Qed.

(* every key of [l] is unseen at the moment the loop reaches it *)
Fixpoint fresh (mode : guard_mode) (visited : list (N * N)) (l : list (N * N)) : Prop :=
  match l with
  | [] => True
  | x :: l' => key_seen mode visited (fst x) (snd x) = false /\ fresh mode (x :: visited) l'
  end.

Lemma fresh_ipcfa : forall l visited,
  NoDup l -> (forall x, In x l -> ~ In x visited) -> fresh GuardIpCfa visited l.
Proof.
  induction l as [|[r c] l IH]; intros visited Hnd Hdisj; cbn [fresh]; [exact I|].
  inversion Hnd as [|? ? Hnin Hnd']; subst.
  split.
  - cbn [fst snd]. apply key_seen_ipcfa_false. apply Hdisj. left; reflexivity.
  - apply IH; [exact Hnd'|].
    intros x Hx [Heq|Hin].
    + subst x. contradiction.
    + apply (Hdisj x); [right; exact Hx|exact Hin].
Qed.

Lemma fresh_ip : forall l visited,
  NoDup (map fst l) -> (forall x, In x (map fst l) -> ~ In x (map fst visited)) ->
  fresh GuardIp visited l.
Proof.
  induction l as [|[r c] l IH]; intros visited Hnd Hdisj; cbn [fresh]; [exact I|].
  cbn [map fst] in Hnd, Hdisj.
  inversion Hnd as [|? ? Hnin Hnd']; subst.
  split.
  - cbn [fst snd]. apply key_seen_ip_false. apply Hdisj. left; reflexivity.
  - apply IH; [exact Hnd'|].
    intros x Hx Hin. cbn [map fst] in Hin. destruct Hin as [Heq|Hin].
    + subst x. contradiction.
    + apply (Hdisj x); [right; exact Hx|exact Hin].
Qed.

Section P.
Context {R : Type}.
Variable step : R -> N -> option (N * R).
Variable ra : R -> option N.
Variable set_sp : R -> N -> R.

(* the loop invariant, for an arbitrary fuel and current backtrace *)
Lemma unwind_loop_inv mode : forall fuel n ucx bt visited,
  n = (MAX_UNWIND_DEPTH - length bt)%nat -> (n <= fuel)%nat ->
  fresh mode visited (Model.Unwind.chain step ra set_sp n ucx) ->
  unwind_loop step ra set_sp mode fuel ucx bt visited
  = bt ++ map fst (Model.Unwind.listed step ra set_sp n ucx).
Proof.
  induction fuel as [|f IH]; intros n ucx bt visited Hn Hle Hfresh.
  - destruct n as [|n']; [|lia].
    cbn [unwind_loop Model.Unwind.listed map]. rewrite app_nil_r. reflexivity.
  - cbn [unwind_loop].
    destruct n as [|n'].
    + cbn [Model.Unwind.listed map]. rewrite app_nil_r.
      destruct (ra (snd ucx)) as [r|]; [|reflexivity].
      assert (Hl : Nat.leb MAX_UNWIND_DEPTH (length bt) = true) by (apply Nat.leb_le; lia).
      rewrite Hl. reflexivity.
    + cbn [Model.Unwind.listed Model.Unwind.chain] in *.
      destruct (ra (snd ucx)) as [r|];
        [|cbn [map]; rewrite app_nil_r; reflexivity].
      assert (Hl : Nat.leb MAX_UNWIND_DEPTH (length bt) = false) by (apply Nat.leb_gt; lia).
      rewrite Hl.
      cbn [fresh fst snd] in Hfresh. destruct Hfresh as [Hk Hf']. rewrite Hk.
      destruct (step (set_sp (snd ucx) (fst ucx)) r) as [ucx'|].
      * cbn [map fst].
        rewrite (IH n' ucx' (bt ++ [r]) ((r, fst ucx) :: visited)).
        -- rewrite <- app_assoc. reflexivity.
        -- rewrite app_length. cbn [length]. lia.
        -- lia.
        -- exact Hf'.
      * cbn [map]. rewrite app_nil_r. reflexivity.
Qed.

Lemma regs_at_frame_loop_listed : forall k n ucx,
  (k <= length (Model.Unwind.listed step ra set_sp n ucx))%nat ->
  regs_at_frame_loop step ra set_sp k ucx <> None.
Proof.
  induction k as [|k IH]; intros n ucx Hk.
  - cbn [regs_at_frame_loop]. discriminate.
  - destruct n as [|n']; cbn [Model.Unwind.listed length] in Hk; [lia|].
    cbn [regs_at_frame_loop].
    destruct (ra (snd ucx)) as [r|]; [|cbn [length] in Hk; lia].
    destruct (step (set_sp (snd ucx) (fst ucx)) r) as [ucx'|]; [|cbn [length] in Hk; lia].
    cbn [length] in Hk. apply (IH n' ucx'). lia.
Qed.

Notation chain := (chain step ra set_sp).
Notation listed := (listed step ra set_sp).
Notation unwind_with := (unwind_with step ra set_sp).
Notation regs_at_frame := (regs_at_frame step ra set_sp).

(* T1: with the (return address, CFA) guard the backtrace is the whole real chain (up to the
   depth cap), whenever no (return address, CFA) pair repeats - in particular under any
   depth of recursion, because CFAs strictly increase towards the callers *)
Theorem unwind_ipcfa_complete pc0 regs0 ucx :
  step regs0 pc0 = Some ucx ->
  NoDup (chain (MAX_UNWIND_DEPTH - 1) ucx) ->
  unwind_with GuardIpCfa pc0 regs0 = pc0 :: map fst (listed (MAX_UNWIND_DEPTH - 1) ucx).
Proof.
  intros Hs Hnd. unfold Model.Unwind.unwind_with. rewrite Hs.
  rewrite (unwind_loop_inv GuardIpCfa MAX_UNWIND_DEPTH (MAX_UNWIND_DEPTH - 1)%nat ucx [pc0] []).
  - reflexivity.
  - reflexivity.
  - lia.
  - apply fresh_ipcfa; [exact Hnd|]. intros x _ [].
Qed.

(* T2: with the return-address-only guard the same holds only when no return address repeats *)
Theorem unwind_ip_partial pc0 regs0 ucx :
  step regs0 pc0 = Some ucx ->
  NoDup (pc0 :: map fst (chain (MAX_UNWIND_DEPTH - 1) ucx)) ->
  unwind_with GuardIp pc0 regs0 = pc0 :: map fst (listed (MAX_UNWIND_DEPTH - 1) ucx).
Proof.
  intros Hs Hnd. unfold Model.Unwind.unwind_with. rewrite Hs.
  inversion Hnd as [|? ? Hnin Hnd']; subst.
  rewrite (unwind_loop_inv GuardIp MAX_UNWIND_DEPTH (MAX_UNWIND_DEPTH - 1)%nat ucx [pc0] [(pc0, 0)]).
  - reflexivity.
  - reflexivity.
  - lia.
  - apply fresh_ip; [exact Hnd'|].
    intros x Hx Hin. cbn [map fst In] in Hin. destruct Hin as [Heq|[]].
    subst x. contradiction.
Qed.

(* T4: no frame information at all: only frame 0 *)
Theorem unwind_no_info pc0 regs0 mode : step regs0 pc0 = None -> unwind_with mode pc0 regs0 = [pc0].
Proof.
  intros Hs. unfold Model.Unwind.unwind_with. rewrite Hs. reflexivity.
Qed.

(* T5: selecting frame k (restore_registers_at_frame) succeeds for every listed frame *)
Theorem regs_at_frame_listed pc0 regs0 ucx k :
  step regs0 pc0 = Some ucx -> (k <= length (listed (MAX_UNWIND_DEPTH - 1) ucx))%nat ->
  regs_at_frame pc0 regs0 k <> None.
Proof.
  intros Hs Hk. destruct k as [|k'].
  - cbn [Model.Unwind.regs_at_frame]. discriminate.
  - cbn [Model.Unwind.regs_at_frame]. rewrite Hs.
    apply (regs_at_frame_loop_listed (S k') (MAX_UNWIND_DEPTH - 1)%nat ucx). exact Hk.
Qed.
End P.

(* strictly increasing CFAs (the x86-64 stack grows down, callers have higher CFAs) make all
   (ip, cfa) pairs distinct *)
Lemma increasing_cfa_nodup (l : list (N * N)) :
  (forall i j a b, (i < j)%nat -> nth_error l i = Some a -> nth_error l j = Some b -> snd a < snd b) ->
  NoDup l.
Proof.
  induction l as [|x l IH]; intros H; constructor.
  - intros Hin. apply In_nth_error in Hin. destruct Hin as [n Hn].
    assert (Hlt : snd x < snd x).
    { apply (H 0%nat (S n) x x); [lia|reflexivity|exact Hn]. }
    lia.
  - apply IH. intros i j a b Hij Ha Hb.
    apply (H (S i) (S j) a b); [lia|exact Ha|exact Hb].
Qed.

(* T3: REFUTED for the return-address-only guard: a self-recursive function with three live
   activations - the real stack has 5 frames, the backtrace stops after 2 *)
Definition rec_stack : tbl := [(10, 100); (20, 108); (20, 116); (20, 124); (30, 132)].
Theorem unwind_ip_guard_refuted :
  unwind_tbl GuardIp rec_stack = [10; 20] /\ unwind_tbl GuardIpCfa rec_stack = map fst rec_stack.
Proof. vm_compute; split; reflexivity. Qed.

(* ---- the table instance ---- *)
(* chain/listed of the table instance, as a plain walk over the remaining frames: each frame's
   ip is paired with the CFA of its callee *)
Fixpoint tchain (n : nat) (c : N) (l : tbl) : list (N * N) :=
  match n with
  | O => []
  | S n' => match l with
            | [] => []
            | (ip, c') :: l' => (ip, c) :: tchain n' c' l'
            end
  end.

Fixpoint incr (c : N) (l : tbl) : Prop :=
  match l with
  | [] => True
  | (_, c') :: l' => c < c' /\ incr c' l'
  end.

Lemma skipn_nth_error {A} : forall (l : list A) k,
  skipn k l = match nth_error l k with Some x => x :: skipn (S k) l | None => [] end.
Proof.
  induction l as [|a l IH]; intros k; destruct k as [|k]; cbn [skipn nth_error]; try reflexivity.
  apply IH.
Qed.

Lemma t_chain_eq (t : tbl) : forall n c k,
  chain (t_step t) (t_ra t) t_set_sp n (c, k) = tchain n c (skipn k t).
Proof.
  induction n as [|n IH]; intros c k; [reflexivity|].
  cbn [chain fst snd]. unfold t_ra, t_set_sp, t_step.
  rewrite (skipn_nth_error t k).
  destruct (nth_error t k) as [[ip c']|]; cbn [option_map fst tchain]; [|reflexivity].
  rewrite N.eqb_refl. rewrite IH. reflexivity.
Qed.

Lemma t_listed_eq (t : tbl) : forall n c k,
  listed (t_step t) (t_ra t) t_set_sp n (c, k) = tchain n c (skipn k t).
Proof.
  induction n as [|n IH]; intros c k; [reflexivity|].
  cbn [listed fst snd]. unfold t_ra, t_set_sp, t_step.
  rewrite (skipn_nth_error t k).
  destruct (nth_error t k) as [[ip c']|]; cbn [option_map fst tchain]; [|reflexivity].
  rewrite N.eqb_refl. rewrite IH. reflexivity.
Qed.

Lemma map_fst_tchain : forall n c l, map fst (tchain n c l) = firstn n (map fst l).
Proof.
  induction n as [|n IH]; intros c l; [reflexivity|].
  destruct l as [|[ip c'] l']; cbn [tchain map firstn fst]; [reflexivity|].
  rewrite IH. reflexivity.
Qed.

Lemma incr_of_increasing : forall (l : tbl) x,
  (forall i j a b, (i < j)%nat -> nth_error (x :: l) i = Some a -> nth_error (x :: l) j = Some b ->
                   snd a < snd b) ->
  incr (snd x) l.
Proof.
  induction l as [|[ip c'] l IH]; intros x H; cbn [incr]; [exact I|].
  split.
  - apply (H 0%nat 1%nat x (ip, c')); [lia|reflexivity|reflexivity].
  - apply (IH (ip, c')). intros i j a b Hij Ha Hb.
    apply (H (S i) (S j) a b); [lia|exact Ha|exact Hb].
Qed.

Lemma tchain_ge : forall n c l x, incr c l -> In x (tchain n c l) -> c <= snd x.
Proof.
  induction n as [|n IH]; intros c l x Hi Hin; cbn [tchain] in Hin; [contradiction|].
  destruct l as [|[ip c'] l']; [contradiction|].
  cbn [incr] in Hi. destruct Hi as [Hlt Hi'].
  destruct Hin as [Heq|Hin].
  - subst x. cbn [snd]. lia.
  - specialize (IH c' l' x Hi' Hin). lia.
Qed.

Lemma tchain_nodup : forall n c l, incr c l -> NoDup (tchain n c l).
Proof.
  induction n as [|n IH]; intros c l Hi; cbn [tchain]; [constructor|].
  destruct l as [|[ip c'] l']; [constructor|].
  cbn [incr] in Hi. destruct Hi as [Hlt Hi'].
  constructor.
  - intros Hin. apply (tchain_ge n c' l' (ip, c) Hi') in Hin. cbn [snd] in Hin. lia.
  - apply IH. exact Hi'.
Qed.

(* for the table instance (the frame-pointer walk of the harness) with strictly increasing
   CFAs, the model returns exactly the frames' ips, up to the depth cap *)
Theorem unwind_tbl_complete (t : tbl) :
  (forall i j a b, (i < j)%nat -> nth_error t i = Some a -> nth_error t j = Some b -> snd a < snd b) ->
  unwind_tbl GuardIpCfa t = firstn MAX_UNWIND_DEPTH (map fst t).
Proof.
  intros H. destruct t as [|[pc0 c0] t'].
  - cbn [unwind_tbl map]. rewrite firstn_nil. reflexivity.
  - cbn [unwind_tbl].
    rewrite (unwind_ipcfa_complete _ _ _ pc0 0%nat (c0, 1%nat)).
    + rewrite t_listed_eq, map_fst_tchain. cbn [skipn map fst].
      pose proof max_unwind_depth_pos as Hpos.
      destruct MAX_UNWIND_DEPTH as [|m]; [lia|].
      cbn [firstn]. replace (S m - 1)%nat with m by lia. reflexivity.
    + unfold t_step. cbn [nth_error]. rewrite N.eqb_refl. reflexivity.
    + rewrite t_chain_eq. cbn [skipn]. apply tchain_nodup.
      apply (incr_of_increasing t' (pc0, c0)). exact H.
Qed.
