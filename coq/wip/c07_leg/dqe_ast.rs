//! Rust mirror of the Coq AST of Model/Dqe.v (tokens, literals, expressions): canonical token list
//! (`print`), rendering of a token list to text, Gallina printing, seeded generators, and the encoding
//! of the debugger's real `Dqe` / `Literal` values into this AST (REPORT_C07_C08.md section 4).
use crate::coqfmt as cf;
use crate::rng::Rng;
use bugstalker::debugger::variable::dqe::{Dqe as RDqe, Literal, LiteralOrWildcard, Selector};

pub const P63: u128 = 1u128 << 63;
pub const P64: u128 = 1u128 << 64;
pub const P32: u128 = 1u128 << 32;

#[derive(Clone, Debug, PartialEq, Eq, Hash)]
pub enum Tok {
    Id(String),
    Int(u128),
    Hex(u128),
    Float(u128, Vec<u8>),
    Str(bool, String),
    Minus,
    Dot,
    DotDot,
    Colon,
    Colon2,
    Comma,
    Star,
    Amp,
    Tilde,
    LParen,
    RParen,
    LBrack,
    RBrack,
    LBrace,
    RBrace,
    Lt,
    Gt,
}

pub type Path = (bool, Vec<String>);

#[derive(Clone, Debug, PartialEq)]
pub enum Lit {
    Str(String),
    Int(i128),
    Float(bool, u128, Vec<u8>),
    Addr(u128),
    Bool(bool),
    Enum(Path, Option<Box<Lit>>),
    Arr(Vec<Option<Lit>>),
    Assoc(Vec<(Path, Option<Lit>)>),
}

#[derive(Clone, Debug, PartialEq)]
pub enum FName {
    Name(String),
    Num(u128),
}

#[derive(Clone, Debug, PartialEq)]
pub enum Dq {
    Var(Path),
    PtrCast(Vec<Tok>, u128),
    Field(Box<Dq>, FName),
    Index(Box<Dq>, Lit),
    Slice(Box<Dq>, Option<u128>, Option<u128>),
    Deref(Box<Dq>),
    Address(Box<Dq>),
    Canonic(Box<Dq>),
}

// ---------------------------------------------------------------- canonical token list (= Coq `print`)

pub fn print_path(p: &Path, out: &mut Vec<Tok>) {
    if p.1.is_empty() {
        return;
    }
    if p.0 {
        out.push(Tok::Colon2);
    }
    for (i, s) in p.1.iter().enumerate() {
        if i > 0 {
            out.push(Tok::Colon2);
        }
        out.push(Tok::Id(s.clone()));
    }
}

fn print_low(x: &Option<Lit>, out: &mut Vec<Tok>) {
    match x {
        Some(l) => print_lit(l, out),
        None => out.push(Tok::Star),
    }
}

pub fn print_lit(l: &Lit, out: &mut Vec<Tok>) {
    match l {
        Lit::Str(s) => out.push(Tok::Str(true, s.clone())),
        Lit::Int(z) => {
            if *z < 0 {
                out.push(Tok::Minus);
                out.push(Tok::Int((-*z) as u128));
            } else {
                out.push(Tok::Int(*z as u128));
            }
        }
        Lit::Float(neg, ip, fd) => {
            if *neg {
                out.push(Tok::Minus);
            }
            out.push(Tok::Float(*ip, fd.clone()));
        }
        Lit::Addr(n) => out.push(Tok::Hex(*n)),
        Lit::Bool(b) => out.push(Tok::Id(if *b { "true".into() } else { "false".into() })),
        Lit::Enum(p, arg) => {
            print_path(p, out);
            if let Some(a) = arg {
                out.push(Tok::LParen);
                print_lit(a, out);
                out.push(Tok::RParen);
            }
        }
        Lit::Arr(items) => {
            out.push(Tok::LBrace);
            for (i, x) in items.iter().enumerate() {
                if i > 0 {
                    out.push(Tok::Comma);
                }
                print_low(x, out);
            }
            out.push(Tok::RBrace);
        }
        Lit::Assoc(kvs) => {
            out.push(Tok::LBrace);
            for (i, (k, x)) in kvs.iter().enumerate() {
                if i > 0 {
                    out.push(Tok::Comma);
                }
                print_path(k, out);
                out.push(Tok::Colon);
                print_low(x, out);
            }
            out.push(Tok::RBrace);
        }
    }
}

fn is_pre(e: &Dq) -> bool {
    matches!(e, Dq::Deref(_) | Dq::Address(_) | Dq::Canonic(_))
}

fn print_post(e1: &Dq, out: &mut Vec<Tok>) {
    if is_pre(e1) {
        out.push(Tok::LParen);
        print_dq(e1, out);
        out.push(Tok::RParen);
    } else {
        print_dq(e1, out);
    }
}

pub fn print_dq(e: &Dq, out: &mut Vec<Tok>) {
    match e {
        Dq::Var(p) => print_path(p, out),
        Dq::PtrCast(ty, n) => {
            out.push(Tok::LParen);
            out.extend(ty.iter().cloned());
            out.push(Tok::RParen);
            out.push(Tok::Hex(*n));
        }
        Dq::Field(e1, f) => {
            print_post(e1, out);
            out.push(Tok::Dot);
            out.push(match f {
                FName::Name(s) => Tok::Id(s.clone()),
                FName::Num(n) => Tok::Int(*n),
            });
        }
        Dq::Index(e1, l) => {
            print_post(e1, out);
            out.push(Tok::LBrack);
            print_lit(l, out);
            out.push(Tok::RBrack);
        }
        Dq::Slice(e1, a, b) => {
            print_post(e1, out);
            out.push(Tok::LBrack);
            if let Some(n) = a {
                out.push(Tok::Int(*n));
            }
            out.push(Tok::DotDot);
            if let Some(n) = b {
                out.push(Tok::Int(*n));
            }
            out.push(Tok::RBrack);
        }
        Dq::Deref(e1) => {
            out.push(Tok::Star);
            print_dq(e1, out);
        }
        Dq::Address(e1) => {
            out.push(Tok::Amp);
            print_dq(e1, out);
        }
        Dq::Canonic(e1) => {
            out.push(Tok::Tilde);
            print_dq(e1, out);
        }
    }
}

pub fn tokens_of(e: &Dq) -> Vec<Tok> {
    let mut v = vec![];
    print_dq(e, &mut v);
    v
}

// ---------------------------------------------------------------- token list -> text

/// canonical text of one token (no randomisation)
pub fn tok_text(t: &Tok) -> String {
    match t {
        Tok::Id(s) => s.clone(),
        Tok::Int(n) => n.to_string(),
        Tok::Hex(n) => format!("0x{:x}", n),
        Tok::Float(ip, fd) => format!("{}.{}", ip, fd.iter().map(|d| (b'0' + d) as char).collect::<String>()),
        Tok::Str(true, s) => format!("\"{}\"", s),
        Tok::Str(false, s) => format!("'{}'", s),
        Tok::Minus => "-".into(),
        Tok::Dot => ".".into(),
        Tok::DotDot => "..".into(),
        Tok::Colon => ":".into(),
        Tok::Colon2 => "::".into(),
        Tok::Comma => ",".into(),
        Tok::Star => "*".into(),
        Tok::Amp => "&".into(),
        Tok::Tilde => "~".into(),
        Tok::LParen => "(".into(),
        Tok::RParen => ")".into(),
        Tok::LBrack => "[".into(),
        Tok::RBrack => "]".into(),
        Tok::LBrace => "{".into(),
        Tok::RBrace => "}".into(),
        Tok::Lt => "<".into(),
        Tok::Gt => ">".into(),
    }
}

fn wordy(t: &Tok) -> bool {
    matches!(t, Tok::Id(_) | Tok::Int(_) | Tok::Hex(_) | Tok::Float(_, _))
}
fn dotty(t: &Tok) -> bool {
    matches!(t, Tok::Dot | Tok::DotDot)
}
fn colony(t: &Tok) -> bool {
    matches!(t, Tok::Colon | Tok::Colon2)
}

/// the gap between two tokens is fixed by the rendering rules (REPORT section 4): nothing after `-`,
/// nothing around a `::` that separates / follows an identifier
fn forced_gap(a: &Tok, b: &Tok) -> Option<&'static str> {
    if *a == Tok::Minus || *a == Tok::Colon2 {
        return Some("");
    }
    if *b == Tok::Colon2 && matches!(a, Tok::Id(_)) {
        return Some("");
    }
    None
}

/// may the two tokens be written without a blank and still be read as the same two tokens?
fn can_join(a: &Tok, b: &Tok) -> bool {
    if wordy(a) && wordy(b) {
        return false;
    }
    if dotty(a) && dotty(b) {
        return false;
    }
    if colony(a) && colony(b) {
        return false;
    }
    // `1` `.` would read as the start of a float
    if matches!(a, Tok::Int(_) | Tok::Float(_, _) | Tok::Hex(_)) && *b == Tok::Dot {
        return false;
    }
    true
}

/// A token list whose text could be read as a different token list (the harness would be comparing
/// two different inputs); such lists are not generated.
pub fn ambiguous(ts: &[Tok]) -> bool {
    for w in ts.windows(2) {
        if w[0] == Tok::Colon2 && colony(&w[1]) {
            return true;
        }
        if w[0] == Tok::Minus && w[1] == Tok::Minus {
            return true;
        }
        // `.1.5` is read as two tuple fields by the real grammar: a float token after a dot has the
        // same text as `int . int`
        if w[0] == Tok::Dot && matches!(w[1], Tok::Float(_, _)) {
            return true;
        }
    }
    false
}

/// index ranges (i, j) such that tokens i+1..j lie between the parentheses of what the real grammar
/// reads as a pointer-cast type: inside, blanks are significant (the type is compared as text)
fn type_spans(ts: &[Tok]) -> Vec<(usize, usize)> {
    let mut v = vec![];
    for i in 0..ts.len() {
        if ts[i] == Tok::LParen {
            let mut j = i + 1;
            while j < ts.len() && is_ty_tok(&ts[j]) {
                j += 1;
            }
            if j > i + 1 && j < ts.len() && ts[j] == Tok::RParen {
                v.push((i, j));
            }
        }
    }
    v
}

/// Canonical rendering: one blank between tokens except the forced gaps.
pub fn render_canonical(ts: &[Tok]) -> String {
    let mut s = String::new();
    for (i, t) in ts.iter().enumerate() {
        if i > 0 {
            s.push_str(forced_gap(&ts[i - 1], t).unwrap_or(" "));
        }
        s.push_str(&tok_text(t));
    }
    s
}

/// Rendering with seeded blanks: gaps may be empty (where the tokens stay apart), one blank, two
/// blanks or a tab; hex numbers get a random prefix case / digit case / leading zeros. Inside a
/// pointer-cast type the canonical single blank is kept. A blank is never put at the very end
/// (finding F6: a trailing blank after a field name is rejected).
pub fn render_fancy(ts: &[Tok], rng: &mut Rng) -> String {
    let spans = type_spans(ts);
    let in_type = |k: usize| spans.iter().any(|(i, j)| k > *i && k < *j);
    let mut s = String::new();
    if rng.chance(1, 8) {
        s.push(' ');
    }
    for (k, t) in ts.iter().enumerate() {
        if k > 0 {
            let a = &ts[k - 1];
            if let Some(g) = forced_gap(a, t) {
                s.push_str(g);
            } else if in_type(k) && in_type(k - 1) {
                s.push(' ');
            } else {
                let r = rng.below(100);
                if r < 45 && can_join(a, t) {
                } else if r < 85 {
                    s.push(' ');
                } else if r < 93 {
                    s.push_str("  ");
                } else {
                    s.push('\t');
                }
            }
        }
        match t {
            Tok::Hex(n) if !in_type(k) => {
                let pre = if rng.chance(1, 4) { "0X" } else { "0x" };
                let zeros = if rng.chance(1, 4) { rng.range(1, 3) as usize } else { 0 };
                let digits = if rng.chance(1, 3) { format!("{:X}", n) } else { format!("{:x}", n) };
                s.push_str(pre);
                s.push_str(&"0".repeat(zeros));
                s.push_str(&digits);
            }
            _ => s.push_str(&tok_text(t)),
        }
    }
    s
}

// ---------------------------------------------------------------- Gallina

pub fn coq_tok(t: &Tok) -> String {
    match t {
        Tok::Id(s) => format!("TId {}", cf::bstr(s)),
        Tok::Int(n) => format!("TInt {}", cf::n(*n)),
        Tok::Hex(n) => format!("THex {}", cf::n(*n)),
        Tok::Float(ip, fd) => format!("TFloat {} {}", cf::n(*ip), cf::list(fd, |d| cf::n(*d as u128))),
        Tok::Str(dq, s) => format!("TStr {} {}", cf::boolean(*dq), cf::bstr(s)),
        Tok::Minus => "TMinus".into(),
        Tok::Dot => "TDot".into(),
        Tok::DotDot => "TDotDot".into(),
        Tok::Colon => "TColon".into(),
        Tok::Colon2 => "TColon2".into(),
        Tok::Comma => "TComma".into(),
        Tok::Star => "TStar".into(),
        Tok::Amp => "TAmp".into(),
        Tok::Tilde => "TTilde".into(),
        Tok::LParen => "TLParen".into(),
        Tok::RParen => "TRParen".into(),
        Tok::LBrack => "TLBrack".into(),
        Tok::RBrack => "TRBrack".into(),
        Tok::LBrace => "TLBrace".into(),
        Tok::RBrace => "TRBrace".into(),
        Tok::Lt => "TLt".into(),
        Tok::Gt => "TGt".into(),
    }
}
pub fn coq_toks(ts: &[Tok]) -> String {
    cf::list(ts, coq_tok)
}
pub fn coq_path(p: &Path) -> String {
    format!("({}, {})", cf::boolean(p.0), cf::list(&p.1, |s| cf::bstr(s)))
}
fn coq_low(x: &Option<Lit>) -> String {
    match x {
        Some(l) => format!("(Some {})", coq_lit(l)),
        None => "None".into(),
    }
}
pub fn coq_lit(l: &Lit) -> String {
    match l {
        Lit::Str(s) => format!("(LStr {})", cf::bstr(s)),
        Lit::Int(z) => format!("(LInt {})", cf::z(*z)),
        Lit::Float(neg, ip, fd) => {
            format!("(LFloat {} {} {})", cf::boolean(*neg), cf::n(*ip), cf::list(fd, |d| cf::n(*d as u128)))
        }
        Lit::Addr(n) => format!("(LAddr {})", cf::n(*n)),
        Lit::Bool(b) => format!("(LBool {})", cf::boolean(*b)),
        Lit::Enum(p, a) => format!(
            "(LEnum {} {})",
            coq_path(p),
            match a {
                Some(a) => format!("(Some {})", coq_lit(a)),
                None => "None".into(),
            }
        ),
        Lit::Arr(items) => format!("(LArr {})", cf::list(items, coq_low)),
        Lit::Assoc(kvs) => format!("(LAssoc {})", cf::list(kvs, |(k, v)| format!("({}, {})", coq_path(k), coq_low(v)))),
    }
}
fn coq_optn(o: &Option<u128>) -> String {
    match o {
        Some(n) => format!("(Some {})", cf::n(*n)),
        None => "None".into(),
    }
}
pub fn coq_dq(e: &Dq) -> String {
    match e {
        Dq::Var(p) => format!("(Var {})", coq_path(p)),
        Dq::PtrCast(ty, n) => format!("(PtrCast {} {})", coq_toks(ty), cf::n(*n)),
        Dq::Field(e1, FName::Name(s)) => format!("(Field {} (FName {}))", coq_dq(e1), cf::bstr(s)),
        Dq::Field(e1, FName::Num(n)) => format!("(Field {} (FNum {}))", coq_dq(e1), cf::n(*n)),
        Dq::Index(e1, l) => format!("(Index {} {})", coq_dq(e1), coq_lit(l)),
        Dq::Slice(e1, a, b) => format!("(Slice {} {} {})", coq_dq(e1), coq_optn(a), coq_optn(b)),
        Dq::Deref(e1) => format!("(Deref {})", coq_dq(e1)),
        Dq::Address(e1) => format!("(Address {})", coq_dq(e1)),
        Dq::Canonic(e1) => format!("(Canonic {})", coq_dq(e1)),
    }
}

// ---------------------------------------------------------------- generators

const IDENTS: &[&str] = &[
    "a", "b", "x", "y", "arr", "vec1", "m", "s", "_", "_x1", "T", "Some", "None", "Ok", "A", "B", "Foo", "field_1",
    "ns", "std", "v", "ptr", "hm", "tru", "fals", "True", "e5", "x0", "f", "len", "buf", "cap", "Z9_",
];
/// identifiers that begin with the keywords `true` / `false` (finding F1 when used as an enum variant)
const BOOLISH: &[&str] = &["trueish", "falsey", "true_v", "false1", "truefalse", "trueTrue"];

pub fn gen_ident(rng: &mut Rng) -> String {
    (*rng.pick(IDENTS)).to_string()
}

pub fn gen_path(rng: &mut Rng) -> Path {
    let n = match rng.below(10) {
        0..=6 => 1,
        7..=8 => 2,
        _ => 3,
    };
    (rng.chance(1, 8), (0..n).map(|_| gen_ident(rng)).collect())
}

const TYPE_SHAPES: &[&[&str]] = &[
    &["*", "const", "T"],
    &["*", "mut", "SomeType"],
    &["&", "u32"],
    &["*", "i32"],
    &["*", "const", "abc", "::", "def", "::", "SomeType"],
    &["Vec", "<", "u8", ">"],
    &["&", "&", "str"],
    &["a"],
    &["*", "const", "Foo", "<", "u8", ",", "i64", ">"],
    &["*", "const", "{", "closure", "}"],
];

fn type_tok(s: &str) -> Tok {
    match s {
        "*" => Tok::Star,
        "&" => Tok::Amp,
        "::" => Tok::Colon2,
        "<" => Tok::Lt,
        ">" => Tok::Gt,
        "," => Tok::Comma,
        "{" => Tok::LBrace,
        "}" => Tok::RBrace,
        ":" => Tok::Colon,
        _ => Tok::Id(s.to_string()),
    }
}

pub fn gen_type(rng: &mut Rng) -> Vec<Tok> {
    let k = rng.below(TYPE_SHAPES.len() as u64) as usize;
    let mut v: Vec<Tok> = TYPE_SHAPES[k].iter().map(|s| type_tok(s)).collect();
    match rng.below(12) {
        0 => v.push(Tok::Int(rng.below(100) as u128)),
        1 => v.push(Tok::Str(false, "static".into())),
        2 => v.push(Tok::Hex(rng.below(4096) as u128)),
        _ => {}
    }
    v
}

pub fn is_ty_char(c: char) -> bool {
    c.is_ascii_alphanumeric() || ":<> *&_,{}#'".contains(c)
}
pub fn is_ty_tok(t: &Tok) -> bool {
    match t {
        Tok::Id(_)
        | Tok::Int(_)
        | Tok::Hex(_)
        | Tok::Star
        | Tok::Amp
        | Tok::Colon
        | Tok::Colon2
        | Tok::Lt
        | Tok::Gt
        | Tok::Comma
        | Tok::LBrace
        | Tok::RBrace => true,
        Tok::Str(false, s) => s.chars().all(is_ty_char),
        _ => false,
    }
}

const STRINGS: &[&str] = &["abc", "key", "", "a b", "k1", "x'y", "é", "str", "0x10", "1.5", "a\"b", "(", "]"];

/// Special (not well-formed in the sense of `wf_dqe`) features a generated expression may carry.
#[derive(Clone, Copy, PartialEq, Eq, Debug)]
pub enum Special {
    BoolPrefixEnum,
    FloatLeadingZero,
    EmptyAssoc,
    IntMin,
}
impl Special {
    pub fn name(&self) -> &'static str {
        match self {
            Special::BoolPrefixEnum => "bool-prefix-enum",
            Special::FloatLeadingZero => "float-fraction-leading-zero",
            Special::EmptyAssoc => "empty-struct-literal",
            Special::IntMin => "int-min",
        }
    }
}

pub struct Gen<'a> {
    pub rng: &'a mut Rng,
    /// at most one special feature per expression (so that a failure has one explanation)
    pub want_special: Option<Special>,
    pub used_special: Option<Special>,
}

impl<'a> Gen<'a> {
    fn take_special(&mut self, s: Special) -> bool {
        if self.want_special == Some(s) && self.used_special.is_none() {
            self.used_special = Some(s);
            true
        } else {
            false
        }
    }

    pub fn int_value(&mut self) -> i128 {
        let r = self.rng.below(100);
        let m: i128 = match r {
            0..=49 => self.rng.below(20) as i128,
            50..=69 => self.rng.below(100000) as i128,
            70..=74 => (P63 - 1) as i128,
            75..=79 => (1i128 << 31) + self.rng.below(3) as i128 - 1,
            80..=84 => (P32 as i128) + self.rng.below(3) as i128 - 1,
            85..=89 => (P63 as i128) - 1 - self.rng.below(1000) as i128,
            _ => (self.rng.next() >> self.rng.below(63)) as i128 & ((P63 - 1) as i128),
        };
        if self.rng.chance(1, 3) { -m } else { m }
    }

    pub fn float(&mut self) -> (bool, u128, Vec<u8>) {
        let ip: u128 = match self.rng.below(10) {
            0..=5 => self.rng.below(100) as u128,
            6..=7 => 0,
            8 => self.rng.next() as u128,
            _ => 123456789012345678901234567890u128,
        };
        let nd = match self.rng.below(10) {
            0..=4 => 1,
            5..=7 => 2,
            8 => 3,
            _ => self.rng.range(4, 18) as usize,
        };
        let mut fd: Vec<u8> = (0..nd).map(|_| self.rng.below(10) as u8).collect();
        if nd > 1 {
            if self.take_special(Special::FloatLeadingZero) {
                fd[0] = 0;
            } else if fd[0] == 0 {
                fd[0] = self.rng.range(1, 9) as u8;
            }
        }
        (self.rng.chance(1, 4), ip, fd)
    }

    fn enum_path(&mut self) -> Path {
        let mut p = gen_path(self.rng);
        if !p.0 && self.take_special(Special::BoolPrefixEnum) {
            p.1[0] = (*self.rng.pick(BOOLISH)).to_string();
        }
        // `true` / `false` themselves are the bool literal, not an enum variant
        p
    }

    pub fn lit(&mut self, d: u32) -> Lit {
        let r = self.rng.below(100);
        let r = if d == 0 && r >= 78 { r % 78 } else { r };
        match r {
            0..=13 => Lit::Str((*self.rng.pick(STRINGS)).replace('"', "")),
            14..=37 => {
                if self.take_special(Special::IntMin) {
                    Lit::Int(-(P63 as i128))
                } else {
                    Lit::Int(self.int_value())
                }
            }
            38..=49 => {
                let (n, i, f) = self.float();
                Lit::Float(n, i, f)
            }
            50..=57 => Lit::Addr(match self.rng.below(6) {
                0 => (P64 - 1) as u128,
                1 => 0,
                2 => 0x7fffffffdc94,
                3 => self.rng.next() as u128,
                _ => self.rng.below(1 << 20) as u128,
            }),
            58..=65 => Lit::Bool(self.rng.chance(1, 2)),
            66..=77 => Lit::Enum(self.enum_path(), None),
            78..=84 => {
                let p = self.enum_path();
                Lit::Enum(p, Some(Box::new(self.lit(d - 1))))
            }
            85..=92 => {
                let n = self.rng.below(4) as usize;
                Lit::Arr(
                    (0..n).map(|_| if self.rng.chance(1, 5) { None } else { Some(self.lit(d - 1)) }).collect(),
                )
            }
            _ => {
                if self.take_special(Special::EmptyAssoc) {
                    return Lit::Assoc(vec![]);
                }
                let n = self.rng.range(1, 3) as usize;
                Lit::Assoc(
                    (0..n)
                        .map(|_| {
                            let k = gen_path(self.rng);
                            (k, if self.rng.chance(1, 5) { None } else { Some(self.lit(d - 1)) })
                        })
                        .collect(),
                )
            }
        }
    }

    pub fn bound(&mut self) -> Option<u128> {
        match self.rng.below(10) {
            0..=2 => None,
            3..=7 => Some(self.rng.below(12) as u128),
            8 => Some((P64 - 1) as u128),
            _ => Some(self.rng.next() as u128),
        }
    }

    pub fn atom(&mut self) -> Dq {
        if self.rng.chance(1, 7) {
            let addr = match self.rng.below(4) {
                0 => P64 - 1,
                1 => 0x7fffffffdc94,
                _ => self.rng.below(1 << 30) as u128,
            };
            Dq::PtrCast(gen_type(self.rng), addr)
        } else {
            Dq::Var(gen_path(self.rng))
        }
    }

    /// an expression with exactly `ops` operators (its depth is ops + 1)
    pub fn expr(&mut self, ops: u32) -> Dq {
        let mut e = self.atom();
        for _ in 0..ops {
            e = match self.rng.below(100) {
                0..=24 => Dq::Field(
                    Box::new(e),
                    if self.rng.chance(1, 4) {
                        FName::Num(if self.rng.chance(1, 10) { 99999999999999999999999u128 } else { self.rng.below(4) as u128 })
                    } else {
                        FName::Name(gen_ident(self.rng))
                    },
                ),
                25..=49 => {
                    let d = self.rng.below(3) as u32;
                    Dq::Index(Box::new(e), self.lit(d))
                }
                50..=64 => {
                    let a = self.bound();
                    let b = self.bound();
                    Dq::Slice(Box::new(e), a, b)
                }
                65..=79 => Dq::Deref(Box::new(e)),
                80..=89 => Dq::Address(Box::new(e)),
                _ => Dq::Canonic(Box::new(e)),
            };
        }
        e
    }
}

pub fn depth(e: &Dq) -> u32 {
    match e {
        Dq::Var(_) | Dq::PtrCast(_, _) => 1,
        Dq::Field(a, _) | Dq::Index(a, _) | Dq::Slice(a, _, _) | Dq::Deref(a) | Dq::Address(a) | Dq::Canonic(a) => {
            1 + depth(a)
        }
    }
}

pub fn top_kind(e: &Dq) -> &'static str {
    match e {
        Dq::Var(_) => "var",
        Dq::PtrCast(_, _) => "ptrcast",
        Dq::Field(_, _) => "field",
        Dq::Index(_, _) => "index",
        Dq::Slice(_, _, _) => "slice",
        Dq::Deref(_) => "deref",
        Dq::Address(_) => "address",
        Dq::Canonic(_) => "canonic",
    }
}

pub fn lit_kinds(e: &Dq, out: &mut Vec<&'static str>) {
    fn lk(l: &Lit, out: &mut Vec<&'static str>) {
        match l {
            Lit::Str(_) => out.push("str"),
            Lit::Int(_) => out.push("int"),
            Lit::Float(_, _, _) => out.push("float"),
            Lit::Addr(_) => out.push("addr"),
            Lit::Bool(_) => out.push("bool"),
            Lit::Enum(_, a) => {
                out.push("enum");
                if let Some(a) = a {
                    lk(a, out)
                }
            }
            Lit::Arr(xs) => {
                out.push("array");
                for x in xs {
                    match x {
                        Some(l) => lk(l, out),
                        None => out.push("wildcard"),
                    }
                }
            }
            Lit::Assoc(kvs) => {
                out.push("struct");
                for (_, x) in kvs {
                    match x {
                        Some(l) => lk(l, out),
                        None => out.push("wildcard"),
                    }
                }
            }
        }
    }
    match e {
        Dq::Var(_) | Dq::PtrCast(_, _) => {}
        Dq::Index(a, l) => {
            lk(l, out);
            lit_kinds(a, out)
        }
        Dq::Field(a, _) | Dq::Slice(a, _, _) | Dq::Deref(a) | Dq::Address(a) | Dq::Canonic(a) => lit_kinds(a, out),
    }
}

pub const BOUNDARY_DEC: &[u128] = &[
    P63 - 1,
    P63,
    P63 + 1,
    P64 - 1,
    P64,
    P64 + 1,
    P32 - 1,
    P32,
    100000000000000000000,
    340282366920938463463374607431768211455,
];
pub const BOUNDARY_HEX: &[u128] = &[
    0xffff_ffff_ffff_ffff,       // 16 digits
    0x1_0000_0000_0000_0000,     // 17 digits
    0xf_ffff_ffff_ffff_ffff,     // 17 digits
    0x7fff_ffff_ffff_ffff,
    0x8000_0000_0000_0000,
    0xffff_ffff_ffff_ffff_ffff_ffff_ffff_ffff,
];

fn random_tok(rng: &mut Rng) -> Tok {
    match rng.below(26) {
        0 => Tok::Id(gen_ident(rng)),
        1 => Tok::Int(rng.below(10) as u128),
        2 => Tok::Hex(rng.below(256) as u128),
        3 => Tok::Float(rng.below(10) as u128, vec![rng.below(10) as u8]),
        4 => Tok::Str(rng.chance(1, 2), "k".into()),
        5 => Tok::Minus,
        6 => Tok::Dot,
        7 => Tok::DotDot,
        8 => Tok::Colon,
        9 => Tok::Colon2,
        10 => Tok::Comma,
        11 => Tok::Star,
        12 => Tok::Amp,
        13 => Tok::Tilde,
        14 => Tok::LParen,
        15 => Tok::RParen,
        16 => Tok::LBrack,
        17 => Tok::RBrack,
        18 => Tok::LBrace,
        19 => Tok::RBrace,
        20 => Tok::Lt,
        21 => Tok::Gt,
        22 => Tok::Id("true".into()),
        23 => Tok::Id((*rng.pick(BOOLISH)).to_string()),
        24 => Tok::Int(*rng.pick(BOUNDARY_DEC)),
        _ => Tok::Hex(*rng.pick(BOUNDARY_HEX)),
    }
}

/// Mutate a token list (deletion, duplication, swap, insertion, boundary numbers, keyword-like
/// identifiers). Returns the names of the mutations applied.
pub fn mutate(ts: &mut Vec<Tok>, rng: &mut Rng) -> Vec<&'static str> {
    let mut names = vec![];
    let n = rng.range(1, 3);
    for _ in 0..n {
        if ts.is_empty() {
            ts.push(random_tok(rng));
            names.push("insert");
            continue;
        }
        let i = rng.below(ts.len() as u64) as usize;
        match rng.below(100) {
            0..=19 => {
                ts.remove(i);
                names.push("delete");
            }
            20..=34 => {
                let t = ts[i].clone();
                ts.insert(i, t);
                names.push("duplicate");
            }
            35..=44 => {
                if i + 1 < ts.len() {
                    ts.swap(i, i + 1);
                }
                names.push("swap");
            }
            45..=59 => {
                let t = random_tok(rng);
                ts.insert(i, t);
                names.push("insert");
            }
            60..=89 => {
                // boundary number in place of a number (or anywhere if there is none)
                let nums: Vec<usize> =
                    (0..ts.len()).filter(|k| matches!(ts[*k], Tok::Int(_) | Tok::Hex(_) | Tok::Float(_, _))).collect();
                if nums.is_empty() {
                    let t = if rng.chance(1, 2) { Tok::Int(*rng.pick(BOUNDARY_DEC)) } else { Tok::Hex(*rng.pick(BOUNDARY_HEX)) };
                    ts[i] = t;
                } else {
                    let k = *rng.pick(&nums);
                    ts[k] = match &ts[k] {
                        Tok::Hex(_) => Tok::Hex(*rng.pick(BOUNDARY_HEX)),
                        Tok::Float(_, fd) if rng.chance(1, 2) => Tok::Float(*rng.pick(BOUNDARY_DEC), fd.clone()),
                        _ => Tok::Int(*rng.pick(BOUNDARY_DEC)),
                    };
                }
                names.push("boundary-number");
            }
            _ => {
                let ids: Vec<usize> = (0..ts.len()).filter(|k| matches!(ts[*k], Tok::Id(_))).collect();
                if let Some(k) = ids.first().map(|_| *rng.pick(&ids)) {
                    ts[k] = Tok::Id(if rng.chance(1, 3) { "true".into() } else { (*rng.pick(BOOLISH)).to_string() });
                }
                names.push("keyword-ident");
            }
        }
    }
    names
}

// ---------------------------------------------------------------- real Dqe -> AST

fn path_of(name: &str) -> Path {
    let lead = name.starts_with("::");
    let body = if lead { &name[2..] } else { name };
    (lead, body.split("::").map(|s| s.to_string()).collect())
}

/// float tokens of the input as (neg, ip, fd, value bits); `neg` = preceded by a minus token
fn float_toks(ts: &[Tok]) -> Vec<(bool, u128, Vec<u8>, u64)> {
    let mut v = vec![];
    for (i, t) in ts.iter().enumerate() {
        if let Tok::Float(ip, fd) = t {
            let neg = i > 0 && ts[i - 1] == Tok::Minus;
            let text = format!("{}{}", if neg { "-" } else { "" }, tok_text(t));
            if let Ok(x) = text.parse::<f64>() {
                v.push((neg, *ip, fd.clone(), x.to_bits()));
            }
        }
    }
    v
}

pub struct Encoder<'a> {
    toks: &'a [Tok],
    floats: Vec<(bool, u128, Vec<u8>, u64)>,
    used: Vec<bool>,
    pub notes: Vec<String>,
}

impl<'a> Encoder<'a> {
    pub fn new(toks: &'a [Tok]) -> Self {
        let floats = float_toks(toks);
        let used = vec![false; floats.len()];
        Encoder { toks, floats, used, notes: vec![] }
    }

    pub fn lit(&mut self, l: &Literal) -> Lit {
        match l {
            Literal::String(s) => Lit::Str(s.clone()),
            Literal::Int(i) => Lit::Int(*i as i128),
            Literal::Address(a) => Lit::Addr(*a as u128),
            Literal::Bool(b) => Lit::Bool(*b),
            Literal::Float(x) => {
                let bits = x.to_bits();
                let k = (0..self.floats.len())
                    .find(|k| !self.used[*k] && self.floats[*k].3 == bits)
                    .or_else(|| (0..self.floats.len()).find(|k| self.floats[*k].3 == bits));
                match k {
                    Some(k) => {
                        self.used[k] = true;
                        let f = &self.floats[k];
                        Lit::Float(f.0, f.1, f.2.clone())
                    }
                    None => {
                        self.notes.push(format!("float {x} is not the value of any float token of the input"));
                        Lit::Float(false, 0, vec![])
                    }
                }
            }
            Literal::EnumVariant(name, data) => Lit::Enum(path_of(name), data.as_ref().map(|d| Box::new(self.lit(d)))),
            Literal::Array(items) => Lit::Arr(
                items
                    .iter()
                    .map(|x| match x {
                        LiteralOrWildcard::Literal(l) => Some(self.lit(l)),
                        LiteralOrWildcard::Wildcard => None,
                    })
                    .collect(),
            ),
            Literal::AssocArray(map) => {
                let mut kvs: Vec<(&String, &LiteralOrWildcard)> = map.iter().collect();
                kvs.sort_by(|a, b| a.0.cmp(b.0));
                Lit::Assoc(
                    kvs.into_iter()
                        .map(|(k, x)| {
                            (
                                path_of(k),
                                match x {
                                    LiteralOrWildcard::Literal(l) => Some(self.lit(l)),
                                    LiteralOrWildcard::Wildcard => None,
                                },
                            )
                        })
                        .collect(),
                )
            }
        }
    }

    pub fn dqe(&mut self, e: &RDqe) -> Dq {
        match e {
            RDqe::Variable(Selector::Name { var_name, .. }) => Dq::Var(path_of(var_name)),
            RDqe::Variable(Selector::Any) => {
                self.notes.push("Selector::Any".into());
                Dq::Var((false, vec![]))
            }
            RDqe::PtrCast(pc) => {
                // the type tokens the harness put between the parentheses, if their text is what came back
                for (i, j) in type_spans(self.toks) {
                    if j + 1 < self.toks.len() && self.toks[j + 1] == Tok::Hex(pc.ptr as u128) {
                        let span = &self.toks[i + 1..j];
                        if render_canonical(span) == pc.ty {
                            return Dq::PtrCast(span.to_vec(), pc.ptr as u128);
                        }
                    }
                }
                self.notes.push(format!("pointer cast type {:?} is not the text of a token span", pc.ty));
                Dq::PtrCast(vec![], pc.ptr as u128)
            }
            RDqe::Field(e1, s) => {
                let f = match s.parse::<u128>() {
                    Ok(n) if s.bytes().all(|b| b.is_ascii_digit()) => FName::Num(n),
                    _ => FName::Name(s.clone()),
                };
                Dq::Field(Box::new(self.dqe(e1)), f)
            }
            RDqe::Index(e1, l) => {
                let e1 = self.dqe(e1);
                Dq::Index(Box::new(e1), self.lit(l))
            }
            RDqe::Slice(e1, a, b) => Dq::Slice(Box::new(self.dqe(e1)), a.map(|v| v as u128), b.map(|v| v as u128)),
            RDqe::Deref(e1) => Dq::Deref(Box::new(self.dqe(e1))),
            RDqe::Address(e1) => Dq::Address(Box::new(self.dqe(e1))),
            RDqe::Canonic(e1) => Dq::Canonic(Box::new(self.dqe(e1))),
            RDqe::DataCast(_) => {
                self.notes.push("DataCast".into());
                Dq::Var((false, vec![]))
            }
        }
    }
}

/// literals of a real expression (for the Display re-parse probe)
pub fn literals_of<'b>(e: &'b RDqe, out: &mut Vec<&'b Literal>) {
    match e {
        RDqe::Index(e1, l) => {
            out.push(l);
            literals_of(e1, out)
        }
        RDqe::Field(e1, _) | RDqe::Slice(e1, _, _) | RDqe::Deref(e1) | RDqe::Address(e1) | RDqe::Canonic(e1) => {
            literals_of(e1, out)
        }
        _ => {}
    }
}
