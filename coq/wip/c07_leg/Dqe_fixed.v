(* Model of BugStalker's data query expressions (DQE):
     src/ui/command/parser/expression.rs   (chumsky 0.10.1 grammar, PEG: ordered choice, greedy repetition)
     src/ui/command/parser/mod.rs          (hex(), rust_identifier(), numeric arguments of console commands)
     src/debugger/variable/dqe.rs          (Dqe / Literal AST, Display for Literal)
     src/debugger/variable/value/mod.rs    (field / index / slice / deref / address / canonic, match_literal)
     src/debugger/variable/execute.rs      (DqeExecutor::apply_dqe)
   No proofs in this file.  Profile modelled: debug (arithmetic overflow panics); the differences of the
   release profile (no overflow-checks in /repo/Cargo.toml) are noted at each site. *)
From BS Require Import Model.Base.
Open Scope N_scope.

(* ------------------------------------------------------------------------------------------------ *)
(** * 1. Numeric conversions of user-controlled text *)

Definition P64 : N := 18446744073709551616.   (* 2^64 *)
Definition P63 : N := 9223372036854775808.    (* 2^63 *)
Definition P32 : N := 4294967296.             (* 2^32 *)

(* panic sites: the number is the source line *)
Definition SITE_EXPR_INT   : N := 49.   (* expression.rs:49  text::int(10).from_str::<u64>().unwrapped() *)
Definition SITE_EXPR_NEG   : N := 52.   (* expression.rs:52  -(val as i64)   (debug profile only) *)
Definition SITE_EXPR_USIZE : N := 161.  (* expression.rs:161 v.parse::<usize>().unwrap() *)
Definition SITE_HEX        : N := 103.  (* parser/mod.rs:103 usize::from_str_radix(s, 16).unwrap() *)
Definition SITE_LINE       : N := 131.  (* parser/mod.rs:131 break FILE:LINE  u64 *)
Definition SITE_BRK_NUM    : N := 139.  (* parser/mod.rs:139 break remove N   u32 *)
Definition SITE_SOURCE     : N := 347.  (* parser/mod.rs:347 source N         u64 *)
Definition SITE_WATCH_NUM  : N := 404.  (* parser/mod.rs:404 watch remove N   u32 *)
Definition SITE_THREAD     : N := 464.  (* parser/mod.rs:464 thread switch N  u32 *)
Definition SITE_FRAME      : N := 474.  (* parser/mod.rs:474 frame switch N   u32 *)
Definition SITE_TRIG_B     : N := 532.  (* parser/mod.rs:532 trigger b N      u32 *)
Definition SITE_TRIG_W     : N := 541.  (* parser/mod.rs:541 trigger w N      u32 *)

(* str::parse::<uN>() of a digit string whose value is [n]; after fix_1 an overflow is reported as a
   parse error (the command line / expression is rejected) instead of `unwrap()` panicking *)
Definition conv_bits (bound : N) (site : N) (n : N) : res N :=
  if n <? bound then Ok n else Err 0.
Definition conv_u64 := conv_bits P64.
Definition conv_u32 := conv_bits P32.

(* `val as i64` *)
Definition as_i64 (n : N) : Z := if n <? P63 then Z.of_N n else (Z.of_N n - Z.of_N P64)%Z.
(* `x.wrapping_neg()` on i64 (fix_1): -i64::MIN = i64::MIN, so `-9223372036854775808` means i64::MIN in every profile *)
Definition neg_i64 (z : Z) : res Z := if (z =? - Z.of_N P63)%Z then Ok z else Ok (- z)%Z.

(* expression.rs:47-56, the `int` alternative *)
Definition int_literal (neg : bool) (n : N) : res Z :=
  v <- conv_u64 SITE_EXPR_INT n ;;
  if neg then neg_i64 (as_i64 v) else Ok (as_i64 v).

(* every numeric argument of a console command (parser/mod.rs); the argument is the value of the digits typed *)
Inductive num_arg :=
| NA_hex            (* break 0xA | break remove 0xA | watch [+rw] 0xA:S | watch remove 0xA:S | memory read 0xA |
                       memory write 0xA 0xV | register write R 0xV | (T)0xA | expr[0xA] *)
| NA_break_line     (* break FILE:N, break remove FILE:N *)
| NA_break_remove   (* break remove N *)
| NA_source         (* source N *)
| NA_watch_remove   (* watch remove N *)
| NA_thread_switch  (* thread switch N *)
| NA_frame_switch   (* frame switch N *)
| NA_trigger_b      (* trigger b N *)
| NA_trigger_w      (* trigger w N *)
| NA_dqe_int        (* var x[N], call f N *)
| NA_dqe_slice.     (* var x[..N]  (a left bound reaches NA_dqe_int first) *)

Definition num_arg_bound (k : num_arg) : N :=
  match k with
  | NA_hex | NA_break_line | NA_source | NA_dqe_int | NA_dqe_slice => P64
  | _ => P32
  end.
Definition num_arg_site (k : num_arg) : N :=
  match k with
  | NA_hex => SITE_HEX | NA_break_line => SITE_LINE | NA_break_remove => SITE_BRK_NUM
  | NA_source => SITE_SOURCE | NA_watch_remove => SITE_WATCH_NUM | NA_thread_switch => SITE_THREAD
  | NA_frame_switch => SITE_FRAME | NA_trigger_b => SITE_TRIG_B | NA_trigger_w => SITE_TRIG_W
  | NA_dqe_int => SITE_EXPR_INT | NA_dqe_slice => SITE_EXPR_USIZE
  end.
Definition conv_num_arg (k : num_arg) (n : N) : res N := conv_bits (num_arg_bound k) (num_arg_site k) n.

(* ------------------------------------------------------------------------------------------------ *)
(** * 2. Tokens and AST *)

Inductive token :=
| TId (s : bstr)                 (* text::ascii::ident  [A-Za-z_][A-Za-z0-9_]* *)
| TInt (n : N)                   (* text::int(10): canonical decimal digits of n (no leading zero) *)
| THex (n : N)                   (* 0x / 0X followed by hex digits of value n *)
| TFloat (ip : N) (fd : list N)  (* digits of ip, '.', the digits fd (each 0..9) *)
| TStr (dq : bool) (s : bstr)    (* "s" (dq = true) or 's'; s does not contain the quote *)
| TMinus | TDot | TDotDot | TColon | TColon2 | TComma | TStar | TAmp | TTilde
| TLParen | TRParen | TLBrack | TRBrack | TLBrace | TRBrace | TLt | TGt.

Definition s_true : bstr := [116; 114; 117; 101].
Definition s_false : bstr := [102; 97; 108; 115; 101].

(* rust_identifier(): (leading "::", segments) *)
Definition path : Type := bool * list bstr.

Inductive lit :=
| LStr (s : bstr)
| LInt (z : Z)
| LFloat (neg : bool) (ip : N) (fd : list N)
| LAddr (n : N)
| LBool (b : bool)
| LEnum (p : path) (arg : option lit)
| LArr (items : list (option lit))             (* None = wildcard *)
| LAssoc (kvs : list (path * option lit)).     (* source order; the HashMap is "last binding wins" *)

Inductive fname := FName (s : bstr) | FNum (n : N).

Inductive dqe :=
| Var (p : path)
| PtrCast (ty : list token) (addr : N)
| Field (e : dqe) (f : fname)
| Index (e : dqe) (l : lit)
| Slice (e : dqe) (a b : option N)
| Deref (e : dqe)
| Address (e : dqe)
| Canonic (e : dqe).

(* ------------------------------------------------------------------------------------------------ *)
(** * 3. Canonical text *)

Fixpoint print_segs (segs : list bstr) : list token :=
  match segs with
  | [] => []
  | s :: r => TColon2 :: TId s :: print_segs r
  end.

Definition print_path (p : path) : list token :=
  match p with
  | (lead, []) => []
  | (lead, s :: r) => (if lead then [TColon2] else []) ++ TId s :: print_segs r
  end.

Fixpoint print_lit (l : lit) : list token :=
  match l with
  | LStr s => [TStr true s]
  | LInt z => if (z <? 0)%Z then [TMinus; TInt (Z.to_N (- z))] else [TInt (Z.to_N z)]
  | LFloat neg ip fd => if neg then [TMinus; TFloat ip fd] else [TFloat ip fd]
  | LAddr n => [THex n]
  | LBool b => [TId (if b then s_true else s_false)]
  | LEnum p None => print_path p
  | LEnum p (Some a) => print_path p ++ TLParen :: print_lit a ++ [TRParen]
  | LArr items =>
      TLBrace ::
      match items with
      | [] => []
      | x :: r =>
          match x with Some l => print_lit l | None => [TStar] end ++
          (fix more (xs : list (option lit)) : list token :=
             match xs with
             | [] => []
             | y :: r' => TComma :: match y with Some l => print_lit l | None => [TStar] end ++ more r'
             end) r
      end ++ [TRBrace]
  | LAssoc kvs =>
      TLBrace ::
      match kvs with
      | [] => []
      | (k, x) :: r =>
          print_path k ++ TColon :: match x with Some l => print_lit l | None => [TStar] end ++
          (fix more (xs : list (path * option lit)) : list token :=
             match xs with
             | [] => []
             | (k', y) :: r' =>
                 TComma :: print_path k' ++ TColon ::
                 match y with Some l => print_lit l | None => [TStar] end ++ more r'
             end) r
      end ++ [TRBrace]
  end.

Definition print_low (x : option lit) : list token :=
  match x with Some l => print_lit l | None => [TStar] end.
Fixpoint print_more (xs : list (option lit)) : list token :=
  match xs with [] => [] | y :: r => TComma :: print_low y ++ print_more r end.
Definition print_kv (kv : path * option lit) : list token :=
  print_path (fst kv) ++ TColon :: print_low (snd kv).
Fixpoint print_more_kv (xs : list (path * option lit)) : list token :=
  match xs with [] => [] | kv :: r => TComma :: print_kv kv ++ print_more_kv r end.

Definition is_pre (e : dqe) : bool :=
  match e with Deref _ | Address _ | Canonic _ => true | _ => false end.

Definition print_fname (f : fname) : token := match f with FName s => TId s | FNum n => TInt n end.
Definition print_bound (b : option N) : list token := match b with Some n => [TInt n] | None => [] end.

(* parenthesised only where precedence requires: a prefix operator under a postfix operator *)
Fixpoint print (e : dqe) : list token :=
  let post (e1 : dqe) (p : list token) := if is_pre e1 then TLParen :: p ++ [TRParen] else p in
  match e with
  | Var p => print_path p
  | PtrCast ty n => TLParen :: ty ++ [TRParen; THex n]
  | Field e1 f => post e1 (print e1) ++ [TDot; print_fname f]
  | Index e1 l => post e1 (print e1) ++ TLBrack :: print_lit l ++ [TRBrack]
  | Slice e1 a b => post e1 (print e1) ++ TLBrack :: print_bound a ++ TDotDot :: print_bound b ++ [TRBrack]
  | Deref e1 => TStar :: print e1
  | Address e1 => TAmp :: print e1
  | Canonic e1 => TTilde :: print e1
  end.

Definition print_post (e1 : dqe) : list token :=
  if is_pre e1 then TLParen :: print e1 ++ [TRParen] else print e1.

(* ------------------------------------------------------------------------------------------------ *)
(** * 4. The parser (recursive descent mirroring the chumsky combinators)
    [Err 0] = this alternative does not match (chumsky rewinds and tries the next one);
    [Panic site] aborts the whole parse (an unwrap inside a `map` closure, run in Emit mode);
    [OutOfFuel] only if the fuel given is too small (it never is in [parse], see ProofsDqe). *)

Definition orelse {A} (r k : res A) : res A := match r with Err _ => k | _ => r end.

(* rust_identifier(): ident ("::" ident)*, optional leading "::" *)
Fixpoint path_tail (ts : list token) : list bstr * list token :=
  match ts with
  | TColon2 :: TId s :: r => let (segs, r') := path_tail r in (s :: segs, r')
  | _ => ([], ts)
  end.

Definition parse_path (ts : list token) : option (path * list token) :=
  match ts with
  | TId s :: r => let (segs, r') := path_tail r in Some ((false, s :: segs), r')
  | TColon2 :: TId s :: r => let (segs, r') := path_tail r in Some ((true, s :: segs), r')
  | _ => None
  end.

(* the fraction is text::int(10): "05" is read as "0" and the "5" is left in the input, after which
   every enclosing DQE context fails; a literal that ends inside a token is therefore a dead end *)
Definition float_ok (fd : list N) : bool :=
  match fd with
  | [] => false
  | [_] => true
  | d :: _ => negb (d =? 0)
  end.

(* just("true") / just("false") match a PREFIX of an identifier and the choice is committed *)
Definition bool_prefixed (s : bstr) : bool := is_prefix N.eqb s_true s || is_prefix N.eqb s_false s.

Section Sep.
Context {A : Type}.
Variable item : list token -> res (A * list token).
(* the `(sep item)*` part of separated_by: a separator not followed by an item is rewound *)
Fixpoint sep_more (f : nat) (ts : list token) : res (list A * list token) :=
  match f with
  | O => OutOfFuel
  | S f' =>
      match ts with
      | TComma :: r =>
          match item r with
          | Ok (x, r1) =>
              match sep_more f' r1 with
              | Ok (xs, r2) => Ok (x :: xs, r2)
              | e => e
              end
          | Err _ => Ok ([], ts)
          | Panic s => Panic s
          | OutOfFuel => OutOfFuel
          end
      | _ => Ok ([], ts)
      end
  end.
Definition sep_list (f : nat) (ts : list token) : res (list A * list token) :=
  match item ts with
  | Ok (x, r) =>
      match sep_more f r with
      | Ok (xs, r') => Ok (x :: xs, r')
      | e => e
      end
  | Err _ => Ok ([], ts)
  | Panic s => Panic s
  | OutOfFuel => OutOfFuel
  end.
End Sep.

Definition lit_parser := list token -> res (lit * list token).

(* literal.or(wildcard) *)
Definition low (pl : lit_parser) (ts : list token) : res (option lit * list token) :=
  match pl ts with
  | Ok (l, r) => Ok (Some l, r)
  | Err _ => match ts with TStar :: r => Ok (None, r) | _ => Err 0 end
  | Panic s => Panic s
  | OutOfFuel => OutOfFuel
  end.

(* rust_identifier ":" literal_or_wildcard *)
Definition kv_item (pl : lit_parser) (ts : list token) : res ((path * option lit) * list token) :=
  match parse_path ts with
  | Some (k, TColon :: r) =>
      match low pl r with
      | Ok (v, r') => Ok ((k, v), r')
      | Err c => Err c
      | Panic s => Panic s
      | OutOfFuel => OutOfFuel
      end
  | _ => Err 0
  end.

(* rust_identifier then ( "(" literal ")" ).or_not() *)
Definition enum_lit (pl : lit_parser) (ts : list token) : res (lit * list token) :=
  match parse_path ts with
  | Some (p, rest) =>
      match rest with
      | TLParen :: r1 =>
          match pl r1 with
          | Ok (a, TRParen :: r2) => Ok (LEnum p (Some a), r2)
          | Ok _ => Ok (LEnum p None, rest)
          | Err _ => Ok (LEnum p None, rest)
          | Panic s => Panic s
          | OutOfFuel => OutOfFuel
          end
      | _ => Ok (LEnum p None, rest)
      end
  | None => Err 0
  end.

(* expression.rs:43-125; alternatives in source order: float, bool, hex, int, enum variant,
   "string", 'string', array, assoc array *)
Fixpoint parse_lit (f : nat) (ts : list token) {struct f} : res (lit * list token) :=
  match f with
  | O => OutOfFuel
  | S f' =>
      match ts with
      | TFloat ip fd :: r => if float_ok fd then Ok (LFloat false ip fd, r) else Err 0
      | TMinus :: TFloat ip fd :: r => if float_ok fd then Ok (LFloat true ip fd, r) else Err 0
      | TId s :: r =>
          if bstr_eqb s s_true then Ok (LBool true, r)
          else if bstr_eqb s s_false then Ok (LBool false, r)
          else if bool_prefixed s then Err 0
          else enum_lit (parse_lit f') ts
      | THex n :: r => v <- conv_u64 SITE_HEX n ;; Ok (LAddr v, r)
      | TInt n :: r => z <- int_literal false n ;; Ok (LInt z, r)
      | TMinus :: TInt n :: r => z <- int_literal true n ;; Ok (LInt z, r)
      | TColon2 :: _ => enum_lit (parse_lit f') ts
      | TStr _ s :: r => Ok (LStr s, r)
      | TLBrace :: r =>
          orelse
            (match sep_list (low (parse_lit f')) f' r with
             | Ok (items, TRBrace :: r2) => Ok (LArr items, r2)
             | Ok _ => Err 0
             | Err c => Err c
             | Panic s => Panic s
             | OutOfFuel => OutOfFuel
             end)
            (match sep_list (kv_item (parse_lit f')) f' r with
             | Ok (kvs, TRBrace :: r2) => Ok (LAssoc kvs, r2)
             | Ok _ => Err 0
             | Err c => Err c
             | Panic s => Panic s
             | OutOfFuel => OutOfFuel
             end)
      | _ => Err 0
      end
  end.

(* characters accepted between the brackets of a pointer cast (expression.rs:14-35) *)
Definition is_alnum (c : N) : bool :=
  ((48 <=? c) && (c <=? 57)) || ((65 <=? c) && (c <=? 90)) || ((97 <=? c) && (c <=? 122)).
Definition is_ty_char (c : N) : bool :=
  is_alnum c || existsb (N.eqb c) [58; 60; 62; 32; 42; 38; 95; 44; 123; 125; 35; 39].
Definition is_ty_tok (t : token) : bool :=
  match t with
  | TId _ | TInt _ | THex _ | TStar | TAmp | TColon | TColon2 | TLt | TGt | TComma | TLBrace | TRBrace => true
  | TStr false s => forallb is_ty_char s
  | _ => false
  end.

Fixpoint ty_span (ts : list token) : list token * list token :=
  match ts with
  | t :: r => if is_ty_tok t then let (a, b) := ty_span r in (t :: a, b) else ([], ts)
  | [] => ([], [])
  end.

(* ptr_cast(): "(" type-chars+ ")" hex; [ts] is the input after "(" *)
Definition ptr_cast (ts : list token) : res (dqe * list token) :=
  match ty_span ts with
  | ((_ :: _) as ty, TRParen :: THex n :: r) => v <- conv_u64 SITE_HEX n ;; Ok (PtrCast ty v, r)
  | _ => Err 0
  end.

Definition expr_parser := list token -> res (dqe * list token).

(* atom = rust_identifier | ptr_cast | "(" expr ")" *)
Definition parse_atom (pe : expr_parser) (ts : list token) : res (dqe * list token) :=
  match parse_path ts with
  | Some (p, r) => Ok (Var p, r)
  | None =>
      match ts with
      | TLParen :: r =>
          orelse (ptr_cast r)
                 (match pe r with
                  | Ok (e, TRParen :: r') => Ok (e, r')
                  | Ok _ => Err 0
                  | e => e
                  end)
      | _ => Err 0
      end
  end.

(* "[" literal "]" ; input after "[" *)
Definition index_op (pl : lit_parser) (ts : list token) : res (lit * list token) :=
  match pl ts with
  | Ok (l, TRBrack :: r) => Ok (l, r)
  | Ok _ => Err 0
  | e => e
  end.

(* "[" usize? ".." usize? "]" ; input after "[".  Each bound is converted as soon as it is read. *)
Definition mb_usize (ts : list token) : res (option N * list token) :=
  match ts with
  | TInt n :: r => v <- conv_u64 SITE_EXPR_USIZE n ;; Ok (Some v, r)
  | _ => Ok (None, ts)
  end.
Definition slice_op (ts : list token) : res ((option N * option N) * list token) :=
  ar <- mb_usize ts ;;
  match snd ar with
  | TDotDot :: r2 =>
      br <- mb_usize r2 ;;
      match snd br with
      | TRBrack :: r4 => Ok ((fst ar, fst br), r4)
      | _ => Err 0
      end
  | _ => Err 0
  end.

(* field_op.or(index_op).or(slice_op).repeated() folded left over the atom *)
Fixpoint parse_post (f : nat) (e : dqe) (ts : list token) {struct f} : res (dqe * list token) :=
  match f with
  | O => OutOfFuel
  | S f' =>
      match ts with
      | TDot :: TId s :: r => parse_post f' (Field e (FName s)) r
      | TDot :: TInt n :: r => parse_post f' (Field e (FNum n)) r
      | TLBrack :: r =>
          match index_op (parse_lit f') r with
          | Ok (l, r') => parse_post f' (Index e l) r'
          | Err _ =>
              match slice_op r with
              | Ok ((a, b), r') => parse_post f' (Slice e a b) r'
              | Err _ => Ok (e, ts)
              | Panic s => Panic s
              | OutOfFuel => OutOfFuel
              end
          | Panic s => Panic s
          | OutOfFuel => OutOfFuel
          end
      | _ => Ok (e, ts)
      end
  end.

(* ("*" | "&" | "~")* folded right over the postfix chain *)
Fixpoint parse_expr (f : nat) (ts : list token) {struct f} : res (dqe * list token) :=
  match f with
  | O => OutOfFuel
  | S f' =>
      match ts with
      | TStar :: r => er <- parse_expr f' r ;; Ok (Deref (fst er), snd er)
      | TAmp :: r => er <- parse_expr f' r ;; Ok (Address (fst er), snd er)
      | TTilde :: r => er <- parse_expr f' r ;; Ok (Canonic (fst er), snd er)
      | _ => ar <- parse_atom (parse_expr f') ts ;; parse_post f' (fst ar) (snd ar)
      end
  end.

(* expr.then_ignore(end()) *)
Definition parse (ts : list token) : res dqe :=
  match parse_expr (S (length ts)) ts with
  | Ok (e, []) => Ok e
  | Ok _ => Err 0
  | Err c => Err c
  | Panic s => Panic s
  | OutOfFuel => OutOfFuel
  end.

Definition parse_opt (ts : list token) : option dqe := match parse ts with Ok e => Some e | _ => None end.

(* ------------------------------------------------------------------------------------------------ *)
(** * 5. Rust's `Display for Literal` (dqe.rs:21-62) as tokens, to ask whether it can be parsed back *)

Fixpoint join_segs (segs : list bstr) : bstr :=
  match segs with
  | [] => []
  | [s] => s
  | s :: r => s ++ [58; 58] ++ join_segs r
  end.
Definition path_text (p : path) : bstr := (if fst p then [58; 58] else []) ++ join_segs (snd p).

Fixpoint strip_zeros_rev (r : list N) : list N :=
  match r with
  | d :: t => if d =? 0 then strip_zeros_rev t else r
  | [] => []
  end.
(* f64::to_string prints the shortest digits that round-trip: trailing zeros of the fraction are
   dropped and "1.0" prints as "1" (faithful for at most 15 significant digits) *)
Definition display_float (neg : bool) (ip : N) (fd : list N) : list token :=
  let fd' := rev (strip_zeros_rev (rev fd)) in
  (if neg then [TMinus] else []) ++
  match fd' with [] => [TInt ip] | _ => [TFloat ip fd'] end.

Fixpoint display_lit (l : lit) : list token :=
  match l with
  | LStr s => [TStr true s]
  | LInt z => if (z <? 0)%Z then [TMinus; TInt (Z.to_N (- z))] else [TInt (Z.to_N z)]
  | LFloat neg ip fd => display_float neg ip fd
  | LAddr n => [THex n]
  | LBool b => [TId (if b then s_true else s_false)]
  | LEnum p None => print_path p
  | LEnum p (Some a) => print_path p ++ TLParen :: display_lit a ++ [TRParen]
  | LArr items =>
      TLBrace ::
      match items with
      | [] => []
      | x :: r =>
          match x with Some l => display_lit l | None => [TStar] end ++
          (fix more (xs : list (option lit)) : list token :=
             match xs with
             | [] => []
             | y :: r' => TComma :: match y with Some l => display_lit l | None => [TStar] end ++ more r'
             end) r
      end ++ [TRBrace]
  | LAssoc kvs =>
      TLBrace ::
      match kvs with
      | [] => []
      | (k, x) :: r =>
          TStr true (path_text k) :: TColon :: match x with Some l => display_lit l | None => [TStar] end ++
          (fix more (xs : list (path * option lit)) : list token :=
             match xs with
             | [] => []
             | (k', y) :: r' =>
                 TComma :: TStr true (path_text k') :: TColon ::
                 match y with Some l => display_lit l | None => [TStar] end ++ more r'
             end) r
      end ++ [TRBrace]
  end.

(* parse a literal standing alone (as `expression::literal()` followed by end of input) *)
Definition parse_literal (ts : list token) : res lit :=
  match parse_lit (S (length ts)) ts with
  | Ok (l, []) => Ok l
  | Ok _ => Err 0
  | Err c => Err c
  | Panic s => Panic s
  | OutOfFuel => OutOfFuel
  end.

(* ------------------------------------------------------------------------------------------------ *)
(** * 6. Values (an abstraction of value/mod.rs `Value`) *)

(* raw_address / type_id of a value: `in_memory_location()` and `type_id()` *)
Record meta := mk_meta { m_addr : option N; m_ty : option N }.
Definition no_meta : meta := mk_meta None None.

Inductive scalar :=
| SInt (z : Z)        (* any integer scalar, as the i64 that equal_with_literal compares (`as i64`) *)
| SFloat (bits : N)   (* f32/f64, opaque *)
| SBool (b : bool)
| SChar (c : bstr)    (* the char's UTF-8 text *)
| SEmpty.             (* () *)

Definition members (V : Type) : Type := list (option bstr * V).

Inductive vtree :=
| VScalar (m : meta) (s : option scalar)
| VStruct (m : meta) (ms : members vtree)
| VArray (m : meta) (items : option (list vtree))
| VCEnum (m : meta) (v : option bstr)
| VRustEnum (m : meta) (v : option (option bstr * vtree))
| VPointer (m : meta) (value : option N) (target : option N)    (* target = pointee type id *)
| VVec (m : meta) (buf : vtree) (orig : members vtree)          (* Specialized Vector / VecDeque: structure.members[0] *)
| VMap (m : meta) (kvs : list (vtree * vtree)) (orig : members vtree)   (* HashMap / BTreeMap *)
| VSet (m : meta) (items : list vtree) (orig : members vtree)   (* HashSet / BTreeSet *)
| VStr (m : meta) (s : bstr) (orig : members vtree)             (* String / &str *)
| VSpecOther (m : meta) (orig : members vtree)                  (* Specialized{value: None} or a kind not modelled *)
| VSubroutine (m : meta).

Definition vmeta (v : vtree) : meta :=
  match v with
  | VScalar m _ | VStruct m _ | VArray m _ | VCEnum m _ | VRustEnum m _ | VPointer m _ _
  | VVec m _ _ | VMap m _ _ | VSet m _ _ | VStr m _ _ | VSpecOther m _ | VSubroutine m => m
  end.

Definition SITE_DRAIN      : N := 220.  (* value/mod.rs:220 items.drain(..left), left > len *)
Definition SITE_SLICE_SUB  : N := 224.  (* value/mod.rs:224 right - left, right < left (debug profile) *)
Definition SITE_PTR_ADD    : N := 308.  (* value/mod.rs:308 ptr + deref_size * left overflows (debug profile) *)
Definition SITE_PTR_SUB    : N := 312.  (* value/mod.rs:312 right - left, right < left (debug profile) *)
Definition SITE_VEC_ASSERT : N := 58.   (* specialization/mod.rs:58 debug_assert!(members[0] is an array) *)

(* decimal text of a number (`.0` tuple fields are looked up by the text "0") *)
Fixpoint dec_digits (fuel : nat) (n : N) (acc : bstr) : bstr :=
  match fuel with
  | O => acc
  | S f => let acc' := (48 + n mod 10) :: acc in
           if n / 10 =? 0 then acc' else dec_digits f (n / 10) acc'
  end.
Definition dec_text (n : N) : bstr := dec_digits (S (N.size_nat n)) n [].
Definition fname_text (f : fname) : bstr := match f with FName s => s | FNum n => dec_text n end.

Fixpoint find_member {V} (ms : members V) (name : bstr) : option V :=
  match ms with
  | [] => None
  | (Some n, v) :: r => if bstr_eqb n name then Some v else find_member r name
  | (None, _) :: r => find_member r name
  end.

Fixpoint find_pos {A} (p : A -> bool) (l : list A) : option nat :=
  match l with
  | [] => None
  | x :: r => if p x then Some O else option_map S (find_pos p r)
  end.
(* Vec::swap_remove(i): the last element takes the place of the removed one *)
Definition swap_remove {A} (i : nat) (l : list A) : list A :=
  match rev l with
  | [] => []
  | last :: _ =>
      let n := length l in
      if Nat.eqb i (n - 1) then firstn (n - 1) l
      else firstn i l ++ last :: firstn (n - 1 - S i) (skipn (S i) l)
  end.

(* the HashMap built by inserting [kvs] in order: shadowed bindings dropped *)
Fixpoint assoc_norm (kvs : list (path * option lit)) : list (bstr * option lit) :=
  match kvs with
  | [] => []
  | (k, v) :: r =>
      if existsb (fun kv => bstr_eqb (path_text k) (path_text (fst kv))) r then assoc_norm r
      else (path_text k, v) :: assoc_norm r
  end.

Section Eval.
(* external behaviour *)
Variable mem : N -> N -> option vtree.       (* ValueParser on the bytes at an address, for a type id *)
Variable mem_items : N -> N -> N -> option (list vtree).  (* [count] consecutive values of a type at an address; None = read failed *)
Variable ty_size : N -> option N.            (* type_size_in_bytes *)
Variable ptr_type : list token -> option (option N).  (* type named in a pointer cast -> pointee type id; None = unknown type *)
Variable float_eq : bool -> N -> list N -> N -> bool. (* |literal - scalar| < 1e-7 in f64 arithmetic *)

Definition scalar_eq (s : scalar) (l : lit) : bool :=
  match s, l with
  | SInt z, LInt z' => (z =? z')%Z
  | SFloat b, LFloat neg ip fd => float_eq neg ip fd b
  | SBool b, LBool b' => Bool.eqb b b'
  | SChar c, LStr s' => bstr_eqb c s'
  | _, _ => false
  end.

Definition is_wild (x : option lit) : bool := match x with None => true | Some _ => false end.

(* Value::match_literal, value/mod.rs:820-1013 *)
Fixpoint match_lit (v : vtree) (l : lit) {struct v} : bool :=
  match v with
  | VScalar _ (Some s) => scalar_eq s l
  | VPointer _ (Some p) _ => match l with LAddr a => a =? p | _ => false end
  | VArray _ (Some items) =>
      match l with
      | LArr ls =>
          Nat.eqb (length ls) (length items) &&
          (fix go (its : list vtree) (xs : list (option lit)) : bool :=
             match its, xs with
             | it :: ir, x :: xr =>
                 match x with Some l' => match_lit it l' | None => true end && go ir xr
             | _, _ => true
             end) items ls
      | _ => false
      end
  | VStruct _ ms =>
      match l with
      | LArr ls =>
          Nat.eqb (length ls) (length ms) &&
          (fix go (its : members vtree) (xs : list (option lit)) : bool :=
             match its, xs with
             | (_, it) :: ir, x :: xr =>
                 match x with Some l' => match_lit it l' | None => true end && go ir xr
             | _, _ => true
             end) ms ls
      | LAssoc kvs =>
          let nm := assoc_norm kvs in
          Nat.eqb (length nm) (length ms) &&
          (fix go (its : members vtree) : bool :=
             match its with
             | [] => true
             | (None, _) :: _ => false
             | (Some n, it) :: ir =>
                 match alist_get bstr_eqb nm n with
                 | None => false
                 | Some x => match x with Some l' => match_lit it l' | None => true end && go ir
                 end
             end) ms
      | _ => false
      end
  | VStr _ s _ => match l with LStr s' => bstr_eqb s' s | _ => false end
  | VVec _ buf _ => match_lit buf l
  | VSet _ items _ =>
      match l with
      | LArr ls =>
          Nat.eqb (length ls) (length items) &&
          (fix go (its : list vtree) (xs : list (option lit)) : bool :=
             match its with
             | [] => true
             | it :: ir =>
                 match find_pos (fun x => match x with Some l' => match_lit it l' | None => false end) xs with
                 | Some i => go ir (swap_remove i xs)
                 | None =>
                     match find_pos is_wild xs with
                     | Some i => go ir (swap_remove i xs)
                     | None => false
                     end
                 end
             end) items ls
      | _ => false
      end
  | VCEnum _ (Some name) => match l with LEnum p None => bstr_eqb name (path_text p) | _ => false end
  | VRustEnum _ (Some (fn, inner)) =>
      match l with
      | LEnum p arg =>
          match fn with Some n => bstr_eqb n (path_text p) | None => false end &&
          match arg with None => true | Some l' => match_lit inner l' end
      | _ => false
      end
  | _ => false
  end.

(* Value::field, value/mod.rs:668-713 *)
Fixpoint v_field (v : vtree) (name : bstr) : option vtree :=
  match v with
  | VStruct _ ms => find_member ms name
  | VRustEnum _ (Some (_, inner)) => v_field inner name
  | VMap _ kvs _ =>
      option_map snd
        (find (fun kv => match fst kv with VStr _ s _ => bstr_eqb s name | _ => false end) kvs)
  | VVec _ buf _ => if bstr_eqb name [98; 117; 102] then Some buf else None
  | _ => None
  end.

(* Value::index, value/mod.rs:717-764 *)
Fixpoint v_index (v : vtree) (l : lit) : option vtree :=
  match v with
  | VArray _ (Some items) =>
      match l with
      | LInt z =>
          if ((0 <=? z) && (z <? Z.of_nat (length items)))%Z then nth_error items (Z.to_nat z) else None
      | _ => None
      end
  | VRustEnum _ (Some (_, inner)) => v_index inner l
  | VVec _ buf _ => v_index buf l
  | VMap _ kvs _ => option_map snd (find (fun kv => match_lit (fst kv) l) kvs)
  | VSet _ items _ => Some (VScalar no_meta (Some (SBool (existsb (fun it => match_lit it l) items))))
  | _ => None
  end.

(* what `a[l..r]` should be: elements l .. r-1, clamped to the container *)
Definition spec_slice (items : list vtree) (l r : N) : list vtree :=
  if N.of_nat (length items) <=? l then []
  else firstn (N.to_nat (N.min r (N.of_nat (length items))) - N.to_nat l) (skipn (N.to_nat l) items).
Definition spec_slice_opt (items : list vtree) (left right : option N) : res (list vtree) :=
  Ok (spec_slice items (match left with Some l => l | None => 0 end)
                       (match right with Some r => r | None => N.of_nat (length items) end)).

(* ArrayValue::slice after fix_2: left is clamped to the length, `right - left` saturates at 0 *)
Definition array_slice (items : list vtree) (left right : option N) : res (list vtree) :=
  let l := N.min (match left with Some l => l | None => 0 end) (N.of_nat (length items)) in
  let items1 := skipn (N.to_nat l) items in
  match right with
  | Some r =>
      if r - l <? N.of_nat (length items1) then Ok (firstn (N.to_nat (r - l)) items1) else Ok items1
  | None => Ok items1
  end.

Section Ops.
Variable slicer : list vtree -> option N -> option N -> res (list vtree).

(* Value::slice, value/mod.rs:766-816 and PointerValue::slice :302-340 *)
Definition v_slice (v : vtree) (left right : option N) : res (option vtree) :=
  match v with
  | VArray m (Some items) => its <- slicer items left right ;; Ok (Some (VArray m (Some its)))
  | VArray m None => Ok (Some v)
  | VPointer _ (Some p) (Some t) =>
      match right, ty_size t with
      | Some r, Some sz =>
          let l := match left with Some l => l | None => 0 end in
          (* fix_2: checked address arithmetic (overflow = no result), `right - left` saturates at 0 *)
          if (P64 <=? p + sz * l) || (P64 <=? sz * (r - l)) then Ok None
          else match mem_items (p + sz * l) t (r - l) with
               | Some its => Ok (Some (VArray (mk_meta (Some (p + sz * l)) None) (Some its)))
               | None => Ok None
               end
      | _, _ => Ok None
      end
  | VVec m buf orig =>
      match buf with
      | VArray bm (Some items) => its <- slicer items left right ;; Ok (Some (VVec m (VArray bm (Some its)) orig))
      | VArray _ None => Ok (Some v)
      | _ => Panic SITE_VEC_ASSERT
      end
  | _ => Ok None
  end.

(* Value::deref :623 (Rc/Arc/Tls/Cell not modelled) *)
Fixpoint v_deref (v : vtree) : option vtree :=
  match v with
  | VPointer _ (Some p) (Some t) => mem p t
  | VRustEnum _ (Some (_, inner)) => v_deref inner
  | _ => None
  end.

(* Value::address :652 *)
Definition v_address (v : vtree) : option vtree :=
  match m_addr (vmeta v) with
  | Some a => Some (VPointer no_meta (Some a) (m_ty (vmeta v)))
  | None => None
  end.

(* Value::canonic :612 *)
Definition v_canonic (v : vtree) : vtree :=
  match v with
  | VVec m _ orig | VMap m _ orig | VSet m _ orig | VStr m _ orig | VSpecOther m orig => VStruct m orig
  | _ => v
  end.

Definition omap {A B} (o : option A) (f : A -> option B) : option B :=
  match o with Some a => f a | None => None end.

(* DqeExecutor::apply_dqe on one selected root (execute.rs:430-478): a `None` drops the result *)
Fixpoint eval_gen (e : dqe) (root : vtree) : res (option vtree) :=
  match e with
  | Var _ => Ok (Some root)
  | PtrCast ty a =>
      match ptr_type ty with
      | Some tgt => Ok (Some (VPointer no_meta (Some a) tgt))
      | None => Err 1
      end
  | Field e1 f => r <- eval_gen e1 root ;; Ok (omap r (fun v => v_field v (fname_text f)))
  | Index e1 l => r <- eval_gen e1 root ;; Ok (omap r (fun v => v_index v l))
  | Slice e1 a b =>
      r <- eval_gen e1 root ;;
      match r with Some v => v_slice v a b | None => Ok None end
  | Deref e1 => r <- eval_gen e1 root ;; Ok (omap r v_deref)
  | Address e1 => r <- eval_gen e1 root ;; Ok (omap r v_address)
  | Canonic e1 => r <- eval_gen e1 root ;; Ok (omap r (fun v => Some (v_canonic v)))
  end.
End Ops.

Definition eval := eval_gen array_slice.          (* the code *)
Definition spec_eval := eval_gen spec_slice_opt.  (* the documented meaning: slices clamp, never panic *)
End Eval.

(* ------------------------------------------------------------------------------------------------ *)
(** * 7. Decidable comparisons (for the correspondence checkers) *)

Definition tok_tag (t : token) : N :=
  match t with
  | TId _ => 0 | TInt _ => 1 | THex _ => 2 | TFloat _ _ => 3 | TStr _ _ => 4
  | TMinus => 5 | TDot => 6 | TDotDot => 7 | TColon => 8 | TColon2 => 9 | TComma => 10 | TStar => 11
  | TAmp => 12 | TTilde => 13 | TLParen => 14 | TRParen => 15 | TLBrack => 16 | TRBrack => 17
  | TLBrace => 18 | TRBrace => 19 | TLt => 20 | TGt => 21
  end.
Definition token_eqb (a b : token) : bool :=
  match a, b with
  | TId s, TId t => bstr_eqb s t
  | TInt n, TInt m => n =? m
  | THex n, THex m => n =? m
  | TFloat i f, TFloat i' f' => (i =? i') && list_eqb N.eqb f f'
  | TStr q s, TStr q' s' => Bool.eqb q q' && bstr_eqb s s'
  | _, _ => (4 <? tok_tag a) && (tok_tag a =? tok_tag b)
  end.
Definition tokens_eqb : list token -> list token -> bool := list_eqb token_eqb.

Definition path_eqb (p q : path) : bool := Bool.eqb (fst p) (fst q) && list_eqb bstr_eqb (snd p) (snd q).
Definition optN_eqb (a b : option N) : bool :=
  match a, b with Some x, Some y => x =? y | None, None => true | _, _ => false end.

Fixpoint assoc_last {V} (k : path) (kvs : list (path * V)) : option V :=
  match kvs with
  | [] => None
  | (k', v) :: r => match assoc_last k r with Some v' => Some v' | None => if path_eqb k k' then Some v else None end
  end.
Fixpoint distinct_keys {V} (kvs : list (path * V)) : nat :=
  match kvs with
  | [] => O
  | (k, _) :: r => if existsb (fun kv => path_eqb k (fst kv)) r then distinct_keys r else S (distinct_keys r)
  end.

(* LAssoc is compared as the HashMap it denotes (last binding of a key wins, order irrelevant) *)
Fixpoint lit_eqb (a b : lit) {struct a} : bool :=
  match a, b with
  | LStr s, LStr t => bstr_eqb s t
  | LInt x, LInt y => (x =? y)%Z
  | LFloat n i f, LFloat n' i' f' => Bool.eqb n n' && (i =? i') && list_eqb N.eqb f f'
  | LAddr x, LAddr y => x =? y
  | LBool x, LBool y => Bool.eqb x y
  | LEnum p x, LEnum q y =>
      path_eqb p q &&
      match x, y with Some x', Some y' => lit_eqb x' y' | None, None => true | _, _ => false end
  | LArr xs, LArr ys =>
      (fix go (xs : list (option lit)) (ys : list (option lit)) : bool :=
         match xs, ys with
         | [], [] => true
         | x :: xr, y :: yr =>
             match x, y with Some x', Some y' => lit_eqb x' y' | None, None => true | _, _ => false end && go xr yr
         | _, _ => false
         end) xs ys
  | LAssoc xs, LAssoc ys =>
      Nat.eqb (distinct_keys xs) (distinct_keys ys) &&
      (fix go (xs : list (path * option lit)) : bool :=
         match xs with
         | [] => true
         | (k, x) :: xr =>
             (if existsb (fun kv => path_eqb k (fst kv)) xr then true
              else match assoc_last k ys with
                   | Some y => match x, y with Some x', Some y' => lit_eqb x' y' | None, None => true | _, _ => false end
                   | None => false
                   end) && go xr
         end) xs
  | _, _ => false
  end.

Definition fname_eqb (a b : fname) : bool :=
  match a, b with FName s, FName t => bstr_eqb s t | FNum n, FNum m => n =? m | _, _ => false end.

Fixpoint dqe_eqb (a b : dqe) : bool :=
  match a, b with
  | Var p, Var q => path_eqb p q
  | PtrCast t n, PtrCast t' n' => tokens_eqb t t' && (n =? n')
  | Field e f, Field e' f' => dqe_eqb e e' && fname_eqb f f'
  | Index e l, Index e' l' => dqe_eqb e e' && lit_eqb l l'
  | Slice e x y, Slice e' x' y' => dqe_eqb e e' && optN_eqb x x' && optN_eqb y y'
  | Deref e, Deref e' | Address e, Address e' | Canonic e, Canonic e' => dqe_eqb e e'
  | _, _ => false
  end.

(* injective serialisation of a value, so that results can be compared with list_eqb *)
Definition flat_optN (o : option N) : list N := match o with Some n => [1; n] | None => [0] end.
Definition flat_meta (m : meta) : list N := flat_optN (m_addr m) ++ flat_optN (m_ty m).
Definition flat_bstr (s : bstr) : list N := N.of_nat (length s) :: s.
Definition flat_optbstr (o : option bstr) : list N := match o with Some s => 1 :: flat_bstr s | None => [0] end.
Definition flat_scalar (s : option scalar) : list N :=
  match s with
  | None => [0]
  | Some (SInt z) => [1; if (z <? 0)%Z then 1 else 0; Z.abs_N z]
  | Some (SFloat b) => [2; b]
  | Some (SBool b) => [3; if b then 1 else 0]
  | Some (SChar c) => 4 :: flat_bstr c
  | Some SEmpty => [5]
  end.

Fixpoint vflat (v : vtree) : list N :=
  let fl_list := fix go (l : list vtree) : list N := match l with [] => [] | x :: r => vflat x ++ go r end in
  let fl_members := fix go (l : members vtree) : list N :=
                      match l with [] => [] | (n, x) :: r => flat_optbstr n ++ vflat x ++ go r end in
  match v with
  | VScalar m s => 1 :: flat_meta m ++ flat_scalar s
  | VStruct m ms => 2 :: flat_meta m ++ N.of_nat (length ms) :: fl_members ms
  | VArray m None => 3 :: flat_meta m ++ [0]
  | VArray m (Some its) => 3 :: flat_meta m ++ 1 :: N.of_nat (length its) :: fl_list its
  | VCEnum m o => 4 :: flat_meta m ++ flat_optbstr o
  | VRustEnum m None => 5 :: flat_meta m ++ [0]
  | VRustEnum m (Some (n, x)) => 5 :: flat_meta m ++ 1 :: flat_optbstr n ++ vflat x
  | VPointer m p t => 6 :: flat_meta m ++ flat_optN p ++ flat_optN t
  | VVec m buf orig => 7 :: flat_meta m ++ vflat buf ++ N.of_nat (length orig) :: fl_members orig
  | VMap m kvs orig =>
      8 :: flat_meta m ++ N.of_nat (length kvs) ::
      (fix go (l : list (vtree * vtree)) : list N :=
         match l with [] => [] | (k, x) :: r => vflat k ++ vflat x ++ go r end) kvs ++
      N.of_nat (length orig) :: fl_members orig
  | VSet m its orig => 9 :: flat_meta m ++ N.of_nat (length its) :: fl_list its ++ N.of_nat (length orig) :: fl_members orig
  | VStr m s orig => 10 :: flat_meta m ++ flat_bstr s ++ N.of_nat (length orig) :: fl_members orig
  | VSpecOther m orig => 11 :: flat_meta m ++ N.of_nat (length orig) :: fl_members orig
  | VSubroutine m => 12 :: flat_meta m
  end.
Definition vtree_eqb (a b : vtree) : bool := list_eqb N.eqb (vflat a) (vflat b).

(* ------------------------------------------------------------------------------------------------ *)
(** * 8. Correspondence cases *)

(* (a) parser.  [pc_tokens] rendered to text by the harness (REPORT.md, "rendering"); [pc_intended] =
   Some e when the harness produced the tokens as [print e]; [pc_impl] = what expression::parser() did *)
Inductive parse_outcome := PO_ok (e : dqe) | PO_reject | PO_panic.
Record dqe_parse_case := mk_parse_case {
  pc_tokens : list token;
  pc_intended : option dqe;
  pc_impl : parse_outcome }.

Definition po_of (r : res dqe) : parse_outcome :=
  match r with Ok e => PO_ok e | Panic _ => PO_panic | _ => PO_reject end.
Definition po_eqb (a b : parse_outcome) : bool :=
  match a, b with
  | PO_ok e, PO_ok e' => dqe_eqb e e'
  | PO_reject, PO_reject | PO_panic, PO_panic => true
  | _, _ => false
  end.
(* spec: no input panics, and the canonical text of an expression parses back to it *)
Definition parse_spec_ok (c : dqe_parse_case) : bool :=
  negb (po_eqb (pc_impl c) PO_panic) &&
  match pc_intended c with
  | Some e0 => if tokens_eqb (print e0) (pc_tokens c) then po_eqb (pc_impl c) (PO_ok e0) else true
  | None => true
  end.
Definition dqe_parse_check (c : dqe_parse_case) : N :=
  verdict (po_eqb (po_of (parse (pc_tokens c))) (pc_impl c)) (parse_spec_ok c).

(* (b) operators.  The external functions are finite tables observed by the harness. *)
Inductive eval_outcome := EO_value (v : option vtree) | EO_error | EO_panic.
Record dqe_eval_case := mk_eval_case {
  ec_root : vtree;
  ec_expr : dqe;
  ec_mem : list ((N * N) * vtree);                   (* (address, type id) -> value read there *)
  ec_mem_items : list ((N * N * N) * list vtree);    (* (address, type id, count) -> values *)
  ec_ty_size : list (N * N);
  ec_ptr_types : list (list token * option N);
  ec_float_eq : list ((bool * N * list N) * N);      (* (float literal, scalar bits) pairs within 1e-7 *)
  ec_impl : eval_outcome }.

Definition nn_eqb (a b : N * N) : bool := (fst a =? fst b) && (snd a =? snd b).
Definition nnn_eqb (a b : N * N * N) : bool := nn_eqb (fst a) (fst b) && (snd a =? snd b).
Definition flit_eqb (a b : (bool * N * list N) * N) : bool :=
  Bool.eqb (fst (fst (fst a))) (fst (fst (fst b))) && (snd (fst (fst a)) =? snd (fst (fst b))) &&
  list_eqb N.eqb (snd (fst a)) (snd (fst b)) && (snd a =? snd b).

Definition case_eval (sp : bool) (c : dqe_eval_case) : res (option vtree) :=
  (if sp then spec_eval else eval)
    (fun a t => alist_get nn_eqb (ec_mem c) (a, t))
    (fun a t n => alist_get nnn_eqb (ec_mem_items c) (a, t, n))
    (fun t => alist_get N.eqb (ec_ty_size c) t)
    (fun ty => alist_get tokens_eqb (ec_ptr_types c) ty)
    (fun neg ip fd b => existsb (flit_eqb ((neg, ip, fd), b)) (ec_float_eq c))
    (ec_expr c) (ec_root c).

Definition eo_of (r : res (option vtree)) : eval_outcome :=
  match r with Ok v => EO_value v | Panic _ => EO_panic | _ => EO_error end.
Definition eo_eqb (a b : eval_outcome) : bool :=
  match a, b with
  | EO_value (Some x), EO_value (Some y) => vtree_eqb x y
  | EO_value None, EO_value None | EO_error, EO_error | EO_panic, EO_panic => true
  | _, _ => false
  end.
Definition dqe_eval_check (c : dqe_eval_case) : N :=
  verdict (eo_eqb (eo_of (case_eval false c)) (ec_impl c))
          (negb (eo_eqb (ec_impl c) EO_panic) && eo_eqb (eo_of (case_eval true c)) (ec_impl c)).

(* (c) numeric arguments of console commands: did the real command parser panic on the digits of [n]? *)
Record num_case := mk_num_case { nc_kind : num_arg; nc_value : N; nc_impl_panicked : bool }.
Definition num_check (c : num_case) : N :=
  verdict (Bool.eqb (is_panic (conv_num_arg (nc_kind c) (nc_value c))) (nc_impl_panicked c))
          (negb (nc_impl_panicked c)).
