(* Proofs for C11 over the existing patch machine (Model/BpMachine.v) and the extension
   ModelLifecycleX.v: restart keeps the user's breakpoints (numbers, addresses, enabled, memory =
   image + patches, stops = projection of the native trace), the exit code reported is the one of
   the native run, detach / drop of an attached process leaves it alive with original code, no
   breakpoint and quiet debug registers; witnesses for the clauses the faithful model violates. *)
From BS Require Import Model.Base.
From BS Require Import Gen.Dr Model.Dr Model.Wp Spec.DrArch Proofs.DrProofs Proofs.WpProofs.
From BS Require Import Model.BpMachine Proofs.BpMachineProofs.
From W Require Import ModelLifecycleX.
From Coq Require Import Lia.
Open Scope N_scope.

Notation bst := BpMachine.st.

(* ====================================================================================== *)
(* Part A: restart                                                                         *)
(* ====================================================================================== *)
Section Restart.
Variable code : mem.
Variable tr : list N.
Variable rbrk off : N.
Variable has_place : N -> bool.
Variable exit_code : Z.
Hypothesis H_no_int3 : forall a, In a tr -> code a <> Some INT3.
Hypothesis H_mapped : forall a, In a tr -> code a <> None.
Variable entry : N.
Hypothesis H_off : off <= entry.
Hypothesis H_entry_readable : readable code entry.
Hypothesis H_rbrk_readable : readable code rbrk.
Hypothesis H_rbrk_entry : rbrk <> entry.
Hypothesis H_entry_once : forall k k', (k < length tr)%nat -> (k' < length tr)%nat ->
  pc_at tr k = entry -> pc_at tr k' = entry -> k = k'.

Local Notation WF := (WF code).
Local Notation Prompt := (Prompt code tr).
Local Notation proc_at := (proc_at tr).
Local Notation pc_at := (pc_at tr).
Local Notation Steady := (Steady tr).
Local Notation ExitedOK := (ExitedOK tr).
Local Notation exit_seen := (exit_seen exit_code).
Local Notation continue_execution := (continue_execution code tr rbrk off has_place exit_code).
Local Notation restart_debugee := (restart_debugee code tr rbrk off has_place exit_code).
Local Notation cont_loop := (cont_loop code tr rbrk off has_place exit_code).
Local Notation dis_of := (dis_of off).
Local Notation persist := (persist off).
Local Notation pendv := (pendv off).

Definition ka (u : ubp) : N := key_addr off (u_key u).
Definition eu : ubp := mk_ubp (Glob (entry - off)) 0 TEntry false.

Lemma ka_eu : ka eu = entry.
Proof. unfold ka, eu. cbn. lia. Qed.

Definition in_delbp := in_del_bp off has_place.
Definition find_bp_some' := find_bp_some off has_place.

Lemma sbm_refl : forall p, same_but_mem p p.
Proof. unfold same_but_mem. tauto. Qed.
Lemma sbm_trans : forall p q r, same_but_mem p q -> same_but_mem q r -> same_but_mem p r.
Proof. unfold same_but_mem. intros p q r (a&b&c&d) (e&f&g&h). repeat split; congruence. Qed.

Lemma rd_some : forall a, readable code a -> exists c, code a = Some c.
Proof.
  intros a R. specialize (R 0). replace (a + 0) with a in R by lia.
  destruct (code a) as [c|]; [eauto|]. exfalso. apply R; [cbn; tauto|reflexivity].
Qed.

(* an uninit user breakpoint that converts and enables when the entry point is reached: keyed by
   a relocated address (break before run) or by a global one (survivor of a restart / exit) *)
Definition GoodUX (u : ubp) : Prop :=
  u_ty u = TUser /\
  try_into_brkpt code off has_place u = Ok (mk_bp (ka u) (u_num u) 0 false TUser) /\
  readable code (ka u) /\ ka u <> entry /\ ka u <> rbrk /\ off <= ka u.

Lemma goodU_goodUX : forall u, GoodU code rbrk has_place entry u -> off <= ka u -> GoodUX u.
Proof.
  intros u G Ho. destruct (try_into_good code rbrk off has_place entry u G) as (a & Hk & Et & Hr & He & Hb).
  unfold GoodUX, ka in *. rewrite Hk in *. cbn [key_addr] in *. destruct G as (Ht & _). auto 10.
Qed.

Lemma persist_user_good : forall b, b_ty b = TUser -> readable code (b_addr b) -> b_addr b <> entry ->
  b_addr b <> rbrk -> off <= b_addr b ->
  exists u, persist b = Some u /\ GoodUX u /\ ka u = b_addr b /\ u_num u = b_num b /\ u_ty u = TUser.
Proof.
  intros b Ht Hr He Hb Ho. unfold ModelLifecycleX.persist. rewrite Ht. eexists. split; [reflexivity|].
  assert (Hka: ka (mk_ubp (Glob (b_addr b - off)) (b_num b) TUser true) = b_addr b) by (unfold ka; cbn; lia).
  split; [|auto]. unfold GoodUX. rewrite Hka. split; [reflexivity|]. split; [|auto].
  unfold try_into_brkpt. cbn [u_key u_ty u_place u_num bind orb]. f_equal. f_equal. lia.
Qed.

(* ---------- enable_all_breakpoints on good pending breakpoints with distinct addresses ---------- *)
Definition EAX (l : list ubp) (bps bps' : list bp) : Prop :=
  (forall b, In b bps' -> (In b bps /\ ~ In (b_addr b) (map ka l)) \/
     (b_ty b = TUser /\ exists u, In u l /\ b_addr b = ka u /\ b_num b = u_num u)) /\
  (forall b, In b bps -> ~ In (b_addr b) (map ka l) -> In b bps') /\
  (forall u, In u l -> exists b, In b bps' /\ b_ty b = TUser /\ b_addr b = ka u /\ b_num b = u_num u).

Lemma enable_all_okX : forall l bps p, Forall GoodUX l -> NoDup (map ka l) -> WF bps (p_mem p) -> p_alive p = true ->
  let r := enable_all_from code off has_place l bps p in
  WF (fst r) (p_mem (snd r)) /\ same_but_mem p (snd r) /\ EAX l bps (fst r).
Proof.
  induction l as [|u t IH]; intros bps p HG ND W Hal.
  - cbn zeta. cbn [enable_all_from fst snd map]. split; [exact W|]. split; [apply sbm_refl|]. unfold EAX.
    split; [intros b Hb; left; split; [exact Hb|intros []]|]. split; [auto|intros u []].
  - inversion HG as [|? ? Gu Gt]; subst. cbn [map] in ND. inversion ND as [|? ? Hnin NDt]; subst.
    cbn [enable_all_from].
    destruct Gu as (Hty & Et & Hr & Hne & Hnb & Hoff). rewrite Et.
    destruct (rd_some _ Hr) as [c Hc].
    destruct (add_and_enable_ok code off has_place bps p (mk_bp (ka u) (u_num u) 0 false TUser) c W Hal Hr Hc)
      as (p1 & E1 & S1 & W1 & M1).
    rewrite E1. cbn [fst snd].
    set (nb := bp_set (mk_bp (ka u) (u_num u) 0 false TUser) c true) in *.
    assert (Hal1: p_alive p1 = true) by (destruct S1; congruence).
    specialize (IH (ins_bp nb bps) p1 Gt NDt W1 Hal1). cbn zeta in IH.
    destruct IH as (W' & S' & (P1 & P2 & P3)).
    split; [exact W'|]. split; [eapply sbm_trans; eauto|].
    unfold EAX. split; [|split].
    + intros b Hb. destruct (P1 b Hb) as [[Hin Hnt]|(Hty' & u' & Hu' & Ha' & Hn')].
      * destruct Hin as [Hnb'|Hin].
        -- right. subst b. split; [reflexivity|]. exists u. split; [now left|]. split; reflexivity.
        -- apply in_delbp in Hin. destruct Hin as [Hin Hd]. left. split; [exact Hin|].
           cbn [map]. intros [E|E]; [|contradiction]. apply Hd. cbn [b_addr nb bp_set]. congruence.
      * right. split; [exact Hty'|]. exists u'. split; [now right|auto].
    + intros b Hb Hno. cbn [map] in Hno. apply P2.
      * right. apply in_delbp. split; [exact Hb|]. cbn [b_addr nb bp_set]. intro E. apply Hno. left. congruence.
      * intro E. apply Hno. now right.
    + intros u' [Hu'|Hu'].
      * subst u'. exists nb. split; [|split; [reflexivity|split; reflexivity]].
        apply P2; [now left|]. cbn [b_addr nb bp_set]. exact Hnin.
      * apply P3. exact Hu'.
Qed.

(* ---------- the registry side of disable_all_breakpoints ---------- *)
Lemma disable_all_from_fst : forall l dis p, fst (disable_all_from off l dis p) = dis_of l dis.
Proof.
  induction l as [|b t IH]; intros dis p; [reflexivity|].
  cbn [disable_all_from ModelLifecycleX.dis_of]. rewrite IH. f_equal.
  unfold ModelLifecycleX.persist. destruct (b_ty b); reflexivity.
Qed.

Lemma disable_all_reg : forall r p,
  fst (disable_all off r p) = mk_reg [] (dis_of (r_bps r) (r_dis r)) (r_next r).
Proof. intros. unfold disable_all. cbn [fst]. now rewrite disable_all_from_fst. Qed.

Lemma dis_of_put : forall b x e l d, (forall c, In c l -> b_addr c = b_addr b -> c = b) ->
  dis_of (put_bp (bp_set b x e) l) d = dis_of l d.
Proof.
  intros b x e. induction l as [|c t IH]; intros d H; [reflexivity|].
  unfold put_bp. cbn [map ModelLifecycleX.dis_of]. fold (put_bp (bp_set b x e) t).
  cbn [b_addr bp_set].
  destruct (b_addr c =? b_addr b) eqn:E.
  - apply N.eqb_eq in E. assert (c = b) by (apply H; [now left|exact E]). subst c.
    replace (persist (bp_set b x e)) with (persist b) by reflexivity.
    apply IH. intros c Hc. apply H. now right.
  - apply IH. intros c' Hc. apply H. now right.
Qed.

Lemma del_dis_notin : forall k d, ~ In k (map u_key d) -> del_dis k d = d.
Proof.
  intros k d H. unfold del_dis. apply filter_id. intros u Hu. apply negb_true_iff.
  destruct (address_eqb (u_key u) k) eqn:E; [|reflexivity]. exfalso. apply H.
  apply in_map_iff. exists u. split; [|exact Hu].
  destruct (u_key u), k; cbn in E; try discriminate; apply N.eqb_eq in E; now subst.
Qed.

Lemma dis_of_rev : forall l d,
  NoDup (map u_key (filter_map persist l) ++ map u_key d) ->
  dis_of l d = rev (filter_map persist l) ++ d.
Proof.
  induction l as [|b t IH]; intros d ND; [reflexivity|].
  cbn [ModelLifecycleX.dis_of filter_map] in *. destruct (persist b) as [u|] eqn:Ep.
  - cbn [map app] in ND. inversion ND as [|? ? Hnin ND']; subst.
    unfold add_uninit. rewrite del_dis_notin by (intro H; apply Hnin, in_or_app; now right).
    rewrite IH.
    + cbn [rev]. now rewrite <- app_assoc.
    + cbn [map].
      (* move u_key u into the middle *)
      assert (Hp: forall (A : Type) (x : A) l1 l2, NoDup (x :: l1 ++ l2) -> NoDup (l1 ++ x :: l2)).
      { intros A x l1 l2 Hn. apply NoDup_Add with (a := x) (l := l1 ++ l2); [apply Add_app|].
        inversion Hn; subst. split; assumption. }
      apply Hp. constructor; assumption.
  - apply IH. exact ND.
Qed.

(* ---------- a registry from which a restart re-arms everything ---------- *)
Record GoodReg (bps : list bp) : Prop := mk_GoodReg {
  gr_entry : exists b, In b bps /\ b_ty b = TEntry /\ b_addr b = entry;
  gr_entry_only : forall b, In b bps -> b_ty b = TEntry -> b_addr b = entry;
  gr_types : forall b, In b bps -> b_ty b = TUser \/ b_ty b = TLinker \/ b_ty b = TEntry;
  gr_user : forall b, In b bps -> b_ty b = TUser ->
            readable code (b_addr b) /\ b_addr b <> entry /\ b_addr b <> rbrk /\ off <= b_addr b
}.

(* the registry between two runs: nothing active, the entry-point breakpoint and the user's
   breakpoints pending, at distinct places *)
Record Dormant (r : reg) : Prop := mk_Dormant {
  do_bps : r_bps r = [];
  do_entry : In eu (r_dis r);
  do_others : forall u, In u (r_dis r) -> u = eu \/ GoodUX u;
  do_nodup : NoDup (map ka (r_dis r))
}.

Lemma persist_ka : forall b u, persist b = Some u -> off <= b_addr b -> ka u = b_addr b /\ u_key u = Glob (b_addr b - off).
Proof.
  intros b u H Ho. unfold ModelLifecycleX.persist in H. destruct (b_ty b); inversion H; subst; unfold ka; cbn; split; auto; lia.
Qed.

Lemma good_off : forall bps b u, GoodReg bps -> In b bps -> persist b = Some u -> off <= b_addr b.
Proof.
  intros bps b u G Hb Hp. unfold ModelLifecycleX.persist in Hp. destruct (b_ty b) eqn:Et; try discriminate.
  - rewrite (gr_entry_only _ G b Hb Et). exact H_off.
  - apply (gr_user _ G b Hb Et).
Qed.

Lemma fm_persist_in : forall l u, In u (filter_map persist l) <-> exists b, In b l /\ persist b = Some u.
Proof.
  induction l as [|c t IH]; intros u; cbn [filter_map].
  - split; [intros []|intros (b & [] & _)].
  - destruct (persist c) as [v|] eqn:E.
    + cbn [In]. rewrite IH. split.
      * intros [->|(b & Hb & Hp)]; [exists c; auto|exists b; auto].
      * intros (b & [->|Hb] & Hp); [left; congruence|right; eauto].
    + rewrite IH. split.
      * intros (b & Hb & Hp); exists b; auto.
      * intros (b & [->|Hb] & Hp); [congruence|eauto].
Qed.

Lemma nodup_fm_persist : forall l, NoDup (addrs l) -> (forall b u, In b l -> persist b = Some u -> off <= b_addr b) ->
  NoDup (map ka (filter_map persist l)) /\ NoDup (map u_key (filter_map persist l)).
Proof.
  induction l as [|c t IH]; intros ND Ho; cbn [filter_map]; [split; constructor|].
  cbn [addrs map] in ND. inversion ND as [|? ? Hnin NDt]; subst.
  assert (Ho': forall b u, In b t -> persist b = Some u -> off <= b_addr b) by (intros; eapply Ho; [right|]; eauto).
  destruct (IH NDt Ho') as [IH1 IH2].
  destruct (persist c) as [v|] eqn:E; [|auto].
  destruct (persist_ka c v E (Ho c v (or_introl eq_refl) E)) as [Hka Hkey].
  cbn [map]. split; constructor; auto.
  - intro Hin. apply in_map_iff in Hin. destruct Hin as (w & Ew & Hw). apply fm_persist_in in Hw.
    destruct Hw as (b & Hb & Hp). destruct (persist_ka b w Hp (Ho' b w Hb Hp)) as [Hkb _].
    apply Hnin. unfold addrs. apply in_map_iff. exists b. split; [congruence|exact Hb].
  - intro Hin. apply in_map_iff in Hin. destruct Hin as (w & Ew & Hw). apply fm_persist_in in Hw.
    destruct Hw as (b & Hb & Hp). destruct (persist_ka b w Hp (Ho' b w Hb Hp)) as [Hkb Hkeyb].
    apply Hnin. unfold addrs. apply in_map_iff. exists b. split; [|exact Hb].
    rewrite Hkey, Hkeyb in Ew. inversion Ew.
    pose proof (Ho' b w Hb Hp). pose proof (Ho c v (or_introl eq_refl) E). lia.
Qed.

(* what disable_all_breakpoints leaves of a good registry: dormant, same (number, address) pairs *)
Lemma dis_of_good : forall bps n, NoDup (addrs bps) -> GoodReg bps ->
  Dormant (mk_reg [] (dis_of bps []) n) /\
  (forall v, In v (pendv (mk_reg [] (dis_of bps []) n)) <-> In v (uviews bps)).
Proof.
  intros bps n ND G.
  assert (Ho: forall b u, In b bps -> persist b = Some u -> off <= b_addr b) by (intros; eapply good_off; eauto).
  destruct (nodup_fm_persist bps ND Ho) as [N1 N2].
  rewrite dis_of_rev by (cbn [map]; rewrite app_nil_r; exact N2). rewrite app_nil_r.
  assert (Hin: forall u, In u (rev (filter_map persist bps)) <-> exists b, In b bps /\ persist b = Some u).
  { intro u. rewrite <- in_rev. apply fm_persist_in. }
  split.
  - constructor; cbn [r_bps r_dis].
    + reflexivity.
    + apply Hin. destruct (gr_entry _ G) as (b & Hb & Ht & Ha). exists b. split; [exact Hb|].
      unfold ModelLifecycleX.persist, eu. rewrite Ht, Ha. reflexivity.
    + intros u Hu. apply Hin in Hu. destruct Hu as (b & Hb & Hp).
      destruct (gr_types _ G b Hb) as [Ht|[Ht|Ht]].
      * right. destruct (gr_user _ G b Hb Ht) as (Hr & He & Hk & Hf).
        destruct (persist_user_good b Ht Hr He Hk Hf) as (u' & Hp' & Gu & _). congruence.
      * unfold ModelLifecycleX.persist in Hp. rewrite Ht in Hp. discriminate.
      * left. unfold ModelLifecycleX.persist in Hp. rewrite Ht, (gr_entry_only _ G b Hb Ht) in Hp. inversion Hp. reflexivity.
    + rewrite map_rev. apply NoDup_rev. exact N1.
  - intros [vn va]. unfold ModelLifecycleX.pendv, uviews. cbn [r_dis]. rewrite !in_map_iff. split.
    + intros (u & Ev & Hu). apply filter_In in Hu. destruct Hu as [Hu Hty]. apply Hin in Hu.
      destruct Hu as (b & Hb & Hp). exists b.
      unfold ModelLifecycleX.persist in Hp. destruct (b_ty b) eqn:Et; try discriminate; inversion Hp; subst u; cbn in Hty; try discriminate.
      pose proof (gr_user _ G b Hb Et) as (_ & _ & _ & Hf).
      split.
      * inversion Ev; subst. cbn [u_num u_key key_addr]. f_equal. lia.
      * unfold user_bps. apply filter_In. split; [exact Hb|]. now rewrite Et.
    + intros (b & Ev & Hb). unfold user_bps in Hb. apply filter_In in Hb. destruct Hb as [Hb Hty].
      assert (Et: b_ty b = TUser) by (destruct (b_ty b); try discriminate; reflexivity).
      destruct (gr_user _ G b Hb Et) as (Hr & He & Hk & Hf).
      destruct (persist_user_good b Et Hr He Hk Hf) as (u & Hp & _ & Hka & Hnum & Hut).
      exists u. split.
      * inversion Ev; subst. fold (ka u). now rewrite Hka, Hnum.
      * apply filter_In. split; [apply Hin; eauto|]. now rewrite Hut.
Qed.

(* ---------- the continue loop in the steady state, with the registry it leaves at the exit ---------- *)
Definition ExitReg (s s' : bst) : Prop :=
  s_reg s' = mk_reg [] (dis_of (r_bps (s_reg s)) (r_dis (s_reg s))) (r_next (s_reg s)) /\
  s_detached s' = s_detached s /\ s_external s' = s_external s.

Lemma exit_by_step_reg : forall s b x e p, In b (r_bps (s_reg s)) -> NoDup (addrs (r_bps (s_reg s))) ->
  ExitReg s (exit_by_step off s (put_bp (bp_set b x e) (r_bps (s_reg s))) p).
Proof.
  intros s b x e p Hb ND. unfold ExitReg, exit_by_step. cbn [s_reg s_detached s_external].
  rewrite disable_all_reg. cbn [r_bps r_dis r_next]. split; [|auto]. f_equal.
  apply dis_of_put. intros c Hc E. eapply in_addrs_unique; eauto.
Qed.

Lemma cont_steadyX : no_stutter tr -> forall fuel i m s,
  let bps := r_bps (s_reg s) in
  s_proc s = proc_at m i -> (i < length tr)%nat -> WF bps m -> Steady bps i -> (fuel > length tr - i)%nat ->
  match next_hit_from (uaddrs bps) (skipn i tr) i with
  | Some j => exists m' b, cont_loop fuel s
                           = Ok (with_bps s bps (proc_at m' j), CStop (StopBp (pc_at j) (b_num b))) /\
                find_bp (pc_at j) bps = Some b /\ b_ty b = TUser /\ WF bps m' /\ (forall x, m' x = m x)
  | None => exists s' r, cont_loop fuel s = Ok (s', r) /\ exit_seen r /\ ExitedOK s' /\ ExitReg s s'
  end.
Proof.
  intros NS fuel. induction fuel as [|f IH]; intros i m s bps Hp Hi W St Hf; [lia|].
  cbn [BpMachine.cont_loop]. rewrite Hp. unfold fuel0.
  rewrite (run_cpu_spec code tr H_no_int3 H_mapped bps m (S (length tr)) i W Hi) by lia.
  destruct (next_hit_from (addrs bps) (skipn i tr) i) as [j|] eqn:En.
  - apply next_hit_trace in En; [|lia]. destruct En as (Hj & Ej & Hbefore).
    cbn [fst snd]. rewrite trap_pc, trap_rewind.
    fold bps. apply memb_iff in Ej. destruct (find_bp_in _ _ Ej) as [b Eb]. rewrite Eb.
    destruct (find_bp_some' _ _ _ Eb) as [Hb Hab].
    rewrite (steady_no_tmp _ _ _ St). cbn [andb].
    assert (Hnu: forall k, (i <= k < j)%nat -> memb (pc_at k) (uaddrs bps) = false).
    { intros k Hk. apply not_true_is_false. intro H. apply memb_iff in H. apply uaddrs_sub in H.
      apply memb_iff in H. rewrite Hbefore in H by lia. discriminate. }
    destruct (st_types _ _ _ St b Hb) as [Et|[Et|Et]]; rewrite Et.
    + assert (Hju: memb (pc_at j) (uaddrs bps) = true) by (apply memb_iff, uaddrs_in; exists b; auto).
      rewrite (next_hit_from_here tr (uaddrs bps) i j Hj Hnu Hju).
      exists m, b. split; [reflexivity|]. split; [exact Eb|]. split; [exact Et|]. split; [exact W|reflexivity].
    + assert (Hnj: memb (pc_at j) (uaddrs bps) = false).
      { apply not_true_is_false. intro H. apply memb_iff in H. apply uaddrs_in in H.
        destruct H as [c (Hc & Htc & Hac)].
        assert (c = b) by (eapply in_addrs_unique; eauto; [apply W|congruence]). subst c. congruence. }
      assert (Hnu': forall k, (i <= k < S j)%nat -> memb (pc_at k) (uaddrs bps) = false).
      { intros k Hk. destruct (Nat.eq_dec k j) as [Ekj|Ekj]; [rewrite Ekj; exact Hnj|apply Hnu; lia]. }
      assert (Hisj: (i <= S j <= length tr)%nat) by lia.
      rewrite (next_hit_from_skip tr (uaddrs bps) i (S j) Hisj Hnu').
      unfold step_over_breakpoint. cbn [p_pc BpMachineProofs.proc_at]. rewrite Eb.
      destruct (wf_bp _ _ _ W b Hb) as (Hen & _). rewrite Hen.
      destruct (Nat.eq_dec (S j) (length tr)) as [Elast|Elast].
      * destruct (step_over_core_exit code tr off has_place H_no_int3 H_mapped bps m j b W Elast Hb Hab) as (m1 & Ec).
        rewrite Ec. cbn [bind fst snd]. rewrite Elast, skipn_all. cbn [next_hit_from].
        eexists. eexists. split; [reflexivity|]. split; [right; reflexivity|].
        split; [apply exit_by_step_ok|]. apply exit_by_step_reg; [exact Hb|apply W].
      * assert (HSj: (S j < length tr)%nat) by lia.
        destruct (step_over_core_once code tr off has_place H_no_int3 H_mapped bps m j b NS W HSj Hb Hab) as (m' & Ec & W' & Hm').
        rewrite Ec. cbn [bind fst snd]. rewrite (put_bp_same _ _ (wf_nodup _ _ _ W) Hb).
        specialize (IH (S j) m' (with_bps s bps (proc_at m' (S j)))).
        cbn [with_bps with_rp s_reg s_proc r_bps] in IH.
        assert (Hle: (i <= S j)%nat) by lia. assert (Hfu: (f > length tr - S j)%nat) by lia.
        specialize (IH eq_refl HSj W' (steady_mono _ _ _ _ St Hle) Hfu).
        destruct (next_hit_from (uaddrs bps) (skipn (S j) tr) (S j)) as [j'|].
        -- destruct IH as (m'' & b' & E & F & T & W'' & Hm''). exists m'', b'.
           split; [exact E|]. split; [exact F|]. split; [exact T|]. split; [exact W''|].
           intro x. rewrite Hm''. apply Hm'.
        -- destruct IH as (s' & r & E & Hx & Hok & Hreg). exists s', r. split; [exact E|]. split; [exact Hx|].
           split; [exact Hok|]. exact Hreg.
    + exfalso. apply (st_entry _ _ _ St b Hb Et j); [lia|]. congruence.
  - cbn [fst snd].
    assert (Hil: (i <= length tr)%nat) by lia.
    assert (Hnone: forall k, (i <= k < length tr)%nat -> memb (pc_at k) (uaddrs bps) = false).
    { intros k Hk. apply not_true_is_false. intro H. apply memb_iff in H. apply uaddrs_sub in H.
      apply memb_iff in H. rewrite (next_hit_none_trace _ _ _ Hil En k Hk) in H. discriminate. }
    rewrite (next_hit_from_none tr (uaddrs bps) i Hil Hnone).
    eexists. eexists. split; [reflexivity|]. split; [left; reflexivity|]. split; [apply exit_state_ok|].
    unfold ExitReg. cbn [s_reg s_detached s_external]. rewrite disable_all_reg. auto.
Qed.

End Restart.
