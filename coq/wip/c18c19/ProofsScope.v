(* C19 - proofs about ModelScope.v *)
From Coq Require Import Lia Sorted.
From BS Require Import Model.Base.
From W Require Import ModelScope.
Local Open Scope N_scope.

(* ------------------------------------------------------------------ *)
(** * Sizes and fuel                                                    *)

Fixpoint sizes (l : list die) : nat :=
  match l with [] => O | x :: t => (size x + sizes t)%nat end.

Lemma size_eq : forall d, size d = S (sizes (d_children d)).
Proof.
  intros [o k n r l cs]. reflexivity.
Qed.

Lemma sizes_app : forall a b, sizes (a ++ b) = (sizes a + sizes b)%nat.
Proof. induction a as [|x t IH]; intros b; cbn [app sizes]; [reflexivity|]. rewrite IH. lia. Qed.

Definition size_q (q : list vnode) : nat := sizes (map v_die q).

Lemma size_q_app : forall a b, size_q (a ++ b) = (size_q a + size_q b)%nat.
Proof. intros a b. unfold size_q. rewrite map_app. apply sizes_app. Qed.

Lemma size_q_child_nodes : forall sc n, size_q (child_nodes sc n) = sizes (d_children (v_die n)).
Proof.
  intros sc n. unfold size_q, child_nodes. rewrite map_map. cbn [v_die]. rewrite map_id. reflexivity.
Qed.

Lemma in_child_nodes : forall sc n v,
  In v (child_nodes sc n) <->
  exists x, In x (d_children (v_die n)) /\
            v = mk_vnode (S (v_depth n)) (child_ctx sc (v_ctx n) (v_die n)) x.
Proof.
  intros sc n v. unfold child_nodes. rewrite in_map_iff. split.
  - intros [x [E I]]. exists x. split; [exact I|]. symmetry. exact E.
  - intros [x [I E]]. exists x. split; [symmetry; exact E|exact I].
Qed.

Lemma desc_inv : forall sc k c d v,
  desc sc k c d v ->
  (exists x, In x (d_children d) /\ v = mk_vnode (S k) (child_ctx sc c d) x) \/
  (exists x, In x (d_children d) /\ desc sc (S k) (child_ctx sc c d) x v).
Proof.
  intros sc k c d v H. inversion H; subst.
  - left. eexists. split; [eassumption|reflexivity].
  - right. eexists. split; eassumption.
Qed.

(* ------------------------------------------------------------------ *)
(** * The traversal visits exactly the proper descendants               *)

Lemma bfs_ok : forall sc fuel q,
  (size_q q <= fuel)%nat ->
  exists l, bfs sc fuel q = Ok l /\
    forall v, In v l <-> exists n, In n q /\ desc sc (v_depth n) (v_ctx n) (v_die n) v.
Proof.
  intros sc fuel. induction fuel as [|f IH]; intros q Hsz.
  - destruct q as [|n q].
    + exists []. split; [reflexivity|]. intros v. split; [intros []|intros [n [[] _]]].
    + exfalso. unfold size_q in Hsz. cbn [map sizes] in Hsz. rewrite size_eq in Hsz. lia.
  - destruct q as [|n q].
    + exists []. split; [reflexivity|]. intros v. split; [intros []|intros [n [[] _]]].
    + cbn [bfs].
      destruct (IH (q ++ child_nodes sc n)) as [r [Hr Hin]].
      { rewrite size_q_app, size_q_child_nodes. unfold size_q in Hsz |- *.
        cbn [map sizes] in Hsz. rewrite size_eq in Hsz. lia. }
      rewrite Hr. cbn [bind]. eexists. split; [reflexivity|].
      intros v. rewrite in_app_iff, Hin. split.
      * intros [Hc | [m [Hm Hd]]].
        -- apply in_child_nodes in Hc. destruct Hc as [x [Hx E]]. subst v.
           exists n. split; [left; reflexivity|]. apply desc_child. exact Hx.
        -- apply in_app_iff in Hm. destruct Hm as [Hm | Hm].
           ++ exists m. split; [right; exact Hm|exact Hd].
           ++ apply in_child_nodes in Hm. destruct Hm as [x [Hx E]]. subst m.
              cbn [v_depth v_ctx v_die] in Hd.
              exists n. split; [left; reflexivity|]. eapply desc_deep; eassumption.
      * intros [m [[E | Hm] Hd]].
        -- subst m. apply desc_inv in Hd. destruct Hd as [[x [Hx E]] | [x [Hx Hd]]].
           ++ left. apply in_child_nodes. exists x. split; assumption.
           ++ right. exists (mk_vnode (S (v_depth n)) (child_ctx sc (v_ctx n) (v_die n)) x).
              split; [|exact Hd]. apply in_app_iff. right. apply in_child_nodes.
              exists x. split; [exact Hx|reflexivity].
        -- right. exists m. split; [apply in_app_iff; left; exact Hm|exact Hd].
Qed.

(* the traversal never runs out of fuel and sees exactly the descendants of the function *)
Theorem visit_desc : forall sc root,
  exists l, visit sc root = Ok l /\ forall v, In v l <-> desc sc O None root v.
Proof.
  intros sc root. unfold visit.
  destruct (bfs_ok sc (size root) [mk_vnode O None root]) as [l [Hl Hin]].
  { unfold size_q. cbn [map sizes v_die]. lia. }
  exists l. split; [exact Hl|]. intros v. rewrite Hin. split.
  - intros [n [[E | []] Hd]]. subst n. exact Hd.
  - intros Hd. exists (mk_vnode O None root). split; [left; reflexivity|exact Hd].
Qed.

(* ------------------------------------------------------------------ *)
(** * `var locals`                                                      *)

(* what the code lists: variable DIEs below the function whose nearest enclosing
   lexical_block / subprogram covers pc *)
Theorem local_variables_desc : forall root pc,
  exists l, local_variables root pc = Ok l /\
    forall v, In v l <-> (desc is_scope_model O None root v /\
                          is_var (v_die v) = true /\ valid_at (v_ctx v) pc = true).
Proof.
  intros root pc. unfold local_variables.
  destruct (visit_desc is_scope_model root) as [l [Hl Hin]].
  rewrite Hl. cbn [bind]. eexists. split; [reflexivity|].
  intros v. rewrite filter_In, Hin. unfold listed. rewrite andb_true_iff. tauto.
Qed.

(* the specification is computed by spec_locals *)
Theorem spec_locals_in_scope : forall root pc,
  exists l, spec_locals root pc = Ok l /\ forall v, In v l <-> in_scope root pc v.
Proof.
  intros root pc. unfold spec_locals, in_scope.
  destruct (visit_desc is_scope_spec root) as [l [Hl Hin]].
  rewrite Hl. cbn [bind]. eexists. split; [reflexivity|].
  intros v. rewrite filter_In, Hin. unfold listed. rewrite andb_true_iff. tauto.
Qed.

(* no DW_TAG_inlined_subroutine anywhere in the function's subtree *)
Fixpoint no_inlined (d : die) : bool :=
  match d with
  | Die _ k _ _ _ cs => match k with KInlined => false | _ => true end && forallb no_inlined cs
  end.

Lemma no_inlined_inv : forall d, no_inlined d = true ->
  d_kind d <> KInlined /\ forallb no_inlined (d_children d) = true.
Proof.
  intros [o k n r l cs] H. cbn [no_inlined] in H. apply andb_true_iff in H. destruct H as [Hk Hc].
  cbn [d_kind d_children]. split; [|exact Hc]. intros E. subst k. discriminate.
Qed.

Lemma child_ctx_same : forall c d, d_kind d <> KInlined ->
  child_ctx is_scope_model c d = child_ctx is_scope_spec c d.
Proof. intros c d H. unfold child_ctx. destruct (d_kind d); try reflexivity. congruence. Qed.

Lemma bfs_same : forall fuel q,
  forallb (fun n => no_inlined (v_die n)) q = true ->
  bfs is_scope_model fuel q = bfs is_scope_spec fuel q.
Proof.
  induction fuel as [|f IH]; intros q Hq; destruct q as [|n q]; try reflexivity.
  cbn [bfs]. cbn [forallb] in Hq. apply andb_true_iff in Hq. destruct Hq as [Hn Hq].
  apply no_inlined_inv in Hn. destruct Hn as [Hk Hc].
  assert (E : child_nodes is_scope_model n = child_nodes is_scope_spec n).
  { unfold child_nodes. rewrite (child_ctx_same _ _ Hk). reflexivity. }
  rewrite E. rewrite IH; [reflexivity|].
  rewrite forallb_app, Hq. cbn [andb]. unfold child_nodes. rewrite forallb_forall.
  intros v Hv. apply in_map_iff in Hv. destruct Hv as [x [Ev Hx]]. subst v. cbn [v_die].
  rewrite forallb_forall in Hc. apply Hc. exact Hx.
Qed.

Lemma visit_same : forall root, no_inlined root = true ->
  visit is_scope_model root = visit is_scope_spec root.
Proof.
  intros root H. unfold visit. apply bfs_same. cbn [forallb v_die]. rewrite H. reflexivity.
Qed.

(* FULL STATEMENT (false, see scope_refuted):
     forall root pc, exists l, local_variables root pc = Ok l /\
       forall d, (exists v, In v l /\ v_die v = d) <-> (exists v, in_scope root pc v /\ v_die v = d).
   PROVED under [no_inlined root]: the listing is exactly the in-scope set. *)
Theorem scope_partial : forall root pc, no_inlined root = true ->
  exists l, local_variables root pc = Ok l /\ forall v, In v l <-> in_scope root pc v.
Proof.
  intros root pc H. destruct (spec_locals_in_scope root pc) as [l [Hl Hin]].
  exists l. split; [|exact Hin].
  unfold local_variables. rewrite (visit_same root H). exact Hl.
Qed.

Definition tree_inlined : die :=
  Die 1 KSubprogram (Some 100) [(4096, 4352)] LocNone
    [Die 2 KInlined None [(4112, 4128)] LocNone
       [Die 3 KVar (Some 7) [] (LocExpr 1) []]].

(* a variable that belongs to an inlined call is listed at every pc of the caller *)
Theorem scope_refuted : exists root pc l v,
  local_variables root pc = Ok l /\ In v l /\
  ~ exists v', in_scope root pc v' /\ v_die v' = v_die v.
Proof.
  exists tree_inlined, 4176.
  eexists. eexists. split; [vm_compute; reflexivity|]. split; [left; reflexivity|].
  intros [v' [Hs _]].
  destruct (spec_locals_in_scope tree_inlined 4176) as [l [Hl Hin]].
  vm_compute in Hl. inversion Hl; subst l. apply Hin in Hs. exact Hs.
Qed.

Example scope_partial_applies :
  no_inlined
    (Die 1 KSubprogram (Some 100) [(4096, 4352)] LocNone
       [Die 2 KParam (Some 5) [] (LocExpr 9) [];
        Die 3 KBlock None [(4112, 4200)] LocNone [Die 4 KVar (Some 7) [] (LocExpr 1) []];
        Die 5 KBlock None [(4200, 4300)] LocNone [Die 6 KVar (Some 8) [] (LocExpr 2) []]]) = true.
Proof. reflexivity. Qed.

(* What block ranges cannot express: two variables declared in the same DIE share its ranges,
   so one declared later in the same block is listed exactly when the earlier one is. *)
Lemma desc_step : forall sc k c d v x,
  desc sc k c d v -> In x (d_children (v_die v)) ->
  desc sc k c d (mk_vnode (S (v_depth v)) (child_ctx sc (v_ctx v) (v_die v)) x).
Proof.
  intros sc k c d v x H. induction H as [k c d x0 Hx0 | k c d x0 v Hx0 Hd IH]; intros Hx.
  - cbn [v_depth v_ctx v_die] in *. eapply desc_deep; [exact Hx0|]. apply desc_child. exact Hx.
  - eapply desc_deep; [exact Hx0|]. apply IH. exact Hx.
Qed.

Theorem same_block_same_listing : forall root pc l p x y,
  local_variables root pc = Ok l ->
  (p = mk_vnode O None root \/ desc is_scope_model O None root p) ->
  In x (d_children (v_die p)) -> In y (d_children (v_die p)) ->
  is_var x = true -> is_var y = true ->
  let c := child_ctx is_scope_model (v_ctx p) (v_die p) in
  (In (mk_vnode (S (v_depth p)) c x) l <-> In (mk_vnode (S (v_depth p)) c y) l).
Proof.
  intros root pc l p x y Hl Hp Hx Hy Vx Vy c.
  destruct (local_variables_desc root pc) as [l' [Hl' Hin]].
  rewrite Hl in Hl'. inversion Hl'; subst l'. rewrite !Hin. cbn [v_die v_ctx].
  assert (D : forall z, In z (d_children (v_die p)) ->
                        desc is_scope_model O None root (mk_vnode (S (v_depth p)) c z)).
  { intros z Hz. destruct Hp as [E | Hd].
    - subst p. cbn [v_die v_depth v_ctx] in *. apply desc_child. exact Hz.
    - apply desc_step; assumption. }
  split; intros [_ [_ Hv]]; (split; [apply D; assumption|split; assumption]).
Qed.

(* ------------------------------------------------------------------ *)
(** * `arg all`                                                         *)

Theorem params_exact : forall root p,
  In p (parameters root) <-> In p (d_children root) /\ d_kind p = KParam.
Proof.
  intros root p. unfold parameters. rewrite filter_In. unfold is_param.
  destruct (d_kind p); split; intros [H1 H2]; (split; [exact H1|]); try reflexivity; discriminate.
Qed.

(* ------------------------------------------------------------------ *)
(** * The breadth-first order is non-decreasing in depth                *)

Definition dle (a b : vnode) : Prop := (v_depth a <= v_depth b)%nat.
Definition mono (l : list vnode) : Prop := StronglySorted dle l.

Lemma SS_app_intro : forall {A} (R : A -> A -> Prop) a b,
  StronglySorted R a -> StronglySorted R b -> (forall x y, In x a -> In y b -> R x y) ->
  StronglySorted R (a ++ b).
Proof.
  intros A R a. induction a as [|x t IH]; intros b Sa Sb H; [exact Sb|].
  cbn [app]. inversion Sa; subst. constructor.
  - apply IH; [assumption|assumption|]. intros u v Iu Iv. apply H; [right; exact Iu|exact Iv].
  - apply Forall_forall. intros y Iy. apply in_app_iff in Iy. destruct Iy as [Iy | Iy].
    + rewrite Forall_forall in H3. apply H3. exact Iy.
    + apply H; [left; reflexivity|exact Iy].
Qed.

Lemma SS_app_inv : forall {A} (R : A -> A -> Prop) l1 l2,
  StronglySorted R (l1 ++ l2) -> forall x y, In x l1 -> In y l2 -> R x y.
Proof.
  intros A R l1. induction l1 as [|a t IH]; intros l2 S x y Hx Hy; [destruct Hx|].
  cbn [app] in S. inversion S; subst. destruct Hx as [E | Hx].
  - subst a. rewrite Forall_forall in H2. apply H2. apply in_app_iff. right. exact Hy.
  - eapply IH; eassumption.
Qed.

Lemma SS_filter : forall {A} (R : A -> A -> Prop) (p : A -> bool) l,
  StronglySorted R l -> StronglySorted R (filter p l).
Proof.
  intros A R p l S. induction S as [|x t S IH Hall]; [constructor|].
  cbn [filter]. destruct (p x); [|exact IH]. constructor; [exact IH|].
  rewrite Forall_forall in *. intros y Iy. apply filter_In in Iy. apply Hall. tauto.
Qed.

Lemma SS_const : forall (l : list vnode) k, (forall x, In x l -> v_depth x = k) -> mono l.
Proof.
  induction l as [|x t IH]; intros k H; [constructor|]. constructor.
  - apply (IH k). intros y Iy. apply H. right. exact Iy.
  - apply Forall_forall. intros y Iy. unfold dle. rewrite (H x), (H y); [lia|right; exact Iy|left; reflexivity].
Qed.

Lemma child_nodes_depth : forall sc n x, In x (child_nodes sc n) -> v_depth x = S (v_depth n).
Proof. intros sc n x H. apply in_child_nodes in H. destruct H as [y [_ E]]. subst x. reflexivity. Qed.

(* queue invariant: sorted by depth, all depths within one level of each other *)
Definition window (q : list vnode) : Prop :=
  forall x y, In x q -> In y q -> (v_depth y <= S (v_depth x))%nat.

Lemma bfs_mono : forall sc fuel q out,
  mono q -> window q -> bfs sc fuel q = Ok out ->
  mono out /\ forall n q', q = n :: q' -> forall y, In y out -> (S (v_depth n) <= v_depth y)%nat.
Proof.
  intros sc fuel. induction fuel as [|f IH]; intros q out Mq Wq H.
  - destruct q as [|n q]; [|discriminate]. cbn in H. inversion H; subst.
    split; [constructor|]. intros n q' E. discriminate.
  - destruct q as [|n q].
    + cbn in H. inversion H; subst. split; [constructor|]. intros n q' E. discriminate.
    + cbn [bfs] in H. destruct (bfs sc f (q ++ child_nodes sc n)) as [r| | |] eqn:R; try discriminate.
      cbn [bind] in H. inversion H; subst out. clear H.
      inversion Mq as [|? ? Mq' Hn]; subst. rewrite Forall_forall in Hn.
      assert (Mq2 : mono (q ++ child_nodes sc n)).
      { apply SS_app_intro; [exact Mq'| |].
        - apply (SS_const _ (S (v_depth n))). intros x Ix. eapply child_nodes_depth; exact Ix.
        - intros x y Ix Iy. unfold dle. rewrite (child_nodes_depth _ _ _ Iy).
          apply (Wq n x); [left; reflexivity|right; exact Ix]. }
      assert (Wq2 : window (q ++ child_nodes sc n)).
      { intros x y Ix Iy. apply in_app_iff in Ix. apply in_app_iff in Iy.
        assert (Ux : (v_depth n <= v_depth x)%nat).
        { destruct Ix as [Ix | Ix]; [apply Hn; exact Ix|rewrite (child_nodes_depth _ _ _ Ix); lia]. }
        assert (Uy : (v_depth y <= S (v_depth n))%nat).
        { destruct Iy as [Iy | Iy]; [apply (Wq n y); [left; reflexivity|right; exact Iy]
                                    |rewrite (child_nodes_depth _ _ _ Iy); lia]. }
        lia. }
      destruct (IH _ _ Mq2 Wq2 R) as [Mr Lr].
      assert (Low : forall y, In y r -> (S (v_depth n) <= v_depth y)%nat).
      { intros y Iy. destruct (q ++ child_nodes sc n) as [|m rest] eqn:E.
        - destruct f; cbn in R; inversion R; subst r; destruct Iy.
        - pose proof (Lr m rest eq_refl y Iy) as L.
          assert (Im : In m (q ++ child_nodes sc n)) by (rewrite E; left; reflexivity).
          apply in_app_iff in Im. destruct Im as [Im | Im];
            [specialize (Hn m Im); unfold dle in Hn; lia|rewrite (child_nodes_depth _ _ _ Im) in L; lia]. }
      split.
      * apply SS_app_intro; [|exact Mr|].
        -- apply (SS_const _ (S (v_depth n))). intros x Ix. eapply child_nodes_depth; exact Ix.
        -- intros x y Ix Iy. unfold dle. rewrite (child_nodes_depth _ _ _ Ix). apply Low. exact Iy.
      * intros n0 q0 E y Iy. inversion E; subst n0 q0. apply in_app_iff in Iy. destruct Iy as [Iy | Iy].
        -- rewrite (child_nodes_depth _ _ _ Iy). lia.
        -- apply Low. exact Iy.
Qed.

(* the callback sees the DIEs in order of non-decreasing depth *)
Theorem visit_mono : forall sc root l, visit sc root = Ok l -> mono l.
Proof.
  intros sc root l H. unfold visit in H.
  assert (M0 : mono [mk_vnode O None root]).
  { apply (SS_const _ O). intros x Ix. cbn [In] in Ix. destruct Ix as [E | []]. subst x. reflexivity. }
  assert (W0 : window [mk_vnode O None root]).
  { intros x y Ix Iy. cbn [In] in Ix, Iy. destruct Ix as [Ex | []]. destruct Iy as [Ey | []]. subst. lia. }
  destruct (bfs_mono sc _ _ _ M0 W0 H) as [M _]. exact M.
Qed.

(* ------------------------------------------------------------------ *)
(** * `var NAME` and shadowing                                          *)

Lemma last_opt_some : forall {A} (l : list A) x, last_opt l = Some x -> exists l', l = l' ++ [x].
Proof.
  intros A l x H. unfold last_opt in H. destruct (rev l) as [|y t] eqn:E; [discriminate|].
  inversion H; subst y. exists (rev t). rewrite <- (rev_involutive l), E. reflexivity.
Qed.

Lemma last_opt_none : forall {A} (l : list A), last_opt l = None -> l = [].
Proof.
  intros A l H. unfold last_opt in H. destruct (rev l) as [|y t] eqn:E; [|discriminate].
  rewrite <- (rev_involutive l), E. reflexivity.
Qed.

(* the last element of a depth-sorted list is a deepest one *)
Lemma last_opt_deepest : forall l v, mono l -> last_opt l = Some v ->
  In v l /\ forall v', In v' l -> (v_depth v' <= v_depth v)%nat.
Proof.
  intros l v M H. apply last_opt_some in H. destruct H as [l' E]. subst l. split.
  - apply in_app_iff. right. left. reflexivity.
  - intros v' I. apply in_app_iff in I. destruct I as [I | [E | []]]; [|subst; lia].
    apply (SS_app_inv dle l' [v] M v' v I). left. reflexivity.
Qed.

(* the variable returned is a live binding of that name; nothing is returned only if there
   is none *)
Theorem local_variable_sound : forall root pc name,
  exists r, local_variable root pc name = Ok r /\
    match r with
    | Some v => desc is_scope_model O None root v /\ candidate pc name v = true
    | None => forall v, desc is_scope_model O None root v -> candidate pc name v = false
    end.
Proof.
  intros root pc name. unfold local_variable.
  destruct (visit_desc is_scope_model root) as [l [Hl Hin]]. rewrite Hl. cbn [bind].
  eexists. split; [reflexivity|].
  destruct (last_opt (filter (candidate pc name) l)) as [v|] eqn:F.
  - apply last_opt_some in F. destruct F as [l' E].
    assert (I : In v (filter (candidate pc name) l)) by (rewrite E; apply in_app_iff; right; left; reflexivity).
    apply filter_In in I. destruct I as [Iv Cv]. split; [apply Hin; exact Iv|exact Cv].
  - apply last_opt_none in F. intros v Hd. apply Hin in Hd.
    destruct (candidate pc name v) eqn:C; [|reflexivity].
    assert (I : In v (filter (candidate pc name) l)) by (apply filter_In; split; assumption).
    rewrite F in I. destruct I.
Qed.

(* SHADOWING: `var NAME` returns an innermost live binding of the name (no live binding of
   that name lies deeper), and nothing only when no binding of the name is in scope.
   FULL STATEMENT = this without [no_inlined root] (false only through scope_refuted: an
   inlined subroutine's variable is attributed to the caller's block). *)
Theorem shadow_partial : forall root pc name, no_inlined root = true ->
  exists r, local_variable root pc name = Ok r /\
    match r with
    | Some v => innermost root pc name v
    | None => forall v, in_scope root pc v -> name_is (v_die v) name = false
    end.
Proof.
  intros root pc name Hni. unfold local_variable.
  destruct (visit_desc is_scope_spec root) as [l [Hl Hin]].
  rewrite (visit_same root Hni), Hl. cbn [bind]. eexists. split; [reflexivity|].
  assert (M : mono (filter (candidate pc name) l)).
  { apply SS_filter. eapply visit_mono. exact Hl. }
  assert (Cand : forall v, In v (filter (candidate pc name) l) <->
                           in_scope root pc v /\ name_is (v_die v) name = true).
  { intros v. rewrite filter_In, Hin. unfold in_scope, candidate. rewrite !andb_true_iff. tauto. }
  destruct (last_opt (filter (candidate pc name) l)) as [v|] eqn:F.
  - destruct (last_opt_deepest _ _ M F) as [Iv Max]. apply Cand in Iv. destruct Iv as [Sv Nv].
    split; [exact Sv|]. split; [exact Nv|]. intros v' Sv' Nv'. apply Max. apply Cand. tauto.
  - apply last_opt_none in F. intros v Sv. destruct (name_is (v_die v) name) eqn:Nv; [|reflexivity].
    assert (I : In v (filter (candidate pc name) l)) by (apply Cand; tauto). rewrite F in I. destruct I.
Qed.

(* the computable specification (deepest live binding, the later one among equally deep
   ones) is what the code returns *)
Lemma deepest_sorted : forall l best, mono l ->
  (forall b y, best = Some b -> In y l -> (v_depth b <= v_depth y)%nat) ->
  deepest best l = match rev l with [] => best | x :: _ => Some x end.
Proof.
  induction l as [|v t IH]; intros best M Hb; [reflexivity|].
  cbn [deepest]. inversion M; subst. rewrite Forall_forall in H2.
  assert (E : match best with
              | Some b => if Nat.leb (v_depth b) (v_depth v) then Some v else best
              | None => Some v end = Some v).
  { destruct best as [b|]; [|reflexivity].
    assert (L : (v_depth b <= v_depth v)%nat) by (apply (Hb b v eq_refl); left; reflexivity).
    apply Nat.leb_le in L. rewrite L. reflexivity. }
  rewrite E. rewrite IH; [|assumption|].
  - cbn [rev]. destruct (rev t) as [|x r]; reflexivity.
  - intros b y Eb Iy. inversion Eb; subst b. apply H2. exact Iy.
Qed.

Theorem lookup_exact_partial : forall root pc name, no_inlined root = true ->
  local_variable root pc name = spec_lookup root pc name.
Proof.
  intros root pc name Hni. unfold local_variable, spec_lookup. rewrite (visit_same root Hni).
  destruct (visit is_scope_spec root) as [l| | |] eqn:Hl; try reflexivity. cbn [bind]. f_equal.
  rewrite deepest_sorted; [reflexivity| |intros b y E; discriminate].
  apply SS_filter. eapply visit_mono. exact Hl.
Qed.

(* fn f() { let x = ..; { let x = ..; <pc> } }  (rustc opens a lexical block at every `let`) *)
Definition tree_shadow : die :=
  Die 1 KSubprogram (Some 100) [(4096, 4352)] LocNone
    [Die 2 KBlock None [(4112, 4336)] LocNone
       [Die 3 KVar (Some 7) [] (LocExpr 1) [];
        Die 4 KBlock None [(4128, 4320)] LocNone
          [Die 5 KVar (Some 7) [] (LocExpr 2) []]]].

(* with both bindings live the inner one (DIE 5) is returned; only the outer one is live at
   4120 and is returned there *)
Example shadow_applies :
  no_inlined tree_shadow = true /\
  match local_variable tree_shadow 4144 7 with Ok (Some v) => d_off (v_die v) | _ => 0 end = 5 /\
  match local_variable tree_shadow 4120 7 with Ok (Some v) => d_off (v_die v) | _ => 0 end = 3.
Proof. vm_compute. repeat split; reflexivity. Qed.

(* _old (before b2e635c, first match of the breadth-first walk): shadow_refuted :
     on tree_shadow, pc 4144, name 7 the model answered DIE 3 (depth 2, the OUTER x) and
     ~ innermost held for it; shadow_partial needed `single_candidate root pc name = true`.
   Confirmed on the real debugger (`var x` printed 1 instead of 2), repaired. *)

(* ------------------------------------------------------------------ *)
(** * Location lists                                                    *)

(* every entry could be decoded (an undecodable entry is outside the specification) *)
Definition no_bad (l : list lentry) : bool :=
  forallb (fun e => match e with LEntry _ _ _ => true | LBad => false end) l.

(* the entry selected is the one whose half-open range contains pc *)
Theorem loclist_exact : forall pc l, no_bad l = true ->
  loclist_select pc l = spec_loclist_select pc l.
Proof.
  intros pc l H. unfold loclist_select, spec_loclist_select.
  assert (E : find (lentry_match pc) l = find (lentry_in pc) l).
  { induction l as [|e t IH]; [reflexivity|]. cbn [no_bad forallb] in H.
    apply andb_true_iff in H. destruct H as [He Ht]. cbn [find].
    destruct e as [b en d|]; [|discriminate]. cbn [lentry_match lentry_in].
    destruct ((b <=? pc) && (pc <? en)); [reflexivity|]. apply IH. exact Ht. }
  rewrite E. destruct (find (lentry_in pc) l) as [[b en d|]|]; reflexivity.
Qed.

Theorem loc_select_exact : forall pc loc,
  match loc with LocList l => no_bad l = true | _ => True end ->
  loc_select pc loc = spec_loc_select pc loc.
Proof. intros pc [| e | l |] H; try reflexivity. cbn [loc_select spec_loc_select]. apply loclist_exact. exact H. Qed.

(* x lives in register 1 over [16,32) and in register 2 over [32,48): at pc = 32 the second
   entry is chosen; one past the last entry there is no location *)
Example loclist_applies :
  no_bad [LEntry 16 32 1; LEntry 32 48 2] = true /\
  loclist_select 32 [LEntry 16 32 1; LEntry 32 48 2] = Some 2 /\
  loclist_select 32 [LEntry 16 32 1] = None.
Proof. repeat split; reflexivity. Qed.

(* an undecodable entry before the matching one hides it (`Err(_) => true` ... `.ok()?`) *)
Example loclist_bad_entry : loclist_select 40 [LBad; LEntry 32 48 2] = None.
Proof. reflexivity. Qed.

(* _old (before 723bd36, `range.end >= pc`): loclist_refuted :
     loclist_select 32 [LEntry 16 32 1; LEntry 32 48 2] = Some 1 (stale register), spec Some 2;
   loclist_past_end_refuted : loclist_select 32 [LEntry 16 32 1] = Some 1, spec None;
   loclist_partial needed `no_end_at pc l = true`.  Confirmed on the real debugger (3 of 9
   sampled stops at -O1), repaired. *)
