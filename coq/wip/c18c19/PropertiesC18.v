(* C18 - Code is found wherever it is loaded.  Statements only (source at /repo HEAD 9f6d836). *)
From BS Require Import Model.Base.
From W Require Import ModelReloc ProofsReloc.
Open Scope N_scope.

(* HEADLINE.  A link-time address of ANY loaded image - PIE executable, non-PIE (ET_EXEC)
   executable, shared library loaded at start or by dlopen - is relocated to exactly the
   address it has in the process (bias = lowest mapping start - link base); the only error is
   MappingOffsetNotFound for a file that is not mapped.  [image_ok] is the domain of the
   specification: the image is mapped at or above its link base and g is one of its addresses. *)
Theorem C18_relocate_exact : forall rg maps rg' es im g,
  update_mappings rg false maps = Ok (rg', es) -> In (im_file im) (reg_files rg) ->
  link_base_of (reg_link rg) (im_file im) = im_min_vaddr im ->
  image_ok maps im g = true ->
  relocate_to_segment rg' g (im_file im) =
  match spec_runtime_addr maps im g with
  | Some a => if a <? USIZE_LIMIT then Ok a else Panic 10
  | None => Err E_MAPPING_OFFSET_NOT_FOUND
  end.
Proof. exact relocate_exact. Qed.

Theorem C18_relocate_sound : forall rg maps rg' es im g a,
  update_mappings rg false maps = Ok (rg', es) -> In (im_file im) (reg_files rg) ->
  link_base_of (reg_link rg) (im_file im) = im_min_vaddr im ->
  image_ok maps im g = true ->
  relocate_to_segment rg' g (im_file im) = Ok a ->
  spec_runtime_addr maps im g = Some a.
Proof. exact relocate_sound. Qed.

(* the offset recorded by update_mappings *)
Theorem C18_update_mappings_offset : forall rg maps rg' es f,
  update_mappings rg false maps = Ok (rg', es) -> In f (reg_files rg) ->
  mapping_get (reg_mappings rg') f = bias_of (reg_link rg) maps f.
Proof. exact update_mappings_offset. Qed.

(* find_range never panics / runs out of fuel on a registry sorted by `from` *)
Theorem C18_find_range_total : forall l a, sorted_from l -> exists o, find_range l a = Ok o.
Proof. exact find_range_total. Qed.

(* the object an address belongs to: model = specification (the unique object whose
   half-open image contains it) on every registry with sorted, disjoint ranges *)
Theorem C18_find_range_exact : forall l a, wf_ranges l = true ->
  find_range l a = Ok (spec_find_range l a).
Proof. exact find_range_exact. Qed.

Theorem C18_spec_find_range_unique : forall l a r, wf_ranges l = true ->
  In r l -> r_from r <= a < r_to r -> spec_find_range l a = Some r.
Proof. exact spec_find_range_unique. Qed.

(* Global -> Relocated -> Global is the identity when the relocated address lies in the
   object it was relocated for (FULL statement without the side condition is false: the
   address then belongs to another object or to none) *)
Theorem C18_roundtrip_partial : forall rg g file a,
  relocate_to_segment rg g file = Ok a -> lands_in_file rg file a = true ->
  into_global rg a = Ok g.
Proof. exact roundtrip_partial. Qed.

(* `sharedlib info` *)
Theorem C18_dump_exact : forall rg maps rg' es,
  update_mappings rg false maps = Ok (rg', es) ->
  map fst (dump rg') = reg_files rg /\
  forall f, In f (reg_files rg) ->
    (range_of_file (reg_ranges rg') f <> None <-> is_mapped maps f = true).
Proof. exact dump_exact. Qed.

Theorem C18_reload_files : forall parse_ok rg libs f,
  In f (reg_files (reload parse_ok rg libs)) <->
  (In f (reg_files rg) /\ (In f libs \/ f = reg_main rg)) \/ (In f libs /\ parse_ok f = true).
Proof. exact reload_files. Qed.

(* deferred breakpoints, every sequence of entry-point / r_brk stops: installed at the first
   event that makes them installable, removed from the list there, never again *)
Theorem C18_deferred : forall rs idx ds ds' lg,
  run_rounds idx rs ds = (ds', lg) ->
  (forall d, In d ds' <-> In d ds /\ first_ok idx rs d = None) /\
  (forall i d a, In (i, d, a) lg <-> In d ds /\ first_ok idx rs d = Some (i, a)).
Proof. exact deferred. Qed.

Theorem C18_deferred_once : forall rs idx ds ds' lg,
  NoDup ds -> run_rounds idx rs ds = (ds', lg) -> NoDup (map req_of lg).
Proof. exact deferred_once. Qed.

Theorem C18_run_events_rounds : forall resolve poke_ok parse_ok rg evs ds r,
  run_events resolve poke_ok parse_ok rg evs ds = Ok r ->
  exists rs, rounds_of resolve poke_ok parse_ok rg evs = Ok rs /\ r = run_rounds 0 rs ds /\
             map fst rs = map (fun e => fst (fst e)) evs.
Proof. exact run_events_rounds. Qed.

(* non-vacuity: a PIE main program and a library, an address inside the library; a non-PIE
   executable; a start-up library with a deferred request *)
Example C18_example :
  let rg := mk_registry 0 [0; 1] [mk_rrange 4096 8192 0; mk_rrange 8192 12288 1] [(0, 4096); (1, 8192)] [] in
  relocate_to_segment rg 16 1 = Ok 8208 /\ lands_in_file rg 1 8208 = true /\ into_global rg 8208 = Ok 16.
Proof. vm_compute. repeat split; reflexivity. Qed.

Example C18_example_nonpie :
  image_ok nonpie_maps (mk_image 0 4194304) 4198710 = true /\
  exists rg' es,
    update_mappings (mk_registry 0 [0] [] [] [(0, 4194304)]) false nonpie_maps = Ok (rg', es) /\
    relocate_to_segment rg' 4198710 0 = Ok 4198710 /\
    spec_runtime_addr nonpie_maps (mk_image 0 4194304) 4198710 = Some 4198710.
Proof. exact relocate_nonpie_applies. Qed.

Example C18_example_deferred_startup :
  run_events startup_resolve (fun _ => true) (fun _ => true) startup_rg
             [(EvEntry, [1], startup_maps)] [5] = Ok ([], [(0%nat, 5, [140737351860544])]).
Proof. exact deferred_startup_ok. Qed.

Example C18_example_cases :
  reloc_check (mk_reloc_case [mk_rrange 4096 8192 0; mk_rrange 8192 12288 1] [(0, 4096); (1, 8192)] 8192 (Some 8192)) = 0 /\
  reloc_check (mk_reloc_case [mk_rrange 4096 8192 0] [(0, 4096)] 8192 None) = 0 /\
  reloc_check (mk_reloc_case [mk_rrange 4096 8192 0] [(0, 4096)] 8192 (Some 4096)) = 2 /\
  maps_check (mk_maps_case 0 [0; 1] [mk_pmap (Some 0) 4096 4096; mk_pmap None 8192 4096] [(0, Some (4096, 8192)); (1, None)]) = 0 /\
  relocate_check (mk_relocate_case (mk_image 0 4194304) nonpie_maps 4198710 (Some 4198710)) = 0 /\
  relocate_check (mk_relocate_case (mk_image 0 4194304) nonpie_maps 4198710 (Some 8393014)) = 2.
Proof. vm_compute. repeat split; reflexivity. Qed.

Print Assumptions C18_relocate_exact.
Print Assumptions C18_relocate_sound.
Print Assumptions C18_find_range_exact.
Print Assumptions C18_find_range_total.
Print Assumptions C18_roundtrip_partial.
Print Assumptions C18_dump_exact.
Print Assumptions C18_reload_files.
Print Assumptions C18_deferred.
Print Assumptions C18_deferred_once.
Print Assumptions C18_run_events_rounds.
