(* C18 - proofs about ModelReloc.v *)
From Coq Require Import Lia Sorted.
From BS Require Import Model.Base.
From W Require Import ModelReloc.
Local Open Scope N_scope.

(* ------------------------------------------------------------------ *)
(** * Binary search                                                     *)

Lemma div2_bounds : forall n, (2 <= n -> 1 <= Nat.div2 n /\ 2 * Nat.div2 n <= n)%nat.
Proof.
  intros n H. pose proof (Nat.div2_odd n) as E. destruct (Nat.odd n); cbn [Nat.b2n] in E; lia.
Qed.

Section BS.
Context {T : Type} (f : T -> ord).

(* the list is a prefix of elements that do not compare Greater followed by elements that do *)
Lemma bs_loop_inv : forall (l1 l2 : list T),
  Forall (fun x => f x <> OGreater) l1 -> Forall (fun x => f x = OGreater) l2 ->
  forall fuel base size,
  (size <= fuel + 1 -> 1 <= size -> base + size <= length (l1 ++ l2) ->
   (base = 0 \/ base < length l1) -> length l1 <= base + size ->
   exists b, bs_loop f fuel (l1 ++ l2) base size = Ok b /\
             (b = 0 \/ b < length l1) /\ length l1 <= b + 1 /\ b < length (l1 ++ l2))%nat.
Proof.
  intros l1 l2 H1 H2. induction fuel as [|fuel IH]; intros base size Hf Hs Hn Hb Hk.
  - assert (size = 1)%nat by lia. subst size. cbn [bs_loop Nat.leb].
    exists base. repeat split; try assumption; lia.
  - cbn [bs_loop]. destruct (Nat.leb size 1) eqn:L.
    + apply Nat.leb_le in L. assert (size = 1)%nat by lia. subst size.
      exists base. repeat split; try assumption; lia.
    + apply Nat.leb_gt in L. destruct (div2_bounds size) as [Hh1 Hh2]; [lia|].
      set (half := Nat.div2 size) in *. set (mid := (base + half)%nat).
      assert (Hmid : (mid < length (l1 ++ l2))%nat) by (unfold mid; lia).
      destruct (nth_error (l1 ++ l2) mid) as [x|] eqn:Nx;
        [|apply nth_error_None in Nx; lia].
      destruct (Nat.lt_ge_cases mid (length l1)) as [Hlt | Hge].
      * rewrite nth_error_app1 in Nx by exact Hlt. apply nth_error_In in Nx.
        rewrite Forall_forall in H1. specialize (H1 x Nx).
        assert (E : match f x with OGreater => base | _ => mid end = mid)
          by (destruct (f x); congruence).
        rewrite E. apply IH; unfold mid in *; lia.
      * rewrite nth_error_app2 in Nx by exact Hge. apply nth_error_In in Nx.
        rewrite Forall_forall in H2. rewrite (H2 x Nx).
        apply IH; unfold mid in *; lia.
Qed.

Theorem binary_search_split : forall (l1 l2 : list T),
  Forall (fun x => f x <> OGreater) l1 -> Forall (fun x => f x = OGreater) l2 ->
  binary_search_by f (l1 ++ l2) =
  Ok (match rev l1 with
      | [] => None
      | x :: _ => match f x with OEqual => Some (length l1 - 1)%nat | _ => None end
      end).
Proof.
  intros l1 l2 H1 H2. unfold binary_search_by.
  destruct (l1 ++ l2) as [|y t] eqn:El.
  - apply app_eq_nil in El. destruct El; subst. reflexivity.
  - rewrite <- El.
    destruct (bs_loop_inv l1 l2 H1 H2 (length (l1 ++ l2)) 0%nat (length (l1 ++ l2)))
      as [b [Hb [Hb0 [Hk Hn]]]]; try lia.
    { rewrite El. cbn [length]. lia. }
    { rewrite app_length. lia. }
    rewrite Hb. cbn [bind].
    destruct l1 as [|a l1'] using rev_ind.
    + cbn [rev]. cbn [length] in *. assert (b = 0)%nat by lia. subst b.
      cbn [app] in *. destruct l2 as [|z l2']; [discriminate|]. cbn [nth_error].
      inversion H2; subst. rewrite H3. reflexivity.
    + clear IHl1'. rewrite rev_app_distr. cbn [rev app]. rewrite app_length in *. cbn [length] in *.
      assert (b = length l1')%nat by lia. subst b.
      rewrite <- app_assoc. rewrite nth_error_app2 by lia. rewrite Nat.sub_diag. cbn [app nth_error].
      replace (length l1' + 1 - 1)%nat with (length l1') by lia. destruct (f a); reflexivity.
Qed.
End BS.

(* ------------------------------------------------------------------ *)
(** * find_range                                                        *)

Definition from_le (r1 r2 : rrange) : Prop := r_from r1 <= r_from r2.
Definition sorted_from (l : list rrange) : Prop := StronglySorted from_le l.

Definition lt_disj (r1 r2 : rrange) : Prop := r_to r1 <= r_from r2.
Definition wf_prop (l : list rrange) : Prop :=
  StronglySorted lt_disj l /\ Forall (fun r => r_from r < r_to r) l.

Lemma wf_ranges_head : forall t r, wf_ranges (r :: t) = true ->
  Forall (fun x => r_to r <= r_from x) t.
Proof.
  induction t as [|r2 t IH]; intros r H; [constructor|].
  cbn [wf_ranges] in H. fold (wf_ranges (r2 :: t)) in H.
  apply andb_true_iff in H. destruct H as [H Ht]. apply andb_true_iff in H. destruct H as [Hr H12].
  apply N.leb_le in H12.
  pose proof (IH r2 Ht) as Hall.
  assert (Hr2 : r_from r2 < r_to r2).
  { cbn [wf_ranges] in Ht. apply andb_true_iff in Ht. destruct Ht as [Ht _].
    apply andb_true_iff in Ht. destruct Ht as [Ht _]. apply N.ltb_lt in Ht. exact Ht. }
  constructor; [exact H12|]. rewrite Forall_forall in *. intros x Hx. specialize (Hall x Hx). lia.
Qed.

Lemma wf_ranges_prop : forall l, wf_ranges l = true -> wf_prop l.
Proof.
  induction l as [|r t IH]; intros H; [split; constructor|].
  pose proof (wf_ranges_head t r H) as Hh.
  cbn [wf_ranges] in H. apply andb_true_iff in H. destruct H as [H Ht].
  apply andb_true_iff in H. destruct H as [Hr _]. apply N.ltb_lt in Hr.
  destruct (IH Ht) as [S1 F1]. split; constructor; assumption.
Qed.

Lemma wf_sorted_from : forall l, wf_prop l -> sorted_from l.
Proof.
  intros l [S F]. induction S as [|r t S IH Hall]; [constructor|].
  inversion F; subst. constructor; [apply IH; assumption|].
  rewrite Forall_forall in *. intros x Hx. unfold from_le. specialize (Hall x Hx). unfold lt_disj in Hall. lia.
Qed.

Lemma split_sorted : forall a l, sorted_from l ->
  exists l1 l2, l = l1 ++ l2 /\ Forall (fun r => r_from r <= a) l1 /\ Forall (fun r => a < r_from r) l2.
Proof.
  intros a l S. induction S as [|r t S IH Hall].
  - exists [], []. repeat split; constructor.
  - destruct (N.le_gt_cases (r_from r) a) as [Hle | Hgt].
    + destruct IH as [l1 [l2 [E [F1 F2]]]]. exists (r :: l1), l2. subst t.
      repeat split; [|exact F2]. constructor; assumption.
    + exists [], (r :: t). repeat split; [constructor|]. constructor; [lia|].
      rewrite Forall_forall in *. intros x Hx. specialize (Hall x Hx). unfold from_le in Hall. lia.
Qed.

Lemma range_cmp_le : forall a r, r_from r <= a -> range_cmp a r <> OGreater.
Proof.
  intros a r H. unfold range_cmp. destruct ((r_from r <=? a) && (a <? r_to r)); [discriminate|].
  destruct (N.ltb_spec a (r_from r)); [lia|discriminate].
Qed.

Lemma range_cmp_gt : forall a r, a < r_from r -> range_cmp a r = OGreater.
Proof.
  intros a r H. unfold range_cmp.
  destruct (N.leb_spec (r_from r) a); [lia|]. cbn [andb].
  destruct (N.ltb_spec a (r_from r)); [reflexivity|lia].
Qed.

Lemma range_cmp_eq : forall a r, r_from r <= a ->
  range_cmp a r = if a <? r_to r then OEqual else OLess.
Proof.
  intros a r H. unfold range_cmp.
  destruct (N.leb_spec (r_from r) a); [|lia]. cbn [andb].
  destruct (a <? r_to r); [reflexivity|]. destruct (N.ltb_spec a (r_from r)); [lia|reflexivity].
Qed.

(* what find_range computes on a list sorted by `from`: the LAST range that starts at or
   before the address, accepted if the address is < its `to` (exclusive; `<=` before 231e3e9) *)
Theorem find_range_char : forall a l1 l2,
  Forall (fun r => r_from r <= a) l1 -> Forall (fun r => a < r_from r) l2 ->
  find_range (l1 ++ l2) a =
  Ok (match rev l1 with
      | [] => None
      | r :: _ => if a <? r_to r then Some r else None
      end).
Proof.
  intros a l1 l2 F1 F2. unfold find_range.
  rewrite binary_search_split.
  - cbn [bind]. destruct l1 as [|x l1'] using rev_ind; [reflexivity|]. clear IHl1'.
    rewrite rev_app_distr. cbn [rev app].
    apply Forall_app in F1. destruct F1 as [_ Fx]. inversion Fx; subst.
    rewrite range_cmp_eq by assumption. destruct (a <? r_to x); [|reflexivity].
    rewrite app_length. cbn [length]. rewrite <- app_assoc.
    rewrite nth_error_app2 by lia. replace (length l1' + 1 - 1 - length l1')%nat with 0%nat by lia.
    reflexivity.
  - rewrite Forall_forall in *. intros x Hx. apply range_cmp_le. apply F1. exact Hx.
  - rewrite Forall_forall in *. intros x Hx. apply range_cmp_gt. apply F2. exact Hx.
Qed.

(* no panic, no fuel exhaustion: the `get_unchecked` indices are always in range *)
Theorem find_range_total : forall l a, sorted_from l -> exists o, find_range l a = Ok o.
Proof.
  intros l a S. destruct (split_sorted a l S) as [l1 [l2 [E [F1 F2]]]]. subst l.
  rewrite find_range_char by assumption. eexists. reflexivity.
Qed.

Theorem find_range_sound : forall l a r, sorted_from l ->
  find_range l a = Ok (Some r) -> In r l /\ r_from r <= a < r_to r.
Proof.
  intros l a r S H. destruct (split_sorted a l S) as [l1 [l2 [E [F1 F2]]]]. subst l.
  rewrite find_range_char in H by assumption.
  destruct l1 as [|x l1'] using rev_ind; [discriminate|]. clear IHl1'.
  rewrite rev_app_distr in H. cbn [rev app] in H.
  destruct (N.ltb_spec a (r_to x)); [|discriminate]. inversion H; subst x.
  apply Forall_app in F1. destruct F1 as [_ Fx]. inversion Fx; subst.
  split; [|lia]. apply in_app_iff. left. apply in_app_iff. right. left. reflexivity.
Qed.

Theorem find_range_none : forall l a, sorted_from l ->
  (forall r, In r l -> ~ (r_from r <= a < r_to r)) -> find_range l a = Ok None.
Proof.
  intros l a S H. destruct (find_range_total l a S) as [[r|] E]; [|exact E].
  exfalso. destruct (find_range_sound l a r S E) as [I R]. exact (H r I R).
Qed.

Lemma SS_app_inv : forall {A} (R : A -> A -> Prop) l1 l2,
  StronglySorted R (l1 ++ l2) -> forall x y, In x l1 -> In y l2 -> R x y.
Proof.
  intros A R l1. induction l1 as [|a t IH]; intros l2 S x y Hx Hy; [destruct Hx|].
  cbn [app] in S. inversion S; subst. destruct Hx as [E | Hx].
  - subst a. rewrite Forall_forall in H2. apply H2. apply in_app_iff. right. exact Hy.
  - eapply IH; eassumption.
Qed.

(* an address inside a range (from <= a < to): that range is found, also when the previous
   range ends exactly at a (adjacent ranges) *)
Theorem find_range_inside : forall l a r, wf_ranges l = true ->
  In r l -> r_from r <= a < r_to r -> find_range l a = Ok (Some r).
Proof.
  intros l a r W I R. apply wf_ranges_prop in W. pose proof (wf_sorted_from l W) as S.
  destruct W as [SS FF].
  destruct (split_sorted a l S) as [l1 [l2 [E [F1 F2]]]]. subst l.
  rewrite find_range_char by assumption.
  assert (I1 : In r l1).
  { apply in_app_iff in I. destruct I as [I | I]; [exact I|].
    rewrite Forall_forall in F2. specialize (F2 r I). lia. }
  destruct l1 as [|x l1'] using rev_ind; [destruct I1|]. clear IHl1'.
  rewrite rev_app_distr. cbn [rev app].
  assert (E : r = x).
  { apply in_app_iff in I1. destruct I1 as [I1 | [E | []]]; [|symmetry; exact E].
    exfalso. rewrite <- app_assoc in SS.
    assert (D : lt_disj r x).
    { eapply SS_app_inv; [exact SS|exact I1|]. left. reflexivity. }
    unfold lt_disj in D. apply Forall_app in F1. destruct F1 as [_ Fx]. inversion Fx; subst. lia. }
  subst x. destruct (N.ltb_spec a (r_to r)); [reflexivity|lia].
Qed.

(* the specification answer is unique under wf_ranges *)
Theorem spec_find_range_unique : forall l a r, wf_ranges l = true ->
  In r l -> r_from r <= a < r_to r -> spec_find_range l a = Some r.
Proof.
  intros l a r W I R. apply wf_ranges_prop in W. destruct W as [SS FF].
  unfold spec_find_range. induction l as [|x t IH]; [destruct I|].
  cbn [find]. unfold in_range at 1.
  inversion SS; subst. inversion FF; subst.
  destruct I as [E | I].
  - subst x. destruct (N.leb_spec (r_from r) a); [|lia]. destruct (N.ltb_spec a (r_to r)); [|lia].
    reflexivity.
  - rewrite Forall_forall in H2. specialize (H2 r I). unfold lt_disj in H2.
    destruct (N.leb_spec (r_from x) a); cbn [andb]; [|apply IH; assumption].
    destruct (N.ltb_spec a (r_to x)); [lia|]. apply IH; assumption.
Qed.

(* model = specification: the unique object whose half-open image contains the address *)
Theorem find_range_exact : forall l a, wf_ranges l = true ->
  find_range l a = Ok (spec_find_range l a).
Proof.
  intros l a W. destruct (spec_find_range l a) as [r|] eqn:Sp.
  - unfold spec_find_range in Sp. apply find_some in Sp. destruct Sp as [I R].
    unfold in_range in R. apply andb_true_iff in R. destruct R as [R1 R2].
    apply N.leb_le in R1. apply N.ltb_lt in R2. apply find_range_inside; [exact W|exact I|lia].
  - apply find_range_none; [apply wf_sorted_from, wf_ranges_prop, W|].
    intros r I [R1 R2]. unfold spec_find_range in Sp. pose proof (find_none _ _ Sp r I) as Nn.
    unfold in_range in Nn.
    destruct (N.leb_spec (r_from r) a); [|lia]. destruct (N.ltb_spec a (r_to r)); [discriminate|lia].
Qed.

(* adjacent ranges: the address where one ends and the next begins belongs to the next one *)
Example find_range_adjacent :
  find_range [mk_rrange 4096 8192 0; mk_rrange 8192 12288 1] 8192 = Ok (Some (mk_rrange 8192 12288 1)).
Proof. reflexivity. Qed.

(* the first address past an object that is not the start of another object belongs to none *)
Example find_range_past_end :
  find_range [mk_rrange 4096 8192 0; mk_rrange 12288 16384 1] 8192 = Ok None.
Proof. reflexivity. Qed.

(* _old (before 231e3e9, `addr <= range.to`): find_range_refuted :
     exists l a r, wf_ranges l = true /\ spec_find_range l a = None /\ find_range l a = Ok (Some r)
   with l = [(4096,8192,0); (12288,16384,1)], a = 8192; then only
     find_range_exact_partial : wf_ranges l = true -> no_to_at a l = true -> find_range l a = Ok (spec_find_range l a)
   held.  Confirmed on the real debugger (11 of 11 range ends), repaired; the example above is
   the old witness. *)

(* ------------------------------------------------------------------ *)
(** * Round trip                                                        *)

(* the relocated address falls (half-open) into the range recorded for the same file *)
Definition lands_in_file (rg : registry) (file a : N) : bool :=
  wf_ranges (reg_ranges rg) &&
  existsb (fun r => (r_file r =? file) && in_range a r) (reg_ranges rg).

(* FULL STATEMENT (needs the side condition: otherwise the address is attributed to another
   object or to none):
     forall rg g file a, relocate_to_segment rg g file = Ok a -> into_global rg a = Ok g. *)
Theorem roundtrip_partial : forall rg g file a,
  relocate_to_segment rg g file = Ok a -> lands_in_file rg file a = true ->
  into_global rg a = Ok g.
Proof.
  intros rg g file a Hr Hl. unfold lands_in_file in Hl. apply andb_true_iff in Hl.
  destruct Hl as [W Hex]. apply existsb_exists in Hex. destruct Hex as [r [I Hr2]].
  apply andb_true_iff in Hr2. destruct Hr2 as [Ef Rin]. apply N.eqb_eq in Ef.
  unfold in_range in Rin. apply andb_true_iff in Rin. destruct Rin as [R1 R2].
  apply N.leb_le in R1. apply N.ltb_lt in R2.
  unfold relocate_to_segment, mapping_offset_for_file in Hr.
  destruct (mapping_get (reg_mappings rg) file) as [off|] eqn:M; [|discriminate].
  cbn [bind] in Hr. unfold relocate in Hr. destruct (g + off <? USIZE_LIMIT); [|discriminate].
  inversion Hr; subst a.
  unfold into_global, mapping_offset_for_pc, find_mapping_offset.
  rewrite (find_range_inside _ (g + off) r W I) by lia. cbn [bind]. rewrite Ef, M. cbn [bind].
  unfold remove_vas_region_offset. destruct (N.leb_spec off (g + off)); [|lia].
  f_equal. lia.
Qed.

Example roundtrip_applies :
  let rg := mk_registry 0 [0; 1] [mk_rrange 4096 8192 0; mk_rrange 8192 12288 1] [(0, 4096); (1, 8192)] [] in
  relocate_to_segment rg 16 1 = Ok 8208 /\ lands_in_file rg 1 8208 = true.
Proof. split; reflexivity. Qed.

(* ------------------------------------------------------------------ *)
(** * update_mappings: which offset is recorded                         *)

Lemma file_mapping_lowest : forall lb maps f off r,
  file_mapping lb maps f = Ok (Some (off, r)) ->
  exists s, lowest_start maps f = Some s /\ off = s - link_base_of lb f /\ r_file r = f /\ r_from r = s.
Proof.
  intros lb maps f off r H. unfold file_mapping, lowest_start in *.
  destruct (filter (pm_of f) maps) as [|m0 ms]; [discriminate|].
  destruct (_ <? USIZE_LIMIT); [|discriminate]. inversion H; subst.
  eexists. repeat split; reflexivity.
Qed.

Lemma file_mapping_none : forall lb maps f, file_mapping lb maps f = Ok None -> lowest_start maps f = None.
Proof.
  intros lb maps f H. unfold file_mapping, lowest_start in *.
  destruct (filter (pm_of f) maps) as [|m0 ms]; [reflexivity|].
  destruct (_ <? USIZE_LIMIT); discriminate.
Qed.

(* load bias the repaired code records: lowest mapping start - link base (saturating) *)
Definition bias_of (lb : list (N * N)) (maps : list pmap) (f : N) : option N :=
  match lowest_start maps f with Some s => Some (s - link_base_of lb f) | None => None end.

Lemma collect_mappings_notin : forall lb maps files ms rs es f,
  collect_mappings lb maps files = Ok (ms, rs, es) -> ~ In f files -> mapping_get ms f = None.
Proof.
  intros lb maps files. induction files as [|y t IH]; intros ms rs es f C NI.
  - cbn in C. inversion C. reflexivity.
  - cbn [collect_mappings] in C.
    destruct (file_mapping lb maps y) as [fm| | |]; try discriminate. cbn [bind] in C.
    destruct (collect_mappings lb maps t) as [[[ms2 rs2] es2]| | |]; try discriminate. cbn [bind] in C.
    assert (N1 : f <> y) by (intros E; apply NI; left; symmetry; exact E).
    assert (N2 : ~ In f t) by (intros E; apply NI; right; exact E).
    destruct fm as [[off r]|]; inversion C; subst.
    + unfold mapping_get. cbn [alist_get]. destruct (N.eqb_spec f y); [congruence|].
      apply (IH _ _ _ f eq_refl N2).
    + apply (IH _ _ _ f eq_refl N2).
Qed.

Lemma collect_mappings_get : forall lb maps files ms rs es,
  collect_mappings lb maps files = Ok (ms, rs, es) ->
  forall f, In f files -> mapping_get ms f = bias_of lb maps f.
Proof.
  intros lb maps files. induction files as [|x t IH]; intros ms rs es H f I; [destruct I|].
  cbn [collect_mappings] in H.
  destruct (file_mapping lb maps x) as [fm| | |] eqn:Fm; try discriminate. cbn [bind] in H.
  destruct (collect_mappings lb maps t) as [[[ms' rs'] es']| | |] eqn:C; try discriminate. cbn [bind] in H.
  destruct fm as [[off r]|].
  - inversion H; subst. unfold mapping_get. cbn [alist_get].
    destruct (N.eqb_spec f x) as [E | Ne].
    + subst x. apply file_mapping_lowest in Fm. destruct Fm as [s0 [L [Eo _]]].
      unfold bias_of. rewrite L, Eo. reflexivity.
    + destruct I as [E | I]; [congruence|]. apply (IH _ _ _ eq_refl f I).
  - inversion H; subst. destruct (N.eqb_spec f x) as [E | Ne].
    + subst x. apply file_mapping_none in Fm. unfold bias_of. rewrite Fm.
      destruct (in_dec N.eq_dec f t) as [I' | NI].
      * rewrite (IH _ _ _ eq_refl f I'). unfold bias_of. rewrite Fm. reflexivity.
      * eapply collect_mappings_notin; eassumption.
    + destruct I as [E | I]; [congruence|]. apply (IH _ _ _ eq_refl f I).
Qed.

(* the offset recorded for a file is the start of its lowest mapping minus its link base *)
Theorem update_mappings_offset : forall rg maps rg' es f,
  update_mappings rg false maps = Ok (rg', es) -> In f (reg_files rg) ->
  mapping_get (reg_mappings rg') f = bias_of (reg_link rg) maps f.
Proof.
  intros rg maps rg' es f H I. unfold update_mappings in H.
  destruct (collect_mappings (reg_link rg) maps (reg_files rg)) as [[[ms rs] es']| | |] eqn:C; try discriminate.
  cbn [bind] in H. inversion H; subst. cbn [reg_mappings].
  eapply collect_mappings_get; eassumption.
Qed.

(* the specification's domain: the image is mapped at or above its link base, and g is an
   address of the image (both hold for every ELF image the kernel / ld.so loaded) *)
Definition image_ok (maps : list pmap) (im : image) (g : N) : bool :=
  match lowest_start maps (im_file im) with Some s => im_min_vaddr im <=? s | None => true end
  && (im_min_vaddr im <=? g).

(* HEADLINE: for ANY image (PIE executable, non-PIE ET_EXEC executable, shared library at
   start-up or by dlopen) whose link base the registry knows, relocation of a link-time
   address is exactly where that address is in the process: `Ok a` with a the run-time
   address, MappingOffsetNotFound iff the file is not mapped. *)
Theorem relocate_exact : forall rg maps rg' es im g,
  update_mappings rg false maps = Ok (rg', es) -> In (im_file im) (reg_files rg) ->
  link_base_of (reg_link rg) (im_file im) = im_min_vaddr im ->
  image_ok maps im g = true ->
  relocate_to_segment rg' g (im_file im) =
  match spec_runtime_addr maps im g with
  | Some a => if a <? USIZE_LIMIT then Ok a else Panic 10
  | None => Err E_MAPPING_OFFSET_NOT_FOUND
  end.
Proof.
  intros rg maps rg' es im g H I Lb Ok_.
  unfold relocate_to_segment, mapping_offset_for_file.
  rewrite (update_mappings_offset _ _ _ _ _ H I). unfold bias_of, spec_runtime_addr, image_ok in *.
  rewrite Lb. destruct (lowest_start maps (im_file im)) as [s|]; [|reflexivity].
  apply andb_true_iff in Ok_. destruct Ok_ as [O1 O2]. rewrite O1, O2. cbn [andb bind].
  apply N.leb_le in O1. apply N.leb_le in O2. unfold relocate.
  replace (g + (s - im_min_vaddr im)) with (g - im_min_vaddr im + s) by lia. reflexivity.
Qed.

Corollary relocate_sound : forall rg maps rg' es im g a,
  update_mappings rg false maps = Ok (rg', es) -> In (im_file im) (reg_files rg) ->
  link_base_of (reg_link rg) (im_file im) = im_min_vaddr im ->
  image_ok maps im g = true ->
  relocate_to_segment rg' g (im_file im) = Ok a ->
  spec_runtime_addr maps im g = Some a.
Proof.
  intros rg maps rg' es im g a H I Lb Ok_ Hr.
  rewrite (relocate_exact _ _ _ _ _ _ H I Lb Ok_) in Hr.
  destruct (spec_runtime_addr maps im g) as [a'|]; [|discriminate].
  destruct (a' <? USIZE_LIMIT); [|discriminate]. inversion Hr. reflexivity.
Qed.

Example relocate_pie_applies :
  let maps := [mk_pmap (Some 0) 93824992231424 4096; mk_pmap (Some 0) 93824992235520 8192] in
  image_ok maps (mk_image 0 0) 4406 = true /\
  exists rg' es, update_mappings (mk_registry 0 [0] [] [] []) false maps = Ok (rg', es) /\
                 relocate_to_segment rg' 4406 0 = Ok 93824992235830.
Proof. split; [reflexivity|]. eexists. eexists. split; reflexivity. Qed.

(* a non-PIE (ET_EXEC) executable linked at 0x400000: `main` at link address 0x401136 is
   mapped AT 0x401136, and that is where the breakpoint goes now *)
Definition nonpie_maps : list pmap :=
  [mk_pmap (Some 0) 4194304 4096; mk_pmap (Some 0) 4198400 4096; mk_pmap (Some 0) 4202496 4096;
   mk_pmap None 140737351856128 135168].

Example relocate_nonpie_applies :
  image_ok nonpie_maps (mk_image 0 4194304) 4198710 = true /\
  exists rg' es,
    update_mappings (mk_registry 0 [0] [] [] [(0, 4194304)]) false nonpie_maps = Ok (rg', es) /\
    relocate_to_segment rg' 4198710 0 = Ok 4198710 /\                           (* 0x401136 *)
    spec_runtime_addr nonpie_maps (mk_image 0 4194304) 4198710 = Some 4198710.
Proof. split; [reflexivity|]. eexists. eexists. split; [reflexivity|]. split; reflexivity. Qed.

(* _old (before 74a62de, `mapping = lower_sect.start()`): only
     relocate_pie_partial : ... im_min_vaddr im = 0 -> relocate_to_segment rg' g f = Ok a -> spec_runtime_addr maps im g = Some a
   held, and nonpie_refuted : for the image / maps / g above the model answered
     relocate_to_segment rg' 4198710 0 = Ok 8393014 (0x801136 = 0x401136 + 0x400000).
   Confirmed on the real debugger (start fails with Ptrace(EIO)), repaired. *)

(* ------------------------------------------------------------------ *)
(** * `sharedlib info`                                                  *)

Lemma in_insert_range : forall x r l, In x (insert_range r l) <-> x = r \/ In x l.
Proof.
  intros x r l. induction l as [|y t IH]; cbn [insert_range].
  - split; [intros [E | []]; left; symmetry; exact E|intros [E | []]; left; symmetry; exact E].
  - destruct (r_from r <? r_from y); cbn [In]; [intuition congruence|]. rewrite IH. intuition congruence.
Qed.

Lemma in_sort_ranges : forall x l, In x (sort_ranges l) <-> In x l.
Proof.
  intros x l. induction l as [|r t IH]; [reflexivity|]. cbn [sort_ranges In].
  rewrite in_insert_range, IH. intuition congruence.
Qed.

Lemma collect_mappings_ranges : forall lb maps files ms rs es,
  collect_mappings lb maps files = Ok (ms, rs, es) ->
  forall r, In r rs <-> exists f off, In f files /\ file_mapping lb maps f = Ok (Some (off, r)).
Proof.
  intros lb maps files. induction files as [|x t IH]; intros ms rs es H r.
  - cbn in H. inversion H; subst. split; [intros []|intros [f [off [[] _]]]].
  - cbn [collect_mappings] in H.
    destruct (file_mapping lb maps x) as [fm| | |] eqn:Fm; try discriminate. cbn [bind] in H.
    destruct (collect_mappings lb maps t) as [[[ms' rs'] es']| | |] eqn:C; try discriminate. cbn [bind] in H.
    specialize (IH _ _ _ eq_refl r).
    destruct fm as [[off0 r0]|]; inversion H; subst.
    + cbn [In]. rewrite IH. split.
      * intros [E | [f [off [I Hf]]]].
        -- subst r0. exists x, off0. split; [left; reflexivity|exact Fm].
        -- exists f, off. split; [right; exact I|exact Hf].
      * intros [f [off [[E | I] Hf]]].
        -- subst f. rewrite Fm in Hf. inversion Hf. left. reflexivity.
        -- right. exists f, off. split; assumption.
    + rewrite IH. split.
      * intros [f [off [I Hf]]]. exists f, off. split; [right; exact I|exact Hf].
      * intros [f [off [[E | I] Hf]]].
        -- subst f. rewrite Fm in Hf. discriminate.
        -- exists f, off. split; assumption.
Qed.

Lemma file_mapping_mapped : forall lb maps f o,
  file_mapping lb maps f = Ok o -> (is_mapped maps f = true <-> o <> None).
Proof.
  intros lb maps f o H. unfold file_mapping in H. unfold is_mapped.
  destruct (filter (pm_of f) maps) as [|m0 ms] eqn:F.
  - inversion H; subst. split; [|congruence]. intros E. apply existsb_exists in E.
    destruct E as [m [I P]]. assert (In m (filter (pm_of f) maps)) by (apply filter_In; split; assumption).
    rewrite F in H0. destruct H0.
  - destruct (_ <? USIZE_LIMIT); [|discriminate]. inversion H; subst. split; [discriminate|]. intros _.
    apply existsb_exists. exists m0. apply filter_In. rewrite F. left. reflexivity.
Qed.

Lemma collect_mappings_total : forall lb maps files ms rs es f,
  collect_mappings lb maps files = Ok (ms, rs, es) -> In f files -> exists o, file_mapping lb maps f = Ok o.
Proof.
  intros lb maps files. induction files as [|x t IH]; intros ms rs es f C I; [destruct I|].
  cbn [collect_mappings] in C.
  destruct (file_mapping lb maps x) as [fm| | |] eqn:Fm; try discriminate. cbn [bind] in C.
  destruct (collect_mappings lb maps t) as [[[ms' rs'] es2]| | |] eqn:C2; try discriminate.
  destruct I as [E | I]; [subst x; eexists; exact Fm|]. eapply IH; [reflexivity|exact I].
Qed.

(* `sharedlib info` (dump) lists exactly the registry's files, and a file is shown with an
   address range iff the process has a mapping backed by it *)
Theorem dump_exact : forall rg maps rg' es,
  update_mappings rg false maps = Ok (rg', es) ->
  map fst (dump rg') = reg_files rg /\
  forall f, In f (reg_files rg) ->
    (range_of_file (reg_ranges rg') f <> None <-> is_mapped maps f = true).
Proof.
  intros rg maps rg' es H. unfold update_mappings in H.
  destruct (collect_mappings (reg_link rg) maps (reg_files rg)) as [[[ms rs] es']| | |] eqn:C; try discriminate.
  cbn [bind] in H. inversion H; subst. cbn [reg_ranges reg_files]. split.
  - unfold dump. cbn [reg_files]. rewrite map_map. cbn [fst]. apply map_id.
  - intros f I. unfold range_of_file.
    assert (Tot : exists o, file_mapping (reg_link rg) maps f = Ok o) by (eapply collect_mappings_total; eassumption).
    destruct Tot as [o Fo]. rewrite (file_mapping_mapped _ maps f o Fo).
    destruct (find (fun r => r_file r =? f) (sort_ranges rs)) as [r|] eqn:Fd.
    + split; [intros _|discriminate]. apply find_some in Fd. destruct Fd as [Ir Ef].
      apply N.eqb_eq in Ef. apply (proj1 (in_sort_ranges _ _)) in Ir.
      apply (proj1 (collect_mappings_ranges _ _ _ _ _ _ C _)) in Ir. destruct Ir as [f' [off [If' Hf']]].
      pose proof (file_mapping_lowest _ _ _ _ _ Hf') as [s0 [_ [_ [Ef' _]]]]. assert (f' = f) by congruence. subst f'.
      rewrite Ef in Hf'. rewrite Fo in Hf'. inversion Hf'. discriminate.
    + split; [congruence|]. intros No. exfalso. destruct o as [[off r]|]; [|congruence].
      assert (Ir : In r (sort_ranges rs)).
      { apply (proj2 (in_sort_ranges _ _)). apply (proj2 (collect_mappings_ranges _ _ _ _ _ _ C _)). exists f, off. split; assumption. }
      pose proof (find_none _ _ Fd r Ir) as Nf. cbn beta in Nf.
      apply file_mapping_lowest in Fo. destruct Fo as [s0 [_ [_ [Ef _]]]]. rewrite Ef, N.eqb_refl in Nf. discriminate.
Qed.

(* which files the registry holds after a library event: the main program, and the link-map
   entries that could be parsed *)
Lemma in_add_new : forall t fs x, In x (add_new fs t) <-> In x fs \/ In x t.
Proof.
  induction t as [|y t IH]; intros fs x; cbn [add_new].
  - cbn [In]. tauto.
  - destruct (mem y fs) eqn:M.
    + rewrite IH. cbn [In]. split; [tauto|]. intros [H | [E | H]]; try tauto.
      subst y. left. unfold mem in M. apply existsb_exists in M. destruct M as [z [Iz Ez]].
      apply N.eqb_eq in Ez. subst z. exact Iz.
    + rewrite IH, in_app_iff. cbn [In]. tauto.
Qed.

Theorem reload_files : forall parse_ok rg libs f,
  In f (reg_files (reload parse_ok rg libs)) <->
  (In f (reg_files rg) /\ (In f libs \/ f = reg_main rg)) \/ (In f libs /\ parse_ok f = true).
Proof.
  intros parse_ok rg libs f. unfold reload. cbn [reg_files]. rewrite in_add_new, !filter_In.
  assert (M : mem f libs = true <-> In f libs).
  { unfold mem. rewrite existsb_exists. split.
    - intros [z [Iz Ez]]. apply N.eqb_eq in Ez. subst z. exact Iz.
    - intros I. exists f. split; [exact I|apply N.eqb_refl]. }
  rewrite orb_true_iff, M, N.eqb_eq. tauto.
Qed.

(* ------------------------------------------------------------------ *)
(** * Deferred breakpoints                                              *)

Definition req_of (e : log_entry) : N := snd (fst e).

Definition installs (ts : N -> attempt) (d : N) : bool :=
  match ts d with AInstalled _ => true | _ => false end.

Lemma refresh_deferred_spec : forall ts idx ds keep lg errs,
  refresh_deferred ts idx ds = (keep, lg, errs) ->
  keep = filter (fun d => negb (installs ts d)) ds /\
  map req_of lg = filter (installs ts) ds /\
  forall i d a, In (i, d, a) lg <-> i = idx /\ In d ds /\ ts d = AInstalled a.
Proof.
  intros ts idx. induction ds as [|d t IH]; intros keep lg errs H.
  - cbn in H. inversion H; subst. split; [reflexivity|]. split; [reflexivity|].
    intros i d a. split; [intros []|intros [_ [[] _]]].
  - cbn [refresh_deferred] in H.
    destruct (refresh_deferred ts idx t) as [[k0 l0] e0] eqn:R.
    destruct (IH _ _ _ eq_refl) as [Hk [Hm Hl]]. cbn [filter].
    assert (Ei : installs ts d = match ts d with AInstalled _ => true | _ => false end) by reflexivity.
    rewrite Ei. clear Ei.
    destruct (ts d) as [|a0|c] eqn:Td; inversion H; subst; cbn [negb map]; unfold req_of at 1; cbn [fst snd].
    + split; [reflexivity|]. split; [exact Hm|]. intros i d' a. rewrite Hl. cbn [In].
      split; [intros [? [? ?]]; auto|]. intros [? [[E | ?] Hd]]; auto. subst d'. congruence.
    + split; [reflexivity|]. split; [f_equal; exact Hm|]. intros i d' a. cbn [In]. rewrite Hl. split.
      * intros [E | [? [? ?]]]; [inversion E; subst; auto|auto].
      * intros [? [[E | ?] Hd]]; [subst; left; congruence|right; auto].
    + split; [reflexivity|]. split; [exact Hm|]. intros i d' a. rewrite Hl. cbn [In].
      split; [intros [? [? ?]]; auto|]. intros [? [[E | ?] Hd]]; auto. subst d'. congruence.
Qed.

(* For EVERY sequence of entry-point / r_brk stops: a request leaves the deferred list exactly
   at the first event whose registry makes it installable, and it is logged (= installed)
   there and nowhere else. *)
Theorem deferred : forall rs idx ds ds' lg,
  run_rounds idx rs ds = (ds', lg) ->
  (forall d, In d ds' <-> In d ds /\ first_ok idx rs d = None) /\
  (forall i d a, In (i, d, a) lg <-> In d ds /\ first_ok idx rs d = Some (i, a)).
Proof.
  induction rs as [|[k ts] t IH]; intros idx ds ds' lg H.
  - cbn in H. inversion H; subst. cbn [first_ok]. split.
    + intros d. tauto.
    + intros i d a. split; [intros []|intros [_ E]; discriminate].
  - cbn [run_rounds] in H.
    destruct (refresh_deferred ts idx ds) as [[keep lg0] errs] eqn:R.
    destruct (run_rounds (S idx) t keep) as [ds2 lg2] eqn:RR.
    inversion H; subst. clear H.
    destruct (refresh_deferred_spec _ _ _ _ _ _ R) as [Hkeep [_ Hlg0]].
    destruct (IH _ _ _ _ RR) as [Hd Hlg].
    assert (Kin : forall d, In d keep <-> In d ds /\ installs ts d = false).
    { intros d. rewrite Hkeep, filter_In, negb_true_iff. tauto. }
    split.
    + intros d. rewrite Hd, Kin. cbn [first_ok]. unfold installs.
      destruct (ts d); intuition (try discriminate; auto).
    + intros i d a. rewrite in_app_iff, Hlg0, Hlg, Kin. cbn [first_ok]. unfold installs.
      destruct (ts d) as [|a0|c] eqn:Td; split.
      * intros [[_ [_ E]] | [[I _] E]]; [discriminate|auto].
      * intros [I E]. right. auto.
      * intros [[E1 [I E]] | [[_ E] _]]; [|discriminate]. inversion E; subst. auto.
      * intros [I E]. inversion E; subst. left. auto.
      * intros [[_ [_ E]] | [[I _] E]]; [discriminate|auto].
      * intros [I E]. right. auto.
Qed.

Lemma NoDup_app_intro : forall {A} (a b : list A),
  NoDup a -> NoDup b -> (forall x, In x a -> ~ In x b) -> NoDup (a ++ b).
Proof.
  intros A a. induction a as [|x t IH]; intros b Ha Hb Hd; [exact Hb|].
  cbn [app]. inversion Ha; subst. constructor.
  - rewrite in_app_iff. intros [I | I]; [contradiction|]. apply (Hd x); [left; reflexivity|exact I].
  - apply IH; [assumption|assumption|]. intros y Iy. apply Hd. right. exact Iy.
Qed.

Lemma run_rounds_requests : forall rs idx ds ds' lg,
  run_rounds idx rs ds = (ds', lg) -> forall e, In e lg -> In (req_of e) ds.
Proof.
  induction rs as [|[k ts] t IH]; intros idx ds ds' lg H e Ie.
  - cbn in H. inversion H; subst. destruct Ie.
  - cbn [run_rounds] in H.
    destruct (refresh_deferred ts idx ds) as [[keep lg0] errs] eqn:R.
    destruct (run_rounds (S idx) t keep) as [ds2 lg2] eqn:RR. inversion H; subst.
    destruct (refresh_deferred_spec _ _ _ _ _ _ R) as [Hkeep [Hm _]].
    apply in_app_iff in Ie. destruct Ie as [Ie | Ie].
    + pose proof (in_map req_of _ _ Ie) as I.
      rewrite Hm in I. apply filter_In in I. tauto.
    + pose proof (IH _ _ _ _ RR e Ie) as I. rewrite Hkeep in I. apply filter_In in I. tauto.
Qed.

(* exactly once: no request is installed twice *)
Theorem deferred_once : forall rs idx ds ds' lg,
  NoDup ds -> run_rounds idx rs ds = (ds', lg) -> NoDup (map req_of lg).
Proof.
  induction rs as [|[k ts] t IH]; intros idx ds ds' lg Nd H.
  - cbn in H. inversion H; subst. constructor.
  - cbn [run_rounds] in H.
    destruct (refresh_deferred ts idx ds) as [[keep lg0] errs] eqn:R.
    destruct (run_rounds (S idx) t keep) as [ds2 lg2] eqn:RR. inversion H; subst.
    destruct (refresh_deferred_spec _ _ _ _ _ _ R) as [Hkeep [Hm _]].
    rewrite map_app. apply NoDup_app_intro.
    + rewrite Hm. apply NoDup_filter. exact Nd.
    + eapply IH; [|exact RR]. rewrite Hkeep. apply NoDup_filter. exact Nd.
    + intros x I1 I2. rewrite Hm in I1. apply filter_In in I1. destruct I1 as [_ I1].
        apply in_map_iff in I2. destruct I2 as [e [Ee Ie]]. subst x.
        pose proof (run_rounds_requests _ _ _ _ _ RR e Ie) as I. rewrite Hkeep in I.
        apply filter_In in I. destruct I as [_ I]. rewrite I1 in I. discriminate.
Qed.

(* A library that is a DT_NEEDED dependency is already loaded when the entry-point
   breakpoint is hit.  [startup_rg] holds the main program only: this is the state before
   `run` when the static `ldd` pre-scan of Debugee::new_non_running (debugee/mod.rs:137-141)
   failed or did not see the library (then `break f` is offered as a deferred breakpoint).
   The entry-point stop registers the library and now also retries the deferred list. *)
Definition startup_resolve (f d : N) : list N := if (f =? 1) && (d =? 5) then [4416] else [].
Definition startup_maps : list pmap :=
  [mk_pmap (Some 0) 93824992231424 16384; mk_pmap (Some 1) 140737351856128 16384].
Definition startup_rg : registry := mk_registry 0 [0] [] [] [].

Example deferred_startup_ok :
  run_events startup_resolve (fun _ => true) (fun _ => true) startup_rg
             [(EvEntry, [1], startup_maps)] [5] = Ok ([], [(0%nat, 5, [140737351860544])]).
Proof. vm_compute. reflexivity. Qed.

(* _old (before f0ae46b, EntryPoint arm without refresh_deferred): deferred_startup_refuted :
     the same run answered Ok ([5], []) although try_set_breakpoint against the registry of that
     stop = AInstalled [140737351860544]; `deferred` then needed `forallb is_linker rs = true`
     (deferred_partial).  Confirmed on the real debugger (PATH without ldd, `break foo_add`,
     deferred, `run`: no stop), repaired. *)

(* a library appearing at an r_brk stop (dlopen) *)
Example deferred_dlopen_ok :
  run_events startup_resolve (fun _ => true) (fun _ => true) startup_rg
             [(EvEntry, [], [mk_pmap (Some 0) 93824992231424 16384]); (EvLinkerMap, [1], startup_maps)] [5]
  = Ok ([], [(1%nat, 5, [140737351860544])]).
Proof. vm_compute. reflexivity. Qed.

(* run_events is run_rounds over the registry trajectory, so deferred / deferred_once
   apply to it *)
Theorem run_events_rounds : forall resolve poke_ok parse_ok rg evs ds r,
  run_events resolve poke_ok parse_ok rg evs ds = Ok r ->
  exists rs, rounds_of resolve poke_ok parse_ok rg evs = Ok rs /\ r = run_rounds 0 rs ds /\
             map fst rs = map (fun e => fst (fst e)) evs.
Proof.
  intros resolve poke_ok parse_ok rg evs ds r H. unfold run_events in H.
  destruct (rounds_of resolve poke_ok parse_ok rg evs) as [rs| | |] eqn:R; try discriminate.
  cbn [bind] in H. inversion H; subst. exists rs. split; [reflexivity|]. split; [reflexivity|].
  clear H. revert rg rs R. induction evs as [|[[k libs] maps] t IH]; intros rg rs R.
  - cbn in R. inversion R. reflexivity.
  - cbn [rounds_of] in R.
    destruct (update_debug_info_registry parse_ok rg libs maps) as [rg'| | |]; try discriminate.
    cbn [bind] in R. destruct (rounds_of resolve poke_ok parse_ok rg' t) as [r0| | |] eqn:R0; try discriminate.
    cbn [bind] in R. inversion R; subst. cbn [map fst]. f_equal. apply (IH _ _ R0).
Qed.
