From BS Require Import Model.Base Model.Mem.
From Coq Require Import Lia.
Open Scope N_scope.

(* real mappings are page-granular, hence 8-byte-word-granular: a byte is mapped iff the
   first byte of its aligned word is *)
Definition word_granular (m : mem) : Prop := forall x, mapped m x = mapped m (x / 8 * 8).

(* T1: the aligned read returns exactly the requested bytes when all of them are mapped and
   fails with EIO otherwise (never touches anything that makes it fail spuriously) *)
Theorem read_memory_exact m a n :
  word_granular m -> n < 2 ^ 63 -> a + n <= 2 ^ 64 ->
  read_memory m a n = match spec_read m a n with Some bs => Ok bs | None => Err EIO end.
Admitted.

(* T2: the previous, unaligned loop fails on a fully mapped request at the end of a mapping *)
Theorem read_memory_unaligned_refuted :
  exists m a n, word_granular m /\ spec_read m a n <> None /\ read_memory_unaligned m a n = Err EIO.
Admitted.

(* T3: write_bytes succeeds when the target range is mapped and then changes exactly
   [a, a+|bytes|) to bytes, everything else (including the rest of the boundary words) unchanged *)
Theorem write_bytes_exact m a bytes :
  word_granular m -> a + N.of_nat (length bytes) < 2 ^ 64 ->
  all_mapped m a (length bytes) = true ->
  exists m', write_bytes m a bytes = Ok m' /\ forall x, m' x = spec_write m a bytes x.
Admitted.

(* T4: it fails (EIO) when some target byte is unmapped, and even then no byte outside the
   target range changes in whatever was written before the failure *)
Theorem write_bytes_unmapped m a bytes :
  word_granular m -> a + N.of_nat (length bytes) < 2 ^ 64 ->
  all_mapped m a (length bytes) = false ->
  write_bytes m a bytes = Err EIO.
Admitted.
