(* Kernel acceptance of debug-register writes, on top of the watchpoint machine of
   Model/Wp.v (src/debugger/watchpoint.rs, src/debugger/register.rs `mod debug`).

   Model/Wp.v assumes every PTRACE_POKEUSER of a debug register succeeds.  Linux
   validates them (arch/x86/kernel/ptrace.c ptrace_set_breakpoint_addr /
   ptrace_write_dr7 -> arch_build_bp_info / hw_breakpoint_arch_parse):
   - writing the address register DR_i is refused (EINVAL) unless the new address is
     aligned to the length the kernel currently associates with slot i, i.e. the LEN
     bits of the last accepted DR7 write of that thread (a never-used slot: length 1);
   - writing DR7 is refused unless for EVERY slot i, enabled or not, the address now in
     DR_i is aligned to the length the new DR7 gives slot i.
   HardwareDebugState::sync (register.rs) writes DR0..DR3, then DR6, then DR7 and stops
   at the first failure; watchpoint.rs only logs the error.  So a sync is "accepted"
   exactly when all four address writes pass against the thread's old lengths and the
   DR7 write passes with the new addresses and the new lengths.  No proofs here. *)
From BS Require Import Model.Base Gen.Dr Model.Dr Model.Wp.
Open Scope N_scope.

(* LEN encoding -> byte length (00 -> 1, 01 -> 2, 11 -> 4, 10 -> 8); same table as
   Proofs.DrProofs.len_dec, re-stated here because a Model file imports no proofs *)
Definition klen_dec (s : N) : N := if s =? 0 then 1 else if s =? 1 then 2 else if s =? 3 then 4 else 8.

(* the length the kernel associates with slot r of a thread whose last accepted image is h *)
Definition klen (h : hw) (r : N) : N := klen_dec (size_bits (h_dr7 h) r).

Definition addr_ok (a len : N) : bool := a mod len =? 0.

Definition slot_addr (h : hw) (r : N) : N := nth (N.to_nat r) (h_regs h) 0.

(* slot r of a sync of image `new` to a thread whose current image is `old`:
   the address write (against the old length) and the DR7 write (new address, new length) *)
Definition slot_accepted (old new : hw) (r : N) : bool :=
  addr_ok (slot_addr new r) (klen old r) && addr_ok (slot_addr new r) (klen new r).

Definition sync_accepted (old new : hw) : bool := forallb (slot_accepted old new) [0; 1; 2; 3].

(* commands whose address is a multiple of the byte length of their size encoding
   (what the debugger's front end is expected to hand over; the hardware ignores the
   low address bits otherwise and the kernel refuses the write) *)
Definition aligned_op (o : wop) : bool :=
  match o with
  | WAddAddr a sz _ | WAddExpr a sz _ _ => addr_ok a (klen_dec sz)
  | _ => true
  end.

(* ---- the image a command asks every thread to take (None: the command does not sync) ---- *)
Definition enable_image (s : st) (a sz c : N) : option hw :=
  match hw_enable s a sz c with Ok (_, h, _) => Some h | _ => None end.
Definition remove_image (s : st) (i : nat) : option hw :=
  match nth_error (wps s) i with
  | None => None
  | Some w =>
      let s0 := with_wps s (firstn i (wps s) ++ skipn (S i) (wps s)) (last_seen s) (wp_counter s) in
      match hw_disable s0 (w_reg w) with Ok (_, h) => Some h | _ => None end
  end.
Definition cmd_image (s : st) (o : wop) : option hw :=
  match o with
  | WAddAddr a sz c => if already_observed s a then None else enable_image s a sz c
  | WAddExpr a sz c e =>
      if already_observed s a then None else enable_image (fst (add_expr_prepare s e)) a sz c
  | WRemoveNum n =>
      match position (fun w => w_num w =? n) (wps s) with None => None | Some i => remove_image s i end
  | WRemoveAddr a =>
      match position (fun w => w_addr w =? a) (wps s) with None => None | Some i => remove_image s i end
  | WNewThread _ | WExitThread _ => None
  end.
(* distribute_to_tracee: what a thread that appears now is asked to take *)
Definition new_thread_image (s : st) : option hw := last_seen s.

(* ---- the machine with the pre-repair HardwareBreakpoint::disable ---- *)
(* only the enable bit (and LE when it was the last one) is cleared; the address
   register and the RW/LEN bits of the freed slot keep their values *)
Definition hw_disable_old (s : st) (reg : option N) : res (st * hw) :=
  let cur := main_hw s in
  match reg with
  | None => Panic 2
  | Some r =>
      let h := mk_hw (h_regs cur) (h_dr6 cur) (set_dr (h_dr7 cur) r false false) in
      Ok (sync_all s h, h)
  end.

Definition remove_at_old (s : st) (i : nat) : res st :=
  match nth_error (wps s) i with
  | None => Panic 3
  | Some w =>
      let s0 := with_wps s (firstn i (wps s) ++ skipn (S i) (wps s)) (last_seen s) (wp_counter s) in
      r <- hw_disable_old s0 (w_reg w) ;;
      let '(s1, h) := r in
      let s2 := match w_companion w with Some b => decrease_rc s1 b (w_num w) | None => s1 end in
      Ok (with_wps s2 (wps s2) (Some h) (wp_counter s2))
  end.
Definition remove_by_num_old (s : st) (n : N) : res st :=
  match position (fun w => w_num w =? n) (wps s) with None => Ok s | Some i => remove_at_old s i end.
Definition remove_by_addr_old (s : st) (a : N) : res st :=
  match position (fun w => w_addr w =? a) (wps s) with None => Ok s | Some i => remove_at_old s i end.

Definition wstep_old (s : st) (o : wop) : st * N :=
  let fin (r : res st) (on_err : st) : st * N :=
    match r with Ok s' => (s', 0) | Err e => (on_err, 10 + e) | Panic p => (on_err, 100 + p) | OutOfFuel => (on_err, 99) end in
  match o with
  | WRemoveNum n => fin (remove_by_num_old s n) s
  | WRemoveAddr a => fin (remove_by_addr_old s a) s
  | _ => wstep s o
  end.
Definition wrun_old (ops : list wop) (s : st) : st := fold_left (fun s o => fst (wstep_old s o)) ops s.
