(* C14 (kernel side) - every debug-register sync the watchpoint machine asks for is accepted
   by the kernel's validation of PTRACE_POKEUSER on DR0-3 / DR7.
   Statements only; proofs are in ProofsWpKernel.v. *)
From BS Require Import Model.Base Gen.Dr Model.Dr Model.Wp Proofs.DrProofs Proofs.WpProofs.
From W Require Import ModelWpKernel ProofsWpKernel.
Open Scope N_scope.

(* Over any history of valid, aligned commands, whatever valid aligned command comes next:
   the image it asks the threads to take (cmd_image: the `h` of hw_enable / hw_disable)
   passes, for EVERY thread, all four address writes (against the lengths the kernel
   currently holds for that thread) and the DR7 write (new addresses, new lengths). *)
Theorem C14_every_sync_accepted : forall ops m o h,
  Forall valid_op ops -> aligned_ops ops -> valid_op o -> aligned_op o = true ->
  cmd_image (wrun ops (st_init m)) o = Some h ->
  Forall (fun th => sync_accepted (snd th) h = true) (threads (wrun ops (st_init m))).
Proof. exact every_sync_accepted. Qed.

(* the same on the results of the model functions *)
Theorem C14_every_enable_accepted : forall ops m a sz c s1 h r,
  Forall valid_op ops -> aligned_ops ops -> valid_size sz -> valid_cond c ->
  addr_ok a (klen_dec sz) = true ->
  hw_enable (wrun ops (st_init m)) a sz c = Ok (s1, h, r) ->
  Forall (fun th => sync_accepted (snd th) h = true) (threads (wrun ops (st_init m))).
Proof. exact every_enable_accepted. Qed.

Theorem C14_every_expr_enable_accepted : forall ops m a sz c e s1 h r,
  Forall valid_op ops -> aligned_ops ops -> valid_size sz -> valid_cond c ->
  addr_ok a (klen_dec sz) = true ->
  hw_enable (fst (add_expr_prepare (wrun ops (st_init m)) e)) a sz c = Ok (s1, h, r) ->
  Forall (fun th => sync_accepted (snd th) h = true) (threads (wrun ops (st_init m))).
Proof. exact every_expr_enable_accepted. Qed.

Theorem C14_every_disable_accepted : forall ops m i w s1 h,
  Forall valid_op ops -> aligned_ops ops ->
  let s := wrun ops (st_init m) in
  nth_error (wps s) i = Some w ->
  hw_disable (with_wps s (firstn i (wps s) ++ skipn (S i) (wps s)) (last_seen s) (wp_counter s)) (w_reg w)
    = Ok (s1, h) ->
  Forall (fun th => sync_accepted (snd th) h = true) (threads s).
Proof. exact every_disable_accepted. Qed.

(* a thread created later: the distributed last_seen image is accepted by a fresh (zero) thread *)
Theorem C14_new_thread_sync_accepted : forall ops m h,
  Forall valid_op ops -> aligned_ops ops ->
  new_thread_image (wrun ops (st_init m)) = Some h -> sync_accepted hw_zero h = true.
Proof. exact new_thread_sync_accepted. Qed.

(* cmd_image is what wstep really distributes *)
Theorem C14_cmd_image_distributed : forall s o h,
  cmd_image s o = Some h ->
  snd (wstep s o) = 0 /\
  threads (fst (wstep s o)) = map (fun th => (fst th, h)) (threads s) /\
  last_seen (fst (wstep s o)) = Some h.
Proof. exact cmd_image_distributed. Qed.

(* the invariant behind it: in every thread a free slot is neutral (address 0, length 1),
   a used slot's address is aligned to its length *)
Theorem C14_reachable_images_neutral : forall ops m t h r,
  Forall valid_op ops -> aligned_ops ops -> In (t, h) (threads (wrun ops (st_init m))) -> valid_r r ->
  match slot_view h r with
  | None => slot_addr h r = 0 /\ klen h r = 1
  | Some _ => addr_ok (slot_addr h r) (klen h r) = true
  end.
Proof. exact reachable_images_neutral. Qed.

(* the pre-repair disable: watch 8 bytes at 4096; remove; watch 1 byte at 4108 is refused *)
Theorem C14_old_disable_sync_rejected_refuted :
  exists ops o h,
    Forall valid_op ops /\ aligned_ops ops /\ valid_op o /\ aligned_op o = true /\
    cmd_image (wrun_old ops (st_init 100)) o = Some h /\
    sync_accepted (main_hw (wrun_old ops (st_init 100))) h = false /\
    klen (main_hw (wrun_old ops (st_init 100))) 0 = 8 /\ slot_addr h 0 = 4108 /\
    Exists (fun th => sync_accepted (snd th) h = false) (threads (wrun_old ops (st_init 100))).
Proof. exact old_disable_sync_rejected_refuted. Qed.

(* non-vacuity: removal, slot reuse at an address only aligned to the new size, a late thread *)
Example C14K_example :
  let ops := [WAddAddr 4096 SIZE_Bytes8 COND_DataWrites; WAddAddr 4104 SIZE_Bytes4 COND_DataReadsWrites;
              WRemoveNum 1; WNewThread 7] in
  let s := wrun ops (st_init 5) in
  match cmd_image s (WAddAddr 4110 SIZE_Bytes2 COND_DataWrites) with
  | Some h => map (fun th => sync_accepted (snd th) h) (threads s) = [true; true]
              /\ slot_view h 0 = Some (4110, COND_DataWrites, SIZE_Bytes2)
  | None => False
  end.
Proof. vm_compute. split; reflexivity. Qed.

Print Assumptions C14_every_sync_accepted.
Print Assumptions C14_every_enable_accepted.
Print Assumptions C14_every_expr_enable_accepted.
Print Assumptions C14_every_disable_accepted.
Print Assumptions C14_new_thread_sync_accepted.
Print Assumptions C14_cmd_image_distributed.
Print Assumptions C14_reachable_images_neutral.
Print Assumptions C14_old_disable_sync_rejected_refuted.
