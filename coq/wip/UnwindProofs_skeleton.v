From BS Require Import Model.Base Gen.Unwind Model.Unwind.
From Coq Require Import Lia.
Open Scope N_scope.

Section P.
Context {R : Type}.
Variable step : R -> N -> option (N * R).
Variable ra : R -> option N.
Variable set_sp : R -> N -> R.

Notation chain := (chain step ra set_sp).
Notation listed := (listed step ra set_sp).
Notation unwind_with := (unwind_with step ra set_sp).
Notation regs_at_frame := (regs_at_frame step ra set_sp).

(* T1: with the (return address, CFA) guard the backtrace is the whole real chain (up to the
   depth cap), whenever no (return address, CFA) pair repeats - in particular under any
   depth of recursion, because CFAs strictly increase towards the callers *)
Theorem unwind_ipcfa_complete pc0 regs0 ucx :
  step regs0 pc0 = Some ucx ->
  NoDup (chain (MAX_UNWIND_DEPTH - 1) ucx) ->
  unwind_with GuardIpCfa pc0 regs0 = pc0 :: map fst (listed (MAX_UNWIND_DEPTH - 1) ucx).
Admitted.

(* T2: with the return-address-only guard the same holds only when no return address repeats *)
Theorem unwind_ip_partial pc0 regs0 ucx :
  step regs0 pc0 = Some ucx ->
  NoDup (pc0 :: map fst (chain (MAX_UNWIND_DEPTH - 1) ucx)) ->
  unwind_with GuardIp pc0 regs0 = pc0 :: map fst (listed (MAX_UNWIND_DEPTH - 1) ucx).
Admitted.

(* T4: no frame information at all: only frame 0 *)
Theorem unwind_no_info pc0 regs0 mode : step regs0 pc0 = None -> unwind_with mode pc0 regs0 = [pc0].
Admitted.

(* T5: selecting frame k (restore_registers_at_frame) succeeds for every listed frame *)
Theorem regs_at_frame_listed pc0 regs0 ucx k :
  step regs0 pc0 = Some ucx -> (k <= length (listed (MAX_UNWIND_DEPTH - 1) ucx))%nat ->
  regs_at_frame pc0 regs0 k <> None.
Admitted.
End P.

(* strictly increasing CFAs (the x86-64 stack grows down, callers have higher CFAs) make all
   (ip, cfa) pairs distinct *)
Lemma increasing_cfa_nodup (l : list (N * N)) :
  (forall i j a b, (i < j)%nat -> nth_error l i = Some a -> nth_error l j = Some b -> snd a < snd b) ->
  NoDup l.
Admitted.

(* T3: REFUTED for the return-address-only guard: a self-recursive function with three live
   activations - the real stack has 5 frames, the backtrace stops after 2 *)
Definition rec_stack : tbl := [(10, 100); (20, 108); (20, 116); (20, 124); (30, 132)].
Theorem unwind_ip_guard_refuted :
  unwind_tbl GuardIp rec_stack = [10; 20] /\ unwind_tbl GuardIpCfa rec_stack = map fst rec_stack.
Admitted.

(* for the table instance (the frame-pointer walk of the harness) with strictly increasing
   CFAs, the model returns exactly the frames' ips, up to the depth cap *)
Theorem unwind_tbl_complete (t : tbl) :
  (forall i j a b, (i < j)%nat -> nth_error t i = Some a -> nth_error t j = Some b -> snd a < snd b) ->
  unwind_tbl GuardIpCfa t = firstn MAX_UNWIND_DEPTH (map fst t).
Admitted.
